import AioProps.C08Post
/-! C08: the invariant is kept by every producer operation and by `step`; bookkeeping of
`delivered`. -/
namespace Aio.C08
open Aio

theorem off_le_flatten {s : S} (hi : Inv s) : s.off ≤ s.bufs.flatten.length := by
  cases hb : s.bufs with
  | nil => rw [hi.off_nil hb]; simp
  | cons b t => have := hi.off_lt b t hb; simp; omega

/-- the state after `feed_data(d)`, `d ≠ b""`, for any outcome of the wake-up and pause decisions -/
def feedUpd (s : S) (d : Bytes) (f : Fut) (p tp : Bool) (ev : List Ev) : S :=
  { s with size := s.size + d.length, bufs := s.bufs ++ [d], total := s.total + d.length,
           fed := s.fed ++ d, waiter := false, fut := f, paused := p, tpaused := tp, evs := ev }

theorem inv_feedUpd {s : S} (hi : Inv s) (d : Bytes) (hd : d ≠ []) (f : Fut) (p tp : Bool) (ev : List Ev)
    (hf : f = .pending → False) (htp : s.connected = true → tp = true → p = true)
    (hbd : p = false → s.eof = false → s.size + d.length ≤ s.high ∧ nsplits s ≤ s.highChunks) :
    Inv (feedUpd s d f p tp ev) := by
  have hrest : rest (feedUpd s d f p tp ev) = rest s ++ d := by
    simp only [feedUpd, rest, List.flatten_append, List.flatten_cons, List.flatten_nil, List.append_nil]
    exact List.drop_append_of_le_length (off_le_flatten hi)
  constructor
  · intro b hb
    rcases List.mem_append.mp hb with h | h
    · exact hi.nonempty b h
    · simp at h; rw [h]; exact hd
  · intro b t hbt
    cases hb : s.bufs with
    | nil =>
      simp [feedUpd, hb] at hbt
      show s.off < b.length
      rw [hi.off_nil hb, ← hbt.1]
      exact List.length_pos_iff.mpr hd
    | cons b0 t0 =>
      simp [feedUpd, hb] at hbt
      show s.off < b.length
      rw [← hbt.1]; exact hi.off_lt b0 t0 hb
  · intro h; simp [feedUpd] at h
  · rw [hrest]; simp [feedUpd]; rw [hi.size_eq]
  · rw [hrest]; show s.taken ++ (rest s ++ d) = s.fed ++ d; rw [← List.append_assoc, hi.cons]
  · exact hi.cursor_eq
  · show s.total + d.length = (s.fed ++ d).length
    rw [hi.total_eq]; simp
  · exact hi.sorted
  · intro l hl q hq
    have := hi.range l hl q hq
    exact ⟨this.1, by show q ≤ s.total + d.length; omega⟩
  · exact hi.inb
  · exact hi.high_eq
  · exact hi.lwc
  · exact htp
  · exact hbd
  · intro h; cases h
  · intro h; cases h
  · intro h; exact absurd h hf

theorem feed_inv {s : S} (hi : Inv s) (d : Bytes) : Inv (feed s d).1 := by
  by_cases heof : s.eof = true
  · simp [feed, heof]; exact hi
  by_cases hd : d = []
  · simp [feed, heof, hd]; exact hi
  have hfp := hi.fut_pending
  have htp := hi.tp
  have hbd := hi.bounded
  cases s with
  | mk bufs off size cursor total splits eof exc low high lowChunks highChunks recheck waiter parked fut connected
       paused tpaused evs fed taken bounds delivered lost =>
  simp only at heof hfp htp hbd
  cases eof
  case true => exact absurd rfl heof
  cases waiter <;> cases connected <;> by_cases hsz : size + d.length > high <;>
    simp only [feed, wake, pauseReading, hd, hsz, List.isEmpty_iff, if_true, if_false,
      Bool.false_eq_true]
  all_goals
    refine inv_feedUpd hi d hd _ _ _ _ ?_ ?_ ?_
    · intro h; first | (have := hfp h; cases this) | cases h
    · intro hc' ht; first | exact htp hc' ht | rfl | cases hc'
    · intro hp he; first | exact ⟨by simp only [] ; omega, (hbd hp he).2⟩ | cases hp

theorem last_of_mem_eq_top {t : Nat} : ∀ {l : List Nat}, l.Pairwise (· < ·) → (∀ p ∈ l, p ≤ t) → t ∈ l →
    l.getLast? = some t
  | [], _, _, h => by simp at h
  | [x], _, _, h => by simp at h; simp [h]
  | x :: y :: r, hs, hle, h => by
    rw [List.getLast?_cons_cons]
    rcases List.mem_cons.mp h with rfl | hm
    · have h1 := List.rel_of_pairwise_cons hs (List.mem_cons_self (a := y) (l := r))
      have h2 := hle y (by simp)
      omega
    · exact last_of_mem_eq_top (List.Pairwise.of_cons hs) (fun p hp => hle p (List.mem_cons_of_mem _ hp)) hm

theorem lt_of_last_ne {t : Nat} {l : List Nat} (hs : l.Pairwise (· < ·)) (hle : ∀ p ∈ l, p ≤ t)
    (hne : l.getLast?.getD 0 ≠ t) : ∀ a ∈ l, a < t := by
  intro a ha
  have h1 := hle a ha
  by_cases h : a = t
  · subst h
    have := last_of_mem_eq_top hs hle ha
    rw [this] at hne
    simp at hne
  · omega

/-- the state after an `end_http_chunk_receiving()` that recorded a new split -/
def endUpd (s : S) (sp : List Nat) (f : Fut) (p tp : Bool) (ev : List Ev) : S :=
  { s with bounds := s.bounds ++ [s.total], splits := some (sp ++ [s.total]), waiter := false, fut := f,
           paused := p, tpaused := tp, evs := ev }

theorem inv_endUpd {s : S} (hi : Inv s) (sp : List Nat) (hsp : s.splits = some sp)
    (hne : sp.getLast?.getD 0 ≠ s.total) (f : Fut) (p tp : Bool) (ev : List Ev)
    (hf : f = .pending → False) (htp : s.connected = true → tp = true → p = true)
    (hbd : p = false → s.eof = false → s.size ≤ s.high ∧ sp.length + 1 ≤ s.highChunks) :
    Inv (endUpd s sp f p tp ev) := by
  have hlt := lt_of_last_ne (hi.sorted sp hsp) (fun q hq => (hi.range sp hsp q hq).2) hne
  exact { hi with
    sorted := by
      intro l hl; simp only [endUpd, Option.some.injEq] at hl; subst hl
      rw [List.pairwise_append]
      exact ⟨hi.sorted sp hsp, by simp, by intro a ha b hb; simp at hb; subst hb; exact hlt a ha⟩
    range := by
      intro l hl q hq; simp only [endUpd, Option.some.injEq] at hl; subst hl
      rcases List.mem_append.mp hq with h | h
      · exact hi.range sp hsp q h
      · simp at h; subst h; exact ⟨cursor_le_total (s := s) hi, Nat.le_refl _⟩
    inb := by
      intro l hl q hq; simp only [endUpd, Option.some.injEq] at hl; subst hl
      show q ∈ s.bounds ++ [s.total]
      rcases List.mem_append.mp hq with h | h
      · exact List.mem_append_left _ (hi.inb sp hsp q h)
      · exact List.mem_append_right _ h
    tp := htp
    bounded := by
      intro hp he
      have := hbd hp he
      exact ⟨this.1, by simp [nsplits, endUpd]; exact this.2⟩
    waiter_parked := by intro h; cases h
    waiter_empty := by intro h; cases h
    fut_pending := by intro h; exact absurd h hf }

theorem endChunk_inv {s : S} (hi : Inv s) : Inv (endChunk s).1 := by
  cases hsp : s.splits with
  | none => simp [endChunk, hsp]; exact hi
  | some sp =>
    by_cases hpos : s.total = sp.getLast?.getD 0
    · have e : (endChunk s).1 = { s with bounds := s.bounds ++ [s.total] } := by
        unfold endChunk
        split
        · rename_i h; rw [hsp] at h; cases h
        · rename_i sp' h
          rw [hsp] at h; cases h
          rw [if_pos hpos]
      rw [e]
      exact { hi with
        inb := by
          intro l hl q hq
          exact List.mem_append_left _ (hi.inb l hl q hq) }
    · have hne : sp.getLast?.getD 0 ≠ s.total := fun h => hpos h.symm
      have hfp := hi.fut_pending
      have htp := hi.tp
      have hbd := hi.bounded
      cases s with
      | mk bufs off size cursor total splits eof exc low high lowChunks highChunks recheck waiter parked fut connected
           paused tpaused evs fed taken bounds delivered lost =>
      simp only at hsp hfp htp hbd hpos hne
      subst hsp
      simp only [nsplits] at hbd
      cases waiter <;> cases connected <;> by_cases hsz : sp.length + 1 > highChunks <;>
        simp only [endChunk, wake, pauseReading, hpos, hsz, if_true, if_false, Bool.false_eq_true]
      all_goals
        refine inv_endUpd hi sp rfl hne _ _ _ _ ?_ ?_ ?_
        · intro h; first | (have := hfp h; cases this) | cases h
        · intro hc' ht; first | exact htp hc' ht | rfl | cases hc'
        · intro hp he; first | exact ⟨(hbd hp he).1, by simp only []; omega⟩ | cases hp

theorem wake_inv {s : S} (hi : Inv s) : Inv (wake s) := by
  unfold wake
  split
  · exact { hi with
      waiter_parked := by intro h; cases h
      waiter_empty := by intro h; cases h
      fut_pending := by intro h; cases h }
  · exact hi

theorem wakeExc_inv {s : S} (hi : Inv s) (e : Nat) : Inv (wakeExc s e) := by
  unfold wakeExc
  split
  · exact { hi with
      waiter_parked := by intro h; cases h
      waiter_empty := by intro h; cases h
      fut_pending := by intro h; cases h }
  · exact hi

theorem feedEof_inv {s : S} (hi : Inv s) : Inv (feedEof s).1 := by
  have h1 : Inv { s with eof := true } := { hi with bounded := by intro _ h; cases h }
  have h2 := wake_inv h1
  have he2 : (wake { s with eof := true }).eof = true := by unfold wake; split <;> rfl
  unfold feedEof
  simp only []
  generalize wake { s with eof := true } = s2 at h2 he2
  unfold resumeReading
  split
  · exact { h2 with
      tp := by intro _ h; cases h
      bounded := by intro _ he; rw [he2] at he; cases he }
  · rename_i hc
    exact { h2 with
      tp := by intro h; exact absurd h hc
      bounded := by intro _ he; rw [he2] at he; cases he }

theorem setExc_inv {s : S} (hi : Inv s) (e : Nat) : Inv (setExc s e).1 := by
  have h1 : Inv { s with exc := some e } := { hi with }
  exact wakeExc_inv h1 e

theorem beginChunk_inv {s : S} (hi : Inv s) : Inv (beginChunk s).1 := by
  unfold beginChunk
  split
  · exact hi
  · rename_i hn
    split
    · exact hi
    · exact { hi with
        sorted := by intro l hl; simp at hl; subst hl; simp
        range := by intro l hl q hq; simp at hl; subst hl; simp at hq
        inb := by intro l hl q hq; simp at hl; subst hl; simp at hq
        bounded := by
          intro hp he
          exact ⟨(hi.bounded hp he).1, by simp [nsplits]⟩ }

theorem disconnect_inv {s : S} (hi : Inv s) : Inv { s with connected := false } :=
  { hi with tp := by intro h; cases h }

theorem evs_inv {s : S} (hi : Inv s) (ev : List Ev) : Inv { s with evs := ev } := { hi with }

theorem initF_inv (f : Bool) (limit : Nat) : Inv (initF f limit) := by
  constructor <;> simp [initF, rest, nsplits, Gen.C08.highMul, Gen.C08.chunkFloor, Gen.C08.lowDiv]
  omega

theorem init_inv (limit : Nat) : Inv (init limit) := initF_inv _ limit

/-! ### entry points of the consumer coroutines -/

theorem post_inv {s : S} {acc : Bytes} {r : S × Out} (hi : Inv s) (h : Post s acc r) : Inv r.1 := by
  obtain ⟨⟨d, hr, -⟩, -, -, -⟩ := h
  exact reach_inv hi hr

theorem setChunk_parked (s : S) (n : Nat) : (setChunk s n).parked = s.parked := by
  unfold setChunk; split <;> rfl

theorem post_setChunk {s : S} {acc : Bytes} {r : S × Out} (n : Nat) (h : Post (setChunk s n) acc r) :
    Post s acc r :=
  post_of_reach (Reach.one (Move.setChunk s n)) (by simpa using h)

theorem startRead_post {s : S} (hi : Inv s) (hp : s.parked = none) (n : Option Nat) (it : Bool) :
    Post s [] (startRead s n it) := by
  unfold startRead
  split
  · exact post_raise hp _ _
  · rename_i hexc
    have hx : s.recheck = true → s.exc = none := fun _ => hexc
    split
    · exact ⟨⟨[], Reach.refl s, by intro _; simp [outBytes, pendAcc, hp]⟩, by intro _; exact hp, (by intro h; cases h), accok_of_none hp⟩
    · rename_i n _
      exact post_setChunk n (contRead_post (setChunk_inv hi n) (by rw [setChunk_parked]; exact hp) (hx_setChunk n hx) n it)
    · exact post_setChunk _ (contReadAll_post _ [] it (setChunk_inv hi _) (by rw [setChunk_parked]; exact hp) (hx_setChunk _ hx))

theorem startReadAny_post {s : S} (hi : Inv s) (hp : s.parked = none) (it : Bool) :
    Post s [] (startReadAny s it) := by
  unfold startReadAny
  split
  · exact post_raise hp _ _
  · rename_i hexc
    exact contReadAny_post hi hp (fun _ => hexc) it

theorem startReadUntil_post {s : S} (hi : Inv s) (hp : s.parked = none) (sep : Bytes) (m : Nat) (it : Bool) :
    Post s [] (startReadUntil s sep m it) := by
  unfold startReadUntil
  split
  · exact ⟨⟨[], Reach.refl s, by intro _; simp [outBytes, pendAcc, hp]⟩, by intro _; exact hp, (by intro h; cases h), accok_of_none hp⟩
  · split
    · exact post_raise hp _ _
    · rename_i hexc
      exact contReadUntil_post hi hp (fun _ => hexc) sep _ [] it

theorem startReadExactly_post {s : S} (hi : Inv s) (hp : s.parked = none) (n : Nat) :
    Post s [] (startReadExactly s n) := by
  unfold startReadExactly
  split
  · exact post_raise hp _ _
  · split
    · exact ⟨⟨[], Reach.refl s, by intro _; simp [outBytes, pendAcc, hp]⟩, by intro _; exact hp, (by intro h; cases h), accok_of_none hp⟩
    · rename_i hexc _
      exact post_setChunk n (contReadExactly_post _ n [] (setChunk_inv hi n) (by rw [setChunk_parked]; exact hp)
        (hx_setChunk n (fun _ => hexc)))

theorem resume_post {s : S} (hi : Inv s) (p : Pend) (hw : s.waiter = false) (hpk : s.parked = some p)
    (ha : AccOk s) : Post s p.acc (resume s p) := by
  have hm := Move.unpark s hw
  have hi1 := move_inv hi hm
  have hfp : s.fut ≠ .pending := by
    intro h; have := hi.fut_pending h; rw [hw] at this; cases this
  refine post_of_reach (Reach.one hm) ?_
  simp only [List.append_nil]
  unfold resume
  simp only []
  split
  · rename_i h; exact absurd h hfp
  · exact post_raise rfl _ _
  · split
    · exact post_raise rfl _ _
    rename_i hnone
    have hx : ({ s with parked := none } : S).recheck = true → ({ s with parked := none } : S).exc = none := by
      intro hr
      simp only [] at hr hnone
      rw [hr] at hnone
      simpa using hnone
    split
    · rename_i n hk
      have h0 : p.acc = [] := ha p hpk (by rw [hk]; rfl)
      rw [h0]; exact contRead_post hi1 rfl hx n p.iter
    · rename_i hk
      have h0 : p.acc = [] := ha p hpk (by rw [hk]; rfl)
      rw [h0]; exact contReadAny_post hi1 rfl hx p.iter
    · exact contReadAll_post _ p.acc p.iter hi1 rfl hx
    · exact contReadUntil_post hi1 rfl hx _ _ p.acc p.iter
    · exact contReadExactly_post _ _ p.acc hi1 rfl hx
    · rename_i hk
      have h0 : p.acc = [] := ha p hpk (by rw [hk]; rfl)
      rw [h0]; exact contReadChunk_post hi1 rfl p.iter

theorem doReadNowait_post {s : S} (hi : Inv s) (hp : s.parked = none) (n : Option Nat) :
    Post s [] (doReadNowait s n) := by
  unfold doReadNowait
  split
  · rename_i h; simp [hp] at h
  · split
    · exact post_raise hp _ _
    · split
      · rename_i hw; have := (hi.waiter_parked hw).1; rw [hp] at this; cases this
      · obtain ⟨d, hr, hd, -, -⟩ := readNowait_reach hi n
        have hq := quiet_readNowait s n
        have := post_data (acc := []) (by rw [hq.parked]; exact hp) hr
        simpa [hd] using this

/-! ### producer operations keep `PInv` -/

theorem feed_pinv {s : S} (hp : PInv s) (d : Bytes) : PInv (feed s d).1 := by
  unfold feed wake pauseReading
  split
  · exact hp
  · split
    · exact hp
    · simp only []
      split <;> split <;> (try split) <;>
        exact ⟨hp.lowpos, by intro _; show s.bufs ++ [d] ≠ []; simp⟩

theorem beginChunk_pinv {s : S} (hp : PInv s) : PInv (beginChunk s).1 := by
  unfold beginChunk
  split
  · exact hp
  · split
    · exact hp
    · exact ⟨hp.lowpos, hp.paused_nonempty⟩

theorem endChunk_pinv {s : S} (hi : Inv s) (hp : PInv s) : PInv (endChunk s).1 := by
  unfold endChunk
  split
  · exact hp
  · rename_i sp hsp
    simp only []
    split
    · exact ⟨hp.lowpos, hp.paused_nonempty⟩
    · -- more than `highChunks` pending splits need at least two distinct offsets in [cursor, total]
      have key : sp.length + 1 > s.highChunks → s.bufs ≠ [] := by
        intro hgt hb
        have hsz : s.size = 0 := by rw [hi.size_eq, rest_nil hb]; rfl
        have hct := cursor_add_size hi
        have h1 := sorted_const_length (c := s.cursor) (hi.sorted sp hsp)
          (by intro p hp; have := hi.range sp hsp p hp; omega)
        have := hi.lwc
        omega
      unfold wake pauseReading
      simp only []
      split
      · rename_i hgt
        have hne := key hgt
        split <;> split <;> exact ⟨hp.lowpos, fun _ => hne⟩
      · split <;> exact ⟨hp.lowpos, hp.paused_nonempty⟩

theorem feedEof_pinv {s : S} (hp : PInv s) : PInv (feedEof s).1 := by
  unfold feedEof wake resumeReading
  simp only []
  split <;> split <;> exact ⟨hp.lowpos, by intro h; cases h⟩

theorem setExc_pinv {s : S} (hp : PInv s) (e : Nat) : PInv (setExc s e).1 := by
  unfold setExc wakeExc
  simp only []
  split <;> exact ⟨hp.lowpos, hp.paused_nonempty⟩

theorem setChunk_pinv {s : S} (hp : PInv s) (n : Nat) : PInv (setChunk s n) := by
  unfold setChunk
  split
  · rename_i h; exact ⟨by show 0 < n; omega, hp.paused_nonempty⟩
  · exact hp

/-! ### producer operations keep `XInv` -/

theorem feed_xinv {s : S} (hx : XInv s) (d : Bytes) : XInv (feed s d).1 := by
  unfold feed wake pauseReading
  split
  · exact hx
  · split
    · exact hx
    · simp only []
      split <;> split <;> (try split) <;> intro h1 h2 <;> first | rfl | exact hx h1 h2

theorem beginChunk_xinv {s : S} (hx : XInv s) : XInv (beginChunk s).1 := by
  unfold beginChunk
  split
  · exact hx
  · split <;> exact hx

theorem endChunk_xinv {s : S} (hx : XInv s) : XInv (endChunk s).1 := by
  unfold endChunk wake pauseReading
  split
  · exact hx
  · simp only []
    split
    · exact hx
    · split <;> split <;> (try split) <;> intro h1 h2 <;> first | rfl | exact hx h1 h2

theorem feedEof_xinv {s : S} (hx : XInv s) : XInv (feedEof s).1 := by
  unfold feedEof wake resumeReading
  simp only []
  split <;> split <;> intro h1 h2 <;> first | rfl | exact hx h1 h2

theorem setExc_xinv (s : S) (e : Nat) : XInv s → XInv (setExc s e).1 := by
  intro hx
  unfold setExc wakeExc
  simp only []
  split
  · intro _ _; rfl
  · rename_i hw; intro _ _; simpa using hw

theorem setChunk_xinv {s : S} (hx : XInv s) (n : Nat) : XInv (setChunk s n) := by
  unfold setChunk; split <;> exact hx

/-! ### the step-level invariant -/

structure SInv (s : S) : Prop where
  inv : Inv s
  accok : AccOk s
  deliv : s.lost = false → s.delivered ++ pendAcc s = s.taken

/-- what one `core` call guarantees -/
structure CoreSpec (s : S) (r : S × Out) : Prop where
  inv : Inv r.1
  accok : AccOk r.1
  delivered : r.1.delivered = s.delivered
  deliv : r.1.lost = false → s.delivered ++ outBytes r.2 ++ pendAcc r.1 = r.1.taken
  pinv : PInv s → PInv r.1
  xinv : XInv s → XInv r.1
  recheck : r.1.recheck = s.recheck
  blocked : r.2 = .blocked → r.1.waiter = true

theorem iterOut_blocked (it : Bool) (o : Out) (h : iterOut it o = .blocked) : o = .blocked := by
  unfold iterOut at h
  split at h
  · split at h <;> first | exact h | cases h
  · exact h

theorem outBytes_iterOut (it : Bool) (o : Out) : outBytes (iterOut it o) = outBytes o := by
  unfold iterOut
  split
  · split <;> simp [outBytes]
  · rfl

theorem post_core {s : S} (hs : SInv s) {acc : Bytes} {r : S × Out} (hacc : pendAcc s = acc)
    (h : Post s acc r) (it : Bool) : CoreSpec s (r.1, iterOut it r.2) := by
  obtain ⟨⟨d, hr, hd⟩, -, hbl, ha⟩ := h
  have hf := reach_frame hr
  have ht := reach_taken hs.inv hr
  refine ⟨reach_inv hs.inv hr, ha, hf.delivered, ?_, fun hp => pinv_reach hs.inv hp hr, fun hx => xinv_reach hx hr, hf.recheck,
    fun hb => hbl (iterOut_blocked it _ hb)⟩
  intro hl
  have hl0 : s.lost = false := by
    cases h : s.lost with
    | false => rfl
    | true => have := hf.lost h; simp only [] at hl; rw [hl] at this; cases this
  have h1 := hs.deliv hl0
  have h2 := hd hl
  simp only [outBytes_iterOut]
  rw [ht.1, ← h1, hacc, List.append_assoc, List.append_assoc, h2]

/-- producer-side operations leave the consumer bookkeeping alone -/
structure ProdFrame (s : S) (r : S × Out) : Prop where
  parked : r.1.parked = s.parked
  taken : r.1.taken = s.taken
  delivered : r.1.delivered = s.delivered
  lost : r.1.lost = s.lost
  recheck : r.1.recheck = s.recheck
  out : outBytes r.2 = []
  nb : r.2 ≠ .blocked

theorem prod_core {s : S} (hs : SInv s) {r : S × Out} (hi : Inv r.1) (h : ProdFrame s r)
    (hpi : PInv s → PInv r.1) (hxi : XInv s → XInv r.1) : CoreSpec s r := by
  refine ⟨hi, ?_, h.delivered, ?_, hpi, hxi, h.recheck, fun hb => absurd hb h.nb⟩
  · intro p hp; rw [h.parked] at hp; exact hs.accok p hp
  · intro hl
    rw [h.lost] at hl
    have := hs.deliv hl
    rw [h.out, h.taken, ← this]
    simp [pendAcc, h.parked]

theorem feed_frame (s : S) (d : Bytes) : ProdFrame s (feed s d) := by
  unfold feed wake pauseReading
  split
  · exact ⟨rfl, rfl, rfl, rfl, rfl, rfl, by intro h; cases h⟩
  · split
    · exact ⟨rfl, rfl, rfl, rfl, rfl, rfl, by intro h; cases h⟩
    · simp only []
      split <;> split <;> (try split) <;> exact ⟨rfl, rfl, rfl, rfl, rfl, rfl, by intro h; cases h⟩

theorem beginChunk_frame (s : S) : ProdFrame s (beginChunk s) := by
  unfold beginChunk
  split
  · exact ⟨rfl, rfl, rfl, rfl, rfl, rfl, by intro h; cases h⟩
  · split <;> exact ⟨rfl, rfl, rfl, rfl, rfl, rfl, by intro h; cases h⟩

theorem endChunk_frame (s : S) : ProdFrame s (endChunk s) := by
  unfold endChunk wake pauseReading
  split
  · exact ⟨rfl, rfl, rfl, rfl, rfl, rfl, by intro h; cases h⟩
  · simp only []
    split
    · exact ⟨rfl, rfl, rfl, rfl, rfl, rfl, by intro h; cases h⟩
    · split <;> split <;> (try split) <;> exact ⟨rfl, rfl, rfl, rfl, rfl, rfl, by intro h; cases h⟩

theorem feedEof_frame (s : S) : ProdFrame s (feedEof s) := by
  unfold feedEof wake resumeReading
  simp only []
  split <;> split <;> exact ⟨rfl, rfl, rfl, rfl, rfl, rfl, by intro h; cases h⟩

theorem setExc_frame (s : S) (e : Nat) : ProdFrame s (setExc s e) := by
  unfold setExc wakeExc
  simp only []
  split <;> exact ⟨rfl, rfl, rfl, rfl, rfl, rfl, by intro h; cases h⟩

theorem setChunk_frame (s : S) (n : Nat) : ProdFrame s (setChunk s n, Out.ok) := by
  unfold setChunk
  split <;> exact ⟨rfl, rfl, rfl, rfl, rfl, rfl, by intro h; cases h⟩

theorem same_core {s : S} (hs : SInv s) (o : Out) (ho : outBytes o = []) (hb : o ≠ .blocked) : CoreSpec s (s, o) :=
  prod_core hs hs.inv ⟨rfl, rfl, rfl, rfl, rfl, ho, hb⟩ id id

theorem consumer_core {s : S} (hs : SInv s) (it : Bool) (f : S → S × Out)
    (hf : s.parked = none → Post s [] (f s)) : CoreSpec s (consumer s it f) := by
  unfold consumer
  split
  · exact same_core hs _ rfl (by intro h; cases h)
  · rename_i hp
    have hp' : s.parked = none := by simpa using hp
    exact post_core hs (by simp [pendAcc, hp']) (hf hp') it

theorem core_spec {s : S} (hs : SInv s) (op : Op) : CoreSpec s (core s op) := by
  cases op with
  | feed d => exact prod_core hs (feed_inv hs.inv d) (feed_frame s d) (fun hp => feed_pinv hp d) (fun hx => feed_xinv hx d)
  | beginChunk => exact prod_core hs (beginChunk_inv hs.inv) (beginChunk_frame s) beginChunk_pinv beginChunk_xinv
  | endChunk => exact prod_core hs (endChunk_inv hs.inv) (endChunk_frame s) (endChunk_pinv hs.inv) endChunk_xinv
  | feedEof => exact prod_core hs (feedEof_inv hs.inv) (feedEof_frame s) feedEof_pinv feedEof_xinv
  | setExc e => exact prod_core hs (setExc_inv hs.inv e) (setExc_frame s e) (fun hp => setExc_pinv hp e) (setExc_xinv s e)
  | disconnect => exact prod_core hs (disconnect_inv hs.inv) ⟨rfl, rfl, rfl, rfl, rfl, rfl, by intro h; cases h⟩ (fun hp => ⟨hp.lowpos, hp.paused_nonempty⟩) (fun hx => hx)
  | setChunkSize n => exact prod_core hs (setChunk_inv hs.inv n) (setChunk_frame s n) (fun hp => setChunk_pinv hp n) (fun hx => setChunk_xinv hx n)
  | read n it =>
    refine consumer_core hs it (fun s => startRead (if it = true then setChunk s (n.getD 0) else s) n it) (fun hp => ?_)
    split
    · exact post_setChunk _ (startRead_post (setChunk_inv hs.inv _) (by rw [setChunk_parked]; exact hp) n it)
    · exact startRead_post hs.inv hp n it
  | readAny it => exact consumer_core hs it (fun s => startReadAny s it) (fun hp => startReadAny_post hs.inv hp it)
  | readUntil sep m it => exact consumer_core hs it (fun s => startReadUntil s sep m it) (fun hp => startReadUntil_post hs.inv hp sep m it)
  | readExactly n => exact consumer_core hs false (fun s => startReadExactly s n) (fun hp => startReadExactly_post hs.inv hp n)
  | readChunk it => exact consumer_core hs it (fun s => contReadChunk s it) (fun hp => contReadChunk_post hs.inv hp it)
  | readNowait n =>
    simp only [core]
    by_cases hp : s.parked = none
    · have := post_core hs (by simp [pendAcc, hp]) (doReadNowait_post hs.inv hp n) false
      simpa [iterOut] using this
    · have hps : s.parked.isSome = true := by
        cases h : s.parked with
        | none => exact absurd h hp
        | some _ => rfl
      unfold doReadNowait
      split
      · exact same_core hs _ rfl (by intro h; cases h)
      · rename_i hc
        have hw : s.waiter = true := by simpa [hps] using hc
        split
        · -- raise with nothing taken: only `lost` is rewritten to itself
          unfold raise
          exact prod_core hs { hs.inv with } ⟨rfl, rfl, rfl, by simp, rfl, rfl, by intro h; cases h⟩ (fun hp => ⟨hp.lowpos, hp.paused_nonempty⟩) (fun hx => hx)
        · simp only [hw, if_true]
          exact same_core hs _ rfl (by intro h; cases h)
  | wakeup =>
    simp only [core]
    split
    · exact same_core hs _ rfl (by intro h; cases h)
    · rename_i p hpk
      split
      · exact same_core hs _ rfl (by intro h; cases h)
      · rename_i hw
        have hw' : s.waiter = false := by simpa using hw
        exact post_core hs (by simp [pendAcc, hpk]) (resume_post hs.inv p hw' hpk hs.accok) p.iter

theorem step_sinv {s : S} (hs : SInv s) (op : Op) : SInv (step s op).1 := by
  have hs0 : SInv { s with evs := [] } :=
    ⟨evs_inv hs.inv [], hs.accok, hs.deliv⟩
  have hc := core_spec hs0 op
  unfold step
  simp only []
  refine ⟨{ hc.inv with }, hc.accok, ?_⟩
  intro hl
  have := hc.deliv hl
  show (core { s with evs := [] } op).1.delivered ++ outBytes (core { s with evs := [] } op).2 ++
      pendAcc (core { s with evs := [] } op).1 = _
  rw [hc.delivered]; exact this

theorem step_pinv {s : S} (hs : SInv s) (hp : PInv s) (op : Op) : PInv (step s op).1 := by
  have hs0 : SInv { s with evs := [] } := ⟨evs_inv hs.inv [], hs.accok, hs.deliv⟩
  have hc := core_spec hs0 op
  have := hc.pinv ⟨hp.lowpos, hp.paused_nonempty⟩
  exact ⟨this.lowpos, this.paused_nonempty⟩

theorem step_xinv {s : S} (hs : SInv s) (hx : XInv s) (op : Op) : XInv (step s op).1 := by
  have hs0 : SInv { s with evs := [] } := ⟨evs_inv hs.inv [], hs.accok, hs.deliv⟩
  exact (core_spec hs0 op).xinv hx

theorem step_recheck {s : S} (hs : SInv s) (op : Op) : (step s op).1.recheck = s.recheck := by
  have hs0 : SInv { s with evs := [] } := ⟨evs_inv hs.inv [], hs.accok, hs.deliv⟩
  exact (core_spec hs0 op).recheck

theorem exec_recheck {s : S} (hs : SInv s) (ops : List Op) : (exec s ops).recheck = s.recheck := by
  induction ops generalizing s with
  | nil => rfl
  | cons op ops ih => exact (ih (step_sinv hs op)).trans (step_recheck hs op)

theorem exec_xinv {s : S} (hs : SInv s) (hx : XInv s) (ops : List Op) : XInv (exec s ops) := by
  induction ops generalizing s with
  | nil => exact hx
  | cons op ops ih => exact ih (step_sinv hs op) (step_xinv hs hx op)

theorem exec_pinv {s : S} (hs : SInv s) (hp : PInv s) (ops : List Op) : PInv (exec s ops) := by
  induction ops generalizing s with
  | nil => exact hp
  | cons op ops ih => exact ih (step_sinv hs op) (step_pinv hs hp op)

theorem step_blocked {s : S} (hs : SInv s) (op : Op) (h : (step s op).2 = .blocked) :
    (step s op).1.waiter = true := by
  have hs0 : SInv { s with evs := [] } := ⟨evs_inv hs.inv [], hs.accok, hs.deliv⟩
  exact (core_spec hs0 op).blocked h

theorem initF_sinv (f : Bool) (limit : Nat) : SInv (initF f limit) :=
  ⟨initF_inv f limit, accok_of_none rfl, by intro _; rfl⟩

theorem init_sinv (limit : Nat) : SInv (init limit) := initF_sinv _ limit

theorem exec_sinv {s : S} (hs : SInv s) (ops : List Op) : SInv (exec s ops) := by
  induction ops generalizing s with
  | nil => exact hs
  | cons op ops ih => exact ih (step_sinv hs op)

end Aio.C08
