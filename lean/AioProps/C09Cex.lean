import AioModel.C09
/-! Counterexample scenarios for C09 (findings on the unchanged code), evaluated by the kernel. -/
namespace Aio.C09

/-! ### stale parser pause (chunked, no compression, limit 4) -/
/-- `9\r\nXXXXXXXXX\r\n` — one chunk larger than the high-water mark, the read ends right after it -/
def staleSeg1 : Bytes := [57, 13, 10] ++ List.replicate 9 88 ++ [13, 10]
/-- `5\r\nhello\r\n0\r\n\r\n` — the rest of the body, complete -/
def staleSeg2 : Bytes := [53, 13, 10, 104, 101, 108, 108, 111, 13, 10, 48, 13, 10, 13, 10]
def staleOps : List Op := [.deliver staleSeg1, .readAny, .deliver staleSeg2]
/-- the code before the repair: `clearOnNeeds = false` -/
def staleWorld : World Codec.ident := run (World.init Codec.ident 4 .chunked 0 false false false true 128 false) staleOps

/-! the three stale-pause scenarios (known findings K8 / K9 / K10: the pausing read ends after the
chunk's CRLF / after the chunk's data / inside the next size line) followed by two more reads,
on the model of the code before (`false`) and after (`true`) the repair -/
def hello : Bytes := [104, 101, 108, 108, 111]
/-- `9\r\nXXXXXXXXX` | `\r\n5\r\nhello\r\n0\r\n\r\n` -/
def k9Ops : List Op := [.deliver ([57, 13, 10] ++ List.replicate 9 88), .readAny,
  .deliver ([13, 10, 53, 13, 10] ++ hello ++ [13, 10, 48, 13, 10, 13, 10]), .readAny, .readAny]
/-- `9\r\nXXXXXXXXX\r\n5` | `\r\nhello\r\n0\r\n\r\n` -/
def k10Ops : List Op := [.deliver ([57, 13, 10] ++ List.replicate 9 88 ++ [13, 10, 53]), .readAny,
  .deliver ([13, 10] ++ hello ++ [13, 10, 48, 13, 10, 13, 10]), .readAny, .readAny]
def k8Ops : List Op := staleOps ++ [.readAny, .readAny]
def staleRun (fl : Bool) (ops : List Op) : World Codec.ident :=
  run (World.init Codec.ident 4 .chunked 0 false false false true 128 fl) ops

/-! ### peer close while the decoder has pending output (Content-Length 1, bomb byte, limit 4) -/
def f19Ops : List Op := [.deliver [200], .close, .readAny]
def f19World : World Codec.expand := run (World.init Codec.expand 4 .length 1 true false false true) f19Ops

/-! ### peer close while the chunked parser holds unparsed input (no compression, limit 4) -/
def chunkCloseOps : List Op := [.deliver (staleSeg1 ++ staleSeg2), .close]
def chunkCloseWorld : World Codec.ident := run (World.init Codec.ident 4 .chunked 0 false false false true) chunkCloseOps

/-! ### parked reader woken by a chunk end misses the exception set right after -/
/-- a decoder that produces no output for some input bytes (here: drops 0xFF), as every real
decompressor does for headers, checksums and block boundaries -/
def Codec.dropFF : Codec where
  St := Unit
  init := ()
  toRaw := fun _ => ()
  step := fun _ i _ => some ((), i.filter (· != 255))
  avail := fun _ => false
  atEof := fun _ => true
/-- `2\r\na` -/
def parkSeg1 : Bytes := [50, 13, 10, 97]
/-- `\xff\r\nZZ\r\n` — last byte of the chunk (no output), chunk end, malformed chunk-size line -/
def parkSeg2 : Bytes := [255, 13, 10, 90, 90, 13, 10]
def parkOps : List Op := [.deliver parkSeg1, .reqRead 0, .deliver parkSeg2, .reqRead 0]
/-- the code before the `_wait` repair: `waitRechecks = false` -/
def parkWorld : World Codec.dropFF := run (World.init Codec.dropFF 4 .chunked 0 true false false false 128 false false) parkOps
/-- the same scenario up to (not including) the last `BaseRequest.read()` step, `_wait` repaired or not -/
def parkRun (waitRechecks : Bool) : World Codec.dropFF :=
  run (World.init Codec.dropFF 4 .chunked 0 true false false false 128 false waitRechecks) (parkOps.take 3)

/-! ### readline parks after the parser failed during its own re-entrant refill (K13) -/
/-- chunked: `1\r\n\x05\r\n` `1\r\n\x04\r\n` `1\r\n\x00\r\n` `0\r\n\r\n` — two good chunks (5 + 4 decoded bytes,
over the high-water mark 8), then a chunk the toy decoder rejects, all in one read -/
def k13Wire : Bytes := [49,13,10,5,13,10, 49,13,10,4,13,10, 49,13,10,0,13,10, 48,13,10,13,10]
/-- the body is received, the parser pauses with the corrupt chunk still pending; `read(2)`; the next
op is `readline()`.  `_wait` re-checks after a wake-up (497c4dd) in both runs; `entry` = it also
checks before parking. -/
def k13Run (entry : Bool) : World Codec.expand :=
  run (World.init Codec.expand 4 .chunked 0 true false false false 128 true true entry) [.deliver k13Wire, .pread 2]

end Aio.C09
