import AioModel.C12
import AioModel.C12Spec
import AioProps.C12Lemmas
import AioProps.C12Bound
/-!
# C12 — property theorems about the reader model (`AioModel/C12.lean`)

`Reader.core` is the reader without the two items that *do* depend on how the input was cut
(`len(_payload_fragments)` and the transport's paused flag): parser state, inflate context,
`_partial`, `_tail`, the latched error, every message delivered, queue size.
-/
namespace Aio.C12
open Aio

variable {Z : Inflater}

/-- Feeding `a` and then `b` leaves the reader (messages delivered, error, parser state, tail,
queue size — everything but the fragment count and the pause flag) exactly where feeding
`a ++ b` in one call leaves it.  All configurations, all states, all byte strings. -/
theorem feed_append (c : Cfg) (r : Reader Z) (a b : Bytes) :
    (feed c (feed c r a) b).core = (feed c r (a ++ b)).core := by
  rw [feed_core, feed_core, feed_core]
  generalize r.core = k
  unfold feedK
  by_cases h : k.exc.isSome
  · simp [h]
  · simp only [h, Bool.false_eq_true, if_false]
    have := loopK_append c (fuelFor (k.tail ++ a)) k.k (k.tail ++ a) b (need_le_fuelFor _ _)
    rw [List.append_assoc] at this
    rw [this]; rfl

/-- Segmentation independence: for every non-empty list of segments, feeding them one by one
gives the same messages, the same error (or none), the same parser state and the same retained
bytes as feeding their concatenation in a single call. -/
theorem segmentation_independent (c : Cfg) : ∀ (segs : List Bytes) (r : Reader Z) (s : Bytes),
    (feedAll c r (s :: segs)).core = (feed c r (s :: segs).flatten).core := by
  intro segs
  induction segs with
  | nil => intro r s; simp [feedAll]
  | cons t rest ih =>
    intro r s
    have h1 : feedAll c r (s :: t :: rest) = feedAll c (feed c r s) (t :: rest) := rfl
    rw [h1, ih (feed c r s) t, feed_append]
    simp

/-- …and from the initial state also for the empty list (nothing fed = empty input fed). -/
theorem segmentation_independent_init (c : Cfg) (segs : List Bytes) :
    (feedAll c ({} : Reader Z) segs).core = (feed c ({} : Reader Z) segs.flatten).core := by
  cases segs with
  | nil => rfl
  | cons s t => exact segmentation_independent c t {} s

example : (feedAll (Z := toyInflater) ⟨0, false, true, 100⟩ {} [[0x81], [0x02, 0x68], [0x69]]).p.k.msgs
    = [.text [0x68, 0x69]] := by decide +kernel

/-- The error latch: once `feed_data` has failed, every later call returns at once and changes
nothing — no message is delivered after the violation, whatever arrives. -/
theorem error_latched (c : Cfg) (r : Reader Z) (h : r.exc.isSome) :
    ∀ ds : List Bytes, feedAll c r ds = r := by
  intro ds
  induction ds with
  | nil => rfl
  | cons d ds ih =>
    have : feed c r d = r := by simp [feed, h]
    simp [feedAll, this, ih]

example : (feed (Z := toyInflater) ⟨0, false, true, 100⟩ {} [0x83, 0x00]).exc = some (.ws 1002) := by
  decide +kernel

/-- Within one call nothing is delivered after the violation either: messages only ever grow by
appending, and the call that fails returns the messages delivered before the failing frame
(`loop` stops at the first `fail`) — the delivered list of a failed reader is frozen. -/
theorem delivered_frozen_after_error (c : Cfg) (r : Reader Z) (d : Bytes)
    (h : (feed c r d).exc.isSome) (ds : List Bytes) :
    (feedAll c (feed c r d) ds).p.k.msgs = (feed c r d).p.k.msgs := by
  rw [error_latched c _ h]

/-- Bounded retention: in every state reachable from the initial one by any sequence of
`feed_data` calls (any bytes, any segmentation) with no error so far, the bytes kept for the
incomplete frame/message (`_tail` + fragments + `_partial`) are at most `max_msg_size + 125`. -/
theorem retained_bounded (c : Cfg) (hmax : c.maxMsgSize ≠ 0) (segs : List Bytes) :
    (feedAll c ({} : Reader Z) segs).exc = none →
    retained (feedAll c ({} : Reader Z) segs) ≤ c.maxMsgSize + 125 := by
  intro hexc
  exact InvR_retained c hmax _ (feedAll_InvR c hmax segs {} (InvR_init c hmax)) hexc

/-- Every data message put on the queue is at most `max_msg_size` long — also when it was
inflated: for **any** inflate function (no assumption on zlib) a longer result is rejected. -/
theorem delivered_bounded (c : Cfg) (hmax : c.maxMsgSize ≠ 0) (segs : List Bytes) :
    ∀ m ∈ (feedAll c ({} : Reader Z) segs).p.k.msgs, m.size ≤ max c.maxMsgSize 125 := by
  exact (feedAll_InvR c hmax segs {} (InvR_init c hmax)).2

/-! ## the reference decoder: what is proved, what is not

Full statement (NOT proved, and false on the unchanged code — see the three witnesses below):

    theorem reader_refines_spec (c : Cfg) (segs : List Bytes) :
      let r := feedAll c ({} : Reader Z) segs
      let s := Spec.decode (Z := Z) c segs.flatten
      r.p.k.msgs = s.msgs ∧ r.exc = s.err.map Spec.Viol.toErr

What is proved towards it: the right-hand side does not mention `segs`, and
`segmentation_independent_init` shows the left-hand side does not depend on them either, so the
statement reduces to the single-call case `segs = [data]`; `error_latched`,
`delivered_frozen_after_error`, `retained_bounded`, `delivered_bounded` are its size/latch
clauses.  The frame-by-frame simulation `loopK ≈ Spec.go` under the two excluding hypotheses
(`s.err ≠ some .dataInMessage`, `s.atLimit = false`) is NOT proved in this round; agreement of
model and reference decoder is covered by the correspondence run only (implementation = model
on every generated stream, implementation = Python twin of `Spec.decode` in the direct oracle,
Python twin = `Spec.decode` through the driver).
-/

/-- Finding (size bound): a message of *exactly* `max_msg_size` bytes is rejected with 1009 by
the reader, while the reference decoder ("messages above max_msg_size") delivers it. -/
theorem exact_max_rejected :
    (feed (Z := toyInflater) ⟨3, false, true, 100⟩ {} [0x82, 3, 1, 2, 3]).exc = some (.ws 1009) ∧
    (feed (Z := toyInflater) ⟨3, false, true, 100⟩ {} [0x82, 3, 1, 2, 3]).p.k.msgs = [] ∧
    Spec.decode (Z := toyInflater) ⟨3, false, true, 100⟩ [0x82, 3, 1, 2, 3]
      = ⟨[.binary [1, 2, 3]], none, true⟩ := by decide +kernel

/-- Finding (fragmentation): TEXT(non-fin "a"), BINARY(non-fin "b"), CONT(fin "c") — a new data
frame while a message is open — is delivered as the binary message "abc" with no error; the
reference decoder ends the stream with 1002 at the second frame. -/
theorem nested_data_frame_accepted :
    (feed (Z := toyInflater) ⟨0, false, true, 100⟩ {} [0x01, 1, 0x61, 0x02, 1, 0x62, 0x80, 1, 0x63]).p.k.msgs
      = [.binary [0x61, 0x62, 0x63]] ∧
    (feed (Z := toyInflater) ⟨0, false, true, 100⟩ {} [0x01, 1, 0x61, 0x02, 1, 0x62, 0x80, 1, 0x63]).exc = none ∧
    Spec.decode (Z := toyInflater) ⟨0, false, true, 100⟩ [0x01, 1, 0x61, 0x02, 1, 0x62, 0x80, 1, 0x63]
      = ⟨[], some .dataInMessage, false⟩ := by decide +kernel

/-- Finding F9 (pause wedge), the mechanism for every configuration and every frame: a read
that ends inside a frame's payload (`buf` shorter than the bytes still to read) appends one
fragment — `fragCount` grows by one per such read, whatever its size — and as soon as the count
exceeds `_max_fragments` the reader pauses the transport.  If no message is queued at that
moment, `read` has nothing to return and nothing ever un-pauses: the `toRead - buf.length > 0`
missing bytes of a perfectly legal frame can never arrive, although the same bytes fed in fewer
pieces are delivered (`segmentation_independent`).  Reproduced on the real code by the harness
(2100-byte frame, `max_msg_size` 4096, 2 bytes per read: wedged after 1026 reads). -/
theorem pause_wedge (c : Cfg) (p : P Z) (buf : Bytes)
    (hph : p.k.phase = .payload) (hlt : buf.length < p.k.toRead)
    (hmax : maxFragments c ≠ 0) (hcnt : p.fragCount ≥ maxFragments c)
    (hq : p.k.msgs.drop p.k.nread = []) :
    let r := feed c { p := p, tail := [], exc := none } buf
    r.p.fragCount = p.fragCount + 1 ∧ r.p.paused = true ∧ r.exc = none ∧
    r.p.k.toRead = p.k.toRead - buf.length ∧ r.p.k.toRead ≠ 0 ∧
    (read c r).2 = .empty ∧ (read c r).1.p.paused = true := by
  have hmin : min p.k.toRead buf.length = buf.length := Nat.min_eq_right (by omega)
  have hnz : p.k.toRead - buf.length ≠ 0 := by omega
  have hm : microK c p.k buf = .park { p.k with toRead := p.k.toRead - buf.length, frags := p.k.frags ++ buf } := by
    unfold microK; simp only [hph]; unfold payStep; simp [hmin, hnz, hph]
  have hr : feed c { p := p, tail := [], exc := none } buf =
      { p := { k := { p.k with toRead := p.k.toRead - buf.length, frags := p.k.frags ++ buf },
               fragCount := p.fragCount + 1,
               paused := if maxFragments c ≠ 0 ∧ p.fragCount + 1 > maxFragments c ∧ ¬ p.paused then true else p.paused },
        tail := [], exc := none } := by
    unfold feed
    simp only [Option.isSome_none, Bool.false_eq_true, if_false, List.nil_append]
    rw [show fuelFor buf = (4 * buf.length + 7) + 1 from by unfold fuelFor; omega]
    simp only [loop, micro, hm]
  have hp : (if maxFragments c ≠ 0 ∧ p.fragCount + 1 > maxFragments c ∧ ¬ p.paused then true else p.paused) = true := by
    cases hpz : p.paused with
    | true => simp
    | false => simp; exact ⟨hmax, by omega⟩
  rw [hr, hp]
  refine ⟨rfl, rfl, rfl, rfl, hnz, ?_, ?_⟩
  · unfold read; simp only [hq]
  · unfold read; simp only [hq]

-- the hypotheses are reachable: after the 4 header bytes of a 2100-byte frame the reader is in
-- the payload state with 2100 bytes to read and an empty queue
example : let r := feed (Z := toyInflater) ⟨4096, false, true, 131072⟩ {} [0x82, 0x7e, 0x08, 0x34]
    r.p.k.phase = .payload ∧ r.p.k.toRead = 2100 ∧ r.p.k.msgs = [] ∧ r.p.fragCount = 1 ∧
    maxFragments ⟨4096, false, true, 131072⟩ = 1024 := by decide +kernel

/-- Flow control of the data queue: reading a message first subtracts its size and only then tests
the resume condition — so whenever the bytes still queued after the read are below the limit, the
transport is un-paused by that very read.  In particular reading the only queued message
(`qsize = m.size`) always un-pauses (for any positive limit), however large the message was. -/
theorem read_unpauses (c : Cfg) (r : Reader Z) (m : Msg) (rest : List Msg)
    (h : r.p.k.msgs.drop r.p.k.nread = m :: rest) (hlt : r.p.k.qsize - m.size < c.queueLimit) :
    (read c r).2 = .msg m ∧ (read c r).1.p.paused = false ∧ (read c r).1.p.k.qsize = r.p.k.qsize - m.size := by
  unfold read
  rw [h]
  refine ⟨rfl, ?_, rfl⟩
  show (if r.p.k.qsize - m.size < c.queueLimit ∧ r.p.paused = true then false else r.p.paused) = false
  cases hp : r.p.paused <;> simp [hlt]

theorem read_last_unpauses (c : Cfg) (hl : 0 < c.queueLimit) (r : Reader Z) (m : Msg)
    (h : r.p.k.msgs.drop r.p.k.nread = [m]) (hq : r.p.k.qsize = m.size) :
    (read c r).1.p.paused = false :=
  (read_unpauses c r m [] h (by rw [hq]; simpa using hl)).2.1

end Aio.C12
