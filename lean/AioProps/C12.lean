import AioModel.C12
import AioModel.C12Spec
namespace Aio.C12
end Aio.C12
