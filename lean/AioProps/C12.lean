import AioModel.C12
import AioModel.C12Spec
import AioProps.C12Lemmas
import AioProps.C12Bound
/-!
# C12 — property theorems about the reader model (`AioModel/C12.lean`)

`Reader.core` is the reader without the two items that *do* depend on how the input was cut
(`len(_payload_fragments)` and the transport's paused flag): parser state, inflate context,
`_partial`, `_tail`, the latched error, every message delivered, queue size.
-/
namespace Aio.C12
open Aio

variable {Z : Inflater}

/-- Feeding `a` and then `b` leaves the reader (messages delivered, error, parser state, tail,
queue size — everything but the fragment count and the pause flag) exactly where feeding
`a ++ b` in one call leaves it.  All configurations, all states, all byte strings. -/
theorem feed_append (c : Cfg) (r : Reader Z) (a b : Bytes) :
    (feed c (feed c r a) b).core = (feed c r (a ++ b)).core := by
  rw [feed_core, feed_core, feed_core]
  generalize r.core = k
  unfold feedK
  by_cases h : k.exc.isSome
  · simp [h]
  · simp only [h, Bool.false_eq_true, if_false]
    have := loopK_append c (fuelFor (k.tail ++ a)) k.k (k.tail ++ a) b (need_le_fuelFor _ _)
    rw [List.append_assoc] at this
    rw [this]; rfl

/-- Segmentation independence: for every non-empty list of segments, feeding them one by one
gives the same messages, the same error (or none), the same parser state and the same retained
bytes as feeding their concatenation in a single call. -/
theorem segmentation_independent (c : Cfg) : ∀ (segs : List Bytes) (r : Reader Z) (s : Bytes),
    (feedAll c r (s :: segs)).core = (feed c r (s :: segs).flatten).core := by
  intro segs
  induction segs with
  | nil => intro r s; simp [feedAll]
  | cons t rest ih =>
    intro r s
    have h1 : feedAll c r (s :: t :: rest) = feedAll c (feed c r s) (t :: rest) := rfl
    rw [h1, ih (feed c r s) t, feed_append]
    simp

/-- …and from the initial state also for the empty list (nothing fed = empty input fed). -/
theorem segmentation_independent_init (c : Cfg) (segs : List Bytes) :
    (feedAll c ({} : Reader Z) segs).core = (feed c ({} : Reader Z) segs.flatten).core := by
  cases segs with
  | nil => rfl
  | cons s t => exact segmentation_independent c t {} s

example : (feedAll (Z := toyInflater) ⟨0, false, true, 100⟩ {} [[0x81], [0x02, 0x68], [0x69]]).p.k.msgs
    = [.text [0x68, 0x69]] := by decide +kernel

/-- The error latch: once `feed_data` has failed, every later call returns at once and changes
nothing — no message is delivered after the violation, whatever arrives. -/
theorem error_latched (c : Cfg) (r : Reader Z) (h : r.exc.isSome) :
    ∀ ds : List Bytes, feedAll c r ds = r := by
  intro ds
  induction ds with
  | nil => rfl
  | cons d ds ih =>
    have : feed c r d = r := by simp [feed, h]
    simp [feedAll, this, ih]

example : (feed (Z := toyInflater) ⟨0, false, true, 100⟩ {} [0x83, 0x00]).exc = some (.ws 1002) := by
  decide +kernel

/-- Within one call nothing is delivered after the violation either: messages only ever grow by
appending, and the call that fails returns the messages delivered before the failing frame
(`loop` stops at the first `fail`) — the delivered list of a failed reader is frozen. -/
theorem delivered_frozen_after_error (c : Cfg) (r : Reader Z) (d : Bytes)
    (h : (feed c r d).exc.isSome) (ds : List Bytes) :
    (feedAll c (feed c r d) ds).p.k.msgs = (feed c r d).p.k.msgs := by
  rw [error_latched c _ h]

/-- Bounded retention: in every state reachable from the initial one by any sequence of
`feed_data` calls (any bytes, any segmentation) with no error so far, the bytes kept for the
incomplete frame/message (`_tail` + fragments + `_partial`) are at most `max_msg_size + 125`. -/
theorem retained_bounded (c : Cfg) (hmax : c.maxMsgSize ≠ 0) (segs : List Bytes) :
    (feedAll c ({} : Reader Z) segs).exc = none →
    retained (feedAll c ({} : Reader Z) segs) ≤ c.maxMsgSize + 125 := by
  intro hexc
  exact InvR_retained c hmax _ (feedAll_InvR c hmax segs {} (InvR_init c hmax)) hexc

/-- Every data message put on the queue is at most `max_msg_size` long — also when it was
inflated: for **any** inflate function (no assumption on zlib) a longer result is rejected. -/
theorem delivered_bounded (c : Cfg) (hmax : c.maxMsgSize ≠ 0) (segs : List Bytes) :
    ∀ m ∈ (feedAll c ({} : Reader Z) segs).p.k.msgs, m.size ≤ max c.maxMsgSize 125 := by
  exact (feedAll_InvR c hmax segs {} (InvR_init c hmax)).2

end Aio.C12
