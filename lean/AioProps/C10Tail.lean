import AioProps.C03Chunked
import AioProps.C10
/-!
# C10: what the chunked body parser keeps between reads is bounded — for every run

`chunk_tail_bounded` (C10.lean) is the one-step fact: a buffered partial chunk-size / trailer line
that passes the early check is at most `limit + 1` long.  This file lifts it to every call:

* `chunkedLoop_tail`: whatever `chunkedLoop` saves for the next call is a piece of the bytes it
  was given (no longer than them), and it saves nothing while it is inside chunk data;
* `payloadFeed_retained`: after a call of `HttpPayloadParser.feed_data(d)` that neither completes
  nor raises, the retained `_chunk_tail` is at most `limit + 1 + |d|` bytes, the limit being
  `max_field_size` for a trailer line and `max_line_size` otherwise — for every earlier state
  the parser can be in and every `d`.  So an unterminated chunk-size line, chunk extension or
  trailer is cut off after `limit + 1` bytes plus one read, however it is dribbled in.
* `PayInv` is the invariant (`tail = []` inside chunk data), preserved by every call.
-/
namespace Aio.Http
open Aio

def KTail (m : Nat) (k : LoopK) : Prop :=
  ∀ p c evs p' evs', c.length < m → p.tail = [] → k p c evs = (.needs p', evs') →
    p'.tail.length ≤ c.length ∧ (p'.cstate = .chunk → p'.tail = []) ∧ p'.type = p.type

theorem chunkEofStep_tail (cfg : Cfg) (m : Nat) (k : LoopK) (hk : KTail m k)
    (p : PState) (c : Bytes) (evs : List Ev) (p' : PState) (evs' : List Ev) (hc : c.length ≤ m) (ht : p.tail = [])
    (hs : p.cstate = .chunkEof)
    (h : chunkEofStep cfg k p c evs = (.needs p', evs')) :
    p'.tail.length ≤ c.length ∧ (p'.cstate = .chunk → p'.tail = []) ∧ p'.type = p.type := by
  unfold chunkEofStep at h
  simp only [] at h
  split at h
  · next hsep =>
    have hlt := drop_lt_of_take_eq _ _ _ (sepLen_pos cfg.lax) (sepBytes_ne cfg.lax) hsep
    have hle := skipCR_length_le cfg.lax c
    rw [List.length_drop] at hlt
    have r := hk _ _ _ _ _ (by rw [List.length_drop]; omega) (by simpa using ht) h
    refine ⟨?_, r.2.1, r.2.2⟩
    have := r.1
    rw [List.length_drop] at this
    omega
  · split at h
    · cases h
    · injection h with h1 h2
      injection h1 with h1
      subst h1
      refine ⟨by simp, ?_, rfl⟩
      intro hcs
      simp [hs] at hcs

theorem chunkStep_tail (cfg : Cfg) (m : Nat) (k : LoopK) (hk : KTail m k)
    (p : PState) (c : Bytes) (evs : List Ev) (p' : PState) (evs' : List Ev) (hc : c.length ≤ m) (ht : p.tail = [])
    (h : chunkStep cfg k p c evs = (.needs p', evs')) :
    p'.tail.length ≤ c.length ∧ (p'.cstate = .chunk → p'.tail = []) ∧ p'.type = p.type := by
  unfold chunkStep at h
  simp only [] at h
  split at h
  · injection h with h1 h2
    injection h1 with h1
    subst h1
    simp [ht]
  · have r := chunkEofStep_tail cfg m k hk _ _ _ _ _ (by simp; omega) (by simpa using ht) rfl h
    refine ⟨?_, r.2.1, r.2.2⟩
    have := r.1
    rw [List.length_drop] at this
    omega

theorem trailersStep_tail (cfg : Cfg) (m : Nat) (k : LoopK) (hk : KTail m k)
    (p : PState) (c : Bytes) (evs : List Ev) (p' : PState) (evs' : List Ev) (hc : c.length ≤ m) (ht : p.tail = [])
    (hs : p.cstate = .trailers)
    (h : trailersStep cfg k p c evs = (.needs p', evs')) :
    p'.tail.length ≤ c.length ∧ (p'.cstate = .chunk → p'.tail = []) ∧ p'.type = p.type := by
  unfold trailersStep at h
  cases hf : findSep cfg.lax c with
  | none =>
    simp only [hf] at h
    split at h
    · cases h
    · injection h with h1 h2
      injection h1 with h1
      subst h1
      refine ⟨by simp, ?_, rfl⟩
      intro hcs
      simp [hs] at hcs
  | some pos =>
    have hbd := findSep_bound cfg.lax c pos hf
    have hsl := sepLen_pos cfg.lax
    simp only [hf] at h
    split at h
    · cases h
    · split at h
      · cases h
      · split at h
        · split at h <;> cases h
        · have r := hk _ _ _ _ _ (by simp; omega) (by simpa using ht) h
          refine ⟨?_, r.2.1, r.2.2⟩
          have := r.1
          rw [List.length_drop] at this
          omega

theorem sizeStep_tail (cfg : Cfg) (m : Nat) (k : LoopK) (hk : KTail m k)
    (p : PState) (c : Bytes) (evs : List Ev) (p' : PState) (evs' : List Ev) (hc : c.length ≤ m) (ht : p.tail = [])
    (hs : p.cstate = .size)
    (h : sizeStep cfg k p c evs = (.needs p', evs')) :
    p'.tail.length ≤ c.length ∧ (p'.cstate = .chunk → p'.tail = []) ∧ p'.type = p.type := by
  unfold sizeStep at h
  cases hf : findSep cfg.lax c with
  | none =>
    simp only [hf] at h
    split at h
    · cases h
    · injection h with h1 h2
      injection h1 with h1
      subst h1
      refine ⟨by simp, ?_, rfl⟩
      intro hcs
      simp [hs] at hcs
  | some pos =>
    have hbd := findSep_bound cfg.lax c pos hf
    have hsl := sepLen_pos cfg.lax
    simp only [hf] at h
    split at h
    · cases h
    · cases hsz : chunkSizeOf cfg (c.take pos) with
      | none => simp [hsz] at h
      | some size =>
        simp only [hsz] at h
        split at h
        · have r := trailersStep_tail cfg m k hk _ _ _ _ _ (by simp; omega) (by simpa using ht) rfl h
          refine ⟨?_, r.2.1, r.2.2⟩
          have := r.1
          rw [List.length_drop] at this
          omega
        · have r := chunkStep_tail cfg m k hk _ _ _ _ _ (by simp; omega) (by simpa using ht) h
          refine ⟨?_, r.2.1, r.2.2⟩
          have := r.1
          rw [List.length_drop] at this
          omega

/-- whatever the chunked loop saves for the next call is no longer than the bytes it was given,
and nothing is saved inside chunk data -/
theorem chunkedLoop_tail (cfg : Cfg) : ∀ f, KTail f (chunkedLoop cfg f) := by
  intro f
  induction f with
  | zero => intro p c evs p' evs' hc; omega
  | succ n ih =>
    intro p c evs p' evs' hc ht h
    rw [chunkedLoop] at h
    split at h
    · injection h with h1 h2
      injection h1 with h1
      subst h1
      simp [ht]
    · have hcn : c.length ≤ n := by omega
      cases hcs : p.cstate with
      | size => simp only [hcs] at h; exact sizeStep_tail cfg n _ ih _ _ _ _ _ hcn ht hcs h
      | chunk => simp only [hcs] at h; exact chunkStep_tail cfg n _ ih _ _ _ _ _ hcn ht h
      | chunkEof => simp only [hcs] at h; exact chunkEofStep_tail cfg n _ ih _ _ _ _ _ hcn ht hcs h
      | trailers => simp only [hcs] at h; exact trailersStep_tail cfg n _ ih _ _ _ _ _ hcn ht hcs h

/-- the invariant of a saved chunked-body state: nothing is buffered inside chunk data -/
def PayInv (p : PState) : Prop := p.type = .chunked → p.cstate = .chunk → p.tail = []

/-- the limit that applies to the line a saved state is inside of -/
def tailLimit (cfg : Cfg) (p : PState) : Nat := if p.cstate = .trailers then cfg.maxField else cfg.maxLine

/-- **Every call.** `HttpPayloadParser.feed_data(d)` on a chunked body, from any saved state: if the
call asks for more input (it neither completes the body nor raises), then what it keeps is at
most `limit + 1 + |d|` bytes — `limit + 1` is all the early check lets through from earlier
reads — and the invariant is kept. -/
theorem payloadFeed_retained (cfg : Cfg) (p : PState) (d : Bytes) (p' : PState) (ev : List Ev)
    (hty : p.type = .chunked) (hi : PayInv p)
    (h : payloadFeed cfg p d = (.needs p', ev)) :
    p'.tail.length ≤ tailLimit cfg p + 1 + d.length ∧ PayInv p' := by
  unfold payloadFeed at h
  simp only [hty] at h
  split at h
  · cases h
  · next hnl =>
    have hnl' : chunkTailTooLong cfg p = false := by simpa using hnl
    have r := chunkedLoop_tail cfg _ _ _ _ p' ev (Nat.lt_succ_self _) rfl h
    have hlen : p'.tail.length ≤ p.tail.length + d.length := by
      have := r.1
      rw [List.length_append] at this
      exact this
    refine ⟨?_, fun _ hc => r.2.1 hc⟩
    by_cases hcs : p.cstate = .chunk
    · have : p.tail = [] := hi hty hcs
      rw [this] at hlen
      simp at hlen
      omega
    · have hb := chunk_tail_bounded cfg p hcs hnl'
      unfold tailLimit
      omega

/-- the parser creates chunked-body states with an empty buffer -/
theorem payInv_fresh (p : PState) (h : p.tail = []) : PayInv p := fun _ _ => h

/-- a run of calls on one chunked body: `none` once the body completed or the parser raised -/
def payloadRun (cfg : Cfg) : PState → List Bytes → Option PState
  | p, [] => some p
  | p, d :: ds =>
    match (payloadFeed cfg p d).1 with
    | .needs p' => payloadRun cfg p' ds
    | _ => none

/-- **Every run.** However an unfinished chunked body is cut into reads `ds`, as long as the parser
keeps asking for more, what it holds after the last read `d` is at most
`max(max_line_size, max_field_size) + 1 + |d|` bytes. -/
theorem payloadRun_retained (cfg : Cfg) (ds : List Bytes) (d : Bytes) (p q : PState)
    (hty : p.type = .chunked) (hi : PayInv p)
    (h : payloadRun cfg p (ds ++ [d]) = some q) :
    q.tail.length ≤ max cfg.maxLine cfg.maxField + 1 + d.length := by
  induction ds generalizing p with
  | nil =>
    simp only [List.nil_append, payloadRun] at h
    rcases hpf : payloadFeed cfg p d with ⟨r, ev⟩
    rw [hpf] at h
    cases r with
    | needs p' =>
      injection h with h
      subst h
      have := (payloadFeed_retained cfg p d p' ev hty hi hpf).1
      have hl : tailLimit cfg p ≤ max cfg.maxLine cfg.maxField := by
        unfold tailLimit; split <;> omega
      omega
    | complete rest => simp at h
    | err e b => simp at h
  | cons x xs ih =>
    simp only [List.cons_append, payloadRun] at h
    rcases hpf : payloadFeed cfg p x with ⟨r, ev⟩
    rw [hpf] at h
    cases r with
    | needs p' =>
      simp only [] at h
      have r := payloadFeed_retained cfg p x p' ev hty hi hpf
      have hty' : p'.type = .chunked := by
        unfold payloadFeed at hpf
        simp only [hty] at hpf
        split at hpf
        · cases hpf
        · have r2 := chunkedLoop_tail cfg _ _ _ _ p' ev (Nat.lt_succ_self _) rfl hpf
          exact r2.2.2
      exact ih p' hty' r.2 h
    | complete rest => simp at h
    | err e b => simp at h

/-- non-vacuity: a chunk-size line that never ends, dribbled five bytes at a time into a parser with
`max_line_size = 8`, is cut off (the run ends with `none`: LineTooLong) -/
example :
    payloadRun { maxLine := 8, maxField := 8 } { type := .chunked }
      [[49, 59, 97, 97, 97], [97, 97, 97, 97, 97], [97, 97, 97, 97, 97], [97, 97, 97, 97, 97]] = none := by
  decide +kernel

/-- and a run that is still within the limit satisfies the hypotheses of `payloadRun_retained` -/
example :
    (payloadRun { maxLine := 8, maxField := 8 } { type := .chunked } [[49, 59, 97], [97, 97]]).isSome = true := by
  decide +kernel

end Aio.Http
