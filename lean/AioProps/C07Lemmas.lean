import AioModel.C07
/-!
Helper lemmas for `AioProps/C07.lean`: list facts about the set-like lists, frame lemmas of the
pool operations, and the inductive invariants of `step Fixes.all`.
-/
namespace Aio.C07
variable {α : Type} [DecidableEq α]

theorem length_sinsert_le (a : α) (l : List α) : (sinsert a l).length ≤ l.length + 1 := by
  unfold sinsert; split <;> simp
theorem mem_sinsert {a b : α} {l : List α} : b ∈ sinsert a l ↔ b = a ∨ b ∈ l := by
  unfold sinsert; split <;> simp_all
theorem mem_sremove {a b : α} {l : List α} : b ∈ sremove a l ↔ b ∈ l ∧ b ≠ a := by
  unfold sremove; simp
theorem length_sremove_le (a : α) (l : List α) : (sremove a l).length ≤ l.length := by
  unfold sremove; exact List.length_filter_le _ _
theorem sremove_cons (a b : α) (t : List α) :
    sremove a (b :: t) = if b = a then sremove a t else b :: sremove a t := by
  unfold sremove; by_cases h : b = a <;> simp [List.filter_cons, h]
theorem length_sremove_lt {a : α} {l : List α} (h : a ∈ l) : (sremove a l).length < l.length := by
  induction l with
  | nil => cases h
  | cons b t ih =>
    rw [sremove_cons]
    by_cases hb : b = a
    · simp [hb]; have := length_sremove_le a t; omega
    · have : a ∈ t := by simpa [Ne.symm hb] using h
      simp [hb]; exact ih this
theorem countP_sinsert_le (p : α → Bool) (a : α) (l : List α) :
    (sinsert a l).countP p ≤ l.countP p + (if p a then 1 else 0) := by
  unfold sinsert; split
  · omega
  · simp [List.countP_cons]
theorem countP_sremove_le (p : α → Bool) (a : α) (l : List α) : (sremove a l).countP p ≤ l.countP p := by
  induction l with
  | nil => simp [sremove]
  | cons b t ih => rw [sremove_cons]; split <;> simp [List.countP_cons] <;> omega
theorem countP_sremove_lt (p : α → Bool) {a : α} {l : List α} (h : a ∈ l) (hp : p a = true) :
    (sremove a l).countP p < l.countP p := by
  induction l with
  | nil => cases h
  | cons b t ih =>
    rw [sremove_cons]
    by_cases hb : b = a
    · subst hb
      have := countP_sremove_le p b t
      simp [List.countP_cons, hp]; omega
    · have h' : a ∈ t := by simpa [Ne.symm hb] using h
      have := ih h'
      simp [hb, List.countP_cons]; omega

/-! ## accessors and frames -/

/-- program counter of task `t` (none if there is no such task) -/
def pcOf (s : St) (t : Tid) : Option Pc := (s.tasks[t]?).map (·.pc)

theorem pcOf_setTask (s : St) (t u : Tid) (x : Task) :
    pcOf (setTask s t x) u = if u = t ∧ t < s.tasks.length then some x.pc else pcOf s u := by
  unfold pcOf setTask
  simp only [List.getElem?_set]
  by_cases h : t = u
  · subst h; by_cases h2 : t < s.tasks.length <;> simp [h2]
  · have : ¬ u = t := fun e => h e.symm
    simp [h, this]

theorem keyOf_setTask (s : St) (t u : Tid) (x : Task) (h : ∀ y, s.tasks[t]? = some y → y.key = x.key) :
    keyOf (setTask s t x) u = keyOf s u := by
  unfold keyOf setTask
  simp only [List.getElem?_set]
  by_cases h1 : t = u
  · subst h1
    by_cases h2 : t < s.tasks.length
    · simp [h2]; have := h s.tasks[t] (by simp); simp [this]
    · simp [h2]
  · simp [h1]

@[simp] theorem setTask_length (s : St) (t : Tid) (x : Task) : (setTask s t x).tasks.length = s.tasks.length := by
  simp [setTask]

theorem pcOf_of_get {s : St} {t : Tid} {x : Task} (h : s.tasks[t]? = some x) : pcOf s t = some x.pc := by
  simp [pcOf, h]
theorem keyOf_of_get {s : St} {t : Tid} {x : Task} (h : s.tasks[t]? = some x) : keyOf s t = x.key := by
  simp [keyOf, h]
theorem lt_of_get {s : St} {t : Tid} {x : Task} (h : s.tasks[t]? = some x) : t < s.tasks.length := by
  have := List.getElem?_eq_some_iff.mp h; exact this.1

/-- `s'` has the same bookkeeping as `s` (limits, `_acquired`, `_acquired_per_host`, closed flag, idle
pool, program counters and keys of all tasks); futures, flags, queues and open-flags may differ -/
structure SameCore (s s' : St) : Prop where
  limit : s'.limit = s.limit
  lph : s'.lph = s.lph
  acquired : s'.acquired = s.acquired
  perHost : s'.perHost = s.perHost
  closed : s'.closed = s.closed
  len : s'.tasks.length = s.tasks.length
  pc : ∀ u, pcOf s' u = pcOf s u
  key : ∀ u, keyOf s' u = keyOf s u
  idle : s'.idle = s.idle

theorem SameCore.rfl' (s : St) : SameCore s s := by constructor <;> intros <;> rfl
theorem SameCore.trans {a b c : St} (h1 : SameCore a b) (h2 : SameCore b c) : SameCore a c := by
  constructor
  · rw [h2.limit, h1.limit]
  · rw [h2.lph, h1.lph]
  · rw [h2.acquired, h1.acquired]
  · rw [h2.perHost, h1.perHost]
  · rw [h2.closed, h1.closed]
  · rw [h2.len, h1.len]
  · intro u; rw [h2.pc, h1.pc]
  · intro u; rw [h2.key, h1.key]
  · rw [h2.idle, h1.idle]

theorem hostCount_core {s s' : St} (h : SameCore s s') (k : Key) : hostCount s' k = hostCount s k := by
  simp [hostCount, h.perHost]
theorem hasCap_core {s s' : St} (h : SameCore s s') (k : Key) : hasCap s' k = hasCap s k := by
  unfold hasCap hostCount; rw [h.perHost, h.acquired, h.limit, h.lph]

/-- changing only future/flags of a task keeps the core -/
theorem sameCore_setTask_fut {s : St} {t : Tid} {x y : Task} (h : s.tasks[t]? = some x)
    (hk : y.key = x.key) (hp : y.pc = x.pc) : SameCore s (setTask s t y) := by
  constructor <;> try rfl
  · simp
  · intro u; rw [pcOf_setTask]; split
    · next h' => rw [h'.1, pcOf_of_get h, hp]
    · rfl
  · intro u; apply keyOf_setTask; intro z hz; rw [h] at hz; cases hz; exact hk.symm

theorem sameCore_ready (s : St) (r : List Tid) : SameCore s { s with ready := r } := by
  constructor <;> intros <;> rfl
theorem sameCore_waitq (s : St) (r : List Tid) : SameCore s { s with waitq := r } := by
  constructor <;> intros <;> rfl

theorem sameCore_wake (s : St) (t : Tid) : SameCore s (wake s t) := by
  unfold wake; split
  · next x hx =>
    exact (sameCore_setTask_fut (y := { x with fut := .woken }) hx rfl rfl).trans (by constructor <;> intros <;> rfl)
  · exact SameCore.rfl' s

theorem wake_waitq (s : St) (t : Tid) : (wake s t).waitq = s.waitq := by
  unfold wake; split <;> rfl

theorem wakeScan_sub (s : St) (k : Key) (l : List Tid) : ∀ u ∈ (wakeScan s k l).2, u ∈ l := by
  induction l with
  | nil => simp [wakeScan]
  | cons a t ih =>
    unfold wakeScan
    split
    · split
      · intro u hu; exact List.mem_cons_of_mem _ hu
      · intro u hu; exact List.mem_cons_of_mem _ (ih u hu)
    · intro u hu
      simp only [List.mem_cons] at hu ⊢
      rcases hu with hu | hu
      · exact Or.inl hu
      · exact Or.inr (ih u hu)

theorem releaseWaiterKeys_frame (ks : List Key) : ∀ s : St,
    SameCore s (releaseWaiterKeys s ks) ∧ ∀ u ∈ (releaseWaiterKeys s ks).waitq, u ∈ s.waitq := by
  induction ks with
  | nil => intro s; exact ⟨SameCore.rfl' s, fun u h => h⟩
  | cons k ks ih =>
    intro s
    unfold releaseWaiterKeys
    split
    · dsimp only
      split
      · next t ht =>
        refine ⟨(sameCore_waitq s _).trans (sameCore_wake _ t), ?_⟩
        intro u hu; rw [wake_waitq] at hu; exact wakeScan_sub s k _ u hu
      · have := ih { s with waitq := (wakeScan s k s.waitq).2 }
        refine ⟨(sameCore_waitq s _).trans this.1, ?_⟩
        intro u hu; exact wakeScan_sub s k _ u (this.2 u hu)
    · exact ih s

theorem releaseWaiter_core (s : St) : SameCore s (releaseWaiter s) := (releaseWaiterKeys_frame _ s).1
theorem releaseWaiter_waitq (s : St) : ∀ u ∈ (releaseWaiter s).waitq, u ∈ s.waitq := (releaseWaiterKeys_frame _ s).2

/-! ## the bookkeeping invariant -/

/-- neither establishing nor holding a connection -/
def Pc.neutral : Pc → Prop
  | .creating _ => False
  | .holding _ => False
  | _ => True

/-- bookkeeping invariant of the pool (all parts are statements about the "core") -/
structure Inv (s : St) : Prop where
  /-- a task awaiting `_create_connection` has its placeholder counted (while the connector is open) -/
  ph_present : s.closed = false → ∀ t r, pcOf s t = some (.creating r) →
      Slot.ph t ∈ s.acquired ∧ (s.lph ≠ 0 → (keyOf s t, Slot.ph t) ∈ s.perHost)
  lim : s.limit = 0 ∨ s.acquired.length ≤ s.limit
  limh : s.lph = 0 ∨ ∀ k, hostCount s k ≤ s.lph
  /-- every placeholder in `_acquired` belongs to a task that is establishing a connection -/
  ph_owner : ∀ t, Slot.ph t ∈ s.acquired → ∃ r, pcOf s t = some (.creating r)
  /-- every connection in `_acquired` is held by some task -/
  conn_owner : ∀ c, Slot.conn c ∈ s.acquired → ∃ t, pcOf s t = some (.holding c)
  /-- the same for `_acquired_per_host`, under the owner's key -/
  hph_owner : ∀ k t, (k, Slot.ph t) ∈ s.perHost → k = keyOf s t ∧ ∃ r, pcOf s t = some (.creating r)
  hconn_owner : ∀ k c, (k, Slot.conn c) ∈ s.perHost → ∃ t, keyOf s t = k ∧ pcOf s t = some (.holding c)
  /-- after close nothing is counted and nothing is pooled -/
  closed_empty : s.closed = true → s.acquired = [] ∧ s.perHost = [] ∧ s.idle = []
  /-- without a per-host limit `_acquired_per_host` is not maintained -/
  host_off : s.lph = 0 → s.perHost = []

theorem Inv.core {s s' : St} (h : Inv s) (c : SameCore s s') : Inv s' := by
  constructor
  · intro hc t r hp
    rw [c.closed] at hc; rw [c.pc] at hp
    have := h.ph_present hc t r hp
    rw [c.acquired, c.perHost, c.lph, c.key]; exact this
  · rw [c.limit, c.acquired]; exact h.lim
  · rw [c.lph]; rcases h.limh with h1 | h1
    · exact Or.inl h1
    · right; intro k; rw [hostCount_core c]; exact h1 k
  · intro t ht; rw [c.acquired] at ht; rw [c.pc]; exact h.ph_owner t ht
  · intro cc ht; rw [c.acquired] at ht
    obtain ⟨t, ht⟩ := h.conn_owner cc ht
    exact ⟨t, by rw [c.pc]; exact ht⟩
  · intro k t hk; rw [c.perHost] at hk; rw [c.key, c.pc]; exact h.hph_owner k t hk
  · intro k cc hk; rw [c.perHost] at hk
    obtain ⟨t, h1, h2⟩ := h.hconn_owner k cc hk
    exact ⟨t, by rw [c.key]; exact h1, by rw [c.pc]; exact h2⟩
  · intro hc; rw [c.closed] at hc; rw [c.acquired, c.perHost, c.idle]; exact h.closed_empty hc
  · intro hl; rw [c.lph] at hl; rw [c.perHost]; exact h.host_off hl

/-- how one task step changes the core: task `t` goes from pc `p` to pc `q`, every other task keeps its pc -/
structure Moves (s s' : St) (t : Tid) (p q : Pc) : Prop where
  limit : s'.limit = s.limit
  lph : s'.lph = s.lph
  closed : s'.closed = s.closed
  old : pcOf s t = some p
  new : pcOf s' t = some q
  other : ∀ u, u ≠ t → pcOf s' u = pcOf s u
  key : ∀ u, keyOf s' u = keyOf s u

/-- the task changes pc within its class (or the connector is closed): nothing counted changes -/
theorem Inv.same {s s' : St} {t : Tid} {p q : Pc} (h : Inv s) (m : Moves s s' t p q)
    (ha : s'.acquired = s.acquired) (hh : s'.perHost = s.perHost) (hi : s.closed = true → s'.idle = [])
    (hc : s.closed = true ∨ (p.neutral ∧ q.neutral) ∨ (∃ r r', p = .creating r ∧ q = .creating r')
          ∨ (∃ c, p = .holding c ∧ q = .holding c)) : Inv s' := by
  have pcs : ∀ u pc, pcOf s u = some pc → (u ≠ t → pcOf s' u = some pc) := by
    intro u pc h1 h2; rw [m.other u h2]; exact h1
  by_cases hcl : s.closed = true
  · obtain ⟨e1, e2, e3⟩ := h.closed_empty hcl
    constructor
    · intro hc'; rw [m.closed, hcl] at hc'; cases hc'
    · rw [m.limit, ha, e1]; right; simp
    · rw [m.lph]; right; intro k; simp [hostCount, hh, e2]
    · intro u hu; rw [ha, e1] at hu; cases hu
    · intro u hu; rw [ha, e1] at hu; cases hu
    · intro k u hu; rw [hh, e2] at hu; cases hu
    · intro k u hu; rw [hh, e2] at hu; cases hu
    · intro _; rw [ha, hh]; exact ⟨e1, e2, hi hcl⟩
    · intro _; rw [hh]; exact e2
  · have hcl' : s.closed = false := by cases hx : s.closed <;> simp_all
    rcases hc with hc | hc
    · exact absurd hc hcl
    have keep : ∀ u r, pcOf s u = some (.creating r) → ∃ r', pcOf s' u = some (.creating r') := by
      intro u r hu
      by_cases e : u = t
      · subst e; rw [m.old] at hu; cases hu
        rcases hc with ⟨hp, _⟩ | ⟨r1, r2, hp, hq⟩ | ⟨c, hp, _⟩
        · exact absurd hp (by simp [Pc.neutral])
        · exact ⟨r2, by rw [m.new, hq]⟩
        · cases hp
      · exact ⟨r, pcs u _ hu e⟩
    have keeph : ∀ u c, pcOf s u = some (.holding c) → pcOf s' u = some (.holding c) := by
      intro u c hu
      by_cases e : u = t
      · subst e; rw [m.old] at hu; cases hu
        rcases hc with ⟨hp, _⟩ | ⟨r1, r2, hp, hq⟩ | ⟨c', hp, hq⟩
        · exact absurd hp (by simp [Pc.neutral])
        · cases hp
        · cases hp; rw [m.new, hq]
      · exact pcs u _ hu e
    have back : ∀ u r, pcOf s' u = some (.creating r) → ∃ r', pcOf s u = some (.creating r') := by
      intro u r hu
      by_cases e : u = t
      · subst e; rw [m.new] at hu; cases hu
        rcases hc with ⟨_, hq⟩ | ⟨r1, r2, hp, hq⟩ | ⟨c', hp, hq⟩
        · exact absurd hq (by simp [Pc.neutral])
        · exact ⟨r1, by rw [m.old, hp]⟩
        · cases hq
      · exact ⟨r, by rw [← m.other u e]; exact hu⟩
    constructor
    · intro _ u r hu
      obtain ⟨r', hu'⟩ := back u r hu
      have := h.ph_present hcl' u r' hu'
      rw [ha, hh, m.lph, m.key]; exact this
    · rw [m.limit, ha]; exact h.lim
    · rw [m.lph]; rcases h.limh with h1 | h1
      · exact Or.inl h1
      · right; intro k; simp only [hostCount, hh]; exact h1 k
    · intro u hu; rw [ha] at hu
      obtain ⟨r, hr⟩ := h.ph_owner u hu
      exact keep u r hr
    · intro c hu; rw [ha] at hu
      obtain ⟨u, hr⟩ := h.conn_owner c hu
      exact ⟨u, keeph u c hr⟩
    · intro k u hu; rw [hh] at hu
      obtain ⟨e, r, hr⟩ := h.hph_owner k u hu
      exact ⟨by rw [m.key]; exact e, keep u r hr⟩
    · intro k c hu; rw [hh] at hu
      obtain ⟨u, e, hr⟩ := h.hconn_owner k c hu
      exact ⟨u, by rw [m.key]; exact e, keeph u c hr⟩
    · intro hc'; rw [m.closed, hcl'] at hc'; cases hc'
    · intro hl; rw [m.lph] at hl; rw [hh]; exact h.host_off hl

theorem hostCount_le_of (s s' : St) (k : Key) (h : ∀ p : Key × Slot → Bool, s'.perHost.countP p ≤ s.perHost.countP p) :
    hostCount s' k ≤ hostCount s k := h _

/-- a neutral task takes a slot (placeholder or pooled connection) while there is capacity -/
theorem Inv.add {s s' : St} {t : Tid} {p q : Pc} {sl : Slot} (h : Inv s) (m : Moves s s' t p q)
    (hcl : s.closed = false) (hcap : hasCap s (keyOf s t) = true) (hp : p.neutral)
    (hq : (∃ r, sl = .ph t ∧ q = .creating r) ∨ (∃ c, sl = .conn c ∧ q = .holding c))
    (ha : s'.acquired = sinsert sl s.acquired)
    (hh : s'.perHost = if s.lph = 0 then s.perHost else sinsert (keyOf s t, sl) s.perHost) : Inv s' := by
  have hcap' := hcap
  unfold hasCap at hcap'
  simp only [Bool.and_eq_true, Bool.or_eq_true, decide_eq_true_eq] at hcap'
  have pold : ∀ u pc, pcOf s u = some pc → ¬ pc.neutral → u ≠ t := by
    intro u pc h1 h2 e; subst e; rw [m.old] at h1; cases h1; exact h2 hp
  have keepc : ∀ u r, pcOf s u = some (.creating r) → pcOf s' u = some (.creating r) := by
    intro u r hu; rw [m.other u (pold u _ hu (by simp [Pc.neutral]))]; exact hu
  have keeph : ∀ u c, pcOf s u = some (.holding c) → pcOf s' u = some (.holding c) := by
    intro u c hu; rw [m.other u (pold u _ hu (by simp [Pc.neutral]))]; exact hu
  have memh : ∀ x, x ∈ s'.perHost → x ∈ s.perHost ∨ (s.lph ≠ 0 ∧ x = (keyOf s t, sl)) := by
    intro x hx; rw [hh] at hx; split at hx
    · exact Or.inl hx
    · next hl => rcases mem_sinsert.mp hx with e | e
                 · exact Or.inr ⟨hl, e⟩
                 · exact Or.inl e
  have subh : ∀ x, x ∈ s.perHost → x ∈ s'.perHost := by
    intro x hx; rw [hh]; split
    · exact hx
    · exact mem_sinsert.mpr (Or.inr hx)
  constructor
  · intro _ u r hu
    by_cases e : u = t
    · subst e
      rw [m.new] at hu; cases hu
      rcases hq with ⟨r', e1, e2⟩ | ⟨c, e1, e2⟩
      · subst e1
        refine ⟨by rw [ha]; exact mem_sinsert.mpr (Or.inl rfl), ?_⟩
        intro hl; rw [m.lph] at hl; rw [hh, m.key]; simp only [hl, if_false]
        exact mem_sinsert.mpr (Or.inl rfl)
      · cases e2
    · rw [m.other u e] at hu
      have := h.ph_present hcl u r hu
      refine ⟨by rw [ha]; exact mem_sinsert.mpr (Or.inr this.1), ?_⟩
      intro hl; rw [m.lph] at hl; rw [m.key]; exact subh _ (this.2 hl)
  · rw [m.limit, ha]
    rcases hcap'.1 with h1 | h1
    · exact Or.inl h1
    · right; have := length_sinsert_le sl s.acquired; omega
  · rw [m.lph]
    by_cases hl : s.lph = 0
    · exact Or.inl hl
    · right; intro k
      have hk : hostCount s (keyOf s t) < s.lph := by
        rcases hcap'.2 with h1 | h1
        · exact absurd h1 hl
        · exact h1
      have hall : ∀ k, hostCount s k ≤ s.lph := by
        rcases h.limh with h1 | h1
        · exact absurd h1 hl
        · exact h1
      unfold hostCount at *
      rw [hh]; simp only [hl, if_false]
      have := countP_sinsert_le (fun x : Key × Slot => decide (x.1 = k)) (keyOf s t, sl) s.perHost
      by_cases ek : keyOf s t = k
      · subst ek; simp at this; omega
      · simp [ek] at this; have := hall k; omega
  · intro u hu; rw [ha] at hu
    rcases mem_sinsert.mp hu with e | e
    · rcases hq with ⟨r', e1, e2⟩ | ⟨c, e1, e2⟩
      · rw [e1] at e; cases e; exact ⟨r', by rw [m.new, e2]⟩
      · rw [e1] at e; cases e
    · obtain ⟨r, hr⟩ := h.ph_owner u e; exact ⟨r, keepc u r hr⟩
  · intro c hu; rw [ha] at hu
    rcases mem_sinsert.mp hu with e | e
    · rcases hq with ⟨r', e1, e2⟩ | ⟨c', e1, e2⟩
      · rw [e1] at e; cases e
      · rw [e1] at e; cases e; exact ⟨t, by rw [m.new, e2]⟩
    · obtain ⟨u, hr⟩ := h.conn_owner c e; exact ⟨u, keeph u c hr⟩
  · intro k u hu
    rcases memh _ hu with e | ⟨_, e⟩
    · obtain ⟨e1, r, hr⟩ := h.hph_owner k u e
      exact ⟨by rw [m.key]; exact e1, r, keepc u r hr⟩
    · rcases hq with ⟨r', e1, e2⟩ | ⟨c', e1, e2⟩
      · rw [e1] at e; cases e; exact ⟨by rw [m.key], r', by rw [m.new, e2]⟩
      · rw [e1] at e; cases e
  · intro k c hu
    rcases memh _ hu with e | ⟨_, e⟩
    · obtain ⟨u, e1, hr⟩ := h.hconn_owner k c e
      exact ⟨u, by rw [m.key]; exact e1, keeph u c hr⟩
    · rcases hq with ⟨r', e1, e2⟩ | ⟨c', e1, e2⟩
      · rw [e1] at e; cases e
      · rw [e1] at e; cases e; exact ⟨t, by rw [m.key], by rw [m.new, e2]⟩
  · intro hc'; rw [m.closed, hcl] at hc'; cases hc'
  · intro hl; rw [m.lph] at hl; rw [hh]; simp only [hl, if_true]; exact h.host_off hl

/-- a task that was establishing / holding a connection gives its slot back (connector open) -/
theorem Inv.remove {s s' : St} {t : Tid} {p q : Pc} {sl : Slot} (h : Inv s) (m : Moves s s' t p q)
    (hcl : s.closed = false) (hq : q.neutral)
    (hp : (∃ r, sl = .ph t ∧ p = .creating r) ∨ (∃ c, sl = .conn c ∧ p = .holding c))
    (ha : s'.acquired = sremove sl s.acquired)
    (hh : s'.perHost = if s.lph = 0 then s.perHost else sremove (keyOf s t, sl) s.perHost) : Inv s' := by
  have memh : ∀ x, x ∈ s'.perHost → x ∈ s.perHost ∧ (x ≠ (keyOf s t, sl)) := by
    intro x hx; rw [hh] at hx; split at hx
    · next hl => rw [h.host_off hl] at hx; cases hx
    · exact mem_sremove.mp hx
  have notc : ∀ u r, pcOf s' u = some (.creating r) → u ≠ t := by
    intro u r hu e; subst e; rw [m.new] at hu; cases hu; exact hq
  constructor
  · intro _ u r hu
    have e := notc u r hu
    rw [m.other u e] at hu
    have := h.ph_present hcl u r hu
    have ne : Slot.ph u ≠ sl := by
      rcases hp with ⟨_, e1, _⟩ | ⟨_, e1, _⟩
      · rw [e1]; intro e2; cases e2; exact e rfl
      · rw [e1]; intro e2; cases e2
    refine ⟨by rw [ha]; exact mem_sremove.mpr ⟨this.1, ne⟩, ?_⟩
    intro hl; rw [m.lph] at hl; rw [hh, m.key]; simp only [hl, if_false]
    exact mem_sremove.mpr ⟨this.2 hl, by intro e2; exact ne (congrArg Prod.snd e2)⟩
  · rw [m.limit, ha]; rcases h.lim with h1 | h1
    · exact Or.inl h1
    · right; have := length_sremove_le sl s.acquired; omega
  · rw [m.lph]; rcases h.limh with h1 | h1
    · exact Or.inl h1
    · right; intro k; have := h1 k; unfold hostCount at *; rw [hh]; split
      · exact this
      · have := countP_sremove_le (fun x : Key × Slot => decide (x.1 = k)) (keyOf s t, sl) s.perHost; omega
  · intro u hu; rw [ha] at hu
    obtain ⟨h1, h2⟩ := mem_sremove.mp hu
    obtain ⟨r, hr⟩ := h.ph_owner u h1
    have e : u ≠ t := by
      intro e; subst e; rw [m.old] at hr; cases hr
      rcases hp with ⟨_, e1, _⟩ | ⟨_, _, e2⟩
      · exact h2 e1.symm
      · cases e2
    exact ⟨r, by rw [m.other u e]; exact hr⟩
  · intro c hu; rw [ha] at hu
    obtain ⟨h1, h2⟩ := mem_sremove.mp hu
    obtain ⟨u, hr⟩ := h.conn_owner c h1
    have e : u ≠ t := by
      intro e; subst e; rw [m.old] at hr; cases hr
      rcases hp with ⟨_, _, e2⟩ | ⟨_, e1, e2⟩
      · cases e2
      · cases e2; exact h2 e1.symm
    exact ⟨u, by rw [m.other u e]; exact hr⟩
  · intro k u hu
    obtain ⟨h1, h2⟩ := memh _ hu
    obtain ⟨e1, r, hr⟩ := h.hph_owner k u h1
    have e : u ≠ t := by
      intro e; subst e; rw [m.old] at hr; cases hr
      rcases hp with ⟨_, e3, _⟩ | ⟨_, _, e2⟩
      · apply h2; rw [e1, e3]
      · cases e2
    exact ⟨by rw [m.key]; exact e1, r, by rw [m.other u e]; exact hr⟩
  · intro k c hu
    obtain ⟨h1, h2⟩ := memh _ hu
    obtain ⟨u, e1, hr⟩ := h.hconn_owner k c h1
    have e : u ≠ t := by
      intro e; subst e; rw [m.old] at hr; cases hr
      rcases hp with ⟨_, _, e2⟩ | ⟨_, e3, e2⟩
      · cases e2
      · cases e2; apply h2; rw [← e1, e3]
    exact ⟨u, by rw [m.key]; exact e1, by rw [m.other u e]; exact hr⟩
  · intro hc'; rw [m.closed, hcl] at hc'; cases hc'
  · intro hl; rw [m.lph] at hl; rw [hh]; simp only [hl, if_true]; exact h.host_off hl

/-- waiter queue invariant: only parked tasks are queued -/
def WaitInv (s : St) : Prop := ∀ t ∈ s.waitq, pcOf s t = some .waiting

theorem WaitInv.core {s s' : St} (h : WaitInv s) (c : SameCore s s') (hw : ∀ u ∈ s'.waitq, u ∈ s.waitq) :
    WaitInv s' := by
  intro t ht; rw [c.pc]; exact h t (hw t ht)

/-! ## the concrete operations preserve the invariants -/

theorem Moves.mk' {s s' : St} {t : Tid} {x y : Task} (hx : s.tasks[t]? = some x) (hk : y.key = x.key)
    (ht : s'.tasks = s.tasks.set t y) (hl : s'.limit = s.limit) (hlph : s'.lph = s.lph)
    (hc : s'.closed = s.closed) : Moves s s' t x.pc y.pc := by
  have hlt := lt_of_get hx
  refine ⟨hl, hlph, hc, pcOf_of_get hx, ?_, ?_, ?_⟩
  · unfold pcOf; rw [ht]; simp [List.getElem?_set, hlt]
  · intro u hu; unfold pcOf; rw [ht]; simp [List.getElem?_set, Ne.symm hu]
  · intro u; unfold keyOf; rw [ht]; simp only [List.getElem?_set]
    by_cases e : t = u
    · subst e
      obtain ⟨_, e2⟩ := List.getElem?_eq_some_iff.mp hx
      simp [hlt, hk, e2]
    · simp [e]

theorem Inv.setIdle {s : St} (h : Inv s) (l : List Cid) (hl : s.closed = true → l = []) :
    Inv { s with idle := l } := by
  constructor
  · exact h.ph_present
  · exact h.lim
  · exact h.limh
  · exact h.ph_owner
  · exact h.conn_owner
  · exact h.hph_owner
  · exact h.hconn_owner
  · intro hc; exact ⟨(h.closed_empty hc).1, (h.closed_empty hc).2.1, hl hc⟩
  · exact h.host_off

theorem WaitInv.moves {s s' : St} {t : Tid} {p q : Pc} (h : WaitInv s) (m : Moves s s' t p q)
    (hw : ∀ u ∈ s'.waitq, u ∈ s.waitq ∨ (u = t ∧ q = .waiting)) (ht : t ∉ s.waitq ∨ q = .waiting) :
    WaitInv s' := by
  intro u hu
  by_cases e : u = t
  · subst e
    rcases hw u hu with h1 | ⟨_, h1⟩
    · rcases ht with h2 | h2
      · exact absurd h1 h2
      · rw [m.new, h2]
    · rw [m.new, h1]
  · rw [m.other u e]
    rcases hw u hu with h1 | ⟨h1, _⟩
    · exact h u h1
    · exact absurd h1 e

theorem popIdle_nil (s : St) (k : Key) : popIdle s k [] = (none, []) := rfl

theorem tryGet_false {s : St} {t : Tid} {x : Task} {b : Bool} (h : (tryGet s t x b).2 = false) :
    (tryGet s t x b).1 = closeMany { s with idle := (popIdle s x.key s.idle).2 } (popDropped s x.key s.idle) := by
  unfold tryGet at *; dsimp only at *; split at h
  · next e => simp [e]
  · cases h

theorem inv_tryGet {s : St} {t : Tid} {x : Task} (h : Inv s) (hw : WaitInv s) (hx : s.tasks[t]? = some x)
    (hn : x.pc.neutral) (hcap : hasCap s x.key = true) (htw : t ∉ s.waitq) (b : Bool) :
    Inv (tryGet s t x b).1 ∧ WaitInv (tryGet s t x b).1 := by
  have hidle : s.closed = true → (popIdle s x.key s.idle).2 = [] := by
    intro hc; rw [(h.closed_empty hc).2.2]; rfl
  have cm : SameCore { s with idle := (popIdle s x.key s.idle).2 }
      (closeMany { s with idle := (popIdle s x.key s.idle).2 } (popDropped s x.key s.idle)) := by
    constructor <;> intros <;> rfl
  unfold tryGet; dsimp only; split
  · exact ⟨(h.setIdle _ hidle).core cm, fun u hu => hw u hu⟩
  · next c hc =>
    have hcl : s.closed = false := by
      cases e : s.closed
      · rfl
      · rw [(h.closed_empty e).2.2] at hc; cases hc
    have m : Moves s (setTask (acquire (closeMany { s with idle := (popIdle s x.key s.idle).2 } (popDropped s x.key s.idle)) x.key (.conn c)) t
        { x with pc := .holding c, tr := suspendAt (closeMany { s with idle := (popIdle s x.key s.idle).2 } (popDropped s x.key s.idle)) 0 (.reuse b) }) t x.pc (.holding c) :=
      Moves.mk' (y := { x with pc := .holding c, tr := suspendAt (closeMany { s with idle := (popIdle s x.key s.idle).2 } (popDropped s x.key s.idle)) 0 (.reuse b) }) hx rfl rfl rfl rfl rfl
    refine ⟨h.add m hcl (by rw [keyOf_of_get hx]; exact hcap) hn (Or.inr ⟨c, rfl, rfl⟩) rfl ?_, ?_⟩
    · rw [keyOf_of_get hx]; rfl
    · exact hw.moves m (fun u hu => Or.inl hu) (Or.inl htw)

theorem inv_reserve {s : St} {t : Tid} {x : Task} (h : Inv s) (hw : WaitInv s) (hx : s.tasks[t]? = some x)
    (hn : x.pc.neutral) (hcap : hasCap s x.key = true) (htw : t ∉ s.waitq) :
    Inv (reserve Fixes.all s t x) ∧ WaitInv (reserve Fixes.all s t x) := by
  unfold reserve
  cases hcl : s.closed
  · simp only [Fixes.all, Bool.and_false, Bool.false_eq_true, if_false]
    have m : Moves s (setTask (acquire s x.key (.ph t)) t { x with pc := .creating none, tr := suspendAt s 3 .cstart }) t x.pc (.creating none) :=
      Moves.mk' (y := { x with pc := .creating none, tr := suspendAt s 3 .cstart }) hx rfl rfl rfl rfl rfl
    refine ⟨h.add m hcl (by rw [keyOf_of_get hx]; exact hcap) hn (Or.inl ⟨none, rfl, rfl⟩) rfl ?_, ?_⟩
    · rw [keyOf_of_get hx]; rfl
    · exact hw.moves m (fun u hu => Or.inl hu) (Or.inl htw)
  · simp only [Fixes.all, Bool.and_self, if_true]
    have m : Moves s (setTask s t { x with pc := .failed .closedErr }) t x.pc (.failed .closedErr) :=
      Moves.mk' (y := { x with pc := .failed .closedErr }) hx rfl rfl rfl rfl rfl
    refine ⟨h.same m rfl rfl (fun hc => (h.closed_empty hc).2.2) (Or.inl hcl), ?_⟩
    exact hw.moves m (fun u hu => Or.inl hu) (Or.inl htw)

theorem task_of_core {s s' : St} {t : Tid} {x : Task} (c : SameCore s s') (hx : s.tasks[t]? = some x) :
    ∃ x', s'.tasks[t]? = some x' ∧ x'.key = x.key ∧ x'.pc = x.pc := by
  have hlt : t < s'.tasks.length := by rw [c.len]; exact lt_of_get hx
  refine ⟨s'.tasks[t], by simp, ?_, ?_⟩
  · have := c.key t; simp [keyOf, hx, hlt] at this; exact this
  · have := c.pc t; simp [pcOf, hx, hlt] at this; exact this

theorem inv_park {s : St} {t : Tid} {x x0 : Task} (h : Inv s) (hw : WaitInv s) (hx : s.tasks[t]? = some x0)
    (hk : x.key = x0.key) (hn : x0.pc.neutral) (front : Bool) :
    Inv (park s t x front) ∧ WaitInv (park s t x front) := by
  have m : Moves s (park s t x front) t x0.pc .waiting :=
    Moves.mk' (y := { x with pc := .waiting, fut := .pending, tr := suspendAt s 1 .qstart }) hx hk rfl rfl rfl rfl
  refine ⟨h.same m rfl rfl (fun hc => (h.closed_empty hc).2.2) (Or.inr (Or.inl ⟨hn, by simp [Pc.neutral]⟩)), ?_⟩
  apply hw.moves m _ (Or.inr rfl)
  intro u hu
  unfold park at hu; dsimp only at hu
  split at hu
  · rcases List.mem_cons.mp hu with e | e
    · exact Or.inr ⟨e, rfl⟩
    · exact Or.inl e
  · rcases List.mem_append.mp hu with e | e
    · exact Or.inl e
    · exact Or.inr ⟨by simpa using e, rfl⟩

theorem inv_after_get {s : St} {t : Tid} {x : Task} (h : Inv s) (hw : WaitInv s) (hx : s.tasks[t]? = some x)
    (hn : x.pc.neutral) (htw : t ∉ s.waitq) (hcap : hasCap s x.key = true) {b : Bool} (hf : (tryGet s t x b).snd = false) :
    Inv (reserve Fixes.all (tryGet s t x b).fst t x) ∧ WaitInv (reserve Fixes.all (tryGet s t x b).fst t x) := by
  have h1 := inv_tryGet h hw hx hn hcap htw b
  rw [tryGet_false hf] at h1 ⊢
  exact inv_reserve h1.1 h1.2 hx hn hcap htw

theorem inv_enter {s : St} {t : Tid} {x : Task} (h : Inv s) (hw : WaitInv s) (hx : s.tasks[t]? = some x)
    (hn : x.pc.neutral) (htw : t ∉ s.waitq) (first : Bool) :
    Inv (enter Fixes.all s t x first) ∧ WaitInv (enter Fixes.all s t x first) := by
  cases hcap : hasCap s x.key <;> cases first <;> simp [enter, Fixes.all, hcap]
  · have c := releaseWaiter_core s
    obtain ⟨x', hx', hk, hp⟩ := task_of_core c hx
    exact inv_park (h.core c) (hw.core c (releaseWaiter_waitq s)) hx' hk.symm (by rw [hp]; exact hn) true
  · exact inv_park h hw hx rfl hn false
  · split
    · exact inv_tryGet h hw hx hn hcap htw false
    · next hf => exact inv_after_get h hw hx hn htw hcap (by simpa using hf)
  · split
    · exact inv_tryGet h hw hx hn hcap htw true
    · next hf =>
      have hf' : (tryGet s t x true).snd = false := by simpa using hf
      have : hasCap (tryGet s t x true).fst x.key = true := by rw [tryGet_false hf']; exact hcap
      simp only [this, if_true]
      exact inv_after_get h hw hx hn htw hcap hf'

theorem unpark_core (s : St) (t : Tid) (k : Key) : SameCore s (unpark s t k) := by
  constructor <;> intros <;> rfl
theorem unpark_waitq (s : St) (t : Tid) (k : Key) : (unpark s t k).waitq = sremove t s.waitq := rfl

/-- `_acquired.discard(x)` and the per-host discard -/
def dropSlot (s : St) (k : Key) (sl : Slot) : St :=
  { s with acquired := sremove sl s.acquired,
           perHost := if s.lph = 0 then s.perHost else sremove (k, sl) s.perHost }
theorem releaseAcquired_eq (s : St) (k : Key) (sl : Slot) :
    releaseAcquired s k sl = if s.closed then s else releaseWaiter (dropSlot s k sl) := rfl

theorem inv_releaseAcquired_after {s : St} {t : Tid} {x y : Task} {sl : Slot} (h : Inv s) (hw : WaitInv s)
    (hx : s.tasks[t]? = some x) (hk : y.key = x.key) (hq : y.pc.neutral)
    (hp : (∃ r, sl = .ph t ∧ x.pc = .creating r) ∨ (∃ c, sl = .conn c ∧ x.pc = .holding c)) :
    Inv (releaseAcquired (setTask s t y) x.key sl) ∧ WaitInv (releaseAcquired (setTask s t y) x.key sl) := by
  have htw : t ∉ s.waitq := by
    intro hm; have := hw t hm; rw [pcOf_of_get hx] at this
    rcases hp with ⟨_, _, e⟩ | ⟨_, _, e⟩ <;> rw [e] at this <;> cases this
  rw [releaseAcquired_eq]
  cases hcl : s.closed
  · have hcl' : (setTask s t y).closed = false := hcl
    simp only [hcl', Bool.false_eq_true, if_false]
    have m : Moves s (dropSlot (setTask s t y) x.key sl) t x.pc y.pc := Moves.mk' hx hk rfl rfl rfl rfl
    have h1 := h.remove m hcl hq hp rfl (by rw [keyOf_of_get hx]; rfl)
    have w1 := hw.moves m (fun u hu => Or.inl hu) (Or.inl htw)
    exact ⟨h1.core (releaseWaiter_core _), w1.core (releaseWaiter_core _) (releaseWaiter_waitq _)⟩
  · have hcl' : (setTask s t y).closed = true := hcl
    simp only [hcl', if_true]
    have m : Moves s (setTask s t y) t x.pc y.pc := Moves.mk' hx hk rfl rfl rfl rfl
    exact ⟨h.same m rfl rfl (fun hc => (h.closed_empty hc).2.2) (Or.inl hcl), hw.moves m (fun u hu => Or.inl hu) (Or.inl htw)⟩


theorem inv_flag {s s' : St} {t : Tid} {x y : Task} (h : Inv s) (hw : WaitInv s) (hx : s.tasks[t]? = some x)
    (ht : s'.tasks = s.tasks.set t y) (hk : y.key = x.key) (hp : y.pc = x.pc)
    (e1 : s'.limit = s.limit) (e2 : s'.lph = s.lph) (e3 : s'.acquired = s.acquired) (e4 : s'.perHost = s.perHost)
    (e5 : s'.closed = s.closed) (e7 : s'.idle = s.idle) (e8 : s'.waitq = s.waitq) :
    Inv s' ∧ WaitInv s' := by
  have c : SameCore s s' := by
    have c0 := sameCore_setTask_fut (y := y) hx hk hp
    constructor
    · exact e1
    · exact e2
    · exact e3
    · exact e4
    · exact e5
    · rw [ht]; simp
    · intro u; have := c0.pc u; unfold pcOf at *; rw [ht]; exact this
    · intro u; have := c0.key u; unfold keyOf at *; rw [ht]; exact this
    · exact e7
  exact ⟨h.core c, hw.core c (by rw [e8]; exact fun u hu => hu)⟩


theorem inv_neutral_set {s : St} {t : Tid} {x y : Task} (h : Inv s) (hw : WaitInv s) (hx : s.tasks[t]? = some x)
    (hk : y.key = x.key) (hn : x.pc.neutral) (hn' : y.pc.neutral) (htw : t ∉ s.waitq) :
    Inv (setTask s t y) ∧ WaitInv (setTask s t y) := by
  have m : Moves s (setTask s t y) t x.pc y.pc := Moves.mk' hx hk rfl rfl rfl rfl
  exact ⟨h.same m rfl rfl (fun hc => (h.closed_empty hc).2.2) (Or.inr (Or.inl ⟨hn, hn'⟩)),
    hw.moves m (fun u hu => Or.inl hu) (Or.inl htw)⟩

theorem unpark_inv {s : St} (t : Tid) (k : Key) (h : Inv s) (hw : WaitInv s) :
    Inv (unpark s t k) ∧ WaitInv (unpark s t k) ∧ t ∉ (unpark s t k).waitq := by
  have c := unpark_core s t k
  refine ⟨h.core c, hw.core c (by intro u hu; rw [unpark_waitq] at hu; exact (mem_sremove.mp hu).1), ?_⟩
  rw [unpark_waitq]; intro hm; exact (mem_sremove.mp hm).2 rfl

theorem inv_failWait {s : St} {t : Tid} {x : Task} (h : Inv s) (hw : WaitInv s) (hx : s.tasks[t]? = some x)
    (hn : x.pc.neutral) : Inv (failWait Fixes.all s t x) ∧ WaitInv (failWait Fixes.all s t x) := by
  obtain ⟨h1, w1, htw⟩ := unpark_inv t x.key h hw
  have hx1 : (unpark s t x.key).tasks[t]? = some x := hx
  have := inv_neutral_set (y := { x with pc := .failed (failKind x), tr := none }) h1 w1 hx1 rfl hn (by simp [Pc.neutral]) htw
  unfold failWait; dsimp only; split
  · exact ⟨this.1.core (releaseWaiter_core _), this.2.core (releaseWaiter_core _) (releaseWaiter_waitq _)⟩
  · exact this

theorem inv_finishWait {s : St} {t : Tid} {x : Task} (h : Inv s) (hw : WaitInv s) (hx : s.tasks[t]? = some x)
    (hn : x.pc.neutral) : Inv (finishWait Fixes.all s t x) ∧ WaitInv (finishWait Fixes.all s t x) := by
  obtain ⟨h1, w1, htw⟩ := unpark_inv t x.key h hw
  exact inv_enter h1 w1 (show (unpark s t x.key).tasks[t]? = some x from hx) hn htw false

theorem inv_afterFut {s : St} {t : Tid} {x : Task} (h : Inv s) (hw : WaitInv s) (hx : s.tasks[t]? = some x)
    (hp : x.pc = .waiting) : Inv (afterFut Fixes.all s t x) ∧ WaitInv (afterFut Fixes.all s t x) := by
  have hn : x.pc.neutral := by rw [hp]; simp [Pc.neutral]
  unfold afterFut; split
  · exact inv_failWait h hw hx hn
  · split
    · exact inv_flag h hw hx rfl rfl rfl rfl rfl rfl rfl rfl rfl rfl
    · exact inv_finishWait h hw hx hn

theorem inv_swapOrClosed {s : St} {t : Tid} {x : Task} {r : Option Bool} (h : Inv s) (hw : WaitInv s)
    (hx : s.tasks[t]? = some x) (hpc : x.pc = .creating r) (c : Cid) :
    Inv (swapOrClosed s t x c) ∧ WaitInv (swapOrClosed s t x c) := by
  have htw : t ∉ s.waitq := by
    intro hm; have := hw t hm; rw [pcOf_of_get hx, hpc] at this; cases this
  unfold swapOrClosed
  by_cases hcl0 : s.closed = true
  · rw [if_pos hcl0]
    have m : Moves s (setTask (closeConn s c) t { x with pc := .failed .closedErr }) t x.pc (.failed .closedErr) :=
      Moves.mk' (y := { x with pc := .failed .closedErr }) hx rfl rfl rfl rfl rfl
    exact ⟨h.same m rfl rfl (fun hc => (h.closed_empty hc).2.2) (Or.inl hcl0), hw.moves m (fun u hu => Or.inl hu) (Or.inl htw)⟩
  · have hcl : s.closed = false := by cases e : s.closed <;> simp_all
    rw [if_neg hcl0]
    have m1 : Moves s (dropSlot (setTask s t { x with pc := .done }) x.key (.ph t)) t x.pc .done :=
      Moves.mk' (y := { x with pc := .done }) hx rfl rfl rfl rfl rfl
    have hi := h.remove m1 hcl (by simp [Pc.neutral]) (Or.inl ⟨_, rfl, hpc⟩) rfl (by rw [keyOf_of_get hx]; rfl)
    have wi := hw.moves m1 (fun u hu => Or.inl hu) (Or.inl htw)
    have hlt := lt_of_get hx
    have hxi : (dropSlot (setTask s t { x with pc := .done }) x.key (.ph t)).tasks[t]? = some { x with pc := .done } := by
      simp [dropSlot, setTask, hlt]
    have hpres := h.ph_present hcl t _ (by rw [pcOf_of_get hx, hpc])
    rw [keyOf_of_get hx] at hpres
    have hcap : hasCap (dropSlot (setTask s t { x with pc := .done }) x.key (.ph t))
        (keyOf (dropSlot (setTask s t { x with pc := .done }) x.key (.ph t)) t) = true := by
      rw [keyOf_of_get hxi]
      unfold hasCap hostCount dropSlot
      simp only [Bool.and_eq_true, Bool.or_eq_true, decide_eq_true_eq]
      constructor
      · rcases h.lim with h1 | h1
        · exact Or.inl h1
        · right; have := length_sremove_lt hpres.1; show (sremove (Slot.ph t) s.acquired).length < s.limit; omega
      · by_cases hl : s.lph = 0
        · exact Or.inl hl
        · right
          have hall : ∀ k, hostCount s k ≤ s.lph := by
            rcases h.limh with h1 | h1
            · exact absurd h1 hl
            · exact h1
          have := countP_sremove_lt (fun y : Key × Slot => decide (y.1 = x.key)) (hpres.2 hl) (by simp)
          have h2 := hall x.key
          unfold hostCount at h2
          show List.countP _ (if s.lph = 0 then s.perHost else sremove (x.key, Slot.ph t) s.perHost) < s.lph
          simp only [hl, if_false]; omega
    have m2 : Moves (dropSlot (setTask s t { x with pc := .done }) x.key (.ph t))
        (setTask { s with acquired := sinsert (Slot.conn c) (sremove (Slot.ph t) s.acquired),
                          perHost := if s.lph = 0 then s.perHost
                                     else sinsert (x.key, Slot.conn c) (sremove (x.key, Slot.ph t) s.perHost) }
          t { x with pc := .holding c }) t .done (.holding c) :=
      Moves.mk' (y := { x with pc := .holding c }) hxi rfl (by simp [dropSlot, setTask]) rfl rfl rfl
    refine ⟨hi.add m2 hcl hcap (by simp [Pc.neutral]) (Or.inr ⟨_, rfl, rfl⟩) rfl ?_, ?_⟩
    · rw [keyOf_of_get hxi]; by_cases hl : s.lph = 0 <;> simp [dropSlot, setTask, hl]
    · exact wi.moves m2 (fun u hu => Or.inl hu) (Or.inl htw)

theorem sameCore_closeConn (s : St) (c : Cid) : SameCore s (closeConn s c) := by
  constructor <;> intros <;> rfl

theorem inv_resumeTrace {s : St} {t : Tid} {x : Task} (h : Inv s) (hw : WaitInv s) (hx : s.tasks[t]? = some x) (hk : Hook) :
    Inv (resumeTrace Fixes.all s t x hk) ∧ WaitInv (resumeTrace Fixes.all s t x hk) := by
  unfold resumeTrace
  dsimp only
  split
  · -- reuse
    split
    · next c hpc =>
      split
      · have := inv_releaseAcquired_after (y := { x with pc := .failed (failKind x) }) (sl := .conn c) h hw hx rfl
          (by simp [Pc.neutral]) (Or.inr ⟨c, rfl, hpc⟩)
        simp only [Fixes.all, if_true]
        exact ⟨this.1.core (sameCore_closeConn _ c), this.2.core (sameCore_closeConn _ c) (fun u hu => hu)⟩
      · exact ⟨h, hw⟩
    · exact ⟨h, hw⟩
  · -- qstart
    split
    · next hpc =>
      have hn : x.pc.neutral := by rw [hpc]; simp [Pc.neutral]
      split
      · exact inv_failWait h hw hx hn
      · split
        · exact ⟨h, hw⟩
        · exact inv_afterFut h hw hx hpc
    · exact ⟨h, hw⟩
  · -- qend
    split
    · next hpc =>
      have hn : x.pc.neutral := by rw [hpc]; simp [Pc.neutral]
      split
      · exact inv_failWait h hw hx hn
      · exact inv_finishWait h hw hx hn
    · exact ⟨h, hw⟩
  · -- cstart
    split
    · next r hpc =>
      split
      · exact inv_releaseAcquired_after (y := { x with pc := .failed (failKind x) }) h hw hx rfl (by simp [Pc.neutral]) (Or.inl ⟨r, rfl, hpc⟩)
      · exact ⟨h, hw⟩
    · exact ⟨h, hw⟩
  · -- cend
    next c =>
    have cc : SameCore s { s with pendingNew := sremove c s.pendingNew } := by constructor <;> intros <;> rfl
    have h1 := h.core cc
    have w1 : WaitInv { s with pendingNew := sremove c s.pendingNew } := hw.core cc (fun u hu => hu)
    have hx1 : ({ s with pendingNew := sremove c s.pendingNew } : St).tasks[t]? = some x := hx
    split
    · next r hpc =>
      split
      · have := inv_releaseAcquired_after (y := { x with pc := .failed (failKind x) }) (sl := .ph t) h1 w1 hx1 rfl
          (by simp [Pc.neutral]) (Or.inl ⟨r, rfl, hpc⟩)
        simp only [Fixes.all, if_true]
        exact ⟨this.1.core (sameCore_closeConn _ c), this.2.core (sameCore_closeConn _ c) (fun u hu => hu)⟩
      · exact inv_swapOrClosed h1 w1 hx1 hpc c
    · exact ⟨h, hw⟩

theorem inv_resume {s : St} {t : Tid} {x : Task} (h : Inv s) (hw : WaitInv s) (hx : s.tasks[t]? = some x) :
    Inv (resume Fixes.all s t x) ∧ WaitInv (resume Fixes.all s t x) := by
  unfold resume
  split
  · next hk r htr =>
    split
    · exact ⟨h, hw⟩
    · have c := sameCore_setTask_fut (y := { x with tr := none }) hx rfl rfl
      have hx1 : (setTask s t { x with tr := none }).tasks[t]? = some { x with tr := none } := by
        simp [setTask, lt_of_get hx]
      exact inv_resumeTrace (h.core c) (hw.core c (fun u hu => hu)) hx1 hk
  · split
    · next hpc =>
      have hn : x.pc.neutral := by rw [hpc]; simp [Pc.neutral]
      have htw : t ∉ s.waitq := by
        intro hm; have := hw t hm; rw [pcOf_of_get hx, hpc] at this; cases this
      split
      · exact inv_neutral_set (y := { x with pc := .failed .cancelled }) h hw hx rfl hn (by simp [Pc.neutral]) htw
      · exact inv_enter h hw hx hn htw true
    · next hpc =>
      split
      · exact ⟨h, hw⟩
      · exact inv_afterFut h hw hx hpc
    · next res hpc =>
      split
      · exact inv_releaseAcquired_after (y := { x with pc := .failed (failKind x) }) h hw hx rfl (by simp [Pc.neutral]) (Or.inl ⟨res, rfl, hpc⟩)
      · split
        · exact ⟨h, hw⟩
        · exact inv_releaseAcquired_after (y := { x with pc := .failed .oserr }) h hw hx rfl (by simp [Pc.neutral]) (Or.inl ⟨_, rfl, hpc⟩)
        · dsimp only
          have cc : SameCore s { s with conns := s.conns ++ [({ key := x.key } : Conn)] } := by constructor <;> intros <;> rfl
          have h1 := h.core cc
          have w1 : WaitInv { s with conns := s.conns ++ [({ key := x.key } : Conn)] } := hw.core cc (fun u hu => hu)
          have hx1 : ({ s with conns := s.conns ++ [({ key := x.key } : Conn)] } : St).tasks[t]? = some x := hx
          split
          · exact inv_flag (s := s) h hw hx rfl rfl rfl rfl rfl rfl rfl rfl rfl rfl
          · exact inv_swapOrClosed h1 w1 hx1 hpc _
    · exact ⟨h, hw⟩

theorem inv_cancelTask {s : St} {t : Tid} {x : Task} (h : Inv s) (hw : WaitInv s) (hx : s.tasks[t]? = some x) (b : Bool) :
    Inv (cancelTask s t x b) ∧ WaitInv (cancelTask s t x b) := by
  cases b <;> unfold cancelTask <;> simp only [Bool.false_eq_true, if_false, if_true, Bool.false_and, Bool.true_and]
  all_goals repeat' split
  all_goals first
    | exact ⟨h, hw⟩
    | exact inv_flag h hw hx rfl rfl rfl rfl rfl rfl rfl rfl rfl rfl

theorem foldl_closeConn_closed (l : List Cid) (s : St) : (l.foldl closeConn s).closed = s.closed := by
  induction l generalizing s with
  | nil => rfl
  | cons a t ih => simp only [List.foldl_cons]; rw [ih]; rfl
theorem closeSlots_closed (l : List Slot) (s : St) : (closeSlots s l).closed = s.closed := by
  induction l generalizing s with
  | nil => rfl
  | cons a t ih => cases a <;> simp only [closeSlots] <;> rw [ih] <;> rfl
theorem cancelWaiters_closed (l : List Tid) (s : St) : (cancelWaiters s l).closed = s.closed := by
  induction l generalizing s with
  | nil => rfl
  | cons a t ih =>
    simp only [cancelWaiters]; split
    · split
      · rw [ih]; rfl
      · exact ih s
    · exact ih s

theorem closeAll_fields {s : St} (hc : s.closed = false) :
    (closeAll Fixes.all s).closed = true ∧ (closeAll Fixes.all s).acquired = [] ∧ (closeAll Fixes.all s).perHost = []
    ∧ (closeAll Fixes.all s).idle = [] ∧ (closeAll Fixes.all s).waitq = [] ∧ (closeAll Fixes.all s).wkeys = [] := by
  simp [closeAll, hc, Fixes.all, cancelWaiters_closed, closeSlots_closed, foldl_closeConn_closed]

theorem inv_closeAll {s : St} (h : Inv s) (hw : WaitInv s) : Inv (closeAll Fixes.all s) ∧ WaitInv (closeAll Fixes.all s) := by
  cases hc : s.closed
  · obtain ⟨e1, e2, e3, e4, e5, _⟩ := closeAll_fields hc
    refine ⟨?_, ?_⟩
    · constructor
      · intro hf; rw [e1] at hf; cases hf
      · right; rw [e2]; simp
      · right; intro k; simp [hostCount, e3]
      · intro t ht; rw [e2] at ht; cases ht
      · intro t ht; rw [e2] at ht; cases ht
      · intro k t ht; rw [e3] at ht; cases ht
      · intro k t ht; rw [e3] at ht; cases ht
      · intro _; exact ⟨e2, e3, e4⟩
      · intro _; exact e3
    · intro t ht; rw [e5] at ht; cases ht
  · have : closeAll Fixes.all s = s := by simp [closeAll, hc]
    rw [this]; exact ⟨h, hw⟩

theorem inv_pc {s s' : St} {t : Tid} {x y : Task} (h : Inv s) (hw : WaitInv s) (hx : s.tasks[t]? = some x)
    (ht : s'.tasks = s.tasks.set t y) (hk : y.key = x.key)
    (e1 : s'.limit = s.limit) (e2 : s'.lph = s.lph) (e3 : s'.acquired = s.acquired) (e4 : s'.perHost = s.perHost)
    (e5 : s'.closed = s.closed) (e7 : s'.idle = s.idle) (e8 : s'.waitq = s.waitq) (htw : t ∉ s.waitq)
    (hc : (x.pc.neutral ∧ y.pc.neutral) ∨ (∃ r r', x.pc = .creating r ∧ y.pc = .creating r')) : Inv s' ∧ WaitInv s' := by
  have m : Moves s s' t x.pc y.pc := Moves.mk' hx hk ht e1 e2 e5
  refine ⟨h.same m e3 e4 (fun hc => by rw [e7]; exact (h.closed_empty hc).2.2) (Or.inr ?_), ?_⟩
  · rcases hc with hc | hc
    · exact Or.inl hc
    · exact Or.inr (Or.inl hc)
  · exact hw.moves m (fun u hu => Or.inl (by rw [e8] at hu; exact hu)) (Or.inl htw)

theorem not_waiting_notin {s : St} {t : Tid} {x : Task} (hw : WaitInv s) (hx : s.tasks[t]? = some x)
    (hp : x.pc ≠ .waiting) : t ∉ s.waitq := by
  intro hm; have := hw t hm; rw [pcOf_of_get hx] at this; exact hp (Option.some.inj this)

theorem inv_step {s : St} (h : Inv s) (hw : WaitInv s) (l : Label) :
    Inv (step Fixes.all s l) ∧ WaitInv (step Fixes.all s l) := by
  cases l with
  | spawn t =>
    simp only [step]; split
    · next x hx =>
      split
      · next hpc =>
        exact inv_pc (y := { x with pc := .start }) h hw hx rfl rfl rfl rfl rfl rfl rfl rfl rfl
          (not_waiting_notin hw hx (by rw [hpc]; simp)) (Or.inl ⟨by rw [hpc]; simp [Pc.neutral], by simp [Pc.neutral]⟩)
      · exact ⟨h, hw⟩
    · exact ⟨h, hw⟩
  | tick =>
    simp only [step]; split
    · exact ⟨h, hw⟩
    · next t rest hr =>
      have c : SameCore s { s with ready := rest } := sameCore_ready s rest
      split
      · next x hx => exact inv_resume (h.core c) (hw.core c (fun u hu => hu)) hx
      · exact ⟨h.core c, hw.core c (fun u hu => hu)⟩
  | createDone t ok =>
    simp only [step]; split
    · next x hx =>
      split
      · next hpc =>
        have hpc' : x.pc = .creating none := by simp at hpc; exact hpc.1.1.1
        exact inv_pc (y := { x with pc := .creating (some ok) }) h hw hx rfl rfl rfl rfl rfl rfl rfl rfl rfl
          (not_waiting_notin hw hx (by rw [hpc']; simp)) (Or.inr ⟨_, _, hpc', rfl⟩)
      · exact ⟨h, hw⟩
    · exact ⟨h, hw⟩
  | cancel t =>
    simp only [step]; split
    · next x hx => exact inv_cancelTask h hw hx false
    · exact ⟨h, hw⟩
  | timeout t =>
    simp only [step]; split
    · next x hx => exact inv_cancelTask h hw hx true
    · exact ⟨h, hw⟩
  | release t pool =>
    simp only [step]; split
    · next x hx =>
      split
      · next c hpc =>
        split
        · exact ⟨h, hw⟩
        by_cases hcl : s.closed = true
        · have : (setTask s t { x with pc := .done }).closed = true := hcl
          rw [if_pos this]
          have m : Moves s (setTask s t { x with pc := .done }) t x.pc .done :=
            Moves.mk' (y := { x with pc := .done }) hx rfl rfl rfl rfl rfl
          exact ⟨h.same m rfl rfl (fun hc => (h.closed_empty hc).2.2) (Or.inl hcl),
            hw.moves m (fun u hu => Or.inl hu) (Or.inl (not_waiting_notin hw hx (by rw [hpc]; simp)))⟩
        · have : ¬ (setTask s t { x with pc := .done }).closed = true := hcl
          rw [if_neg this]
          have h1 := inv_releaseAcquired_after (y := { x with pc := .done }) (sl := .conn c) h hw hx rfl
            (by simp [Pc.neutral]) (Or.inr ⟨c, rfl, hpc⟩)
          split
          · have hcl' : (releaseAcquired (setTask s t { x with pc := .done }) x.key (.conn c)).closed = false := by
              rw [releaseAcquired_eq, if_neg this, (releaseWaiter_core _).closed]
              cases e : s.closed
              · exact e
              · exact absurd e hcl
            have cu : SameCore { (releaseAcquired (setTask s t { x with pc := .done }) x.key (.conn c)) with
                  idle := (releaseAcquired (setTask s t { x with pc := .done }) x.key (.conn c)).idle ++ [c] }
                { (releaseAcquired (setTask s t { x with pc := .done }) x.key (.conn c)) with
                  idle := (releaseAcquired (setTask s t { x with pc := .done }) x.key (.conn c)).idle ++ [c],
                  timer := (releaseAcquired (setTask s t { x with pc := .done }) x.key (.conn c)).timer || decide (0 < (releaseAcquired (setTask s t { x with pc := .done }) x.key (.conn c)).ka),
                  conns := (releaseAcquired (setTask s t { x with pc := .done }) x.key (.conn c)).conns.modify c
                    (fun y => { y with usedAt := (releaseAcquired (setTask s t { x with pc := .done }) x.key (.conn c)).now }) } := by
              constructor <;> intros <;> rfl
            exact ⟨(h1.1.setIdle _ (fun hc => by rw [hcl'] at hc; cases hc)).core cu, fun u hu => h1.2 u hu⟩
          · have cc : SameCore (releaseAcquired (setTask s t { x with pc := .done }) x.key (.conn c))
                (closeConn (releaseAcquired (setTask s t { x with pc := .done }) x.key (.conn c)) c) := by
              constructor <;> intros <;> first | rfl | simp [closeConn]
            exact ⟨h1.1.core cc, h1.2.core cc (fun u hu => hu)⟩
      all_goals exact ⟨h, hw⟩
    · exact ⟨h, hw⟩
  | lose c =>
    simp only [step]; split
    · have cc : SameCore s (closeConn s c) := by
        constructor <;> intros <;> first | rfl | simp [closeConn]
      exact ⟨h.core cc, hw.core cc (fun u hu => hu)⟩
    · exact ⟨h, hw⟩
  | close => exact inv_closeAll h hw
  | shuffle p =>
    have cc : SameCore s { s with perm := p } := by constructor <;> intros <;> rfl
    exact ⟨h.core cc, hw.core cc (fun u hu => hu)⟩
  | traceDone t =>
    simp only [step]; split
    · next x hx =>
      split
      · split
        · exact inv_flag h hw hx rfl rfl rfl rfl rfl rfl rfl rfl rfl rfl
        · exact ⟨h, hw⟩
      · exact ⟨h, hw⟩
    · exact ⟨h, hw⟩
  | advance d =>
    have cc : SameCore s { s with now := s.now + d } := by constructor <;> intros <;> rfl
    exact ⟨h.core cc, hw.core cc (fun u hu => hu)⟩
  | sweep =>
    simp only [step]; split
    · have h1 := h.setIdle (s.idle.filter (usable s)) (fun hc => by rw [(h.closed_empty hc).2.2]; rfl)
      have cc : SameCore { s with idle := s.idle.filter (usable s) } (cleanup s) := by
        constructor <;> intros <;> rfl
      exact ⟨h1.core cc, fun u hu => hw u hu⟩
    · exact ⟨h, hw⟩

theorem inv_init (limit lph : Nat) (keys : List Key) (mask ka : Nat) :
    Inv (init limit lph keys mask ka) ∧ WaitInv (init limit lph keys mask ka) := by
  refine ⟨?_, ?_⟩
  · constructor
    · intro _ t r hp
      simp only [pcOf, init, List.getElem?_map] at hp
      cases hk : keys[t]? <;> simp [hk] at hp
    · right; simp [init]
    · right; intro k; simp [init, hostCount]
    · intro t ht; simp [init] at ht
    · intro t ht; simp [init] at ht
    · intro k t ht; simp [init] at ht
    · intro k t ht; simp [init] at ht
    · intro hc; simp [init] at hc
    · intro _; rfl
  · intro t ht; simp [init] at ht

theorem inv_run {s : St} (h : Inv s) (hw : WaitInv s) (ls : List Label) :
    Inv (run Fixes.all s ls) ∧ WaitInv (run Fixes.all s ls) := by
  induction ls generalizing s with
  | nil => exact ⟨h, hw⟩
  | cons l ls ih =>
    have := inv_step h hw l
    exact ih this.1 this.2


/-! ## connections: every open connection is pooled, in use, or still in `connect()`'s hands inside an
on_connection_create_end callback; a closed connector queues nobody -/

def OInv (s : St) : Prop :=
  ∀ c, connOpen s c = true → c ∈ s.idle ∨ Slot.conn c ∈ s.acquired ∨ c ∈ s.pendingNew
def QInv (s : St) : Prop := s.closed = true → s.waitq = []

/-- the parts of the state `OInv` reads besides the core -/
def Rest (s s' : St) : Prop := s'.conns = s.conns ∧ s'.pendingNew = s.pendingNew

theorem wake_rest (s : St) (t : Tid) : Rest s (wake s t) := by
  unfold wake; split <;> exact ⟨rfl, rfl⟩
theorem releaseWaiterKeys_rest (ks : List Key) : ∀ s : St, Rest s (releaseWaiterKeys s ks) := by
  induction ks with
  | nil => intro s; exact ⟨rfl, rfl⟩
  | cons k ks ih =>
    intro s; unfold releaseWaiterKeys; split
    · dsimp only; split
      · exact wake_rest _ _
      · exact ih _
    · exact ih s
theorem releaseWaiter_rest (s : St) : Rest s (releaseWaiter s) := releaseWaiterKeys_rest _ s
theorem releaseWaiter_conns (s : St) : (releaseWaiter s).conns = s.conns := (releaseWaiter_rest s).1

theorem connOpen_congr {s s' : St} (h : s'.conns = s.conns) (c : Cid) : connOpen s' c = connOpen s c := by
  unfold connOpen; rw [h]

theorem OInv.of_eq {s s' : St} (h : OInv s) (e1 : s'.conns = s.conns) (e2 : s'.idle = s.idle)
    (e3 : s'.acquired = s.acquired) (e4 : s'.pendingNew = s.pendingNew) : OInv s' := by
  intro c hc; rw [connOpen_congr e1] at hc; rw [e2, e3, e4]; exact h c hc

theorem OInv.core {s s' : St} (h : OInv s) (c : SameCore s s') (e : Rest s s') : OInv s' :=
  h.of_eq e.1 c.idle c.acquired e.2
theorem QInv.core {s s' : St} (h : QInv s) (c : SameCore s s') (hw : ∀ u ∈ s'.waitq, u ∈ s.waitq) : QInv s' := by
  intro hc; rw [c.closed] at hc
  have := h hc
  apply List.eq_nil_iff_forall_not_mem.mpr
  intro u hu; have := hw u hu; simp_all

theorem connOpen_closeConn (s : St) (c d : Cid) :
    connOpen (closeConn s c) d = (if d = c then false else connOpen s d) := by
  unfold connOpen closeConn
  simp only [List.getElem?_modify]
  by_cases e : c = d
  · subst e; cases h : s.conns[c]? <;> simp [h]
  · have : ¬ d = c := fun e' => e e'.symm
    simp [e, this]

theorem connOpen_closeMany (s : St) (l : List Cid) (c : Cid) :
    connOpen (closeMany s l) c = (if c ∈ l then false else connOpen s c) := by
  unfold connOpen closeMany
  simp only [List.getElem?_mapIdx]
  cases h : s.conns[c]? with
  | none => simp
  | some x => by_cases e : c ∈ l <;> simp [e]

theorem connOpen_setUsed (s : St) (c d n : Nat) :
    connOpen { s with conns := s.conns.modify c (fun y => { y with usedAt := n }) } d = connOpen s d := by
  unfold connOpen
  simp only [List.getElem?_modify]
  by_cases e : c = d
  · subst e; cases h : s.conns[c]? <;> simp [h]
  · simp [e]

theorem popIdle_spec (s : St) (k : Key) (l : List Cid) :
    (∀ c ∈ l, c ∈ (popIdle s k l).2 ∨ (popIdle s k l).1 = some c ∨ c ∈ popDropped s k l)
    ∧ (∀ c ∈ (popIdle s k l).2, c ∈ l) := by
  induction l with
  | nil => simp [popIdle]
  | cons a t ih =>
    unfold popIdle popDropped
    split
    · split
      · next ho =>
        refine ⟨?_, fun c hc => List.mem_cons_of_mem _ hc⟩
        intro c hc
        rcases List.mem_cons.mp hc with e | e
        · subst e; exact Or.inr (Or.inl rfl)
        · exact Or.inl e
      · next ho =>
        refine ⟨?_, fun c hc => List.mem_cons_of_mem _ (ih.2 c hc)⟩
        intro c hc
        rcases List.mem_cons.mp hc with e | e
        · subst e; right; right; simp
        · rcases ih.1 c e with h1 | h1 | h1
          · exact Or.inl h1
          · exact Or.inr (Or.inl h1)
          · exact Or.inr (Or.inr (List.mem_cons_of_mem _ h1))
    · refine ⟨?_, ?_⟩
      · intro c hc
        rcases List.mem_cons.mp hc with e | e
        · subst e; left; simp
        · rcases ih.1 c e with h1 | h1 | h1
          · left; exact List.mem_cons_of_mem _ h1
          · right; left; exact h1
          · right; right; exact h1
      · intro c hc
        rcases List.mem_cons.mp hc with e | e
        · subst e; simp
        · exact List.mem_cons_of_mem _ (ih.2 c e)

theorem oinv_tryGet {s : St} {t : Tid} {x : Task} {b : Bool} (h : OInv s) (hq : QInv s) :
    OInv (tryGet s t x b).1 ∧ QInv (tryGet s t x b).1 := by
  have sp := popIdle_spec s x.key s.idle
  have key : ∀ c, connOpen (closeMany { s with idle := (popIdle s x.key s.idle).2 } (popDropped s x.key s.idle)) c = true →
      connOpen s c = true ∧ c ∉ popDropped s x.key s.idle := by
    intro c hc
    rw [connOpen_closeMany] at hc
    split at hc
    · cases hc
    · next ne => exact ⟨hc, ne⟩
  unfold tryGet; dsimp only; split
  · next hn =>
    refine ⟨?_, hq⟩
    intro c hc
    obtain ⟨hc', hnd⟩ := key c hc
    rcases h c hc' with h1 | h1 | h1
    · rcases sp.1 c h1 with h2 | h2 | h2
      · exact Or.inl h2
      · rw [hn] at h2; cases h2
      · exact absurd h2 hnd
    · exact Or.inr (Or.inl h1)
    · exact Or.inr (Or.inr h1)
  · next c0 hn =>
    refine ⟨?_, hq⟩
    intro c hc
    obtain ⟨hc', hnd⟩ := key c hc
    show c ∈ (popIdle s x.key s.idle).2 ∨ Slot.conn c ∈ sinsert (Slot.conn c0) s.acquired ∨ c ∈ s.pendingNew
    rcases h c hc' with h1 | h1 | h1
    · rcases sp.1 c h1 with h2 | h2 | h2
      · exact Or.inl h2
      · rw [hn] at h2; cases h2; exact Or.inr (Or.inl (mem_sinsert.mpr (Or.inl rfl)))
      · exact absurd h2 hnd
    · exact Or.inr (Or.inl (mem_sinsert.mpr (Or.inr h1)))
    · exact Or.inr (Or.inr h1)

theorem oinv_reserve {s : St} {t : Tid} {x : Task} (h : OInv s) (hq : QInv s) :
    OInv (reserve Fixes.all s t x) ∧ QInv (reserve Fixes.all s t x) := by
  unfold reserve; split
  · exact ⟨h.of_eq rfl rfl rfl rfl, hq⟩
  · refine ⟨?_, hq⟩
    intro c hc
    rcases h c hc with h1 | h1 | h1
    · exact Or.inl h1
    · exact Or.inr (Or.inl (mem_sinsert.mpr (Or.inr h1)))
    · exact Or.inr (Or.inr h1)

theorem hasCap_closed {s : St} (h : Inv s) (hc : s.closed = true) (k : Key) : hasCap s k = true := by
  obtain ⟨e1, e2, _⟩ := h.closed_empty hc
  unfold hasCap hostCount
  simp only [e1, e2, List.length_nil, List.countP_nil, Bool.and_eq_true, Bool.or_eq_true, decide_eq_true_eq]
  omega

theorem oinv_park {s : St} {t : Tid} {x : Task} (h : OInv s) (hc : s.closed = false) (b : Bool) :
    OInv (park s t x b) ∧ QInv (park s t x b) :=
  ⟨h.of_eq rfl rfl rfl rfl, fun hc' => by rw [show (park s t x b).closed = s.closed from rfl, hc] at hc'; cases hc'⟩

theorem oinv_enter {s : St} {t : Tid} {x : Task} (hi : Inv s) (h : OInv s) (hq : QInv s) (first : Bool) :
    OInv (enter Fixes.all s t x first) ∧ QInv (enter Fixes.all s t x first) := by
  cases hcap : hasCap s x.key
  · have hcl : s.closed = false := by
      cases e : s.closed
      · rfl
      · rw [hasCap_closed hi e] at hcap; cases hcap
    cases first <;> simp [enter, Fixes.all, hcap]
    · have c := releaseWaiter_core s
      exact oinv_park (h.core c (releaseWaiter_rest s)) (by rw [c.closed]; exact hcl) true
    · exact oinv_park h hcl false
  · cases first <;> simp [enter, Fixes.all, hcap]
    · split
      · exact oinv_tryGet h hq
      · have := oinv_tryGet (t := t) (x := x) (b := false) h hq; exact oinv_reserve this.1 this.2
    · split
      · exact oinv_tryGet h hq
      · next hf =>
        have hf' : (tryGet s t x true).snd = false := by simpa using hf
        have : hasCap (tryGet s t x true).fst x.key = true := by rw [tryGet_false hf']; exact hcap
        simp only [this, if_true]
        have := oinv_tryGet (t := t) (x := x) (b := true) h hq; exact oinv_reserve this.1 this.2

theorem oinv_releaseAcquired {s : St} {k : Key} {sl : Slot} (h : OInv s) (hq : QInv s)
    (hsl : ∀ c, sl = .conn c → connOpen s c = true → c ∈ s.idle) :
    OInv (releaseAcquired s k sl) ∧ QInv (releaseAcquired s k sl) := by
  rw [releaseAcquired_eq]; split
  · exact ⟨h, hq⟩
  · have c := releaseWaiter_core (dropSlot s k sl)
    have o1 : OInv (dropSlot s k sl) := by
      intro c hc
      rcases h c hc with h1 | h1 | h1
      · exact Or.inl h1
      · by_cases e : sl = .conn c
        · exact Or.inl (hsl c e hc)
        · exact Or.inr (Or.inl (mem_sremove.mpr ⟨h1, fun e' => e e'.symm⟩))
      · exact Or.inr (Or.inr h1)
    have q1 : QInv (dropSlot s k sl) := hq
    exact ⟨o1.core c (releaseWaiter_rest _), q1.core c (releaseWaiter_waitq _)⟩

theorem releaseAcquired_fields (s : St) (k : Key) (sl : Slot) :
    (releaseAcquired s k sl).conns = s.conns ∧ (releaseAcquired s k sl).idle = s.idle
    ∧ (releaseAcquired s k sl).closed = s.closed
    ∧ (∀ x ∈ s.acquired, x ≠ sl → x ∈ (releaseAcquired s k sl).acquired)
    ∧ (∀ u ∈ (releaseAcquired s k sl).waitq, u ∈ s.waitq)
    ∧ (releaseAcquired s k sl).pendingNew = s.pendingNew := by
  rw [releaseAcquired_eq]; split
  · exact ⟨rfl, rfl, rfl, fun x hx _ => hx, fun u hu => hu, rfl⟩
  · have c := releaseWaiter_core (dropSlot s k sl)
    refine ⟨releaseWaiter_conns _, c.idle, c.closed, ?_, releaseWaiter_waitq _, (releaseWaiter_rest _).2⟩
    intro x hx hne; rw [c.acquired]; exact mem_sremove.mpr ⟨hx, hne⟩

theorem oinv_setTask {s : St} (t : Tid) (y : Task) (h : OInv s) (hq : QInv s) :
    OInv (setTask s t y) ∧ QInv (setTask s t y) := ⟨h.of_eq rfl rfl rfl rfl, hq⟩


/-- `OInv` for every connection but `c` -/
def OInvEx (s : St) (c : Cid) : Prop :=
  ∀ d, d ≠ c → connOpen s d = true → d ∈ s.idle ∨ Slot.conn d ∈ s.acquired ∨ d ∈ s.pendingNew

theorem connOpen_append {s : St} {n : Conn} {d : Cid}
    (h : connOpen { s with conns := s.conns ++ [n] } d = true) : connOpen s d = true ∨ d = s.conns.length := by
  unfold connOpen at h ⊢
  by_cases e : d < s.conns.length
  · left; simp only [] at h; rw [List.getElem?_append_left e] at h; exact h
  · right
    have e2 : s.conns.length ≤ d := Nat.le_of_not_lt e
    by_cases e3 : d = s.conns.length
    · exact e3
    · exfalso
      simp only [] at h
      rw [List.getElem?_append_right e2] at h
      have : d - s.conns.length ≠ 0 := by
        intro h0; exact e3 (Nat.le_antisymm (Nat.le_of_sub_eq_zero h0) e2)
      cases hh : d - s.conns.length
      · exact this hh
      · simp [hh] at h

theorem oinv_failWait {s : St} {t : Tid} {x : Task} (hi : Inv s) (h : OInv s) (hq : QInv s) :
    OInv (failWait Fixes.all s t x) ∧ QInv (failWait Fixes.all s t x) := by
  have c := unpark_core s t x.key
  have o1 : OInv (unpark s t x.key) := h.of_eq rfl rfl rfl rfl
  have q1 : QInv (unpark s t x.key) := hq.core c (by intro u hu; rw [unpark_waitq] at hu; exact (mem_sremove.mp hu).1)
  have := oinv_setTask t { x with pc := .failed (failKind x), tr := none } o1 q1
  unfold failWait; dsimp only; split
  · have c2 := releaseWaiter_core (setTask (unpark s t x.key) t { x with pc := .failed (failKind x), tr := none })
    exact ⟨this.1.core c2 (releaseWaiter_rest _), this.2.core c2 (releaseWaiter_waitq _)⟩
  · exact this

theorem oinv_finishWait {s : St} {t : Tid} {x : Task} (hi : Inv s) (h : OInv s) (hq : QInv s) :
    OInv (finishWait Fixes.all s t x) ∧ QInv (finishWait Fixes.all s t x) := by
  have c := unpark_core s t x.key
  have o1 : OInv (unpark s t x.key) := h.of_eq rfl rfl rfl rfl
  have q1 : QInv (unpark s t x.key) := hq.core c (by intro u hu; rw [unpark_waitq] at hu; exact (mem_sremove.mp hu).1)
  exact oinv_enter (hi.core c) o1 q1 false

theorem oinv_afterFut {s : St} {t : Tid} {x : Task} (hi : Inv s) (h : OInv s) (hq : QInv s) :
    OInv (afterFut Fixes.all s t x) ∧ QInv (afterFut Fixes.all s t x) := by
  unfold afterFut; split
  · exact oinv_failWait hi h hq
  · split
    · exact oinv_setTask _ _ h hq
    · exact oinv_finishWait hi h hq

theorem oinv_swapOrClosed {s : St} {t : Tid} {x : Task} {c : Cid} (h : OInvEx s c) (hq : QInv s) :
    OInv (swapOrClosed s t x c) ∧ QInv (swapOrClosed s t x c) := by
  unfold swapOrClosed; split
  · refine ⟨?_, hq⟩
    intro d hd
    have hd' : connOpen (closeConn s c) d = true := hd
    rw [connOpen_closeConn] at hd'
    split at hd'
    · cases hd'
    · next ne => exact h d ne hd'
  · refine ⟨?_, hq⟩
    intro d hd
    have hd' : connOpen s d = true := hd
    show d ∈ s.idle ∨ Slot.conn d ∈ sinsert (Slot.conn c) (sremove (Slot.ph t) s.acquired) ∨ d ∈ s.pendingNew
    by_cases e : d = c
    · subst e; exact Or.inr (Or.inl (mem_sinsert.mpr (Or.inl rfl)))
    · rcases h d e hd' with h1 | h1 | h1
      · exact Or.inl h1
      · exact Or.inr (Or.inl (mem_sinsert.mpr (Or.inr (mem_sremove.mpr ⟨h1, by intro e'; cases e'⟩))))
      · exact Or.inr (Or.inr h1)

/-- give a placeholder back, then close connection `c`: every other connection keeps its owner -/
theorem oinv_abort_new {s : St} {t : Tid} {y : Task} {k : Key} {c : Cid} (h : OInvEx s c) (hq : QInv s) :
    OInv (closeConn (releaseAcquired (setTask s t y) k (.ph t)) c)
    ∧ QInv (closeConn (releaseAcquired (setTask s t y) k (.ph t)) c) := by
  obtain ⟨f1, f2, f3, f4, f5, f6⟩ := releaseAcquired_fields (setTask s t y) k (.ph t)
  refine ⟨?_, ?_⟩
  · intro d hd
    rw [connOpen_closeConn] at hd
    split at hd
    · cases hd
    · next ne =>
      have hd' : connOpen s d = true := by
        rw [← connOpen_congr (s := s) (s' := releaseAcquired (setTask s t y) k (.ph t)) f1]; exact hd
      show d ∈ (releaseAcquired (setTask s t y) k (.ph t)).idle ∨ _ ∨ d ∈ (releaseAcquired (setTask s t y) k (.ph t)).pendingNew
      rw [f2, f6]
      rcases h d ne hd' with h1 | h1 | h1
      · exact Or.inl h1
      · exact Or.inr (Or.inl (f4 _ h1 (by intro e'; cases e')))
      · exact Or.inr (Or.inr h1)
  · intro hc
    have hc' : s.closed = true := by
      have e : (setTask s t y).closed = s.closed := rfl
      rw [← e, ← f3]; exact hc
    have := hq hc'
    apply List.eq_nil_iff_forall_not_mem.mpr
    intro u hu; have := f5 u hu; simp_all [setTask]

theorem oinv_resumeTrace {s : St} {t : Tid} {x : Task} (hi : Inv s) (h : OInv s) (hq : QInv s) (hk : Hook) :
    OInv (resumeTrace Fixes.all s t x hk) ∧ QInv (resumeTrace Fixes.all s t x hk) := by
  unfold resumeTrace
  dsimp only
  split
  · split
    · next c hpc =>
      split
      · simp only [Fixes.all, if_true]
        -- the released connection is closed at once
        obtain ⟨f1, f2, f3, f4, f5, f6⟩ := releaseAcquired_fields (setTask s t { x with pc := .failed (failKind x) }) x.key (.conn c)
        refine ⟨?_, ?_⟩
        · intro d hd
          rw [connOpen_closeConn] at hd
          split at hd
          · cases hd
          · next ne =>
            have hd' : connOpen s d = true := by
              rw [← connOpen_congr (s := s) (s' := releaseAcquired (setTask s t { x with pc := .failed (failKind x) }) x.key (.conn c)) f1]; exact hd
            show d ∈ (releaseAcquired (setTask s t { x with pc := .failed (failKind x) }) x.key (.conn c)).idle ∨ _ ∨
              d ∈ (releaseAcquired (setTask s t { x with pc := .failed (failKind x) }) x.key (.conn c)).pendingNew
            rw [f2, f6]
            rcases h d hd' with h1 | h1 | h1
            · exact Or.inl h1
            · exact Or.inr (Or.inl (f4 _ h1 (by intro e'; cases e'; exact ne rfl)))
            · exact Or.inr (Or.inr h1)
        · intro hc
          have hc' : s.closed = true := by
            have e : (setTask s t { x with pc := .failed (failKind x) }).closed = s.closed := rfl
            rw [← e, ← f3]; exact hc
          have := hq hc'
          apply List.eq_nil_iff_forall_not_mem.mpr
          intro u hu; have := f5 u hu; simp_all [setTask]
      · exact ⟨h, hq⟩
    · exact ⟨h, hq⟩
  · split
    · split
      · exact oinv_failWait hi h hq
      · split
        · exact ⟨h, hq⟩
        · exact oinv_afterFut hi h hq
    · exact ⟨h, hq⟩
  · split
    · split
      · exact oinv_failWait hi h hq
      · exact oinv_finishWait hi h hq
    · exact ⟨h, hq⟩
  · split
    · split
      · have := oinv_setTask t { x with pc := .failed (failKind x) } h hq
        exact oinv_releaseAcquired this.1 this.2 (fun c e => by cases e)
      · exact ⟨h, hq⟩
    · exact ⟨h, hq⟩
  · next c =>
    split
    · have hex : OInvEx { s with pendingNew := sremove c s.pendingNew } c := by
        intro d ne hd
        rcases h d hd with h1 | h1 | h1
        · exact Or.inl h1
        · exact Or.inr (Or.inl h1)
        · exact Or.inr (Or.inr (mem_sremove.mpr ⟨h1, ne⟩))
      have hq1 : QInv { s with pendingNew := sremove c s.pendingNew } := hq
      split
      · simp only [Fixes.all, if_true]
        exact oinv_abort_new hex hq1
      · exact oinv_swapOrClosed hex hq1
    · exact ⟨h, hq⟩
theorem oinv_resume {s : St} {t : Tid} {x : Task} (hi : Inv s) (h : OInv s) (hq : QInv s) (hx : s.tasks[t]? = some x) :
    OInv (resume Fixes.all s t x) ∧ QInv (resume Fixes.all s t x) := by
  unfold resume
  split
  · next hk r htr =>
    split
    · exact ⟨h, hq⟩
    · have c := sameCore_setTask_fut (y := { x with tr := none }) hx rfl rfl
      have := oinv_setTask t { x with tr := none } h hq
      exact oinv_resumeTrace (hi.core c) this.1 this.2 hk
  · split
    · split
      · exact oinv_setTask _ _ h hq
      · exact oinv_enter hi h hq true
    · split
      · exact ⟨h, hq⟩
      · exact oinv_afterFut hi h hq
    · next res hpc =>
      split
      · have := oinv_setTask t { x with pc := .failed (failKind x) } h hq
        exact oinv_releaseAcquired this.1 this.2 (fun c e => by cases e)
      · split
        · exact ⟨h, hq⟩
        · have := oinv_setTask t { x with pc := .failed .oserr } h hq
          exact oinv_releaseAcquired this.1 this.2 (fun c e => by cases e)
        · dsimp only
          split
          · refine ⟨?_, hq⟩
            intro d hd
            have hd' : connOpen { s with conns := s.conns ++ [({ key := x.key } : Conn)] } d = true := hd
            show d ∈ s.idle ∨ Slot.conn d ∈ s.acquired ∨ d ∈ s.conns.length :: s.pendingNew
            rcases connOpen_append hd' with h1 | h1
            · rcases h d h1 with h2 | h2 | h2
              · exact Or.inl h2
              · exact Or.inr (Or.inl h2)
              · exact Or.inr (Or.inr (List.mem_cons_of_mem _ h2))
            · subst h1; exact Or.inr (Or.inr (by simp))
          · refine oinv_swapOrClosed (s := { s with conns := s.conns ++ [({ key := x.key } : Conn)] }) ?_ hq
            intro d ne hd
            rcases connOpen_append hd with h1 | h1
            · exact h d h1
            · exact absurd h1 ne
    · exact ⟨h, hq⟩

theorem oinv_cancelTask {s : St} {t : Tid} {x : Task} (h : OInv s) (hq : QInv s) (b : Bool) :
    OInv (cancelTask s t x b) ∧ QInv (cancelTask s t x b) := by
  cases b <;> unfold cancelTask <;> simp only [Bool.false_eq_true, if_false, if_true, Bool.false_and, Bool.true_and]
  all_goals repeat' split
  all_goals first
    | exact ⟨h, hq⟩
    | exact ⟨h.of_eq rfl rfl rfl rfl, hq⟩

theorem foldl_closeConn_open (l : List Cid) (s : St) (c : Cid) :
    connOpen (l.foldl closeConn s) c = true → connOpen s c = true ∧ c ∉ l := by
  induction l generalizing s with
  | nil => intro h; exact ⟨h, by simp⟩
  | cons a t ih =>
    intro h
    simp only [List.foldl_cons] at h
    obtain ⟨h1, h2⟩ := ih _ h
    rw [connOpen_closeConn] at h1
    split at h1
    · cases h1
    · next ne => exact ⟨h1, by simp [ne, h2]⟩
theorem foldl_closeConn_acquired (l : List Cid) (s : St) : (l.foldl closeConn s).acquired = s.acquired := by
  induction l generalizing s with
  | nil => rfl
  | cons a t ih => simp only [List.foldl_cons]; rw [ih]; rfl
theorem closeSlots_open (l : List Slot) (s : St) (c : Cid) :
    connOpen (closeSlots s l) c = true → connOpen s c = true ∧ Slot.conn c ∉ l := by
  induction l generalizing s with
  | nil => intro h; exact ⟨h, by simp⟩
  | cons a t ih =>
    cases a with
    | ph u =>
      intro h; simp only [closeSlots] at h
      obtain ⟨h1, h2⟩ := ih _ h
      exact ⟨h1, by simp [h2]⟩
    | conn d =>
      intro h; simp only [closeSlots] at h
      obtain ⟨h1, h2⟩ := ih _ h
      rw [connOpen_closeConn] at h1
      split at h1
      · cases h1
      · next ne => exact ⟨h1, by simp [h2]; exact fun e => ne e⟩
theorem cancelWaiters_conns (l : List Tid) (s : St) : (cancelWaiters s l).conns = s.conns := by
  induction l generalizing s with
  | nil => rfl
  | cons a t ih =>
    simp only [cancelWaiters]; split
    · split
      · rw [ih]; rfl
      · exact ih s
    · exact ih s

theorem closeAll_no_open {s : St} (h : OInv s) (hc : s.closed = false) (c : Cid) (hp : c ∉ s.pendingNew) :
    connOpen (closeAll Fixes.all s) c = false := by
  cases e : connOpen (closeAll Fixes.all s) c
  · rfl
  · exfalso
    unfold closeAll at e
    simp only [hc, Bool.false_eq_true, if_false] at e
    unfold connOpen at e
    simp only [cancelWaiters_conns] at e
    have e' : connOpen (closeSlots (List.foldl closeConn { s with closed := true } s.idle)
        (List.foldl closeConn { s with closed := true } s.idle).acquired) c = true := e
    obtain ⟨h1, h2⟩ := closeSlots_open _ _ c e'
    rw [foldl_closeConn_acquired] at h2
    obtain ⟨h3, h4⟩ := foldl_closeConn_open _ _ c h1
    have h5 : connOpen s c = true := h3
    rcases h c h5 with h6 | h6 | h6
    · exact h4 h6
    · exact h2 h6
    · exact hp h6

theorem foldl_closeConn_pending (l : List Cid) (s : St) : (l.foldl closeConn s).pendingNew = s.pendingNew := by
  induction l generalizing s with
  | nil => rfl
  | cons a t ih => simp only [List.foldl_cons]; rw [ih]; rfl
theorem closeSlots_pending (l : List Slot) (s : St) : (closeSlots s l).pendingNew = s.pendingNew := by
  induction l generalizing s with
  | nil => rfl
  | cons a t ih => cases a <;> simp only [closeSlots] <;> rw [ih] <;> rfl
theorem cancelWaiters_pending (l : List Tid) (s : St) : (cancelWaiters s l).pendingNew = s.pendingNew := by
  induction l generalizing s with
  | nil => rfl
  | cons a t ih =>
    simp only [cancelWaiters]; split
    · split
      · rw [ih]; rfl
      · exact ih s
    · exact ih s
theorem closeAll_pending (s : St) : (closeAll Fixes.all s).pendingNew = s.pendingNew := by
  unfold closeAll; split
  · rfl
  · simp only [cancelWaiters_pending, closeSlots_pending, foldl_closeConn_pending]

theorem oinv_closeAll {s : St} (h : OInv s) (hq : QInv s) :
    OInv (closeAll Fixes.all s) ∧ QInv (closeAll Fixes.all s) := by
  cases hc : s.closed
  · refine ⟨?_, ?_⟩
    · intro c hcc
      by_cases hp : c ∈ s.pendingNew
      · exact Or.inr (Or.inr (by rw [closeAll_pending]; exact hp))
      · rw [closeAll_no_open h hc c hp] at hcc; cases hcc
    · intro _; exact (closeAll_fields hc).2.2.2.2.1
  · have : closeAll Fixes.all s = s := by simp [closeAll, hc]
    rw [this]; exact ⟨h, hq⟩

theorem oinv_step {s : St} (hi : Inv s) (h : OInv s) (hq : QInv s) (l : Label) :
    OInv (step Fixes.all s l) ∧ QInv (step Fixes.all s l) := by
  cases l with
  | spawn t =>
    simp only [step]; split
    · split
      · exact ⟨h.of_eq rfl rfl rfl rfl, hq⟩
      · exact ⟨h, hq⟩
    · exact ⟨h, hq⟩
  | tick =>
    simp only [step]; split
    · exact ⟨h, hq⟩
    · next t rest hr =>
      have c : SameCore s { s with ready := rest } := sameCore_ready s rest
      split
      · next x hx => exact oinv_resume (hi.core c) (h.of_eq rfl rfl rfl rfl) hq hx
      · exact ⟨h.of_eq rfl rfl rfl rfl, hq⟩
  | createDone t ok =>
    simp only [step]; split
    · split
      · exact ⟨h.of_eq rfl rfl rfl rfl, hq⟩
      · exact ⟨h, hq⟩
    · exact ⟨h, hq⟩
  | cancel t =>
    simp only [step]; split
    · exact oinv_cancelTask h hq false
    · exact ⟨h, hq⟩
  | timeout t =>
    simp only [step]; split
    · exact oinv_cancelTask h hq true
    · exact ⟨h, hq⟩
  | release t pool =>
    simp only [step]; split
    · next x hx =>
      split
      · next c hpc =>
        split
        · exact ⟨h, hq⟩
        split
        · exact ⟨h.of_eq rfl rfl rfl rfl, hq⟩
        · obtain ⟨f1, f2, f3, f4, f5, f6⟩ := releaseAcquired_fields (setTask s t { x with pc := .done }) x.key (.conn c)
          have q1 : QInv (releaseAcquired (setTask s t { x with pc := .done }) x.key (.conn c)) := by
            intro hc; rw [f3] at hc
            have := hq hc
            apply List.eq_nil_iff_forall_not_mem.mpr
            intro u hu; have := f5 u hu; simp_all [setTask]
          split
          · refine ⟨?_, q1⟩
            intro d hd
            have hd0 : connOpen (releaseAcquired (setTask s t { x with pc := .done }) x.key (.conn c)) d = true := by
              have := connOpen_setUsed (releaseAcquired (setTask s t { x with pc := .done }) x.key (.conn c)) c d
                (releaseAcquired (setTask s t { x with pc := .done }) x.key (.conn c)).now
              rw [← this]; exact hd
            have hd' : connOpen s d = true := by rw [← connOpen_congr (s := s) (s' := releaseAcquired (setTask s t { x with pc := .done }) x.key (.conn c)) f1]; exact hd0
            show d ∈ (releaseAcquired (setTask s t { x with pc := .done }) x.key (.conn c)).idle ++ [c] ∨ _ ∨
              d ∈ (releaseAcquired (setTask s t { x with pc := .done }) x.key (.conn c)).pendingNew
            rw [f2, f6]
            by_cases e : d = c
            · subst e; left; simp
            · rcases h d hd' with h1 | h1 | h1
              · left; exact List.mem_append_left _ h1
              · right; left; exact f4 _ h1 (by intro e'; cases e'; exact e rfl)
              · right; right; exact h1
          · refine ⟨?_, q1⟩
            intro d hd
            rw [connOpen_closeConn] at hd
            split at hd
            · cases hd
            · next e =>
              have hd' : connOpen s d = true := by rw [← connOpen_congr (s := s) (s' := releaseAcquired (setTask s t { x with pc := .done }) x.key (.conn c)) f1]; exact hd
              show d ∈ (releaseAcquired (setTask s t { x with pc := .done }) x.key (.conn c)).idle ∨ _ ∨
                d ∈ (releaseAcquired (setTask s t { x with pc := .done }) x.key (.conn c)).pendingNew
              rw [f2, f6]
              rcases h d hd' with h1 | h1 | h1
              · exact Or.inl h1
              · right; left; exact f4 _ h1 (by intro e'; cases e'; exact e rfl)
              · right; right; exact h1
      all_goals exact ⟨h, hq⟩
    · exact ⟨h, hq⟩
  | lose c =>
    simp only [step]; split
    · refine ⟨?_, hq⟩
      intro d hd
      rw [connOpen_closeConn] at hd
      split at hd
      · cases hd
      · exact h d hd
    · exact ⟨h, hq⟩
  | close => exact oinv_closeAll h hq
  | shuffle p => exact ⟨h.of_eq rfl rfl rfl rfl, hq⟩
  | traceDone t =>
    simp only [step]; split
    · split
      · split
        · exact ⟨h.of_eq rfl rfl rfl rfl, hq⟩
        · exact ⟨h, hq⟩
      · exact ⟨h, hq⟩
    · exact ⟨h, hq⟩
  | advance d => exact ⟨h.of_eq rfl rfl rfl rfl, hq⟩
  | sweep =>
    simp only [step]; split
    · refine ⟨?_, hq⟩
      intro c hc
      have hc1 : connOpen (closeMany { s with idle := s.idle.filter (usable s), timer := !(s.idle.filter (usable s)).isEmpty }
          (s.idle.filter (fun c => !usable s c))) c = true := hc
      rw [connOpen_closeMany] at hc1
      split at hc1
      · cases hc1
      · next ne =>
        have hc' : connOpen s c = true := hc1
        show c ∈ s.idle.filter (usable s) ∨ Slot.conn c ∈ s.acquired ∨ c ∈ s.pendingNew
        rcases h c hc' with h1 | h1 | h1
        · left
          rw [List.mem_filter]
          refine ⟨h1, ?_⟩
          cases hu : usable s c
          · exact absurd (List.mem_filter.mpr ⟨h1, by simp [hu]⟩) ne
          · rfl
        · exact Or.inr (Or.inl h1)
        · exact Or.inr (Or.inr h1)
    · exact ⟨h, hq⟩

theorem oinv_run {s : St} (hi : Inv s) (hw : WaitInv s) (h : OInv s) (hq : QInv s) (ls : List Label) :
    OInv (run Fixes.all s ls) ∧ QInv (run Fixes.all s ls) := by
  induction ls generalizing s with
  | nil => exact ⟨h, hq⟩
  | cons l ls ih =>
    have i := inv_step hi hw l
    have o := oinv_step hi h hq l
    exact ih i.1 i.2 o.1 o.2

theorem oinv_init (limit lph : Nat) (keys : List Key) (mask ka : Nat) :
    OInv (init limit lph keys mask ka) ∧ QInv (init limit lph keys mask ka) := by
  refine ⟨?_, ?_⟩
  · intro c hc; simp [connOpen, init] at hc
  · intro hc; simp [init] at hc


/-! ## the wake-up step -/

theorem order_mem {perm ks : List Key} {k : Key} (h : k ∈ ks) : k ∈ order perm ks := by
  unfold order
  by_cases hp : k ∈ perm
  · apply List.mem_append_left
    simp [List.mem_filter, h, hp]
  · apply List.mem_append_right
    simp [List.mem_filter, h, hp]

/-- `wakeScan` on the queue of key `k`: the first pending waiter of that key is found if there is one;
everything it drops is a finished waiter of key `k` -/
theorem wakeScan_spec (s : St) (k : Key) (l : List Tid) :
    (∀ u, (wakeScan s k l).1 = some u → u ∈ l ∧ keyOf s u = k ∧ futOf s u = .pending)
    ∧ ((wakeScan s k l).1 = none → ∀ u ∈ l, keyOf s u = k → futOf s u ≠ .pending)
    ∧ (∀ u ∈ l, u ∈ (wakeScan s k l).2 ∨ (keyOf s u = k ∧ (futOf s u ≠ .pending ∨ (wakeScan s k l).1 = some u))) := by
  induction l with
  | nil => simp [wakeScan]
  | cons a t ih =>
    unfold wakeScan
    split
    · next hk =>
      split
      · next hp =>
        refine ⟨?_, ?_, ?_⟩
        · intro u hu; cases hu; exact ⟨by simp, hk, hp⟩
        · intro hn; cases hn
        · intro u hu
          rcases List.mem_cons.mp hu with e | e
          · subst e; exact Or.inr ⟨hk, Or.inr rfl⟩
          · exact Or.inl e
      · next hp =>
        refine ⟨?_, ?_, ?_⟩
        · intro u hu; obtain ⟨h1, h2, h3⟩ := ih.1 u hu; exact ⟨List.mem_cons_of_mem _ h1, h2, h3⟩
        · intro hn u hu hku
          rcases List.mem_cons.mp hu with e | e
          · subst e; exact hp
          · exact ih.2.1 hn u e hku
        · intro u hu
          rcases List.mem_cons.mp hu with e | e
          · subst e; exact Or.inr ⟨hk, Or.inl hp⟩
          · exact ih.2.2 u e
    · next hk =>
      refine ⟨?_, ?_, ?_⟩
      · intro u hu; obtain ⟨h1, h2, h3⟩ := ih.1 u hu; exact ⟨List.mem_cons_of_mem _ h1, h2, h3⟩
      · intro hn u hu hku
        rcases List.mem_cons.mp hu with e | e
        · subst e; exact absurd hku hk
        · exact ih.2.1 hn u e hku
      · intro u hu
        rcases List.mem_cons.mp hu with e | e
        · subst e; left; simp
        · rcases ih.2.2 u e with h1 | h1
          · left; exact List.mem_cons_of_mem _ h1
          · right; exact h1

/-- the trace callback task `u` is suspended in, if any -/
def trOf (s : St) (u : Tid) : Option (Hook × Bool) := match s.tasks[u]? with | some x => x.tr | none => none

theorem futOf_wake {s : St} {u : Tid} (h : futOf s u = .pending) : futOf (wake s u) u = .woken := by
  unfold futOf at h
  unfold wake
  split
  · next x hx =>
    have hlt := lt_of_get hx
    simp [futOf, setTask, hlt]
  · next hx => simp [hx] at h

/-- what `_release_waiter` achieves on any state: if some key in the visiting order has capacity and a
pending waiter queued, then exactly one waiter `u` is woken (appended to the ready queue, future set),
and `u` was a queued pending waiter whose key has capacity -/
theorem releaseWaiterKeys_wakes (ks : List Key) : ∀ (s : St) (t : Tid),
    keyOf s t ∈ ks → hasCap s (keyOf s t) = true → t ∈ s.waitq → futOf s t = .pending →
    ∃ u, u ∈ s.waitq ∧ futOf s u = .pending ∧ hasCap s (keyOf s u) = true
      ∧ (releaseWaiterKeys s ks).ready = (if (trOf s u).isNone then s.ready ++ [u] else s.ready)
      ∧ futOf (releaseWaiterKeys s ks) u = .woken := by
  induction ks with
  | nil => intro s t h; cases h
  | cons k ks ih =>
    intro s t hk hcap hw hf
    unfold releaseWaiterKeys
    have sp := wakeScan_spec s k s.waitq
    by_cases hc : hasCap s k = true
    · rw [if_pos hc]; dsimp only
      split
      · next u hu =>
        obtain ⟨h1, h2, h3⟩ := sp.1 u hu
        refine ⟨u, h1, h3, by rw [h2]; exact hc, ?_, ?_⟩
        · unfold wake
          have : ∃ x, s.tasks[u]? = some x := by
            unfold futOf at h3; cases hx : s.tasks[u]? with
            | none => simp [hx] at h3
            | some x => exact ⟨x, rfl⟩
          obtain ⟨x, hx⟩ := this
          have hx' : ({ s with waitq := (wakeScan s k s.waitq).2 } : St).tasks[u]? = some x := hx
          simp only [hx', trOf, hx]
        · exact futOf_wake (s := { s with waitq := (wakeScan s k s.waitq).2 }) h3
      · next hn =>
        -- no pending waiter of key k: t has another key and is still queued
        have hne : keyOf s t ≠ k := fun e => sp.2.1 hn t hw e hf
        have hk' : keyOf s t ∈ ks := by
          rcases List.mem_cons.mp hk with e | e
          · exact absurd e hne
          · exact e
        have hw' : t ∈ (wakeScan s k s.waitq).2 := by
          rcases sp.2.2 t hw with h1 | ⟨h1, _⟩
          · exact h1
          · exact absurd h1 hne
        obtain ⟨u, g1, g2, g3, g4, g5⟩ := ih { s with waitq := (wakeScan s k s.waitq).2 } t hk' hcap hw' hf
        exact ⟨u, wakeScan_sub s k _ u g1, g2, g3, g4, g5⟩
    · rw [if_neg hc]
      have hne : keyOf s t ≠ k := fun e => hc (by rw [← e]; exact hcap)
      have hk' : keyOf s t ∈ ks := by
        rcases List.mem_cons.mp hk with e | e
        · exact absurd e hne
        · exact e
      exact ih s t hk' hcap hw hf


end Aio.C07
