import AioModel.C07
/-!
Helper lemmas for `AioProps/C07.lean`: list facts about the set-like lists, frame lemmas of the
pool operations, and the inductive invariants of `step Fixes.all`.
-/
namespace Aio.C07
variable {α : Type} [DecidableEq α]

theorem length_sinsert_le (a : α) (l : List α) : (sinsert a l).length ≤ l.length + 1 := by
  unfold sinsert; split <;> simp
theorem mem_sinsert {a b : α} {l : List α} : b ∈ sinsert a l ↔ b = a ∨ b ∈ l := by
  unfold sinsert; split <;> simp_all
theorem mem_sremove {a b : α} {l : List α} : b ∈ sremove a l ↔ b ∈ l ∧ b ≠ a := by
  unfold sremove; simp
theorem length_sremove_le (a : α) (l : List α) : (sremove a l).length ≤ l.length := by
  unfold sremove; exact List.length_filter_le _ _
theorem sremove_cons (a b : α) (t : List α) :
    sremove a (b :: t) = if b = a then sremove a t else b :: sremove a t := by
  unfold sremove; by_cases h : b = a <;> simp [List.filter_cons, h]
theorem length_sremove_lt {a : α} {l : List α} (h : a ∈ l) : (sremove a l).length < l.length := by
  induction l with
  | nil => cases h
  | cons b t ih =>
    rw [sremove_cons]
    by_cases hb : b = a
    · simp [hb]; have := length_sremove_le a t; omega
    · have : a ∈ t := by simpa [Ne.symm hb] using h
      simp [hb]; exact ih this
theorem countP_sinsert_le (p : α → Bool) (a : α) (l : List α) :
    (sinsert a l).countP p ≤ l.countP p + (if p a then 1 else 0) := by
  unfold sinsert; split
  · omega
  · simp [List.countP_cons]
theorem countP_sremove_le (p : α → Bool) (a : α) (l : List α) : (sremove a l).countP p ≤ l.countP p := by
  induction l with
  | nil => simp [sremove]
  | cons b t ih => rw [sremove_cons]; split <;> simp [List.countP_cons] <;> omega
theorem countP_sremove_lt (p : α → Bool) {a : α} {l : List α} (h : a ∈ l) (hp : p a = true) :
    (sremove a l).countP p < l.countP p := by
  induction l with
  | nil => cases h
  | cons b t ih =>
    rw [sremove_cons]
    by_cases hb : b = a
    · subst hb
      have := countP_sremove_le p b t
      simp [List.countP_cons, hp]; omega
    · have h' : a ∈ t := by simpa [Ne.symm hb] using h
      have := ih h'
      simp [hb, List.countP_cons]; omega

/-! ## accessors and frames -/

/-- program counter of task `t` (none if there is no such task) -/
def pcOf (s : St) (t : Tid) : Option Pc := (s.tasks[t]?).map (·.pc)

theorem pcOf_setTask (s : St) (t u : Tid) (x : Task) :
    pcOf (setTask s t x) u = if u = t ∧ t < s.tasks.length then some x.pc else pcOf s u := by
  unfold pcOf setTask
  simp only [List.getElem?_set]
  by_cases h : t = u
  · subst h; by_cases h2 : t < s.tasks.length <;> simp [h2]
  · have : ¬ u = t := fun e => h e.symm
    simp [h, this]

theorem keyOf_setTask (s : St) (t u : Tid) (x : Task) (h : ∀ y, s.tasks[t]? = some y → y.key = x.key) :
    keyOf (setTask s t x) u = keyOf s u := by
  unfold keyOf setTask
  simp only [List.getElem?_set]
  by_cases h1 : t = u
  · subst h1
    by_cases h2 : t < s.tasks.length
    · simp [h2]; have := h s.tasks[t] (by simp); simp [this]
    · simp [h2]
  · simp [h1]

@[simp] theorem setTask_length (s : St) (t : Tid) (x : Task) : (setTask s t x).tasks.length = s.tasks.length := by
  simp [setTask]

theorem pcOf_of_get {s : St} {t : Tid} {x : Task} (h : s.tasks[t]? = some x) : pcOf s t = some x.pc := by
  simp [pcOf, h]
theorem keyOf_of_get {s : St} {t : Tid} {x : Task} (h : s.tasks[t]? = some x) : keyOf s t = x.key := by
  simp [keyOf, h]
theorem lt_of_get {s : St} {t : Tid} {x : Task} (h : s.tasks[t]? = some x) : t < s.tasks.length := by
  have := List.getElem?_eq_some_iff.mp h; exact this.1

/-- `s'` has the same bookkeeping as `s` (limits, `_acquired`, `_acquired_per_host`, closed flag, idle
pool, program counters and keys of all tasks); futures, flags, queues and open-flags may differ -/
structure SameCore (s s' : St) : Prop where
  limit : s'.limit = s.limit
  lph : s'.lph = s.lph
  acquired : s'.acquired = s.acquired
  perHost : s'.perHost = s.perHost
  closed : s'.closed = s.closed
  len : s'.tasks.length = s.tasks.length
  pc : ∀ u, pcOf s' u = pcOf s u
  key : ∀ u, keyOf s' u = keyOf s u
  clen : s'.conns.length = s.conns.length
  idle : s'.idle = s.idle
  wkeys : s'.wkeys = s.wkeys
  perm : s'.perm = s.perm

theorem SameCore.rfl' (s : St) : SameCore s s := by constructor <;> intros <;> rfl
theorem SameCore.trans {a b c : St} (h1 : SameCore a b) (h2 : SameCore b c) : SameCore a c := by
  constructor
  · rw [h2.limit, h1.limit]
  · rw [h2.lph, h1.lph]
  · rw [h2.acquired, h1.acquired]
  · rw [h2.perHost, h1.perHost]
  · rw [h2.closed, h1.closed]
  · rw [h2.len, h1.len]
  · intro u; rw [h2.pc, h1.pc]
  · intro u; rw [h2.key, h1.key]
  · rw [h2.clen, h1.clen]
  · rw [h2.idle, h1.idle]
  · rw [h2.wkeys, h1.wkeys]
  · rw [h2.perm, h1.perm]

theorem hostCount_core {s s' : St} (h : SameCore s s') (k : Key) : hostCount s' k = hostCount s k := by
  simp [hostCount, h.perHost]
theorem hasCap_core {s s' : St} (h : SameCore s s') (k : Key) : hasCap s' k = hasCap s k := by
  unfold hasCap hostCount; rw [h.perHost, h.acquired, h.limit, h.lph]

/-- changing only future/flags of a task keeps the core -/
theorem sameCore_setTask_fut {s : St} {t : Tid} {x y : Task} (h : s.tasks[t]? = some x)
    (hk : y.key = x.key) (hp : y.pc = x.pc) : SameCore s (setTask s t y) := by
  constructor <;> try rfl
  · simp
  · intro u; rw [pcOf_setTask]; split
    · next h' => rw [h'.1, pcOf_of_get h, hp]
    · rfl
  · intro u; apply keyOf_setTask; intro z hz; rw [h] at hz; cases hz; exact hk.symm

theorem sameCore_ready (s : St) (r : List Tid) : SameCore s { s with ready := r } := by
  constructor <;> intros <;> rfl
theorem sameCore_waitq (s : St) (r : List Tid) : SameCore s { s with waitq := r } := by
  constructor <;> intros <;> rfl

theorem sameCore_wake (s : St) (t : Tid) : SameCore s (wake s t) := by
  unfold wake; split
  · next x hx =>
    exact (sameCore_setTask_fut (y := { x with fut := .woken }) hx rfl rfl).trans (by constructor <;> intros <;> rfl)
  · exact SameCore.rfl' s

theorem wake_waitq (s : St) (t : Tid) : (wake s t).waitq = s.waitq := by
  unfold wake; split <;> rfl

theorem wakeScan_sub (s : St) (k : Key) (l : List Tid) : ∀ u ∈ (wakeScan s k l).2, u ∈ l := by
  induction l with
  | nil => simp [wakeScan]
  | cons a t ih =>
    unfold wakeScan
    split
    · split
      · intro u hu; exact List.mem_cons_of_mem _ hu
      · intro u hu; exact List.mem_cons_of_mem _ (ih u hu)
    · intro u hu
      simp only [List.mem_cons] at hu ⊢
      rcases hu with hu | hu
      · exact Or.inl hu
      · exact Or.inr (ih u hu)

theorem releaseWaiterKeys_frame (ks : List Key) : ∀ s : St,
    SameCore s (releaseWaiterKeys s ks) ∧ ∀ u ∈ (releaseWaiterKeys s ks).waitq, u ∈ s.waitq := by
  induction ks with
  | nil => intro s; exact ⟨SameCore.rfl' s, fun u h => h⟩
  | cons k ks ih =>
    intro s
    unfold releaseWaiterKeys
    split
    · dsimp only
      split
      · next t ht =>
        refine ⟨(sameCore_waitq s _).trans (sameCore_wake _ t), ?_⟩
        intro u hu; rw [wake_waitq] at hu; exact wakeScan_sub s k _ u hu
      · have := ih { s with waitq := (wakeScan s k s.waitq).2 }
        refine ⟨(sameCore_waitq s _).trans this.1, ?_⟩
        intro u hu; exact wakeScan_sub s k _ u (this.2 u hu)
    · exact ih s

theorem releaseWaiter_core (s : St) : SameCore s (releaseWaiter s) := (releaseWaiterKeys_frame _ s).1
theorem releaseWaiter_waitq (s : St) : ∀ u ∈ (releaseWaiter s).waitq, u ∈ s.waitq := (releaseWaiterKeys_frame _ s).2

/-! ## the bookkeeping invariant -/

/-- neither establishing nor holding a connection -/
def Pc.neutral : Pc → Prop
  | .creating _ => False
  | .holding _ => False
  | _ => True

/-- bookkeeping invariant of the pool (all parts are statements about the "core") -/
structure Inv (s : St) : Prop where
  /-- a task awaiting `_create_connection` has its placeholder counted (while the connector is open) -/
  ph_present : s.closed = false → ∀ t r, pcOf s t = some (.creating r) →
      Slot.ph t ∈ s.acquired ∧ (s.lph ≠ 0 → (keyOf s t, Slot.ph t) ∈ s.perHost)
  lim : s.limit = 0 ∨ s.acquired.length ≤ s.limit
  limh : s.lph = 0 ∨ ∀ k, hostCount s k ≤ s.lph
  /-- every placeholder in `_acquired` belongs to a task that is establishing a connection -/
  ph_owner : ∀ t, Slot.ph t ∈ s.acquired → ∃ r, pcOf s t = some (.creating r)
  /-- every connection in `_acquired` is held by some task -/
  conn_owner : ∀ c, Slot.conn c ∈ s.acquired → ∃ t, pcOf s t = some (.holding c)
  /-- the same for `_acquired_per_host`, under the owner's key -/
  hph_owner : ∀ k t, (k, Slot.ph t) ∈ s.perHost → k = keyOf s t ∧ ∃ r, pcOf s t = some (.creating r)
  hconn_owner : ∀ k c, (k, Slot.conn c) ∈ s.perHost → ∃ t, keyOf s t = k ∧ pcOf s t = some (.holding c)
  /-- after close nothing is counted and nothing is pooled -/
  closed_empty : s.closed = true → s.acquired = [] ∧ s.perHost = [] ∧ s.idle = []

theorem Inv.core {s s' : St} (h : Inv s) (c : SameCore s s') : Inv s' := by
  constructor
  · intro hc t r hp
    rw [c.closed] at hc; rw [c.pc] at hp
    have := h.ph_present hc t r hp
    rw [c.acquired, c.perHost, c.lph, c.key]; exact this
  · rw [c.limit, c.acquired]; exact h.lim
  · rw [c.lph]; rcases h.limh with h1 | h1
    · exact Or.inl h1
    · right; intro k; rw [hostCount_core c]; exact h1 k
  · intro t ht; rw [c.acquired] at ht; rw [c.pc]; exact h.ph_owner t ht
  · intro cc ht; rw [c.acquired] at ht
    obtain ⟨t, ht⟩ := h.conn_owner cc ht
    exact ⟨t, by rw [c.pc]; exact ht⟩
  · intro k t hk; rw [c.perHost] at hk; rw [c.key, c.pc]; exact h.hph_owner k t hk
  · intro k cc hk; rw [c.perHost] at hk
    obtain ⟨t, h1, h2⟩ := h.hconn_owner k cc hk
    exact ⟨t, by rw [c.key]; exact h1, by rw [c.pc]; exact h2⟩
  · intro hc; rw [c.closed] at hc; rw [c.acquired, c.perHost, c.idle]; exact h.closed_empty hc

/-- how one task step changes the core: task `t` goes from pc `p` to pc `q`, every other task keeps its pc -/
structure Moves (s s' : St) (t : Tid) (p q : Pc) : Prop where
  limit : s'.limit = s.limit
  lph : s'.lph = s.lph
  closed : s'.closed = s.closed
  old : pcOf s t = some p
  new : pcOf s' t = some q
  other : ∀ u, u ≠ t → pcOf s' u = pcOf s u
  key : ∀ u, keyOf s' u = keyOf s u

/-- the task changes pc within its class (or the connector is closed): nothing counted changes -/
theorem Inv.same {s s' : St} {t : Tid} {p q : Pc} (h : Inv s) (m : Moves s s' t p q)
    (ha : s'.acquired = s.acquired) (hh : s'.perHost = s.perHost) (hi : s.closed = true → s'.idle = [])
    (hc : s.closed = true ∨ (p.neutral ∧ q.neutral) ∨ (∃ r r', p = .creating r ∧ q = .creating r')
          ∨ (∃ c, p = .holding c ∧ q = .holding c)) : Inv s' := by
  have pcs : ∀ u pc, pcOf s u = some pc → (u ≠ t → pcOf s' u = some pc) := by
    intro u pc h1 h2; rw [m.other u h2]; exact h1
  by_cases hcl : s.closed = true
  · obtain ⟨e1, e2, e3⟩ := h.closed_empty hcl
    constructor
    · intro hc'; rw [m.closed, hcl] at hc'; cases hc'
    · rw [m.limit, ha, e1]; right; simp
    · rw [m.lph]; right; intro k; simp [hostCount, hh, e2]
    · intro u hu; rw [ha, e1] at hu; cases hu
    · intro u hu; rw [ha, e1] at hu; cases hu
    · intro k u hu; rw [hh, e2] at hu; cases hu
    · intro k u hu; rw [hh, e2] at hu; cases hu
    · intro _; rw [ha, hh]; exact ⟨e1, e2, hi hcl⟩
  · have hcl' : s.closed = false := by cases hx : s.closed <;> simp_all
    rcases hc with hc | hc
    · exact absurd hc hcl
    have keep : ∀ u r, pcOf s u = some (.creating r) → ∃ r', pcOf s' u = some (.creating r') := by
      intro u r hu
      by_cases e : u = t
      · subst e; rw [m.old] at hu; cases hu
        rcases hc with ⟨hp, _⟩ | ⟨r1, r2, hp, hq⟩ | ⟨c, hp, _⟩
        · exact absurd hp (by simp [Pc.neutral])
        · exact ⟨r2, by rw [m.new, hq]⟩
        · cases hp
      · exact ⟨r, pcs u _ hu e⟩
    have keeph : ∀ u c, pcOf s u = some (.holding c) → pcOf s' u = some (.holding c) := by
      intro u c hu
      by_cases e : u = t
      · subst e; rw [m.old] at hu; cases hu
        rcases hc with ⟨hp, _⟩ | ⟨r1, r2, hp, hq⟩ | ⟨c', hp, hq⟩
        · exact absurd hp (by simp [Pc.neutral])
        · cases hp
        · cases hp; rw [m.new, hq]
      · exact pcs u _ hu e
    have back : ∀ u r, pcOf s' u = some (.creating r) → ∃ r', pcOf s u = some (.creating r') := by
      intro u r hu
      by_cases e : u = t
      · subst e; rw [m.new] at hu; cases hu
        rcases hc with ⟨_, hq⟩ | ⟨r1, r2, hp, hq⟩ | ⟨c', hp, hq⟩
        · exact absurd hq (by simp [Pc.neutral])
        · exact ⟨r1, by rw [m.old, hp]⟩
        · cases hq
      · exact ⟨r, by rw [← m.other u e]; exact hu⟩
    constructor
    · intro _ u r hu
      obtain ⟨r', hu'⟩ := back u r hu
      have := h.ph_present hcl' u r' hu'
      rw [ha, hh, m.lph, m.key]; exact this
    · rw [m.limit, ha]; exact h.lim
    · rw [m.lph]; rcases h.limh with h1 | h1
      · exact Or.inl h1
      · right; intro k; simp only [hostCount, hh]; exact h1 k
    · intro u hu; rw [ha] at hu
      obtain ⟨r, hr⟩ := h.ph_owner u hu
      exact keep u r hr
    · intro c hu; rw [ha] at hu
      obtain ⟨u, hr⟩ := h.conn_owner c hu
      exact ⟨u, keeph u c hr⟩
    · intro k u hu; rw [hh] at hu
      obtain ⟨e, r, hr⟩ := h.hph_owner k u hu
      exact ⟨by rw [m.key]; exact e, keep u r hr⟩
    · intro k c hu; rw [hh] at hu
      obtain ⟨u, e, hr⟩ := h.hconn_owner k c hu
      exact ⟨u, by rw [m.key]; exact e, keeph u c hr⟩
    · intro hc'; rw [m.closed, hcl'] at hc'; cases hc'

/-- waiter queue invariant: only parked tasks are queued -/
def WaitInv (s : St) : Prop := ∀ t ∈ s.waitq, pcOf s t = some .waiting

theorem WaitInv.core {s s' : St} (h : WaitInv s) (c : SameCore s s') (hw : ∀ u ∈ s'.waitq, u ∈ s.waitq) :
    WaitInv s' := by
  intro t ht; rw [c.pc]; exact h t (hw t ht)

end Aio.C07
