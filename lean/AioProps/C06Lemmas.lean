import AioModel.C06World
/-!
# C06 — helper lemmas and the toy parser used for the kernel-checked counterexamples
-/
namespace Aio.C06
open Aio

/-- A parser small enough for `decide +kernel`: every byte is one token.
`1` = head of a message with a body stream, `2` = one body byte, `3` = end of body,
`4` = complete bodiless message, `5` = a byte of an unfinished message (kept inside the
parser), `9` = malformed. -/
def toyTok (b : UInt8) : List PEv :=
  if b = 1 then [.msg { code := 200, shouldClose := false, mark := [] } true]
  else if b = 2 then [.data [2]]
  else if b = 3 then [.eof]
  else if b = 4 then [.msg { code := 200, shouldClose := false, mark := [] } false]
  else []

def toyParser : Parser where
  σ := Nat
  init _ := 0
  feed s data :=
    { st := s + (data.filter (· = 5)).length, evs := data.flatMap toyTok, upgraded := false, rest := [],
      err := data.any (· = 9) }
  feedEof _ := ([], false)
  pending s := decide (s ≠ 0)
  emptyBody _ := false

def k0 : Key := { host := 1, port := 80, isSsl := false, ssl := 0, proxy := 0, proxyHdr := 0, sni := 0 }

variable {P : Parser}

theorem Conn.protoClose_closed (c : Conn P) :
    c.protoClose.connected = false ∧ c.protoClose.pooled = none := by
  unfold Conn.protoClose
  split
  · next h => simp at h; simp [h]
  · simp [Conn.lostCore]

end Aio.C06

namespace Aio.C06
open Aio

/-- every ghost tag of what exchange `j` was given is `j` -/
def World.ownOK {P : Parser} (w : World P) (j : Nat) : Bool :=
  match w.exchs[j]? with
  | some e => e.headProv.all (· == some j) && e.bodyProv.all (· == some j)
  | none => true
def World.phaseOf {P : Parser} (w : World P) (j : Nat) : Option Phase := (w.exchs[j]?).map (·.phase)
def World.usedOf {P : Parser} (w : World P) (j : Nat) : List Nat :=
  match w.exchs[j]? with | some e => e.used | none => []
def World.errOf {P : Parser} (w : World P) (j : Nat) : Option Exc :=
  match w.exchs[j]? with | some e => e.err | none => none

/-- F6: a complete response arrives while the connection idles in the pool -/
def hUnsolicited : List Op := [.request k0 false [], .recv 0 [4], .recv 0 [4], .request k0 false []]
/-- the read that ends the body of response 0 also carries a complete further response -/
def hSurplusSameRead : List Op := [.request k0 false [], .recv 0 [1], .recv 0 [3, 4], .request k0 false []]
/-- bytes handed over before the first request is sent on a new connection -/
def hEarly : List Op := [.request k0 false [4]]
/-- response 0 followed, in the same read, by the first byte of another message -/
def hPartialSurplus : List Op := [.request k0 false [], .recv 0 [4, 5], .request k0 false []]

end Aio.C06
