import AioModel.C06World
/-!
# C06 — helper lemmas and the toy parser used for the kernel-checked counterexamples
-/
namespace Aio.C06
open Aio

/-- A parser small enough for `decide +kernel`: every byte is one token.
`1` = head of a message with a body stream, `2` = one body byte, `3` = end of body,
`4` = complete bodiless message, `5` = a byte of an unfinished message (kept inside the
parser), `9` = malformed. -/
def toyTok (b : UInt8) : List PEv :=
  if b = 1 then [.msg { code := 200, shouldClose := false, mark := [] } true]
  else if b = 2 then [.data [2]]
  else if b = 3 then [.eof]
  else if b = 4 then [.msg { code := 200, shouldClose := false, mark := [] } false]
  else []

def toyParser : Parser where
  σ := Nat
  init _ := 0
  feed s data :=
    { st := s + (data.filter (· = 5)).length, evs := data.flatMap toyTok, upgraded := false, rest := [],
      err := data.any (· = 9) }
  feedEof _ := ([], false)
  pending s := decide (s ≠ 0)
  emptyBody _ := false

def k0 : Key := { host := 1, port := 80, isSsl := false, ssl := 0, proxy := 0, proxyHdr := 0, sni := 0 }

variable {P : Parser}

theorem Conn.protoClose_closed (c : Conn P) :
    c.protoClose.connected = false ∧ c.protoClose.pooled = none := by
  unfold Conn.protoClose
  split
  · next h => simp at h; simp [h]
  · simp [Conn.lostCore, Conn.lostEnd]

end Aio.C06

namespace Aio.C06
open Aio

/-- every ghost tag of what exchange `j` was given is `j` -/
def World.ownOK {P : Parser} (w : World P) (j : Nat) : Bool :=
  match w.exchs[j]? with
  | some e => e.headProv.all (· == some j) && e.bodyProv.all (· == some j)
  | none => true
def World.phaseOf {P : Parser} (w : World P) (j : Nat) : Option Phase := (w.exchs[j]?).map (·.phase)
def World.usedOf {P : Parser} (w : World P) (j : Nat) : List Nat :=
  match w.exchs[j]? with | some e => e.used | none => []
def World.errOf {P : Parser} (w : World P) (j : Nat) : Option Exc :=
  match w.exchs[j]? with | some e => e.err | none => none

/-- F6: a complete response arrives while the connection idles in the pool -/
def hUnsolicited : List Op := [.request k0 false [], .recv 0 [4], .recv 0 [4], .request k0 false []]
/-- the read that ends the body of response 0 also carries a complete further response -/
def hSurplusSameRead : List Op := [.request k0 false [], .recv 0 [1], .recv 0 [3, 4], .request k0 false []]
/-- bytes handed over before the first request is sent on a new connection -/
def hEarly : List Op := [.request k0 false [4]]
/-- response 0 followed, in the same read, by the first byte of another message -/
def hPartialSurplus : List Op := [.request k0 false [], .recv 0 [4, 5], .request k0 false []]

end Aio.C06

/-! ## One connection under all histories: the op language of the inductive theorems -/
namespace Aio.C06
open Aio
variable {P : Parser}

/-- what can happen to one connection -/
inductive COp where
  /-- a request with key `k` by exchange `j` tries to take this connection (`_get` on a pooled
  one, or first use of a new one) and, if it gets it, calls `set_response_params` -/
  | acquire (k : Key) (j : Nat) (skip : Bool)
  /-- the transport delivers bytes -/
  | recv (data : Bytes)
  /-- the holder's `protocol.read()` returns the queue head; `start()` registers the eof callback -/
  | pop
  /-- `Connection.release()` / `Connection.close()` by the holder -/
  | release (explicit : Bool)
  /-- peer closed / reset -/
  | lost (os : Bool)
  /-- time passes -/
  | tick (d : Nat)
  /-- the transport starts closing (peer FIN read); `connection_lost` follows with `lost` -/
  | beginClose
  /-- the transport will hold `connection_lost` back after a `transport.close()` -/
  | hold

structure CS (P : Parser) where
  c : Conn P
  now : Nat := 0
  /-- ghost log: (exchange, provenance) of every head handed to a caller -/
  heads : List (Nat × List Tag) := []
  /-- ghost: the connection was handed out at a moment when its queue or tail was not empty -/
  dirtyAcq : Bool := false

structure CCfg where
  fix : Bool
  forceClose : Bool := false
  keepalive : Nat := 120

/-- `_get` on a pooled connection, or first use of a new one -/
def acqResult (g : CCfg) (c : Conn P) (k : Key) (j now : Nat) : Conn P × Bool :=
  if c.pooled.isSome then c.tryAcquire k j now g.keepalive g.fix
  else if c.owner.isNone && c.parser.isNone && c.connected && !(g.fix && c.shouldCloseProp)
    then ({ c with pooled := none, owner := some j }, true) else (c, false)

def cAcquire (g : CCfg) (s : CS P) (k : Key) (j : Nat) (skip : Bool) : CS P :=
  if (acqResult g s.c k j s.now).2 then
    { s with c := ((acqResult g s.c k j s.now).1.setResponseParams s.now g.forceClose skip).1,
             dirtyAcq := s.dirtyAcq || !s.c.buffer.isEmpty || !s.c.tail.isEmpty }
  else { s with c := (acqResult g s.c k j s.now).1 }

def cstep (g : CCfg) (s : CS P) : COp → CS P
  | .acquire k j skip => cAcquire g s k j skip
  | .recv data =>
    if s.c.connected then { s with c := (s.c.dataReceived s.now g.forceClose data [s.c.owner]).1 } else s
  | .pop =>
    match s.c.owner, s.c.popHead with
    | some j, some (q, c') => { s with c := (c'.onEof s.now g.forceClose q.pay).1, heads := s.heads ++ [(j, q.prov)] }
    | _, _ => s
  | .release explicit =>
    if s.c.owner.isSome then { s with c := s.c.release s.now g.forceClose explicit } else s
  | .lost os => { s with c := (s.c.connectionLost os).1 }
  | .tick d => { s with now := s.now + d }
  | .beginClose => { s with c := s.c.beginClose }
  | .hold => { s with c := { s.c with holdLost := true } }

def crun (g : CCfg) (s : CS P) (ops : List COp) : CS P := ops.foldl (cstep g) s

/-- the fields the head invariant talks about are untouched, the holder stays or goes -/
structure Frame (c c' : Conn P) : Prop where
  ptags : c'.ptags = c.ptags
  tailTags : c'.tailTags = c.tailTags
  buffer : c'.buffer = c.buffer
  tail : c'.tail = c.tail
  stale : c'.stale = c.stale
  owner : c'.owner = c.owner ∨ c'.owner = none

theorem Frame.rfl' (c : Conn P) : Frame c c := ⟨rfl, rfl, rfl, rfl, rfl, Or.inl rfl⟩
theorem Frame.trans {a b c : Conn P} (h1 : Frame a b) (h2 : Frame b c) : Frame a c :=
  ⟨h2.ptags.trans h1.ptags, h2.tailTags.trans h1.tailTags, h2.buffer.trans h1.buffer, h2.tail.trans h1.tail,
   h2.stale.trans h1.stale, by
    rcases h2.owner with h | h
    · rcases h1.owner with h' | h'
      · exact Or.inl (h.trans h')
      · exact Or.inr (h.trans h')
    · exact Or.inr h⟩

theorem frame_modPay (c : Conn P) (p : Nat) (f : Pay → Pay) : Frame c (c.modPay p f) := by
  unfold Conn.modPay; split <;> exact ⟨rfl, rfl, rfl, rfl, rfl, Or.inl rfl⟩
theorem frame_payFail (c : Conn P) (p : Nat) (e : Exc) : Frame c (c.payFail p e) := frame_modPay _ _ _
theorem frame_setException (c : Conn P) (e : Exc) : Frame c (c.setException e) :=
  ⟨rfl, rfl, rfl, rfl, rfl, Or.inl rfl⟩

theorem frame_evData (c : Conn P) (bs : Bytes) : Frame c (c.evData bs) := by
  unfold Conn.evData; split
  · exact frame_modPay _ _ _
  · exact Frame.rfl' _

theorem frame_evEofMark (c : Conn P) : Frame c c.evEofMark.1 := by
  unfold Conn.evEofMark; split
  · next p hp =>
    have := frame_modPay c p (fun y => { y with eof := true, cb := false, prov := c.ptags })
    exact ⟨this.ptags, this.tailTags, this.buffer, this.tail, this.stale, this.owner⟩
  · exact Frame.rfl' _

theorem frame_evPerr (c : Conn P) : Frame c c.evPerr := by
  unfold Conn.evPerr; split
  · next p hp =>
    have := frame_payFail c p .payload
    exact ⟨this.ptags, this.tailTags, this.buffer, this.tail, this.stale, this.owner⟩
  · exact Frame.rfl' _

theorem frame_applyEvCore (rel : Conn P → Conn P) (hrel : ∀ c, Frame c (rel c)) (c : Conn P) (r : Bool)
    (ms : List (Msg × Option Nat)) (e : PEv) : Frame c (Conn.applyEvCore rel c r ms e).1 := by
  cases e with
  | msg m hp => cases hp <;> exact ⟨rfl, rfl, rfl, rfl, rfl, Or.inl rfl⟩
  | data bs => exact frame_evData c bs
  | eof =>
    simp only [Conn.applyEvCore]
    split
    · exact (frame_evEofMark c).trans (hrel _)
    · exact frame_evEofMark c
  | perr => exact frame_evPerr c

theorem frame_applyEvsCore (rel : Conn P → Conn P) (hrel : ∀ c, Frame c (rel c)) (evs : List PEv) (c : Conn P) (r : Bool)
    (ms : List (Msg × Option Nat)) : Frame c (Conn.applyEvsCore rel c r ms evs).1 := by
  induction evs generalizing c r ms with
  | nil => exact Frame.rfl' _
  | cons e es ih =>
    unfold Conn.applyEvsCore
    have h1 := frame_applyEvCore rel hrel c r ms e
    rcases hx : Conn.applyEvCore rel c r ms e with ⟨c1, r1, ms1⟩
    rw [hx] at h1
    exact h1.trans (ih c1 r1 ms1)

theorem frame_lostFeed (c : Conn P) : Frame c c.lostFeed.1 := by
  unfold Conn.lostFeed
  split
  · have hrel : ∀ c : Conn P, Frame c ({ c with owner := none } : Conn P) :=
      fun c => ⟨rfl, rfl, rfl, rfl, rfl, Or.inr rfl⟩
    exact frame_applyEvsCore (fun c => ({ c with owner := none } : Conn P)) hrel _ _ _ _
  · exact Frame.rfl' _

theorem frame_lostFail (c : Conn P) (r : Bool) : Frame c (c.lostFail r) := by
  unfold Conn.lostFail
  split
  · split
    · exact frame_payFail _ _ _
    · exact Frame.rfl' _
  · exact Frame.rfl' _

theorem frame_lostExc (c : Conn P) (os : Bool) : Frame c (c.lostExc os) := by
  unfold Conn.lostExc
  split
  · exact frame_setException _ _
  · exact Frame.rfl' _

theorem frame_lostEnd (c : Conn P) : Frame c c.lostEnd := ⟨rfl, rfl, rfl, rfl, rfl, Or.inl rfl⟩

theorem frame_lostCore (c : Conn P) (os : Bool) : Frame c (c.lostCore os).1 := by
  unfold Conn.lostCore
  exact (((frame_lostFeed c).trans (frame_lostFail _ _)).trans (frame_lostExc _ _)).trans (frame_lostEnd _)

theorem frame_protoClose (c : Conn P) : Frame c c.protoClose := by
  unfold Conn.protoClose
  split
  · exact ⟨rfl, rfl, rfl, rfl, rfl, Or.inl rfl⟩
  · have := frame_lostCore { c with exc := none, payload := none, connected := false } false
    exact ⟨this.ptags, this.tailTags, this.buffer, this.tail, this.stale, this.owner⟩

theorem frame_release (c : Conn P) (now : Nat) (fc ex : Bool) :
    Frame c (c.release now fc ex) ∧ (c.release now fc ex).owner = none := by
  unfold Conn.release Conn.releaseCore
  split
  · have := frame_protoClose { c with owner := none }
    have ho : (Conn.protoClose { c with owner := none }).owner = none := by
      rcases this.owner with h | h <;> simpa using h
    exact ⟨⟨this.ptags, this.tailTags, this.buffer, this.tail, this.stale, Or.inr ho⟩, ho⟩
  · exact ⟨⟨rfl, rfl, rfl, rfl, rfl, Or.inr rfl⟩, rfl⟩


/-! ### the head invariant -/

/-- while exchange `j` holds the connection, everything the current parser consumed, the tail
and every queued message stem from chunks that arrived while `j` held it -/
def OwnInv (c : Conn P) : Prop :=
  ∀ j, c.owner = some j →
    (∀ t ∈ c.ptags, t = some j) ∧ (∀ t ∈ c.tailTags, t = some j) ∧ (∀ q ∈ c.buffer, ∀ t ∈ q.prov, t = some j)

theorem OwnInv.frame {c c' : Conn P} (h : OwnInv c) (f : Frame c c') : OwnInv c' := by
  intro j hj
  rcases f.owner with ho | ho
  · rw [ho] at hj
    have := h j hj
    rw [f.ptags, f.tailTags, f.buffer]
    exact this
  · rw [ho] at hj; cases hj

theorem pushMsgs_spec (ms : List (Msg × Option Nat)) (c : Conn P) :
    (c.pushMsgs ms).ptags = c.ptags ∧ (c.pushMsgs ms).tailTags = c.tailTags ∧ (c.pushMsgs ms).owner = c.owner ∧
    (c.pushMsgs ms).tail = c.tail ∧
    (∀ q ∈ (c.pushMsgs ms).buffer, q ∈ c.buffer ∨ q.prov = c.ptags) := by
  induction ms generalizing c with
  | nil => unfold Conn.pushMsgs; exact ⟨rfl, rfl, rfl, rfl, fun q hq => Or.inl hq⟩
  | cons a rest ih =>
    rcases a with ⟨m, p⟩
    unfold Conn.pushMsgs
    dsimp only
    split
    all_goals
      refine ⟨(ih _).1, (ih _).2.1, (ih _).2.2.1, (ih _).2.2.2.1, ?_⟩
      intro q hq
      rcases (ih _).2.2.2.2 q hq with h | h
      · simp only [List.mem_append, List.mem_singleton] at h
        rcases h with h | h
        · exact Or.inl h
        · right; rw [h]
      · right; exact h

theorem ownInv_dataReceived (c : Conn P) (now : Nat) (fc : Bool) (data : Bytes) (h : OwnInv c) :
    OwnInv (c.dataReceived now fc data [c.owner]).1 := by
  unfold Conn.dataReceived
  have htail : OwnInv ({ c with tail := c.tail ++ data, tailTags := c.tailTags ++ [c.owner],
                                stale := c.stale || (c.owner.isNone && !data.isEmpty) } : Conn P) := by
    intro j hj
    have hj' : c.owner = some j := hj
    obtain ⟨h1, h2, h3⟩ := h j hj'
    refine ⟨h1, ?_, h3⟩
    intro t ht
    simp only [List.mem_append, List.mem_singleton] at ht
    rcases ht with ht | ht
    · exact h2 t ht
    · rw [ht]; exact hj'
  split
  · exact htail
  · next s hs =>
    split
    · exact htail
    · -- parser branch
      have h0 : OwnInv ({ c with parser := some (P.feed s data).st, ptags := c.ptags ++ [c.owner] } : Conn P) := by
        intro j hj
        have hj' : c.owner = some j := hj
        obtain ⟨h1, h2, h3⟩ := h j hj'
        refine ⟨?_, h2, h3⟩
        intro t ht
        simp only [List.mem_append, List.mem_singleton] at ht
        rcases ht with ht | ht
        · exact h1 t ht
        · rw [ht]; exact hj'
      generalize hc0 : ({ c with parser := some (P.feed s data).st, ptags := c.ptags ++ [c.owner] } : Conn P) = c0 at h0
      have hf : Frame c0 (c0.applyEvs now fc (P.feed s data).evs).1 :=
        frame_applyEvsCore _ (fun c => (frame_release c now fc false).1) _ _ _ _
      have h1 := h0.frame hf
      rcases hx : c0.applyEvs now fc (P.feed s data).evs with ⟨c1, rel, msgs⟩
      rw [hx] at h1
      simp only [hc0, hx]
      split
      · -- error
        have h2 : OwnInv (c1.setException .http) := h1.frame (frame_setException _ _)
        split
        · split
          · -- connection_lost held back by the transport
            exact h2
          · have hf3 := frame_lostCore ({ c1.setException .http with connected := false } : Conn P) false
            have h2' : OwnInv ({ c1.setException .http with connected := false } : Conn P) := h2
            exact h2'.frame hf3
        · exact h2
      · -- pushMsgs
        have hc2 : OwnInv ({ c1 with upgraded := (P.feed s data).upgraded } : Conn P) := h1
        have hc2o : ({ c1 with upgraded := (P.feed s data).upgraded } : Conn P).owner = c1.owner := rfl
        generalize ({ c1 with upgraded := (P.feed s data).upgraded } : Conn P) = c2 at hc2 hc2o
        have hp := pushMsgs_spec msgs c2
        have h3 : OwnInv (c2.pushMsgs msgs) := by
          intro j hj
          rw [hp.2.2.1] at hj
          obtain ⟨a1, a2, a3⟩ := hc2 j hj
          refine ⟨by rw [hp.1]; exact a1, by rw [hp.2.1]; exact a2, ?_⟩
          intro q hq t ht
          rcases hp.2.2.2.2 q hq with hq' | hq'
          · exact a3 q hq' t ht
          · rw [hq'] at ht; exact a1 t ht
        split
        · intro j hj
          have hj' : (c2.pushMsgs msgs).owner = some j := hj
          obtain ⟨a1, a2, a3⟩ := h3 j hj'
          refine ⟨a1, ?_, a3⟩
          intro t ht
          simp only [List.mem_append, List.mem_singleton] at ht
          rcases ht with ht | ht
          · exact a2 t ht
          · -- the tag of this chunk is the holder when it arrived; the holder has not changed since
            rw [ht]
            have e1 : c1.owner = some j := by rw [← hc2o, ← hp.2.2.1]; exact hj'
            have e0 : c0.owner = c.owner := by rw [← hc0]
            rcases hf.owner with ho | ho
            · rw [hx] at ho
              have ho' : c1.owner = c0.owner := ho
              rw [← e0, ← ho']; exact e1
            · rw [hx] at ho
              have ho' : c1.owner = none := ho
              rw [ho'] at e1; cases e1
        · exact h3


theorem frame_onEof (c : Conn P) (now : Nat) (fc : Bool) (pay : Option Nat) : Frame c (c.onEof now fc pay).1 := by
  unfold Conn.onEof
  cases pay with
  | none =>
    cases hU : c.upgraded <;> simp
    · exact (frame_release _ _ _ _).1
    · exact Frame.rfl' _
  | some p =>
    cases hE : c.payEof p <;> cases hU : c.upgraded <;> simp [hE]
    all_goals first
      | exact Frame.rfl' _
      | exact (frame_release _ _ _ _).1
      | exact frame_modPay _ _ _

theorem frame_tryAcquire_fail (c : Conn P) (k : Key) (j now ka : Nat) (fix : Bool)
    (h : (c.tryAcquire k j now ka fix).2 = false) : Frame c (c.tryAcquire k j now ka fix).1 := by
  unfold Conn.tryAcquire at h ⊢
  split
  · next hk => rw [if_pos hk] at h; simp at h
  · split
    · have := frame_protoClose ({ c with pooled := none } : Conn P)
      exact ⟨this.ptags, this.tailTags, this.buffer, this.tail, this.stale, this.owner⟩
    · exact Frame.rfl' _

theorem tryAcquire_ok_eq (c : Conn P) (k : Key) (j now ka : Nat) (fix : Bool)
    (h : (c.tryAcquire k j now ka fix).2 = true) :
    (c.tryAcquire k j now ka fix).1 = { c with pooled := none, owner := some j } := by
  unfold Conn.tryAcquire at h ⊢
  split
  · rfl
  · next hn => rw [if_neg hn] at h; split at h <;> simp at h

theorem acqResult_fail (g : CCfg) (c : Conn P) (k : Key) (j now : Nat)
    (h : (acqResult g c k j now).2 = false) : Frame c (acqResult g c k j now).1 := by
  unfold acqResult at h ⊢
  split
  · next hp => rw [if_pos hp] at h; exact frame_tryAcquire_fail _ _ _ _ _ _ h
  · next hp =>
    rw [if_neg hp] at h
    split
    · next hf => rw [if_pos hf] at h; simp at h
    · exact Frame.rfl' _

theorem acqResult_ok (g : CCfg) (c : Conn P) (k : Key) (j now : Nat)
    (h : (acqResult g c k j now).2 = true) :
    (acqResult g c k j now).1 = { c with pooled := none, owner := some j } := by
  unfold acqResult at h ⊢
  split
  · next hp => rw [if_pos hp] at h; exact tryAcquire_ok_eq _ _ _ _ _ _ h
  · next hp =>
    rw [if_neg hp] at h
    split
    · rfl
    · next hf => rw [if_neg hf] at h; simp at h

theorem frame_beginClose (c : Conn P) : Frame c c.beginClose := by
  unfold Conn.beginClose
  split <;> exact ⟨rfl, rfl, rfl, rfl, rfl, Or.inl rfl⟩

theorem beginClose_not_connected (c : Conn P) : c.beginClose.connected = false := by
  unfold Conn.beginClose
  split
  · rfl
  · next h => simpa using h

end Aio.C06
