import AioProps.HttpLemmas
/-!
# C10 — parsers are total and enforce their configured limits

Totality is by construction: `feed`, `feedEof` and everything below them are total Lean
functions whose only failure value is `Err` (the `HttpProcessingError` family) — there is no
other exception type in the model, and the correspondence run reports any other exception
type leaving the real parser as `E_OTHER(..)`, i.e. as a mismatch.  The theorems below state
the limit enforcement and the bound on retained bytes, for every limit configuration.
-/
namespace Aio.Http
open Aio

/-- **Over-long lines are rejected.** A completed start line longer than `max_line_size`, or a
completed header line longer than `max_field_size` (a CR of a lax CRLF terminator not
counted), is refused with `LineTooLong` — whatever else the line contains. -/
theorem long_line_rejected (cfg : Cfg) (st : St) (raw : Bytes)
    (h : lineLen cfg raw > maxLenFor cfg st) : acceptLine cfg st raw = .error .lineTooLong := by
  simp [acceptLine, h]

/-- **Too many header lines are rejected.** -/
theorem too_many_headers_rejected (cfg : Cfg) (st : St) (raw : Bytes)
    (hlen : ¬ lineLen cfg raw > maxLenFor cfg st) (h : st.lines.length ≥ cfg.maxHeaders) :
    acceptLine cfg st raw = .error .badHttpMessage := by
  simp only [acceptLine, hlen, if_false]
  have : (st.lines ++ [if cfg.lax then rstrip (· == 13) raw else raw]).length > cfg.maxHeaders := by
    simp; omega
  simp only [this, if_true]

/-- `rstrip` never lengthens -/
theorem rstrip_length_le (p : UInt8 → Bool) (bs : Bytes) : (rstrip p bs).length ≤ bs.length := by
  unfold rstrip
  simp only [List.length_reverse]
  have : ∀ l : Bytes, (lstrip p l).length ≤ l.length := by
    intro l
    induction l with
    | nil => simp [lstrip]
    | cons y ys ih => simp only [lstrip]; split <;> simp <;> omega
  simpa using this bs.reverse

/-- **What is kept of a header block is bounded.** Every accepted line is at most the limit in
force long, and there are never more than `max_headers` of them. -/
theorem accepted_lines_bounded (cfg : Cfg) (st : St) (raw : Bytes) (lines : List Bytes)
    (h : acceptLine cfg st raw = .ok lines) :
    lines.length ≤ cfg.maxHeaders ∧
    ∃ line, lines = st.lines ++ [line] ∧ line.length ≤ maxLenFor cfg st + 1 := by
  simp only [acceptLine] at h
  by_cases hl : lineLen cfg raw > maxLenFor cfg st
  · simp [hl] at h
  simp only [hl, if_false] at h
  by_cases hc : (st.lines ++ [if cfg.lax then rstrip (· == 13) raw else raw]).length > cfg.maxHeaders
  · simp only [hc, if_true] at h; cases h
  simp only [hc, if_false] at h
  injection h with h
  subst h
  refine ⟨by omega, _, rfl, ?_⟩
  unfold lineLen at hl
  by_cases hlax : cfg.lax = true
  · have := rstrip_length_le (· == 13) raw
    simp only [hlax, if_true] at hl ⊢
    split at hl <;> omega
  · simp only [hlax] at hl ⊢
    simp at hl ⊢; omega

/-- **The buffered partial line is bounded.** When no terminator has arrived and the early
checks let the buffer stand, the tail kept for the next read is at most one byte longer than
the limit in force (the one byte being a CR that may start the terminator). Otherwise the read
is rejected. -/
theorem partial_line_bounded (cfg : Cfg) (st : St) (data : Bytes) (evs : List Ev) :
    let o := partialLine cfg st data evs
    (o.err = none → o.st.tail = data ∧ data.length ≤ maxLenFor cfg st + 1 ∧ (10 : UInt8) ∉ data) ∧
    (o.err ≠ none → o.st.failed = true) := by
  simp only [partialLine]
  split
  · simp
  · next hlf =>
    split
    · simp
    · next hlen =>
      simp
      unfold tailLen at hlen
      constructor
      · split at hlen <;> omega
      · simpa using hlf

/-- **Chunk-size lines and trailers are limited too.** The early check on a buffered partial
chunk-size line / trailer line of the chunked body parser fires as soon as the tail (less one
possible terminator CR) exceeds `max_line_size` / `max_field_size`; so the chunk tail that
survives a read is bounded by the corresponding limit plus one. -/
theorem chunk_tail_bounded (cfg : Cfg) (p : PState) (hns : p.cstate ≠ .chunk)
    (h : chunkTailTooLong cfg p = false) :
    p.tail.length ≤ (if p.cstate = .trailers then cfg.maxField else cfg.maxLine) + 1 := by
  unfold chunkTailTooLong at h
  split at h
  · next he =>
    simp at he
    rcases he with he | he
    · simp [he]
    · exact absurd he hns
  · simp at h
    by_cases ht : p.cstate = .trailers
    · simp [ht] at h ⊢
      split at h <;> omega
    · simp [ht] at h ⊢
      split at h
      · split at h <;> omega
      · omega

/-- a chunk-size line longer than `max_line_size` is rejected -/
theorem long_chunk_size_line_rejected (cfg : Cfg) (fuel : Nat) (p : PState) (chunk : Bytes) (evs : List Ev)
    (pos : Nat) (hne : chunk ≠ []) (hs : p.cstate = .size) (hf : findSep cfg.lax chunk = some pos)
    (hlong : pos > cfg.maxLine) :
    (chunkedLoop cfg (fuel + 1) p chunk evs).1 = .err .lineTooLong false := by
  have : chunk.isEmpty = false := by cases chunk <;> simp_all
  simp [chunkedLoop, sizeStep, this, hs, hf, hlong]

/-- **After a rejection nothing more is parsed** (the error is latched). -/
theorem rejected_stays_rejected (cfg : Cfg) (urlOk : Bool → Bytes → Bool) (st : St) (d : Bytes)
    (h : st.failed = true) : (feed cfg urlOk st d).evs = [] ∧ (feed cfg urlOk st d).err = none := by
  simp [feed, h]

end Aio.Http
