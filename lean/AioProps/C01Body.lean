import AioProps.C01Run
import AioProps.C03Chunked
/-!
# C01: an accepted chunked body is a strict RFC 9112 reading

`Body s n input rest data` is the strict grammar of what remains of a chunked body when the
parser is in chunk-state `s` (with `n` bytes of the current chunk outstanding):

    chunked-body = *( size-line CRLF chunk-data CRLF ) last-size-line CRLF *( trailer-line CRLF ) CRLF

where a size line is `1*HEXDIG [ ";" ext ]` (no LF and no CR in the extension), the
chunk data has exactly the announced length, and trailer lines contain no CRLF.
`chunked_body_is_strict`: whenever the strict parser completes a chunked body in one call, the
bytes it consumed are such a reading, what it hands back is exactly the rest, and the body bytes
it delivered are exactly the concatenation of the chunk data.
-/
namespace Aio.Http
open Aio

/-- a strict chunk-size line with value `n` -/
def SizeLine (line : Bytes) (n : Nat) : Prop :=
  findCRLF line = none ∧
  ∃ digits ext, line = digits ++ ext ∧ digits ≠ [] ∧ (∀ b ∈ digits, isHexB b = true) ∧
    ofHex digits = some n ∧ (ext = [] ∨ (ext.head? = some 59 ∧ (10 : UInt8) ∉ ext ∧ (13 : UInt8) ∉ ext))

/-- `Body s n input rest data trailers` -/
inductive Body : CState → Nat → Bytes → Bytes → Bytes → List Bytes → Prop
  | sizeChunk (k : Nat) (line : Bytes) (n : Nat) (inp rest d : Bytes) (tls : List Bytes) :
      SizeLine line n → n ≠ 0 → Body .chunk n inp rest d tls → Body .size k (line ++ 13 :: 10 :: inp) rest d tls
  | sizeLast (k : Nat) (line : Bytes) (inp rest d : Bytes) (tls : List Bytes) :
      SizeLine line 0 → Body .trailers 0 inp rest d tls → Body .size k (line ++ 13 :: 10 :: inp) rest d tls
  | chunk (n : Nat) (x inp rest d : Bytes) (tls : List Bytes) :
      x.length = n → Body .chunkEof 0 inp rest d tls → Body .chunk n (x ++ inp) rest (x ++ d) tls
  | chunkEof (k : Nat) (inp rest d : Bytes) (tls : List Bytes) :
      Body .size 0 inp rest d tls → Body .chunkEof k (13 :: 10 :: inp) rest d tls
  | trailerLine (k : Nat) (line inp rest d : Bytes) (tls : List Bytes) :
      line ≠ [] → findCRLF line = none → Body .trailers 0 inp rest d tls →
      Body .trailers k (line ++ 13 :: 10 :: inp) rest d (line :: tls)
  | trailersEnd (k : Nat) (rest : Bytes) : Body .trailers k (13 :: 10 :: rest) rest [] []

/-- the chunk-state index `n` matters only in state `chunk` -/
theorem Body.reindex {s : CState} {n m : Nat} {inp rest d : Bytes} {tls : List Bytes} (hs : s ≠ .chunk)
    (h : Body s n inp rest d tls) : Body s m inp rest d tls := by
  cases h with
  | sizeChunk k line n' inp' rest d tls h1 h2 h3 => exact .sizeChunk m line n' inp' rest d tls h1 h2 h3
  | sizeLast k line inp' rest d tls h1 h2 => exact .sizeLast m line inp' rest d tls h1 h2
  | chunk n' x inp' rest d tls h1 h2 => exact absurd rfl hs
  | chunkEof k inp' rest d tls h1 => exact .chunkEof m inp' rest d tls h1
  | trailerLine k line inp' rest d tls h1 h2 h3 => exact .trailerLine m line inp' rest d tls h1 h2 h3
  | trailersEnd k rest => exact .trailersEnd m rest

theorem findCRLF_split (a : Bytes) (p : Nat) (h : findCRLF a = some p) :
    a = a.take p ++ 13 :: 10 :: a.drop (p + 2) ∧ findCRLF (a.take p) = none := by
  induction a generalizing p with
  | nil => simp [findCRLF] at h
  | cons x t ih =>
    cases t with
    | nil => simp [findCRLF] at h
    | cons y t' =>
      simp only [findCRLF] at h
      split at h
      · next hx => simp at h; subst h; simp [hx.1, hx.2, findCRLF]
      · next hx =>
        simp at h
        obtain ⟨q, hq, rfl⟩ := h
        obtain ⟨e, hn⟩ := ih q hq
        refine ⟨?_, ?_⟩
        · have e' : y :: t' = List.take q (y :: t') ++ 13 :: 10 :: List.drop (q + 1) t' := by
            have : List.drop (q + 2) (y :: t') = List.drop (q + 1) t' := by simp
            rw [← this]; exact e
          simp only [List.take_succ_cons, List.drop_succ_cons, List.cons_append]
          rw [← e']
        · simp only [List.take_succ_cons]
          -- no CRLF in x :: take q (y :: t')
          cases hq0 : (y :: t').take q with
          | nil => simp [findCRLF]
          | cons z zs =>
            rw [hq0] at hn
            simp only [findCRLF]
            have hxz : ¬ (x = 13 ∧ z = 10) := by
              intro hc
              apply hx
              have : z = y := by
                cases q with
                | zero => simp at hq0
                | succ q' => simp at hq0; exact hq0.1.symm
              exact ⟨hc.1, this ▸ hc.2⟩
            simp [hxz, hn]

def dataOfAcc (evs evs' : List Ev) (d : Bytes) : Prop := dataOf evs' = dataOf evs ++ d

theorem dataOf_app (a b : List Ev) : dataOf (a ++ b) = dataOf a ++ dataOf b := by
  induction a with
  | nil => rfl
  | cons e t ih => cases e <;> simp [dataOf, ih]

/-- the continuation, when it completes, has read a strict remainder -/
def KBody (k : LoopK) : Prop :=
  ∀ p c evs rest evs', k p c evs = (.complete rest, evs') →
    ∃ d tls, Body p.cstate p.chunkSize c rest d tls ∧ dataOf evs' = dataOf evs ++ d ∧
      ∃ hs, FieldsOf (p.trailerLines ++ tls ++ [[]]) hs

end Aio.Http

namespace Aio.Http
open Aio

theorem dataOf_snoc_nodata (evs : List Ev) (e : Ev) (h : ∀ bs, e ≠ .data bs) : dataOf (evs ++ [e]) = dataOf evs := by
  rw [dataOf_app]
  cases e <;> simp [dataOf] <;> exact absurd rfl (h _)

theorem dataOf_dataEv' (x : Bytes) : dataOf (dataEv x) = x := by
  have := dataOf_dataEv x []
  simpa [dataOf] using this

theorem chunkEofStep_body (cfg : Cfg) (hstrict : cfg.lax = false) (k : LoopK) (hk : KBody k) (n : Nat)
    (p : PState) (c : Bytes) (evs : List Ev) (rest : Bytes) (evs' : List Ev)
    (h : chunkEofStep cfg k p c evs = (.complete rest, evs')) :
    ∃ d tls, Body .chunkEof n c rest d tls ∧ dataOf evs' = dataOf evs ++ d ∧
      ∃ hs, FieldsOf (p.trailerLines ++ tls ++ [[]]) hs := by
  unfold chunkEofStep at h
  simp only [hstrict, skipCR, sepLen, sepBytes, Bool.false_eq_true, if_false] at h
  split at h
  · next hsep =>
    have hc : c = 13 :: 10 :: c.drop 2 := by
      have h1 : c.take 2 = [13, 10] := by simpa using hsep
      have := List.take_append_drop 2 c
      rw [h1] at this
      simpa using this.symm
    obtain ⟨d, tls, hb, hd, hf⟩ := hk _ _ _ _ _ h
    refine ⟨d, tls, ?_, hd, hf⟩
    rw [hc]
    exact .chunkEof n _ rest d tls (Body.reindex (by simp) hb)
  · split at h <;> cases h

theorem chunkStep_body (cfg : Cfg) (hstrict : cfg.lax = false) (k : LoopK) (hk : KBody k)
    (p : PState) (c : Bytes) (evs : List Ev) (rest : Bytes) (evs' : List Ev)
    (h : chunkStep cfg k p c evs = (.complete rest, evs')) :
    ∃ d tls, Body .chunk p.chunkSize c rest d tls ∧ dataOf evs' = dataOf evs ++ d ∧
      ∃ hs, FieldsOf (p.trailerLines ++ tls ++ [[]]) hs := by
  unfold chunkStep at h
  simp only [] at h
  by_cases hz : p.chunkSize - c.length = 0
  · simp only [hz, bne_self_eq_false, Bool.false_eq_true, if_false] at h
    obtain ⟨d, tls, hb, hd, hf⟩ := chunkEofStep_body cfg hstrict k hk 0 _ _ _ _ _ h
    refine ⟨c.take p.chunkSize ++ d, tls, ?_, ?_, hf⟩
    · have hc : c = c.take p.chunkSize ++ c.drop p.chunkSize := (List.take_append_drop _ _).symm
      rw [hc]
      have hlen : (c.take p.chunkSize).length = p.chunkSize := by rw [List.length_take]; omega
      have := Body.chunk p.chunkSize (c.take p.chunkSize) (c.drop p.chunkSize) rest d tls hlen hb
      simpa using this
    · rw [hd, dataOf_snoc_nodata _ _ (by intro bs hh; cases hh), dataOf_app, dataOf_dataEv']
      simp
  · have hne : (p.chunkSize - c.length != 0) = true := by simpa using hz
    simp only [hne, if_true] at h
    cases h

theorem trailersStep_body (cfg : Cfg) (hstrict : cfg.lax = false) (k : LoopK) (hk : KBody k) (n : Nat)
    (p : PState) (hp : p.cstate = .trailers) (c : Bytes) (evs : List Ev) (rest : Bytes) (evs' : List Ev)
    (h : trailersStep cfg k p c evs = (.complete rest, evs')) :
    ∃ d tls, Body .trailers n c rest d tls ∧ dataOf evs' = dataOf evs ++ d ∧
      ∃ hs, FieldsOf (p.trailerLines ++ tls ++ [[]]) hs := by
  unfold trailersStep at h
  simp only [hstrict, findSep, sepLen, trailerLine, trailerRawLen, Bool.false_eq_true, if_false] at h
  cases hf : findCRLF c with
  | none => simp only [hf] at h; split at h <;> cases h
  | some pos =>
    obtain ⟨hc, hnone⟩ := findCRLF_split c pos hf
    simp only [hf] at h
    split at h
    · cases h
    · split at h
      · cases h
      · split at h
        · next hempty =>
          have hl : c.take pos = [] := by simpa using hempty
          rw [hl] at h
          cases hph : parseHeaders false cfg.maxField (p.trailerLines ++ [[]]) with
          | error e => simp [hph] at h
          | ok hs =>
            simp only [hph] at h
            injection h with h1 h2
            injection h1 with h1
            refine ⟨[], [], ?_, ?_, hs, ?_⟩
            · rw [hc, hl, ← h1]
              exact .trailersEnd n _
            · rw [← h2, dataOf_snoc_nodata _ _ (by intro bs hh; cases hh)]; simp
            · simpa using parseHeaders_sound cfg.maxField _ hs hph
        · next hne =>
          obtain ⟨d, tls, hb, hd, hs, hf⟩ := hk _ _ _ _ _ h
          simp only [hp] at hb
          refine ⟨d, c.take pos :: tls, ?_, hd, hs, ?_⟩
          · have := Body.trailerLine n (c.take pos) (c.drop (pos + 2)) rest d tls (by intro e; apply hne; simp [e]) hnone
              (Body.reindex (by simp) hb)
            rw [← hc] at this
            exact this
          · simpa using hf

theorem sizeStep_body (cfg : Cfg) (hstrict : cfg.lax = false) (k : LoopK) (hk : KBody k) (n : Nat)
    (p : PState) (c : Bytes) (evs : List Ev) (rest : Bytes) (evs' : List Ev)
    (h : sizeStep cfg k p c evs = (.complete rest, evs')) :
    ∃ d tls, Body .size n c rest d tls ∧ dataOf evs' = dataOf evs ++ d ∧
      ∃ hs, FieldsOf (p.trailerLines ++ tls ++ [[]]) hs := by
  unfold sizeStep at h
  simp only [hstrict, findSep, sepLen, Bool.false_eq_true, if_false] at h
  cases hf : findCRLF c with
  | none => simp only [hf] at h; split at h <;> cases h
  | some pos =>
    obtain ⟨hc, hnone⟩ := findCRLF_split c pos hf
    simp only [hf] at h
    split at h
    · cases h
    · cases hsz : chunkSizeOf cfg (c.take pos) with
      | none => simp [hsz] at h
      | some size =>
        simp only [hsz] at h
        have hline : SizeLine (c.take pos) size :=
          ⟨hnone, chunk_size_line_strict cfg hstrict _ _ hsz⟩
        split at h
        · next hz =>
          have hz' : size = 0 := by simpa using hz
          subst hz'
          obtain ⟨d, tls, hb, hd, hf⟩ := trailersStep_body cfg hstrict k hk 0 _ rfl _ _ _ _ h
          refine ⟨d, tls, ?_, hd, hf⟩
          rw [hc]
          exact .sizeLast n _ _ rest d tls hline hb
        · next hz =>
          have hz' : size ≠ 0 := by simpa using hz
          obtain ⟨d, tls, hb, hd, hf⟩ := chunkStep_body cfg hstrict k hk _ _ _ _ _ h
          refine ⟨d, tls, ?_, ?_, hf⟩
          · rw [hc]
            exact .sizeChunk n _ size _ rest d tls hline hz' hb
          · rw [hd, dataOf_snoc_nodata _ _ (by intro bs hh; cases hh)]

theorem chunkedLoop_body (cfg : Cfg) (hstrict : cfg.lax = false) : ∀ f, KBody (chunkedLoop cfg f) := by
  intro f
  induction f with
  | zero => intro p c evs rest evs' h; simp [chunkedLoop] at h
  | succ n ih =>
    intro p c evs rest evs' h
    rw [chunkedLoop] at h
    split at h
    · cases h
    · cases hcs : p.cstate with
      | size => simp only [hcs] at h; exact sizeStep_body cfg hstrict _ ih _ _ _ _ _ _ h
      | chunk => simp only [hcs] at h; exact chunkStep_body cfg hstrict _ ih _ _ _ _ _ h
      | chunkEof => simp only [hcs] at h; exact chunkEofStep_body cfg hstrict _ ih _ _ _ _ _ _ h
      | trailers => simp only [hcs] at h; exact trailersStep_body cfg hstrict _ ih _ _ hcs _ _ _ _ h

/-- **An accepted chunked body is a strict reading.** The strict (server-side) body parser at any
point of a chunked body with nothing buffered: if one `feed_data` call completes the body, the
bytes consumed are a strict RFC 9112 chunked-body remainder (`Body`), the bytes handed back are
exactly what follows it, the data delivered is exactly the concatenation of the chunk data, and
the trailer lines (those already collected and those of this remainder) are strict field lines. -/
theorem chunked_body_is_strict (cfg : Cfg) (hstrict : cfg.lax = false) (p : PState) (inp rest : Bytes) (E : List Ev)
    (ht : p.type = .chunked) (htl : p.tail = [])
    (h : payloadFeed cfg p inp = (.complete rest, E)) :
    ∃ d tls hs, Body p.cstate p.chunkSize inp rest d tls ∧ dataOf E = d ∧
      FieldsOf (p.trailerLines ++ tls ++ [[]]) hs := by
  rw [payloadFeed_chunked cfg p _ ht] at h
  split at h
  · cases h
  · simp only [htl, List.nil_append] at h
    obtain ⟨d, tls, hb, hd, hs, hf⟩ := chunkedLoop_body cfg hstrict _ _ _ _ _ _ h
    exact ⟨d, tls, hs, hb, by simpa [dataOf] using hd, hf⟩

end Aio.Http

namespace Aio.Http
/-- Non-vacuity: the strict parser completes `3;x=y CRLF abc CRLF 0 CRLF T: v CRLF CRLF` + `GET`
from the start of a chunked body (so the theorem speaks about a real completion). -/
example : (match (payloadFeed {} { type := .chunked, maxTrailers := 8 }
    [51, 59, 120, 61, 121, 13, 10, 97, 98, 99, 13, 10, 48, 13, 10, 84, 58, 32, 118, 13, 10, 13, 10, 71, 69, 84]).1 with
    | .complete rest => rest == [71, 69, 84]
    | _ => false) = true ∧ ({} : Cfg).lax = false := by
  decide +kernel
end Aio.Http
