import AioProps.C11Lemmas
/-! C11 with permessage-deflate: the assumed laws of the un-modelled zlib pair, and the reader
run over a compressed frame. -/
namespace Aio.C11
open Aio Aio.C12

/-- A deflate/inflate pair with the one law the round trip needs.  `Sync d z` = "the inflate
context `z` has seen exactly the output of the deflate context `d`".  The law: compressing a
message with either flush mode, stripping the `00 00 ff ff` tail if present, re-appending it and
inflating with an in-sync context (with no output cap, or a cap above the message length) gives
the message back and leaves the contexts in sync.  zlib is assumed to satisfy it (exercised by
the round-trip oracle on every generated history); it is **not** preserved when some messages
are compressed by another, fresh context — the per-message `compress=` override, see findings. -/
structure Codec where
  D : Deflater
  Z : Inflater
  Sync : D.St → Z.St → Prop
  init_sync : ∀ w, Sync (D.init w) Z.init
  roundtrip : ∀ (d : D.St) (z : Z.St) (m : Bytes) (full : Bool) (maxLen : Nat),
    Sync d z → (maxLen = 0 ∨ m.length < maxLen) →
    (Z.inflate z (stripTrailing (D.deflate d m full).2 ++ [0, 0, 255, 255]) maxLen).2 = .ok m ∧
    Sync (D.deflate d m full).1 (Z.inflate z (stripTrailing (D.deflate d m full).2 ++ [0, 0, 255, 255]) maxLen).1

theorem stripTrailing_append (m : Bytes) : stripTrailing (m ++ [0, 0, 255, 255]) = m := by
  unfold stripTrailing
  have h1 : (m ++ [0, 0, 255, 255]).length - 4 = m.length := by simp
  have h2 : (m ++ [0, 0, 255, 255]).length ≥ 4 := by simp
  rw [h1]
  simp [h2]

/-- the laws are satisfiable: "store" codec (deflate = append the tail, inflate = drop it) -/
def Codec.toy : Codec where
  D := { St := Unit, init := fun _ => (), deflate := fun _ m _ => ((), m ++ [0, 0, 255, 255]) }
  Z := toyInflater
  Sync := fun _ _ => True
  init_sync := fun _ => trivial
  roundtrip := by
    intro d z m full maxLen _ hm
    refine ⟨?_, trivial⟩
    simp only [stripTrailing_append, toyInflater]
    have : (m ++ [0, 0, 255, 255]).length - 4 = m.length := by simp
    rw [this]
    rcases hm with h | h
    · simp [h]
    · have : ¬ maxLen = 0 := by omega
      simp [this, List.take_of_length_le (Nat.le_of_lt h)]

variable (C : Codec)

/-- bytes of one compressed data frame: RSV1 set, payload = stripped deflate output -/
def deflFrame (useMask : Bool) (s : Send) (wire : Bytes) : Bytes :=
  frameHeader (0x80 ||| 0x40 ||| s.opcode) (if useMask then 0x80 else 0) wire.length ++
    wirePayload useMask s.maskKey wire

/-- what may be sent compressed to a reader with configuration `c` -/
def OkDefl (c : Cfg) (s : Send) (wire : Bytes) : Prop :=
  (s.opcode = 1 ∨ s.opcode = 2) ∧ wire.length < 2 ^ 63 ∧
  (c.maxMsgSize = 0 ∨ (wire.length < c.maxMsgSize ∧ s.payload.length ≤ c.maxMsgSize)) ∧
  (s.opcode = 1 → c.decodeText = true → utf8Valid s.payload = true)

theorem handle_deflated (c : Cfg) (k3 : K C.Z) (s : Send) (d : C.D.St) (full : Bool)
    (hok : OkDefl c s (stripTrailing (C.D.deflate d s.payload full).2))
    (hp : k3.partialMsg = []) (ho : k3.opcode = none) (hop : k3.frameOpcode = s.opcode)
    (hcz : k3.compressed = some true) (hfin : k3.frameFin = true) (hsync : C.Sync d k3.z) :
    ∃ z', C.Sync (C.D.deflate d s.payload full).1 z' ∧
      handleFrame c k3 k3.frameFin k3.frameOpcode (stripTrailing (C.D.deflate d s.payload full).2) k3.compressed
        = .ok (deliver { k3 with z := z' } (toMsg s)) := by
  obtain ⟨hd, _, hsz, hu⟩ := hok
  have hml : (if c.maxMsgSize ≠ 0 then c.maxMsgSize + 1 else 0) = 0 ∨
      s.payload.length < (if c.maxMsgSize ≠ 0 then c.maxMsgSize + 1 else 0) := by
    rcases hsz with h | h
    · left; simp [h]
    · by_cases h0 : c.maxMsgSize = 0
      · left; simp [h0]
      · right; simp [h0]; omega
  obtain ⟨hr1, hr2⟩ := C.roundtrip d k3.z s.payload full _ hsync hml
  refine ⟨_, hr2, ?_⟩
  rw [hop]
  have hne : s.opcode ≠ 0 := by rcases hd with h | h <;> omega
  have h3 : s.opcode = 1 ∨ s.opcode = 2 ∨ s.opcode = 0 := by rcases hd with h | h <;> simp [h]
  unfold handleFrame
  rw [if_pos h3]
  unfold handleData inflateMsg
  simp only [hfin, hcz, hp, hne, ho]
  have hgt : ¬ (c.maxMsgSize ≠ 0 ∧ s.payload.length > c.maxMsgSize) := by
    rcases hsz with h | h
    · simp [h]
    · intro ⟨_, h2⟩; omega
  cases hz : C.Z.inflate k3.z (stripTrailing (C.D.deflate d s.payload full).2 ++ [0, 0, 255, 255])
      (if c.maxMsgSize ≠ 0 then c.maxMsgSize + 1 else 0) with
  | mk z' res =>
    rw [hz] at hr1
    simp only [] at hr1
    subst hr1
    have hz' := hz
    simp only [ne_eq, ite_not] at hz'
    rcases hd with h | h
    · have hu' := hu h
      by_cases hdt : c.decodeText = true
      · simp [h, toMsg, hdt, hu' hdt, deliver, hp, hz', hgt, Gen.C12.deflateTrailing]
        exact ⟨ho, hfin, by rw [hop, h], hcz⟩
      · simp [h, toMsg, hdt, deliver, hp, hz', hgt, Gen.C12.deflateTrailing]
        exact ⟨ho, hfin, by rw [hop, h], hcz⟩
    · simp [h, toMsg, deliver, hp, hz', hgt, Gen.C12.deflateTrailing]
      exact ⟨ho, hfin, by rw [hop, h], hcz⟩

theorem loopK_deflated_msg (c : Cfg) (hcomp : c.compress = true) (k : K C.Z) (hidle : Idle k) (s : Send)
    (d : C.D.St) (full : Bool) (hsync : C.Sync d k.z)
    (hok : OkDefl c s (stripTrailing (C.D.deflate d s.payload full).2))
    (useMask : Bool) (hkey : useMask = true → s.maskKey.length = 4) (rest : Bytes) (F : Nat)
    (hF : need k (deflFrame useMask s (stripTrailing (C.D.deflate d s.payload full).2) ++ rest) < F) :
    ∃ k', Idle k' ∧ k'.msgs = k.msgs ++ [toMsg s] ∧ C.Sync (C.D.deflate d s.payload full).1 k'.z ∧
      loopK c F k (deflFrame useMask s (stripTrailing (C.D.deflate d s.payload full).2) ++ rest)
        = loopK c (fuelFor rest) k' rest := by
  obtain ⟨hph, hfr, hpm, hopc, hff⟩ := hidle
  generalize hw : stripTrailing (C.D.deflate d s.payload full).2 = wire at hok hF ⊢
  have hd : s.opcode = 1 ∨ s.opcode = 2 := hok.1
  have hn : wire.length < 2 ^ 63 := hok.2.1
  let n := wire.length
  let mb := if useMask then 0x80 else 0
  have hmb : mb ∈ [0, 128] := by cases useMask <;> simp [mb]
  obtain ⟨g1, g2, g3⟩ := b1_facts (lenCode n) (lenCode_lt n) mb hmb
  have hb1a : ((lenCode n ||| mb).toUInt8).toNat / 128 = mb / 128 := by rw [toUInt8_toNat_lt g1]; exact g2
  have hb1b : ((lenCode n ||| mb).toUInt8).toNat % 128 = lenCode n := by rw [toUInt8_toNat_lt g1]; exact g3
  have hmask : decide (mb / 128 = 1) = useMask := by cases useMask <;> simp [mb]
  have hshape : deflFrame useMask s wire ++ rest =
      (0x80 ||| 0x40 ||| s.opcode).toUInt8 :: (lenCode n ||| mb).toUInt8 ::
        (extBytes n ++ (wirePayload useMask s.maskKey wire ++ rest)) := by
    unfold deflFrame; rw [frameHeader_eq]; simp [n, mb]
  rw [hshape] at hF ⊢
  have hh := hdrCore_data c k s.opcode 64 hd (Or.inr rfl) (fun _ => hcomp) hff (lenCode n ||| mb).toUInt8
  rw [hb1a, hb1b, hmask] at hh
  have hsz : c.maxMsgSize = 0 ∨ n < c.maxMsgSize := by
    rcases hok.2.2.1 with h | h
    · exact Or.inl h
    · exact Or.inr h.1
  have hs : lenCore c { k with compressed := some (decide ((64:Nat) = 64)), frameFin := true, frameOpcode := s.opcode, hasMask := useMask, lenFlag := lenCode n, phase := .len } n = .ok { k with compressed := some (decide ((64:Nat) = 64)), frameFin := true, frameOpcode := s.opcode, hasMask := useMask, lenFlag := lenCode n, toRead := n, phase := if useMask then .mask else .payload } := by
    unfold lenCore
    have : ¬ (c.maxMsgSize ≠ 0 ∧ (s.opcode = 1 ∨ s.opcode = 2 ∨ s.opcode = 0) ∧ n ≥ c.maxMsgSize - k.partialMsg.length) := by
      rw [hpm]; simp; intro h1 _; rcases hsz with h | h
      · exact absurd h h1
      · omega
    simp only [this, if_false]
  have := loopK_frame c k _ _ _ _ n useMask s.maskKey wire rest F hph hh rfl rfl hfr hn rfl hkey hs hF
  rw [this]
  unfold afterFrame
  subst hw
  obtain ⟨z', hsy, hp⟩ := handle_deflated C c ({ ({ k with compressed := some (decide ((64:Nat) = 64)), frameFin := true, frameOpcode := s.opcode, hasMask := useMask, lenFlag := lenCode n, toRead := n, phase := if useMask then .mask else .payload } : K C.Z) with toRead := 0, frags := [], phase := .payload, mask := if useMask then s.maskKey else k.mask }) s d full hok hpm hopc rfl (by simp) rfl hsync
  dsimp only at hp ⊢
  rw [hp]
  refine ⟨_, ⟨rfl, rfl, ?_, ?_, Or.inl rfl⟩, ?_, ?_, rfl⟩
  · simp [deliver, hpm]
  · simp [deliver, hopc]
  · simp [deliver]
  · simpa [deliver] using hsy

/-- the bytes the writer emits on a permessage-deflate connection (no per-message override):
control frames plain, data frames through the shared compressor `d` -/
def compWire (cfg : WCfg) : C.D.St → List Send → Bytes
  | _, [] => []
  | d, s :: ss =>
    if s.opcode ≥ 8 then plainFrame cfg.useMask s ++ compWire cfg d ss
    else deflFrame cfg.useMask s (stripTrailing (C.D.deflate d s.payload cfg.notakeover).2) ++
           compWire cfg (C.D.deflate d s.payload cfg.notakeover).1 ss

/-- admissible sends on such a connection (sizes are judged on the compressed bytes as well) -/
def OkComp (c : Cfg) (cfg : WCfg) : C.D.St → List Send → Prop
  | _, [] => True
  | d, s :: ss =>
    s.compress = 0 ∧ (cfg.useMask = true → s.maskKey.length = 4) ∧
    (if s.opcode ≥ 8 then OkPlain c s ∧ OkComp c cfg d ss
     else OkDefl c s (stripTrailing (C.D.deflate d s.payload cfg.notakeover).2) ∧
          OkComp c cfg (C.D.deflate d s.payload cfg.notakeover).1 ss)

theorem loopK_comp_all (c : Cfg) (hcomp : c.compress = true) (cfg : WCfg) :
    ∀ (sends : List Send) (d : C.D.St) (k : K C.Z) (F : Nat),
    Idle k → C.Sync d k.z → OkComp C c cfg d sends → need k (compWire C cfg d sends) < F →
    ∃ k', Idle k' ∧ k'.msgs = k.msgs ++ sends.map toMsg ∧
      loopK c F k (compWire C cfg d sends) = { k := k', tail := [], exc := none } := by
  intro sends
  induction sends with
  | nil =>
    intro d k F hidle _ _ hF
    refine ⟨k, hidle, by simp, ?_⟩
    obtain ⟨G, rfl⟩ : ∃ G, F = G + 1 := ⟨F - 1, by omega⟩
    rw [loopK_succ]
    have : microK c k (compWire C cfg d []) = .need := by
      unfold microK; simp only [hidle.1]; rfl
    rw [this]; rfl
  | cons s ss ih =>
    intro d k F hidle hsync hok hF
    obtain ⟨_, hkey, hrest⟩ := hok
    by_cases hctl : s.opcode ≥ 8
    · rw [if_pos hctl] at hrest
      have hw : compWire C cfg d (s :: ss) = plainFrame cfg.useMask s ++ compWire C cfg d ss := by
        simp [compWire, hctl]
      rw [hw] at hF ⊢
      obtain ⟨k1, hi1, hm1, hz1, he1⟩ := loopK_plain_msg c k hidle s hrest.1 cfg.useMask hkey _ F hF
      obtain ⟨k2, hi2, hm2, he2⟩ := ih d k1 (fuelFor (compWire C cfg d ss)) hi1 (hz1 ▸ hsync) hrest.2
        (need_le_fuelFor _ _)
      exact ⟨k2, hi2, by rw [hm2, hm1]; simp, by rw [he1, he2]⟩
    · rw [if_neg hctl] at hrest
      have hw : compWire C cfg d (s :: ss) =
          deflFrame cfg.useMask s (stripTrailing (C.D.deflate d s.payload cfg.notakeover).2) ++
            compWire C cfg (C.D.deflate d s.payload cfg.notakeover).1 ss := by
        simp [compWire, hctl]
      rw [hw] at hF ⊢
      obtain ⟨k1, hi1, hm1, hz1, he1⟩ := loopK_deflated_msg C c hcomp k hidle s d cfg.notakeover hsync
        hrest.1 cfg.useMask hkey _ F hF
      obtain ⟨k2, hi2, hm2, he2⟩ := ih _ k1 (fuelFor (compWire C cfg _ ss)) hi1 hz1 hrest.2
        (need_le_fuelFor _ _)
      exact ⟨k2, hi2, by rw [hm2, hm1]; simp, by rw [he1, he2]⟩

theorem sendAll_comp_out (c : Cfg) (cfg : WCfg) (hcfg : cfg.compress ≠ 0) :
    ∀ (sends : List Send) (w : W C.D) (d : C.D.St),
    w.ws.transportClosing = false → w.comp.getD (C.D.init cfg.compress) = d →
    (∀ s ∈ sends, s.compress = 0 ∧ (s.opcode = 1 ∨ s.opcode = 2 ∨ s.opcode = 8 ∨ s.opcode = 9 ∨ s.opcode = 10)) →
    OkComp C c cfg d (accepted w.ws.closing sends) →
    (sendAll cfg w sends).ws.out = w.ws.out ++ compWire C cfg d (accepted w.ws.closing sends) := by
  intro sends
  induction sends with
  | nil => intro w d _ _ _ _; simp [sendAll, compWire, accepted]
  | cons s ss ih =>
    intro w d ht hd hops hok
    obtain ⟨hs0, hopv⟩ := hops s (by simp)
    have hopsr : ∀ x ∈ ss, x.compress = 0 ∧ (x.opcode = 1 ∨ x.opcode = 2 ∨ x.opcode = 8 ∨ x.opcode = 9 ∨ x.opcode = 10) :=
      fun x hx => hops x (by simp [hx])
    by_cases hno : w.ws.closing = true ∧ s.opcode &&& 8 = 0
    · have hsf : (sendFrame cfg w s.payload s.opcode s.compress s.maskKey).1 = w := by
        unfold sendFrame; rw [if_pos hno]
      simp only [accepted, if_pos hno] at hok ⊢
      simp only [sendAll, hsf]
      exact ih w d ht hd hopsr hok
    · simp only [accepted, if_neg hno] at hok ⊢
      obtain ⟨_, _, hrest⟩ := hok
      by_cases hctl : s.opcode ≥ 8
      · rw [if_pos hctl] at hrest
        obtain ⟨hokp, hokr⟩ := hrest
        have hop : s.opcode = 8 ∨ s.opcode = 9 ∨ s.opcode = 10 := by
          rcases hopv with h | h | h | h | h <;> first | omega | simp [h]
        have hfb : ¬ ((0x80 ||| 0 ||| s.opcode) > 255 ∨ s.payload.length ≥ 2 ^ 64) := by
          have := (fb_facts s.opcode (by rcases hop with h | h | h <;> simp [h]) 0 (by simp)).1
          have h64 : (2:Nat)^63 < 2^64 := by decide
          have := hokp.1
          omega
        have hroute : route cfg s.opcode s.compress s.payload.length = .plain := by
          unfold route; simp [hs0, Gen.C11.controlOpcode, hctl]
        have hplan : framePlan cfg s.payload s.opcode s.compress [] = (s.payload, 0) := by
          unfold framePlan; rw [hroute]
        obtain ⟨h1, h2, h3⟩ := sendFrameZ_accepted cfg w.ws s 0 s.payload [] hno ht hfb hplan
        have hsf : (sendFrame cfg w s.payload s.opcode s.compress s.maskKey).1.ws =
            (sendFrameZ cfg w.ws s.payload s.opcode s.compress s.maskKey []).1 ∧
            (sendFrame cfg w s.payload s.opcode s.compress s.maskKey).1.comp = w.comp := by
          unfold sendFrame; rw [if_neg hno]; simp only [hroute]; first | exact ⟨rfl, rfl⟩ | exact ⟨trivial, trivial⟩ | trivial
        have hw : compWire C cfg d (s :: accepted (w.ws.closing || (Gen.C11.closeLatchesInSendFrame && s.opcode == 8)) ss) =
            plainFrame cfg.useMask s ++ compWire C cfg d (accepted (w.ws.closing || (Gen.C11.closeLatchesInSendFrame && s.opcode == 8)) ss) := by
          simp [compWire, hctl]
        simp only [sendAll]
        rw [ih _ d (by rw [hsf.1]; exact h2) (by rw [hsf.2]; exact hd) hopsr (by rw [hsf.1, h3]; exact hokr),
          hsf.1, h1, h3, hw]
        simp [plainFrame]
      · rw [if_neg hctl] at hrest
        obtain ⟨hokd, hokr⟩ := hrest
        have hop : s.opcode = 1 ∨ s.opcode = 2 := hokd.1
        have h8 : (s.opcode == 8) = false := by rcases hop with h | h <;> simp [h]
        have hfb : ¬ ((0x80 ||| 0x40 ||| s.opcode) > 255 ∨
            (stripTrailing (C.D.deflate d s.payload cfg.notakeover).2).length ≥ 2 ^ 64) := by
          have := (fb_facts s.opcode (by rcases hop with h | h <;> simp [h]) 64 (by simp)).1
          have h64 : (2:Nat)^63 < 2^64 := by decide
          have := hokd.2.1
          omega
        have hroute : route cfg s.opcode s.compress s.payload.length =
            .shared cfg.compress cfg.notakeover (decide (¬ s.payload.length ≤ Gen.C11.maxSyncChunk)) := by
          unfold route
          have : ¬ s.opcode ≥ Gen.C11.controlOpcode := by simpa [Gen.C11.controlOpcode] using hctl
          simp [hs0, hcfg, this]
        have hplan : framePlan cfg s.payload s.opcode s.compress (C.D.deflate d s.payload cfg.notakeover).2 =
            (stripTrailing (C.D.deflate d s.payload cfg.notakeover).2, 0x40) := by
          unfold framePlan; rw [hroute]
        obtain ⟨h1, h2, h3⟩ := sendFrameZ_accepted cfg w.ws s 0x40 _ _ hno ht hfb hplan
        have hsf : (sendFrame cfg w s.payload s.opcode s.compress s.maskKey).1.ws =
            (sendFrameZ cfg w.ws s.payload s.opcode s.compress s.maskKey (C.D.deflate d s.payload cfg.notakeover).2).1 ∧
            (sendFrame cfg w s.payload s.opcode s.compress s.maskKey).1.comp =
              some (C.D.deflate d s.payload cfg.notakeover).1 := by
          unfold sendFrame; rw [if_neg hno]; simp only [hroute, hd]; first | exact ⟨rfl, rfl⟩ | exact ⟨trivial, trivial⟩ | trivial
        have hw : compWire C cfg d (s :: accepted (w.ws.closing || (Gen.C11.closeLatchesInSendFrame && s.opcode == 8)) ss) =
            deflFrame cfg.useMask s (stripTrailing (C.D.deflate d s.payload cfg.notakeover).2) ++
              compWire C cfg (C.D.deflate d s.payload cfg.notakeover).1
                (accepted (w.ws.closing || (Gen.C11.closeLatchesInSendFrame && s.opcode == 8)) ss) := by
          simp [compWire, hctl]
        simp only [sendAll]
        rw [ih _ _ (by rw [hsf.1]; exact h2) (by rw [hsf.2]) hopsr (by rw [hsf.1, h3]; exact hokr),
          hsf.1, h1, h3, hw]
        try simp [deflFrame]

end Aio.C11
