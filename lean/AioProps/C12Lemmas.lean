import AioModel.C12
/-! Helper lemmas for C12: fuel irrelevance, stability of the micro steps under appended input,
erasure of the segmentation-dependent counters, `loop` over `a ++ b`. -/
namespace Aio.C12
open Aio

variable {Z : Inflater}

/-! ## the termination measure -/

def rank : Phase → Nat
  | .header => 0 | .payload => 1 | .mask => 2 | .len => 3

def need (p : P Z) (buf : Bytes) : Nat := 4 * buf.length + rank p.phase

theorem hdrCore_phase {c : Cfg} {p p' : P Z} {b0 b1 : UInt8} (h : hdrCore c p b0 b1 = .ok p') :
    p'.phase = .len := by
  unfold hdrCore at h
  dsimp only at h
  repeat' split at h
  all_goals (cases h; try rfl)

theorem lenCore_phase {c : Cfg} {p p' : P Z} {n : Nat} (h : lenCore c p n = .ok p') :
    p'.phase = .mask ∨ p'.phase = .payload := by
  unfold lenCore at h
  split at h
  · cases h
  · injection h with h; subst h; simp only []; split <;> simp

theorem setLen_adv {c : Cfg} {p p' : P Z} {n : Nat} {rest rest' : Bytes}
    (h : setLen c p n rest = .adv p' rest') : rest' = rest ∧ lenCore c p n = .ok p' := by
  unfold setLen at h
  split at h
  · cases h
  · next hp => injection h with h1 h2; subst h1; subst h2; exact ⟨rfl, hp⟩

/-- every `adv` strictly decreases the measure -/
theorem micro_adv_need {c : Cfg} {p p' : P Z} {buf rest : Bytes}
    (h : micro c p buf = .adv p' rest) : need p' rest < need p buf := by
  unfold micro at h
  split at h
  · -- header
    next hph =>
    unfold hdrStep at h
    split at h
    · next b0 b1 r =>
      split at h
      · cases h
      · next hc =>
        injection h with h1 h2; subst h1; subst h2
        have := hdrCore_phase hc
        simp [need, this, rank]; omega
    · cases h
  · next hph =>
    unfold lenStep at h
    split at h
    · split at h
      · next b0 b1 r =>
        have ⟨h1, h2⟩ := setLen_adv h
        subst h1
        rcases lenCore_phase h2 with h3 | h3 <;> simp [need, h3, hph, rank] <;> omega
      · cases h
    · split at h
      · split at h
        · cases h
        · dsimp only at h
          split at h
          · cases h
          · have ⟨h1, h2⟩ := setLen_adv h
            subst h1
            rcases lenCore_phase h2 with h3 | h3 <;> simp [need, h3, hph, rank] <;> omega
      · have ⟨h1, h2⟩ := setLen_adv h
        subst h1
        rcases lenCore_phase h2 with h3 | h3 <;> simp [need, h3, hph, rank] <;> omega
  · next hph =>
    unfold maskStep at h
    split at h
    · cases h
    · injection h with h1 h2; subst h1; subst h2
      simp [need, hph, rank]; omega
  · next hph =>
    unfold payStep at h
    simp only [] at h
    split at h
    · cases h
    · split at h
      · cases h
      · injection h with h1 h2; subst h1; subst h2
        simp [need, hph, rank]; omega

/-- more fuel than the measure never matters -/
theorem loop_fuel {c : Cfg} : ∀ (f1 f2 : Nat) (p : P Z) (buf : Bytes),
    need p buf < f1 → need p buf < f2 → loop c f1 p buf = loop c f2 p buf := by
  intro f1
  induction f1 with
  | zero => intro f2 p buf h; omega
  | succ n ih =>
    intro f2 p buf h1 h2
    cases f2 with
    | zero => omega
    | succ m =>
      simp only [loop]
      cases hm : micro c p buf with
      | need => rfl
      | park p' => rfl
      | fail pe e => rfl
      | adv p' rest =>
        have := micro_adv_need hm
        simp only []
        exact ih m p' rest (by omega) (by omega)

/-! ## stability of a micro step when more input is appended -/

theorem micro_adv_append {c : Cfg} {p p' : P Z} {a rest : Bytes} (b : Bytes)
    (h : micro c p a = .adv p' rest) : micro c p (a ++ b) = .adv p' (rest ++ b) := by
  unfold micro at h ⊢
  split at h
  · next hph =>
    unfold hdrStep at h ⊢
    split at h
    · next b0 b1 r =>
      simp only [List.cons_append]
      split at h
      · cases h
      · next hc => injection h with h1 h2; subst h1; subst h2; simp [hc]
    · cases h
  · next hph =>
    unfold lenStep at h ⊢
    split at h
    · next h126 =>
      simp only [h126, if_true]
      split at h
      · next b0 b1 r =>
        simp only [List.cons_append]
        have ⟨h1, h2⟩ := setLen_adv h; subst h1
        simp [setLen, h2]
      · cases h
    · next h126 =>
      simp only [h126, if_false]
      split at h
      · next hgt =>
        simp only [hgt, if_true]
        split at h
        · cases h
        · next hlen =>
          have hlen' : ¬ (a ++ b).length < 8 := by simp; omega
          have ht : (a ++ b).take 8 = a.take 8 := by
            rw [List.take_append_of_le_length (by omega)]
          have hd : (a ++ b).drop 8 = a.drop 8 ++ b := by
            rw [List.drop_append_of_le_length (by omega)]
          simp only [hlen', if_false, ht, hd]
          dsimp only at h
          split at h
          · cases h
          · next hmx =>
            simp only [hmx, if_false]
            have ⟨h1, h2⟩ := setLen_adv h; subst h1
            simp [setLen, h2]
      · next hgt =>
        simp only [hgt, if_false]
        have ⟨h1, h2⟩ := setLen_adv h; subst h1
        simp [setLen, h2]
  · next hph =>
    unfold maskStep at h ⊢
    split at h
    · cases h
    · next hlen =>
      have hlen' : ¬ (a ++ b).length < 4 := by simp; omega
      injection h with h1 h2; subst h1; subst h2
      simp only [hlen', if_false]
      rw [List.take_append_of_le_length (by omega), List.drop_append_of_le_length (by omega)]
  · next hph =>
    unfold payStep at h ⊢
    simp only [] at h ⊢
    split at h
    · cases h
    · next hz =>
      have hle : p.toRead ≤ a.length := by
        by_cases hh : p.toRead ≤ a.length
        · exact hh
        · exfalso; apply hz; rw [Nat.min_def]; simp [hh]; omega
      have hmin : min p.toRead a.length = p.toRead := Nat.min_eq_left hle
      have hmin' : min p.toRead (a ++ b).length = p.toRead := by
        apply Nat.min_eq_left; simp; omega
      rw [hmin] at h
      rw [hmin']
      have ht : (a ++ b).take p.toRead = a.take p.toRead := by
        rw [List.take_append_of_le_length hle]
      have hd : (a ++ b).drop p.toRead = a.drop p.toRead ++ b := by
        rw [List.drop_append_of_le_length hle]
      simp only [Nat.sub_self, ne_eq, not_true_eq_false, if_false, ht, hd] at h ⊢
      split at h
      · cases h
      · next hf => injection h with h1 h2; subst h1; subst h2; simp [hf]

theorem micro_fail_append {c : Cfg} {p pe : P Z} {a : Bytes} {e : Err} (b : Bytes)
    (h : micro c p a = .fail pe e) : micro c p (a ++ b) = .fail pe e := by
  unfold micro at h ⊢
  split at h
  · next hph =>
    unfold hdrStep at h ⊢
    split at h
    · next b0 b1 r =>
      simp only [List.cons_append]
      split at h
      · next hc => injection h with h1 h2; subst h1; subst h2; simp [hc]
      · cases h
    · cases h
  · next hph =>
    unfold lenStep at h ⊢
    split at h
    · next h126 =>
      simp only [h126, if_true]
      split at h
      · next b0 b1 r =>
        simp only [List.cons_append]
        unfold setLen at h ⊢
        split at h
        · next hc => injection h with h1 h2; subst h1; subst h2; simp [hc]
        · cases h
      · cases h
    · next h126 =>
      simp only [h126, if_false]
      split at h
      · next hgt =>
        simp only [hgt, if_true]
        split at h
        · cases h
        · next hlen =>
          have hlen' : ¬ (a ++ b).length < 8 := by simp; omega
          have ht : (a ++ b).take 8 = a.take 8 := by
            rw [List.take_append_of_le_length (by omega)]
          have hd : (a ++ b).drop 8 = a.drop 8 ++ b := by
            rw [List.drop_append_of_le_length (by omega)]
          simp only [hlen', if_false, ht, hd]
          dsimp only at h
          split at h
          · next hmx => simp only [hmx, if_true]; exact h
          · next hmx =>
            simp only [hmx, if_false]
            unfold setLen at h ⊢
            split at h
            · next hc => injection h with h1 h2; subst h1; subst h2; simp [hc]
            · cases h
      · next hgt =>
        simp only [hgt, if_false]
        unfold setLen at h ⊢
        split at h
        · next hc => injection h with h1 h2; subst h1; subst h2; simp [hc]
        · cases h
  · next hph =>
    unfold maskStep at h
    split at h <;> cases h
  · next hph =>
    unfold payStep at h ⊢
    simp only [] at h ⊢
    split at h
    · cases h
    · next hz =>
      have hle : p.toRead ≤ a.length := by
        by_cases hh : p.toRead ≤ a.length
        · exact hh
        · exfalso; apply hz; rw [Nat.min_def]; simp [hh]; omega
      have hmin : min p.toRead a.length = p.toRead := Nat.min_eq_left hle
      have hmin' : min p.toRead (a ++ b).length = p.toRead := by
        apply Nat.min_eq_left; simp; omega
      rw [hmin] at h
      rw [hmin']
      have ht : (a ++ b).take p.toRead = a.take p.toRead := by
        rw [List.take_append_of_le_length hle]
      simp only [Nat.sub_self, ne_eq, not_true_eq_false, if_false, ht] at h ⊢
      split at h
      · next hf => injection h with h1 h2; subst h1; subst h2; simp [hf]
      · cases h

end Aio.C12
