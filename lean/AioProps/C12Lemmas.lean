import AioModel.C12
/-! Helper lemmas for C12: fuel irrelevance, stability of the micro steps under appended input,
erasure of the segmentation-dependent counters, `loop` over `a ++ b`. -/
namespace Aio.C12
open Aio

variable {Z : Inflater}

/-! ## the termination measure -/

def rank : Phase → Nat
  | .header => 0 | .payload => 1 | .mask => 2 | .len => 3

def need (p : K Z) (buf : Bytes) : Nat := 4 * buf.length + rank p.phase

theorem hdrCore_phase {c : Cfg} {p p' : K Z} {b0 b1 : UInt8} (h : hdrCore c p b0 b1 = .ok p') :
    p'.phase = .len := by
  unfold hdrCore at h
  dsimp only at h
  repeat' split at h
  all_goals (cases h; try rfl)

theorem lenCore_phase {c : Cfg} {p p' : K Z} {n : Nat} (h : lenCore c p n = .ok p') :
    p'.phase = .mask ∨ p'.phase = .payload := by
  unfold lenCore at h
  split at h
  · cases h
  · injection h with h; subst h; simp only []; split <;> simp

theorem setLen_adv {c : Cfg} {p p' : K Z} {n : Nat} {rest rest' : Bytes}
    (h : setLen c p n rest = .adv p' rest') : rest' = rest ∧ lenCore c p n = .ok p' := by
  unfold setLen at h
  split at h
  · cases h
  · next hp => injection h with h1 h2; subst h1; subst h2; exact ⟨rfl, hp⟩

/-- every `adv` strictly decreases the measure -/
theorem microK_adv_need {c : Cfg} {p p' : K Z} {buf rest : Bytes}
    (h : microK c p buf = .adv p' rest) : need p' rest < need p buf := by
  unfold microK at h
  split at h
  · -- header
    next hph =>
    unfold hdrStep at h
    split at h
    · next b0 b1 r =>
      split at h
      · cases h
      · next hc =>
        injection h with h1 h2; subst h1; subst h2
        have := hdrCore_phase hc
        simp [need, this, rank]; omega
    · cases h
  · next hph =>
    unfold lenStep at h
    split at h
    · split at h
      · next b0 b1 r =>
        have ⟨h1, h2⟩ := setLen_adv h
        subst h1
        rcases lenCore_phase h2 with h3 | h3 <;> simp [need, h3, hph, rank] <;> omega
      · cases h
    · split at h
      · split at h
        · cases h
        · dsimp only at h
          split at h
          · cases h
          · have ⟨h1, h2⟩ := setLen_adv h
            subst h1
            rcases lenCore_phase h2 with h3 | h3 <;> simp [need, h3, hph, rank] <;> omega
      · have ⟨h1, h2⟩ := setLen_adv h
        subst h1
        rcases lenCore_phase h2 with h3 | h3 <;> simp [need, h3, hph, rank] <;> omega
  · next hph =>
    unfold maskStep at h
    split at h
    · cases h
    · injection h with h1 h2; subst h1; subst h2
      simp [need, hph, rank]; omega
  · next hph =>
    unfold payStep at h
    simp only [] at h
    split at h
    · cases h
    · split at h
      · cases h
      · injection h with h1 h2; subst h1; subst h2
        simp [need, hph, rank]; omega

/-- the reader seen without the segmentation-dependent items -/
structure RK (Z : Inflater) where
  k : K Z
  tail : Bytes
  exc : Option Err

/-- `loop` on the segmentation-independent state -/
def loopK (c : Cfg) : Nat → K Z → Bytes → RK Z
  | 0, p, buf => { k := p, tail := buf, exc := none }
  | fuel + 1, p, buf =>
    match microK c p buf with
    | .need => { k := p, tail := buf, exc := none }
    | .park p' => { k := p', tail := [], exc := none }
    | .fail pe e => { k := pe, tail := [], exc := some e }
    | .adv p' rest => loopK c fuel p' rest

def Reader.core (r : Reader Z) : RK Z := { k := r.p.k, tail := r.tail, exc := r.exc }

theorem loop_core (c : Cfg) : ∀ (f : Nat) (p : P Z) (buf : Bytes),
    (loop c f p buf).core = loopK c f p.k buf := by
  intro f
  induction f with
  | zero => intro p buf; rfl
  | succ n ih =>
    intro p buf
    simp only [loop, loopK, micro]
    cases hm : microK c p.k buf with
    | need => rfl
    | park k' => rfl
    | fail k' e => rfl
    | adv k' rest => simp only []; rw [ih]

/-- more fuel than the measure never matters -/
theorem loop_fuel {c : Cfg} : ∀ (f1 f2 : Nat) (p : K Z) (buf : Bytes),
    need p buf < f1 → need p buf < f2 → loopK c f1 p buf = loopK c f2 p buf := by
  intro f1
  induction f1 with
  | zero => intro f2 p buf h; omega
  | succ n ih =>
    intro f2 p buf h1 h2
    cases f2 with
    | zero => omega
    | succ m =>
      simp only [loopK]
      cases hm : microK c p buf with
      | need => rfl
      | park p' => rfl
      | fail pe e => rfl
      | adv p' rest =>
        have := microK_adv_need hm
        simp only []
        exact ih m p' rest (by omega) (by omega)

/-! ## stability of a micro step when more input is appended -/

theorem microK_adv_append {c : Cfg} {p p' : K Z} {a rest : Bytes} (b : Bytes)
    (h : microK c p a = .adv p' rest) : microK c p (a ++ b) = .adv p' (rest ++ b) := by
  unfold microK at h ⊢
  split at h
  · next hph =>
    unfold hdrStep at h ⊢
    split at h
    · next b0 b1 r =>
      simp only [List.cons_append]
      split at h
      · cases h
      · next hc => injection h with h1 h2; subst h1; subst h2; simp [hc]
    · cases h
  · next hph =>
    unfold lenStep at h ⊢
    split at h
    · next h126 =>
      simp only [h126, if_true]
      split at h
      · next b0 b1 r =>
        simp only [List.cons_append]
        have ⟨h1, h2⟩ := setLen_adv h; subst h1
        simp [setLen, h2]
      · cases h
    · next h126 =>
      simp only [h126, if_false]
      split at h
      · next hgt =>
        simp only [hgt, if_true]
        split at h
        · cases h
        · next hlen =>
          have hlen' : ¬ (a ++ b).length < 8 := by simp; omega
          have ht : (a ++ b).take 8 = a.take 8 := by
            rw [List.take_append_of_le_length (by omega)]
          have hd : (a ++ b).drop 8 = a.drop 8 ++ b := by
            rw [List.drop_append_of_le_length (by omega)]
          simp only [hlen', if_false, ht, hd]
          dsimp only at h
          split at h
          · cases h
          · next hmx =>
            simp only [hmx, if_false]
            have ⟨h1, h2⟩ := setLen_adv h; subst h1
            simp [setLen, h2]
      · next hgt =>
        simp only [hgt, if_false]
        have ⟨h1, h2⟩ := setLen_adv h; subst h1
        simp [setLen, h2]
  · next hph =>
    unfold maskStep at h ⊢
    split at h
    · cases h
    · next hlen =>
      have hlen' : ¬ (a ++ b).length < 4 := by simp; omega
      injection h with h1 h2; subst h1; subst h2
      simp only [hlen', if_false]
      rw [List.take_append_of_le_length (by omega), List.drop_append_of_le_length (by omega)]
  · next hph =>
    unfold payStep at h ⊢
    simp only [] at h ⊢
    split at h
    · cases h
    · next hz =>
      have hle : p.toRead ≤ a.length := by
        by_cases hh : p.toRead ≤ a.length
        · exact hh
        · exfalso; apply hz; rw [Nat.min_def]; simp [hh]; omega
      have hmin : min p.toRead a.length = p.toRead := Nat.min_eq_left hle
      have hmin' : min p.toRead (a ++ b).length = p.toRead := by
        apply Nat.min_eq_left; simp; omega
      rw [hmin] at h
      rw [hmin']
      have ht : (a ++ b).take p.toRead = a.take p.toRead := by
        rw [List.take_append_of_le_length hle]
      have hd : (a ++ b).drop p.toRead = a.drop p.toRead ++ b := by
        rw [List.drop_append_of_le_length hle]
      simp only [Nat.sub_self, ne_eq, not_true_eq_false, if_false, ht, hd] at h ⊢
      split at h
      · cases h
      · next hf => injection h with h1 h2; subst h1; subst h2; simp [hf]

theorem microK_fail_append {c : Cfg} {p pe : K Z} {a : Bytes} {e : Err} (b : Bytes)
    (h : microK c p a = .fail pe e) : microK c p (a ++ b) = .fail pe e := by
  unfold microK at h ⊢
  split at h
  · next hph =>
    unfold hdrStep at h ⊢
    split at h
    · next b0 b1 r =>
      simp only [List.cons_append]
      split at h
      · next hc => injection h with h1 h2; subst h1; subst h2; simp [hc]
      · cases h
    · cases h
  · next hph =>
    unfold lenStep at h ⊢
    split at h
    · next h126 =>
      simp only [h126, if_true]
      split at h
      · next b0 b1 r =>
        simp only [List.cons_append]
        unfold setLen at h ⊢
        split at h
        · next hc => injection h with h1 h2; subst h1; subst h2; simp [hc]
        · cases h
      · cases h
    · next h126 =>
      simp only [h126, if_false]
      split at h
      · next hgt =>
        simp only [hgt, if_true]
        split at h
        · cases h
        · next hlen =>
          have hlen' : ¬ (a ++ b).length < 8 := by simp; omega
          have ht : (a ++ b).take 8 = a.take 8 := by
            rw [List.take_append_of_le_length (by omega)]
          have hd : (a ++ b).drop 8 = a.drop 8 ++ b := by
            rw [List.drop_append_of_le_length (by omega)]
          simp only [hlen', if_false, ht, hd]
          dsimp only at h
          split at h
          · next hmx => simp only [hmx, if_true]; exact h
          · next hmx =>
            simp only [hmx, if_false]
            unfold setLen at h ⊢
            split at h
            · next hc => injection h with h1 h2; subst h1; subst h2; simp [hc]
            · cases h
      · next hgt =>
        simp only [hgt, if_false]
        unfold setLen at h ⊢
        split at h
        · next hc => injection h with h1 h2; subst h1; subst h2; simp [hc]
        · cases h
  · next hph =>
    unfold maskStep at h
    split at h <;> cases h
  · next hph =>
    unfold payStep at h ⊢
    simp only [] at h ⊢
    split at h
    · cases h
    · next hz =>
      have hle : p.toRead ≤ a.length := by
        by_cases hh : p.toRead ≤ a.length
        · exact hh
        · exfalso; apply hz; rw [Nat.min_def]; simp [hh]; omega
      have hmin : min p.toRead a.length = p.toRead := Nat.min_eq_left hle
      have hmin' : min p.toRead (a ++ b).length = p.toRead := by
        apply Nat.min_eq_left; simp; omega
      rw [hmin] at h
      rw [hmin']
      have ht : (a ++ b).take p.toRead = a.take p.toRead := by
        rw [List.take_append_of_le_length hle]
      simp only [Nat.sub_self, ne_eq, not_true_eq_false, if_false, ht] at h ⊢
      split at h
      · next hf => injection h with h1 h2; subst h1; subst h2; simp [hf]
      · cases h

end Aio.C12

namespace Aio.C12
variable {Z : Inflater}

/-- `feed` on the segmentation-independent state -/
def feedK (c : Cfg) (r : RK Z) (d : Bytes) : RK Z :=
  if r.exc.isSome then r else loopK c (fuelFor (r.tail ++ d)) r.k (r.tail ++ d)

theorem feed_core (c : Cfg) (r : Reader Z) (d : Bytes) : (feed c r d).core = feedK c r.core d := by
  unfold feed feedK
  by_cases h : r.exc.isSome
  · simp [h, Reader.core]
  · simp only [h, Reader.core]; exact loop_core c _ _ _

/-- a parked payload chunk followed by more input = the payload block on the whole input -/
theorem microK_park_append {c : Cfg} {p p' : K Z} {a : Bytes} (b : Bytes)
    (h : microK c p a = .park p') : microK c p (a ++ b) = microK c p' b := by
  unfold microK at h
  split at h
  · unfold hdrStep at h; split at h
    · split at h <;> cases h
    · cases h
  · unfold lenStep at h
    split at h
    · split at h
      · unfold setLen at h; split at h <;> cases h
      · cases h
    · split at h
      · split at h
        · cases h
        · dsimp only at h
          split at h
          · cases h
          · unfold setLen at h; split at h <;> cases h
      · unfold setLen at h; split at h <;> cases h
  · unfold maskStep at h; split at h <;> cases h
  · next hph =>
    unfold payStep at h
    dsimp only at h
    split at h
    · next hnz =>
      injection h with h; subst h
      have hgt : a.length < p.toRead := by
        by_cases hh : a.length < p.toRead
        · exact hh
        · exfalso; apply hnz; rw [Nat.min_eq_left (by omega)]; omega
      have hmin : min p.toRead a.length = a.length := Nat.min_eq_right (by omega)
      simp only [hmin, List.take_length]
      unfold microK
      simp only [hph]
      unfold payStep
      dsimp only
      by_cases hc : p.toRead ≤ a.length + b.length
      · -- the frame completes
        have m1 : min p.toRead (a ++ b).length = p.toRead := by
          apply Nat.min_eq_left; simp; omega
        have m2 : min (p.toRead - a.length) b.length = p.toRead - a.length := by
          apply Nat.min_eq_left; omega
        have t1 : (a ++ b).take p.toRead = a ++ b.take (p.toRead - a.length) := by
          rw [List.take_append]; rw [List.take_of_length_le (by omega)]
        have d1 : (a ++ b).drop p.toRead = b.drop (p.toRead - a.length) := by
          rw [List.drop_append]; rw [List.drop_of_length_le (by omega)]; simp
        simp only [m1, m2, t1, d1, Nat.sub_self, ne_eq, not_true_eq_false, if_false, List.append_assoc, hph]
      · have m1 : min p.toRead (a ++ b).length = a.length + b.length := by
          rw [List.length_append]; apply Nat.min_eq_right; omega
        have m2 : min (p.toRead - a.length) b.length = b.length := by
          apply Nat.min_eq_right; omega
        have t1 : (a ++ b).take (a.length + b.length) = a ++ b := by
          apply List.take_of_length_le; simp
        have n1 : p.toRead - (a.length + b.length) ≠ 0 := by omega
        have n2 : p.toRead - a.length - b.length ≠ 0 := by omega
        simp only [m1, m2, t1, n1, n2, ne_eq, not_false_eq_true, if_true, List.take_length,
          List.append_assoc, Nat.sub_sub, hph]
    · split at h <;> cases h

theorem microK_park_phase {c : Cfg} {p p' : K Z} {a : Bytes}
    (h : microK c p a = .park p') : p'.phase = .payload := by
  unfold microK at h
  split at h
  · unfold hdrStep at h; split at h
    · split at h <;> cases h
    · cases h
  · unfold lenStep at h
    split at h
    · split at h
      · unfold setLen at h; split at h <;> cases h
      · cases h
    · split at h
      · split at h
        · cases h
        · dsimp only at h
          split at h
          · cases h
          · unfold setLen at h; split at h <;> cases h
      · unfold setLen at h; split at h <;> cases h
  · unfold maskStep at h; split at h <;> cases h
  · next hph =>
    unfold payStep at h
    dsimp only at h
    split at h
    · injection h with h; subst h; exact hph
    · split at h <;> cases h

theorem payload_not_need {c : Cfg} {p : K Z} {b : Bytes} (hph : p.phase = .payload) :
    microK c p b ≠ .need := by
  unfold microK
  simp only [hph]
  unfold payStep
  dsimp only
  split
  · intro h; cases h
  · split <;> (intro h; cases h)

theorem rank_le (ph : Phase) : rank ph ≤ 3 := by cases ph <;> simp [rank]

theorem loopK_succ (c : Cfg) (f : Nat) (p : K Z) (buf : Bytes) :
    loopK c (f + 1) p buf =
      match microK c p buf with
      | .need => { k := p, tail := buf, exc := none }
      | .park p' => { k := p', tail := [], exc := none }
      | .fail pe e => { k := pe, tail := [], exc := some e }
      | .adv p' rest => loopK c f p' rest := rfl

theorem fuelFor_succ (buf : Bytes) : fuelFor buf = (4 * buf.length + 7) + 1 := by
  unfold fuelFor; omega

theorem need_le_fuelFor (p : K Z) (buf : Bytes) : need p buf < fuelFor buf := by
  unfold need fuelFor; cases p.phase <;> simp [rank] <;> omega

/-- batch = incremental for the `while` loop: running on `a ++ b` is running on `a`, then feeding `b` -/
theorem loopK_append (c : Cfg) : ∀ (f : Nat) (p : K Z) (a b : Bytes), need p a < f →
    loopK c (fuelFor (a ++ b)) p (a ++ b) = feedK c (loopK c f p a) b := by
  intro f
  induction f with
  | zero => intro p a b h; omega
  | succ n ih =>
    intro p a b hf
    rw [fuelFor_succ, loopK_succ, loopK_succ]
    cases hm : microK c p a with
    | need =>
      simp only [feedK, Option.isSome_none, Bool.false_eq_true, if_false]
      rw [fuelFor_succ, loopK_succ]
    | park p' =>
      rw [microK_park_append b hm]
      simp only [feedK, Option.isSome_none, Bool.false_eq_true, if_false, List.nil_append]
      rw [fuelFor_succ, loopK_succ]
      cases hm2 : microK c p' b with
      | need => exact absurd hm2 (payload_not_need (microK_park_phase hm))
      | park q => rfl
      | fail q e => rfl
      | adv q rest =>
        simp only []
        have hq := microK_adv_need hm2
        have hr := rank_le p'.phase
        apply loop_fuel
        · unfold need at hq ⊢; simp at hq ⊢; omega
        · unfold need at hq ⊢; omega
    | fail pe e =>
      rw [microK_fail_append b hm]
      simp [feedK]
    | adv p' rest =>
      rw [microK_adv_append b hm]
      simp only []
      have hn := microK_adv_need hm
      rw [← ih p' rest b (by omega)]
      apply loop_fuel
      · have h2 := microK_adv_need (microK_adv_append b hm)
        have hr := rank_le p.phase
        unfold need at h2 ⊢; simp at h2 ⊢; omega
      · exact need_le_fuelFor p' (rest ++ b)

end Aio.C12
