import AioProps.C18Lemmas
/-!
# C18 — timeouts and cancellation are bounded and leave no residue (property theorems)

All theorems are about the model `AioModel/C18.lean`.  "For every timeline" means: for every
list of time-stamped groups of external events (peer actions, starts of the co-requests,
`Task.cancel()` of the caller at any instant, in any order, with any time stamps) — i.e.
every stall point, every cancellation point and every interleaving the model can express.
-/
namespace Aio.C18
open Aio

/-! ## the documented rounding -/

/-- `ceil` to a whole second never moves a deadline earlier and moves it by less than one second. -/
theorem ceilSec_bounds (t : Nat) : t ≤ ceilSec t ∧ ceilSec t < t + 1000 ∧ ceilSec t % 1000 = 0 := by
  unfold ceilSec; omega

/-- The deadline of the total timeout (`TimeoutHandle.start`) is `now + total` below the
threshold and the next whole second at or after `now + total` from the threshold on. -/
theorem totalDeadline_spec (thr now d : Nat) :
    (d < thr → totalDeadline thr now d = now + d) ∧
    (d ≥ thr → now + d ≤ totalDeadline thr now d ∧ totalDeadline thr now d < now + d + 1000 ∧ totalDeadline thr now d % 1000 = 0) := by
  unfold totalDeadline
  have := ceilSec_bounds (now + d)
  constructor
  · intro h; simp [Nat.not_le.mpr h]
  · intro h; simp [h]; exact this

/-- The deadline of `ceil_timeout` (connect, sock_connect) is never later than the documented
rule (`totalDeadline`: rounding from the threshold on) and never earlier than `now + delay`;
it differs only at `delay = threshold` exactly, where the code does not round. -/
theorem ctxDeadline_spec (thr now d : Nat) :
    now + d ≤ ctxDeadline thr now d ∧ ctxDeadline thr now d ≤ totalDeadline thr now d ∧
    (d ≠ thr → ctxDeadline thr now d = totalDeadline thr now d) := by
  unfold ctxDeadline totalDeadline
  have := ceilSec_bounds (now + d)
  refine ⟨?_, ?_, ?_⟩
  · split <;> omega
  · split <;> split <;> omega
  · intro h; split <;> split <;> omega

/-- `ClientTimeout.__post_init__`: the effective total is at least every more specific timeout. -/
theorem effTotal_ge (c : Cfg) (t : Nat) (h : c.effTotal = some t) :
    c.connect.getD 0 ≤ t ∧ c.sockConnect.getD 0 ≤ t ∧ c.sockRead.getD 0 ≤ t ∧ c.total.getD 0 ≤ t := by
  unfold Cfg.effTotal at h
  split at h
  · simp at h
  · rename_i t0 ht; simp at h; simp [ht]; omega

/-! ## no residue — for every timeline -/

/-- **slot_freed.** Whatever the peer, the co-requests and the caller do, once the request has
ended (normally, by any timeout, or by cancellation at any point) it holds no pool slot. -/
theorem slot_freed (cfg : Cfg) (co : Bool) (c0 : Nat) (tl : List (Nat × List Ev)) :
    (run cfg (init co c0) tl).pc.isDone = true → (run cfg (init co c0) tl).slot = .none := by
  have h := inv_run cfg tl _ (inv_init co c0)
  generalize run cfg (init co c0) tl = s at *
  obtain ⟨p1, p2, p3, p4, p5, p6, p7⟩ := h
  simp only [core] at *
  intro hd
  cases hs : s.slot
  · rfl
  · have := p1 hs; rcases this with h | h | h <;> simp [h, Pc.isDone] at hd
  · have := (p2 hs).1; rcases this with h | h | h <;> simp [h, Pc.isDone] at hd

/-- **connection_closed_not_pooled.** After the request has ended its connection is open only
if the complete response had arrived and the connection was handed back to the pool; in
particular after a timeout or cancellation in the middle of an exchange (`eof = false`) the
connection is closed, not reused. -/
theorem connection_closed_not_pooled (cfg : Cfg) (co : Bool) (c0 : Nat) (tl : List (Nat × List Ev)) :
    (run cfg (init co c0) tl).pc.isDone = true → (run cfg (init co c0) tl).tr = .open →
      (run cfg (init co c0) tl).pooled = true ∧ (run cfg (init co c0) tl).eof = true := by
  have h := inv_run cfg tl _ (inv_init co c0)
  have hs := slot_freed cfg co c0 tl
  generalize run cfg (init co c0) tl = s at *
  intro hd ho
  rcases h.p6 ho with h1 | h1
  · simp only [core] at h1; rw [hs hd] at h1; cases h1
  · exact ⟨h1.1, h1.2.1⟩

/-- **no_orphan_task.** After the request has ended, its body-writer task is not parked any
more (it finished or was cancelled), no per-waiter future of it is left on a DNS lookup and
it is not queued for a pool slot. -/
theorem no_orphan_task (cfg : Cfg) (co : Bool) (c0 : Nat) (tl : List (Nat × List Ev)) :
    (run cfg (init co c0) tl).pc.isDone = true →
      (run cfg (init co c0) tl).wr ≠ .parked ∧ (run cfg (init co c0) tl).dnsWaitR = false ∧
      Who.R ∉ (run cfg (init co c0) tl).poolQ := by
  have h := inv_run cfg tl _ (inv_init co c0)
  have hs := slot_freed cfg co c0 tl
  generalize run cfg (init co c0) tl = s at *
  obtain ⟨p1, p2, p3, p4, p5, p6, p7⟩ := h
  simp only [core] at *
  intro hd
  refine ⟨?_, ?_, ?_⟩
  · intro hw; have := p3 hw; rw [hs hd] at this; cases this
  · cases hdw : s.dnsWaitR
    · rfl
    · have := p4 hdw; simp [this, Pc.isDone] at hd
  · intro hm; have := p5 hm; simp [this, Pc.isDone] at hd

/-- **session_usable.** After the request has ended the pool admits a new request exactly when
the other holder (if any) has released: the ended request never blocks a follow-up. -/
theorem session_usable (cfg : Cfg) (co : Bool) (c0 : Nat) (tl : List (Nat × List Ev)) :
    (run cfg (init co c0) tl).pc.isDone = true →
      slotFree cfg (run cfg (init co c0) tl) = (!cfg.limit1 || !(run cfg (init co c0) tl).holder) := by
  intro hd; unfold slotFree; rw [slot_freed cfg co c0 tl hd]; simp

/-- Mid-exchange the invariant is just as strict: a slot is held only while the task is in the
phase that owns it, so a slot can never outlive its phase. -/
theorem slot_only_in_its_phase (cfg : Cfg) (co : Bool) (c0 : Nat) (tl : List (Nat × List Ev)) :
    ((run cfg (init co c0) tl).slot = .placeholder →
        (run cfg (init co c0) tl).pc = .dnsOwner ∨ (run cfg (init co c0) tl).pc = .dnsWaiter ∨
        (run cfg (init co c0) tl).pc = .connecting) ∧
    ((run cfg (init co c0) tl).slot = .proto →
        ((run cfg (init co c0) tl).pc = .headers ∨ (run cfg (init co c0) tl).pc = .think ∨
         (run cfg (init co c0) tl).pc = .body) ∧ (run cfg (init co c0) tl).respReleased = false) := by
  have h := inv_run cfg tl _ (inv_init co c0)
  exact ⟨h.p1, h.p2⟩


/-! ## bounds

Full statements (kept here at full strength; proved below in the `_partial` form):

  total_bound : ∀ cfg co tl t0 T, R started at t0 → cfg.effTotal = some T →
     let s := run cfg (init co c0) tl;  s.now ≥ totalDeadline t0 T →
     s.pc.isDone ∨ s.pc = .think          -- (think: the caller itself sleeps outside aiohttp)
  connect_bound / sock_connect_bound / sock_read_bound : likewise with `ctxDeadline t0 c`
     (pool wait, DNS, connect), `ctxDeadline a_i sc` per connect attempt `i`, and
     `last activity + sock_read` while the transport is not read-paused.

What the `_partial` theorems prove, for EVERY state of the model: when the respective timer
fires and the task is resumed, the request ends at that very instant with the respective
timeout error, wherever it was parked.  What is missing for the full statements is the
bookkeeping lemma that `advance`/`fireDue` never let the clock pass an armed deadline
(fuel-indexed loops; the timer is armed with exactly the deadline given by
`totalDeadline`/`ctxDeadline`/`now + sock_read`, see `startR`, `attemptConn`, `reschedRead`).
That part is covered by the correspondence run (time of the raise is compared in ms). -/

theorem finish_pc (s : St) (o : Outcome) : (finish s o).pc = .done o s.now := rfl

theorem attemptConn_keeps (cfg : Cfg) (s : St) :
    (attemptConn cfg s).totalT = s.totalT ∧ (attemptConn cfg s).connT = s.connT := by
  unfold attemptConn; repeat (first | exact ⟨rfl, rfl⟩ | split)

theorem createConn_keeps (cfg : Cfg) (s : St) :
    (createConn cfg s).totalT = s.totalT ∧ (createConn cfg s).connT = s.connT := by
  unfold createConn
  simp only []
  repeat (first | exact ⟨rfl, rfl⟩ | exact attemptConn_keeps cfg _ | split)

/-- **total_bound (partial: the armed deadline).** Starting the request arms the total timer
with exactly the documented deadline `totalDeadline now total'` (where `total'` is the effective
total of `ClientTimeout`), whatever phase the request stalls in first (pool wait, DNS, connect). -/
theorem total_bound_partial (cfg : Cfg) (s : St) (T : Nat) (hp : s.pc = .idle)
    (hT : cfg.effTotal = some T) (h0 : T ≠ 0) :
    (startR cfg s).totalT = some (totalDeadline cfg.thr s.now T, s.seq) := by
  unfold startR
  simp only [hp, ne_eq, not_true_eq_false, ↓reduceIte]
  have ha : (armStart cfg s).totalT = some (totalDeadline cfg.thr s.now T, s.seq) := by
    unfold armStart; simp only [hT, h0, ↓reduceIte]
    repeat (first | rfl | split)
  split
  · exact ha
  · rw [(createConn_keeps cfg _).1]; exact ha

/-- **connect_bound (partial: the armed deadline).** `BaseConnector.connect` arms its timeout with
`ctxDeadline now connect` before the pool wait, so pool wait + DNS + connect share one deadline. -/
theorem connect_bound_partial (cfg : Cfg) (s : St) (c : Nat) (hp : s.pc = .idle)
    (hc : cfg.connect = some c) (h0 : c ≠ 0) :
    ∃ q, (startR cfg s).connT = some (ctxDeadline cfg.thr s.now c, q) := by
  unfold startR
  simp only [hp, ne_eq, not_true_eq_false, ↓reduceIte]
  have ha : ∃ q, (armStart cfg s).connT = some (ctxDeadline cfg.thr s.now c, q) := by
    unfold armStart; simp only [hc, h0, ↓reduceIte]
    split
    · split <;> exact ⟨_, rfl⟩
    · exact ⟨_, rfl⟩
  split
  · exact ha
  · rw [(createConn_keeps cfg _).2]; exact ha

/-- **sock_connect_bound (partial: the armed deadline).** Every connect attempt arms its own
`ctxDeadline now sock_connect`; the request-level bound is therefore `naddr` times the
configured value (see the finding reported with this property). -/
theorem sock_connect_bound_partial (cfg : Cfg) (s : St) (c : Nat) (hc : cfg.sockConnect = some c) (h0 : c ≠ 0) :
    (attemptConn cfg s).sockT = some (ctxDeadline cfg.thr s.now c, s.seq) ∧ (attemptConn cfg s).pc = .connecting := by
  unfold attemptConn; simp [hc, h0]

/-- **sock_read_bound (partial: the armed deadline and its exception).** Every reschedule arms the
read timer `sock_read` after now, without rounding; while the consumer has paused reading
(`pauseCheck` fired) no read timer is armed at all. -/
theorem sock_read_bound_partial (cfg : Cfg) (s : St) (d : Nat) (hd : cfg.sockRead = some d) (h0 : d ≠ 0) :
    (reschedRead cfg s).readT = some (s.now + d, s.seq) ∧
    (s.buffered > Gen.C18.highWaterFactor * cfg.bufsize → s.rpaused = false →
        (pauseCheck cfg s).readT = none ∧ (pauseCheck cfg s).rpaused = true) := by
  constructor
  · unfold reschedRead; simp [hd, h0]
  · intro h1 h2; unfold pauseCheck; simp [h1, h2, dropRead]

/-- firing the total timer marks the context cancelled and requests cancellation of the task
that is inside it, at any await inside aiohttp -/
theorem fire_total (cfg : Cfg) (s : St) (hin : inTimerCtx s = true) (hc : s.tcCancelled = false) :
    (fireTimer cfg s .total).tcCancelled = true ∧ (fireTimer cfg s .total).mustCancel = true ∧
    (fireTimer cfg s .total).pc = s.pc ∧ (fireTimer cfg s .total).now = s.now := by
  cases hpc : s.pc <;> simp [inTimerCtx, hpc] at hin <;>
    simp [fireTimer, hc, inTimerCtx, hpc, taskCancel, Pc.isDone]

/-- a requested cancellation is delivered at the await where the task is parked -/
theorem resume_delivers_cancel (cfg : Cfg) (s : St) (h1 : s.pc.isDone = false) (h2 : s.pc ≠ .idle)
    (hm : s.mustCancel = true) :
    resumeR cfg s = throwAt cfg { s with mustCancel := false, wake := none } .cancelled := by
  unfold resumeR; simp [h1, h2, hm]

/-- kernel-checked runs: `total = 7.5 s` from `t0 = 3 ms` ends at 8.000 s in every stall phase
(pool, DNS, connect, send, mid-status-line, mid-body), leaving nothing behind -/
example :
    let chk := fun (cfg : Cfg) (tl : List (Nat × List Ev)) =>
      let s := observe cfg (run cfg (init false) tl)
      decide (s.pc = .done .timeout 8000) && decide (s.slot = .none) && decide (s.tr ≠ .open) && decide (s.wr ≠ .parked)
    chk { total := some 7500, limit1 := true } [(0, [.startH]), (3, [.startR])] = true ∧
    chk { total := some 7500, useDns := true } [(3, [.startR])] = true ∧
    chk { total := some 7500 } [(3, [.startR])] = true ∧
    chk { total := some 7500, wstall := true } [(3, [.startR]), (10, [.connDone 0])] = true ∧
    chk { total := some 7500 } [(3, [.startR]), (10, [.connDone 0]), (20, [.bytes ⟨9, false, 0, false, false, false⟩])] = true ∧
    chk { total := some 7500 } [(3, [.startR]), (10, [.connDone 0]), (20, [.bytes ⟨40, true, 3, false, false, false⟩])] = true := by
  decide +kernel

/-- kernel-checked runs for the three seeded defects' scenarios (the universally quantified
statements are `no_orphan_task`, `slot_freed`, `connection_closed_not_pooled` above — `Ev.cancel`
and `Ev.peerEof` are ordinary timeline events, `closeDelim` an ordinary configuration):
(1) upload stalled in `drain()` (writer parked), caller cancelled while awaiting headers: the
    writer is cancelled, nothing is left;
(2) close-delimited body, only `total` configured, peer stalls mid-body with the socket open:
    `TimeoutError` at the deadline, connection closed, slot freed;
(3) close-delimited body completed by the peer's close: ok, connection closed (never pooled). -/
example :
    let s1 := observe { wstall := true } (run { wstall := true } (init false)
      [(3, [.startR]), (13, [.connDone 0]), (777, [.cancel])])
    let c2 : Cfg := { total := some 1500, closeDelim := true }
    let s2 := observe c2 (run c2 (init false)
      [(1003, [.startR]), (1093, [.connDone 0]), (1183, [.bytes ⟨40, true, 10, false, false, false⟩])])
    let c3 : Cfg := { closeDelim := true }
    let s3 := observe c3 (run c3 (init false)
      [(3, [.startR]), (13, [.connDone 0]), (20, [.bytes ⟨40, true, 10, false, false, false⟩]), (30, [.peerEof])])
    (s1.pc = .done .cancelled 777 ∧ s1.wr = .cancelled ∧ s1.slot = .none ∧ s1.tr = .closed) ∧
    (s2.pc = .done .timeout 2503 ∧ s2.slot = .none ∧ s2.tr = .closed ∧ s2.pooled = false) ∧
    (s3.pc = .done .ok 30 ∧ s3.slot = .none ∧ s3.tr = .closed ∧ s3.pooled = false) := by
  decide +kernel

/-- kernel-checked: https, `sock_connect = 2.5 s`, the peer accepts TCP at 613 ms and stalls the TLS
handshake: `ConnectionTimeoutError` at 2503 ms (the handshake is inside the same sock_connect
window as the TCP connect), slot freed, socket closed; with the handshake completing at 700 ms the
request proceeds -/
example :
    let c : Cfg := { sockConnect := some 2500, https := true }
    let s := observe c (run c (init false) [(3, [.startR]), (613, [.connDone 0])])
    let s' := run c (init false) [(3, [.startR]), (613, [.connDone 0]), (700, [.tlsDone 0])]
    s.pc = .done .connTimeout 2503 ∧ s.slot = .none ∧ s.closedSocks = 1 ∧ s'.pc = .headers ∧ s'.slot = .proto := by
  decide +kernel

/-- **interim responses (K4).** In sources with the fix (`interimKeepsTimerWhenSent`), a 1xx interim
response that arrives after the request was sent completely leaves the read timer exactly as the
arrival of its bytes re-armed it — the wait for the final head stays bounded by sock_read; while the
request body is still outstanding (`reqSent = false`, e.g. `100 Continue` before a long upload) the
timer is dropped in every source, so a slow upload cannot time out spuriously. -/
theorem interim_timer (cfg : Cfg) (s : St) (hw : ¬ (s.wait100 = true ∧ s.wr = .parked)) :
    (Gen.C18.interimKeepsTimerWhenSent = true → s.reqSent = true → (interimStep cfg s).readT = s.readT) ∧
    (s.reqSent = false → (interimStep cfg s).readT = none) := by
  unfold interimStep
  constructor
  · intro h1 h2; simp [h1, h2, hw]
  · intro h2; simp [h2, dropRead]; split <;> simp_all

/-- after `100 Continue` with a stalled upload nothing arms the read timer until the upload resumes -/
theorem continue_released_no_timer (cfg : Cfg) (s : St) (hs : s.reqSent = false) (hw : s.wait100 = true)
    (hp : s.wr = .parked) (hst : cfg.wstall = true) :
    (interimStep cfg s).readT = none ∧ (interimStep cfg s).wait100 = false ∧ (interimStep cfg s).wr = .parked := by
  unfold interimStep; simp [hs, hw, hp, hst, dropRead]

/-- kernel-checked: overlapping phases with the peer stalled in both directions — the upload is parked
in `drain()`, head and 6 body bytes arrive — (1) the caller leaves `async with` after its first chunk:
ok at once, the writer task is cancelled, connection closed (body unread), slot freed;
(2) the caller keeps reading and `total = 2 s` expires: `TimeoutError` at 2003 ms, same cleanup. -/
example :
    let c1 : Cfg := { wstall := true, early := true }
    let s1 := observe c1 (run c1 (init false)
      [(3, [.startR]), (13, [.connDone 0]), (103, [.bytes ⟨45, true, 6, false, false, false⟩])])
    let c2 : Cfg := { wstall := true, total := some 2000 }
    let s2 := observe c2 (run c2 (init false)
      [(3, [.startR]), (13, [.connDone 0]), (103, [.bytes ⟨45, true, 6, false, false, false⟩])])
    (s1.pc = .done .ok 103 ∧ s1.wr = .cancelled ∧ s1.slot = .none ∧ s1.tr = .closed ∧ s1.pooled = false) ∧
    (s2.pc = .done .timeout 2003 ∧ s2.wr = .cancelled ∧ s2.slot = .none ∧ s2.tr = .closed) := by
  decide +kernel

/-- **redirect_keeps_total.** Following a redirect (release of the 3xx response's connection, new
`connect()` for the next hop) leaves the total timer exactly as it was armed at the start of the
request: `total` spans all hops, whereas the connect window is armed afresh (`armConn`). -/
theorem redirect_keeps_total (cfg : Cfg) (s : St) : (redirectStep cfg s).totalT = s.totalT := by
  have hr : ∀ u : St, (releaseWaiter cfg u).totalT = u.totalT := by
    intro u; unfold releaseWaiter; repeat (first | rfl | split)
  have ha : ∀ u : St, (armConn cfg u).totalT = u.totalT := by
    intro u; unfold armConn; repeat (first | rfl | split)
  unfold redirectStep
  simp only []
  split
  · simp only [ha, hr]; rfl
  · rw [(createConn_keeps cfg _).1, ha, hr]; rfl

/-! ## others are unaffected -//-! ## others are unaffected -/

/-- what R's own transitions may do to the co-request and the shared lookup: nothing, or
let the co-request complete -/
def CoRel (s s' : St) : Prop :=
  s'.lookup = s.lookup ∧ s'.dnsWaitC = s.dnsWaitC ∧ s'.cached = s.cached ∧ (s'.cpc = s.cpc ∨ s'.cpc = .ok)

theorem CoRel.refl (s : St) : CoRel s s := ⟨rfl, rfl, rfl, Or.inl rfl⟩
theorem CoRel.trans {a b c : St} (h1 : CoRel a b) (h2 : CoRel b c) : CoRel a c := by
  obtain ⟨a1, a2, a3, a4⟩ := h1; obtain ⟨b1, b2, b3, b4⟩ := h2
  refine ⟨b1.trans a1, b2.trans a2, b3.trans a3, ?_⟩
  rcases b4 with h | h
  · rw [h]; exact a4
  · exact Or.inr h

macro "corel" : tactic =>
  `(tactic| repeat (first | exact ⟨rfl, rfl, rfl, Or.inl rfl⟩ | exact ⟨rfl, rfl, rfl, Or.inr rfl⟩ | split))

theorem corel_releaseWaiter (cfg : Cfg) (s : St) : CoRel s (releaseWaiter cfg s) := by
  unfold releaseWaiter; corel
theorem corel_uncancel (s : St) : CoRel s (uncancel s) := by unfold uncancel; corel
theorem corel_tcExit (s : St) (e : Exc) : CoRel s (tcExit s e).1 := by
  unfold tcExit; split
  · simp only []; split <;> exact corel_uncancel s
  · exact CoRel.refl s
theorem corel_ctxExitCore (st : CtxSt) (b : Nat) (s : St) (e : Exc) : CoRel s (ctxExitCore st b s e).1 := by
  unfold ctxExitCore; split
  · simp only []; split <;> exact corel_uncancel s
  · exact CoRel.refl s
theorem corel_connExit (s : St) (e : Exc) : CoRel s (connExit s e).1 := by
  have := corel_ctxExitCore s.connCtx s.connBase s e; unfold connExit; exact this
theorem corel_sockExit (s : St) (e : Exc) : CoRel s (sockExit s e).1 := by
  have := corel_ctxExitCore s.sockCtx s.sockBase s e; unfold sockExit; exact this
theorem corel_finish (s : St) (o : Outcome) : CoRel s (finish s o) := ⟨rfl, rfl, rfl, Or.inl rfl⟩
theorem corel_attemptConn (cfg : Cfg) (s : St) : CoRel s (attemptConn cfg s) := by
  unfold attemptConn; corel
theorem corel_closeConn (cfg : Cfg) (s : St) : CoRel s (closeConn cfg s) := by
  unfold closeConn; split
  · exact CoRel.refl s
  · exact CoRel.trans ⟨rfl, rfl, rfl, Or.inl rfl⟩ (corel_releaseWaiter cfg _)
theorem corel_releaseConn (cfg : Cfg) (s : St) : CoRel s (releaseConn cfg s) := by
  unfold releaseConn; split
  · exact CoRel.refl s
  · split
    · exact corel_closeConn cfg s
    · exact CoRel.trans ⟨rfl, rfl, rfl, Or.inl rfl⟩ (corel_releaseWaiter cfg _)
theorem corel_releasePlaceholder (cfg : Cfg) (s : St) : CoRel s (releasePlaceholder cfg s) := by
  unfold releasePlaceholder
  exact CoRel.trans ⟨rfl, rfl, rfl, Or.inl rfl⟩ (corel_releaseWaiter cfg _)
theorem corel_connPhaseExit (s : St) (e : Exc) : CoRel s (connPhaseExit s e) := by
  unfold connPhaseExit
  exact CoRel.trans (corel_connExit s e) (CoRel.trans (corel_tcExit _ _) (corel_finish _ _))

/-- **others_unaffected (single failure, any await).** When a timeout error or a cancellation
is raised at ANY await of the request (pool wait, DNS as owner or as waiter, connecting,
awaiting headers, think time, reading the body) the cleanup leaves the shared DNS lookup
running, leaves the co-request's per-waiter future registered, keeps the DNS cache, and the
co-request is neither failed nor cancelled (at most it is woken and completes). -/
theorem others_unaffected_step (cfg : Cfg) (s : St) (e : Exc) : CoRel s (throwAt cfg s e) := by
  unfold throwAt
  split
  · simp only []
    split
    · exact CoRel.trans (CoRel.trans (b := { s with poolQ := s.poolQ.filter (· ≠ .R), rWoken := false })
        ⟨rfl, rfl, rfl, Or.inl rfl⟩ (corel_releaseWaiter cfg _)) (corel_connPhaseExit _ e)
    · exact CoRel.trans (b := { s with poolQ := s.poolQ.filter (· ≠ .R) }) ⟨rfl, rfl, rfl, Or.inl rfl⟩ (corel_connPhaseExit _ e)
  · exact CoRel.trans (CoRel.trans (b := { s with dnsWaitR := false }) ⟨rfl, rfl, rfl, Or.inl rfl⟩ (corel_releasePlaceholder cfg _)) (corel_connPhaseExit _ e)
  · exact CoRel.trans (CoRel.trans (b := { s with dnsWaitR := false }) ⟨rfl, rfl, rfl, Or.inl rfl⟩ (corel_releasePlaceholder cfg _)) (corel_connPhaseExit _ e)
  · simp only []
    have h1 : CoRel s (sockExit { s with closedSocks := s.closedSocks + 1 } e).1 :=
      CoRel.trans ⟨rfl, rfl, rfl, Or.inl rfl⟩ (corel_sockExit _ e)
    split
    · exact CoRel.trans h1 (CoRel.trans ⟨rfl, rfl, rfl, Or.inl rfl⟩ (corel_attemptConn cfg _))
    · exact CoRel.trans h1 (CoRel.trans (corel_releasePlaceholder cfg _) (corel_connPhaseExit _ _))
  · simp only []
    exact CoRel.trans (corel_tcExit s e) (CoRel.trans (corel_closeConn cfg _)
      (CoRel.trans (corel_tcExit _ _) (corel_finish _ _)))
  · simp only []
    exact CoRel.trans (corel_tcExit s e) (CoRel.trans (corel_closeConn cfg _) (corel_finish _ _))
  · exact CoRel.trans (corel_releaseConn cfg s) (corel_finish _ _)
  · exact CoRel.refl s

/- Full statement (not proved as a theorem over timelines):
   `∀ cfg co tl, let s := run cfg (init co c0) tl; s.cpc ≠ .failed ∧ s.cpc ≠ .cancelled ∧
      (quiescent s → slotFree cfg s → Who.C ∉ s.poolQ)`.
   The single-transition form above is what is proved; the last conjunct was FALSE before the
   repository's fix "a woken pool waiter that is cancelled before it runs passes the wake-up on"
   (finding F8) — the model follows the fixed code, see the run below. -/

/-- The F8 scenario as a kernel-checked run of the model: limit 1, holder H, R and C queued;
H releases (R is woken), R is cancelled before it runs: R ends cancelled and hands the
wake-up on, so C is served. -/
theorem pool_cowaiter_wakeup_passed_on :
    let s := observe { limit1 := true } (run { limit1 := true } (init true)
      [(0, [.startH]), (10, [.startR]), (11, [.startC]), (500, [.holderRelease, .cancelLate])])
    s.pc = .done .cancelled 500 ∧ s.slot = .none ∧ s.holder = false ∧ s.poolQ = [] ∧ s.cpc = .ok := by
  decide +kernel

/-- The same instant with the cancellation delivered BEFORE the holder's task runs: the waiter
future is already cancelled, `_release_waiter` skips it and C is served. -/
example :
    let s := observe { limit1 := true } (run { limit1 := true } (init true)
      [(0, [.startH]), (10, [.startR]), (11, [.startC]), (500, [.holderRelease, .cancel])])
    s.pc = .done .cancelled 500 ∧ s.poolQ = [] ∧ s.cpc = .ok := by
  decide +kernel

/-- Shared lookup: R owns the lookup, C waits on it, R times out (total = 2 s) while the
resolver stalls; the lookup survives and C completes when the answer arrives at 3 s. -/
example :
    let cfg : Cfg := { total := some 2000, useDns := true }
    let s := observe cfg (run cfg (init true) [(3, [.startR]), (4, [.startC]), (3001, [.dnsAnswer])])
    s.pc = .done .timeout 2003 ∧ s.cpc = .ok ∧ s.slot = .none ∧ s.dnsWaitR = false := by
  decide +kernel

end Aio.C18
