import AioModel.C15
import AioModel.C15Static
/-!
# C15 — helper lemmas (digits / range parsing, slice arithmetic, send loop)
-/
namespace Aio.C15
open Aio

/-! ## digits -/

theorem spanDigits_append (s : Str) : (spanDigits s).1 ++ (spanDigits s).2 = s := by
  induction s with
  | nil => simp [spanDigits]
  | cons c t ih =>
    unfold spanDigits
    split <;> simp [ih]

theorem spanDigits_allDigits (s : Str) : allDigits (spanDigits s).1 = true := by
  induction s with
  | nil => simp [spanDigits, allDigits]
  | cons c t ih =>
    unfold spanDigits
    split
    · next h => simp [allDigits] at ih ⊢; exact ⟨h, ih⟩
    · simp [allDigits]

theorem spanDigits_rest_head (s : Str) (c : Nat) (r : Str) (h : (spanDigits s).2 = c :: r) :
    isDig c = false := by
  induction s with
  | nil => simp [spanDigits] at h
  | cons a t ih =>
    unfold spanDigits at h
    split at h
    · exact ih h
    · next hd => simp at h; rw [← h.1]; simpa using hd

/-- a digit string followed by a non-digit (or nothing) is split exactly there -/
theorem spanDigits_of_allDigits (a r : Str) (ha : allDigits a = true)
    (hr : ∀ c t, r = c :: t → isDig c = false) : spanDigits (a ++ r) = (a, r) := by
  induction a with
  | nil =>
    cases r with
    | nil => simp [spanDigits]
    | cons c t => simp [spanDigits, hr c t rfl]
  | cons x xs ih =>
    simp [allDigits] at ha
    have := ih (by simpa [allDigits] using ha.2)
    simp [spanDigits, ha.1, this]

theorem isDig_ne_dash (c : Nat) (h : isDig c = true) : c ≠ 45 := by
  simp [isDig] at h; omega

theorem takeWhile_digits (a r : Str) (ha : allDigits a = true) :
    (a ++ r).takeWhile (· != 45) = a ++ r.takeWhile (· != 45) := by
  induction a with
  | nil => simp
  | cons x xs ih =>
    simp [allDigits] at ha
    have hx : (x != 45) = true := by simpa using isDig_ne_dash x ha.1
    simp [List.takeWhile, hx, ih (by simpa [allDigits] using ha.2)]

end Aio.C15

namespace Aio.C15
open Aio

/-- the Python `slice` that `http_range` returns for a well-formed single range -/
def sliceOf : RangeSpec → Slice
  | .fromTo f l => (some (f : Int), some ((l : Int) + 1))
  | .fromOn f => (some (f : Int), none)
  | .suffix n => (some (-(n : Int)), none)

theorem allDigits_append (a b : Str) : allDigits (a ++ b) = (allDigits a && allDigits b) := by
  simp [allDigits]

theorem allDigits_of_span_nil (r : Str) (h : (spanDigits r).2 = []) : allDigits r = true := by
  have := spanDigits_append r
  rw [h] at this
  simp at this
  rw [← this]; exact spanDigits_allDigits r

theorem optInt_of_short (d : Str) (h : d.length ≤ Gen.C15.maxStrDigits) :
    optInt d = some (if d = [] then none else some (decVal d)) := by
  unfold optInt pyInt
  split
  · rfl
  · have : ¬ d.length > Gen.C15.maxStrDigits := by omega
    simp [this]

/-- `matchRange` on `"bytes=" ++ body` in terms of the reference decomposition -/
theorem matchRange_cases (body : Str) (hnl : body.getLast? ≠ some 10) :
    (∃ a b, body = a ++ 45 :: b ∧ allDigits a = true ∧ allDigits b = true ∧
        matchRange (bytesEq ++ body) = some (a, b) ∧
        body.takeWhile (· != 45) = a ∧ body.drop a.length = 45 :: b) ∨
    (matchRange (bytesEq ++ body) = none ∧
      ∀ b, body.drop (body.takeWhile (· != 45)).length = 45 :: b →
        (allDigits (body.takeWhile (· != 45)) && allDigits b) = false) := by
  have h6 : (bytesEq ++ body).take 6 = bytesEq := by simp [bytesEq]
  have hd6 : (bytesEq ++ body).drop 6 = body := by simp [bytesEq]
  have hb := spanDigits_append body
  have hd1 := spanDigits_allDigits body
  have hmr : matchRange (bytesEq ++ body) = matchTail (spanDigits body).1 (spanDigits body).2 := by
    simp [matchRange, h6, hd6]
  generalize (spanDigits body).1 = d1 at hb hd1 hmr
  cases hr1 : (spanDigits body).2 with
  | nil =>
    right
    rw [hr1] at hb hmr; simp at hb
    subst hb
    refine ⟨by rw [hmr]; rfl, ?_⟩
    intro b hdrop
    have htw : d1.takeWhile (· != 45) = d1 := by
      have := takeWhile_digits d1 [] hd1
      simpa using this
    rw [htw] at hdrop; simp at hdrop
  | cons c r2 =>
    have hc := spanDigits_rest_head body c r2 hr1
    rw [hr1] at hb hmr
    by_cases hc45 : c = 45
    · subst hc45
      have htw : body.takeWhile (· != 45) = d1 := by
        rw [← hb, takeWhile_digits _ _ hd1]; simp
      have hdrop : body.drop d1.length = 45 :: r2 := by
        rw [← hb]; simp
      have hb2 := spanDigits_append r2
      cases hr3 : (spanDigits r2).2 with
      | nil =>
        left
        have hr2 : allDigits r2 = true := allDigits_of_span_nil r2 hr3
        have hd2 : (spanDigits r2).1 = r2 := by rw [hr3] at hb2; simpa using hb2
        refine ⟨d1, r2, hb.symm, hd1, hr2, ?_, htw, hdrop⟩
        rw [hmr]; simp [matchTail, hr3, hd2]
      | cons c3 t3 =>
        have hc3 := spanDigits_rest_head r2 c3 t3 hr3
        rw [hr3] at hb2
        by_cases hnl2 : c3 = 10 ∧ t3 = []
        · exfalso
          obtain ⟨rfl, rfl⟩ := hnl2
          apply hnl
          rw [← hb, ← hb2]
          rw [show d1 ++ 45 :: ((spanDigits r2).1 ++ [10]) = (d1 ++ 45 :: (spanDigits r2).1) ++ [10] by simp]
          exact List.getLast?_concat ..
        · right
          refine ⟨?_, ?_⟩
          · rw [hmr]; simp [matchTail, hr3]
            intro h1 h2; exact hnl2 ⟨h1, h2⟩
          · intro b hb'
            rw [htw, hdrop] at hb'
            simp at hb'
            subst hb'
            rw [htw, ← hb2, allDigits_append]
            simp [allDigits, hc3]
    · right
      refine ⟨?_, ?_⟩
      · rw [hmr]
        unfold matchTail
        split
        · next r2' heq => simp at heq; exact absurd heq.1 hc45
        · rfl
      · intro b _
        have hcne : (c != 45) = true := by simpa using hc45
        have htw : body.takeWhile (· != 45) = d1 ++ c :: r2.takeWhile (· != 45) := by
          rw [← hb, takeWhile_digits _ _ hd1]
          simp [List.takeWhile, hcne]
        rw [htw, allDigits_append]
        simp [allDigits, hc]

end Aio.C15

namespace Aio.C15
open Aio

theorem httpRange_prefixed (body : Str) (hnl : body.getLast? ≠ some 10)
    (hlen : body.length ≤ Gen.C15.maxStrDigits) :
    httpRange (some (bytesEq ++ body)) =
      (match parseSpec (bytesEq ++ body) with
       | some sp => .ok (sliceOf sp)
       | none => .error ()) := by
  have h6 : (bytesEq ++ body).take 6 = bytesEq := by simp [bytesEq]
  have hd6 : (bytesEq ++ body).drop 6 = body := by simp [bytesEq]
  have hps : parseSpec (bytesEq ++ body) =
      specOf (body.takeWhile (· != 45)) (body.drop (body.takeWhile (· != 45)).length) := by
    simp [parseSpec, h6, hd6]
  rcases matchRange_cases body hnl with ⟨a, b, hbody, ha, hb, hm, htw, hdrop⟩ | ⟨hm, hnone⟩
  · have hla : a.length ≤ Gen.C15.maxStrDigits := by
      have : body.length = a.length + (b.length + 1) := by rw [hbody]; simp
      omega
    have hlb : b.length ≤ Gen.C15.maxStrDigits := by
      have : body.length = a.length + (b.length + 1) := by rw [hbody]; simp
      omega
    rw [hps, htw, hdrop]
    simp only [httpRange, hm, optInt_of_short a hla, optInt_of_short b hlb, specOf, ha, hb, Bool.and_self, if_true]
    by_cases hae : a = [] <;> by_cases hbe : b = []
    · simp [hae, hbe]
    · simp [hae, hbe, sliceOf]
    · simp [hae, hbe, sliceOf]
    · simp [hae, hbe, sliceOf]
      by_cases hle : decVal a ≤ decVal b
      · have : ¬ decVal a ≥ decVal b + 1 := by omega
        simp [hle, this, sliceOf]
      · have : decVal a ≥ decVal b + 1 := by omega
        simp [hle, this]
  · simp only [httpRange, hm]
    rw [hps]
    cases hdr : body.drop (body.takeWhile (· != 45)).length with
    | nil => simp [specOf]
    | cons c t =>
      by_cases hc : c = 45
      · subst hc
        have := hnone t hdr
        simp [specOf, this]
      · have : specOf (body.takeWhile (· != 45)) (c :: t) = none := by
          unfold specOf
          split
          · next b heq => simp at heq; exact absurd heq.1 hc
          · rfl
        simp [this]

/-- **`http_range` computes the RFC 9110 reading.**  For every header value without a
trailing newline whose numbers `int()` can read, `BaseRequest.http_range` yields exactly the
slice of the single byte range the reference grammar parses, and `ValueError` for everything
the grammar rejects. -/
theorem httpRange_eq_spec (s : Str) (hnl : s.getLast? ≠ some 10)
    (hlen : s.length ≤ Gen.C15.maxStrDigits) :
    httpRange (some s) =
      (match parseSpec s with
       | some sp => .ok (sliceOf sp)
       | none => .error ()) := by
  by_cases h6 : s.take 6 = bytesEq
  · have hs : s = bytesEq ++ s.drop 6 := by
      conv => lhs; rw [← List.take_append_drop 6 s]
      rw [h6]
    have hnl' : (s.drop 6).getLast? ≠ some 10 := by
      intro h
      apply hnl
      rw [hs, List.getLast?_append]
      simp [h]
    have hlen' : (s.drop 6).length ≤ Gen.C15.maxStrDigits := by
      simp; omega
    rw [hs]
    exact httpRange_prefixed _ hnl' hlen'
  · simp [httpRange, matchRange, parseSpec, h6]

end Aio.C15

namespace Aio.C15
open Aio

theorem specOf_fromTo_le (a r : Str) (f l : Nat) (h : specOf a r = some (.fromTo f l)) : f ≤ l := by
  unfold specOf at h
  split at h
  · split at h
    · split at h
      · split at h <;> simp at h
      · split at h
        · simp at h
        · split at h
          · next hle => simp at h; obtain ⟨rfl, rfl⟩ := h; exact hle
          · simp at h
    · simp at h
  · simp at h

theorem parseSpec_fromTo_le (s : Str) (f l : Nat) (h : parseSpec s = some (.fromTo f l)) : f ≤ l := by
  unfold parseSpec at h
  split at h
  · exact specOf_fromTo_le _ _ f l h
  · simp at h

end Aio.C15

namespace Aio.C15
open Aio

/-- the 416 plan: `Content-Range: bytes */size`, nothing sent -/
def unsatPlan (size : Nat) : Plan :=
  { status := 416, contentRange := .unsat size, contentLength := none, sendBody := false, offset := 0, count := 0 }

/-- the 206 plan for the inclusive byte positions `first..last` -/
def partialPlan (isHead : Bool) (size first last : Nat) : Plan :=
  { status := 206, contentRange := .range first last size,
    contentLength := some ((last - first + 1 : Nat) : Int), sendBody := !isHead,
    offset := first, count := ((last - first + 1 : Nat) : Int) }

/-- the 200 plan: the whole file -/
def fullPlan (isHead : Bool) (size : Nat) : Plan :=
  { status := 200, contentRange := .absent, contentLength := some size,
    sendBody := !(size == 0 || isHead), offset := 0, count := size }

theorem prepare_fromTo (isHead : Bool) (rng : Option Str) (size f l : Nat) (hfl : f ≤ l)
    (h : httpRange rng = .ok (some (f : Int), some ((l : Int) + 1))) :
    prepareOpenFile isHead true rng size =
      if f < size then partialPlan isHead size f (min l (size - 1)) else unsatPlan size := by
  simp only [prepareOpenFile, h, Gen.C15.stPartial, Gen.C15.stRangeNotSatisfiable, partialPlan, unsatPlan]
  by_cases hlt : f < size
  · have h2 : ¬ ((f : Int) ≥ (size : Int)) := by omega
    simp [hlt, h2]
    refine ⟨?_, ?_, ?_, ?_⟩ <;> omega
  · have h2 : ((f : Int) ≥ (size : Int)) := by omega
    simp [hlt, h2]

theorem prepare_fromOn (isHead : Bool) (rng : Option Str) (size f : Nat)
    (h : httpRange rng = .ok (some (f : Int), none)) :
    prepareOpenFile isHead true rng size =
      if f < size then partialPlan isHead size f (size - 1) else unsatPlan size := by
  simp only [prepareOpenFile, h, Gen.C15.stPartial, Gen.C15.stRangeNotSatisfiable, partialPlan, unsatPlan]
  by_cases hlt : f < size
  · have h1 : ¬ ((f : Int) < 0) := by omega
    have h2 : ¬ ((f : Int) ≥ (size : Int)) := by omega
    simp [hlt, h1, h2]
    refine ⟨?_, ?_, ?_, ?_⟩ <;> omega
  · have h1 : ¬ ((f : Int) < 0) := by omega
    have h2 : ((f : Int) ≥ (size : Int)) := by omega
    simp [hlt, h1, h2]

theorem prepare_suffix (isHead : Bool) (rng : Option Str) (size n : Nat) (hn : 0 < n)
    (h : httpRange rng = .ok (some (-(n : Int)), none)) :
    prepareOpenFile isHead true rng size =
      if size = 0 then unsatPlan size else partialPlan isHead size (size - min n size) (size - 1) := by
  simp only [prepareOpenFile, h, Gen.C15.stPartial, Gen.C15.stRangeNotSatisfiable, partialPlan, unsatPlan]
  have h1 : (-(n : Int) < 0 ∧ (none : Option Int).isNone = true) := ⟨by omega, rfl⟩
  rw [if_pos h1]
  by_cases hs : size = 0
  · subst hs
    simp [hn]
  · by_cases hn2 : -(n : Int) + (size : Int) < 0
    · have h3 : ¬ ((0 : Int) ≥ (size : Int)) := by omega
      simp only [hn2, if_true, h3, if_false, hs]
      simp
      (repeat' constructor) <;> omega
    · have h3 : ¬ (-(n : Int) + (size : Int) ≥ (size : Int)) := by omega
      simp only [hn2, if_false, h3, hs]
      simp
      (repeat' constructor) <;> omega

/-- F15: `bytes=-0` -/
theorem prepare_suffix_zero (isHead : Bool) (rng : Option Str) (size : Nat)
    (h : httpRange rng = .ok (some (-((0 : Nat) : Int)), none)) :
    prepareOpenFile isHead true rng size =
      if size = 0 then unsatPlan size else partialPlan isHead size 0 (size - 1) := by
  simp only [prepareOpenFile, h, Gen.C15.stPartial, Gen.C15.stRangeNotSatisfiable, partialPlan, unsatPlan]
  by_cases hs : size = 0
  · subst hs; simp
  · simp [hs]
    (repeat' constructor) <;> omega

theorem prepare_stale (isHead : Bool) (rng : Option Str) (size : Nat) :
    prepareOpenFile isHead false rng size = fullPlan isHead size := by
  simp [prepareOpenFile, fullPlan]

theorem prepare_no_range (isHead iro : Bool) (size : Nat) :
    prepareOpenFile isHead iro none size = fullPlan isHead size := by
  cases iro <;> simp [prepareOpenFile, fullPlan, httpRange]

theorem prepare_error (isHead : Bool) (rng : Option Str) (size : Nat) (h : httpRange rng = .error ()) :
    prepareOpenFile isHead true rng size = unsatPlan size := by
  simp [prepareOpenFile, unsatPlan, h, Gen.C15.stRangeNotSatisfiable]

/-- every slice `http_range` can return -/
theorem httpRange_shape (rng : Option Str) (sl : Slice) (h : httpRange rng = .ok sl) :
    (rng = none ∧ sl = (none, none)) ∨
    (∃ n : Nat, sl = (some (-(n : Int)), none)) ∨
    (∃ f : Nat, sl = (some (f : Int), none)) ∨
    (∃ f l : Nat, f ≤ l ∧ sl = (some (f : Int), some ((l : Int) + 1))) := by
  cases rng with
  | none => left; simp [httpRange] at h; exact ⟨rfl, h.symm⟩
  | some s =>
    right
    simp only [httpRange] at h
    split at h
    · simp at h
    · split at h
      · split at h
        · left; simp at h; exact ⟨_, h.symm⟩
        · right; right
          split at h
          · simp at h
          · simp at h; refine ⟨_, _, ?_, h.symm⟩; omega
        · simp at h
        · right; left; simp at h; exact ⟨_, h.symm⟩
      · simp at h

end Aio.C15

namespace Aio.C15
open Aio

theorem sendLoop_take (cs : Nat) (hcs : 0 < cs) :
    ∀ (fuel : Nat) (file : Bytes) (count : Nat), count < fuel →
      sendLoop cs fuel file count = file.take count := by
  intro fuel
  induction fuel with
  | zero => intro file count h; omega
  | succ fuel ih =>
    intro file count h
    simp only [sendLoop]
    have hlen : (file.take (min cs count)).length = min (min cs count) file.length := List.length_take
    split
    · next hemp =>
      have h0 : (file.take (min cs count)).length = 0 := by
        have := List.isEmpty_iff.mp hemp
        rw [this]; rfl
      rw [hlen] at h0
      by_cases hc : count = 0
      · subst hc; simp
      · have : file.length = 0 := by omega
        have : file = [] := List.eq_nil_of_length_eq_zero this
        subst this; simp
    · split
      · next hne hle =>
        rw [hlen] at hle
        have : min cs count = count := by omega
        rw [this]
      · next hne hgt =>
        rw [hlen] at hgt
        have hk : 0 < (file.take (min cs count)).length := by
          cases hx : file.take (min cs count) with
          | nil => simp [hx] at hne
          | cons a t => simp
        rw [ih _ _ (by omega)]
        rw [hlen]
        by_cases hm : min cs count ≤ file.length
        · have : min (min cs count) file.length = min cs count := by omega
          rw [this]
          have hc : count = min cs count + (count - min cs count) := by omega
          conv => rhs; rw [hc, List.take_add]
        · have h1 : min (min cs count) file.length = file.length := by omega
          rw [h1]
          have h2 : file.take (min cs count) = file := List.take_of_length_le (by omega)
          have h3 : file.take count = file := List.take_of_length_le (by omega)
          rw [h2, h3]; simp

/-- every plan `_prepare_open_file` can produce -/
theorem prepare_cases (isHead iro : Bool) (rng : Option Str) (size : Nat) :
    prepareOpenFile isHead iro rng size = fullPlan isHead size ∨
    prepareOpenFile isHead iro rng size = unsatPlan size ∨
    ∃ first last, first ≤ last ∧ last < size ∧
      prepareOpenFile isHead iro rng size = partialPlan isHead size first last := by
  cases iro with
  | false => left; exact prepare_stale _ _ _
  | true =>
    cases hr : httpRange rng with
    | error e => cases e; right; left; exact prepare_error _ _ _ hr
    | ok sl =>
      rcases httpRange_shape rng sl hr with ⟨rfl, _⟩ | ⟨n, rfl⟩ | ⟨f, rfl⟩ | ⟨f, l, hfl, rfl⟩
      · left; exact prepare_no_range _ _ _
      · right
        by_cases hn : 0 < n
        · rw [prepare_suffix _ _ _ _ hn hr]
          by_cases hs : size = 0
          · left; simp [hs]
          · right; simp only [hs, if_false]; exact ⟨_, _, by omega, by omega, rfl⟩
        · have : n = 0 := by omega
          subst this
          rw [prepare_suffix_zero _ _ _ hr]
          by_cases hs : size = 0
          · left; simp [hs]
          · right; simp only [hs, if_false]; exact ⟨_, _, by omega, by omega, rfl⟩
      · right
        rw [prepare_fromOn _ _ _ _ hr]
        by_cases hlt : f < size
        · right; simp only [hlt, if_true]; exact ⟨_, _, by omega, by omega, rfl⟩
        · left; simp [hlt]
      · right
        rw [prepare_fromTo _ _ _ _ _ hfl hr]
        by_cases hlt : f < size
        · right; simp only [hlt, if_true]; exact ⟨_, _, by omega, by omega, rfl⟩
        · left; simp [hlt]

theorem sendBytes_partial (cs : Nat) (hcs : 0 < cs) (content : Bytes) (first last : Nat) :
    sendBytes cs content (partialPlan false content.length first last) =
      (content.drop first).take (last - first + 1) := by
  simp only [sendBytes, partialPlan]
  simp
  exact sendLoop_take cs hcs _ _ _ (by omega)

theorem sendBytes_full (cs : Nat) (hcs : 0 < cs) (content : Bytes) :
    sendBytes cs content (fullPlan false content.length) = content := by
  simp only [sendBytes, fullPlan]
  by_cases h0 : content.length = 0
  · have : content = [] := List.eq_nil_of_length_eq_zero h0
    subst this; simp
  · simp [h0]
    rw [sendLoop_take cs hcs _ _ _ (by omega)]
    simp

theorem sendBytes_head (cs : Nat) (content : Bytes) (iro : Bool) (rng : Option Str) :
    sendBytes cs content (prepareOpenFile true iro rng content.length) = [] := by
  rcases prepare_cases true iro rng content.length with h | h | ⟨f, l, _, _, h⟩ <;>
    rw [h] <;> simp [sendBytes, fullPlan, unsatPlan, partialPlan]

end Aio.C15
