import AioProps.C03
/-!
# C03 — the two-cut theorem for `HttpParser.feed_data`

`feedLoop_append`: if processing `a` alone ended without an error (and without handing bytes
back to an upgraded connection), then carrying on from the saved state with `tail ++ b` gives
the same final state, the same error, and the same observable events as processing `a ++ b`
in one go — for every state, configuration, `yarl` oracle and split.  The body parser enters
through two laws (`PayloadLaws`): a completed body stays completed when more bytes follow, and
feeding a body in two pieces delivers the same bytes as feeding it at once.  Both laws are
proved below for Content-Length and close-delimited bodies; for the chunked state machine they
are the remaining obligation, covered by the all-cuts correspondence run.
-/
namespace Aio.Http
open Aio

/-- observable tokens: data flattened to bytes, so that split deliveries compare equal -/
inductive Tok where
  | msg (m : Msg) (hp : Bool) | byte (b : UInt8) | beginChunk | endChunk | eof | perr (e : Err)

def projEv : Ev → List Tok
  | .msg m hp => [.msg m hp]
  | .data bs => bs.map .byte
  | .beginChunk => [.beginChunk]
  | .endChunk => [.endChunk]
  | .eof => [.eof]
  | .payloadErr e => [.perr e]

def proj (evs : List Ev) : List Tok := evs.flatMap projEv

@[simp] theorem proj_append (a b : List Ev) : proj (a ++ b) = proj a ++ proj b := by
  simp [proj]
@[simp] theorem proj_nil : proj [] = [] := rfl

/-- the laws of the body parser, for the body-parser states satisfying `G`; `Adm` is the side
condition on the *saved* state under which carrying on from it is the same as not having stopped
(for chunked bodies: the buffered partial line does not trip the early length check) -/
structure PayloadLaws (cfg : Cfg) (G Adm : PState → Prop) : Prop where
  complete_stable : ∀ (p : PState) (a b rest : Bytes) (ev : List Ev), G p →
    payloadFeed cfg p a = (.complete rest, ev) → payloadFeed cfg p (a ++ b) = (.complete (rest ++ b), ev)
  complete_shrinks : ∀ (p : PState) (a rest : Bytes) (ev : List Ev), G p → a ≠ [] →
    payloadFeed cfg p a = (.complete rest, ev) → rest.length < a.length
  needs_closed : ∀ (p p' : PState) (a : Bytes) (ev : List Ev), G p →
    payloadFeed cfg p a = (.needs p', ev) → G p'
  needs_split : ∀ (p p' : PState) (a b : Bytes) (ev1 : List Ev), G p →
    payloadFeed cfg p a = (.needs p', ev1) → Adm p' → b ≠ [] →
    (payloadFeed cfg p (a ++ b)).1 = (payloadFeed cfg p' b).1 ∧
    proj (payloadFeed cfg p (a ++ b)).2 = proj (ev1 ++ (payloadFeed cfg p' b).2)

/-- the current body-parser state (if any) satisfies `G` -/
def StG (G : PState → Prop) (st : St) : Prop := ∀ p, st.payload = some p → G p

/-- outcomes that agree on everything observable -/
def Equiv (o o' : FeedOut) : Prop :=
  (o.st = o'.st ∨ (o.st.failed = true ∧ o'.st.failed = true)) ∧
  proj o.evs = proj o'.evs ∧ o.err = o'.err ∧ o.rest = o'.rest

theorem Equiv.refl (o : FeedOut) : Equiv o o := ⟨Or.inl rfl, rfl, rfl, rfl⟩

/-! ### the accumulator is only appended to; enough fuel is enough -/

theorem feedLoop_acc (cfg : Cfg) (urlOk : Bool → Bytes → Bool) :
    ∀ (f : Nat) (st : St) (d : Bytes) (acc : List Ev),
      feedLoop cfg urlOk f st d acc =
        { feedLoop cfg urlOk f st d [] with evs := acc ++ (feedLoop cfg urlOk f st d []).evs } := by
  intro f
  induction f with
  | zero => intro st d acc; simp [feedLoop]
  | succ n ih =>
    intro st d acc
    simp only [feedLoop]
    split
    · simp
    · split
      · simp
      · next st' d' ev' _ =>
        split
        · rw [ih st' d' (acc ++ ev'), ih st' d' ([] ++ ev')]
          simp
        · simp

theorem feedLoop_fuel (cfg : Cfg) (urlOk : Bool → Bytes → Bool) :
    ∀ (f1 f2 : Nat) (st : St) (d : Bytes) (acc : List Ev), d.length < f1 → d.length < f2 →
      feedLoop cfg urlOk f1 st d acc = feedLoop cfg urlOk f2 st d acc := by
  intro f1
  induction f1 with
  | zero => intro f2 st d acc h; omega
  | succ n ih =>
    intro f2 st d acc h1 h2
    cases f2 with
    | zero => omega
    | succ m =>
      simp only [feedLoop]
      split
      · rfl
      · split
        · rfl
        · next st' d' ev' _ =>
          split
          · next hlt => exact ih m st' d' _ (by omega) (by omega)
          · rfl

/-! ### separators and slicing under extension -/

theorem findCRLF_bound (a : Bytes) (p : Nat) (h : findCRLF a = some p) : p + 2 ≤ a.length := by
  induction a generalizing p with
  | nil => simp [findCRLF] at h
  | cons x t ih =>
    cases t with
    | nil => simp [findCRLF] at h
    | cons y t' =>
      simp only [findCRLF] at h
      split at h
      · simp at h; subst h; simp
      · simp at h; obtain ⟨q, hq, rfl⟩ := h; have := ih q hq; simp at this ⊢; omega

theorem findByte_bound (c : UInt8) (a : Bytes) (p : Nat) (h : findByte c a = some p) : p + 1 ≤ a.length := by
  induction a generalizing p with
  | nil => simp [findByte] at h
  | cons x t ih =>
    simp only [findByte] at h
    split at h
    · simp at h; subst h; simp
    · simp at h; obtain ⟨q, hq, rfl⟩ := h; have := ih q hq; simp; omega

theorem findSep_bound (lax : Bool) (a : Bytes) (p : Nat) (h : findSep lax a = some p) :
    p + sepLen lax ≤ a.length := by
  unfold findSep at h; unfold sepLen
  cases lax
  · simpa using findCRLF_bound a p (by simpa using h)
  · simpa using findByte_bound 10 a p (by simpa using h)

theorem take_append_of_le (a b : Bytes) (n : Nat) (h : n ≤ a.length) : (a ++ b).take n = a.take n := by
  rw [List.take_append]; simp [Nat.sub_eq_zero_of_le h]

theorem drop_append_of_le (a b : Bytes) (n : Nat) (h : n ≤ a.length) : (a ++ b).drop n = a.drop n ++ b := by
  rw [List.drop_append]; simp [Nat.sub_eq_zero_of_le h]

end Aio.Http

namespace Aio.Http
open Aio

/-! ### one iteration under extension -/

theorem acceptLine_take (cfg : Cfg) (st : St) (a b : Bytes) (pos : Nat) (h : pos ≤ a.length) :
    acceptLine cfg st ((a ++ b).take pos) = acceptLine cfg st (a.take pos) := by
  rw [take_append_of_le a b pos h]

/-- **A continuing iteration is unaffected by later bytes.** If one iteration on buffer `a`
consumed something and goes round again with rest `a'`, then on `a ++ b` it does exactly the
same and goes round with `a' ++ b`. -/
theorem stepOnce_cont_append (cfg : Cfg) (urlOk : Bool → Bytes → Bool) {G Adm : PState → Prop} (hl : PayloadLaws cfg G Adm)
    (st st' : St) (a a' b : Bytes) (ev : List Ev) (hwf : StG G st)
    (h : stepOnce cfg urlOk st a = .cont st' a' ev) :
    stepOnce cfg urlOk st (a ++ b) = .cont st' (a' ++ b) ev := by
  unfold stepOnce at h ⊢
  cases hp : st.payload with
  | none =>
    simp only [hp] at h ⊢
    by_cases hu : st.upgraded = true
    · simp [hu] at h
    simp only [hu] at h ⊢
    cases hf : findSep cfg.lax a with
    | none => simp [hf] at h
    | some pos =>
      have hb := findSep_bound cfg.lax a pos hf
      have hpos : pos ≤ a.length := by omega
      have hsl : sepLen cfg.lax ≤ a.length := by omega
      simp only [hf, findSep_append_stable cfg.lax a b pos hf] at h ⊢
      by_cases h0 : (pos == 0 && st.lines.isEmpty) = true
      · simp only [h0, if_true] at h ⊢
        injection h with h1 h2 h3
        subst h1 h2 h3
        rw [drop_append_of_le a b _ hsl]
        simp
      · simp only [h0] at h ⊢
        by_cases hsc : st.shouldClose = true
        · simp [hsc] at h
        simp only [hsc] at h ⊢
        rw [acceptLine_take cfg st a b pos hpos]
        cases hal : acceptLine cfg st (a.take pos) with
        | error e => simp [hal] at h
        | ok lines =>
          simp only [hal] at h ⊢
          rw [drop_append_of_le a b _ hb]
          by_cases hle : (lines.getLast?.getD []).isEmpty = true
          · simp only [hle, if_true] at h ⊢
            cases hob : onHeaderBlock cfg urlOk st lines with
            | error e => simp [hob] at h
            | ok r =>
              obtain ⟨s1, e1, sc⟩ := r
              simp only [hob] at h ⊢
              injection h with h1 h2 h3
              subst h1 h2 h3
              rfl
          · simp only [hle] at h ⊢
            injection h with h1 h2 h3
            subst h1 h2 h3
            rfl
  | some p =>
    simp only [hp] at h ⊢
    cases hpf : payloadFeed cfg p a with
    | mk r pevs =>
      simp only [hpf] at h
      cases r with
      | needs p' => simp at h
      | err e rr =>
        simp at h
        split at h <;> cases h
      | complete rest =>
        simp at h
        obtain ⟨h1, h2, h3⟩ := h
        subst h1 h2 h3
        rw [hl.complete_stable p a b rest pevs (hwf p hp) hpf]

end Aio.Http

namespace Aio.Http
open Aio

theorem onHeaderBlock_tail (cfg : Cfg) (urlOk : Bool → Bytes → Bool) (st st' : St) (lines : List Bytes)
    (evs : List Ev) (sc : Bool) (h : onHeaderBlock cfg urlOk st lines = .ok (st', evs, sc)) :
    st'.tail = st.tail := by
  unfold onHeaderBlock at h
  simp only [] at h
  repeat' (split at h)
  all_goals (first | (simp only [Except.ok.injEq, Prod.mk.injEq] at h; obtain ⟨h1, _, _⟩ := h; subst h1; rfl) | (cases h; rfl) | cases h)

end Aio.Http

namespace Aio.Http
open Aio

theorem st_eta (st : St) (h : st.tail = []) : { st with tail := [] } = st := by
  cases st; simp_all

end Aio.Http

namespace Aio.Http
open Aio

theorem sepLen_pos (lax : Bool) : 1 ≤ sepLen lax := by unfold sepLen; split <;> omega

/-- what a continuing iteration preserves: the loop invariant (`tail = []`, well-formed body
state) and progress (the rest is shorter) -/
theorem stepOnce_cont_inv (cfg : Cfg) (urlOk : Bool → Bytes → Bool) {G Adm : PState → Prop} (hl : PayloadLaws cfg G Adm)
    (st st' : St) (a a' : Bytes) (ev : List Ev) (ha : a ≠ []) (ht : st.tail = []) (hw : StG G st)
    (h : stepOnce cfg urlOk st a = .cont st' a' ev) :
    st'.tail = [] ∧ a'.length < a.length := by
  unfold stepOnce at h
  cases hp : st.payload with
  | none =>
    simp only [hp] at h
    by_cases hu : st.upgraded = true
    · simp [hu] at h
    simp only [hu] at h
    cases hf : findSep cfg.lax a with
    | none => simp [hf] at h
    | some pos =>
      have hb := findSep_bound cfg.lax a pos hf
      have hs := sepLen_pos cfg.lax
      simp only [hf] at h
      by_cases h0 : (pos == 0 && st.lines.isEmpty) = true
      · simp only [h0, if_true] at h
        simp at h
        obtain ⟨h1, h2, _⟩ := h
        subst h1 h2
        refine ⟨ht, ?_⟩
        simp; omega
      · simp only [h0] at h
        by_cases hsc : st.shouldClose = true
        · simp [hsc] at h
        simp only [hsc] at h
        cases hal : acceptLine cfg st (a.take pos) with
        | error e => simp [hal] at h
        | ok lines =>
          simp only [hal] at h
          have hlen : (a.drop (pos + sepLen cfg.lax)).length < a.length := by simp; omega
          by_cases hle : (lines.getLast?.getD []).isEmpty = true
          · simp only [hle, if_true] at h
            cases hob : onHeaderBlock cfg urlOk st lines with
            | error e => simp [hob] at h
            | ok r =>
              obtain ⟨s1, e1, sc⟩ := r
              simp only [hob] at h
              simp at h
              obtain ⟨h1, h2, _⟩ := h
              subst h1 h2
              refine ⟨?_, hlen⟩
              simpa using (onHeaderBlock_tail cfg urlOk st s1 lines e1 sc hob).trans ht
          · simp only [hle] at h
            simp at h
            obtain ⟨h1, h2, _⟩ := h
            subst h1 h2
            exact ⟨by simpa using ht, hlen⟩
  | some p =>
    simp only [hp] at h
    cases hpf : payloadFeed cfg p a with
    | mk r pevs =>
      simp only [hpf] at h
      cases r with
      | needs p' => simp at h
      | err e rr => simp at h; split at h <;> cases h
      | complete rest =>
        simp at h
        obtain ⟨h1, h2, _⟩ := h
        subst h1 h2
        refine ⟨?_, hl.complete_shrinks p a rest pevs (hw p hp) ha hpf⟩
        split <;> simpa using ht

end Aio.Http

namespace Aio.Http
open Aio

theorem stepOnce_stop_cases (cfg : Cfg) (urlOk : Bool → Bytes → Bool) (st : St) (a : Bytes) (o : FeedOut)
    (ha : a ≠ []) (h : stepOnce cfg urlOk st a = .stop o)
    (he : o.err = none) (hr : o.rest = []) (hpe : ∀ e, Ev.payloadErr e ∉ o.evs) :
    (st.payload = none ∧ o = { st := { st with tail := a }, evs := [], rest := [], err := none }) ∨
    (∃ p p', st.payload = some p ∧ payloadFeed cfg p a = (.needs p', o.evs) ∧
      o = { st := { st with payload := some p' }, evs := o.evs, rest := [], err := none }) := by
  unfold stepOnce at h
  cases hp : st.payload with
  | none =>
    left
    simp only [hp] at h
    by_cases hu : st.upgraded = true
    · simp [hu] at h; subst h; simp at hr; exact absurd hr ha
    simp only [hu] at h
    cases hf : findSep cfg.lax a with
    | some pos =>
      simp only [hf] at h
      by_cases h0 : (pos == 0 && st.lines.isEmpty) = true
      · simp [h0] at h
      simp only [h0] at h
      by_cases hsc : st.shouldClose = true
      · simp [hsc] at h; subst h; simp at he
      simp only [hsc] at h
      cases hal : acceptLine cfg st (a.take pos) with
      | error e => simp [hal] at h; subst h; simp at he
      | ok lines =>
        simp only [hal] at h
        by_cases hle : (lines.getLast?.getD []).isEmpty = true
        · simp only [hle, if_true] at h
          cases hob : onHeaderBlock cfg urlOk st lines with
          | error e => simp [hob] at h; subst h; simp at he
          | ok r => obtain ⟨s1, e1, sc⟩ := r; simp [hob] at h
        · simp [hle] at h
    | none =>
      simp only [hf] at h
      simp at h
      subst h
      refine ⟨rfl, ?_⟩
      unfold partialLine at he ⊢
      split
      · next hc => simp [hc] at he
      · split
        · next hc1 hc2 => simp [hc1, hc2] at he
        · cases st; simp_all
  | some p =>
    right
    simp only [hp] at h
    cases hpf : payloadFeed cfg p a with
    | mk r pevs =>
      simp only [hpf] at h
      cases r with
      | complete rest => simp at h
      | needs p' =>
        simp at h; subst h
        exact ⟨p, p', rfl, hpf, rfl⟩
      | err e rr =>
        simp at h
        split at h
        · simp at h; subst h; simp at he
        · simp at h; subst h
          exact absurd (by simp) (hpe e)

end Aio.Http

namespace Aio.Http
open Aio

theorem feedLoop_succ (cfg : Cfg) (urlOk : Bool → Bytes → Bool) (f : Nat) (st : St) (d : Bytes)
    (acc : List Ev) (hd : d ≠ []) :
    feedLoop cfg urlOk (f + 1) st d acc =
      match stepOnce cfg urlOk st d with
      | .stop o => { o with evs := acc ++ o.evs }
      | .cont st' d' ev =>
        if d'.length < d.length then feedLoop cfg urlOk f st' d' (acc ++ ev)
        else { st := { st' with failed := true }, evs := acc ++ ev, rest := [], err := some .badHttpMessage } := by
  have hde : d.isEmpty = false := by cases d <;> simp_all
  rw [feedLoop]
  simp only [hde, Bool.false_eq_true, if_false]
  cases stepOnce cfg urlOk st d <;> rfl

theorem feedLoop_nil (cfg : Cfg) (urlOk : Bool → Bytes → Bool) (f : Nat) (st : St) (acc : List Ev) :
    feedLoop cfg urlOk (f + 1) st [] acc = { st := st, evs := acc, rest := [], err := none } := by
  rw [feedLoop]; rfl

/-- the state after a completed body -/
def afterBody (st : St) : St :=
  let st := { st with payload := none }
  if st.pendingUpgrade then { st with upgraded := true, pendingUpgrade := false } else st

theorem stepOnce_payload (cfg : Cfg) (urlOk : Bool → Bytes → Bool) (st : St) (p : PState) (d : Bytes)
    (hp : st.payload = some p) :
    stepOnce cfg urlOk st d =
      match payloadFeed cfg p d with
      | (.needs p', ev) => .stop { st := { st with payload := some p' }, evs := ev, rest := [], err := none }
      | (.complete rest, ev) => .cont (afterBody st) rest ev
      | (.err e true, ev) => .stop { st := { st with failed := true }, evs := ev ++ [.payloadErr e], rest := [], err := some e }
      | (.err e false, ev) => .stop { st := { afterBody st with shouldClose := true }, evs := ev ++ [.payloadErr e], rest := [], err := none } := by
  unfold stepOnce afterBody
  simp only [hp]
  rcases payloadFeed cfg p d with ⟨r, ev⟩
  cases r with
  | needs p' => rfl
  | complete rest => rfl
  | err e rr =>
    cases rr
    · simp only []
      cases st.pendingUpgrade <;> rfl
    · rfl

/-- every body-parser state that the run on `d` goes through satisfies `G` -/
def GoodRun (cfg : Cfg) (urlOk : Bool → Bytes → Bool) (G : PState → Prop) : Nat → St → Bytes → Prop
  | 0, _, _ => True
  | f + 1, st, d =>
    d = [] ∨ (StG G st ∧
      match stepOnce cfg urlOk st d with
      | .stop _ => True
      | .cont st' d' _ => GoodRun cfg urlOk G f st' d')

/-- **Two-cut theorem.** Processing `a` and then carrying on from the saved state with
`tail ++ b` is observably the same as processing `a ++ b` at once, provided the first part ended
without an error (and without handing bytes back to an upgraded connection) and every body
the run goes through is one for which the body-parser laws hold. -/
theorem feedLoop_append (cfg : Cfg) (urlOk : Bool → Bytes → Bool) {G Adm : PState → Prop}
    (hl : PayloadLaws cfg G Adm) :
    ∀ (f1 : Nat) (st : St) (a b : Bytes) (acc : List Ev), a.length < f1 → st.tail = [] →
      (∀ f, GoodRun cfg urlOk G f st (a ++ b)) →
      (feedLoop cfg urlOk f1 st a acc).err = none →
      (feedLoop cfg urlOk f1 st a acc).rest = [] →
      (∀ e, Ev.payloadErr e ∉ (feedLoop cfg urlOk f1 st a acc).evs) →
      (∀ p', (feedLoop cfg urlOk f1 st a acc).st.payload = some p' → Adm p') →
      ∀ f2 f3, ((feedLoop cfg urlOk f1 st a acc).st.tail ++ b).length < f2 → (a ++ b).length < f3 →
        Equiv (feedLoop cfg urlOk f3 st (a ++ b) acc)
              (feedLoop cfg urlOk f2 { (feedLoop cfg urlOk f1 st a acc).st with tail := [] }
                ((feedLoop cfg urlOk f1 st a acc).st.tail ++ b) (feedLoop cfg urlOk f1 st a acc).evs) := by
  intro f1
  induction f1 with
  | zero => intro st a b acc h; omega
  | succ n ih =>
    intro st a b acc hlen ht hrun he hr hpe hadm f2 f3 hf2 hf3
    by_cases ha : a = []
    · subst ha
      have h0 := feedLoop_nil cfg urlOk n st acc
      rw [h0] at hf2 ⊢
      simp only [ht, List.nil_append] at hf2 ⊢
      rw [st_eta st ht, feedLoop_fuel cfg urlOk f3 f2 st b acc (by simpa using hf3) hf2]
      exact Equiv.refl _
    · have hab : a ++ b ≠ [] := by cases a <;> simp_all
      have hw : StG G st := by
        have := hrun 1
        simp only [GoodRun] at this
        rcases this with h | h
        · exact absurd h hab
        · exact h.1
      have hunf := feedLoop_succ cfg urlOk n st a acc ha
      cases hs : stepOnce cfg urlOk st a with
      | cont st' a' ev =>
        obtain ⟨ht', hsh⟩ := stepOnce_cont_inv cfg urlOk hl st st' a a' ev ha ht hw hs
        have hwhole := stepOnce_cont_append cfg urlOk hl st st' a a' b ev hw hs
        have hrun' : ∀ f, GoodRun cfg urlOk G f st' (a' ++ b) := by
          intro f
          have := hrun (f + 1)
          simp only [GoodRun, hwhole] at this
          rcases this with h | h
          · exact absurd h hab
          · exact h.2
        rw [hs] at hunf
        simp only [hsh, if_true] at hunf
        rw [hunf] at he hr hpe hadm hf2 ⊢
        cases f3 with
        | zero => omega
        | succ m =>
          have hsh' : (a' ++ b).length < (a ++ b).length := by simp; omega
          have hun2 := feedLoop_succ cfg urlOk m st (a ++ b) acc hab
          rw [hwhole] at hun2
          simp only [hsh', if_true] at hun2
          rw [hun2]
          exact ih st' a' b (acc ++ ev) (by omega) ht' hrun' he hr hpe hadm f2 m hf2 (by simp at hf3 hsh' ⊢; omega)
      | stop o =>
        rw [hs] at hunf
        simp only [] at hunf
        rw [hunf] at he hr hpe hadm hf2 ⊢
        simp only [] at he hr hpe hadm hf2 ⊢
        have hpe' : ∀ e, Ev.payloadErr e ∉ o.evs := by
          intro e hm; exact hpe e (List.mem_append_right _ hm)
        rcases stepOnce_stop_cases cfg urlOk st a o ha hs he hr hpe' with ⟨hp, ho⟩ | ⟨p, p', hp, hpf, ho⟩
        · -- partial line kept as the tail
          subst ho
          simp only [List.append_nil] at hf2 ⊢
          have e1 : ({ ({ st with tail := a } : St) with tail := [] } : St) = st := by
            cases st; simp_all
          rw [e1, feedLoop_fuel cfg urlOk f3 f2 st (a ++ b) acc hf3 hf2]
          exact Equiv.refl _
        · -- the body parser needs more input
          have host : o.st = { st with payload := some p' } := by rw [ho]
          have hotail : o.st.tail = [] := by rw [host]; simpa using ht
          have e1 : ({ o.st with tail := [] } : St) = { st with payload := some p' } := by
            rw [host]
            cases st with
            | mk l t u pu pl sc fl => simp only at ht; subst ht; rfl
          rw [hotail, e1] at *
          simp only [List.nil_append] at hf2 ⊢
          have hwp' : G p' := hl.needs_closed p p' a o.evs (hw p hp) hpf
          by_cases hb : b = []
          · subst hb
            cases f2 with
            | zero => omega
            | succ k =>
              have h0 := feedLoop_nil cfg urlOk k { st with payload := some p' } (acc ++ o.evs)
              rw [h0, List.append_nil, feedLoop_fuel cfg urlOk f3 (n + 1) st a acc (by simpa using hf3) hlen,
                  feedLoop_succ cfg urlOk n st a acc ha, hs]
              refine ⟨Or.inl host, rfl, he, hr⟩
          · obtain ⟨hres, hproj⟩ := hl.needs_split p p' a b o.evs (hw p hp) hpf (hadm p' (by rw [host])) hb
            cases f2 with
            | zero => omega
            | succ k =>
            cases f3 with
            | zero => omega
            | succ m =>
              have hpst : ({ st with payload := some p' } : St).payload = some p' := rfl
              rw [feedLoop_succ cfg urlOk m st (a ++ b) acc hab, stepOnce_payload cfg urlOk st p (a ++ b) hp,
                  feedLoop_succ cfg urlOk k _ b (acc ++ o.evs) hb, stepOnce_payload cfg urlOk _ p' b hpst]
              cases hq : payloadFeed cfg p' b with
              | mk r2 ev2 =>
              cases hq' : payloadFeed cfg p (a ++ b) with
              | mk r2' ev' =>
                rw [hq, hq'] at hres hproj
                simp only at hres hproj
                subst hres
                have hab2 : afterBody ({ st with payload := some p' } : St) = afterBody st := by
                  unfold afterBody; cases st; simp
                cases r2' with
                | needs p'' =>
                  refine ⟨Or.inl (by cases st; simp), ?_, rfl, rfl⟩
                  simp [hproj]
                | err e rr =>
                  cases rr
                  · refine ⟨Or.inl (by rw [hab2]), ?_, rfl, rfl⟩
                    simp [hproj]
                  · refine ⟨Or.inr ⟨rfl, rfl⟩, ?_, rfl, rfl⟩
                    simp [hproj]
                | complete rest =>
                  have hsh1 : rest.length < b.length := hl.complete_shrinks p' b rest ev2 hwp' hb hq
                  have hsh2 : rest.length < (a ++ b).length := by simp; omega
                  simp only [hsh1, hsh2, if_true, hab2]
                  rw [feedLoop_acc cfg urlOk m _ rest (acc ++ ev'), feedLoop_acc cfg urlOk k _ rest (acc ++ o.evs ++ ev2),
                      feedLoop_fuel cfg urlOk m k _ rest [] (by simp at hf3; omega) (by simp at hf2; omega)]
                  refine ⟨Or.inl rfl, ?_, rfl, rfl⟩
                  simp [hproj]

end Aio.Http

namespace Aio.Http
open Aio

/-! ### the body-parser laws hold for every body that is not chunk-framed -/

/-- Content-Length (with bytes left), close-delimited and absent bodies -/
def NonChunked (p : PState) : Prop := p.type ≠ .chunked ∧ (p.type = .length → p.length ≠ 0)

@[simp] theorem proj_dataEv (x : Bytes) : proj (dataEv x) = x.map Tok.byte := by
  unfold dataEv
  split
  · next h =>
    have hx : x = [] := by simpa using h
    subst hx; rfl
  · simp [proj, projEv]

theorem payloadLaws_nonChunked (cfg : Cfg) : PayloadLaws cfg NonChunked (fun _ => True) := by
  refine ⟨?_, ?_, ?_, ?_⟩
  · -- complete_stable
    intro p a b rest ev hg h
    rcases p with ⟨ty, len, cs, csz, tl, trl, mt⟩
    cases ty with
    | chunked => exact absurd rfl hg.1
    | none => simp [payloadFeed] at h
    | untilEof => simp [payloadFeed] at h
    | length =>
      simp only [payloadFeed] at h ⊢
      by_cases hz : len - a.length = 0
      · simp only [hz, beq_self_eq_true, if_true] at h
        injection h with h1 h2
        injection h1 with h1
        have hle : len ≤ a.length := by omega
        have hz' : len - (a ++ b).length = 0 := by simp; omega
        simp only [hz', beq_self_eq_true, if_true]
        rw [take_append_of_le a b len hle, drop_append_of_le a b len hle, ← h1, ← h2]
      · have : (len - a.length == 0) = false := by simpa using hz
        simp [this] at h
  · -- complete_shrinks
    intro p a rest ev hg ha h
    rcases p with ⟨ty, len, cs, csz, tl, trl, mt⟩
    cases ty with
    | chunked => exact absurd rfl hg.1
    | none => simp [payloadFeed] at h
    | untilEof => simp [payloadFeed] at h
    | length =>
      have hlen : len ≠ 0 := hg.2 rfl
      simp only [payloadFeed] at h
      by_cases hz : len - a.length = 0
      · simp only [hz, beq_self_eq_true, if_true] at h
        injection h with h1 _
        injection h1 with h1
        subst h1
        have : 0 < a.length := by cases a <;> simp_all
        simp; omega
      · have : (len - a.length == 0) = false := by simpa using hz
        simp [this] at h
  · -- needs_closed
    intro p p' a ev hg h
    rcases p with ⟨ty, len, cs, csz, tl, trl, mt⟩
    cases ty with
    | chunked => exact absurd rfl hg.1
    | none => simp [payloadFeed] at h; obtain ⟨h1, _⟩ := h; subst h1; exact hg
    | untilEof => simp [payloadFeed] at h; obtain ⟨h1, _⟩ := h; subst h1; exact hg
    | length =>
      simp only [payloadFeed] at h
      by_cases hz : len - a.length = 0
      · simp [hz] at h
      · have : (len - a.length == 0) = false := by simpa using hz
        simp [this] at h
        obtain ⟨h1, _⟩ := h
        subst h1
        exact ⟨by simp, fun _ => hz⟩
  · -- needs_split
    intro p p' a b ev1 hg h _ hb
    rcases p with ⟨ty, len, cs, csz, tl, trl, mt⟩
    cases ty with
    | chunked => exact absurd rfl hg.1
    | none =>
      simp [payloadFeed] at h; obtain ⟨h1, h2⟩ := h; subst h1 h2
      simp [payloadFeed]
    | untilEof =>
      simp [payloadFeed] at h; obtain ⟨h1, h2⟩ := h; subst h1 h2
      simp [payloadFeed]
    | length =>
      simp only [payloadFeed] at h
      by_cases hz : len - a.length = 0
      · simp [hz] at h
      · have hzb : (len - a.length == 0) = false := by simpa using hz
        simp [hzb] at h
        obtain ⟨h1, h2⟩ := h
        subst h1 h2
        have hlt : a.length < len := by omega
        have e : len - a.length - b.length = len - (a ++ b).length := by simp; omega
        have ta : a.take len = a := List.take_of_length_le (Nat.le_of_lt hlt)
        have tab : (a ++ b).take len = a ++ b.take (len - a.length) := by
          rw [List.take_append]; simp [ta]
        have dab : (a ++ b).drop len = b.drop (len - a.length) := by
          rw [List.drop_append]; simp [List.drop_of_length_le (Nat.le_of_lt hlt)]
        simp only [payloadFeed, e, ta, tab, dab]
        split <;> simp

/-- **Segmentation independence of `feed_data` (streams without chunked bodies).** -/
theorem feedLoop_append_nonChunked (cfg : Cfg) (urlOk : Bool → Bytes → Bool)
    (f1 : Nat) (st : St) (a b : Bytes) (acc : List Ev) (hf1 : a.length < f1) (ht : st.tail = [])
    (hrun : ∀ f, GoodRun cfg urlOk NonChunked f st (a ++ b))
    (he : (feedLoop cfg urlOk f1 st a acc).err = none)
    (hr : (feedLoop cfg urlOk f1 st a acc).rest = [])
    (hpe : ∀ e, Ev.payloadErr e ∉ (feedLoop cfg urlOk f1 st a acc).evs)
    (f2 f3 : Nat) (hf2 : ((feedLoop cfg urlOk f1 st a acc).st.tail ++ b).length < f2)
    (hf3 : (a ++ b).length < f3) :
    Equiv (feedLoop cfg urlOk f3 st (a ++ b) acc)
          (feedLoop cfg urlOk f2 { (feedLoop cfg urlOk f1 st a acc).st with tail := [] }
            ((feedLoop cfg urlOk f1 st a acc).st.tail ++ b) (feedLoop cfg urlOk f1 st a acc).evs) :=
  feedLoop_append cfg urlOk (payloadLaws_nonChunked cfg) f1 st a b acc hf1 ht hrun he hr hpe (fun _ _ => trivial) f2 f3 hf2 hf3

end Aio.Http

namespace Aio.Http
open Aio

/-- a state without a body in progress trivially satisfies `StG` -/
theorem stG_of_no_payload (G : PState → Prop) (st : St) (h : st.payload = none) : StG G st := by
  intro p hp; rw [h] at hp; cases hp

/-- Non-vacuity: for the request line `GET / HTTP/1.1` cut as `GET / HT` | `TP/1.1\r\n` the
hypotheses of the two-cut theorem hold (no body is ever entered; the first part ends without
error, keeping its bytes as the tail). -/
example : (feedLoop {} (fun _ _ => true) 9 {} [71, 69, 84, 32, 47, 32, 72, 84] []).err = none ∧
    (feedLoop {} (fun _ _ => true) 9 {} [71, 69, 84, 32, 47, 32, 72, 84] []).rest = [] ∧
    (feedLoop {} (fun _ _ => true) 9 {} [71, 69, 84, 32, 47, 32, 72, 84] []).st.tail = [71, 69, 84, 32, 47, 32, 72, 84] := by
  decide +kernel

end Aio.Http
