import AioProps.C03
/-!
# C03 — the two-cut theorem for `HttpParser.feed_data`

`feedLoop_append`: if processing `a` alone ended without an error (and without handing bytes
back to an upgraded connection), then carrying on from the saved state with `tail ++ b` gives
the same final state, the same error, and the same observable events as processing `a ++ b`
in one go — for every state, configuration, `yarl` oracle and split.  The body parser enters
through two laws (`PayloadLaws`): a completed body stays completed when more bytes follow, and
feeding a body in two pieces delivers the same bytes as feeding it at once.  Both laws are
proved below for Content-Length and close-delimited bodies; for the chunked state machine they
are the remaining obligation, covered by the all-cuts correspondence run.
-/
namespace Aio.Http
open Aio

/-- observable tokens: data flattened to bytes, so that split deliveries compare equal -/
inductive Tok where
  | msg (m : Msg) (hp : Bool) | byte (b : UInt8) | beginChunk | endChunk | eof | perr (e : Err)

def projEv : Ev → List Tok
  | .msg m hp => [.msg m hp]
  | .data bs => bs.map .byte
  | .beginChunk => [.beginChunk]
  | .endChunk => [.endChunk]
  | .eof => [.eof]
  | .payloadErr e => [.perr e]

def proj (evs : List Ev) : List Tok := evs.flatMap projEv

@[simp] theorem proj_append (a b : List Ev) : proj (a ++ b) = proj a ++ proj b := by
  simp [proj]
@[simp] theorem proj_nil : proj [] = [] := rfl

structure PayloadLaws (cfg : Cfg) : Prop where
  complete_stable : ∀ (p : PState) (a b rest : Bytes) (ev : List Ev),
    payloadFeed cfg p a = (.complete rest, ev) → payloadFeed cfg p (a ++ b) = (.complete (rest ++ b), ev)
  needs_split : ∀ (p p' : PState) (a b : Bytes) (ev1 : List Ev),
    payloadFeed cfg p a = (.needs p', ev1) → b ≠ [] →
    ∃ ev, (payloadFeed cfg p (a ++ b)).1 = (payloadFeed cfg p' b).1 ∧
          (payloadFeed cfg p (a ++ b)).2 = ev ∧ proj ev = proj (ev1 ++ (payloadFeed cfg p' b).2)

/-- outcomes that agree on everything observable -/
def Equiv (o o' : FeedOut) : Prop :=
  o.st = o'.st ∧ proj o.evs = proj o'.evs ∧ o.err = o'.err ∧ o.rest = o'.rest

theorem Equiv.refl (o : FeedOut) : Equiv o o := ⟨rfl, rfl, rfl, rfl⟩

/-! ### the accumulator is only appended to; enough fuel is enough -/

theorem feedLoop_acc (cfg : Cfg) (urlOk : Bool → Bytes → Bool) :
    ∀ (f : Nat) (st : St) (d : Bytes) (acc : List Ev),
      feedLoop cfg urlOk f st d acc =
        { feedLoop cfg urlOk f st d [] with evs := acc ++ (feedLoop cfg urlOk f st d []).evs } := by
  intro f
  induction f with
  | zero => intro st d acc; simp [feedLoop]
  | succ n ih =>
    intro st d acc
    simp only [feedLoop]
    split
    · simp
    · split
      · simp
      · next st' d' ev' _ =>
        split
        · rw [ih st' d' (acc ++ ev'), ih st' d' ([] ++ ev')]
          simp
        · simp

theorem feedLoop_fuel (cfg : Cfg) (urlOk : Bool → Bytes → Bool) :
    ∀ (f1 f2 : Nat) (st : St) (d : Bytes) (acc : List Ev), d.length < f1 → d.length < f2 →
      feedLoop cfg urlOk f1 st d acc = feedLoop cfg urlOk f2 st d acc := by
  intro f1
  induction f1 with
  | zero => intro f2 st d acc h; omega
  | succ n ih =>
    intro f2 st d acc h1 h2
    cases f2 with
    | zero => omega
    | succ m =>
      simp only [feedLoop]
      split
      · rfl
      · split
        · rfl
        · next st' d' ev' _ =>
          split
          · next hlt => exact ih m st' d' _ (by omega) (by omega)
          · rfl

/-! ### separators and slicing under extension -/

theorem findCRLF_bound (a : Bytes) (p : Nat) (h : findCRLF a = some p) : p + 2 ≤ a.length := by
  induction a generalizing p with
  | nil => simp [findCRLF] at h
  | cons x t ih =>
    cases t with
    | nil => simp [findCRLF] at h
    | cons y t' =>
      simp only [findCRLF] at h
      split at h
      · simp at h; subst h; simp
      · simp at h; obtain ⟨q, hq, rfl⟩ := h; have := ih q hq; simp at this ⊢; omega

theorem findByte_bound (c : UInt8) (a : Bytes) (p : Nat) (h : findByte c a = some p) : p + 1 ≤ a.length := by
  induction a generalizing p with
  | nil => simp [findByte] at h
  | cons x t ih =>
    simp only [findByte] at h
    split at h
    · simp at h; subst h; simp
    · simp at h; obtain ⟨q, hq, rfl⟩ := h; have := ih q hq; simp; omega

theorem findSep_bound (lax : Bool) (a : Bytes) (p : Nat) (h : findSep lax a = some p) :
    p + sepLen lax ≤ a.length := by
  unfold findSep at h; unfold sepLen
  cases lax
  · simpa using findCRLF_bound a p (by simpa using h)
  · simpa using findByte_bound 10 a p (by simpa using h)

theorem take_append_of_le (a b : Bytes) (n : Nat) (h : n ≤ a.length) : (a ++ b).take n = a.take n := by
  rw [List.take_append]; simp [Nat.sub_eq_zero_of_le h]

theorem drop_append_of_le (a b : Bytes) (n : Nat) (h : n ≤ a.length) : (a ++ b).drop n = a.drop n ++ b := by
  rw [List.drop_append]; simp [Nat.sub_eq_zero_of_le h]

end Aio.Http
