import AioProps.C17Lemmas
/-!
# C17 — property theorems (redirects confine credentials and terminate)

Model: `AioModel/C17.lean` (= the redirect loop of `aiohttp/client.py: ClientSession._request`
with `ClientRequest` header construction).  Every statement quantifies over **all** chains of
scripted responses (any length, any statuses, any `Location` outcomes, any origins), all
caller inputs, all cookie jars / netrc tables / cookie parsers (`Env`) and all configurations.

Vocabulary: `(run …).sent` is the list of requests put on the wire, in order; request `k`
has `idx = k`; a header / cookie pair carries the provenances of its value (`Prov`), whose
`birth` is the hop at which the value entered the loop (`caller` = 0, `url h` = the URL
requested at hop `h` carried it as userinfo, `netrc h`, `jar h` = looked up at hop `h`).
-/
namespace Aio.C17
open Aio

/-- the run of `ClientSession._request` for the given caller inputs -/
abbrev request (env : Env) (cfg : Cfg) (url : Url) (params : Option Str) (method : Str)
    (defaults headers : List (Str × Str)) (cookies : Option (List (Str × Str))) (data : Option Body)
    (jar0 : env.jar.σ) (chain : List Resp) : Result :=
  run env cfg (init env url params method defaults headers cookies data jar0) chain

/-- **Secrets are confined to the origin they were supplied for.**  Whenever a request `sk` of
the chain carries an `Authorization`, `Cookie` or `Proxy-Authorization` header, every value in
it entered the loop at some hop `b ≤ k` (the caller's at hop 0, URL-embedded credentials at the
hop whose URL carried them, jar / netrc values at the hop that looked them up) and **every**
request from hop `b` up to `sk` went to the same origin as `sk`.  So nothing supplied for one
origin is ever sent to another, whatever the statuses, `Location` forms and origin changes. -/
theorem secrets_confined (env : Env) (cfg : Cfg) (url : Url) (params : Option Str) (method : Str)
    (defaults headers : List (Str × Str)) (cookies : Option (List (Str × Str))) (data : Option Body)
    (jar0 : env.jar.σ) (chain : List Resp) :
    let sent := (request env cfg url params method defaults headers cookies data jar0 chain).sent
    ∀ sk ∈ sent, ∀ hd ∈ sk.headers, isSecretName hd.name = true → ∀ p ∈ hd.provs,
      p.birth ≤ sk.idx ∧
      ∀ sj ∈ sent, p.birth ≤ sj.idx → sj.idx ≤ sk.idx → sj.url.origin = sk.url.origin := by
  intro sent sk hk hd hhd hsec p hp
  have ⟨hok, hstreak⟩ := run_trace (cfg := cfg) chain _ (init_inv env url params method defaults headers cookies data jar0)
  obtain ⟨htag, _, _, _, _⟩ := hok sk hk
  have hb := htag hd hhd hsec p hp
  refine ⟨hb.2, ?_⟩
  intro sj hj h1 h2
  exact hstreak sj hj sk hk (Nat.le_trans hb.1 h1) h2

/-- The same for the individual pairs of a merged `Cookie` header (per-request cookies are
tagged `caller`, jar cookies `jar k`). -/
theorem cookie_pairs_confined (env : Env) (cfg : Cfg) (url : Url) (params : Option Str) (method : Str)
    (defaults headers : List (Str × Str)) (cookies : Option (List (Str × Str))) (data : Option Body)
    (jar0 : env.jar.σ) (chain : List Resp) :
    let sent := (request env cfg url params method defaults headers cookies data jar0 chain).sent
    ∀ sk ∈ sent, ∀ c ∈ sk.cookiePairs, ∀ p ∈ c.provs,
      p.birth ≤ sk.idx ∧
      ∀ sj ∈ sent, p.birth ≤ sj.idx → sj.idx ≤ sk.idx → sj.url.origin = sk.url.origin := by
  intro sent sk hk c hc p hp
  have ⟨hok, hstreak⟩ := run_trace (cfg := cfg) chain _ (init_inv env url params method defaults headers cookies data jar0)
  obtain ⟨_, ⟨hpairs, _⟩, _, _, _⟩ := hok sk hk
  have hb := hpairs c hc p hp
  refine ⟨hb.2, ?_⟩
  intro sj hj h1 h2
  exact hstreak sj hj sk hk (Nat.le_trans hb.1 h1) h2

/-- **Caller-supplied secrets never leave the first origin, and A→B→A does not resurrect them.**
If a request carries a secret header value supplied by the caller (`headers=`, session default
headers, `cookies=`), then that request *and every request before it* went to the origin of the
very first request. -/
theorem caller_secret_never_leaves_first_origin (env : Env) (cfg : Cfg) (url : Url) (params : Option Str)
    (method : Str) (defaults headers : List (Str × Str)) (cookies : Option (List (Str × Str)))
    (data : Option Body) (jar0 : env.jar.σ) (chain : List Resp) :
    let sent := (request env cfg url params method defaults headers cookies data jar0 chain).sent
    ∀ sk ∈ sent, ∀ hd ∈ sk.headers, isSecretName hd.name = true → Prov.caller ∈ hd.provs →
      ∀ sj ∈ sent, sj.idx ≤ sk.idx → sj.url.origin = sk.url.origin := by
  intro sent sk hk hd hhd hsec hp sj hj hle
  exact (secrets_confined env cfg url params method defaults headers cookies data jar0 chain sk hk hd hhd hsec _ hp).2
    sj hj (Nat.zero_le _) hle

/-- **No resurrection**, stated contrapositively: once some request `sj` went to an origin other
than a later request `sk`'s, `sk` carries no caller-supplied secret and no credential that was
embedded in a URL requested at or before `sj`. -/
theorem no_resurrection (env : Env) (cfg : Cfg) (url : Url) (params : Option Str)
    (method : Str) (defaults headers : List (Str × Str)) (cookies : Option (List (Str × Str)))
    (data : Option Body) (jar0 : env.jar.σ) (chain : List Resp) :
    let sent := (request env cfg url params method defaults headers cookies data jar0 chain).sent
    ∀ sj ∈ sent, ∀ sk ∈ sent, sj.idx ≤ sk.idx → sj.url.origin ≠ sk.url.origin →
      ∀ hd ∈ sk.headers, isSecretName hd.name = true → ∀ p ∈ hd.provs, sj.idx < p.birth := by
  intro sent sj hj sk hk hle hne hd hhd hsec p hp
  have h := (secrets_confined env cfg url params method defaults headers cookies data jar0 chain sk hk hd hhd hsec p hp).2
  by_cases hb : p.birth ≤ sj.idx
  · exact absurd (h sj hj hb hle) hne
  · omega

/-- **Jar cookies are re-selected for each hop.**  For request `k`: (a) the jar selection
offered to it is `filter_cookies(url_k)` evaluated on the jar *as updated by the responses to
requests 0 … k-1* (so a `Set-Cookie` of an earlier hop is seen, and nothing is carried over
from a selection made for another URL); (b) every jar-provenance cookie pair actually sent in
its `Cookie` header was selected at hop `k` itself - a pair selected at an earlier hop is never
re-sent. -/
theorem jar_reselected_each_hop (env : Env) (cfg : Cfg) (url : Url) (params : Option Str) (method : Str)
    (defaults headers : List (Str × Str)) (cookies : Option (List (Str × Str))) (data : Option Body)
    (jar0 : env.jar.σ) (chain : List Resp) :
    let sent := (request env cfg url params method defaults headers cookies data jar0 chain).sent
    ∀ k sk, sent[k]? = some sk →
      sk.jarSel = env.jar.filter (jarAfter env jar0 (sent.take k) (chain.take k)) sk.url ∧
      ∀ c ∈ sk.cookiePairs, ∀ p ∈ c.provs, ∀ h, p = Prov.jar h → h = sk.idx := by
  intro sent k sk hk
  have hinv := init_inv env url params method defaults headers cookies data jar0
  refine ⟨run_jar (cfg := cfg) chain _ k sk hinv hk, ?_⟩
  have ⟨hok, _⟩ := run_trace (cfg := cfg) chain _ hinv
  exact (hok sk (List.mem_of_getElem? hk)).2.1.2

/- Full statement of the table (kept at full strength; `method_body_table_partial` below proves
   everything except the byte equality of the two wire bodies, which additionally needs that
   the *effective* Content-Length header is the same at both hops - a fact about header
   bookkeeping in `ClientRequest` that is only covered by the correspondence run):

   theorem method_body_table : ∀ k sj sk r, sent[k]? = some sj → sent[k+1]? = some sk → chain[k]? = some r →
     if toGet r.status sj.method then sk.method = GET ∧ sk.body = []
     else sk.method = sj.method ∧ sk.body = sj.body
-/

/-- **The method and body are transformed per the table.**  For consecutive requests `k`, `k+1`
and the response `r` in between: if `r` is 303 and the method is not HEAD, or `r` is 301/302
and the method is POST (`toGet`), request `k+1` is a `GET` with no payload and an empty wire
body; otherwise it has the same method and *the same payload object* (`_EMPTY_BODY` if there
was none), not yet consumed, replayed from its start: its wire body is that payload's bytes,
cut only by a `Content-Length` header of request `k+1` itself. -/
theorem method_body_table_partial (env : Env) (cfg : Cfg) (url : Url) (params : Option Str) (method : Str)
    (defaults headers : List (Str × Str)) (cookies : Option (List (Str × Str))) (data : Option Body)
    (jar0 : env.jar.σ) (chain : List Resp) :
    let sent := (request env cfg url params method defaults headers cookies data jar0 chain).sent
    ∀ k sk, sent[k + 1]? = some sk → ∃ sj r, sent[k]? = some sj ∧ chain[k]? = some r ∧
      (toGet r.status sj.method = true → sk.method = GET ∧ sk.data = none ∧ sk.body = []) ∧
      (toGet r.status sj.method = false → sk.method = sj.method ∧ sk.data = some (sj.data.getD emptyBody) ∧
        wireBody (some (sj.data.getD emptyBody)) false sk.headers = .ok sk.body) := by
  intro sent k sk hk
  have hinv := init_inv env url params method defaults headers cookies data jar0
  obtain ⟨sj, r, u, a1, a2, _, _, _, _, _, _, a9, a10, a11⟩ := run_follow (cfg := cfg) chain _ k sk hinv hk
  refine ⟨sj, r, a1, a2, ?_, ?_⟩
  · intro hg
    rw [hg] at a9 a10
    simp only [if_true] at a9 a10
    refine ⟨a9, a10, ?_⟩
    rw [a10] at a11
    simp [wireBody] at a11
    exact a11
  · intro hg
    rw [hg] at a9 a10
    simp only [Bool.false_eq_true, if_false] at a9 a10
    refine ⟨a9, a10, ?_⟩
    rw [a10] at a11; exact a11

/-- **At most `max_redirects` requests are made** (for `max_redirects ≥ 1`; see
`zero_max_redirects_is_unlimited` for 0). -/
theorem at_most_max_redirects_requests (env : Env) (cfg : Cfg) (url : Url) (params : Option Str) (method : Str)
    (defaults headers : List (Str × Str)) (cookies : Option (List (Str × Str))) (data : Option Body)
    (jar0 : env.jar.σ) (chain : List Resp) (hmax : cfg.maxRedirects ≠ 0) :
    (request env cfg url params method defaults headers cookies data jar0 chain).sent.length ≤ cfg.maxRedirects := by
  have hinv := init_inv env url params method defaults headers cookies data jar0
  exact run_count hmax chain _ hinv (by show 0 < cfg.maxRedirects; omega)

/-- a trivial environment (empty jar, no netrc) for the concrete statements below -/
def env0 : Env :=
  { jar := { σ := Unit, filter := fun _ _ => [], update := fun _ _ _ => () }
    reqSel := fun _ _ _ => [], netrc := fun _ => none, parseCookie := fun _ => [] }
def url0 : Url := { origin := ⟨0, S "a.test", 80, 0⟩, hostHdr := S "a.test", target := S "/" }

/-- the hypothesis of `at_most_max_redirects_requests` is satisfiable and the bound is tight:
`max_redirects = 2`, two redirects: exactly 2 requests, then `TooManyRedirects`. -/
example :
    let res := request env0 { maxRedirects := 2 } url0 none GET [] [] none none ()
      [⟨302, .ok url0, 0⟩, ⟨302, .ok url0, 0⟩, ⟨200, .none, 0⟩]
    res.sent.length = 2 ∧ res.out = .err .tooManyRedirects := by decide +kernel

/-- **`max_redirects = 0` means unlimited in the code** (`if max_redirects and …`): 25 redirects
are all followed (26 requests), where the default 10 would have stopped at 10. Stated, not hidden. -/
theorem zero_max_redirects_is_unlimited :
    (request env0 { maxRedirects := 0 } url0 none GET [] [] none none ()
      (List.replicate 25 ⟨302, .ok url0, 0⟩ ++ [⟨200, .none, 0⟩])).sent.length = 26 := by decide +kernel

/-- **Only well-formed http(s) redirects are followed.**  Every request after the first was
caused by a response with a redirect status (and `allow_redirects`) whose `Location` resolved
to an absolute http(s) URL with a valid origin, and it goes to exactly that URL (credentials
moved into `Authorization`). -/
theorem only_http_redirects_followed (env : Env) (cfg : Cfg) (url : Url) (params : Option Str) (method : Str)
    (defaults headers : List (Str × Str)) (cookies : Option (List (Str × Str))) (data : Option Body)
    (jar0 : env.jar.σ) (chain : List Resp) :
    let sent := (request env cfg url params method defaults headers cookies data jar0 chain).sent
    ∀ k sk, sent[k + 1]? = some sk → ∃ r u, chain[k]? = some r ∧ r.loc = .ok u ∧
      isRedirect r.status = true ∧ cfg.allowRedirects = true ∧ sk.url = { u with cred := none } ∧ sk.idx = k + 1 := by
  intro sent k sk hk
  have hinv := init_inv env url params method defaults headers cookies data jar0
  obtain ⟨sj, r, u, _, a2, a3, a4, a5, a6, a7, _⟩ := run_follow (cfg := cfg) chain _ k sk hinv hk
  exact ⟨r, u, a2, a3, a4, a5, a6, by rw [a7]; show 0 + k + 1 = k + 1; omega⟩

/-- **Non-HTTP targets are refused** (and so are unparsable ones, host-less ones and a missing
`Location`): if response `k` does not carry a well-formed http(s) target, no request `k+1` is
ever made. -/
theorem non_http_refused (env : Env) (cfg : Cfg) (url : Url) (params : Option Str) (method : Str)
    (defaults headers : List (Str × Str)) (cookies : Option (List (Str × Str))) (data : Option Body)
    (jar0 : env.jar.σ) (chain : List Resp) (k : Nat) (r : Resp) (hr : chain[k]? = some r)
    (hloc : r.loc = .nonHttp ∨ r.loc = .invalid ∨ r.loc = .badOrigin ∨ r.loc = .none) :
    (request env cfg url params method defaults headers cookies data jar0 chain).sent.length ≤ k + 1 := by
  apply Nat.le_of_not_lt
  intro hlt
  obtain ⟨r', u, h1, h2, _⟩ := only_http_redirects_followed env cfg url params method defaults headers cookies data jar0 chain
    k _ (List.getElem?_eq_getElem hlt)
  rw [hr] at h1; injection h1 with h1; subst h1
  rw [h2] at hloc
  rcases hloc with h | h | h | h <;> cases h

/-- a non-HTTP `Location` makes the call fail with `NonHttpUrlRedirectClientError` after
releasing and closing that response (non-vacuity of `non_http_refused`, and the error kind) -/
example :
    let res := request env0 {} url0 none GET [] [] none none () [⟨302, .nonHttp, 0⟩, ⟨200, .none, 0⟩]
    res.sent.length = 1 ∧ res.out = .err .nonHttpRedirect ∧ res.events = [.release 0, .close 0] := by decide +kernel

/- Full statement (FALSE for the unchanged code, finding F18 - see `f18_self_in_history`):

   theorem history_in_order_and_released : out = .ok f hist →
     f + 1 = sent.length ∧ hist = List.range f ∧ ∀ i < f, Ev.release i ∈ events
-/

/-- **History is in order and every intermediate response is released** - partial: when the
call returns response `f`, exactly `f + 1` requests were made, every response `i < f` was
released, and `history = [0, …, f-1]` **provided the returned response is not itself a followed
redirect status**; when it is (a 3xx without `Location`/`URI`, the only way), the code returns
`history = [0, …, f]`, i.e. the response is the last element of its own history (F18). -/
theorem history_in_order_and_released_partial (env : Env) (cfg : Cfg) (url : Url) (params : Option Str) (method : Str)
    (defaults headers : List (Str × Str)) (cookies : Option (List (Str × Str))) (data : Option Body)
    (jar0 : env.jar.σ) (chain : List Resp) :
    let res := request env cfg url params method defaults headers cookies data jar0 chain
    ∀ f hist, res.out = .ok f hist →
      f + 1 = res.sent.length ∧ (∀ i, i < f → Ev.release i ∈ res.events) ∧
      ∃ r, chain[f]? = some r ∧
        ((isRedirect r.status && cfg.allowRedirects) = false → hist = List.range f) ∧
        ((isRedirect r.status && cfg.allowRedirects) = true → r.loc = .none ∧ hist = List.range (f + 1)) := by
  intro res f hist h
  have hinv := init_inv env url params method defaults headers cookies data jar0
  obtain ⟨_, b2, b3, r, b4, b5⟩ := run_history (cfg := cfg) chain _ hinv rfl f hist h
  have b2' : f + 1 = 0 + (run env cfg (init env url params method defaults headers cookies data jar0) chain).sent.length := b2
  rw [Nat.zero_add] at b2'
  refine ⟨b2', fun i hi => b3 i (Nat.zero_le _) hi, r, b4, ?_, ?_⟩
  · intro hf
    rcases b5 with ⟨_, h2⟩ | ⟨h1, _⟩
    · exact h2
    · rw [hf] at h1; cases h1
  · intro ht
    rcases b5 with ⟨h1, _⟩ | ⟨_, h2, h3⟩
    · rw [ht] at h1; cases h1
    · exact ⟨h2, h3⟩

/-- the normal case of the theorem above is reachable: two hops, `history = [0]`, response 0
released (twice, as the code does) -/
example :
    let res := request env0 {} url0 none GET [] [] none none () [⟨302, .ok url0, 0⟩, ⟨200, .none, 0⟩]
    res.out = .ok 1 [0] ∧ res.events = [.release 0, .release 0] := by decide +kernel

/-- **Finding F18 (counterexample to the full statement).**  `GET` answered `302` without
`Location`: the response is returned *and* is the only element of its own history. -/
theorem f18_self_in_history :
    (request env0 {} url0 none GET [] [] none none () [⟨302, .none, 0⟩]).out = .ok 0 [0] := by decide +kernel

/-- **Every received response is disposed of.**  Whenever the call ends (returns or raises),
each response `i` that was received was released, or closed, or is the one returned - on every
error path too (`TooManyRedirects`, consumed body, invalid / non-HTTP target). -/
theorem responses_all_disposed (env : Env) (cfg : Cfg) (url : Url) (params : Option Str) (method : Str)
    (defaults headers : List (Str × Str)) (cookies : Option (List (Str × Str))) (data : Option Body)
    (jar0 : env.jar.σ) (chain : List Resp) :
    let res := request env cfg url params method defaults headers cookies data jar0 chain
    res.out ≠ .pending → ∀ i, i < res.sent.length →
      Ev.release i ∈ res.events ∨ Ev.close i ∈ res.events ∨ ∃ h, res.out = .ok i h := by
  intro res hne i hi
  have hinv := init_inv env url params method defaults headers cookies data jar0
  have hi' : i < 0 + (run env cfg (init env url params method defaults headers cookies data jar0) chain).sent.length := by
    rw [Nat.zero_add]; exact hi
  exact run_disposed (cfg := cfg) chain _ hinv hne i (Nat.zero_le _) hi' 

/-- a concrete A→B→A chain: the caller's `Authorization` goes to hop 0 only, the credentials
embedded in the redirect to B go to B only, and hop 2 (back on A) carries no `Authorization`
at all (the hypotheses of the confinement theorems are inhabited by real chains) -/
example :
    let a : Url := url0
    let b : Url := { origin := ⟨0, S "b.test", 80, 0⟩, hostHdr := S "b.test", target := S "/", cred := some (S "Basic B") }
    let res := request env0 {} a none GET [] [(AUTHORIZATION, S "Bearer A")] none none ()
      [⟨302, .ok b, 0⟩, ⟨302, .ok a, 0⟩, ⟨200, .none, 0⟩]
    res.sent.map (fun s => (getFirst AUTHORIZATION s.headers).map (·.value)) =
      [some (S "Bearer A"), some (S "Basic B"), none] := by decide +kernel

/-! ## connection faults: the peer closes a connection without answering (`Reply.drop`) -/

/-- the run of `ClientSession._request` when some requests are never answered -/
abbrev requestF (env : Env) (cfg : Cfg) (url : Url) (params : Option Str) (method : Str)
    (defaults headers : List (Str × Str)) (cookies : Option (List (Str × Str))) (data : Option Body)
    (jar0 : env.jar.σ) (chain : List Reply) : Result :=
  runF env cfg (initF env cfg url params method defaults headers cookies data jar0) chain

/-- Without faults the fault-aware loop is the plain loop (from any state), so everything above
is about `runF` on fault-free chains too. -/
theorem faultfree_runF_is_run (env : Env) (cfg : Cfg) (st : St env.jar.σ) (chain : List Resp) :
    runF env cfg st (chain.map Reply.resp) = run env cfg st chain :=
  runF_resp_eq_run chain st

/-- **Secrets stay confined under connection faults too**: `secrets_confined` for chains in
which any requests are dropped by the peer and transparently resent. -/
theorem secrets_confined_under_faults (env : Env) (cfg : Cfg) (url : Url) (params : Option Str) (method : Str)
    (defaults headers : List (Str × Str)) (cookies : Option (List (Str × Str))) (data : Option Body)
    (jar0 : env.jar.σ) (chain : List Reply) :
    let sent := (requestF env cfg url params method defaults headers cookies data jar0 chain).sent
    ∀ sk ∈ sent, ∀ hd ∈ sk.headers, isSecretName hd.name = true → ∀ p ∈ hd.provs,
      p.birth ≤ sk.idx ∧
      ∀ sj ∈ sent, p.birth ≤ sj.idx → sj.idx ≤ sk.idx → sj.url.origin = sk.url.origin := by
  intro sent sk hk hd hhd hsec p hp
  have ⟨hok, hstreak⟩ := runF_trace (cfg := cfg) chain _ (initF_inv env cfg url params method defaults headers cookies data jar0)
  obtain ⟨htag, _, _, _, _⟩ := hok sk hk
  have hb := htag hd hhd hsec p hp
  refine ⟨hb.2, ?_⟩
  intro sj hj h1 h2
  exact hstreak sj hj sk hk (Nat.le_trans hb.1 h1) h2

/-- **Termination under faults: the redirect budget plus ONE resend per call.**  Whatever the
peer drops, at most `max_redirects` requests are put on the wire, plus one if the call has a
resend allowance (`_retry_connection` and an idempotent first method).  The allowance is never
renewed by a redirect hop. -/
theorem at_most_max_redirects_plus_one_resend (env : Env) (cfg : Cfg) (url : Url) (params : Option Str) (method : Str)
    (defaults headers : List (Str × Str)) (cookies : Option (List (Str × Str))) (data : Option Body)
    (jar0 : env.jar.σ) (chain : List Reply) (hmax : cfg.maxRedirects ≠ 0) :
    (requestF env cfg url params method defaults headers cookies data jar0 chain).sent.length ≤
      cfg.maxRedirects + (if cfg.retryConnection && isIdempotent method then 1 else 0) := by
  have hinv := initF_inv env cfg url params method defaults headers cookies data jar0
  exact runF_count hmax chain _ hinv (by show 0 < cfg.maxRedirects; omega)

/-- **One transparent resend per call.**  Among the replies consumed by the call, the number of
dropped connections is at most the allowance (0 or 1) plus one - and that extra one is the
drop that ends the call with `ServerDisconnectedError`.  So a second disconnect is always
reported, never silently resent. -/
theorem one_resend_per_call (env : Env) (cfg : Cfg) (url : Url) (params : Option Str) (method : Str)
    (defaults headers : List (Str × Str)) (cookies : Option (List (Str × Str))) (data : Option Body)
    (jar0 : env.jar.σ) (chain : List Reply) :
    let res := requestF env cfg url params method defaults headers cookies data jar0 chain
    dropsIn chain res.sent.length ≤
      (if cfg.retryConnection && isIdempotent method then 1 else 0) + (if res.out = .err .disconnected then 1 else 0) := by
  intro res
  have hinv := initF_inv env cfg url params method defaults headers cookies data jar0
  exact runF_drops (cfg := cfg) chain _ hinv

/-- non-vacuity / the allowance at work: a dropped first attempt is resent once (3 requests for
2 hops), a second drop ends the call with the disconnect error -/
example :
    let r302 : Reply := .resp ⟨302, .ok url0, 0⟩
    let res1 := requestF env0 {} url0 none GET [] [] none none () [.drop, r302, .resp ⟨200, .none, 0⟩]
    let res2 := requestF env0 {} url0 none GET [] [] none none () [.drop, r302, .drop, .resp ⟨200, .none, 0⟩]
    (res1.sent.length = 3 ∧ res1.out = .ok 1 [0]) ∧ (res2.sent.length = 3 ∧ res2.out = .err .disconnected) := by
  decide +kernel

/-- **Deviation of the unchanged code from the literal bound (known finding C17-K2).**  The
property says "at most max_redirects requests are made"; with the single resend the wire can
carry `max_redirects + 1`: `max_redirects = 1`, the only request is dropped once, resent and
answered `200` - two requests.  (The bound `at_most_max_redirects_plus_one_resend` is tight.) -/
theorem single_resend_exceeds_max_by_one :
    let res := requestF env0 { maxRedirects := 1 } url0 none GET [] [] none none () [.drop, .resp ⟨200, .none, 0⟩]
    res.sent.length = 2 ∧ res.out = .ok 0 [] := by decide +kernel

/-- **netrc credentials are looked up for the host of the very request that carries them.**  In
every chain (with or without connection faults), a header that carries a netrc provenance is an
`Authorization` header and its value is the netrc entry of *that request's* host - never an entry
looked up for an earlier hop's host and carried along (what a per-call cache of the lookup would do). -/
theorem netrc_credential_is_for_this_host (env : Env) (cfg : Cfg) (url : Url) (params : Option Str) (method : Str)
    (defaults headers : List (Str × Str)) (cookies : Option (List (Str × Str))) (data : Option Body)
    (jar0 : env.jar.σ) (chain : List Reply) :
    ∀ sk ∈ (requestF env cfg url params method defaults headers cookies data jar0 chain).sent,
      ∀ hd ∈ sk.headers, ∀ k, Prov.netrc k ∈ hd.provs →
        ciEq hd.name AUTHORIZATION = true ∧ env.netrc sk.url.origin.host = some hd.value := by
  intro sk hk hd hhd k hp
  exact runF_netrc (cfg := cfg) chain _ (initF_netrc env cfg url params method defaults headers cookies data jar0 _) sk hk hd hhd k hp

/-- non-vacuity: with `trust_env` and a netrc entry for `a.test` only, a chain a.test → b.test sends the
entry to a.test and nothing to b.test -/
example :
    let envN : Env := { env0 with netrc := fun h => if h == S "a.test" then some (S "Basic NA") else none }
    let b : Url := { origin := ⟨0, S "b.test", 80, 0⟩, hostHdr := S "b.test", target := S "/" }
    let res := requestF envN { trustEnv := true } url0 none GET [] [] none none ()
      [.resp ⟨302, .ok b, 0⟩, .resp ⟨200, .none, 0⟩]
    res.sent.map (fun s => (getFirst AUTHORIZATION s.headers).map (·.value)) = [some (S "Basic NA"), none] := by
  decide +kernel

/-- The tables extracted from the source on every run are the documented ones: exactly 301, 302, 303,
307, 308 are followed; 303 always and 301/302 after POST are rewritten to GET; the resend allowance is
for the idempotent methods.  (If the source changes a table this stops checking, and the direct oracle
is asked for a failing input.) -/
theorem redirect_statuses_are_the_documented_five :
    Gen.C17.redirectStatuses = [301, 302, 303, 307, 308] ∧ Gen.C17.seeOtherStatuses = [303] ∧
    Gen.C17.postToGetStatuses = [301, 302] ∧
    Gen.C17.idempotentMethods = [S "DELETE", S "GET", S "HEAD", S "OPTIONS", S "PUT", S "QUERY", S "TRACE"] := by
  decide

end Aio.C17
