import AioModel.C17
namespace Aio.C17
end Aio.C17
