import AioProps.C17Lemmas
/-!
# C17 — property theorems (redirects confine credentials and terminate)

Model: `AioModel/C17.lean` (= the redirect loop of `aiohttp/client.py: ClientSession._request`
with `ClientRequest` header construction).  Every statement quantifies over **all** chains of
scripted responses (any length, any statuses, any `Location` outcomes, any origins), all
caller inputs, all cookie jars / netrc tables / cookie parsers (`Env`) and all configurations.

Vocabulary: `(run …).sent` is the list of requests put on the wire, in order; request `k`
has `idx = k`; a header / cookie pair carries the provenances of its value (`Prov`), whose
`birth` is the hop at which the value entered the loop (`caller` = 0, `url h` = the URL
requested at hop `h` carried it as userinfo, `netrc h`, `jar h` = looked up at hop `h`).
-/
namespace Aio.C17
open Aio

/-- the run of `ClientSession._request` for the given caller inputs -/
abbrev request (env : Env) (cfg : Cfg) (url : Url) (params : Option Str) (method : Str)
    (defaults headers : List (Str × Str)) (cookies : Option (List (Str × Str))) (data : Option Body)
    (jar0 : env.jar.σ) (chain : List Resp) : Result :=
  run env cfg (init env url params method defaults headers cookies data jar0) chain

/-- **Secrets are confined to the origin they were supplied for.**  Whenever a request `sk` of
the chain carries an `Authorization`, `Cookie` or `Proxy-Authorization` header, every value in
it entered the loop at some hop `b ≤ k` (the caller's at hop 0, URL-embedded credentials at the
hop whose URL carried them, jar / netrc values at the hop that looked them up) and **every**
request from hop `b` up to `sk` went to the same origin as `sk`.  So nothing supplied for one
origin is ever sent to another, whatever the statuses, `Location` forms and origin changes. -/
theorem secrets_confined (env : Env) (cfg : Cfg) (url : Url) (params : Option Str) (method : Str)
    (defaults headers : List (Str × Str)) (cookies : Option (List (Str × Str))) (data : Option Body)
    (jar0 : env.jar.σ) (chain : List Resp) :
    let sent := (request env cfg url params method defaults headers cookies data jar0 chain).sent
    ∀ sk ∈ sent, ∀ hd ∈ sk.headers, isSecretName hd.name = true → ∀ p ∈ hd.provs,
      p.birth ≤ sk.idx ∧
      ∀ sj ∈ sent, p.birth ≤ sj.idx → sj.idx ≤ sk.idx → sj.url.origin = sk.url.origin := by
  intro sent sk hk hd hhd hsec p hp
  have ⟨hok, hstreak⟩ := run_trace (cfg := cfg) chain _ (init_inv env url params method defaults headers cookies data jar0)
  obtain ⟨htag, _, _, _, _⟩ := hok sk hk
  have hb := htag hd hhd hsec p hp
  refine ⟨hb.2, ?_⟩
  intro sj hj h1 h2
  exact hstreak sj hj sk hk (Nat.le_trans hb.1 h1) h2

/-- The same for the individual pairs of a merged `Cookie` header (per-request cookies are
tagged `caller`, jar cookies `jar k`). -/
theorem cookie_pairs_confined (env : Env) (cfg : Cfg) (url : Url) (params : Option Str) (method : Str)
    (defaults headers : List (Str × Str)) (cookies : Option (List (Str × Str))) (data : Option Body)
    (jar0 : env.jar.σ) (chain : List Resp) :
    let sent := (request env cfg url params method defaults headers cookies data jar0 chain).sent
    ∀ sk ∈ sent, ∀ c ∈ sk.cookiePairs, ∀ p ∈ c.provs,
      p.birth ≤ sk.idx ∧
      ∀ sj ∈ sent, p.birth ≤ sj.idx → sj.idx ≤ sk.idx → sj.url.origin = sk.url.origin := by
  intro sent sk hk c hc p hp
  have ⟨hok, hstreak⟩ := run_trace (cfg := cfg) chain _ (init_inv env url params method defaults headers cookies data jar0)
  obtain ⟨_, hpairs, _, _, _⟩ := hok sk hk
  have hb := hpairs c hc p hp
  refine ⟨hb.2, ?_⟩
  intro sj hj h1 h2
  exact hstreak sj hj sk hk (Nat.le_trans hb.1 h1) h2

/-- **Caller-supplied secrets never leave the first origin, and A→B→A does not resurrect them.**
If a request carries a secret header value supplied by the caller (`headers=`, session default
headers, `cookies=`), then that request *and every request before it* went to the origin of the
very first request. -/
theorem caller_secret_never_leaves_first_origin (env : Env) (cfg : Cfg) (url : Url) (params : Option Str)
    (method : Str) (defaults headers : List (Str × Str)) (cookies : Option (List (Str × Str)))
    (data : Option Body) (jar0 : env.jar.σ) (chain : List Resp) :
    let sent := (request env cfg url params method defaults headers cookies data jar0 chain).sent
    ∀ sk ∈ sent, ∀ hd ∈ sk.headers, isSecretName hd.name = true → Prov.caller ∈ hd.provs →
      ∀ sj ∈ sent, sj.idx ≤ sk.idx → sj.url.origin = sk.url.origin := by
  intro sent sk hk hd hhd hsec hp sj hj hle
  exact (secrets_confined env cfg url params method defaults headers cookies data jar0 chain sk hk hd hhd hsec _ hp).2
    sj hj (Nat.zero_le _) hle

/-- **No resurrection**, stated contrapositively: once some request `sj` went to an origin other
than a later request `sk`'s, `sk` carries no caller-supplied secret and no credential that was
embedded in a URL requested at or before `sj`. -/
theorem no_resurrection (env : Env) (cfg : Cfg) (url : Url) (params : Option Str)
    (method : Str) (defaults headers : List (Str × Str)) (cookies : Option (List (Str × Str)))
    (data : Option Body) (jar0 : env.jar.σ) (chain : List Resp) :
    let sent := (request env cfg url params method defaults headers cookies data jar0 chain).sent
    ∀ sj ∈ sent, ∀ sk ∈ sent, sj.idx ≤ sk.idx → sj.url.origin ≠ sk.url.origin →
      ∀ hd ∈ sk.headers, isSecretName hd.name = true → ∀ p ∈ hd.provs, sj.idx < p.birth := by
  intro sent sj hj sk hk hle hne hd hhd hsec p hp
  have h := (secrets_confined env cfg url params method defaults headers cookies data jar0 chain sk hk hd hhd hsec p hp).2
  by_cases hb : p.birth ≤ sj.idx
  · exact absurd (h sj hj hb hle) hne
  · omega

end Aio.C17
