import AioModel.C16
import AioModel.C16Ref
/-! # C16 — helper lemmas (association lists, candidate lists, invariants) -/
namespace Aio.C16
open Aio

/-! ## association lists -/
section assoc
variable {κ ν : Type} [BEq κ] [LawfulBEq κ]

theorem aget_aset (k k' : κ) (v : ν) (l : List (κ × ν)) :
    aget k (aset k' v l) = if k' == k then some v else aget k l := by
  induction l with
  | nil => simp [aset, aget]
  | cons x t ih =>
    obtain ⟨k0, v0⟩ := x
    simp only [aset]
    by_cases h0 : (k0 == k') = true
    · have e0 : k0 = k' := by simpa using h0
      subst e0
      by_cases hk : (k0 == k) = true <;> simp [aget, hk]
    · by_cases hk' : (k' == k) = true
      · have e : k' = k := by simpa using hk'
        subst e
        simp [h0, aget, ih]
      · by_cases hk0 : (k0 == k) = true <;> simp [h0, hk', aget, ih, hk0]

theorem aget_adel (k k' : κ) (l : List (κ × ν)) :
    aget k (adel k' l) = if k' == k then none else aget k l := by
  induction l with
  | nil => simp [adel, aget]
  | cons x t ih =>
    obtain ⟨k0, v0⟩ := x
    unfold adel at ih ⊢
    by_cases h0 : (k0 == k') = true
    · have e0 : k0 = k' := by simpa using h0
      subst e0
      by_cases hk : (k0 == k) = true <;> simp [aget, hk, ih]
    · by_cases hk' : (k' == k) = true
      · have e : k' = k := by simpa using hk'
        subst e
        simp [h0, aget, ih]
      · by_cases hk0 : (k0 == k) = true <;> simp [h0, hk', aget, ih, hk0]

theorem aget_mem {k : κ} {v : ν} {l : List (κ × ν)} (h : aget k l = some v) : (k, v) ∈ l := by
  induction l with
  | nil => simp [aget] at h
  | cons x t ih =>
    obtain ⟨k0, v0⟩ := x
    by_cases hk : (k0 == k) = true
    · have e : k0 = k := by simpa using hk
      subst e
      simp [aget] at h
      subst h
      simp
    · simp [aget, hk] at h
      exact List.mem_cons_of_mem _ (ih h)

end assoc

theorem mem_sadd {α : Type} [BEq α] [LawfulBEq α] (a b : α) (l : List α) :
    b ∈ sadd a l ↔ b = a ∨ b ∈ l := by
  unfold sadd
  by_cases h : l.contains a = true
  · simp only [h, if_true]
    constructor
    · intro hb; exact Or.inr hb
    · rintro (rfl | hb)
      · simpa using h
      · exact hb
  · have h' : a ∉ l := by simpa using h
    simp only [List.contains_eq_mem, decide_eq_true_eq, h', if_false, List.mem_append, List.mem_singleton]
    exact or_comm

theorem mem_sdel {α : Type} [BEq α] [LawfulBEq α] (a b : α) (l : List α) :
    b ∈ sdel a l ↔ b ≠ a ∧ b ∈ l := by
  unfold sdel
  simp [List.mem_filter]
  exact and_comm


/-! ## `split` / `accumulate`: the candidate lists are exactly the boundary prefixes / suffixes -/

theorem splitCp_ne_nil (sep : Nat) (s : Str) : splitCp sep s ≠ [] := by
  cases s with
  | nil => simp [splitCp]
  | cons c t =>
    simp only [splitCp]
    split
    · simp
    · split <;> simp

/-- prefixes of `s` that end just before a separator, and `s` itself, each prepended with `pre` -/
def prefixesAt (sep : Nat) : Str → Str → List Str
  | pre, [] => [pre]
  | pre, c :: t => if c = sep then pre :: prefixesAt sep (pre ++ [sep]) t else prefixesAt sep (pre ++ [c]) t

theorem accumulateGo_split (sep : Nat) (s : Str) : ∀ (pre : Str) (h : Str) (r : List Str),
    splitCp sep s = h :: r →
    accumulateGo (fun acc part => acc ++ sep :: part) (pre ++ h) r = prefixesAt sep pre s := by
  induction s with
  | nil =>
    intro pre h r hs
    simp [splitCp] at hs
    obtain ⟨rfl, rfl⟩ := hs
    simp [accumulateGo, prefixesAt]
  | cons c t ih =>
    intro pre h r hs
    simp only [splitCp] at hs
    by_cases hc : c = sep
    · subst hc
      simp at hs
      obtain ⟨rfl, rfl⟩ := hs
      cases hsp : splitCp c t with
      | nil => exact absurd hsp (splitCp_ne_nil _ _)
      | cons h' r' =>
        have := ih (pre ++ [c]) h' r' hsp
        simp [accumulateGo, prefixesAt, ← this]
    · simp [hc] at hs
      cases hsp : splitCp sep t with
      | nil => exact absurd hsp (splitCp_ne_nil _ _)
      | cons h' r' =>
        rw [hsp] at hs
        simp at hs
        obtain ⟨rfl, rfl⟩ := hs
        have := ih (pre ++ [c]) h' r' hsp
        simp [prefixesAt, hc, ← this]

theorem mem_prefixesAt (sep : Nat) (s : Str) : ∀ (pre p : Str),
    p ∈ prefixesAt sep pre s ↔ p = pre ++ s ∨ ∃ a b, s = a ++ sep :: b ∧ p = pre ++ a := by
  induction s with
  | nil => intro pre p; simp [prefixesAt]
  | cons c t ih =>
    intro pre p
    by_cases hc : c = sep
    · subst hc
      simp only [prefixesAt, if_true, List.mem_cons, ih]
      constructor
      · rintro (rfl | h | ⟨a, b, rfl, rfl⟩)
        · exact Or.inr ⟨[], t, by simp, by simp⟩
        · exact Or.inl (by simp [h])
        · exact Or.inr ⟨c :: a, b, by simp, by simp⟩
      · rintro (h | ⟨a, b, hab, rfl⟩)
        · exact Or.inr (Or.inl (by simp [h]))
        · cases a with
          | nil => simp
          | cons x a' =>
            simp at hab
            obtain ⟨rfl, rfl⟩ := hab
            exact Or.inr (Or.inr ⟨a', b, rfl, by simp⟩)
    · simp only [prefixesAt, hc, if_false, ih]
      constructor
      · rintro (h | ⟨a, b, rfl, rfl⟩)
        · exact Or.inl (by simp [h])
        · exact Or.inr ⟨c :: a, b, by simp, by simp⟩
      · rintro (h | ⟨a, b, hab, rfl⟩)
        · exact Or.inl (by simp [h])
        · cases a with
          | nil => simp at hab; exact absurd hab.1 hc
          | cons x a' =>
            simp at hab
            obtain ⟨rfl, rfl⟩ := hab
            exact Or.inr ⟨a', b, rfl, by simp⟩

/-- **path candidates**: `p` is tried for request path `r` iff `p = r` or `p ++ "/"` is a prefix of `r` -/
theorem mem_pathCands (r p : Str) : p ∈ pathCands r ↔ p = r ∨ (p ++ [47]) <+: r := by
  unfold pathCands
  cases hsp : splitCp 47 r with
  | nil => exact absurd hsp (splitCp_ne_nil _ _)
  | cons h t =>
    have := accumulateGo_split 47 r [] h t hsp
    simp only [List.nil_append] at this
    simp only [accumulate, this, mem_prefixesAt, List.nil_append]
    constructor
    · rintro (h | ⟨a, b, rfl, rfl⟩)
      · exact Or.inl h
      · exact Or.inr ⟨b, by simp⟩
    · rintro (h | ⟨b, hb⟩)
      · exact Or.inl h
      · exact Or.inr ⟨p, b, by simp [← hb], rfl⟩


def joinSep (sep : Nat) : List Str → Str
  | [] => []
  | [p] => p
  | p :: q :: r => p ++ sep :: joinSep sep (q :: r)

def sufJoins (sep : Nat) : List Str → List Str
  | [] => []
  | p :: L => joinSep sep (p :: L) :: sufJoins sep L

/-- the suffixes of `s` that start just after a separator -/
def tailsAfter (sep : Nat) : Str → List Str
  | [] => []
  | c :: t => if c = sep then t :: tailsAfter sep t else tailsAfter sep t

theorem sufJoins_split (sep : Nat) (s : Str) : sufJoins sep (splitCp sep s) = s :: tailsAfter sep s := by
  induction s with
  | nil => simp [splitCp, sufJoins, joinSep, tailsAfter]
  | cons c t ih =>
    cases hsp : splitCp sep t with
    | nil => exact absurd hsp (splitCp_ne_nil _ _)
    | cons h' r' =>
      rw [hsp] at ih
      simp only [sufJoins, List.cons.injEq] at ih
      obtain ⟨hj, hr⟩ := ih
      by_cases hc : c = sep
      · subst hc
        simp [splitCp, hsp, sufJoins, joinSep, tailsAfter, hj, hr]
      · simp only [splitCp, hc, if_false, hsp, sufJoins, tailsAfter, hr, List.cons.injEq, and_true]
        cases r' with
        | nil => simp [joinSep] at hj ⊢; exact hj
        | cons q r'' => simp [joinSep] at hj ⊢; exact hj

theorem mem_tailsAfter (sep : Nat) (s d : Str) : d ∈ tailsAfter sep s ↔ (sep :: d) <:+ s := by
  induction s with
  | nil => simp [tailsAfter]
  | cons c t ih =>
    rw [List.suffix_cons_iff]
    by_cases hc : c = sep
    · subst hc
      simp [tailsAfter, ih]
    · simp only [tailsAfter, hc, if_false, ih]
      constructor
      · intro h; exact Or.inr h
      · rintro (h | h)
        · simp at h; exact absurd h.1.symm hc
        · exact h

theorem accumulateGo_snoc {α : Type} (f : α → α → α) (l : List α) : ∀ (a p : α),
    accumulateGo f a (l ++ [p]) = accumulateGo f a l ++ [f (l.foldl f a) p] := by
  induction l with
  | nil => intro a p; simp [accumulateGo]
  | cons b t ih => intro a p; simp [accumulateGo, ih]

theorem accumulateGo_getLast {α : Type} (f : α → α → α) (l : List α) : ∀ (a : α),
    (accumulateGo f a l).getLast? = some (l.foldl f a) := by
  induction l with
  | nil => intro a; simp [accumulateGo]
  | cons b t ih =>
    intro a
    simp only [accumulateGo, List.foldl_cons]
    rw [List.getLast?_cons, ih]
    simp

theorem accumulate_reverse (sep : Nat) (L : List Str) :
    accumulate (fun acc part => part ++ sep :: acc) L.reverse = (sufJoins sep L).reverse := by
  induction L with
  | nil => simp [accumulate, sufJoins]
  | cons p L' ih =>
    cases L' with
    | nil => simp [accumulate, accumulateGo, sufJoins, joinSep]
    | cons q L'' =>
      cases hrev : (q :: L'').reverse with
      | nil => simp at hrev
      | cons a l =>
        rw [hrev] at ih
        simp only [accumulate] at ih
        have hlast := accumulateGo_getLast (fun acc part => part ++ sep :: acc) l a
        rw [ih] at hlast
        simp [sufJoins] at hlast
        have : (p :: q :: L'').reverse = a :: (l ++ [p]) := by
          rw [List.reverse_cons, hrev]; rfl
        rw [this]
        simp only [accumulate, accumulateGo_snoc, ih]
        simp [sufJoins, joinSep, ← hlast]

/-- **domain candidates**: `d` is tried for host `h` iff `d = h` or `"." ++ d` is a suffix of `h` -/
theorem mem_domainCands (h d : Str) : d ∈ domainCands h ↔ d = h ∨ (46 :: d) <:+ h := by
  unfold domainCands
  rw [accumulate_reverse, List.mem_reverse, sufJoins_split, List.mem_cons, mem_tailsAfter]

end Aio.C16
