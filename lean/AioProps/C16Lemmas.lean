import AioModel.C16
import AioModel.C16Ref
/-! # C16 — helper lemmas (association lists, candidate lists, invariants) -/
namespace Aio.C16
open Aio

/-! ## association lists -/
section assoc
variable {κ ν : Type} [BEq κ] [LawfulBEq κ]

theorem aget_aset (k k' : κ) (v : ν) (l : List (κ × ν)) :
    aget k (aset k' v l) = if k' == k then some v else aget k l := by
  induction l with
  | nil => simp [aset, aget]
  | cons x t ih =>
    obtain ⟨k0, v0⟩ := x
    simp only [aset]
    by_cases h0 : (k0 == k') = true
    · have e0 : k0 = k' := by simpa using h0
      subst e0
      by_cases hk : (k0 == k) = true <;> simp [aget, hk]
    · by_cases hk' : (k' == k) = true
      · have e : k' = k := by simpa using hk'
        subst e
        simp [h0, aget, ih]
      · by_cases hk0 : (k0 == k) = true <;> simp [h0, hk', aget, ih, hk0]

theorem aget_adel (k k' : κ) (l : List (κ × ν)) :
    aget k (adel k' l) = if k' == k then none else aget k l := by
  induction l with
  | nil => simp [adel, aget]
  | cons x t ih =>
    obtain ⟨k0, v0⟩ := x
    unfold adel at ih ⊢
    by_cases h0 : (k0 == k') = true
    · have e0 : k0 = k' := by simpa using h0
      subst e0
      by_cases hk : (k0 == k) = true <;> simp [aget, hk, ih]
    · by_cases hk' : (k' == k) = true
      · have e : k' = k := by simpa using hk'
        subst e
        simp [h0, aget, ih]
      · by_cases hk0 : (k0 == k) = true <;> simp [h0, hk', aget, ih, hk0]

theorem aget_mem {k : κ} {v : ν} {l : List (κ × ν)} (h : aget k l = some v) : (k, v) ∈ l := by
  induction l with
  | nil => simp [aget] at h
  | cons x t ih =>
    obtain ⟨k0, v0⟩ := x
    by_cases hk : (k0 == k) = true
    · have e : k0 = k := by simpa using hk
      subst e
      simp [aget] at h
      subst h
      simp
    · simp [aget, hk] at h
      exact List.mem_cons_of_mem _ (ih h)

end assoc

theorem mem_sadd {α : Type} [BEq α] [LawfulBEq α] (a b : α) (l : List α) :
    b ∈ sadd a l ↔ b = a ∨ b ∈ l := by
  unfold sadd
  by_cases h : l.contains a = true
  · simp only [h, if_true]
    constructor
    · intro hb; exact Or.inr hb
    · rintro (rfl | hb)
      · simpa using h
      · exact hb
  · have h' : a ∉ l := by simpa using h
    simp only [List.contains_eq_mem, decide_eq_true_eq, h', if_false, List.mem_append, List.mem_singleton]
    exact or_comm

theorem mem_sdel {α : Type} [BEq α] [LawfulBEq α] (a b : α) (l : List α) :
    b ∈ sdel a l ↔ b ≠ a ∧ b ∈ l := by
  unfold sdel
  simp [List.mem_filter]
  exact and_comm


/-! ## `split` / `accumulate`: the candidate lists are exactly the boundary prefixes / suffixes -/

theorem splitCp_ne_nil (sep : Nat) (s : Str) : splitCp sep s ≠ [] := by
  cases s with
  | nil => simp [splitCp]
  | cons c t =>
    simp only [splitCp]
    split
    · simp
    · split <;> simp

/-- prefixes of `s` that end just before a separator, and `s` itself, each prepended with `pre` -/
def prefixesAt (sep : Nat) : Str → Str → List Str
  | pre, [] => [pre]
  | pre, c :: t => if c = sep then pre :: prefixesAt sep (pre ++ [sep]) t else prefixesAt sep (pre ++ [c]) t

theorem accumulateGo_split (sep : Nat) (s : Str) : ∀ (pre : Str) (h : Str) (r : List Str),
    splitCp sep s = h :: r →
    accumulateGo (fun acc part => acc ++ sep :: part) (pre ++ h) r = prefixesAt sep pre s := by
  induction s with
  | nil =>
    intro pre h r hs
    simp [splitCp] at hs
    obtain ⟨rfl, rfl⟩ := hs
    simp [accumulateGo, prefixesAt]
  | cons c t ih =>
    intro pre h r hs
    simp only [splitCp] at hs
    by_cases hc : c = sep
    · subst hc
      simp at hs
      obtain ⟨rfl, rfl⟩ := hs
      cases hsp : splitCp c t with
      | nil => exact absurd hsp (splitCp_ne_nil _ _)
      | cons h' r' =>
        have := ih (pre ++ [c]) h' r' hsp
        simp [accumulateGo, prefixesAt, ← this]
    · simp [hc] at hs
      cases hsp : splitCp sep t with
      | nil => exact absurd hsp (splitCp_ne_nil _ _)
      | cons h' r' =>
        rw [hsp] at hs
        simp at hs
        obtain ⟨rfl, rfl⟩ := hs
        have := ih (pre ++ [c]) h' r' hsp
        simp [prefixesAt, hc, ← this]

theorem mem_prefixesAt (sep : Nat) (s : Str) : ∀ (pre p : Str),
    p ∈ prefixesAt sep pre s ↔ p = pre ++ s ∨ ∃ a b, s = a ++ sep :: b ∧ p = pre ++ a := by
  induction s with
  | nil => intro pre p; simp [prefixesAt]
  | cons c t ih =>
    intro pre p
    by_cases hc : c = sep
    · subst hc
      simp only [prefixesAt, if_true, List.mem_cons, ih]
      constructor
      · rintro (rfl | h | ⟨a, b, rfl, rfl⟩)
        · exact Or.inr ⟨[], t, by simp, by simp⟩
        · exact Or.inl (by simp [h])
        · exact Or.inr ⟨c :: a, b, by simp, by simp⟩
      · rintro (h | ⟨a, b, hab, rfl⟩)
        · exact Or.inr (Or.inl (by simp [h]))
        · cases a with
          | nil => simp
          | cons x a' =>
            simp at hab
            obtain ⟨rfl, rfl⟩ := hab
            exact Or.inr (Or.inr ⟨a', b, rfl, by simp⟩)
    · simp only [prefixesAt, hc, if_false, ih]
      constructor
      · rintro (h | ⟨a, b, rfl, rfl⟩)
        · exact Or.inl (by simp [h])
        · exact Or.inr ⟨c :: a, b, by simp, by simp⟩
      · rintro (h | ⟨a, b, hab, rfl⟩)
        · exact Or.inl (by simp [h])
        · cases a with
          | nil => simp at hab; exact absurd hab.1 hc
          | cons x a' =>
            simp at hab
            obtain ⟨rfl, rfl⟩ := hab
            exact Or.inr ⟨a', b, rfl, by simp⟩

/-- **path candidates**: `p` is tried for request path `r` iff `p = r` or `p ++ "/"` is a prefix of `r` -/
theorem mem_pathCands (r p : Str) : p ∈ pathCands r ↔ p = r ∨ (p ++ [47]) <+: r := by
  unfold pathCands
  cases hsp : splitCp 47 r with
  | nil => exact absurd hsp (splitCp_ne_nil _ _)
  | cons h t =>
    have := accumulateGo_split 47 r [] h t hsp
    simp only [List.nil_append] at this
    simp only [accumulate, this, mem_prefixesAt, List.nil_append]
    constructor
    · rintro (h | ⟨a, b, rfl, rfl⟩)
      · exact Or.inl h
      · exact Or.inr ⟨b, by simp⟩
    · rintro (h | ⟨b, hb⟩)
      · exact Or.inl h
      · exact Or.inr ⟨p, b, by simp [← hb], rfl⟩


def joinSep (sep : Nat) : List Str → Str
  | [] => []
  | [p] => p
  | p :: q :: r => p ++ sep :: joinSep sep (q :: r)

def sufJoins (sep : Nat) : List Str → List Str
  | [] => []
  | p :: L => joinSep sep (p :: L) :: sufJoins sep L

/-- the suffixes of `s` that start just after a separator -/
def tailsAfter (sep : Nat) : Str → List Str
  | [] => []
  | c :: t => if c = sep then t :: tailsAfter sep t else tailsAfter sep t

theorem sufJoins_split (sep : Nat) (s : Str) : sufJoins sep (splitCp sep s) = s :: tailsAfter sep s := by
  induction s with
  | nil => simp [splitCp, sufJoins, joinSep, tailsAfter]
  | cons c t ih =>
    cases hsp : splitCp sep t with
    | nil => exact absurd hsp (splitCp_ne_nil _ _)
    | cons h' r' =>
      rw [hsp] at ih
      simp only [sufJoins, List.cons.injEq] at ih
      obtain ⟨hj, hr⟩ := ih
      by_cases hc : c = sep
      · subst hc
        simp [splitCp, hsp, sufJoins, joinSep, tailsAfter, hj, hr]
      · simp only [splitCp, hc, if_false, hsp, sufJoins, tailsAfter, hr, List.cons.injEq, and_true]
        cases r' with
        | nil => simp [joinSep] at hj ⊢; exact hj
        | cons q r'' => simp [joinSep] at hj ⊢; exact hj

theorem mem_tailsAfter (sep : Nat) (s d : Str) : d ∈ tailsAfter sep s ↔ (sep :: d) <:+ s := by
  induction s with
  | nil => simp [tailsAfter]
  | cons c t ih =>
    rw [List.suffix_cons_iff]
    by_cases hc : c = sep
    · subst hc
      simp [tailsAfter, ih]
    · simp only [tailsAfter, hc, if_false, ih]
      constructor
      · intro h; exact Or.inr h
      · rintro (h | h)
        · simp at h; exact absurd h.1.symm hc
        · exact h

theorem accumulateGo_snoc {α : Type} (f : α → α → α) (l : List α) : ∀ (a p : α),
    accumulateGo f a (l ++ [p]) = accumulateGo f a l ++ [f (l.foldl f a) p] := by
  induction l with
  | nil => intro a p; simp [accumulateGo]
  | cons b t ih => intro a p; simp [accumulateGo, ih]

theorem accumulateGo_getLast {α : Type} (f : α → α → α) (l : List α) : ∀ (a : α),
    (accumulateGo f a l).getLast? = some (l.foldl f a) := by
  induction l with
  | nil => intro a; simp [accumulateGo]
  | cons b t ih =>
    intro a
    simp only [accumulateGo, List.foldl_cons]
    rw [List.getLast?_cons, ih]
    simp

theorem accumulate_reverse (sep : Nat) (L : List Str) :
    accumulate (fun acc part => part ++ sep :: acc) L.reverse = (sufJoins sep L).reverse := by
  induction L with
  | nil => simp [accumulate, sufJoins]
  | cons p L' ih =>
    cases L' with
    | nil => simp [accumulate, accumulateGo, sufJoins, joinSep]
    | cons q L'' =>
      cases hrev : (q :: L'').reverse with
      | nil => simp at hrev
      | cons a l =>
        rw [hrev] at ih
        simp only [accumulate] at ih
        have hlast := accumulateGo_getLast (fun acc part => part ++ sep :: acc) l a
        rw [ih] at hlast
        simp [sufJoins] at hlast
        have : (p :: q :: L'').reverse = a :: (l ++ [p]) := by
          rw [List.reverse_cons, hrev]; rfl
        rw [this]
        simp only [accumulate, accumulateGo_snoc, ih]
        simp [sufJoins, joinSep, ← hlast]

/-- **domain candidates**: `d` is tried for host `h` iff `d = h` or `"." ++ d` is a suffix of `h` -/
theorem mem_domainCands (h d : Str) : d ∈ domainCands h ↔ d = h ∨ (46 :: d) <:+ h := by
  unfold domainCands
  rw [accumulate_reverse, List.mem_reverse, sufJoins_split, List.mem_cons, mem_tailsAfter]


/-! ## the path test and the domain test against RFC 6265 §5.1.4 / §5.1.3 -/

theorem head_dropWhile_false {α : Type} (p : α → Bool) (l : List α) (x : α)
    (h : (l.dropWhile p).head? = some x) : p x = false := by
  induction l with
  | nil => simp at h
  | cons a t ih =>
    simp only [List.dropWhile] at h
    split at h
    · exact ih h
    · next hp => simp at h; subst h; simpa using hp

theorem rstripSlash_getLast (p : Str) : (rstripSlash p).getLast? ≠ some 47 := by
  unfold rstripSlash
  rw [List.getLast?_reverse]
  intro h
  have := head_dropWhile_false _ _ _ h
  simp at this

/-- a cookie path with at most one trailing slash -/
def Tame (cp : Str) : Prop := cp = rstripSlash cp ∨ cp = rstripSlash cp ++ [47]

theorem prefix_snoc_iff (k r : Str) (c : Nat) :
    (k ++ [c]) <+: r ↔ k <+: r ∧ (r.drop k.length).head? = some c := by
  constructor
  · rintro ⟨b, rfl⟩
    refine ⟨⟨c :: b, by simp⟩, ?_⟩
    simp
  · rintro ⟨⟨t, rfl⟩, h⟩
    simp at h
    cases t with
    | nil => simp at h
    | cons x t' =>
      simp at h
      subst h
      exact ⟨t', by simp⟩

/-- the jar's path test (stripped key among the candidates, `len(cookie["path"]) ≤ len(request path)`)
is RFC 6265 path-match for every cookie path with at most one trailing slash -/
theorem pathOK_iff (cp r : Str) (h : Tame cp) :
    (rstripSlash cp ∈ pathCands r ∧ ¬ cp.length > r.length) ↔ Ref.pathMatch r cp = true := by
  have hk := rstripSlash_getLast cp
  unfold Tame at h
  rw [mem_pathCands]
  unfold Ref.pathMatch
  simp only [Bool.or_eq_true, beq_iff_eq, Bool.and_eq_true, List.isPrefixOf_iff_prefix]
  generalize rstripSlash cp = k at h hk
  rcases h with h | h
  · subst h
    simp only [hk, false_or, prefix_snoc_iff]
    constructor
    · rintro ⟨h1 | h1, _⟩
      · exact Or.inl h1.symm
      · exact Or.inr h1
    · rintro (h1 | h1)
      · subst h1; exact ⟨Or.inl rfl, by omega⟩
      · exact ⟨Or.inr h1, by have := h1.1.length_le; omega⟩
  · subst h
    have hl : (k ++ [47]).getLast? = some 47 := by simp
    simp only [hl, true_or, and_true]
    constructor
    · rintro ⟨h1 | h1, h2⟩
      · subst h1; simp at h2
      · exact Or.inr h1
    · rintro (h1 | h1)
      · subst h1; exact ⟨Or.inr (List.prefix_refl _), by omega⟩
      · exact ⟨Or.inr h1, by have := h1.length_le; omega⟩

theorem isDomainMatch_iff (d h : Str) (hd : d ≠ []) :
    isDomainMatch d h = true ↔ Ref.domainMatch h d = true := by
  unfold isDomainMatch Ref.domainMatch
  by_cases heq : h = d
  · subst heq; simp
  · have hne : (h == d) = false := by simpa using heq
    simp only [hne, Bool.false_eq_true, if_false, Bool.false_or, Bool.and_eq_true, Bool.not_eq_true',
      List.isSuffixOf_iff_suffix]
    by_cases hs : d <:+ h
    · obtain ⟨non, rfl⟩ := hs
      have hlen : d.length ≠ 0 := by
        intro h0; exact hd (List.length_eq_zero_iff.mp h0)
      have htake : (non ++ d).take ((non ++ d).length - d.length) = non := by simp
      have hsuf : (46 :: d) <:+ (non ++ d) ↔ non.getLast? = some 46 := by
        constructor
        · rintro ⟨y, hy⟩
          have : (y ++ [46]) ++ d = non ++ d := by simpa using hy
          have := List.append_cancel_right this
          subst this
          simp
        · intro hl
          obtain ⟨y, rfl⟩ : ∃ y, non = y ++ [46] := by
            cases hnl : non.reverse with
            | nil => simp at hnl; subst hnl; simp at hl
            | cons x t =>
              have : non = t.reverse ++ [x] := by
                have := congrArg List.reverse hnl; simpa using this
              subst this
              simp at hl
              subst hl
              exact ⟨_, rfl⟩
          exact ⟨y, by simp⟩
      have hs' : (d.isSuffixOf (non ++ d)) = true := by simp
      simp only [hs', Bool.not_true, Bool.false_eq_true, if_false, hlen, htake, hsuf]
      by_cases hl : non.getLast? = some 46
      · simp [hl]
      · simp [hl]
    · have hs' : (d.isSuffixOf h) = false := by
        rw [← Bool.not_eq_true, List.isSuffixOf_iff_suffix]; exact hs
      simp only [hs', Bool.not_false, if_true, Bool.false_eq_true, false_iff, not_and]
      intro _ h46
      exact hs ((List.suffix_cons 46 d).trans h46)


/-! ## state invariants (hold after every history, see `inv_run`) -/

structure Inv (j : Jar) : Prop where
  /-- the Morsel's own domain is the key's domain and the key's path is the stripped Morsel path -/
  fields : ∀ e ∈ j.cookies, e.c.domain = e.dom ∧ e.pkey = rstripSlash e.c.path
  /-- one entry per `(domain, path, name)` -/
  uniq : j.cookies.Pairwise (fun a b => a.key ≠ b.key)
  /-- the Morsel cache is never stale -/
  cache : ∀ k v, aget k j.cache = some v → ∀ e ∈ j.cookies, e.key = k → e.c.value = v
  /-- every recorded deadline is scheduled on the heap -/
  heap : ∀ k w, aget k j.expirations = some w → (w, k) ∈ j.heap
  /-- every stored cookie sits under a key of the `_cookies` dict -/
  keysCover : ∀ e ∈ j.cookies, (e.dom, e.pkey) ∈ j.keys

theorem inv_empty : Inv {} := by
  constructor <;> simp [aget]

theorem inv_hostOnly (j : Jar) (ho : List (Str × Str)) (h : Inv j) : Inv { j with hostOnly := ho } :=
  ⟨h.fields, h.uniq, h.cache, h.heap, h.keysCover⟩

theorem inv_expireCookie (j : Jar) (w : Int) (k : Key) (h : Inv j) : Inv (expireCookie j w k) := by
  unfold expireCookie
  split
  · exact h
  · refine ⟨h.fields, h.uniq, h.cache, ?_, h.keysCover⟩
    intro k' w' hk
    simp only [aget_aset] at hk
    split at hk
    · next hkk =>
      have : k = k' := by simpa using hkk
      subst this
      simp at hk; subst hk
      simp
    · exact List.mem_cons_of_mem _ (h.heap k' w' hk)

/-! ### deletion -/

theorem deleteCookies_cookies_eq (ks : List Key) : ∀ (j : Jar),
    (deleteCookies j ks).cookies = j.cookies.filter (fun e => !(ks.contains e.key)) := by
  induction ks with
  | nil =>
    intro j
    simp only [deleteCookies, List.foldl_nil, List.contains_nil, Bool.not_false]
    exact (List.filter_eq_self.mpr (fun _ _ => rfl)).symm
  | cons k t ih =>
    intro j
    have := ih (deleteOne j k)
    simp only [deleteCookies, List.foldl_cons] at this ⊢
    rw [this]
    simp only [deleteOne, List.filter_filter]
    apply List.filter_congr
    intro e _
    simp only [List.contains_cons, Bool.not_or]
    exact Bool.and_comm _ _

theorem deleteCookies_cookies (ks : List Key) : ∀ (j : Jar) (e : Entry),
    e ∈ (deleteCookies j ks).cookies ↔ e ∈ j.cookies ∧ e.key ∉ ks := by
  induction ks with
  | nil => intro j e; simp [deleteCookies]
  | cons k t ih =>
    intro j e
    have := ih (deleteOne j k) e
    simp only [deleteCookies, List.foldl_cons] at this ⊢
    rw [this]
    simp only [deleteOne, List.mem_filter, Bool.not_eq_true', beq_eq_false_iff_ne, List.mem_cons, not_or]
    constructor
    · rintro ⟨⟨h1, h2⟩, h3⟩; exact ⟨h1, h2, h3⟩
    · rintro ⟨h1, h2, h3⟩; exact ⟨⟨h1, h2⟩, h3⟩

theorem deleteCookies_exp (ks : List Key) : ∀ (j : Jar) (k : Key),
    aget k (deleteCookies j ks).expirations = if k ∈ ks then none else aget k j.expirations := by
  induction ks with
  | nil => intro j k; simp [deleteCookies]
  | cons k0 t ih =>
    intro j k
    have := ih (deleteOne j k0) k
    simp only [deleteCookies, List.foldl_cons] at this ⊢
    rw [this]
    simp only [deleteOne, aget_adel, List.mem_cons]
    by_cases h1 : k ∈ t
    · simp [h1]
    · by_cases h2 : k0 = k
      · subst h2; simp
      · have : ¬ k = k0 := fun h => h2 h.symm
        simp [h1, h2, this]

theorem deleteCookies_cache (ks : List Key) : ∀ (j : Jar) (k : Key),
    aget k (deleteCookies j ks).cache = if k ∈ ks then none else aget k j.cache := by
  induction ks with
  | nil => intro j k; simp [deleteCookies]
  | cons k0 t ih =>
    intro j k
    have := ih (deleteOne j k0) k
    simp only [deleteCookies, List.foldl_cons] at this ⊢
    rw [this]
    simp only [deleteOne, aget_adel, List.mem_cons]
    by_cases h1 : k ∈ t
    · simp [h1]
    · by_cases h2 : k0 = k
      · subst h2; simp
      · have : ¬ k = k0 := fun h => h2 h.symm
        simp [h1, h2, this]

theorem deleteCookies_heap (ks : List Key) : ∀ (j : Jar), (deleteCookies j ks).heap = j.heap := by
  induction ks with
  | nil => intro j; simp [deleteCookies]
  | cons k0 t ih =>
    intro j
    have := ih (deleteOne j k0)
    simp only [deleteCookies, List.foldl_cons] at this ⊢
    rw [this]
    simp [deleteOne]

theorem deleteCookies_hostOnly (ks : List Key) : ∀ (j : Jar) (dn : Str × Str),
    dn ∈ (deleteCookies j ks).hostOnly ↔ dn ∈ j.hostOnly ∧ ∀ k ∈ ks, dn ≠ (k.1, k.2.2) := by
  induction ks with
  | nil => intro j dn; simp [deleteCookies]
  | cons k0 t ih =>
    intro j dn
    have := ih (deleteOne j k0) dn
    simp only [deleteCookies, List.foldl_cons] at this ⊢
    rw [this]
    simp only [deleteOne, mem_sdel, List.mem_cons, forall_eq_or_imp]
    constructor
    · rintro ⟨⟨h1, h2⟩, h3⟩; exact ⟨h2, h1, h3⟩
    · rintro ⟨h2, h1, h3⟩; exact ⟨⟨h1, h2⟩, h3⟩

theorem deleteCookies_keys_sub (ks : List Key) : ∀ (j : Jar) (dp : Str × Str),
    dp ∈ j.keys → dp ∈ (deleteCookies j ks).keys := by
  induction ks with
  | nil => intro j dp h; exact h
  | cons k t ih =>
    intro j dp h
    simp only [deleteCookies, List.foldl_cons]
    apply ih (deleteOne j k) dp
    simp only [deleteOne, mem_sadd]
    exact Or.inr h

theorem inv_deleteCookies (j : Jar) (ks : List Key) (h : Inv j) : Inv (deleteCookies j ks) := by
  constructor
  · intro e he
    exact h.fields e ((deleteCookies_cookies ks j e).mp he).1
  · rw [deleteCookies_cookies_eq]
    exact h.uniq.filter _
  · intro k v hk e he hek
    rw [deleteCookies_cache] at hk
    split at hk
    · cases hk
    · exact h.cache k v hk e ((deleteCookies_cookies ks j e).mp he).1 hek
  · intro k w hk
    rw [deleteCookies_exp] at hk
    rw [deleteCookies_heap]
    split at hk
    · cases hk
    · exact h.heap k w hk
  · intro e he
    exact deleteCookies_keys_sub ks j _ (h.keysCover e ((deleteCookies_cookies ks j e).mp he).1)

/-! ### `_do_expiration` -/

/-- the heap after the optional clean-up of `_do_expiration` -/
def cleanedHeap (j : Jar) : List (Int × Key) :=
  if j.heap.length > Gen.C16.minScheduled && j.heap.length > j.expirations.length * 2 then
    j.heap.filter (fun e => aget e.2 j.expirations == some e.1)
  else j.heap

def dueKeys (j : Jar) (now : Int) : List Key :=
  (((cleanedHeap j).filter (fun e => e.1 ≤ now)).filter (fun e => aget e.2 j.expirations == some e.1)).map (fun e => e.2)

theorem doExpiration_eq (j : Jar) (now : Int) :
    doExpiration j now =
      if j.heap.isEmpty then j
      else deleteCookies { j with heap := (cleanedHeap j).filter (fun e => !(decide (e.1 ≤ now))) } (dueKeys j now) := by
  unfold doExpiration dueKeys cleanedHeap
  rfl

theorem cleanedHeap_mem (j : Jar) (k : Key) (w : Int) (h : (w, k) ∈ j.heap)
    (hk : aget k j.expirations = some w) : (w, k) ∈ cleanedHeap j := by
  unfold cleanedHeap
  split
  · simp [List.mem_filter, h, hk]
  · exact h

theorem mem_dueKeys (j : Jar) (now : Int) (k : Key) (w : Int) (hI : Inv j)
    (hk : aget k j.expirations = some w) (hw : w ≤ now) : k ∈ dueKeys j now := by
  unfold dueKeys
  simp only [List.mem_map, List.mem_filter]
  exact ⟨(w, k), ⟨⟨cleanedHeap_mem j k w (hI.heap k w hk) hk, by simpa using hw⟩, by simp [hk]⟩, rfl⟩

theorem dueKeys_due (j : Jar) (now : Int) (k : Key) (h : k ∈ dueKeys j now) :
    ∃ w, aget k j.expirations = some w ∧ w ≤ now := by
  unfold dueKeys at h
  simp only [List.mem_map, List.mem_filter] at h
  obtain ⟨⟨w, k'⟩, ⟨⟨_, h2⟩, h3⟩, rfl⟩ := h
  exact ⟨w, by simpa using h3, by simpa using h2⟩

theorem inv_deleteCookies' (j : Jar) (ks : List Key)
    (hf : ∀ e ∈ j.cookies, e.c.domain = e.dom ∧ e.pkey = rstripSlash e.c.path)
    (hu : j.cookies.Pairwise (fun a b => a.key ≠ b.key))
    (hc : ∀ k v, aget k j.cache = some v → ∀ e ∈ j.cookies, e.key = k → e.c.value = v)
    (hh : ∀ k w, k ∉ ks → aget k j.expirations = some w → (w, k) ∈ j.heap)
    (hk : ∀ e ∈ j.cookies, (e.dom, e.pkey) ∈ j.keys) :
    Inv (deleteCookies j ks) := by
  constructor
  · intro e he
    exact hf e ((deleteCookies_cookies ks j e).mp he).1
  · rw [deleteCookies_cookies_eq]
    exact hu.filter _
  · intro k v hk e he hek
    rw [deleteCookies_cache] at hk
    split at hk
    · cases hk
    · exact hc k v hk e ((deleteCookies_cookies ks j e).mp he).1 hek
  · intro k w hk
    rw [deleteCookies_exp] at hk
    rw [deleteCookies_heap]
    split at hk
    · cases hk
    · next hn => exact hh k w hn hk
  · intro e he
    exact deleteCookies_keys_sub ks j _ (hk e ((deleteCookies_cookies ks j e).mp he).1)

theorem inv_doExpiration (j : Jar) (now : Int) (h : Inv j) : Inv (doExpiration j now) := by
  rw [doExpiration_eq]
  split
  · exact h
  · refine inv_deleteCookies' { j with heap := (cleanedHeap j).filter (fun e => !(decide (e.1 ≤ now))) } _
      h.fields h.uniq h.cache ?_ h.keysCover
    intro k w hn hk
    simp only at hk ⊢
    refine List.mem_filter.mpr ⟨cleanedHeap_mem j k w (h.heap k w hk) hk, ?_⟩
    by_cases hw : w ≤ now
    · exact absurd (mem_dueKeys j now k w h hk hw) hn
    · simpa using hw

/-- after `_do_expiration` no recorded deadline is `≤ now` -/
theorem doExpiration_noExpired (j : Jar) (now : Int) (h : Inv j) (k : Key) (w : Int)
    (hk : aget k (doExpiration j now).expirations = some w) : now < w := by
  rw [doExpiration_eq] at hk
  split at hk
  · next he =>
    have := h.heap k w hk
    have hnil : j.heap = [] := by simpa using he
    rw [hnil] at this
    simp at this
  · rw [deleteCookies_exp] at hk
    split at hk
    · cases hk
    · next hn =>
      simp only at hk
      by_cases hw : w ≤ now
      · exact absurd (mem_dueKeys j now k w h hk hw) hn
      · omega

theorem doExpiration_cookies (j : Jar) (now : Int) (e : Entry) :
    e ∈ (doExpiration j now).cookies ↔ e ∈ j.cookies ∧ (j.heap.isEmpty = true ∨ e.key ∉ dueKeys j now) := by
  rw [doExpiration_eq]
  split
  · next h => simp [h]
  · next h => rw [deleteCookies_cookies]; simp [h]

theorem doExpiration_exp (j : Jar) (now : Int) (k : Key) (w : Int)
    (h : aget k (doExpiration j now).expirations = some w) : aget k j.expirations = some w := by
  rw [doExpiration_eq] at h
  split at h
  · exact h
  · rw [deleteCookies_exp] at h
    split at h
    · cases h
    · exact h

theorem doExpiration_exp_keep (j : Jar) (now : Int) (hI : Inv j) (k : Key) (w : Int)
    (h : aget k j.expirations = some w) (hw : now < w) :
    aget k (doExpiration j now).expirations = some w := by
  rw [doExpiration_eq]
  split
  · exact h
  · rw [deleteCookies_exp]
    split
    · next hm =>
      obtain ⟨w', h1, h2⟩ := dueKeys_due j now k hm
      rw [h] at h1; cases h1; omega
    · exact h

theorem doExpiration_hostOnly_sub (j : Jar) (now : Int) (dn : Str × Str)
    (h : dn ∈ (doExpiration j now).hostOnly) : dn ∈ j.hostOnly := by
  rw [doExpiration_eq] at h
  split at h
  · exact h
  · exact ((deleteCookies_hostOnly _ _ dn).mp h).1



/-! ### storing -/

theorem pairwise_key_eq {l : List Entry} (h : l.Pairwise (fun a b => a.key ≠ b.key))
    {a b : Entry} (ha : a ∈ l) (hb : b ∈ l) (hk : a.key = b.key) : a = b := by
  induction l with
  | nil => simp at ha
  | cons x t ih =>
    rw [List.pairwise_cons] at h
    rcases List.mem_cons.mp ha with rfl | ha' <;> rcases List.mem_cons.mp hb with rfl | hb'
    · rfl
    · exact absurd hk (h.1 b hb')
    · exact absurd hk.symm (h.1 a ha')
    · exact ih h.2 ha' hb'

theorem mem_putEntry_sub (e x : Entry) (l : List Entry) (h : x ∈ putEntry e l) : x = e ∨ x ∈ l := by
  induction l with
  | nil => simp [putEntry] at h; exact Or.inl h
  | cons a t ih =>
    simp only [putEntry] at h
    split at h
    · rcases List.mem_cons.mp h with h | h
      · exact Or.inl h
      · exact Or.inr (List.mem_cons_of_mem _ h)
    · rcases List.mem_cons.mp h with h | h
      · exact Or.inr (h ▸ List.mem_cons_self)
      · rcases ih h with h | h
        · exact Or.inl h
        · exact Or.inr (List.mem_cons_of_mem _ h)

theorem mem_putEntry_self (e : Entry) (l : List Entry) : e ∈ putEntry e l := by
  induction l with
  | nil => simp [putEntry]
  | cons a t ih =>
    simp only [putEntry]
    split
    · exact List.mem_cons_self
    · exact List.mem_cons_of_mem _ ih

theorem mem_putEntry_of_mem (e x : Entry) (l : List Entry) (h : x ∈ l) (hk : x.key ≠ e.key) :
    x ∈ putEntry e l := by
  induction l with
  | nil => simp at h
  | cons a t ih =>
    simp only [putEntry]
    split
    · next hak =>
      have hak' : a.key = e.key := by simpa using hak
      rcases List.mem_cons.mp h with rfl | h
      · exact absurd hak' hk
      · exact List.mem_cons_of_mem _ h
    · rcases List.mem_cons.mp h with rfl | h
      · exact List.mem_cons_self
      · exact List.mem_cons_of_mem _ (ih h)

theorem putEntry_pairwise (e : Entry) (l : List Entry) (h : l.Pairwise (fun a b => a.key ≠ b.key)) :
    (putEntry e l).Pairwise (fun a b => a.key ≠ b.key) := by
  induction l with
  | nil => simp [putEntry]
  | cons a t ih =>
    rw [List.pairwise_cons] at h
    simp only [putEntry]
    split
    · next hak =>
      have hak' : a.key = e.key := by simpa using hak
      rw [List.pairwise_cons]
      exact ⟨fun b hb => hak' ▸ h.1 b hb, h.2⟩
    · next hak =>
      have hak' : a.key ≠ e.key := by simpa using hak
      rw [List.pairwise_cons]
      refine ⟨?_, ih h.2⟩
      intro b hb
      rcases mem_putEntry_sub e b t hb with rfl | hb
      · exact hak'
      · exact h.1 b hb

theorem putEntry_key (e x : Entry) (l : List Entry) (h : l.Pairwise (fun a b => a.key ≠ b.key))
    (hx : x ∈ putEntry e l) (hk : x.key = e.key) : x = e :=
  pairwise_key_eq (putEntry_pairwise e l h) hx (mem_putEntry_self e l) hk

theorem inv_storeEntry (j : Jar) (e : Entry) (h : Inv j)
    (he : e.c.domain = e.dom ∧ e.pkey = rstripSlash e.c.path) : Inv (storeEntry j e) := by
  unfold storeEntry
  constructor
  · intro x hx
    rcases mem_putEntry_sub e x _ hx with rfl | hx
    · exact he
    · exact h.fields x hx
  · exact putEntry_pairwise e _ h.uniq
  · intro k v hk x hx hxk
    simp only [aget_adel] at hk
    split at hk
    · cases hk
    · next hne =>
      have hne' : e.key ≠ k := by simpa using hne
      rcases mem_putEntry_sub e x _ hx with rfl | hx
      · exact absurd hxk hne'
      · exact h.cache k v hk x hx hxk
  · exact h.heap
  · intro x hx
    simp only [mem_sadd]
    rcases mem_putEntry_sub e x _ hx with rfl | hx
    · exact Or.inl rfl
    · exact Or.inr (h.keysCover x hx)


/-! ### `update_cookies` -/

/-- the path the cookie is stored with -/
def effPath (rpath : Str) (r : Raw) : Str :=
  if r.path.isEmpty || r.path.head? != some 47 then defaultPath rpath else r.path

/-- the Max-Age / Expires stage of the loop body -/
def expStage (now : Int) (j : Jar) (r : Raw) (k : Key) : Jar :=
  match r.maxAge with
  | .val d => expireCookie j (min (now + d) Gen.C16.maxTime) k
  | .bad => j
  | .absent =>
    match r.expires with
    | .val t => if t = 0 then j else expireCookie j t k
    | _ => j

def entryOf (rpath : Str) (r : Raw) (domain : Str) : Entry :=
  ⟨domain, rstripSlash (effPath rpath r), ⟨r.name, r.value, domain, effPath rpath r, r.secure⟩⟩

theorem acceptOne_eq (now : Int) (host : Option Str) (rpath : Str) (j : Jar) (r : Raw) :
    acceptOne now host rpath j r =
      if rejected host (normDomain j host r.name r.domain).2 then (normDomain j host r.name r.domain).1
      else storeEntry
        (expStage now (normDomain j host r.name r.domain).1 r
          ((normDomain j host r.name r.domain).2, rstripSlash (effPath rpath r), r.name))
        (entryOf rpath r (normDomain j host r.name r.domain).2) := by
  rfl

theorem normDomain_fst (j : Jar) (host : Option Str) (name d : Str) :
    (normDomain j host name d).1 = j ∨
      ∃ h, host = some h ∧ (normDomain j host name d).1 = { j with hostOnly := sadd (h, name) j.hostOnly } := by
  cases host with
  | none => exact Or.inl rfl
  | some h =>
    unfold normDomain
    dsimp only
    generalize (if (d.getLast? == some 46) = true then ([] : Str) else d) = d'
    cases hd : d'.isEmpty
    · left; simp only [Bool.false_eq_true, if_false]
    · right; exact ⟨h, rfl, by simp only [if_true]⟩

theorem inv_normDomain (j : Jar) (host : Option Str) (name d : Str) (h : Inv j) :
    Inv (normDomain j host name d).1 := by
  rcases normDomain_fst j host name d with h1 | ⟨_, _, h1⟩ <;> rw [h1]
  · exact h
  · exact inv_hostOnly j _ h

theorem inv_expStage (now : Int) (j : Jar) (r : Raw) (k : Key) (h : Inv j) : Inv (expStage now j r k) := by
  unfold expStage
  split
  · exact inv_expireCookie _ _ _ h
  · exact h
  · split
    · split
      · exact h
      · exact inv_expireCookie _ _ _ h
    · exact h

theorem inv_acceptOne (now : Int) (host : Option Str) (rpath : Str) (j : Jar) (r : Raw) (h : Inv j) :
    Inv (acceptOne now host rpath j r) := by
  rw [acceptOne_eq]
  split
  · exact inv_normDomain j host _ _ h
  · exact inv_storeEntry _ _ (inv_expStage _ _ _ _ (inv_normDomain j host _ _ h)) ⟨rfl, rfl⟩

theorem inv_foldl_acceptOne (now : Int) (host : Option Str) (rpath : Str) (rs : List Raw) :
    ∀ (j : Jar), Inv j → Inv (rs.foldl (acceptOne now host rpath) j) := by
  induction rs with
  | nil => intro j h; exact h
  | cons r t ih => intro j h; exact ih _ (inv_acceptOne now host rpath j r h)

theorem inv_update (allowIp : Bool) (now : Int) (host : Option Str) (rpath : Str) (j : Jar) (rs : List Raw)
    (h : Inv j) : Inv (update allowIp now host rpath j rs) := by
  unfold update
  split
  · exact h
  · exact inv_doExpiration _ _ (inv_foldl_acceptOne now host rpath rs j h)

/-! ### `filter_cookies` -/

theorem assign_spec (j : Jar) (out : List (Str × Str)) (e : Entry) (h : Inv j) (he : e ∈ j.cookies) :
    (assign (j, out) e).2 = aset e.c.name e.c.value out ∧
    (assign (j, out) e).1.cookies = j.cookies ∧ (assign (j, out) e).1.hostOnly = j.hostOnly ∧
    (assign (j, out) e).1.expirations = j.expirations ∧ (assign (j, out) e).1.heap = j.heap ∧
    Inv (assign (j, out) e).1 := by
  unfold assign sendValue
  cases hc : aget e.key j.cache with
  | some v =>
    have := h.cache _ _ hc e he rfl
    subst this
    exact ⟨rfl, rfl, rfl, rfl, rfl, h⟩
  | none =>
    refine ⟨rfl, rfl, rfl, rfl, rfl, ⟨h.fields, h.uniq, ?_, h.heap, h.keysCover⟩⟩
    intro k v hk x hx hxk
    simp only [aget_aset] at hk
    split at hk
    · next hek =>
      have hek' : e.key = k := by simpa using hek
      have : x = e := pairwise_key_eq h.uniq hx he (hxk.trans hek'.symm)
      subst this
      simp at hk
      exact hk
    · exact h.cache k v hk x hx hxk

theorem fold_assign (hs : List Entry) : ∀ (j : Jar) (out : List (Str × Str)), Inv j →
    (∀ e ∈ hs, e ∈ j.cookies) →
    (hs.foldl assign (j, out)).1.cookies = j.cookies ∧
    (hs.foldl assign (j, out)).1.hostOnly = j.hostOnly ∧
    (hs.foldl assign (j, out)).1.expirations = j.expirations ∧
    (hs.foldl assign (j, out)).1.heap = j.heap ∧
    Inv (hs.foldl assign (j, out)).1 ∧
    (∀ n v, aget n (hs.foldl assign (j, out)).2 = some v →
      aget n out = some v ∨ ∃ e ∈ hs, e.c.name = n ∧ e.c.value = v) ∧
    (∀ n, (aget n out).isSome → (aget n (hs.foldl assign (j, out)).2).isSome) ∧
    (∀ e ∈ hs, (aget e.c.name (hs.foldl assign (j, out)).2).isSome) := by
  induction hs with
  | nil => intro j out h _; simp [h]
  | cons e t ih =>
    intro j out h hsub
    have he := hsub e List.mem_cons_self
    obtain ⟨a2, a3, a4, a5, a6, a7⟩ := assign_spec j out e h he
    have hsub' : ∀ x ∈ t, x ∈ (assign (j, out) e).1.cookies := by
      intro x hx; rw [a3]; exact hsub x (List.mem_cons_of_mem _ hx)
    have := ih (assign (j, out) e).1 (assign (j, out) e).2 a7 hsub'
    simp only [List.foldl_cons]
    obtain ⟨b1, b2, b3, b4, b5, b6, b7, b8⟩ := this
    refine ⟨b1.trans a3, b2.trans a4, b3.trans a5, b4.trans a6, b5, ?_, ?_, ?_⟩
    · intro n v hv
      rcases b6 n v hv with h1 | ⟨x, hx, h1⟩
      · rw [a2, aget_aset] at h1
        split at h1
        · next hn =>
          have hn' : e.c.name = n := by simpa using hn
          exact Or.inr ⟨e, List.mem_cons_self, hn', by simpa using h1⟩
        · exact Or.inl h1
      · exact Or.inr ⟨x, List.mem_cons_of_mem _ hx, h1⟩
    · intro n hn
      apply b7
      rw [a2, aget_aset]
      split
      · rfl
      · exact hn
    · intro x hx
      rcases List.mem_cons.mp hx with rfl | hx
      · apply b7
        rw [a2, aget_aset]
        simp
      · exact b8 x hx


theorem hits_sub (allowIp : Bool) (j : Jar) (host rpath : Str) (sec : Bool) :
    ∀ e ∈ hits allowIp j host rpath sec, e ∈ j.cookies := by
  intro e he
  unfold hits at he
  simp only [atKey] at he
  split at he
  · exact (List.mem_filter.mp he).1
  · rcases List.mem_append.mp he with he | he
    · exact (List.mem_filter.mp he).1
    · simp only [List.mem_flatMap, List.mem_filter] at he
      obtain ⟨_, _, ⟨he, _⟩, _⟩ := he
      exact he

/-- `self._cookies[("", "")]` in `filter_cookies` creates the shared key -/
def withShared (j : Jar) : Jar := { j with keys := sadd ([], []) j.keys }

theorem inv_withShared (j : Jar) (h : Inv j) : Inv (withShared j) :=
  ⟨h.fields, h.uniq, h.cache, h.heap, fun e he => (mem_sadd _ _ _).mpr (Or.inr (h.keysCover e he))⟩

theorem filter_eq (allowIp : Bool) (now : Int) (j : Jar) (host rpath : Str) (sec : Bool) :
    filter allowIp now j host rpath sec =
      if j.keys.isEmpty then (j, [])
      else (hits allowIp (doExpiration j now) host rpath sec).foldl assign (withShared (doExpiration j now), []) := by
  rfl

theorem hits_sub' (allowIp : Bool) (j : Jar) (host rpath : Str) (sec : Bool) :
    ∀ e ∈ hits allowIp j host rpath sec, e ∈ (withShared j).cookies := hits_sub allowIp j host rpath sec

theorem inv_filter (allowIp : Bool) (now : Int) (j : Jar) (host rpath : Str) (sec : Bool) (h : Inv j) :
    Inv (filter allowIp now j host rpath sec).1 := by
  rw [filter_eq]
  split
  · exact h
  · exact (fold_assign _ _ [] (inv_withShared _ (inv_doExpiration j now h)) (hits_sub' _ _ _ _ _)).2.2.2.2.1

theorem inv_clearDomain (now : Int) (j : Jar) (d : Str) (h : Inv j) : Inv (clearDomain now j d) := by
  unfold clearDomain
  exact inv_deleteCookies _ _ h

theorem inv_load (allowIp : Bool) (now : Int) (data : List Saved) : Inv (load allowIp now data) := by
  unfold load
  apply inv_doExpiration
  suffices H : ∀ (j : Jar), Inv j → Inv (data.foldl (fun (j : Jar) (s : Saved) =>
      let host : Option Str := if s.dom.isEmpty then none else some (s.dom.map lowerCp)
      let rpath : Str := if s.dom.isEmpty then [] else [47]
      let j := update allowIp now host rpath j [s.raw]
      match s.exp with
      | some w => expireCookie j w (s.dom, s.pkey, s.c.name)
      | none => j) j) from H {} inv_empty
  induction data with
  | nil => intro j h; exact h
  | cons s t ih =>
    intro j h
    simp only [List.foldl_cons]
    apply ih
    split
    · exact inv_expireCookie _ _ _ (inv_update _ _ _ _ _ _ h)
    · exact inv_update _ _ _ _ _ _ h

theorem inv_step (allowIp : Bool) (w : World) (op : Op) (h : Inv w.jar) : Inv (step allowIp w op).1.jar := by
  cases op with
  | set host rpath cs => exact inv_update _ _ _ _ _ _ h
  | tick dt => exact h
  | query host rpath sec => exact inv_filter _ _ _ _ _ _ h
  | clear => exact inv_empty
  | clearDomain d => exact inv_clearDomain _ _ _ h
  | saveLoad => exact inv_load _ _ _

/-- **the invariants hold after every history** -/
theorem inv_run (allowIp : Bool) (ops : List Op) : ∀ (w : World), Inv w.jar → Inv (run allowIp w ops).jar := by
  induction ops with
  | nil => intro w h; exact h
  | cons op t ih => intro w h; exact ih _ (inv_step allowIp w op h)


/-! ## no shared cookies when every response has a host -/

def NoShared (j : Jar) : Prop := ∀ e ∈ j.cookies, e.dom ≠ []

/-- the operations the property quantifies over: every Set-Cookie comes with a response URL that has a host -/
def Hostful : Op → Prop
  | .set (some h) _ _ => h ≠ []
  | .set none _ _ => False
  | _ => True

theorem expireCookie_cookies (j : Jar) (w : Int) (k : Key) : (expireCookie j w k).cookies = j.cookies := by
  unfold expireCookie; split <;> rfl

theorem expireCookie_hostOnly (j : Jar) (w : Int) (k : Key) : (expireCookie j w k).hostOnly = j.hostOnly := by
  unfold expireCookie; split <;> rfl

theorem expStage_cookies (now : Int) (j : Jar) (r : Raw) (k : Key) : (expStage now j r k).cookies = j.cookies := by
  unfold expStage
  split
  · exact expireCookie_cookies _ _ _
  · rfl
  · split
    · split
      · rfl
      · exact expireCookie_cookies _ _ _
    · rfl

theorem expStage_hostOnly (now : Int) (j : Jar) (r : Raw) (k : Key) : (expStage now j r k).hostOnly = j.hostOnly := by
  unfold expStage
  split
  · exact expireCookie_hostOnly _ _ _
  · rfl
  · split
    · split
      · rfl
      · exact expireCookie_hostOnly _ _ _
    · rfl

theorem normDomain_cookies (j : Jar) (host : Option Str) (name d : Str) :
    (normDomain j host name d).1.cookies = j.cookies := by
  rcases normDomain_fst j host name d with h1 | ⟨_, _, h1⟩ <;> rw [h1]

theorem isDomainMatch_nil (h : Str) (hh : h ≠ []) : isDomainMatch [] h = false := by
  unfold isDomainMatch
  have : (h == []) = false := by simpa using hh
  simp [this]

theorem noShared_acceptOne (now : Int) (h rpath : Str) (j : Jar) (r : Raw) (hh : h ≠ [])
    (hj : NoShared j) : NoShared (acceptOne now (some h) rpath j r) := by
  rw [acceptOne_eq]
  split
  · intro e he; rw [normDomain_cookies] at he; exact hj e he
  · next hrej =>
    intro e he
    simp only [storeEntry] at he
    rcases mem_putEntry_sub _ e _ he with rfl | he
    · intro hd
      apply hrej
      simp only [entryOf] at hd
      rw [hd]
      simp [rejected, isDomainMatch_nil h hh, hh]
    · rw [expStage_cookies, normDomain_cookies] at he
      exact hj e he

theorem noShared_doExpiration (j : Jar) (now : Int) (hj : NoShared j) : NoShared (doExpiration j now) :=
  fun e he => hj e ((doExpiration_cookies j now e).mp he).1

theorem noShared_update (allowIp : Bool) (now : Int) (h rpath : Str) (j : Jar) (rs : List Raw) (hh : h ≠ [])
    (hj : NoShared j) : NoShared (update allowIp now (some h) rpath j rs) := by
  unfold update
  split
  · exact hj
  · apply noShared_doExpiration
    revert j
    induction rs with
    | nil => intro j hj; exact hj
    | cons r t ih => intro j hj; exact ih _ (noShared_acceptOne now h rpath j r hh hj)

theorem noShared_filter (allowIp : Bool) (now : Int) (j : Jar) (host rpath : Str) (sec : Bool) (hI : Inv j)
    (hj : NoShared j) : NoShared (filter allowIp now j host rpath sec).1 := by
  rw [filter_eq]
  split
  · exact hj
  · intro e he
    rw [(fold_assign _ _ [] (inv_withShared _ (inv_doExpiration j now hI)) (hits_sub' _ _ _ _ _)).1] at he
    exact noShared_doExpiration j now hj e he

theorem noShared_load (allowIp : Bool) (now : Int) (data : List Saved) (hd : ∀ s ∈ data, s.dom ≠ []) :
    NoShared (load allowIp now data) := by
  unfold load
  apply noShared_doExpiration
  suffices H : ∀ (j : Jar), NoShared j → NoShared (data.foldl (fun (j : Jar) (s : Saved) =>
      let host : Option Str := if s.dom.isEmpty then none else some (s.dom.map lowerCp)
      let rpath : Str := if s.dom.isEmpty then [] else [47]
      let j := update allowIp now host rpath j [s.raw]
      match s.exp with
      | some w => expireCookie j w (s.dom, s.pkey, s.c.name)
      | none => j) j) from H {} (by intro e he; simp at he)
  induction data with
  | nil => intro j h; exact h
  | cons s t ih =>
    intro j h
    simp only [List.foldl_cons]
    apply ih (fun x hx => hd x (List.mem_cons_of_mem _ hx))
    have hs0 := hd s List.mem_cons_self
    have hs : s.dom.map lowerCp ≠ [] := by simpa using hs0
    have he : s.dom.isEmpty = false := by simpa using hs0
    simp only [he, Bool.false_eq_true, if_false]
    split
    · intro e hx; rw [expireCookie_cookies] at hx; exact noShared_update _ _ _ _ _ _ hs h e hx
    · exact noShared_update _ _ _ _ _ _ hs h

theorem noShared_step (allowIp : Bool) (w : World) (op : Op) (hop : Hostful op) (hI : Inv w.jar)
    (h : NoShared w.jar) : NoShared (step allowIp w op).1.jar := by
  cases op with
  | set host rpath cs =>
    cases host with
    | none => exact absurd hop (by simp [Hostful])
    | some hst => exact noShared_update _ _ _ _ _ _ hop h
  | tick dt => exact h
  | query host rpath sec => exact noShared_filter _ _ _ _ _ _ hI h
  | clear => intro e he; simp [step, clearAll] at he
  | clearDomain d =>
    intro e he
    simp only [step, clearDomain] at he
    exact h e ((deleteCookies_cookies _ _ e).mp he).1
  | saveLoad =>
    apply noShared_load
    intro s hs
    simp only [save, List.mem_flatMap, List.mem_map, atKey, List.mem_filter] at hs
    obtain ⟨_, _, e, ⟨he, _⟩, rfl⟩ := hs
    exact h e he

theorem noShared_run (allowIp : Bool) (ops : List Op) : ∀ (w : World), (∀ op ∈ ops, Hostful op) → Inv w.jar →
    NoShared w.jar → NoShared (run allowIp w ops).jar := by
  induction ops with
  | nil => intro w _ _ h; exact h
  | cons op t ih =>
    intro w hops hI h
    exact ih _ (fun o ho => hops o (List.mem_cons_of_mem _ ho)) (inv_step allowIp w op hI)
      (noShared_step allowIp w op (hops op List.mem_cons_self) hI h)


/-! ## selection = RFC 6265 §5.4 on the recorded attributes -/

/-- the RFC 6265 cookie an entry stands for, with the host-only flag and deadline the jar has recorded -/
def absE (j : Jar) (e : Entry) : Ref.RCookie :=
  ⟨e.c.name, e.c.value, e.c.domain, e.c.path, j.hostOnly.contains (e.c.domain, e.c.name), e.c.secure,
    aget e.key j.expirations⟩

def abs (j : Jar) : List Ref.RCookie := j.cookies.map (absE j)

theorem mem_product (ds ps : List Str) (d p : Str) : (d, p) ∈ product ds ps ↔ d ∈ ds ∧ p ∈ ps := by
  simp [product, List.mem_flatMap]

theorem atKey_shared_nil (j : Jar) (h : NoShared j) : atKey j [] [] = [] := by
  unfold atKey
  apply List.filter_eq_nil_iff.mpr
  intro e he
  have := h e he
  simp [this]

theorem mem_hits (allowIp : Bool) (j : Jar) (host rpath : Str) (sec : Bool) (e : Entry) (hns : NoShared j) :
    e ∈ hits allowIp j host rpath sec ↔
      e ∈ j.cookies ∧ ¬(isIp host = true ∧ allowIp = false) ∧
      e.dom ∈ (if isIp host then [host] else domainCands host) ∧ e.pkey ∈ pathCands rpath ∧
      passes j host rpath.length sec e = true := by
  unfold hits
  simp only [atKey_shared_nil j hns, List.nil_append]
  by_cases hb : (isIp host && !allowIp) = true
  · simp only [hb, if_true, List.not_mem_nil, false_iff]
    have : isIp host = true ∧ allowIp = false := by simpa using hb
    intro h; exact h.2.1 this
  · simp only [hb, Bool.false_eq_true, if_false, List.mem_flatMap, List.mem_filter, atKey, Bool.and_eq_true,
      beq_iff_eq]
    have hb' : ¬(isIp host = true ∧ allowIp = false) := by simpa using hb
    constructor
    · rintro ⟨⟨d, p⟩, hdp, ⟨he, hd, hp⟩, hpass⟩
      rw [mem_product] at hdp
      simp only at hd hp
      subst hd; subst hp
      exact ⟨he, hb', hdp.1, hdp.2, hpass⟩
    · rintro ⟨he, _, hd, hp, hpass⟩
      exact ⟨(e.dom, e.pkey), (mem_product _ _ _ _).mpr ⟨hd, hp⟩, ⟨he, rfl, rfl⟩, hpass⟩

theorem hostOK_iff (host dom : Str) (ho : Bool) :
    (dom ∈ (if isIp host then [host] else domainCands host) ∧ (!(ho && dom != host)) = true) ↔
      (if ho then host == dom else Ref.domainMatch host dom) = true := by
  cases hip : isIp host <;> cases ho
  · -- host name, domain cookie
    simp only [Bool.false_eq_true, if_false, mem_domainCands, Bool.false_and, Bool.not_false, and_true,
      Ref.domainMatch, hip, Bool.true_and, Bool.or_eq_true, beq_iff_eq, List.isSuffixOf_iff_suffix]
    constructor
    · rintro (h | h)
      · exact Or.inl h.symm
      · exact Or.inr h
    · rintro (h | h)
      · exact Or.inl h.symm
      · exact Or.inr h
  · -- host name, host-only cookie
    simp only [Bool.false_eq_true, if_false, mem_domainCands, Bool.true_and, Bool.not_eq_true', if_true,
      beq_iff_eq, bne_eq_false_iff_eq]
    constructor
    · rintro ⟨_, h⟩; exact h.symm
    · intro h; exact ⟨Or.inl h.symm, h.symm⟩
  · -- IP address, domain cookie
    simp only [if_true, List.mem_singleton, Bool.false_and, Bool.not_false, and_true, Bool.false_eq_true,
      if_false, Ref.domainMatch, hip, Bool.not_true, Bool.false_and, Bool.or_false, beq_iff_eq]
    exact eq_comm
  · -- IP address, host-only cookie
    simp only [if_true, List.mem_singleton, Bool.true_and, Bool.not_eq_true', bne_eq_false_iff_eq, beq_iff_eq]
    constructor
    · rintro ⟨h, _⟩; exact h.symm
    · intro h; exact ⟨h.symm, h.symm⟩


theorem not_expired_absE (now : Int) (j : Jar) (e : Entry)
    (hNE : ∀ w, aget e.key j.expirations = some w → now < w) : Ref.expired now (absE j e) = false := by
  unfold Ref.expired absE
  simp only
  cases h : aget e.key j.expirations with
  | none => rfl
  | some w =>
    have := hNE w h
    simp only [decide_eq_false_iff_not]
    omega

/-- the scope test an entry must pass, in RFC 6265 terms but with the *stripped-key* path rule of the code -/
theorem mem_hits_iff (allowIp : Bool) (now : Int) (j : Jar) (host rpath : Str) (sec : Bool) (e : Entry)
    (hI : Inv j) (hns : NoShared j) (he : e ∈ j.cookies) :
    e ∈ hits allowIp j host rpath sec ↔
      ¬(isIp host = true ∧ allowIp = false) ∧
      (if j.hostOnly.contains (e.c.domain, e.c.name) then host == e.c.domain else Ref.domainMatch host e.c.domain) = true ∧
      (rstripSlash e.c.path ∈ pathCands rpath ∧ ¬ e.c.path.length > rpath.length) ∧
      (e.c.secure = true → sec = true) := by
  rw [mem_hits allowIp j host rpath sec e hns]
  obtain ⟨hf1, hf2⟩ := hI.fields e he
  rw [← hf1, hf2]
  have h1 := hostOK_iff host e.c.domain (j.hostOnly.contains (e.c.domain, e.c.name))
  unfold passes
  simp only [Bool.and_eq_true]
  constructor
  · rintro ⟨_, hip, hd, hp, ⟨hho, hlen⟩, hsec⟩
    refine ⟨hip, h1.mp ⟨hd, hho⟩, ⟨hp, by simpa using hlen⟩, ?_⟩
    intro hs
    cases sec <;> simp [hs] at hsec ⊢
  · rintro ⟨hip, hho, ⟨hp, hlen⟩, hsec⟩
    obtain ⟨hd, hho'⟩ := h1.mpr hho
    refine ⟨he, hip, hd, hp, ⟨hho', by simpa using hlen⟩, ?_⟩
    cases hs : e.c.secure
    · simp
    · simp [hsec hs]

theorem hit_iff_attachable (allowIp : Bool) (now : Int) (j : Jar) (host rpath : Str) (sec : Bool) (e : Entry)
    (hI : Inv j) (hns : NoShared j) (he : e ∈ j.cookies) (hT : Tame e.c.path)
    (hNE : ∀ w, aget e.key j.expirations = some w → now < w) :
    e ∈ hits allowIp j host rpath sec ↔
      (¬(isIp host = true ∧ allowIp = false) ∧ Ref.attachable now host rpath sec (absE j e) = true) := by
  rw [mem_hits_iff allowIp now j host rpath sec e hI hns he, pathOK_iff _ _ hT]
  unfold Ref.attachable
  rw [not_expired_absE now j e hNE]
  simp only [absE, Bool.and_eq_true, Bool.not_false, and_true, Bool.or_eq_true, Bool.not_eq_true']
  constructor
  · rintro ⟨h1, h2, h3, h4⟩
    refine ⟨h1, ⟨h2, h3⟩, ?_⟩
    cases hs : e.c.secure
    · exact Or.inl rfl
    · exact Or.inr (h4 hs)
  · rintro ⟨h1, ⟨h2, h3⟩, h4⟩
    refine ⟨h1, h2, h3, ?_⟩
    intro hs
    rcases h4 with h4 | h4
    · rw [hs] at h4; cases h4
    · exact h4


theorem filter_out_spec (allowIp : Bool) (now : Int) (j : Jar) (host rpath : Str) (sec : Bool) (hI : Inv j) :
    (∀ n v, aget n (filter allowIp now j host rpath sec).2 = some v →
      ∃ e ∈ hits allowIp (doExpiration j now) host rpath sec, e.c.name = n ∧ e.c.value = v) ∧
    (∀ e ∈ hits allowIp (doExpiration j now) host rpath sec,
      (aget e.c.name (filter allowIp now j host rpath sec).2).isSome) := by
  rw [filter_eq]
  split
  · next hk =>
    -- an empty `_cookies` dict holds no cookie at all
    have hnil : j.cookies = [] := by
      cases hc : j.cookies with
      | nil => rfl
      | cons e t =>
        have := hI.keysCover e (by rw [hc]; exact List.mem_cons_self)
        have hk' : j.keys = [] := by simpa using hk
        rw [hk'] at this; simp at this
    refine ⟨by intro n v h; simp [aget] at h, ?_⟩
    intro e he
    have := ((doExpiration_cookies j now e).mp (hits_sub _ _ _ _ _ e he)).1
    rw [hnil] at this; simp at this
  · obtain ⟨_, _, _, _, _, b6, _, b8⟩ :=
      fold_assign (hits allowIp (doExpiration j now) host rpath sec) (withShared (doExpiration j now)) []
        (inv_withShared _ (inv_doExpiration j now hI)) (hits_sub' _ _ _ _ _)
    refine ⟨?_, b8⟩
    intro n v hv
    rcases b6 n v hv with h | h
    · simp [aget] at h
    · exact h

/-- an entry that survives `_do_expiration` was there before and its recorded deadline is in the future -/
theorem survivor (j : Jar) (now : Int) (hI : Inv j) (e : Entry) (he : e ∈ (doExpiration j now).cookies) :
    e ∈ j.cookies ∧ ∀ w, aget e.key j.expirations = some w → now < w := by
  obtain ⟨h1, h2⟩ := (doExpiration_cookies j now e).mp he
  refine ⟨h1, ?_⟩
  intro w hw
  by_cases hle : w ≤ now
  · rcases h2 with h2 | h2
    · have := hI.heap _ _ hw
      have hnil : j.heap = [] := by simpa using h2
      rw [hnil] at this; simp at this
    · exact absurd (mem_dueKeys j now e.key w hI hw hle) h2
  · omega

theorem isDomainMatch_self (h : Str) : isDomainMatch h h = true := by
  unfold isDomainMatch; simp

/-- one loop iteration of `update_cookies` for a response from `h` leaves everything outside `h`'s domain alone -/
theorem acceptOne_frame (now : Int) (h rpath : Str) (j : Jar) (r : Raw) (hh : h ≠ []) (hu : j.cookies.Pairwise (fun a b => a.key ≠ b.key)) :
    (acceptOne now (some h) rpath j r).cookies.Pairwise (fun a b => a.key ≠ b.key) ∧
    (∀ e, isDomainMatch e.dom h = false →
      (e ∈ (acceptOne now (some h) rpath j r).cookies ↔ e ∈ j.cookies)) ∧
    (∀ d n, isDomainMatch d h = false →
      ((d, n) ∈ (acceptOne now (some h) rpath j r).hostOnly ↔ (d, n) ∈ j.hostOnly)) ∧
    (∀ k : Key, isDomainMatch k.1 h = false →
      aget k (acceptOne now (some h) rpath j r).expirations = aget k j.expirations) := by
  rw [acceptOne_eq]
  have hHO : ∀ d n, isDomainMatch d h = false →
      ((d, n) ∈ (normDomain j (some h) r.name r.domain).1.hostOnly ↔ (d, n) ∈ j.hostOnly) := by
    intro d n hd
    rcases normDomain_fst j (some h) r.name r.domain with h1 | ⟨h', hh', h1⟩ <;> rw [h1]
    simp only [mem_sadd]
    cases hh'
    constructor
    · rintro (h2 | h2)
      · simp only [Prod.mk.injEq] at h2
        rw [h2.1, isDomainMatch_self] at hd; cases hd
      · exact h2
    · intro h2; exact Or.inr h2
  have hEX : (normDomain j (some h) r.name r.domain).1.expirations = j.expirations := by
    rcases normDomain_fst j (some h) r.name r.domain with h1 | ⟨_, _, h1⟩ <;> rw [h1]
  split
  · refine ⟨by rw [normDomain_cookies]; exact hu, ?_, hHO, ?_⟩
    · intro e _; rw [normDomain_cookies]
    · intro k _; rw [hEX]
  · next hrej =>
    generalize hdm : (normDomain j (some h) r.name r.domain).2 = dm at hrej ⊢
    have hmatch : isDomainMatch dm h = true := by
      cases hm : isDomainMatch dm h with
      | true => rfl
      | false => exact absurd (by simp [rejected, hm, hh]) hrej
    refine ⟨?_, ?_, ?_, ?_⟩
    · simp only [storeEntry]
      apply putEntry_pairwise
      rw [expStage_cookies, normDomain_cookies]; exact hu
    · intro e he
      simp only [storeEntry, expStage_cookies, normDomain_cookies]
      have hne : e.dom ≠ dm := by intro h'; rw [h', hmatch] at he; cases he
      constructor
      · intro hx
        rcases mem_putEntry_sub _ e _ hx with rfl | hx
        · exact absurd rfl hne
        · exact hx
      · intro hx
        apply mem_putEntry_of_mem _ _ _ hx
        intro hk
        simp only [Entry.key, entryOf, Prod.mk.injEq] at hk
        exact hne hk.1
    · intro d n hd
      simp only [storeEntry, expStage_hostOnly]
      exact hHO d n hd
    · intro k hk
      simp only [storeEntry]
      have hne : ¬ ((dm, rstripSlash (effPath rpath r), r.name) : Key) = k := by
        intro h'; rw [← h'] at hk; simp only at hk; rw [hmatch] at hk; cases hk
      unfold expStage
      split
      · unfold expireCookie; split
        · exact congrArg _ hEX
        · simp only [aget_aset]; simp [hne, hEX]
      · exact congrArg _ hEX
      · split
        · split
          · exact congrArg _ hEX
          · unfold expireCookie; split
            · exact congrArg _ hEX
            · simp only [aget_aset]; simp [hne, hEX]
        · exact congrArg _ hEX

end Aio.C16
