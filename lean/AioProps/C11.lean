import AioModel.C11
import AioModel.C11Conc
namespace Aio.C11
end Aio.C11
