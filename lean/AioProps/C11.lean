import AioModel.C11
import AioModel.C11Conc
import AioProps.C11Lemmas
import AioProps.C11ConcLemmas
import AioProps.C11Codec
import AioProps.C12
/-!
# C11 — property theorems (writer model `AioModel/C11.lean` → reader model `AioModel/C12.lean`)
-/
namespace Aio.C11
open Aio Aio.C12

variable {Z : Inflater} {D : Deflater}

/-- the header fields a reference parser recovers from the first bytes of a frame:
`(first byte, mask bit, payload length, remaining bytes)` (RFC 6455 §5.2) -/
def parseHeader (bs : Bytes) : Option (Nat × Nat × Nat × Bytes) :=
  match bs with
  | b0 :: b1 :: r =>
    match Spec.extLen (b1.toNat % 128) r with
    | some (n, rest) => some (b0.toNat, b1.toNat / 128, n, rest)
    | none => none
  | _ => none

/-- Frame header round trip for **every** payload length below 2^63 (125/126/65535/65536 are
points on this line): the header the writer builds for a first byte, mask bit and length parses
back to exactly these, leaving the following bytes untouched. -/
theorem header_roundtrip (fb mb n : Nat) (rest : Bytes) (hfb : fb < 256) (hmb : mb = 0 ∨ mb = 0x80)
    (hn : n < 2 ^ 63) :
    parseHeader (frameHeader fb mb n ++ rest) = some (fb, mb / 128, n, rest) := by
  rw [frameHeader_eq]
  obtain ⟨g1, g2, g3⟩ := b1_facts (lenCode n) (lenCode_lt n) mb (by rcases hmb with h | h <;> simp [h])
  simp only [parseHeader, List.cons_append, List.nil_append, toUInt8_toNat_lt hfb, toUInt8_toNat_lt g1, g2, g3]
  unfold Spec.extLen lenCode extBytes
  by_cases h1 : n < 126
  · have a : ¬ n = 126 := by omega
    have b : ¬ n = 127 := by omega
    simp [h1, a, b]
  · by_cases h2 : n < 65536
    · simp only [h1, h2, if_true, if_false]
      simp only [beBytes, List.nil_append, List.cons_append, toUInt8_toNat_mod]
      have : n / 256 % 256 * 256 + n % 256 = n := by omega
      simp [this]
    · simp only [h1, h2, if_false]
      have hlen : ¬ (beBytes 8 n ++ rest).length < 8 := by simp [beBytes_length]
      have ht : (beBytes 8 n ++ rest).take 8 = beBytes 8 n := by
        rw [List.take_append_of_le_length (by simp [beBytes_length])]
        exact List.take_of_length_le (by simp [beBytes_length])
      have hd : (beBytes 8 n ++ rest).drop 8 = rest := by
        rw [List.drop_append_of_le_length (by simp [beBytes_length])]
        rw [List.drop_of_length_le (by simp [beBytes_length])]; rfl
      have hv : beNat (beBytes 8 n) = n := beNat_beBytes 8 n (by
        have : (2:Nat)^63 < 256^8 := by decide
        omega)
      simp [ht, hd, hv, beBytes_length]
      have : ¬ (8 + rest.length < 8) := by omega
      simp [this]

/-- Masking is an involution: unmasking with the same key returns the payload, for every key
and every payload. -/
theorem mask_involutive (key d : Bytes) : maskBytes key (maskBytes key d) = d :=
  maskBytes_involutive key d

/-- The writer's output for a list of uncompressed sends is the concatenation of the frames of
the sends it accepts (`accepted`): after a CLOSE frame has latched `_closing`, data frames are
refused with a reset error and write nothing, control frames still go out. -/
theorem sendAll_plain_out (cfg : WCfg) (hcfg : cfg.compress = 0) : ∀ (sends : List Send) (w : W D),
    w.ws.transportClosing = false →
    (∀ s ∈ sends, s.compress = 0 ∧ s.payload.length < 2 ^ 63 ∧
      (s.opcode = 1 ∨ s.opcode = 2 ∨ s.opcode = 8 ∨ s.opcode = 9 ∨ s.opcode = 10)) →
    (sendAll cfg w sends).ws.out = w.ws.out ++ plainWire cfg.useMask (accepted w.ws.closing sends) := by
  intro sends
  induction sends with
  | nil => intro w _ _; simp [sendAll, plainWire, accepted]
  | cons s ss ih =>
    intro w ht hall
    obtain ⟨hs0, hsn, hop⟩ := hall s (by simp)
    have hrest : ∀ x ∈ ss, x.compress = 0 ∧ x.payload.length < 2 ^ 63 ∧
        (x.opcode = 1 ∨ x.opcode = 2 ∨ x.opcode = 8 ∨ x.opcode = 9 ∨ x.opcode = 10) :=
      fun x hx => hall x (by simp [hx])
    by_cases hno : w.ws.closing = true ∧ s.opcode &&& 8 = 0
    · -- refused: ClientConnectionResetError, nothing written, state unchanged
      have hsf : (sendFrame cfg w s.payload s.opcode s.compress s.maskKey).1 = w := by
        unfold sendFrame; rw [if_pos hno]
      simp only [sendAll, hsf, accepted, if_pos hno]
      exact ih w ht hrest
    · have hfb : ¬ ((0x80 ||| 0 ||| s.opcode) > 255 ∨ s.payload.length ≥ 2 ^ 64) := by
        have := (fb_facts s.opcode (by rcases hop with h | h | h | h | h <;> simp [h]) 0 (by simp)).1
        have h64 : (2:Nat)^63 < 2^64 := by decide
        omega
      have hroute : route cfg s.opcode s.compress s.payload.length = .plain := by
        unfold route; simp [hs0, hcfg]
      have hplan : framePlan cfg s.payload s.opcode s.compress [] = (s.payload, 0) := by
        unfold framePlan; rw [hroute]
      obtain ⟨h1, h2, h3⟩ := sendFrameZ_accepted cfg w.ws s 0 s.payload [] hno ht hfb hplan
      have hsf : (sendFrame cfg w s.payload s.opcode s.compress s.maskKey).1.ws =
          (sendFrameZ cfg w.ws s.payload s.opcode s.compress s.maskKey []).1 := by
        unfold sendFrame; rw [if_neg hno]; simp only [hroute]
      simp only [sendAll, accepted, if_neg hno, plainWire]
      rw [ih _ (by rw [hsf]; exact h2) hrest, hsf, h1, h3]
      simp [plainFrame]

/-- **Codec round trip, uncompressed connection.**  For every list of sends (text, binary, ping,
pong, close; payload empty to 2^63; masked with any 4-byte keys or unmasked) that the writer
emits on a connection without permessage-deflate, and for **every** segmentation of the
emitted bytes, the reader delivers exactly the messages of the sends the writer accepted
(`accepted`: all of them, except data frames attempted after a CLOSE has latched `_closing`,
which are refused with a reset error and write nothing), in order, with identical payloads,
raises no error and keeps no byte.  (Data messages must be shorter than `max_msg_size` if one is
set; text must be valid UTF-8 when `decode_text`; control payloads ≤ 125 bytes; close payloads
well-formed.) -/
theorem codec_roundtrip_plain (cfg : WCfg) (c : Cfg) (hcfg : cfg.compress = 0) (sends : List Send)
    (hall : ∀ s ∈ sends, OkPlain c s ∧ s.compress = 0 ∧ (cfg.useMask = true → s.maskKey.length = 4))
    (segs : List Bytes) (hsegs : segs.flatten = (sendAll (D := D) cfg {} sends).ws.out) :
    (feedAll c ({} : Reader Z) segs).p.k.msgs = (accepted false sends).map toMsg ∧
    (feedAll c ({} : Reader Z) segs).exc = none ∧
    retained (feedAll c ({} : Reader Z) segs) = 0 := by
  have hout := sendAll_plain_out (D := D) cfg hcfg sends {} rfl (by
    intro s hs
    obtain ⟨hok, h0, _⟩ := hall s hs
    refine ⟨h0, hok.1, ?_⟩
    rcases okPlain_opcode hok with h | ⟨h, _⟩
    · rcases h with h | h <;> simp [h]
    · rcases h with h | h | h <;> simp [h])
  have hcore := segmentation_independent_init (Z := Z) c segs
  rw [hsegs, hout] at hcore
  simp only [List.nil_append] at hcore
  have hfeed : (feed c ({} : Reader Z) (plainWire cfg.useMask (accepted false sends))).core =
      loopK c (fuelFor (plainWire cfg.useMask (accepted false sends))) {}
        (plainWire cfg.useMask (accepted false sends)) := by
    rw [feed_core]; rfl
  obtain ⟨k', hidle, hm, _, he⟩ := loopK_plain_all (Z := Z) c cfg.useMask (accepted false sends) {} _
    ⟨rfl, rfl, rfl, rfl, Or.inr rfl⟩
    (fun s hs => ⟨(hall s (accepted_subset hs)).1, (hall s (accepted_subset hs)).2.2⟩) (need_le_fuelFor _ _)
  rw [hfeed, he] at hcore
  have h1 : (feedAll c ({} : Reader Z) segs).p.k = k' := congrArg RK.k hcore
  have h2 : (feedAll c ({} : Reader Z) segs).tail = [] := congrArg RK.tail hcore
  have h3 : (feedAll c ({} : Reader Z) segs).exc = none := congrArg RK.exc hcore
  refine ⟨by rw [h1, hm]; rfl, h3, ?_⟩
  unfold retained
  rw [h2, h1, hidle.2.1, hidle.2.2.1]; rfl

/-- Corollary in the original form: a list of sends with no CLOSE before its last element is
delivered whole (`accepted` drops nothing). -/
theorem codec_roundtrip_plain_all (cfg : WCfg) (c : Cfg) (hcfg : cfg.compress = 0) (sends : List Send)
    (last : Send)
    (hall : ∀ s ∈ sends ++ [last], OkPlain c s ∧ s.compress = 0 ∧ (cfg.useMask = true → s.maskKey.length = 4))
    (hnc : ∀ s ∈ sends, s.opcode ≠ 8)
    (segs : List Bytes) (hsegs : segs.flatten = (sendAll (D := D) cfg {} (sends ++ [last])).ws.out) :
    (feedAll c ({} : Reader Z) segs).p.k.msgs = (sends ++ [last]).map toMsg := by
  have h := (codec_roundtrip_plain (Z := Z) (D := D) cfg c hcfg (sends ++ [last]) hall segs hsegs).1
  rw [h, accepted_append_last sends last hnc]

example : (feedAll (Z := toyInflater) ⟨0, false, true, 100⟩ {}
      [(sendAll (D := ⟨Unit, fun _ => (), fun _ m _ => ((), m)⟩) ⟨true, 0, false, 100⟩ {}
        [⟨1, [0x68, 0x69], 0, [1, 2, 3, 4]⟩, ⟨9, [], 0, [9, 9, 9, 9]⟩]).ws.out]).p.k.msgs
    = [.text [0x68, 0x69], .ping []] := by decide +kernel

/-- **Codec round trip, permessage-deflate connection** — for every deflate/inflate pair that
satisfies the `Codec` law (zlib is assumed to; `Codec.toy` shows the law is satisfiable), every
negotiated window size, with or without context takeover (`notakeover` selects the flush mode),
masked or not: any list of sends without per-message `compress=` override (control frames go
out plain, data frames through the shared compressor) is delivered by a reader with compression
negotiated as exactly these messages, in order, payloads identical, for **every** segmentation of
the emitted bytes; no error, nothing retained.  Size hypotheses (`OkDefl`): the compressed bytes
must be shorter than `max_msg_size` and the message at most `max_msg_size`.

`_partial`: the property text also covers the per-message `compress=` override; with it the
statement is FALSE on the unchanged code when context takeover is in use (the override
compresses with a fresh context while the peer's single inflate context also consumes that
message, so `Sync` is lost: the next shared-context message is delivered corrupted) — finding
`C11/roundtrip/override-compress-desyncs-shared-context`, reproduced on the real code by the
harness.  Full statement = this one without the `s.compress = 0` conjunct of `OkComp`. -/
theorem codec_roundtrip_deflate_partial (C : Codec) (cfg : WCfg) (c : Cfg) (hcfg : cfg.compress ≠ 0)
    (hc : c.compress = true) (sends : List Send)
    (hops : ∀ s ∈ sends, s.compress = 0 ∧
      (s.opcode = 1 ∨ s.opcode = 2 ∨ s.opcode = 8 ∨ s.opcode = 9 ∨ s.opcode = 10))
    (hall : OkComp C c cfg (C.D.init cfg.compress) (accepted false sends))
    (segs : List Bytes) (hsegs : segs.flatten = (sendAll (D := C.D) cfg {} sends).ws.out) :
    (feedAll c ({} : Reader C.Z) segs).p.k.msgs = (accepted false sends).map toMsg ∧
    (feedAll c ({} : Reader C.Z) segs).exc = none ∧
    retained (feedAll c ({} : Reader C.Z) segs) = 0 := by
  have hout := sendAll_comp_out C c cfg hcfg sends {} (C.D.init cfg.compress) rfl rfl hops hall
  have hcore := segmentation_independent_init (Z := C.Z) c segs
  rw [hsegs, hout] at hcore
  simp only [List.nil_append] at hcore
  have hfeed : (feed c ({} : Reader C.Z) (compWire C cfg (C.D.init cfg.compress) (accepted false sends))).core =
      loopK c (fuelFor (compWire C cfg (C.D.init cfg.compress) (accepted false sends))) {}
        (compWire C cfg (C.D.init cfg.compress) (accepted false sends)) := by
    rw [feed_core]; rfl
  obtain ⟨k', hidle, hm, he⟩ := loopK_comp_all C c hc cfg (accepted false sends) (C.D.init cfg.compress) {} _
    ⟨rfl, rfl, rfl, rfl, Or.inr rfl⟩ (C.init_sync _) hall (need_le_fuelFor _ _)
  rw [hfeed, he] at hcore
  have h1 : (feedAll c ({} : Reader C.Z) segs).p.k = k' := congrArg RK.k hcore
  have h2 : (feedAll c ({} : Reader C.Z) segs).tail = [] := congrArg RK.tail hcore
  have h3 : (feedAll c ({} : Reader C.Z) segs).exc = none := congrArg RK.exc hcore
  refine ⟨by rw [h1, hm]; rfl, h3, ?_⟩
  unfold retained
  rw [h2, h1, hidle.2.1, hidle.2.2.1]; rfl

/-- After a CLOSE frame has been sent through `send_frame` (and the code latches `_closing`
there), every later data frame is refused: `accepted` keeps nothing with `opcode & 8 = 0` behind
the first CLOSE — so on the wire, and at the reader, no data message follows the close message. -/
theorem no_data_after_close (hl : Gen.C11.closeLatchesInSendFrame = true) :
    ∀ (sends : List Send) (pre post : List Send) (s : Send),
    accepted true sends = pre ++ s :: post → s.opcode &&& 8 ≠ 0 := by
  intro sends
  induction sends with
  | nil => intro pre post s h; simp [accepted] at h
  | cons a r ih =>
    intro pre post s h
    simp only [accepted] at h
    by_cases hno : a.opcode &&& 8 = 0
    · simp only [hno, and_self, if_true] at h
      exact ih pre post s h
    · simp only [hno, and_false, if_false, Bool.true_or] at h
      cases pre with
      | nil => simp at h; rw [← h.1]; exact hno
      | cons p ps => simp at h; exact ih ps post s h.2

/-- …and a CLOSE frame accepted from a non-closing writer switches to that regime. -/
theorem accepted_close (hl : Gen.C11.closeLatchesInSendFrame = true) (s : Send) (hs : s.opcode = 8)
    (ss : List Send) : accepted false (s :: ss) = s :: accepted true ss := by
  simp [accepted, hs, hl]

-- the hypotheses are satisfiable: a text message and a ping on a compressed, masked connection
example : OkComp Codec.toy ⟨0, true, true, 100⟩ ⟨true, 15, false, 100⟩ ()
    [⟨1, [0x68, 0x69], 0, [1, 2, 3, 4]⟩, ⟨9, [], 0, [5, 6, 7, 8]⟩] := by
  refine ⟨rfl, fun _ => rfl, ?_⟩
  simp only [show ¬ ((1:Nat) ≥ 8) by decide, if_false]
  refine ⟨⟨Or.inl rfl, by decide, Or.inl rfl, fun _ _ => by decide⟩, rfl, fun _ => rfl, ?_⟩
  simp only [show ((9:Nat) ≥ 8) by decide, if_true]
  exact ⟨⟨by decide, Or.inr (Or.inl ⟨Or.inl rfl, by decide⟩)⟩, trivial⟩

-- data after CLOSE is refused, control frames still pass (with the latch in `send_frame`)
example : (feedAll (Z := toyInflater) ⟨0, false, true, 100⟩ {}
      [(sendAll (D := ⟨Unit, fun _ => (), fun _ m _ => ((), m)⟩) ⟨false, 0, false, 100⟩ {}
        [⟨1, [0x61], 0, []⟩, ⟨8, [3, 232], 0, []⟩, ⟨1, [0x62], 0, []⟩, ⟨9, [], 0, []⟩]).ws.out]).p.k.msgs
    = (if Gen.C11.closeLatchesInSendFrame then [.text [0x61], .close 1000 [], .ping []]
       else [.text [0x61], .close 1000 [], .text [0x62], .ping []]) := by decide +kernel

-- payloads that look like the deflate sync-flush tail are ordinary payloads on the plain route: nothing is stripped
example : (feedAll (Z := toyInflater) ⟨0, false, true, 100⟩ {}
      [(sendAll (D := ⟨Unit, fun _ => (), fun _ m _ => ((), m)⟩) ⟨true, 0, false, 100⟩ {}
        [⟨2, [0, 0, 255, 255], 0, [7, 7, 7, 7]⟩, ⟨9, [65, 0, 0, 255, 255], 0, [1, 2, 3, 4]⟩]).ws.out]).p.k.msgs
    = [.binary [0, 0, 255, 255], .ping [65, 0, 0, 255, 255]] := by decide +kernel

/-! ## concurrent senders (model `AioModel/C11Conc.lean`) -/

/-- **wire order = compress order, on every schedule.**  After any sequence of labels — tasks
calling `send_frame` on any route, senders cancelled at any point, the executor finishing at any
time, event-loop iterations — the order in which the shared compressor was applied to messages
is the order in which their frames were written to the transport, followed by at most the one
message whose compression is still running in the executor; and that job's task holds the
lock.  This is what keeps the history-dependent deflate context of writer and reader in step. -/
theorem wire_order_eq_compress_order (ls : List Conc.Label) :
    (Conc.run {} ls).compLog = (Conc.run {} ls).wire ++ (Conc.run {} ls).inExec.toList ∧
    ((Conc.run {} ls).inExec.isSome → (Conc.run {} ls).locked = true) := by
  have h := Conc.run_inv ls {} Conc.inv_init
  exact ⟨h.order, h.execLocked⟩

/-- …so whenever no compression is in flight the two orders are equal. -/
theorem wire_order_eq_compress_order_idle (ls : List Conc.Label) (h : (Conc.run {} ls).inExec = none) :
    (Conc.run {} ls).compLog = (Conc.run {} ls).wire := by
  have := (wire_order_eq_compress_order ls).1
  rw [h] at this; simpa using this

/-- The lock is never handed to two tasks: at most the head of the waiter queue has been woken,
and nobody is woken while the lock is held (no barging past a woken waiter). -/
theorem lock_handover_unique (ls : List Conc.Label) :
    ((Conc.run {} ls).locked = true → ∀ w ∈ (Conc.run {} ls).waiters, Conc.wok w = false) ∧
    (∀ w ∈ (Conc.run {} ls).waiters.tail, Conc.wok w = false) := by
  have h := Conc.run_inv ls {} Conc.inv_init
  exact ⟨h.noWoken, h.wokenHead⟩

-- a schedule with a cancelled waiter and an executor job: frames 3 (plain), 1, then 4
example : (Conc.run {} [.spawn 1 .exec, .spawn 2 .sync, .spawn 3 .plain, .tick, .cancel 2, .spawn 4 .sync,
      .execDone, .tick, .tick, .tick]).wireAll = [3, 1, 4] := by decide +kernel

end Aio.C11
