import AioProps.C14Lemmas
/-!
# C14 — property theorems (URL dispatch follows the documented resolution rule)

Model: `AioModel/C14.lean` (= `aiohttp/web_urldispatcher.py`, sub-app registration of
`web_app.py`, `normalize_path_middleware`).  `resolve` is the code (index walk), `linear` the
documented rule (no index).  Every statement quantifies over all tables / paths / methods /
hosts of the stated shape.
-/
namespace Aio.C14
open Aio

/-- the prefix index describes the resource list: the bucket of every key holds exactly the
positions of the (non-domain) resources with that key, in registration order, and
`_matched_sub_app_resources` holds exactly the domain resources -/
def IndexOK (t : Table) : Prop :=
  (∀ k, bucketOf t.index k = positions (fun r => !isDom r && keyOf r == k) t.rs) ∧
  t.matched = positions isDom t.rs

/-- one resource is good: its prefix is well formed and its sub-table (if any) satisfies `G` -/
def ResGood (G : Table → Prop) : Res → Prop
  | .sub pfx s => PfxWF pfx ∧ G s
  | .dom _ s => G s
  | .static pfx _ => PfxWF pfx
  | _ => True

/-- `IndexOK` at every nesting level (down to depth `f`), and well-formed prefixes -/
def Good : Nat → Table → Prop
  | 0, _ => True
  | f + 1, t => IndexOK t ∧ ∀ r ∈ t.rs, ResGood (Good f) r

theorem flatMap_congr' {α β} (l : List α) (F G : α → List β) (h : ∀ a ∈ l, F a = G a) :
    l.flatMap F = l.flatMap G := by
  induction l with
  | nil => rfl
  | cons a l ih =>
    simp only [List.flatMap_cons]
    rw [h a (List.mem_cons_self ..), ih (fun x hx => h x (List.mem_cons_of_mem _ hx))]

/-- **index_complete.** A resource that the documented rule lets answer anything but
"no match, no methods" is indexed under a key that the walk `path, parent(path), …, "/"` visits. -/
theorem index_complete (rec : Table → Req → Result) (r : Res) (q : Req)
    (hp : StartsSL q.path) (hd : isDom r = false) (h : ansSpecWith rec r q ≠ .pass []) :
    keyOf r ∈ walk q.path :=
  key_mem_walk_of_answer rec r q hp hd h

/-- **resolve_eq_linear.** For every table whose index is consistent (at every nesting
level), every request path starting with `/`, every method and host: the index walk of
`UrlDispatcher.resolve` returns exactly what the documented linear rule returns — same
handler, same match dict, same 404/405 and the same allowed methods in the same order. -/
theorem resolve_eq_linear (f : Nat) (t : Table) (q : Req) (hp : StartsSL q.path) (hg : Good f t) :
    resolve f t q = linear f t q := by
  induction f generalizing t with
  | zero => rfl
  | succ f ih =>
    obtain ⟨⟨hidx, hm⟩, hrs⟩ := hg
    -- the two answer functions agree on every resource whose key is visited
    have hA : ∀ r ∈ t.rs, isDom r = false → keyOf r ∈ walk q.path →
        ansWith (resolve f) r q = ansSpecWith (linear f) r q := by
      intro r hr hd hk
      have hgr := hrs r hr
      cases r with
      | plain p rts => rfl
      | dyn o ps rts => rfl
      | static pfx rts =>
        have hgr : PfxWF pfx := hgr
        have hu := underPrefix_of_key_mem_walk hp hgr hk
        simp [ansWith, ansSpecWith, hu]
      | sub pfx s =>
        have hgr : PfxWF pfx ∧ Good f s := hgr
        have hu := underPrefix_of_key_mem_walk hp hgr.1 hk
        simp [ansWith, ansSpecWith, hu, ih s hgr.2]
      | dom rule s => simp [isDom] at hd
    have hD : ∀ r ∈ t.rs.filter isDom, ansWith (resolve f) r q = ansSpecWith (linear f) r q := by
      intro r hr
      have ⟨hr1, hr2⟩ := List.mem_filter.mp hr
      have hgr := hrs r hr1
      cases r with
      | dom rule s =>
        have hgr : Good f s := hgr
        simp [ansWith, ansSpecWith, ih s hgr]
      | _ => simp [isDom] at hr2
    simp only [resolve, linear]
    rw [hm, atPositions_positions, List.map_congr_left hD]
    rw [← combine_nz, ← combine_nz (_ ++ (descRange _).flatMap _)]
    rw [nz_append, nz_append]
    congr 2
    simp only [hidx, atPositions_positions]
    rw [flatMap_congr' (walk q.path) _
      (fun k => (t.rs.filter (fun r => !isDom r && keyOf r == k)).map (fun r => ansSpecWith (linear f) r q))]
    · unfold descRange
      refine scan_eq t.rs keyOf isDom (fun r => ansSpecWith (linear f) r q) _ _ (walk_pairwise hp) ?_ ?_
      · intro k hk; have := walk_length_le hp hk; omega
      · intro r _ hd _ hk
        apply Classical.byContradiction
        intro hne
        exact hk (index_complete _ r q hp hd hne)
    · intro k hk
      apply List.map_congr_left
      intro r hr
      have ⟨hr1, hr2⟩ := List.mem_filter.mp hr
      simp only [Bool.and_eq_true, Bool.not_eq_true', beq_iff_eq] at hr2
      exact hA r hr1 hr2.1 (by rw [hr2.2]; exact hk)


/-! ## registration operations keep the index consistent -/

theorem empty_indexOK : IndexOK Table.empty := by
  constructor
  · intro k; simp [Table.empty, Table.index, Table.rs, bucketOf, positions]
  · simp [Table.empty, Table.matched, Table.rs, positions]

/-- `register_resource` (append + `index_resource`, or append to the matched list) preserves
index consistency -/
theorem register_indexOK (t : Table) (r : Res) (h : IndexOK t) : IndexOK (t.register r) := by
  obtain ⟨hidx, hm⟩ := h
  cases t with
  | mk rs idx m =>
    simp only [Table.index, Table.rs, Table.matched] at hidx hm
    unfold Table.register
    cases hd : isDom r with
    | true =>
      simp only [if_true, Table.rs, Table.index, Table.matched]
      constructor
      · intro k
        simp only [Table.index, Table.rs, positions_append_singleton, hd, hidx k]
        simp
      · simp only [Table.matched, Table.rs, positions_append_singleton, hd, hm, if_true]
    | false =>
      simp only [Bool.false_eq_true, if_false, Table.rs, Table.index, Table.matched]
      constructor
      · intro k
        simp only [Table.index, Table.rs, positions_append_singleton, hd, bucketOf_indexAdd, hidx k]
        by_cases hk : k = keyOf r
        · subst hk; simp
        · have : (keyOf r == k) = false := by simpa using fun e => hk e.symm
          simp [hk, this]
      · simp only [Table.matched, Table.rs, positions_append_singleton, hd, hm]
        simp

theorem empty_good (f : Nat) : Good f Table.empty := by
  cases f with
  | zero => trivial
  | succ f => exact ⟨empty_indexOK, by simp [Table.empty, Table.rs]⟩

/-- registering one more resource keeps a good table good, if the new resource is good -/
theorem register_good (f : Nat) (t : Table) (r : Res) (h : Good (f + 1) t)
    (hr : ResGood (Good f) r) : Good (f + 1) (t.register r) := by
  refine ⟨register_indexOK t r h.1, ?_⟩
  intro x hx
  have hrs : (t.register r).rs = t.rs ++ [r] := by
    cases t; unfold Table.register; split <;> rfl
  rw [hrs] at hx
  rcases List.mem_append.mp hx with hx | hx
  · exact h.2 x hx
  · simp only [List.mem_singleton] at hx; subst hx; exact hr

theorem dropLast_append_of_getLast? {α} (l : List α) (a : α) (h : l.getLast? = some a) :
    l.dropLast ++ [a] = l := by
  have hne : l ≠ [] := by intro e; simp [e] at h
  have := List.dropLast_concat_getLast hne
  rw [List.getLast?_eq_some_getLast hne] at h
  injection h with h
  rw [← h]; exact this

theorem withRoutes_isDom (r : Res) (rts : Routes) : isDom (r.withRoutes rts) = isDom r := by
  cases r <;> rfl

theorem withRoutes_keyOf (r : Res) (rts : Routes) : keyOf (r.withRoutes rts) = keyOf r := by
  cases r <;> rfl

theorem fresh_good (f : Nat) (rq : List (Str × Str)) (t t' : Table) (m path : Str) (hid : Nat)
    (h : Good (f + 1) t) (he : addRoute.fresh rq t m path hid = .ok t') : Good (f + 1) t' := by
  unfold addRoute.fresh at he
  split at he
  · injection he with he; subst he
    exact register_good f t _ h trivial
  · cases hc : compile rq path with
    | error e => simp [hc, bind, Except.bind] at he
    | ok ps =>
      simp only [hc, bind, Except.bind, pure, Except.pure] at he
      injection he with he; subst he
      exact register_good f t _ h trivial

/-- `add_route` (= `add_resource` + `Resource.add_route`, including the re-use of the last
resource) keeps the table good -/
theorem addRoute_good (f : Nat) (rq : List (Str × Str)) (t t' : Table) (m path : Str) (hid : Nat)
    (h : Good (f + 1) t) (he : addRoute rq t m path hid = .ok t') : Good (f + 1) t' := by
  unfold addRoute at he
  split at he
  · cases he
  · split at he
    · next last hl =>
      split at he
      · next hraw =>
        split at he
        · cases he
        · injection he with he; subst he
          have hrs : t.rs.dropLast ++ [last] = t.rs := dropLast_append_of_getLast? _ _ hl
          obtain ⟨⟨hidx, hm⟩, hmem⟩ := h
          refine ⟨⟨?_, ?_⟩, ?_⟩
          · intro k
            have := hidx k
            rw [← hrs, positions_append_singleton] at this
            simp only [Table.index, Table.rs, positions_append_singleton, withRoutes_isDom, withRoutes_keyOf]
            exact this
          · have := hm
            rw [← hrs, positions_append_singleton] at this
            simp only [Table.matched, Table.rs, positions_append_singleton, withRoutes_isDom]
            exact this
          · intro x hx
            simp only [Table.rs] at hx
            rcases List.mem_append.mp hx with hx | hx
            · exact hmem x (by rw [← hrs]; exact List.mem_append_left _ hx)
            · simp only [List.mem_singleton] at hx
              subst hx
              cases last <;> first | trivial | simp [rawMatch] at hraw
      · exact fresh_good f rq t t' m path hid h he
    · exact fresh_good f rq t t' m path hid h he

/-- `add_static` keeps the table good (the re-quoted prefix is assumed well formed) -/
theorem addStatic_good (f : Nat) (t t' : Table) (pfx q : Str) (hid : Nat) (h : Good (f + 1) t)
    (hq : PfxWF q) (he : addStatic t pfx q hid = .ok t') : Good (f + 1) t' := by
  unfold addStatic at he
  simp only [] at he
  repeat' split at he
  all_goals first | (injection he with he; subst he; exact register_good f t _ h hq) | cases he

/-- `add_domain` keeps the table good -/
theorem addDomain_good (f : Nat) (t s : Table) (rule : Rule) (h : Good (f + 1) t) (hs : Good f s) :
    Good (f + 1) (addDomain t rule s) := register_good f t _ h hs

/-- `add_subapp`, parent side: registering the (already prefixed) sub-application keeps the
parent good.  (*partial*: that the re-indexing loop `_add_prefix_to_resources` leaves the
sub-application's own index consistent — `Good f s'` — is a hypothesis here; it is exercised by the
correspondence run, which compares every nested `_resource_index` with the model's.)

Full statement, not proved:
`Good (f+1) t → Good f s → PfxWF q → addSubapp fuel t pfx q s = .ok t' → Good (f+1) t'`. -/
theorem addSubapp_good_partial (f fuel : Nat) (t t' s : Table) (pfx q : Str) (h : Good (f + 1) t)
    (hq : PfxWF q)
    (hs : ∀ s', addPrefixTable fuel (rstripSlash pfx) s = .ok s' → Good f s')
    (he : addSubapp fuel t pfx q s = .ok t') : Good (f + 1) t' := by
  unfold addSubapp at he
  simp only at he
  split at he
  · cases he
  · split at he
    · cases he
    · cases hp : addPrefixTable fuel (rstripSlash pfx) s with
      | error e => simp [hp, bind, Except.bind] at he
      | ok s' =>
        simp only [hp, bind, Except.bind, pure, Except.pure] at he
        injection he with he; subst he
        exact register_good f t _ h ⟨hq, hs s' hp⟩

end Aio.C14
