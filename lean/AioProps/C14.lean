import AioProps.C14Lemmas
/-!
# C14 — property theorems (URL dispatch follows the documented resolution rule)

Model: `AioModel/C14.lean` (= `aiohttp/web_urldispatcher.py`, sub-app registration of
`web_app.py`, `normalize_path_middleware`).  `resolve` is the code (index walk), `linear` the
documented rule (no index).  Every statement quantifies over all tables / paths / methods /
hosts of the stated shape.
-/
namespace Aio.C14
open Aio

/-- the prefix index describes the resource list: the bucket of every key holds exactly the
positions of the (non-domain) resources with that key, in registration order, and
`_matched_sub_app_resources` holds exactly the domain resources -/
def IndexOK (t : Table) : Prop :=
  (∀ k, bucketOf t.index k = positions (fun r => !isDom r && keyOf r == k) t.rs) ∧
  t.matched = positions isDom t.rs

/-- one resource is good: its prefix is well formed and its sub-table (if any) satisfies `G` -/
def ResGood (G : Table → Prop) : Res → Prop
  | .sub pfx s => PfxWF pfx ∧ G s
  | .dom _ s => G s
  | .static pfx _ => PfxWF pfx
  | _ => True

/-- `IndexOK` at every nesting level (down to depth `f`), and well-formed prefixes -/
def Good : Nat → Table → Prop
  | 0, _ => True
  | f + 1, t => IndexOK t ∧ ∀ r ∈ t.rs, ResGood (Good f) r

theorem flatMap_congr' {α β} (l : List α) (F G : α → List β) (h : ∀ a ∈ l, F a = G a) :
    l.flatMap F = l.flatMap G := by
  induction l with
  | nil => rfl
  | cons a l ih =>
    simp only [List.flatMap_cons]
    rw [h a (List.mem_cons_self ..), ih (fun x hx => h x (List.mem_cons_of_mem _ hx))]

/-- **index_complete.** A resource that the documented rule lets answer anything but
"no match, no methods" is indexed under a key that the walk `path, parent(path), …, "/"` visits. -/
theorem index_complete (rec : Table → Req → Result) (r : Res) (q : Req)
    (hp : StartsSL q.path) (hd : isDom r = false) (h : ansSpecWith rec r q ≠ .pass []) :
    keyOf r ∈ walk q.path :=
  key_mem_walk_of_answer rec r q hp hd h

/-- **resolve_eq_linear.** For every table whose index is consistent (at every nesting
level), every request path starting with `/`, every method and host: the index walk of
`UrlDispatcher.resolve` returns exactly what the documented linear rule returns — same
handler, same match dict, same 404/405 and the same allowed methods in the same order. -/
theorem resolve_eq_linear (f : Nat) (t : Table) (q : Req) (hp : StartsSL q.path) (hg : Good f t) :
    resolve f t q = linear f t q := by
  induction f generalizing t with
  | zero => rfl
  | succ f ih =>
    obtain ⟨⟨hidx, hm⟩, hrs⟩ := hg
    -- the two answer functions agree on every resource whose key is visited
    have hA : ∀ r ∈ t.rs, isDom r = false → keyOf r ∈ walk q.path →
        ansWith (resolve f) r q = ansSpecWith (linear f) r q := by
      intro r hr hd hk
      have hgr := hrs r hr
      cases r with
      | plain p rts => rfl
      | dyn o ps rts => rfl
      | static pfx rts =>
        have hgr : PfxWF pfx := hgr
        have hu := underPrefix_of_key_mem_walk hp hgr hk
        simp [ansWith, ansSpecWith, hu]
      | sub pfx s =>
        have hgr : PfxWF pfx ∧ Good f s := hgr
        have hu := underPrefix_of_key_mem_walk hp hgr.1 hk
        simp [ansWith, ansSpecWith, hu, ih s hgr.2]
      | dom rule s => simp [isDom] at hd
    have hD : ∀ r ∈ t.rs.filter isDom, ansWith (resolve f) r q = ansSpecWith (linear f) r q := by
      intro r hr
      have ⟨hr1, hr2⟩ := List.mem_filter.mp hr
      have hgr := hrs r hr1
      cases r with
      | dom rule s =>
        have hgr : Good f s := hgr
        simp [ansWith, ansSpecWith, ih s hgr]
      | _ => simp [isDom] at hr2
    simp only [resolve, linear]
    rw [hm, atPositions_positions, List.map_congr_left hD]
    rw [← combine_nz, ← combine_nz (_ ++ (descRange _).flatMap _)]
    rw [nz_append, nz_append]
    congr 2
    simp only [hidx, atPositions_positions]
    rw [flatMap_congr' (walk q.path) _
      (fun k => (t.rs.filter (fun r => !isDom r && keyOf r == k)).map (fun r => ansSpecWith (linear f) r q))]
    · unfold descRange
      refine scan_eq t.rs keyOf isDom (fun r => ansSpecWith (linear f) r q) _ _ (walk_pairwise hp) ?_ ?_
      · intro k hk; have := walk_length_le hp hk; omega
      · intro r _ hd _ hk
        apply Classical.byContradiction
        intro hne
        exact hk (index_complete _ r q hp hd hne)
    · intro k hk
      apply List.map_congr_left
      intro r hr
      have ⟨hr1, hr2⟩ := List.mem_filter.mp hr
      simp only [Bool.and_eq_true, Bool.not_eq_true', beq_iff_eq] at hr2
      exact hA r hr1 hr2.1 (by rw [hr2.2]; exact hk)


/-! ## registration operations keep the index consistent -/

theorem empty_indexOK : IndexOK Table.empty := by
  constructor
  · intro k; simp [Table.empty, Table.index, Table.rs, bucketOf, positions]
  · simp [Table.empty, Table.matched, Table.rs, positions]

/-- `register_resource` (append + `index_resource`, or append to the matched list) preserves
index consistency -/
theorem register_indexOK (t : Table) (r : Res) (h : IndexOK t) : IndexOK (t.register r) := by
  obtain ⟨hidx, hm⟩ := h
  cases t with
  | mk rs idx m =>
    simp only [Table.index, Table.rs, Table.matched] at hidx hm
    unfold Table.register
    cases hd : isDom r with
    | true =>
      simp only [if_true, Table.rs, Table.index, Table.matched]
      constructor
      · intro k
        simp only [Table.index, Table.rs, positions_append_singleton, hd, hidx k]
        simp
      · simp only [Table.matched, Table.rs, positions_append_singleton, hd, hm, if_true]
    | false =>
      simp only [Bool.false_eq_true, if_false, Table.rs, Table.index, Table.matched]
      constructor
      · intro k
        simp only [Table.index, Table.rs, positions_append_singleton, hd, bucketOf_indexAdd, hidx k]
        by_cases hk : k = keyOf r
        · subst hk; simp
        · have : (keyOf r == k) = false := by simpa using fun e => hk e.symm
          simp [hk, this]
      · simp only [Table.matched, Table.rs, positions_append_singleton, hd, hm]
        simp

theorem empty_good (f : Nat) : Good f Table.empty := by
  cases f with
  | zero => trivial
  | succ f => exact ⟨empty_indexOK, by simp [Table.empty, Table.rs]⟩

/-- registering one more resource keeps a good table good, if the new resource is good -/
theorem register_good (f : Nat) (t : Table) (r : Res) (h : Good (f + 1) t)
    (hr : ResGood (Good f) r) : Good (f + 1) (t.register r) := by
  refine ⟨register_indexOK t r h.1, ?_⟩
  intro x hx
  have hrs : (t.register r).rs = t.rs ++ [r] := by
    cases t; unfold Table.register; split <;> rfl
  rw [hrs] at hx
  rcases List.mem_append.mp hx with hx | hx
  · exact h.2 x hx
  · simp only [List.mem_singleton] at hx; subst hx; exact hr

theorem dropLast_append_of_getLast? {α} (l : List α) (a : α) (h : l.getLast? = some a) :
    l.dropLast ++ [a] = l := by
  have hne : l ≠ [] := by intro e; simp [e] at h
  have := List.dropLast_concat_getLast hne
  rw [List.getLast?_eq_some_getLast hne] at h
  injection h with h
  rw [← h]; exact this

theorem withRoutes_isDom (r : Res) (rts : Routes) : isDom (r.withRoutes rts) = isDom r := by
  cases r <;> rfl

theorem withRoutes_keyOf (r : Res) (rts : Routes) : keyOf (r.withRoutes rts) = keyOf r := by
  cases r <;> rfl

theorem fresh_good (f : Nat) (rq : List (Str × Str)) (t t' : Table) (m path : Str) (hid : Nat)
    (h : Good (f + 1) t) (he : addRoute.fresh rq t m path hid = .ok t') : Good (f + 1) t' := by
  unfold addRoute.fresh at he
  split at he
  · injection he with he; subst he
    exact register_good f t _ h trivial
  · cases hc : compile rq path with
    | error e => simp [hc, bind, Except.bind] at he
    | ok ps =>
      simp only [hc, bind, Except.bind, pure, Except.pure] at he
      injection he with he; subst he
      exact register_good f t _ h trivial

/-- `add_route` (= `add_resource` + `Resource.add_route`, including the re-use of the last
resource) keeps the table good -/
theorem addRoute_good (f : Nat) (rq : List (Str × Str)) (t t' : Table) (m path : Str) (hid : Nat)
    (h : Good (f + 1) t) (he : addRoute rq t m path hid = .ok t') : Good (f + 1) t' := by
  unfold addRoute at he
  split at he
  · cases he
  · split at he
    · next last hl =>
      split at he
      · next hraw =>
        split at he
        · cases he
        · injection he with he; subst he
          have hrs : t.rs.dropLast ++ [last] = t.rs := dropLast_append_of_getLast? _ _ hl
          obtain ⟨⟨hidx, hm⟩, hmem⟩ := h
          refine ⟨⟨?_, ?_⟩, ?_⟩
          · intro k
            have := hidx k
            rw [← hrs, positions_append_singleton] at this
            simp only [Table.index, Table.rs, positions_append_singleton, withRoutes_isDom, withRoutes_keyOf]
            exact this
          · have := hm
            rw [← hrs, positions_append_singleton] at this
            simp only [Table.matched, Table.rs, positions_append_singleton, withRoutes_isDom]
            exact this
          · intro x hx
            simp only [Table.rs] at hx
            rcases List.mem_append.mp hx with hx | hx
            · exact hmem x (by rw [← hrs]; exact List.mem_append_left _ hx)
            · simp only [List.mem_singleton] at hx
              subst hx
              cases last <;> first | trivial | simp [rawMatch] at hraw
      · exact fresh_good f rq t t' m path hid h he
    · exact fresh_good f rq t t' m path hid h he

/-- `add_static` keeps the table good (the re-quoted prefix is assumed well formed) -/
theorem addStatic_good (f : Nat) (t t' : Table) (pfx q : Str) (hid : Nat) (h : Good (f + 1) t)
    (hq : PfxWF q) (he : addStatic t pfx q hid = .ok t') : Good (f + 1) t' := by
  unfold addStatic at he
  simp only [] at he
  repeat' split at he
  all_goals first | (injection he with he; subst he; exact register_good f t _ h hq) | cases he

theorem positions_map_congr (P : Res → Bool) (g : Res → Res) (rs : List Res)
    (h : ∀ r, P (g r) = P r) : positions P (rs.map g) = positions P rs := by
  induction rs with
  | nil => rfl
  | cons r rs ih => rw [List.map_cons, positions_cons, positions_cons, ih, h]

theorem freezeRes_isDom (r : Res) : isDom (freezeRes r) = isDom r := by cases r <;> rfl

theorem freezeRes_keyOf (r : Res) : keyOf (freezeRes r) = keyOf r := by
  cases r with
  | plain p rts =>
    simp only [freezeRes, keyOf, canonical]
    cases p with
    | nil => decide
    | cons c t => rfl
  | _ => rfl

/-- `UrlDispatcher.freeze` (empty plain path becomes `/`) keeps the table good: the index key of
`""` and of `"/"` is the same -/
theorem freeze_good (f : Nat) (t : Table) (h : Good f t) : Good f t.freeze := by
  cases f with
  | zero => trivial
  | succ f =>
    cases t with
    | mk rs idx m =>
      obtain ⟨⟨hidx, hm⟩, hmem⟩ := h
      simp only [Table.index, Table.rs, Table.matched] at hidx hm hmem
      have e1 : ∀ k, positions (fun r => !isDom r && keyOf r == k) (rs.map freezeRes) =
          positions (fun r => !isDom r && keyOf r == k) rs := fun k =>
        positions_map_congr _ freezeRes rs (by intro r; simp only [freezeRes_isDom, freezeRes_keyOf])
      have e2 : positions isDom (rs.map freezeRes) = positions isDom rs :=
        positions_map_congr _ freezeRes rs freezeRes_isDom
      refine ⟨⟨?_, ?_⟩, ?_⟩
      · intro k
        simp only [Table.freeze, Table.index, Table.rs, e1]
        exact hidx k
      · simp only [Table.freeze, Table.matched, Table.rs, e2]
        exact hm
      · intro x hx
        simp only [Table.freeze, Table.rs, List.mem_map] at hx
        obtain ⟨r, hr, rfl⟩ := hx
        have := hmem r hr
        cases r <;> first | trivial | exact this

/-- `add_domain` keeps the table good -/
theorem addDomain_good (f : Nat) (t s : Table) (rule : Rule) (h : Good (f + 1) t) (hs : Good f s) :
    Good (f + 1) (addDomain t rule s) := register_good f t _ h (freeze_good f s hs)

/-- `add_subapp`, parent side: registering the (already prefixed) sub-application keeps the
parent good.  (*partial*: that the re-indexing loop `_add_prefix_to_resources` leaves the
sub-application's own index consistent — `Good f s'` — is a hypothesis here; it is exercised by the
correspondence run, which compares every nested `_resource_index` with the model's.)

Full statement, not proved:
`Good (f+1) t → Good f s → PfxWF q → addSubapp fuel t pfx q s = .ok t' → Good (f+1) t'`. -/
theorem addSubapp_good_partial (f fuel : Nat) (t t' s : Table) (pfx q : Str) (h : Good (f + 1) t)
    (hq : PfxWF q)
    (hs : ∀ s', addPrefixTable fuel (rstripSlash pfx) s = .ok s' → Good f s')
    (he : addSubapp fuel t pfx q s = .ok t') : Good (f + 1) t' := by
  unfold addSubapp at he
  simp only at he
  split at he
  · cases he
  · split at he
    · cases he
    · cases hp : addPrefixTable fuel (rstripSlash pfx) s with
      | error e => simp [hp, bind, Except.bind] at he
      | ok s' =>
        simp only [hp, bind, Except.bind, pure, Except.pure] at he
        injection he with he; subst he
        exact register_good f t _ h ⟨hq, freeze_good f s' (hs s' hp)⟩


/-! ## path-normalising redirects stay on the site -/

theorem dropWhile_slash_head (t : Str) : ∀ u, t.dropWhile (· = SL) ≠ SL :: u := by
  induction t with
  | nil => simp
  | cons c t ih =>
    intro u
    by_cases hc : c = SL
    · simp only [List.dropWhile_cons, hc, decide_true, if_true]; exact ih u
    · simp only [List.dropWhile_cons, hc, decide_false]
      intro e; injection e with e _; exact hc e

theorem stripLead_no_double (s : Str) : ∀ t, stripLeadSlashes s ≠ SL :: SL :: t := by
  intro t
  unfold stripLeadSlashes
  split
  · next a b u =>
    split
    · intro e; injection e with _ e; exact dropWhile_slash_head u t e
    · next hn => intro e; injection e with e1 e2; injection e2 with e2 _; exact hn ⟨e1, e2⟩
  · next hn => intro e; exact hn SL SL t e

theorem stripLead_startsSL (s : Str) (h : s = [] ∨ StartsSL s) :
    stripLeadSlashes s = [] ∨ StartsSL (stripLeadSlashes s) := by
  unfold stripLeadSlashes
  split
  · split
    · right; simp [StartsSL]
    · exact h
  · exact h

/-- **redirect_same_site.** Whatever the request path and the middleware flags, no path that
`normalize_path_middleware` tries (and therefore no redirect target it can produce, before
yarl's re-quoting) starts with `//`: it can never be read as a network-path reference to
another host. -/
theorem redirect_same_site (fl : MwFlags) (path : Str) (ends : Bool) (c : Str)
    (hc : c ∈ mwCandidates fl path ends) : ∀ t, c ≠ SL :: SL :: t := by
  unfold mwCandidates at hc
  simp only [List.mem_map] at hc
  obtain ⟨s, _, rfl⟩ := hc
  exact stripLead_no_double s

theorem mergeSlashes_startsSL (s : Str) (h : StartsSL s) : StartsSL (mergeSlashes s) := by
  induction s with
  | nil => simp [StartsSL] at h
  | cons a rest ih =>
    simp only [StartsSL, List.head?_cons, Option.some.injEq] at h
    subst h
    cases rest with
    | nil => simp [mergeSlashes, StartsSL]
    | cons b u =>
      simp only [mergeSlashes]
      split
      · next hb => exact ih (by simp [StartsSL, hb.2])
      · simp [StartsSL]

theorem dropLast_startsSL (s : Str) (h : StartsSL s) : s.dropLast = [] ∨ StartsSL s.dropLast := by
  cases s with
  | nil => left; rfl
  | cons a t =>
    cases t with
    | nil => left; rfl
    | cons b u => right; simpa [StartsSL, List.dropLast] using h

/-- for an origin-form request path every candidate is empty or starts with exactly one `/` -/
theorem redirect_candidates_rooted (fl : MwFlags) (path : Str) (ends : Bool) (hp : StartsSL path)
    (c : Str) (hc : c ∈ mwCandidates fl path ends) :
    c = [] ∨ (StartsSL c ∧ ∀ t, c ≠ SL :: SL :: t) := by
  have h2 := redirect_same_site fl path ends c hc
  unfold mwCandidates at hc
  simp only [List.mem_map] at hc
  obtain ⟨s, hs, rfl⟩ := hc
  have hpa : StartsSL (path ++ [SL]) := by
    cases path with
    | nil => simp [StartsSL] at hp
    | cons a t => simpa [StartsSL] using hp
  have hs' : s = [] ∨ StartsSL s := by
    simp only [List.mem_append] at hs
    rcases hs with (((hs | hs) | hs) | hs) | hs
    · split at hs
      · simp only [List.mem_singleton] at hs; subst hs; exact Or.inr (mergeSlashes_startsSL _ hp)
      · simp at hs
    · split at hs
      · simp only [List.mem_singleton] at hs; subst hs; exact Or.inr hpa
      · simp at hs
    · split at hs
      · simp only [List.mem_singleton] at hs; subst hs; exact dropLast_startsSL _ hp
      · simp at hs
    · split at hs
      · simp only [List.mem_singleton] at hs; subst hs; exact Or.inr (mergeSlashes_startsSL _ hpa)
      · simp at hs
    · split at hs
      · simp only [List.mem_singleton] at hs; subst hs
        exact dropLast_startsSL _ (mergeSlashes_startsSL _ hp)
      · simp at hs
  rcases stripLead_startsSL s hs' with h | h
  · exact Or.inl h
  · exact Or.inr ⟨h, h2⟩


/-! ## 404 / 405 (tables of plain, dynamic and static resources) -/

def isLeaf : Res → Bool
  | .plain _ _ | .dyn _ _ _ | .static _ _ => true
  | _ => false

/-- the resource matches the request *path* (documented notion) -/
def pathMatch (r : Res) (q : Req) : Bool :=
  match r with
  | .plain p _ => p == q.path
  | .dyn _ ps _ => (dynMatch ps q.path).isSome
  | .static pfx _ => underPrefix pfx q.path && underPrefix pfx q.norm
  | _ => false

/-- the resource has a route for the method (`*` counts for plain / dynamic resources) -/
def methodMatch (r : Res) (m : Str) : Bool :=
  match r with
  | .static _ rts => (rts.find? (fun x => x.1 == m)).isSome
  | r => (r.routes.lookup m).isSome

def passList : Ans → List Str
  | .pass al => al
  | .final _ => []

/-- answers of leaf resources: "not me" or a found handler -/
def LeafAns (a : Ans) : Prop := (∃ al, a = .pass al) ∨ ∃ h d, a = .final (.found h d)

theorem leaf_answer (rec : Table → Req → Result) (r : Res) (q : Req) (hl : isLeaf r = true) :
    (pathMatch r q = false → ansSpecWith rec r q = .pass []) ∧
    (pathMatch r q = true → methodMatch r q.method = false →
      ansSpecWith rec r q = .pass r.routes.allowed) ∧
    (pathMatch r q = true → methodMatch r q.method = true →
      ∃ h d, ansSpecWith rec r q = .final (.found h d)) := by
  cases r with
  | plain p rts =>
    simp only [pathMatch, methodMatch, ansSpecWith, ansLeaf, Res.routes]
    cases hp : (p == q.path) <;> simp [ansRoutes]
    cases hm : rts.lookup q.method <;> simp
  | dyn o ps rts =>
    simp only [pathMatch, methodMatch, ansSpecWith, ansLeaf, Res.routes]
    cases hp : dynMatch ps q.path <;> simp [ansRoutes]
    cases hm : rts.lookup q.method <;> simp
  | static pfx rts =>
    simp only [pathMatch, methodMatch, ansSpecWith, ansLeaf, Res.routes]
    cases hp : underPrefix pfx q.path <;> cases hn : underPrefix pfx q.norm <;>
      cases hm : rts.find? (fun x => x.1 == q.method) <;> simp [hm]
  | sub pfx t => simp [isLeaf] at hl
  | dom rule t => simp [isLeaf] at hl

theorem leaf_answer_leafAns (rec : Table → Req → Result) (r : Res) (q : Req) (hl : isLeaf r = true) :
    LeafAns (ansSpecWith rec r q) := by
  have ⟨h1, h2, h3⟩ := leaf_answer rec r q hl
  cases hp : pathMatch r q with
  | false => exact Or.inl ⟨_, h1 hp⟩
  | true =>
    cases hm : methodMatch r q.method with
    | false => exact Or.inl ⟨_, h2 hp hm⟩
    | true => exact Or.inr (h3 hp hm)

theorem combine_404 (l : List Ans) (acc : List Str) (hl : ∀ a ∈ l, LeafAns a)
    (h : combine l acc = .e404) : acc = [] ∧ ∀ a ∈ l, a = .pass [] := by
  induction l generalizing acc with
  | nil =>
    simp only [combine] at h
    split at h
    · next he => exact ⟨by simpa using he, by simp⟩
    · cases h
  | cons a l ih =>
    rcases hl a (List.mem_cons_self ..) with ⟨al, rfl⟩ | ⟨hh, d, rfl⟩
    · simp only [combine] at h
      have ⟨h1, h2⟩ := ih _ (fun x hx => hl x (List.mem_cons_of_mem _ hx)) h
      have ha : acc = [] ∧ al = [] := by simpa using h1
      refine ⟨ha.1, ?_⟩
      intro x hx
      rcases List.mem_cons.mp hx with rfl | hx
      · rw [ha.2]
      · exact h2 x hx
    · simp [combine] at h

theorem combine_all_pass (l : List Ans) (acc : List Str) (hl : ∀ a ∈ l, ∃ al, a = .pass al) :
    combine l acc =
      if (acc ++ l.flatMap passList).isEmpty then .e404 else .e405 (acc ++ l.flatMap passList) := by
  induction l generalizing acc with
  | nil => simp [combine]
  | cons a l ih =>
    obtain ⟨al, rfl⟩ := hl a (List.mem_cons_self ..)
    simp only [combine, List.flatMap_cons, passList]
    rw [ih _ (fun x hx => hl x (List.mem_cons_of_mem _ hx))]
    simp [List.append_assoc]

theorem combine_405 (l : List Ans) (acc A : List Str) (hl : ∀ a ∈ l, LeafAns a)
    (h : combine l acc = .e405 A) : (∀ a ∈ l, ∃ al, a = .pass al) ∧ A = acc ++ l.flatMap passList := by
  induction l generalizing acc with
  | nil =>
    simp only [combine] at h
    split at h
    · cases h
    · injection h with h; simp [h]
  | cons a l ih =>
    rcases hl a (List.mem_cons_self ..) with ⟨al, rfl⟩ | ⟨hh, d, rfl⟩
    · simp only [combine] at h
      have ⟨h1, h2⟩ := ih _ (fun x hx => hl x (List.mem_cons_of_mem _ hx)) h
      refine ⟨?_, by simp [h2, passList, List.append_assoc]⟩
      intro x hx
      rcases List.mem_cons.mp hx with rfl | hx
      · exact ⟨al, rfl⟩
      · exact h1 x hx
    · simp [combine] at h

theorem mem_descFrom (n m : Nat) : m ∈ descFrom n ↔ m < n := by
  induction n with
  | zero => simp [descFrom]
  | succ n ih => simp only [descFrom, List.mem_cons, ih]; omega

/-- a table of leaf resources only -/
def Flat (t : Table) : Prop := ∀ r ∈ t.rs, isLeaf r = true

theorem leaf_not_dom (r : Res) (h : isLeaf r = true) : isDom r = false := by
  cases r <;> simp_all [isLeaf, isDom]

/-- the answers the linear rule scans, for a flat table: exactly the answers of the resources
whose key is not longer than the path -/
theorem linear_flat (f : Nat) (t : Table) (q : Req) (hf : Flat t) :
    ∃ l, linear (f + 1) t q = combine l [] ∧
      (∀ a, a ∈ l ↔ ∃ r ∈ t.rs, (keyOf r).length ≤ q.path.length ∧ a = ansSpecWith (linear f) r q) := by
  refine ⟨(descRange q.path.length).flatMap (fun n =>
      (t.rs.filter (fun r => !isDom r && (keyOf r).length == n)).map
        (fun r => ansSpecWith (linear f) r q)), ?_, ?_⟩
  · simp only [linear]
    have : t.rs.filter isDom = [] := by
      apply List.filter_eq_nil_iff.mpr
      intro r hr; simp [leaf_not_dom r (hf r hr)]
    rw [this]; rfl
  · intro a
    simp only [List.mem_flatMap, List.mem_map, List.mem_filter, descRange, mem_descFrom,
      Bool.and_eq_true, Bool.not_eq_true', beq_iff_eq]
    constructor
    · rintro ⟨n, hn, r, ⟨hr, _, hk⟩, rfl⟩
      exact ⟨r, hr, by omega, rfl⟩
    · rintro ⟨r, hr, hk, rfl⟩
      exact ⟨_, by omega, r, ⟨hr, leaf_not_dom r (hf r hr), rfl⟩, rfl⟩

/-- every resource of a flat table is either scanned or inert -/
theorem flat_all (f : Nat) (t : Table) (q : Req) (hp : StartsSL q.path) (hf : Flat t) (r : Res)
    (hr : r ∈ t.rs) : (keyOf r).length ≤ q.path.length ∨ ansSpecWith (linear f) r q = .pass [] := by
  by_cases h : ansSpecWith (linear f) r q = .pass []
  · exact Or.inr h
  · left
    exact walk_length_le hp (index_complete _ r q hp (leaf_not_dom r (hf r hr)) h)

/-- **status_404_iff.** For a table of plain / dynamic / static resources that all have at
least one route: 404 is the answer exactly when no resource matches the path. -/
theorem status_404_iff (f : Nat) (t : Table) (q : Req) (hp : StartsSL q.path) (hf : Flat t)
    (hne : ∀ r ∈ t.rs, r.routes ≠ []) :
    linear (f + 1) t q = .e404 ↔ ∀ r ∈ t.rs, pathMatch r q = false := by
  obtain ⟨l, hl, hmem⟩ := linear_flat f t q hf
  have hleaf : ∀ a ∈ l, LeafAns a := by
    intro a ha
    obtain ⟨r, hr, _, rfl⟩ := (hmem a).mp ha
    exact leaf_answer_leafAns _ r q (hf r hr)
  have hinert : ∀ r ∈ t.rs, (ansSpecWith (linear f) r q = .pass [] ↔ pathMatch r q = false) := by
    intro r hr
    have ⟨h1, h2, h3⟩ := leaf_answer (linear f) r q (hf r hr)
    constructor
    · intro h
      cases hpm : pathMatch r q with
      | false => rfl
      | true =>
        cases hm : methodMatch r q.method with
        | false =>
          rw [h2 hpm hm] at h
          injection h with h
          have := hne r hr
          simp [Routes.allowed] at h
          exact absurd h this
        | true =>
          obtain ⟨hh, d, e⟩ := h3 hpm hm
          rw [e] at h; cases h
    · exact h1
  rw [hl]
  constructor
  · intro h r hr
    have ⟨_, hall⟩ := combine_404 l [] hleaf h
    rcases flat_all f t q hp hf r hr with hk | hi
    · exact (hinert r hr).mp (hall _ ((hmem _).mpr ⟨r, hr, hk, rfl⟩))
    · exact (hinert r hr).mp hi
  · intro h
    have hall : ∀ a ∈ l, ∃ al, a = Ans.pass al := by
      intro a ha
      obtain ⟨r, hr, _, rfl⟩ := (hmem a).mp ha
      exact ⟨[], (hinert r hr).mpr (h r hr)⟩
    rw [combine_all_pass l [] hall]
    have : l.flatMap passList = [] := by
      apply List.flatMap_eq_nil_iff.mpr
      intro a ha
      obtain ⟨r, hr, _, rfl⟩ := (hmem a).mp ha
      rw [(hinert r hr).mpr (h r hr)]; rfl
    simp [this]


theorem inert_iff_not_pathMatch (rec : Table → Req → Result) (r : Res) (q : Req)
    (hl : isLeaf r = true) (hne : r.routes ≠ []) :
    ansSpecWith rec r q = .pass [] ↔ pathMatch r q = false := by
  have ⟨h1, h2, h3⟩ := leaf_answer rec r q hl
  constructor
  · intro h
    cases hpm : pathMatch r q with
    | false => rfl
    | true =>
      cases hm : methodMatch r q.method with
      | false =>
        rw [h2 hpm hm] at h
        injection h with h
        simp [Routes.allowed] at h
        exact absurd h hne
      | true =>
        obtain ⟨hh, d, e⟩ := h3 hpm hm
        rw [e] at h; cases h
  · exact h1

/-- **allowed_complete.** When a flat table answers 405, the allowed methods are exactly the
methods of all resources that match the path — none missing, none extra. -/
theorem allowed_complete (f : Nat) (t : Table) (q : Req) (A : List Str) (hp : StartsSL q.path)
    (hf : Flat t) (hne : ∀ r ∈ t.rs, r.routes ≠ []) (h : linear (f + 1) t q = .e405 A) :
    ∀ m, m ∈ A ↔ ∃ r ∈ t.rs, pathMatch r q = true ∧ m ∈ r.routes.allowed := by
  obtain ⟨l, hl, hmem⟩ := linear_flat f t q hf
  have hleaf : ∀ a ∈ l, LeafAns a := by
    intro a ha
    obtain ⟨r, hr, _, rfl⟩ := (hmem a).mp ha
    exact leaf_answer_leafAns _ r q (hf r hr)
  rw [hl] at h
  obtain ⟨hpass, hA⟩ := combine_405 l [] A hleaf h
  intro m
  rw [hA]
  simp only [List.nil_append, List.mem_flatMap]
  constructor
  · rintro ⟨a, ha, hm⟩
    obtain ⟨r, hr, _, rfl⟩ := (hmem a).mp ha
    have ⟨h1, h2, h3⟩ := leaf_answer (linear f) r q (hf r hr)
    refine ⟨r, hr, ?_⟩
    cases hpm : pathMatch r q with
    | false => rw [h1 hpm] at hm; simp [passList] at hm
    | true =>
      cases hmm : methodMatch r q.method with
      | false => rw [h2 hpm hmm] at hm; exact ⟨rfl, hm⟩
      | true =>
        obtain ⟨hh, d, e⟩ := h3 hpm hmm
        obtain ⟨al, e'⟩ := hpass _ ha
        rw [e] at e'; cases e'
  · rintro ⟨r, hr, hpm, hm⟩
    have ⟨h1, h2, h3⟩ := leaf_answer (linear f) r q (hf r hr)
    have hni : ansSpecWith (linear f) r q ≠ .pass [] := by
      intro e
      have := (inert_iff_not_pathMatch (linear f) r q (hf r hr) (hne r hr)).mp e
      rw [hpm] at this; cases this
    have hk : (keyOf r).length ≤ q.path.length := by
      rcases flat_all f t q hp hf r hr with hk | hi
      · exact hk
      · exact absurd hi hni
    have ha : ansSpecWith (linear f) r q ∈ l := (hmem _).mpr ⟨r, hr, hk, rfl⟩
    refine ⟨_, ha, ?_⟩
    cases hmm : methodMatch r q.method with
    | false => rw [h2 hpm hmm]; exact hm
    | true =>
      obtain ⟨hh, d, e⟩ := h3 hpm hmm
      obtain ⟨al, e'⟩ := hpass _ ha
      rw [e] at e'; cases e'

/-- **status_405_iff.** A flat table answers 405 exactly when some resource matches the path
and none of the path-matching resources has a route for the method. -/
theorem status_405_iff (f : Nat) (t : Table) (q : Req) (hp : StartsSL q.path) (hf : Flat t)
    (hne : ∀ r ∈ t.rs, r.routes ≠ []) :
    (∃ A, linear (f + 1) t q = .e405 A) ↔
      (∃ r ∈ t.rs, pathMatch r q = true) ∧
      ∀ r ∈ t.rs, pathMatch r q = true → methodMatch r q.method = false := by
  obtain ⟨l, hl, hmem⟩ := linear_flat f t q hf
  have hleaf : ∀ a ∈ l, LeafAns a := by
    intro a ha
    obtain ⟨r, hr, _, rfl⟩ := (hmem a).mp ha
    exact leaf_answer_leafAns _ r q (hf r hr)
  have hscan : ∀ r ∈ t.rs, pathMatch r q = true → ansSpecWith (linear f) r q ∈ l := by
    intro r hr hpm
    have hni : ansSpecWith (linear f) r q ≠ .pass [] := by
      intro e
      have := (inert_iff_not_pathMatch (linear f) r q (hf r hr) (hne r hr)).mp e
      rw [hpm] at this; cases this
    rcases flat_all f t q hp hf r hr with hk | hi
    · exact (hmem _).mpr ⟨r, hr, hk, rfl⟩
    · exact absurd hi hni
  constructor
  · rintro ⟨A, h⟩
    rw [hl] at h
    obtain ⟨hpass, hA⟩ := combine_405 l [] A hleaf h
    constructor
    · -- A is non-empty, so some scanned resource contributes a method
      have hne' : l.flatMap passList ≠ [] := by
        intro e
        rw [combine_all_pass l [] hpass] at h
        simp [e] at h
      obtain ⟨a, ha, hna⟩ : ∃ a ∈ l, passList a ≠ [] := by
        apply Classical.byContradiction
        intro hcon
        apply hne'
        apply List.flatMap_eq_nil_iff.mpr
        intro a ha
        apply Classical.byContradiction
        intro hna
        exact hcon ⟨a, ha, hna⟩
      obtain ⟨r, hr, _, rfl⟩ := (hmem a).mp ha
      refine ⟨r, hr, ?_⟩
      cases hpm : pathMatch r q with
      | true => rfl
      | false =>
        have := (leaf_answer (linear f) r q (hf r hr)).1 hpm
        rw [this] at hna; simp [passList] at hna
    · intro r hr hpm
      cases hmm : methodMatch r q.method with
      | false => rfl
      | true =>
        obtain ⟨hh, d, e⟩ := (leaf_answer (linear f) r q (hf r hr)).2.2 hpm hmm
        obtain ⟨al, e'⟩ := hpass _ (hscan r hr hpm)
        rw [e] at e'; cases e'
  · rintro ⟨⟨r0, hr0, hpm0⟩, hall⟩
    have hpass : ∀ a ∈ l, ∃ al, a = Ans.pass al := by
      intro a ha
      obtain ⟨r, hr, _, rfl⟩ := (hmem a).mp ha
      have ⟨h1, h2, _⟩ := leaf_answer (linear f) r q (hf r hr)
      cases hpm : pathMatch r q with
      | false => exact ⟨_, h1 hpm⟩
      | true => exact ⟨_, h2 hpm (hall r hr hpm)⟩
    rw [hl, combine_all_pass l [] hpass]
    have hne' : (l.flatMap passList).isEmpty = false := by
      have ha := hscan r0 hr0 hpm0
      have e := (leaf_answer (linear f) r0 q (hf r0 hr0)).2.1 hpm0 (hall r0 hr0 hpm0)
      cases hfl : l.flatMap passList with
      | nil =>
        have := List.flatMap_eq_nil_iff.mp hfl _ ha
        rw [e] at this
        simp [passList, Routes.allowed] at this
        exact absurd this (hne r0 hr0)
      | cons x xs => rfl
    simp only [List.nil_append, hne']
    exact ⟨_, rfl⟩


/-! ## url_for and resolution are inverse -/

/-- the path obtained by substituting the (decoded) values `ws` into the pattern, in order -/
def render : List Part → Dict → Str
  | [], _ => []
  | .lit l :: ps, ws => l ++ render ps ws
  | .var _ _ _ :: ps, w :: ws => w.2 ++ render ps ws
  | .var _ _ _ :: _, [] => []

/-- `ws` supplies, in order, one value per variable; each value is non-empty (as long as the
variable's minimal length), lies in the variable's character class, and is followed in the
rendered path by the end or by a character outside the class (for `{v}` between slashes: the `/`). -/
inductive Fits : List Part → Dict → Prop
  | nil : Fits [] []
  | lit {l ps ws} : Fits ps ws → Fits (.lit l :: ps) ws
  | var {n rs mn ps w ws} : Fits ps ws → w ≠ [] → mn ≤ w.length → (∀ c ∈ w, inRanges rs c = true) →
      (render ps ws = [] ∨ ∃ c t, render ps ws = c :: t ∧ inRanges rs c = false) →
      Fits (.var n rs mn :: ps) ((n, w) :: ws)

theorem runLen_append (rs : List (Nat × Nat)) (w rest : Str) (hw : ∀ c ∈ w, inRanges rs c = true)
    (hr : rest = [] ∨ ∃ c t, rest = c :: t ∧ inRanges rs c = false) :
    runLen rs (w ++ rest) = w.length := by
  induction w with
  | nil =>
    rcases hr with rfl | ⟨c, t, rfl, hc⟩
    · rfl
    · simp [runLen, hc]
  | cons a w ih =>
    have ha := hw a (List.mem_cons_self ..)
    simp only [List.cons_append, runLen, ha, if_true, List.length_cons]
    rw [ih (fun c hc => hw c (List.mem_cons_of_mem _ hc))]

/-- the pattern matcher recovers exactly the substituted values -/
theorem match_render (ps : List Part) (ws : Dict) (h : Fits ps ws) :
    matchFrom ps (render ps ws) = some ws := by
  induction h with
  | nil => simp [matchFrom, render]
  | @lit l ps ws _ ih =>
    simp only [matchFrom, render, isPrefix_append_self, if_true, List.drop_left]
    exact ih
  | @var n rs mn ps w ws _ hne hmn hin hnext ih =>
    simp only [matchFrom, render]
    rw [runLen_append rs w _ hin hnext]
    cases hl : w.length with
    | zero => exact absurd (List.length_eq_zero_iff.mp hl) hne
    | succ m =>
      simp only [tryLen]
      have h1 : ¬ (m + 1 < mn) := by omega
      simp only [h1, if_false]
      rw [← hl, List.drop_left, List.take_left, ih]

/-- **urlfor_resolve_inverse (partial).** If the decoded request path is the formatter with the
values `ws` substituted (which is what yarl's `path_safe` of the `url_for` result is, by the
quoting laws that the harness checks on the real library), and each value fits its variable
(`Fits`: non-empty, inside the variable's class — for `{v}`: free of `/`, `{`, `}` — and
delimited by the next literal), then `DynamicResource._match` returns exactly the values,
each passed through `_unquote_path_safe`.

*partial*: the round trip through yarl (`_unquote_path_safe (path_safe (_quote_path v)) = v`, and
`path_safe` distributing over the formatter) is a hypothesis about the un-modelled library, and
literals that re-quoting changes are excluded (finding F12: for them the inverse fails). -/
theorem urlfor_resolve_inverse_partial (ps : List Part) (ws : Dict) (h : Fits ps ws) :
    dynMatch ps (render ps ws) = some (ws.map (fun kv => (kv.1, unquoteSafe kv.2))) := by
  simp [dynMatch, match_render ps ws h]

/-- values without `%` come back unchanged -/
theorem unquoteSafe_id (v : Str) (h : v.contains PCT = false) : unquoteSafe v = v := by
  unfold unquoteSafe
  rw [h]; rfl


/-! ## domain masks match the whole host -/

theorem globStar_some (k : Str → Bool) (s : Str) (n : Nat) (h : starLoop k s n = true) :
    ∃ j, k (s.drop j) = true := by
  induction n with
  | zero => exact ⟨0, by simpa [starLoop] using h⟩
  | succ n ih =>
    simp only [starLoop, Bool.or_eq_true] at h
    rcases h with h | h
    · exact ⟨n + 1, h⟩
    · exact ih h

/-- a star-free pattern matches only itself -/
theorem globMatch_literal (lit s : Str) (hl : (42 : Nat) ∉ lit) (h : globMatch lit s = true) : s = lit := by
  induction lit generalizing s with
  | nil => simpa [globMatch] using h
  | cons c lit ih =>
    have hc : c ≠ 42 := fun e => hl (by simp [e])
    cases s with
    | nil => simp [globMatch, hc] at h
    | cons d st =>
      simp only [globMatch, hc, if_false, Bool.and_eq_true, beq_iff_eq] at h
      rw [h.1, ih st (fun hm => hl (List.mem_cons_of_mem _ hm)) h.2]

/-- **mask_full_match.** A mask whose last part `lit` is free of `*` (e.g. `*.example.com`) matches
only hosts that *end* with that literal text: nothing can follow it. -/
theorem glob_suffix (p0 lit s : Str) (hl : (42 : Nat) ∉ lit) (h : globMatch (p0 ++ lit) s = true) :
    ∃ s0, s = s0 ++ lit := by
  induction p0 generalizing s with
  | nil => exact ⟨[], by simpa using globMatch_literal lit s hl h⟩
  | cons c p0 ih =>
    by_cases hc : c = 42
    · subst hc
      simp only [List.cons_append, globMatch, if_true] at h
      obtain ⟨k, hk⟩ := globStar_some _ _ _ h
      obtain ⟨s0, hs0⟩ := ih _ hk
      exact ⟨s.take k ++ s0, by rw [List.append_assoc, ← hs0, List.take_append_drop]⟩
    · cases s with
      | nil => simp [globMatch, hc] at h
      | cons d st =>
        simp only [List.cons_append, globMatch, hc, if_false, Bool.and_eq_true, beq_iff_eq] at h
        obtain ⟨s0, hs0⟩ := ih _ h.2
        exact ⟨d :: s0, by rw [hs0]; rfl⟩

/-- … hence a `MaskDomain` rule with a literal tail only captures hosts that end with exactly
that text: `*.example.com` never takes `a.example.com.attacker.net`, `a.example.community` or
`a.example.com:8443` (none of them ends with `.example.com`). -/
theorem mask_match_ends_with_literal (p0 lit host : Str) (hl : (42 : Nat) ∉ lit)
    (h : ruleMatch (.mask (p0 ++ lit)) (some host) = true) : ∃ s0, host = s0 ++ lit := by
  simp only [ruleMatch] at h
  split at h
  · cases h
  · simp only [Bool.and_eq_true] at h
    exact glob_suffix p0 lit host hl h.1

/-- the seeded-defect hosts, on the model: `*.b.example` takes `x.b.example` and nothing that
continues after it -/
example :
    ruleMatch (.mask [42, 46, 98, 46, 101]) (some [120, 46, 98, 46, 101]) = true ∧
    ruleMatch (.mask [42, 46, 98, 46, 101]) (some [120, 46, 98, 46, 101, 46, 110, 101, 116]) = false ∧
    ruleMatch (.mask [42, 46, 98, 46, 101]) (some [120, 46, 98, 46, 101, 58, 56]) = false ∧
    ruleMatch (.mask [42, 46, 98, 46, 101]) (some [120, 10, 46, 98, 46, 101]) = false := by decide +kernel

def isOk {α} (e : Except Err α) : Bool := match e with | .ok _ => true | .error _ => false

/-! ## class-based views answer 405 with exactly the methods they serve -/

/-- **view_405_complete.** A class-based view calls a handler exactly for the standard methods
the class defines; every other method token — extension methods, names of other attributes of
`View`, different letter case — gets 405 whose Allow set is exactly the standard methods the
class defines (no call, no other outcome). -/
theorem view_405_complete (defined : List Str) (hid : Nat) (d : Dict) (m : Str) :
    (Gen.C14.methAll.contains m = true ∧ defined.contains m = true →
      viewDispatch defined hid d m = .found (hid + 1 + idxOf m Gen.C14.methAll) d) ∧
    (¬ (Gen.C14.methAll.contains m = true ∧ defined.contains m = true) →
      viewDispatch defined hid d m = .e405 (viewAllowed defined)) ∧
    (∀ x, x ∈ viewAllowed defined ↔ x ∈ Gen.C14.methAll ∧ x ∈ defined) := by
  refine ⟨?_, ?_, ?_⟩
  · rintro ⟨h1, h2⟩
    unfold viewDispatch
    rw [h1, h2]
    first | rfl | simp
  · intro h
    unfold viewDispatch
    cases h1 : Gen.C14.methAll.contains m with
    | false => simp
    | true =>
      cases h2 : defined.contains m with
      | false => simp
      | true => exact absurd ⟨h1, h2⟩ h
  · intro x
    simp [viewAllowed, List.mem_filter]

/-! ## frozen applications -/

/-- mounting on a frozen application is always refused (and, the result being a value, leaves
parent and sub-application untouched) -/
theorem frozen_refuses_mount (fuel : Nat) (t s : Table) (pfx q : Str) (rule : Rule) :
    isOk (addSubappOn true fuel t pfx q s) = false ∧ isOk (addDomainOn true t rule s) = false := by
  constructor
  · unfold addSubappOn; split <;> rfl
  · rfl

/-- on a frozen router `add_route` can only succeed by adding a route to the last resource; the
resource list keeps its length, the index and the matched list are untouched -/
theorem frozen_add_route_keeps_index (rq : List (Str × Str)) (t t' : Table) (m path : Str) (hid : Nat)
    (h : addRouteOn true rq t m path hid = .ok t') :
    t'.index = t.index ∧ t'.matched = t.matched ∧ t'.rs.length = t.rs.length := by
  unfold addRouteOn at h
  split at h
  · cases h
  · next t'' hok =>
    split at h
    · cases h
    · next hre =>
      injection h with h; subst h
      have hw : willReuse t path = true := by simpa using hre
      unfold willReuse at hw
      unfold addRoute at hok
      split at hok
      · cases hok
      · split at hok
        · next last hl =>
          rw [hl] at hw
          simp only [hw, if_true] at hok
          split at hok
          · cases hok
          · injection hok with hok; subst hok
            have hne : t.rs ≠ [] := by intro e; simp [e] at hl
            refine ⟨rfl, rfl, ?_⟩
            have := List.length_pos_iff.mpr hne
            show (t.rs.dropLast ++ [_]).length = t.rs.length
            rw [List.length_append, List.length_dropLast, List.length_singleton]
            omega
        · next hn => rw [hn] at hw; cases hw

/-! ## non-vacuity and the findings as kernel-checked facts about the model -/

def GET : Str := [71, 69, 84]
def POST : Str := [80, 79, 83, 84]
/-- `/a` -/ def pA : Str := [47, 97]
/-- `/a/{x}` -/ def tAX : Str := [47, 97, 47, 123, 120, 125]
/-- requote oracle for `/a/{x}`: `"/a/" ↦ "/a/"`, `"" ↦ ""` -/
def rqAX : List (Str × Str) := [([47, 97, 47], [47, 97, 47]), ([], [])]

def okTable (e : Except Err Table) : Table := match e with | .ok t => t | .error _ => Table.empty
def errIs {α} (e : Except Err α) (x : Err) : Bool := match e with | .ok _ => false | .error y => y == x

theorem ok_of_isOk (e : Except Err Table) (h : isOk e = true) : e = .ok (okTable e) := by
  cases e <;> simp_all [isOk, okTable]

/-- table: `add_route GET /a/{x}`, `add_route POST /a` -/
def exTable : Table :=
  okTable (addRoute rqAX (okTable (addRoute rqAX Table.empty GET tAX 0)) POST pA 1)

/-- the hypotheses of `resolve_eq_linear` are satisfiable: a table built by the registration
operations is `Good`, and `/a/b` starts with a slash -/
example : Good 1 exTable ∧ StartsSL [47, 97, 47, 98] := by
  refine ⟨?_, rfl⟩
  have h1 : addRoute rqAX Table.empty GET tAX 0 = .ok (okTable (addRoute rqAX Table.empty GET tAX 0)) :=
    ok_of_isOk _ (by decide +kernel)
  have g1 := addRoute_good 0 rqAX _ _ GET tAX 0 (empty_good 1) h1
  have h2 : addRoute rqAX (okTable (addRoute rqAX Table.empty GET tAX 0)) POST pA 1 = .ok exTable :=
    ok_of_isOk _ (by decide +kernel)
  exact addRoute_good 0 rqAX _ _ POST pA 1 g1 h2

def isFound (r : Result) (hid : Nat) : Bool := match r with | .found h _ => h == hid | _ => false
def is404 (r : Result) : Bool := match r with | .e404 => true | _ => false
def is405 (r : Result) : Bool := match r with | .e405 _ => true | _ => false

/-- … and on it `GET /a/b` finds handler 0, `GET /a` is a 405, `GET /b` a 404 -/
example :
    isFound (resolve 1 exTable ⟨[47, 97, 47, 98], [47, 97, 47, 98], GET, none⟩) 0 = true ∧
    is405 (resolve 1 exTable ⟨pA, pA, GET, none⟩) = true ∧
    is404 (resolve 1 exTable ⟨[47, 98], [47, 98], GET, none⟩) = true := by decide +kernel

/-- `Fits` is satisfiable: `/a/{x}` with `x = "b"` -/
example : Fits [.lit [47, 97, 47], .var [120] [(0, 46), (48, 122), (124, 124), (126, 1114111)] 1] [([120], [98])] :=
  .lit (.var .nil (by simp) (by simp) (by simp [inRanges]) (Or.inl rfl))

/-- **Finding F12, on the model.** `add_get("/a b/{x}")`: the literal is re-quoted to `/a%20b/`
(oracle column) and compared with the *decoded* path `/a b/1`, so the resource can never
match: the answer is 404. -/
theorem f12_quoted_literal_never_matches :
    is404 (resolve 1
      (okTable (addRoute [([47, 97, 32, 98, 47], [47, 97, 37, 50, 48, 98, 47]), ([], [])] Table.empty GET
        [47, 97, 32, 98, 47, 123, 120, 125] 0))
      ⟨[47, 97, 32, 98, 47, 49], [47, 97, 32, 98, 47, 49], GET, none⟩) = true := by decide +kernel

/-- **Finding (registration), on the model.** A sub-application that holds an `add_domain`
resource cannot be mounted with `add_subapp`: `_add_prefix_to_resources` un-indexes a resource
that was never indexed → `KeyError`. -/
theorem subapp_with_domain_keyerror :
    errIs (addSubapp 4 Table.empty [47, 112] [47, 112]
      (addDomain Table.empty (.exact [97]) Table.empty)) .key = true := by decide +kernel

end Aio.C14
