import AioProps.C14Lemmas
/-!
# C14 — property theorems (URL dispatch follows the documented resolution rule)

Model: `AioModel/C14.lean` (= `aiohttp/web_urldispatcher.py`, sub-app registration of
`web_app.py`, `normalize_path_middleware`).  `resolve` is the code (index walk), `linear` the
documented rule (no index).  Every statement quantifies over all tables / paths / methods /
hosts of the stated shape.
-/
namespace Aio.C14
open Aio

/-- the prefix index describes the resource list: the bucket of every key holds exactly the
positions of the (non-domain) resources with that key, in registration order, and
`_matched_sub_app_resources` holds exactly the domain resources -/
def IndexOK (t : Table) : Prop :=
  (∀ k, bucketOf t.index k = positions (fun r => !isDom r && keyOf r == k) t.rs) ∧
  t.matched = positions isDom t.rs

/-- `IndexOK` at every nesting level (down to depth `f`), and well-formed prefixes -/
def Good : Nat → Table → Prop
  | 0, _ => True
  | f + 1, t => IndexOK t ∧ ∀ r ∈ t.rs,
      match r with
      | .sub pfx s => PfxWF pfx ∧ Good f s
      | .dom _ s => Good f s
      | .static pfx _ => PfxWF pfx
      | _ => True

theorem flatMap_congr' {α β} (l : List α) (F G : α → List β) (h : ∀ a ∈ l, F a = G a) :
    l.flatMap F = l.flatMap G := by
  induction l with
  | nil => rfl
  | cons a l ih =>
    simp only [List.flatMap_cons]
    rw [h a (List.mem_cons_self ..), ih (fun x hx => h x (List.mem_cons_of_mem _ hx))]

/-- **index_complete.** A resource that the documented rule lets answer anything but
"no match, no methods" is indexed under a key that the walk `path, parent(path), …, "/"` visits. -/
theorem index_complete (rec : Table → Req → Result) (r : Res) (q : Req)
    (hp : StartsSL q.path) (hd : isDom r = false) (h : ansSpecWith rec r q ≠ .pass []) :
    keyOf r ∈ walk q.path :=
  key_mem_walk_of_answer rec r q hp hd h

/-- **resolve_eq_linear.** For every table whose index is consistent (at every nesting
level), every request path starting with `/`, every method and host: the index walk of
`UrlDispatcher.resolve` returns exactly what the documented linear rule returns — same
handler, same match dict, same 404/405 and the same allowed methods in the same order. -/
theorem resolve_eq_linear (f : Nat) (t : Table) (q : Req) (hp : StartsSL q.path) (hg : Good f t) :
    resolve f t q = linear f t q := by
  induction f generalizing t with
  | zero => rfl
  | succ f ih =>
    obtain ⟨⟨hidx, hm⟩, hrs⟩ := hg
    -- the two answer functions agree on every resource whose key is visited
    have hA : ∀ r ∈ t.rs, isDom r = false → keyOf r ∈ walk q.path →
        ansWith (resolve f) r q = ansSpecWith (linear f) r q := by
      intro r hr hd hk
      have hgr := hrs r hr
      cases r with
      | plain p rts => rfl
      | dyn o ps rts => rfl
      | static pfx rts =>
        have hu := underPrefix_of_key_mem_walk hp hgr hk
        simp [ansWith, ansSpecWith, hu]
      | sub pfx s =>
        have hu := underPrefix_of_key_mem_walk hp hgr.1 hk
        simp [ansWith, ansSpecWith, hu, ih s hgr.2]
      | dom rule s => simp [isDom] at hd
    have hD : ∀ r ∈ t.rs.filter isDom, ansWith (resolve f) r q = ansSpecWith (linear f) r q := by
      intro r hr
      have ⟨hr1, hr2⟩ := List.mem_filter.mp hr
      have hgr := hrs r hr1
      cases r with
      | dom rule s => simp [ansWith, ansSpecWith, ih s hgr]
      | _ => simp [isDom] at hr2
    simp only [resolve, linear]
    rw [hm, atPositions_positions, List.map_congr_left hD]
    rw [← combine_nz, ← combine_nz (_ ++ (descRange _).flatMap _)]
    rw [nz_append, nz_append]
    congr 2
    simp only [hidx, atPositions_positions]
    rw [flatMap_congr' (walk q.path) _
      (fun k => (t.rs.filter (fun r => !isDom r && keyOf r == k)).map (fun r => ansSpecWith (linear f) r q))]
    · unfold descRange
      refine scan_eq t.rs keyOf isDom (fun r => ansSpecWith (linear f) r q) _ _ (walk_pairwise hp) ?_ ?_
      · intro k hk; have := walk_length_le hp hk; omega
      · intro r _ hd _ hk
        apply Classical.byContradiction
        intro hne
        exact hk (index_complete _ r q hp hd hne)
    · intro k hk
      apply List.map_congr_left
      intro r hr
      have ⟨hr1, hr2⟩ := List.mem_filter.mp hr
      simp only [Bool.and_eq_true, Bool.not_eq_true', beq_iff_eq] at hr2
      exact hA r hr1 hr2.1 (by rw [hr2.2]; exact hk)

end Aio.C14
