import AioModel.C14
namespace Aio.C14
end Aio.C14
