import AioModel.C13
namespace Aio.C13
end Aio.C13
