import AioProps.C13Lemmas
/-!
# C13 — property theorems (WebSocket sessions close cleanly in every interleaving)

Model: `AioModel/C13.lean` — server `WebSocketResponse` and client `ClientWebSocketResponse`
side by side, `WebSocketWriter`, `WebSocketDataQueue`, the protocols' `connection_lost` /
`data_received` / drain machinery and the asyncio primitives the code relies on, on a FIFO
event-loop abstraction.  `run (init cfg) ls` is the state after the label sequence `ls`
(application calls from three task slots, task cancellation, peer frames, connection loss,
write back-pressure, passage of virtual time, and `tick` = one ready callback / the next timers).
"For all `ls`" therefore means: for every interleaving at callback granularity.

`cfg.fixed = true` is the model of the writer *with* the repair of finding F17
(`WebSocketWriter._closing` set as soon as the CLOSE frame has been written); `cfg.fixed = false`
is the code as it is.  The correspondence harness drives the real code against `fixed = false`.
-/
namespace Aio.C13
open Aio

/-! ## wire clauses -/

/-- **At most one close frame** — on every interleaving, for server and client, with or without
back-pressure, with the unchanged writer: the wire carries at most one CLOSE frame. -/
theorem at_most_one_close_frame (cfg : Cfg) (ls : List Label) :
    closeCount (run (init cfg) ls).frames ≤ 1 := by
  have h : ∀ (ls : List Label) (s : St), Inv False False cfg s → Inv False False cfg (run s ls) := by
    intro ls
    induction ls with
    | nil => intro s hs; exact hs
    | cons l ls ih =>
      intro s hs
      exact ih _ (Inv_step l (fun _ h => h) (fun _ => Or.inl (fun h => h)) hs)
  exact (h ls _ (Inv_init cfg)).c2

/-- A CLOSE frame is only ever on the wire of a session whose `closed` flag is set
(`close()` sets `_closed` before it writes the frame, nothing resets it). -/
theorem close_frame_implies_closed (cfg : Cfg) (ls : List Label) :
    hasClose (run (init cfg) ls).frames = true → (run (init cfg) ls).closed = true := by
  have h : ∀ (ls : List Label) (s : St), Inv False False cfg s → Inv False False cfg (run s ls) := by
    intro ls
    induction ls with
    | nil => intro s hs; exact hs
    | cons l ls ih =>
      intro s hs
      exact ih _ (Inv_step l (fun _ h => h) (fun _ => Or.inl (fun h => h)) hs)
  exact (h ls _ (Inv_init cfg)).c1

theorem run_inv_fixed (cfg : Cfg) (hf : cfg.fixed = true) (ls : List Label) :
    Inv True False cfg (run (init cfg) ls) := by
  have h : ∀ (ls : List Label) (s : St), Inv True False cfg s → Inv True False cfg (run s ls) := by
    intro ls
    induction ls with
    | nil => intro s hs; exact hs
    | cons l ls ih =>
      intro s hs
      refine ih _ (Inv_step l (fun _ h => h) (fun _ => Or.inr ⟨trivial, Or.inl ?_⟩) hs)
      rw [hs.ccfg]; exact hf
  exact h ls _ (Inv_init cfg)

theorem run_inv_nopause (cfg : Cfg) (ls : List Label) (hn : ∀ l ∈ ls, l ≠ Label.pauseW) :
    Inv True True cfg (run (init cfg) ls) := by
  have h : ∀ (ls : List Label) (s : St), (∀ l ∈ ls, l ≠ Label.pauseW) → Inv True True cfg s →
      Inv True True cfg (run s ls) := by
    intro ls
    induction ls with
    | nil => intro s _ hs; exact hs
    | cons l ls ih =>
      intro s hn hs
      refine ih _ (fun l' hl' => hn l' (List.mem_cons_of_mem _ hl')) (Inv_step l ?_ ?_ hs)
      · intro hl _; exact hn l (List.mem_cons_self) hl
      · intro _; exact Or.inr ⟨trivial, Or.inr (hs.cnp trivial)⟩
  exact h ls _ hn (Inv_init cfg)

/-
Full statement (FALSE for the unchanged code — finding F17, see `f17_data_after_close`):

  theorem no_data_after_close_frame (cfg : Cfg) (ls : List Label) :
      dataAfterClose (run (init cfg) ls).frames = false

What is proved instead: the statement for the repaired writer on every interleaving
(`no_data_after_close_frame_fixed`), and for the unchanged writer on every interleaving in which the
transport is never write-paused (`no_data_after_close_frame_partial`); the missing part is exactly
"a task calls send_* while close() is parked in the drain of the CLOSE frame".
-/

/-- **No data frame after the close frame**, repaired writer (`_closing` set right after the CLOSE
frame is written): on every interleaving, including back-pressure, cancellation and connection
loss, no TEXT/BINARY frame follows the CLOSE frame on the wire. -/
theorem no_data_after_close_frame_fixed (cfg : Cfg) (hf : cfg.fixed = true) (ls : List Label) :
    dataAfterClose (run (init cfg) ls).frames = false := by
  have hi := run_inv_fixed cfg hf ls
  exact hi.c4 ⟨trivial, Or.inl (by rw [hi.ccfg]; exact hf)⟩

/-- **No data frame after the close frame**, unchanged writer, `_partial`: on every interleaving
whose labels never write-pause the transport (`pauseW` does not occur). -/
theorem no_data_after_close_frame_partial (cfg : Cfg) (ls : List Label)
    (hn : ∀ l ∈ ls, l ≠ Label.pauseW) :
    dataAfterClose (run (init cfg) ls).frames = false := by
  have hi := run_inv_nopause cfg ls hn
  exact hi.c4 ⟨trivial, Or.inr (hi.cnp trivial)⟩

/-- Once the CLOSE frame is on the wire the writer refuses data frames (`WebSocketWriter._closing`):
holds at every reachable state for the repaired writer … -/
theorem writer_closing_after_close_frame_fixed (cfg : Cfg) (hf : cfg.fixed = true) (ls : List Label) :
    hasClose (run (init cfg) ls).frames = true → (run (init cfg) ls).wClosing = true := by
  have hi := run_inv_fixed cfg hf ls
  exact hi.c3 ⟨trivial, Or.inl (by rw [hi.ccfg]; exact hf)⟩

/-- … and for the unchanged writer as long as the transport is never write-paused. -/
theorem writer_closing_after_close_frame_partial (cfg : Cfg) (ls : List Label)
    (hn : ∀ l ∈ ls, l ≠ Label.pauseW) :
    hasClose (run (init cfg) ls).frames = true → (run (init cfg) ls).wClosing = true := by
  have hi := run_inv_nopause cfg ls hn
  exact hi.c3 ⟨trivial, Or.inr (hi.cnp trivial)⟩

-- the hypotheses are satisfiable: a run without pauseW that does put a CLOSE frame on the wire
example : hasClose (run (init {}) [.call 0 (.close 1000), .tick]).frames = true := by decide +kernel
example : ∀ l ∈ [Label.call 0 (.close 1000), .tick], l ≠ Label.pauseW := by decide

/-! ### F17: the counterexample on the model of the unchanged code -/

/-- server, `writer_limit = 1`: a data frame is sent, the transport write-pauses, task 0 calls
`close()` (parks in the drain of the CLOSE frame), task 1 calls `send_bytes` -/
def f17Labels : List Label :=
  [.call 2 (.send 5), .tick, .pauseW, .call 0 (.close 1000), .tick, .call 1 (.send 5), .tick]

def f17Cfg (fixed : Bool) : Cfg := { side := .server, limit := 1, closeTimeout := 1500, fixed := fixed }

/-- **F17 (kernel-checked).** Unchanged writer: the wire reads DATA, CLOSE(1000), DATA. -/
theorem f17_data_after_close :
    (run (init (f17Cfg false)) f17Labels).frames = [.data, .close 1000, .data] ∧
    dataAfterClose (run (init (f17Cfg false)) f17Labels).frames = true := by decide +kernel

/-- the same schedule with the repaired writer: the second `send_bytes` is refused
(`ClientConnectionResetError`), the wire ends with the CLOSE frame -/
theorem f17_repaired :
    (run (init (f17Cfg true)) f17Labels).frames = [.data, .close 1000] ∧
    (getT (run (init (f17Cfg true)) f17Labels) 1).outcome = some (.raised .reset) := by decide +kernel

/-! ## receive() once the session is closed -/

/-- **Once closed, `receive()` returns at once**: started (or re-entering its loop) on a closed
session with no other receive in progress, it finishes in the same atomic step with the CLOSED
message — or, on the server after `THRESHOLD_CONNLOST_ACCESS` such calls, `RuntimeError`. It never parks. -/
theorem receive_on_closed_session_returns (s : St) (t : Tid) (fuel : Nat)
    (hc : s.closed = true) (hw : s.waiting = false) :
    ∃ s' o, recvLoop s t (fuel + 1) = finish s' t o ∧ (o = .recv .closed ∨ o = .raised .runtime) := by
  unfold recvLoop
  simp only [hw, hc, Bool.false_eq_true, ↓reduceIte]
  split
  · split
    · exact ⟨_, _, rfl, Or.inr rfl⟩
    · exact ⟨_, _, rfl, Or.inl rfl⟩
  · exact ⟨_, _, rfl, Or.inl rfl⟩

-- the hypotheses are reachable: after a completed close() the session is closed and nobody is receiving
example : (run (init {}) [.call 0 (.close 1000), .tick]).closed = true ∧
    (run (init {}) [.call 0 (.close 1000), .tick]).waiting = false := by decide +kernel

/-! ## findings on the unchanged code, as kernel-checked runs of the model
(each is also reproduced on the real objects by the harness: `harness/c13.py`, "directed-findings") -/

def srvCfg : Cfg := { side := .server, limit := 1, closeTimeout := 1500 }
def cliCfg : Cfg := { side := .client, limit := Gen.C13.defaultChunkSize, closeTimeout := 1500 }

/-- server: task 0 is parked in `receive()`, task 1 calls `close()` and waits on `_close_wait`, task 1 is cancelled -/
def closeWaitCancelLabels : List Label :=
  [.call 0 .recv, .tick, .call 1 (.close 1000), .tick, .cancel 1, .tick, .tick, .tick, .tick]

/-- **`close()` cancelled while it waits for `receive()` to step aside (server).** The session is
`closed`, the CLOSE frame is sent, every call has returned, nothing is ready and no timer is armed —
and the transport was never asked to close. -/
theorem close_cancelled_in_close_wait_leaves_transport_open :
    let s := run (init srvCfg) closeWaitCancelLabels
    s.closed = true ∧ s.frames = [.close 1000] ∧ s.trClosing = false ∧ s.ready = [] ∧ s.timers = [] ∧
    (getT s 0).outcome = some (.recv (.msg .closing)) ∧ (getT s 1).outcome = some (.raised .cancelled) := by
  decide +kernel

/-- client, close timeout 1500 ms: `close()` at t=0; the peer sends a TEXT frame at t=1000 and at t=2000 and its
CLOSE at t=3000 -/
def clientTimeoutRestartLabels : List Label :=
  [.call 0 (.close 1000), .tick, .adv 1000, .peer .text, .tick, .adv 1000, .peer .text, .tick, .adv 1000,
   .peer (.close 1000), .tick]

/-- **Client `close()` re-arms its timeout for every message it reads**: it is still running at
t = 3000 ms with a close timeout of 1500 ms, and returns `True` only when the peer's CLOSE arrives. -/
theorem client_close_timeout_restarts_per_message :
    let s := run (init cliCfg) clientTimeoutRestartLabels
    s.cfg.closeTimeout = 1500 ∧ (getT s 0).startedAt = 0 ∧ s.now = 3000 ∧
    (getT s 0).outcome = some (.closeRet true) ∧
    (getT (run (init cliCfg) (clientTimeoutRestartLabels.take 10)) 0).pc = .closeRead := by
  decide +kernel

/-! ## how close() leaves: close code and transport (per exit path, any state)

Full statements that are NOT proved here (they are false on the unchanged code, see the findings above
and `harness/c13.py`; covered by the correspondence run + direct oracle only):

  * `transport_closed_when_closed`: in every quiescent reachable state with `closed` and no call in
    progress, `trClosing` holds  — false: `close_cancelled_in_close_wait_leaves_transport_open`.
  * `close_returns_within`: a task inside close() returns by `startedAt + closeTimeout`
    — false on the client: `client_close_timeout_restarts_per_message`; and not meaningful while the
    transport is write-paused (close() waits in the drain without a timeout).
  * `receive_terminates`: in every quiescent reachable state no task is parked in receive() unless the
    connection is open — false below the session (reader fragment cap, F9); at session level not proved.
  * `close_code_correct`: peer's code after a clean handshake, 1006 otherwise — three deviations found.

What is proved: each *exit path* of close() sets the code it should and asks the transport to close. -/

theorem trClose_closing (s : St) : (trClose s).trClosing = true := by
  unfold trClose; split <;> simp_all

theorem closeReturn_fields (s : St) (t : Tid) (r : Except Exc Bool) :
    (closeReturn s t r).closeCode = s.closeCode ∧ (closeReturn s t r).trClosing = s.trClosing := by
  have hf : ∀ (s : St) (o : Outcome), (finish s t o).closeCode = s.closeCode ∧ (finish s t o).trClosing = s.trClosing := by
    intro s o; unfold finish; simp only []; split <;> simp [setT]
  unfold closeReturn
  simp only []
  split <;> exact hf _ _

theorem exitTmo_fields (s : St) (t : Tid) (e : Option Exc) :
    (exitTmo s t e).1.closeCode = s.closeCode ∧ (exitTmo s t e).1.trClosing = s.trClosing ∧
    (exitTmo s t e).1.protoTransport = s.protoTransport := by
  unfold exitTmo
  simp only []
  split
  · simp
  · simp [setT, cancelCb]
  · split <;> simp [setT, cancelCb]

/-- server `_set_code_close_transport(code)`: the code is recorded and, if the protocol still has a
transport, the transport is closing afterwards -/
theorem srvSetCodeCloseTransport_spec (s : St) (c : Nat) :
    (srvSetCodeCloseTransport s c).closeCode = some c ∧
    (s.protoTransport = true → (srvSetCodeCloseTransport s c).trClosing = true) := by
  unfold srvSetCodeCloseTransport srvCloseTransport
  constructor
  · split <;> simp [trClose] <;> split <;> rfl
  · intro h; simp only [h, ↓reduceIte]; exact trClose_closing _

/-- **Abnormal exits of server close()** (timeout, cancellation, connection error, EOF, protocol error —
every `except` clause of both `try` blocks): reported code 1006 and the transport is asked to close. -/
theorem srv_close_abnormal_exit (s : St) (t : Tid) (e : Exc) :
    (srvCloseExc1 s t e).closeCode = some Gen.C13.codeAbnormal ∧
    (srvCloseExc2 s t e).closeCode = some Gen.C13.codeAbnormal ∧
    (s.protoTransport = true → (srvCloseExc1 s t e).trClosing = true ∧ (srvCloseExc2 s t e).trClosing = true) := by
  unfold srvCloseExc1 srvCloseExc2
  refine ⟨?_, ?_, ?_⟩
  · split <;> rw [(closeReturn_fields _ _ _).1] <;> exact (srvSetCodeCloseTransport_spec _ _).1
  · split <;> rw [(closeReturn_fields _ _ _).1] <;> exact (srvSetCodeCloseTransport_spec _ _).1
  · intro h
    constructor
    · split <;> rw [(closeReturn_fields _ _ _).2] <;> exact (srvSetCodeCloseTransport_spec _ _).2 h
    · split <;> rw [(closeReturn_fields _ _ _).2] <;> exact (srvSetCodeCloseTransport_spec _ _).2 h

/-- **Clean handshake, server**: when close()'s read loop finds the peer's CLOSE(c) in the queue it
reports exactly `c` and asks the transport to close. -/
theorem srv_close_reports_peer_code (s : St) (t : Tid) (c : Nat) (rest : List Msg)
    (h : scanClose s.buf = some (c, rest)) :
    (srvCloseRead s t).closeCode = some c ∧ (s.protoTransport = true → (srvCloseRead s t).trClosing = true) := by
  unfold srvCloseRead
  simp only [h]
  rw [(closeReturn_fields _ _ _).1, (closeReturn_fields _ _ _).2]
  refine ⟨(srvSetCodeCloseTransport_spec _ _).1, fun hp => (srvSetCodeCloseTransport_spec _ _).2 ?_⟩
  rw [(exitTmo_fields _ _ _).2.2]; exact hp

/-- client `self._response.close()`: afterwards the transport is closing or was already gone -/
theorem cliRespClose_spec (s : St) :
    (cliRespClose s).closeCode = s.closeCode ∧ (s.protoTransport = true → (cliRespClose s).trClosing = true) := by
  unfold cliRespClose
  constructor
  · split
    · simp [trClose]; split <;> rfl
    · rfl
  · intro h; simp only [h, ↓reduceIte]; exact trClose_closing _

/-- **Abnormal exits of client close()**: reported code 1006 and the connection is closed. -/
theorem cli_close_abnormal_exit (s : St) (t : Tid) (e : Exc) :
    (cliCloseExc s t e).closeCode = some Gen.C13.codeAbnormal ∧
    (s.protoTransport = true → (cliCloseExc s t e).trClosing = true) := by
  unfold cliCloseExc
  constructor
  · split <;> rw [(closeReturn_fields _ _ _).1, (cliRespClose_spec _).1]
  · intro h
    split <;> rw [(closeReturn_fields _ _ _).2] <;> exact (cliRespClose_spec _).2 h

/-! ## the wait for the peer's CLOSE is timed -/

theorem mem_insertTimer (w : Nat) (cb : Cb) (l : List (Nat × Cb)) : (w, cb) ∈ insertTimer w cb l := by
  induction l with
  | nil => simp [insertTimer]
  | cons p rest ih =>
    obtain ⟨w', cb'⟩ := p
    simp only [insertTimer]
    split
    · exact List.mem_cons_of_mem _ ih
    · exact List.mem_cons_self

/-- **Server close() never waits for the peer without a deadline**: when it has to park for the peer's
CLOSE (nothing usable buffered, no EOF), a timer for this task at `now + closeTimeout` is armed, and the
task is the queue's waiter — so the peer's CLOSE, EOF, a reader error or the timer will resume it.
(`close_returns_within` proper — a bound over whole runs — is not proved; see the note above.) -/
theorem srv_close_wait_is_timed (s : St) (t : Tid) (hc : s.closing = false) (hb : scanClose s.buf = none)
    (he : s.eof = false) (hw : s.rwaiter = none) :
    (s.now + s.cfg.closeTimeout, Cb.timeout t) ∈ (srvCloseAfterWait s t).timers ∧
    (srvCloseAfterWait s t).rwaiter = some t := by
  have hb' : scanClose (armTmo s t s.cfg.closeTimeout).buf = none := by simpa [armTmo, setT] using hb
  unfold srvCloseAfterWait
  simp only [hc, Bool.false_eq_true, ↓reduceIte]
  unfold srvCloseRead
  simp only [hb']
  simp [armTmo, setT, he, hw, park, Pc.isDrain, mem_insertTimer]

-- reachable: close() on a fresh open session parks for the peer's CLOSE
example : (init {}).closing = false ∧ scanClose (init {}).buf = none ∧ (init {}).eof = false ∧
    (init {}).rwaiter = none := by decide +kernel

/-- The client arms the same deadline — but on *every* entry of its read loop (after each message that is
not a CLOSE), which is finding `client_close_timeout_restarts_per_message`. -/
theorem cli_close_wait_is_timed (s : St) (t : Tid) (hb : scanClose s.buf = none)
    (he : s.eof = false) (hw : s.rwaiter = none) :
    (s.now + s.cfg.closeTimeout, Cb.timeout t) ∈ (cliCloseRead s t).timers ∧
    (cliCloseRead s t).rwaiter = some t := by
  have hb' : scanClose (armTmo s t s.cfg.closeTimeout).buf = none := by simpa [armTmo, setT] using hb
  unfold cliCloseRead
  simp only [hb']
  simp [armTmo, setT, he, hw, park, Pc.isDrain, mem_insertTimer]

/-! ## heartbeat: the timer fires while a reset is pending (kernel-checked runs of the model)

`dead_peer_detected` proper — "in every reachable quiescent state with a heartbeat configured the session is
closed or closing" — is not proved; it is judged by the direct oracle on the real objects
(`C13/dead-peer-undetected/*`).  What is checked here is the delicate schedule: the heartbeat timer becomes
due, a peer frame is processed first (`_on_data_received` sets `_need_heartbeat_reset`), `_send_heartbeat`
returns early, `_flush_heartbeat_reset` must re-arm — which it only does because `_send_heartbeat` cleared
`_heartbeat_cb` *before* its early return. -/

def hbCfg (side : Side) : Cfg :=
  { side := side, heartbeat := some 2000, closeTimeout := 1500,
    limit := match side with | .server => 65536 | .client => Gen.C13.defaultChunkSize }

/-- clock jumps to the heartbeat deadline, a TEXT frame is processed first, heartbeat callback, reset flush -/
def hbCoincidence : List Label := [.tick, .peer .text, .tick, .tick]

/-- after the coincidence the heartbeat is armed again for `now + heartbeat` on both sides … -/
theorem heartbeat_rearmed_after_coincidence :
    (run (init (hbCfg .server)) hbCoincidence).timers = [(4000, .sendHb)] ∧
    (run (init (hbCfg .client)) hbCoincidence).timers = [(4000, .sendHb)] := by decide +kernel

/-- … and a peer that then stays silent is detected: PING at 4000 ms, no PONG by 5000 ms, session closed with
1006, the transport asked to close, nothing left pending. -/
theorem silent_peer_after_coincidence_is_detected :
    let quiet : List Label := List.replicate 8 .tick
    let s := run (init (hbCfg .server)) (hbCoincidence ++ quiet)
    let c := run (init (hbCfg .client)) (hbCoincidence ++ quiet)
    s.frames = [.ping] ∧ s.closed = true ∧ s.closeCode = some 1006 ∧ s.trClosing = true ∧ s.now = 5000 ∧
    c.frames = [.ping] ∧ c.closed = true ∧ c.closeCode = some 1006 ∧ c.trClosing = true ∧ c.now = 5000 := by
  decide +kernel

/-! ## two more kernel-checked schedules (the oracle judges both on the real objects) -/

/-- server close() at t=0 with a 1500 ms close timeout; the peer sends TEXT at t=1375 — -/
def chattyPeerLabels : List Label :=
  [.call 0 (.close 1000), .tick, .adv 1375, .peer .text, .tick, .tick, .tick, .tick]

/-- **The server's close deadline is not restarted by messages**: with one `timeout()` around the whole
wait loop, close() returns `True` at exactly t = 1500 ms with code 1006 although a TEXT frame arrived at 1375 ms.
(The client re-arms per message: `client_close_timeout_restarts_per_message`.) -/
theorem server_close_deadline_not_restarted :
    let s := run (init srvCfg) chattyPeerLabels
    (getT s 0).outcome = some (.closeRet true) ∧ s.now = 1500 ∧ s.closeCode = some 1006 ∧ s.trClosing = true := by
  decide +kernel

/-- heartbeat 2000 ms, autoclose off: receive() hands the peer's CLOSE(4000) to the application -/
def peerCloseNoAutoclose (side : Side) : Cfg := { hbCfg side with autoclose := false }

/-- **Closing state switches the heartbeat off** (`_set_closing` → `_cancel_heartbeat`), both sides: after receive()
returned the peer's CLOSE no timer is left and nothing is ready — no PING can follow the peer's CLOSE; a later
close() ends the session with the peer's code and exactly one CLOSE frame. -/
theorem closing_state_cancels_heartbeat :
    let ls : List Label := [.call 0 .recv, .tick, .peer (.close 4000), .tick, .tick, .tick]
    let s := run (init (peerCloseNoAutoclose .server)) ls
    let c := run (init (peerCloseNoAutoclose .client)) ls
    let fin : List Label := [.adv 5000, .call 1 (.close 1000), .tick, .tick, .tick]
    let s' := run s fin
    let c' := run c fin
    s.closing = true ∧ s.closed = false ∧ s.timers = [] ∧ s.ready = [] ∧
    c.closing = true ∧ c.closed = false ∧ c.timers = [] ∧ c.ready = [] ∧
    s'.closed = true ∧ s'.closeCode = some 4000 ∧ s'.frames = [.close 1000] ∧ s'.exc = none ∧
    c'.closed = true ∧ c'.closeCode = some 4000 ∧ c'.frames = [.close 1000] ∧ c'.exc = none := by
  decide +kernel

/-- **Crossing closes (kernel-checked run, both sides)**: task 0 is parked in receive(), task 1 calls close(), the peer's
CLOSE(4001) arrives before either is resumed.  receive() hands the CLOSE to the application and marks the session
closing even though `closed` is already set, so close() does not wait for the timeout: it returns `True` at once, the
reported code is the peer's, one CLOSE frame was sent, no exception recorded, transport closing. -/
theorem crossing_closes_report_peer_code :
    let ls : List Label := [.call 0 .recv, .tick, .call 1 (.close 1000), .peer (.close 4001), .tick, .tick, .tick, .tick]
    let s := run (init srvCfg) ls
    let c := run (init cliCfg) ls
    s.now = 0 ∧ s.closeCode = some 4001 ∧ s.frames = [.close 1000] ∧ s.exc = none ∧ s.trClosing = true ∧
      (getT s 1).outcome = some (.closeRet true) ∧ (getT s 0).outcome = some (.recv (.msg (.close 4001))) ∧
    c.now = 0 ∧ c.closeCode = some 4001 ∧ c.frames = [.close 1000] ∧ c.exc = none ∧ c.trClosing = true := by
  decide +kernel

/-! ## the autoclose inside receive() does not wait for the transport to drain -/

/-- server `close(drain=False)`: after the CLOSE frame is written, close() never parks in `payload_writer.drain()`
(pc `closeDrain2`), whatever the back-pressure — it goes straight on to the `_close_wait` / `_closing` part. -/
theorem srv_close_nodrain_skips_drain (s : St) (t : Tid) (h : (getT s t).cdrain = false) :
    srvCloseAfterFrame s t = srvCloseAfterDrain s t := by
  unfold srvCloseAfterFrame
  simp [h]

/-- server receive() that reads the peer's CLOSE with autoclose on calls `close(drain=False)` -/
theorem srv_autoclose_uses_nodrain (s : St) (t : Tid) (c : Nat) (hs : s.cfg.side = .server)
    (hc : s.closed = false) (ha : s.cfg.autoclose = true) :
    (recvGot s t (.ok (.close c))).1 =
      recvNestedClose (srvSetClosing s c) t Gen.C13.codeOk false (.msg (.close c)) := by
  unfold recvGot
  simp [hs, hc, ha]

/-- **Peer sends CLOSE but does not read (kernel-checked run).** Server, autoclose on, default writer limit, transport
write-paused before the peer's CLOSE arrives: receive() returns the CLOSE message in the very step in which it consumes
it (t = 0), our CLOSE frame is written, the peer's code is reported and the transport is asked to close — nothing waits
for the drain. -/
theorem peer_close_while_write_paused_is_not_blocked :
    let cfg : Cfg := { side := .server, limit := 65536, closeTimeout := 1500 }
    let s := run (init cfg) [.pauseW, .call 0 .recv, .tick, .peer (.close 4001), .tick]
    s.paused = true ∧ (getT s 0).outcome = some (.recv (.msg (.close 4001))) ∧ s.frames = [.close 1000] ∧
    s.closeCode = some 4001 ∧ s.closed = true ∧ s.trClosing = true ∧ s.now = 0 := by
  decide +kernel

/-! ## thresholds -/

/-- `calculate_timeout_when`: a timeout at or below the ceil threshold (5 s) is used as is … -/
theorem calcWhen_at_or_below_threshold (now t : Nat) (h : t ≤ Gen.C13.ceilThresholdMs) : calcWhen now t = now + t := by
  unfold calcWhen
  simp [Nat.not_lt.mpr h]

/-- … above it the deadline is rounded up to a whole second: never early, less than one second late. -/
theorem calcWhen_above_threshold (now t : Nat) (h : t > Gen.C13.ceilThresholdMs) :
    calcWhen now t % 1000 = 0 ∧ now + t ≤ calcWhen now t ∧ calcWhen now t < now + t + 1000 := by
  unfold calcWhen ceilSec
  simp only [h, ↓reduceIte]
  omega

/-- The writer's flow control parks the sender only when `_output_size` has exceeded the limit (strictly) and the
transport is write-paused; in every other case `send_frame` returns at once. -/
theorem flowControl_parks_only_over_limit_and_paused (s : St) (h : (flowControl s).2 = .park) :
    s.outSize > s.cfg.limit ∧ s.paused = true := by
  unfold flowControl at h
  split at h
  · next h1 =>
    split at h
    · next h2 => exact ⟨h1, h2⟩
    · cases h
  · cases h

end Aio.C13
