import AioModel.C09
/-! The behaviour flag `clearOnNeeds` is configuration: no function of the pipeline model changes it.
(Mechanical copy of the traversal in `C09Conserve.lean` for the predicate `clearOnNeeds = true`.) -/
namespace Aio.C09
open Aio
variable {c : Codec}

def FlagOn (w : World c) : Prop := w.clearOnNeeds = true

/-- a function that preserves the invariant -/
def FPres (f : World c → World c) : Prop := ∀ w, FlagOn w → FlagOn (f w)

theorem flag_pauseReading : FPres (c := c) pauseReading := by
  intro w h; unfold pauseReading; simp only; split <;> exact h
theorem flag_wake : FPres (c := c) wake := by intro w h; exact h
theorem flag_setExc (e : Err) : FPres (c := c) (setExc · e) := by
  intro w h; simp only [setExc]; split <;> exact h
theorem flag_failWith (e : Err) : FPres (c := c) (failWith · e) := by intro w h; exact h
theorem flag_rdFeed (d : Bytes) : FPres (c := c) (rdFeed · d) := by
  intro w h
  simp only [rdFeed]
  repeat' split
  all_goals first | exact h | exact flag_pauseReading _ h
theorem flag_resumeTransport : FPres (c := c) resumeTransport := by
  intro w h; simp only [resumeTransport]; split <;> exact h
theorem flag_rdFeedEof : FPres (c := c) rdFeedEof := by
  intro w h; exact flag_resumeTransport _ h
theorem flag_setChunk (n : Nat) : FPres (c := c) (setChunk · n) := by
  intro w h; simp only [setChunk]; split <;> exact h
theorem flag_beginChunk : FPres (c := c) beginChunk := by
  intro w h; simp only [beginChunk]; split
  · exact h
  · split <;> exact h
theorem flag_endChunk : FPres (c := c) endChunk := by
  intro w h; simp only [endChunk]; split
  · exact h
  · split
    · exact h
    · simp only [wake]; split
      · exact flag_pauseReading _ h
      · exact h

theorem flag_sniffStart (d : Bytes) : FPres (c := c) (sniffStart · d) := by
  intro w h; simp only [sniffStart]; split <;> exact h
theorem flag_decodeFeed (d : Bytes) : FPres (c := c) (decodeFeed · d) := by
  intro w h
  simp only [decodeFeed]
  split
  · exact h
  · exact flag_rdFeed _ _ h
theorem flag_payFeed (d : Bytes) : FPres (c := c) (payFeed · d) := by
  intro w h
  simp only [payFeed]
  split
  · exact flag_rdFeed d _ h
  · exact flag_decodeFeed d _ (flag_sniffStart d _ h)
theorem flag_payEof : FPres (c := c) payEof := by
  intro w h; simp only [payEof]; split
  · exact h
  · exact flag_rdFeedEof _ h
theorem flag_drain : ∀ fuel, FPres (c := c) (drain fuel) := by
  intro fuel
  induction fuel with
  | zero => intro w h; exact h
  | succ n ih =>
    intro w h
    simp only [drain]
    split
    · exact h
    · split
      · exact h
      · have := flag_payFeed [] w h
        split
        · exact this
        · exact ih _ this
theorem flag_feedLength (d : Bytes) : FPres (c := c) (feedLength · d) := by
  intro w h
  simp only [feedLength]
  have h1 := flag_payFeed ((w.tail ++ d).take w.length) { w with tail := [], length := w.length - (w.tail ++ d).length } h
  split
  · exact h1
  · have h2 := fun f => flag_drain (c := c) f _ h1
    split
    · exact h2 _
    · exact h2 _
    · split
      · split
        · exact flag_payEof _ (h2 _)
        · exact flag_payEof _ (h2 _)
      · exact h2 _
theorem flag_feedUntilEof (d : Bytes) : FPres (c := c) (feedUntilEof · d) := by
  intro w h
  simp only [feedUntilEof]
  have h1 := flag_payFeed d w h
  split
  · exact h1
  · have h2 := fun f => flag_drain (c := c) f _ h1
    split
    · exact h2 _
    · exact h2 _
    · split
      · split
        · exact flag_payEof _ (h2 _)
        · exact flag_payEof _ (h2 _)
      · exact h2 _

/-- continuation that preserves the invariant -/
def FPresK (k : World c → Bytes → World c) : Prop := ∀ w d, FlagOn w → FlagOn (k w d)

theorem flag_payEof' (w : World c) (h : FlagOn w) : FlagOn (payEof w) := flag_payEof w h
theorem flag_endChunk' (w : World c) (h : FlagOn w) : FlagOn (endChunk w) := flag_endChunk w h
theorem flag_beginChunk' (w : World c) (h : FlagOn w) : FlagOn (beginChunk w) := flag_beginChunk w h
theorem flag_payFeed' (w : World c) (d : Bytes) (h : FlagOn w) : FlagOn (payFeed w d) := flag_payFeed d w h
theorem flag_failWith' (w : World c) (e : Err) (h : FlagOn w) : FlagOn (failWith w e) := h

theorem flag_trailersStep (k : World c → Bytes → World c) (hk : FPresK k) : FPresK (trailersStep k) := by
  intro w d h
  simp only [trailersStep]
  repeat' split
  all_goals repeat (first | exact h | apply hk | apply flag_payEof' | apply flag_failWith')
theorem flag_chunkEofStep (k : World c → Bytes → World c) (hk : FPresK k) : FPresK (chunkEofStep k) := by
  intro w d h
  simp only [chunkEofStep]
  repeat' split
  all_goals repeat (first | exact h | apply hk | apply flag_failWith')
theorem flag_chunkStep (k : World c → Bytes → World c) (hk : FPresK k) : FPresK (chunkStep k) := by
  intro w d h
  simp only [chunkStep]
  repeat' split
  all_goals repeat (first | exact h | apply hk | apply flag_chunkEofStep k hk | apply flag_endChunk' | apply flag_payFeed')
theorem flag_sizeStep (k : World c → Bytes → World c) (hk : FPresK k) : FPresK (sizeStep k) := by
  intro w d h
  simp only [sizeStep]
  repeat' split
  all_goals repeat (first | exact h | apply flag_trailersStep k hk | apply flag_chunkStep k hk | apply flag_beginChunk' | apply flag_failWith')
theorem flag_chunkedLoop : ∀ fuel, FPresK (c := c) (chunkedLoop fuel) := by
  intro fuel
  induction fuel with
  | zero => intro w d h; exact h
  | succ n ih =>
    intro w d h
    simp only [chunkedLoop]
    repeat' split
    all_goals repeat (first | exact h | apply flag_sizeStep _ ih | apply flag_chunkStep _ ih | apply flag_chunkEofStep _ ih | apply flag_trailersStep _ ih)
theorem flag_ppFeedCore (d : Bytes) : FPres (c := c) (ppFeedCore · d) := by
  intro w h
  simp only [ppFeedCore]
  split
  · exact flag_feedLength d w h
  · exact flag_feedUntilEof d w h
  · split
    · exact h
    · exact flag_chunkedLoop _ { w with tail := [] } _ h
theorem flag_ppFeed (d : Bytes) : FPres (c := c) (ppFeed · d) := by
  intro w h
  have h1 := flag_ppFeedCore d w h
  simp only [ppFeed]
  split
  · exact h1
  · exact h1
theorem flag_parserFeed (d : Bytes) : FPres (c := c) (parserFeed · d) := by
  intro w h
  simp only [parserFeed]
  split
  · exact h
  · split
    · exact h
    · have h1 := flag_ppFeed d { w with raised := none, res := .needs } h
      split
      · exact h1
      · exact h1
      · exact h1
      · split
        · exact flag_setExc _ _ h1
        · exact flag_setExc _ _ h1
theorem flag_dataReceived (d : Bytes) : FPres (c := c) (dataReceived · d) := by
  intro w h; simp only [dataReceived]; split
  · exact h
  · exact flag_parserFeed d w h
theorem flag_resumeReading : FPres (c := c) resumeReading := by
  intro w h
  exact flag_resumeTransport _ (flag_dataReceived [] { w with readingPaused := false } h)

theorem flag_resumeReading' (w : World c) (h : FlagOn w) : FlagOn (resumeReading w) := flag_resumeReading w h

theorem flag_readChunk (n : Option Nat) : FPres (c := c) (readChunk · n) := by
  intro w h
  simp only [readChunk]
  repeat' split
  all_goals first | exact h | (apply flag_resumeReading'; exact h)

theorem flag_readAllChunks : ∀ k, FPres (c := c) (readAllChunks k) := by
  intro k
  induction k with
  | zero => intro w h; exact h
  | succ n ih => intro w h; exact ih _ (flag_readChunk none w h)

theorem flag_readUpTo : ∀ fuel n, FPres (c := c) (readUpTo fuel n) := by
  intro fuel
  induction fuel with
  | zero => intro n w h; exact h
  | succ f ih =>
    intro n w h
    simp only [readUpTo]
    repeat' split
    all_goals first | exact h | exact flag_readChunk _ w h | exact ih _ _ (flag_readChunk _ w h)

theorem flag_readOp (n : Option Nat) (w : World c) (h : FlagOn w) : FlagOn (readOp w n).1 := by
  simp only [readOp]
  repeat' split
  all_goals first
    | exact h
    | exact flag_setChunk _ w h
    | (apply flag_readUpTo; first | exact h | exact flag_setChunk _ w h)
    | (apply flag_readAllChunks; first | exact h | exact flag_setChunk _ w h)

theorem flag_ppFeedEof : FPres (c := c) ppFeedEof := by
  intro w h
  simp only [ppFeedEof]
  repeat' split
  all_goals first
    | exact h
    | exact flag_drain _ _ h
    | exact flag_payEof _ (flag_drain _ _ h)

theorem flag_connectionLost : FPres (c := c) connectionLost := by
  intro w h
  simp only [connectionLost]
  have h1 := flag_ppFeedEof { w with raised := none, res := .needs } h
  repeat' split
  all_goals first | exact h | exact h1 | exact flag_setExc _ _ h1

theorem flag_reqLoop (cms : Nat) : ∀ fuel (w : World c), FlagOn w → FlagOn (reqLoop cms fuel w).1 := by
  intro fuel
  induction fuel with
  | zero => intro w h; exact h
  | succ f ih =>
    intro w h
    simp only [reqLoop]
    have h1 := flag_readAllChunks w.buf.length { w with reqParked := false, outb := [] } h
    repeat' split
    all_goals first | exact h | exact h1 | exact ih _ h1

theorem flag_reqRead (cms : Nat) (w : World c) (h : FlagOn w) : FlagOn (reqRead w cms).1 := by
  simp only [reqRead]
  repeat' split
  all_goals first
    | exact h
    | exact flag_setChunk _ w h
    | (apply flag_reqLoop; first | exact h | exact flag_setChunk _ w h)

theorem flag_resumeGate (w : World c) (h : FlagOn w) : ∀ r, resumeGate w = some r → FlagOn r.1 := by
  intro r hr
  simp only [resumeGate] at hr
  repeat' split at hr
  all_goals first | (injection hr with hr; subst hr; exact h) | cases hr
theorem flag_parkOrFail (w : World c) (h : FlagOn w) : FlagOn (parkOrFail w).1 := by
  simp only [parkOrFail]
  repeat' split
  all_goals exact h
theorem flag_parkedRead (n : Option Nat) (w : World c) (h : FlagOn w) : FlagOn (parkedRead w n).1 := by
  simp only [parkedRead]
  split
  · rename_i r hr; exact flag_resumeGate w h r hr
  · repeat' split
    all_goals first
      | exact h
      | exact flag_setChunk _ w h
      | (apply flag_parkOrFail; first | exact h | exact flag_setChunk _ w h)
      | (apply flag_readUpTo; first | exact h | exact flag_setChunk _ w h)
      | (apply flag_readAllChunks; first | exact h | exact flag_setChunk _ w h)
theorem flag_lineTake (w : World c) (h : FlagOn w) : FlagOn (lineTake w) := by
  simp only [lineTake]
  exact flag_readChunk _ { w with outb := [] } h
theorem flag_lineInner : ∀ fuel m (w : World c), FlagOn w → FlagOn (lineInner fuel m w).1 := by
  intro fuel
  induction fuel with
  | zero => intro m w h; exact h
  | succ f ih =>
    intro m w h
    simp only [lineInner]
    have h1 := flag_lineTake w h
    repeat' split
    all_goals first | exact h | exact h1 | exact ih _ _ h1
theorem flag_lineStart (w : World c) (h : FlagOn w) : FlagOn (lineStart w) := by
  simp only [lineStart]; split <;> exact h
theorem flag_lineFinish (r : World c × LineRes) (h : FlagOn r.1) : FlagOn (lineFinish r).1 := by
  simp only [lineFinish]
  repeat' split
  all_goals first | exact h | exact flag_parkOrFail _ h
theorem flag_parkedLine (w : World c) (h : FlagOn w) : FlagOn (parkedLine w).1 := by
  simp only [parkedLine]
  split
  · rename_i r hr; exact flag_resumeGate w h r hr
  · exact flag_lineFinish _ (flag_lineInner _ _ _ (flag_lineStart w h))
theorem flag_connectionLostServer (w : World c) (h : FlagOn w) : FlagOn (connectionLostServer w) := by
  simp only [connectionLostServer]; exact flag_setExc _ w h

theorem flag_step (w : World c) (op : Op) (h : FlagOn w) : FlagOn (step w op).1 := by
  cases op with
  | deliver seg =>
    simp only [step]; split
    · exact h
    · exact flag_dataReceived seg { w with wireInR := seg :: w.wireInR } h
  | close => simp only [step]; split
             · exact h
             · exact flag_connectionLost w h
  | read n =>
    simp only [step]
    repeat' split
    all_goals first | exact h | exact flag_readOp _ w h
  | readAny => exact flag_readOp none w h
  | setChunk n => exact flag_setChunk n w h
  | reqRead cms => exact flag_reqRead cms w h
  | pread n => exact flag_parkedRead _ w h
  | preadAny => exact flag_parkedRead _ w h
  | preadLine => exact flag_parkedLine w h
  | closeServer => simp only [step]; split
                   · exact h
                   · exact flag_connectionLostServer w h

theorem flag_run (ops : List Op) : ∀ (w : World c), FlagOn w → FlagOn (run w ops) := by
  induction ops with
  | nil => intro w h; exact h
  | cons op t ih => intro w h; exact ih _ (flag_step w op h)

end Aio.C09
