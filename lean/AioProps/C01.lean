import AioProps.C01Lemmas
/-!
# C01 — property theorems: request framing is unambiguous

Model: `AioModel/Http.lean` (= `aiohttp/http_parser.py`, request side, strict mode).
Specification: `AioProps/HttpSpec.lean` (strict RFC 9112 reading).  `cfg` ranges over all limit
configurations, `urlOk` over all behaviours of the un-modelled `yarl`.
-/
namespace Aio.Http
open Aio

/-- **Accepted ⇒ strict reading.** Whatever request head the parser accepts is
`method SP request-target SP HTTP/d.d` (token method, no CTL/whitespace in the target)
followed by field lines each of the form `token ":" OWS value OWS` with a value free of
forbidden control bytes — the field list reported is exactly that reading, in order — and no
singleton header (Content-Length, Host, Transfer-Encoding, …) occurs twice. -/
theorem accepted_request_is_strict (cfg : Cfg) (hstrict : cfg.lax = false) (urlOk : Bool → Bytes → Bool)
    (line : Bytes) (rest : List Bytes) (m : Msg)
    (h : parseRequest cfg urlOk (line :: rest) = .ok m) :
    StrictRequestLine line m.method m.path m.vmajor m.vminor ∧ FieldsOf rest m.headers ∧
    NoSingletonDup m.headers := by
  obtain ⟨h1, h2⟩ := parseRequest_sound cfg hstrict urlOk line rest m h
  refine ⟨h1, h2, ?_⟩
  -- re-open the definition to reach the header list
  simp only [parseRequest] at h
  cases hs : splitRequestLine line with
  | none => simp [hs] at h
  | some r =>
    obtain ⟨mt, p, v⟩ := r
    simp only [hs] at h
    by_cases c1 : isToken mt = false
    · simp [c1] at h
    have c1' : isToken mt = true := by simpa using c1
    simp only [c1'] at h
    cases hv : parseVersion v with
    | none => simp [hv] at h
    | some vv =>
      obtain ⟨vmaj, vmin⟩ := vv
      simp only [hv] at h
      by_cases c2 : p.any targetForbidden = true
      · simp [c2] at h
      simp only [c2] at h
      simp only [Bool.not_true, Bool.false_eq_true, if_false] at h
      split at h
      · cases h
      · rw [hstrict] at h
        cases hp : parseHeaders false cfg.maxField rest with
        | error e => simp [hp] at h
        | ok hdrs =>
          simp only [hp] at h
          cases hi : interpretHeaders cfg hdrs with
          | error e => simp [hi] at h
          | ok info =>
            simp only [hi] at h
            split at h
            · cases h
            · injection h with h
              subst h
              exact parseHeaders_nodup _ _ _ hp

/-- **Content-Length together with Transfer-Encoding is rejected** (any parser configuration). -/
theorem cl_with_te_rejected (cfg : Cfg) (hs : List (Bytes × Bytes))
    (hcl : hasName hs bContentLength = true) (hte : hasName hs bTransferEncoding = true) :
    ∃ e, interpretHeaders cfg hs = .error e := by
  have hget : ∃ te, getHeader hs bTransferEncoding = some te := by
    unfold getHeader
    unfold hasName at hte
    cases hf : (hs.filter (fun kv => lower kv.1 == bTransferEncoding)).map (·.2) with
    | nil =>
      have : hs.filter (fun kv => lower kv.1 == bTransferEncoding) = [] := by simpa using hf
      rw [List.filter_eq_nil_iff] at this
      obtain ⟨kv, hkv, hh⟩ := List.any_eq_true.mp hte
      exact absurd hh (this kv hkv)
    | cons v vs => exact ⟨_, rfl⟩
  obtain ⟨te, hte'⟩ := hget
  unfold interpretHeaders
  simp only [hte']
  split
  · next e _ => exact ⟨e, rfl⟩
  · simp [hcl]

/-- **Content-Length must be 1*DIGIT.** If a length is derived from the headers then the
(comma-joined) Content-Length value is a non-empty string of ASCII digits: a sign, `_`,
inner or outer whitespace, a comma (two different values), non-ASCII digits or the empty
string are all refused. -/
theorem content_length_decimal (hs : List (Bytes × Bytes)) (n : Nat)
    (h : contentLength hs = .ok (some n)) :
    ∃ v, getHeader hs bContentLength = some v ∧ v ≠ [] ∧ ∀ b ∈ v, 48 ≤ b.toNat ∧ b.toNat ≤ 57 := by
  unfold contentLength at h
  cases hg : getHeader hs bContentLength with
  | none => simp [hg] at h
  | some v =>
    simp only [hg] at h
    split at h
    · cases h
    · next hc =>
      refine ⟨v, rfl, ?_, ?_⟩
      · intro hv; subst hv; simp at hc
      · intro b hb
        simp at hc
        exact (digit_table b).mp (hc.2 b hb)

/-- **A request's Transfer-Encoding must end in a single `chunked`.** -/
theorem te_single_final_chunked (te : Bytes) (b : Bool) (h : isChunkedTEReq te = .ok b) :
    b = true ∧
    ((splitAll 44 te).map (strip isOWS)).getLast? = some (((splitAll 44 te).map (strip isOWS)).getLast?.getD []) ∧
    lower (((splitAll 44 te).map (strip isOWS)).getLast?.getD []) = bChunked ∧
    (((splitAll 44 te).map (strip isOWS)).filter (fun p => isAscii p && lower p == bChunked)).length ≤ 1 := by
  unfold isChunkedTEReq at h
  simp only [] at h
  split at h
  · cases h
  · next hn =>
    split at h
    · next last hl =>
      split at h
      · next hc =>
        injection h with h
        refine ⟨h.symm, by simp [hl], ?_, by omega⟩
        simp [hl]
        simp at hc
        exact hc.2
      · cases h
    · cases h

/-- **obs-fold is rejected in strict mode**: a field line starting with SP or HTAB. -/
theorem obs_fold_rejected (mf fuel : Nat) (c : UInt8) (t : Bytes) (rest : List Bytes)
    (acc : List (Bytes × Bytes)) (hc : isOWS c = true) :
    parseHeaderLines false mf (fuel + 1) ((c :: t) :: rest) acc = .error .invalidHeader := by
  simp only [parseHeaderLines]
  have hne : (c :: t).isEmpty = false := rfl
  simp only [hne]
  cases hcut : cut1 58 (c :: t) with
  | none => simp
  | some r =>
    obtain ⟨bname, bvalue⟩ := r
    simp only []
    by_cases c1 : bname.isEmpty = true
    · simp [c1]
    · have : bname.head! = c := by
        obtain ⟨e, _⟩ := cut1_spec 58 (c :: t) bname bvalue hcut
        cases bname with
        | nil => simp at c1
        | cons x xs => simp at e; rw [e.1]; rfl
      simp [c1, this, hc]

/-- **No control bytes in fields, no whitespace around names.** In a strict header section
every name consists of `tchar`s only (so it contains no CTL, SP, HTAB or colon and is not
empty) and every value is free of CR, LF, NUL and every other C0 control except HTAB, and DEL. -/
theorem field_bytes_clean (line k v : Bytes) (h : StrictField line k v) :
    k ≠ [] ∧ (∀ b ∈ k, 33 ≤ b.toNat ∧ b.toNat ≤ 126 ∧ b ≠ 58) ∧
    (∀ b ∈ v, ¬ ((b.toNat < 32 ∧ b ≠ 9) ∨ b = 127)) := by
  obtain ⟨htok, _, hval, _, _⟩ := h
  unfold isToken at htok
  simp at htok
  refine ⟨?_, ?_, ?_⟩
  · intro hk; subst hk; simp at htok
  · intro b hb
    have := tchar_table b (htok.2 b hb)
    exact ⟨this.1, this.2.1, this.2.2.2.2.2.2.2.1⟩
  · intro b hb hbad
    have := valueForbidden_table b hbad
    simp at hval
    have := hval b hb
    simp_all

/-- **A request line containing a bare LF (or any CTL / whitespace other than its two SP) is
rejected**, however it arrives. -/
theorem bare_lf_request_line_rejected (cfg : Cfg) (hstrict : cfg.lax = false)
    (urlOk : Bool → Bytes → Bool) (line : Bytes) (rest : List Bytes) (h10 : (10 : UInt8) ∈ line) :
    ∃ e, parseRequest cfg urlOk (line :: rest) = .error e := by
  cases hp : parseRequest cfg urlOk (line :: rest) with
  | error e => exact ⟨e, rfl⟩
  | ok m =>
    exfalso
    obtain ⟨⟨mt, v, e, htok, _, htgt, hv⟩, _⟩ := parseRequest_sound cfg hstrict urlOk line rest m hp
    rw [e] at h10
    simp at h10
    rcases h10 with h | h | h
    · unfold isToken at htok; simp at htok
      have := tchar_table 10 (htok.2 10 h); simp at this
    · simp at htgt
      have := htgt 10 h
      have := targetForbidden_table 10 (by decide)
      simp_all
    · -- the version is HTTP/d.d with ASCII digits
      unfold parseVersion at hv
      split at hv
      · next a b =>
        split at hv
        · next hd =>
          simp at hd
          have ha := (versdigit_table a).mp hd.1
          have hb := (versdigit_table b).mp hd.2
          simp at h
          rcases h with h | h <;> subst h <;> simp at ha hb
        · cases hv
      · cases hv

/-- **HTTP/1.1 requires exactly one Host.** -/
theorem host_required_http11 (cfg : Cfg) (hstrict : cfg.lax = false) (urlOk : Bool → Bytes → Bool)
    (lines : List Bytes) (m : Msg) (h : parseRequest cfg urlOk lines = .ok m)
    (h11 : m.vmajor = 1 ∧ m.vminor = 1) :
    (m.headers.filter (fun kv => lower kv.1 == bHost)).length = 1 := by
  cases lines with
  | nil => simp [parseRequest] at h
  | cons line rest =>
    obtain ⟨_, _, hnd⟩ := accepted_request_is_strict cfg hstrict urlOk line rest m h
    have hle := hnd bHost (by decide)
    have hhas : hasName m.headers bHost = true := by
      simp only [parseRequest] at h
      cases hs : splitRequestLine line with
      | none => simp [hs] at h
      | some r =>
        obtain ⟨mt, p, v⟩ := r
        simp only [hs] at h
        by_cases c1 : isToken mt = false
        · simp [c1] at h
        have c1' : isToken mt = true := by simpa using c1
        simp only [c1'] at h
        cases hv : parseVersion v with
        | none => simp [hv] at h
        | some vv =>
          obtain ⟨vmaj, vmin⟩ := vv
          simp only [hv] at h
          by_cases c2 : p.any targetForbidden = true
          · simp [c2] at h
          simp only [c2] at h
          simp only [Bool.not_true, Bool.false_eq_true, if_false] at h
          split at h
          · cases h
          · cases hp : parseHeaders cfg.lax cfg.maxField rest with
            | error e => simp [hp] at h
            | ok hdrs =>
              simp only [hp] at h
              cases hi : interpretHeaders cfg hdrs with
              | error e => simp [hi] at h
              | ok info =>
                simp only [hi] at h
                split at h
                · cases h
                · next hhost =>
                  injection h with h
                  subst h
                  simp at h11
                  simp [h11.1, h11.2] at hhost
                  simpa using hhost
    have hpos : 0 < (m.headers.filter (fun kv => lower kv.1 == bHost)).length := by
      unfold hasName at hhas
      obtain ⟨kv, hkv, hh⟩ := List.any_eq_true.mp hhas
      apply List.length_pos_of_mem (a := kv)
      exact List.mem_filter.mpr ⟨hkv, hh⟩
    omega

end Aio.Http
