import AioModel.C04
import AioProps.Utf8Lemmas
import AioProps.HexLemmas
/-! Helper lemmas for the C04 property theorems. -/
namespace Aio.C04
open Aio

/-! ### forbidden characters -/

theorem forbidden_fin : ∀ c : Fin 128, (c.val < 32 ∧ c.val ≠ 9 ∨ c.val = 127) → forbidden c.val = true := by
  decide

theorem forbidden_ctl (c : Nat) (h : c < 32 ∧ c ≠ 9 ∨ c = 127) : forbidden c = true := by
  have hc : c < 128 := by omega
  exact forbidden_fin ⟨c, hc⟩ h

theorem safe_no_cr_lf (s : Str) (h : safeHeader s = true) : 13 ∉ s ∧ 10 ∉ s := by
  unfold safeHeader at h
  simp at h
  constructor
  · intro hm; have := h 13 hm; simp [forbidden_ctl 13 (by omega)] at this
  · intro hm; have := h 10 hm; simp [forbidden_ctl 10 (by omega)] at this

/-- bytes of a safe string contain neither CR nor LF -/
theorem safe_bytes (s : Str) (bs : Bytes) (h : safeHeader s = true) (hu : utf8 s = some bs) :
    (13 : UInt8) ∉ bs ∧ (10 : UInt8) ∉ bs := by
  have ⟨h13, h10⟩ := safe_no_cr_lf s h
  constructor
  · intro hm; exact h13 (utf8_low_byte s bs hu 13 hm (by decide))
  · intro hm; exact h10 (utf8_low_byte s bs hu 10 hm (by decide))

/-! ### utf8 and append -/

theorem utf8_append (a b : Str) :
    utf8 (a ++ b) = match utf8 a, utf8 b with
      | some x, some y => some (x ++ y)
      | _, _ => none := by
  induction a with
  | nil => simp [utf8]; cases utf8 b <;> rfl
  | cons c cs ih =>
    simp only [List.cons_append, utf8, ih]
    cases utf8enc c <;> cases utf8 cs <;> cases utf8 b <;> simp

theorem utf8_append_some (a b : Str) (bs : Bytes) (h : utf8 (a ++ b) = some bs) :
    ∃ x y, utf8 a = some x ∧ utf8 b = some y ∧ bs = x ++ y := by
  rw [utf8_append] at h
  cases ha : utf8 a <;> cases hb : utf8 b <;> simp [ha, hb] at h
  exact ⟨_, _, rfl, rfl, h.symm⟩

theorem utf8_crlf : utf8 [13, 10] = some [13, 10] := by decide

/-! ### splitting at CRLF -/

theorem splitCRLF_no_cr (a rest cur : Bytes) (h : (13 : UInt8) ∉ a) :
    splitCRLF (a ++ 13 :: 10 :: rest) cur = (cur.reverse ++ a) :: splitCRLF rest [] := by
  induction a generalizing cur with
  | nil => simp [splitCRLF]
  | cons b t ih =>
    have hb : b ≠ 13 := by intro e; subst e; simp at h
    have ht : (13 : UInt8) ∉ t := by intro e; exact h (List.mem_cons_of_mem _ e)
    have : splitCRLF (b :: (t ++ 13 :: 10 :: rest)) cur = splitCRLF (t ++ 13 :: 10 :: rest) (b :: cur) := by
      cases hh : t ++ 13 :: 10 :: rest with
      | nil => simp at hh
      | cons x xs => rw [splitCRLF]; simp [hb]
    simp only [List.cons_append]
    rw [this, ih _ ht]
    simp


theorem no13_bytes (l : Str) (x : Bytes) (h : 13 ∉ l) (hu : utf8 l = some x) : (13 : UInt8) ∉ x := by
  intro hm; exact h (utf8_low_byte l x hu 13 hm (by decide))

theorem utf8_tail4 : utf8 [13, 10, 13, 10] = some [13, 10, 13, 10] := by decide

theorem split_join (ls : List Str) (bs : Bytes) (hne : ls ≠ [])
    (hsafe : ∀ l ∈ ls, 13 ∉ l)
    (h : utf8 (joinCRLF ls ++ [13, 10, 13, 10]) = some bs) :
    ∃ lb, ls.map utf8 = lb.map some ∧ splitCRLF bs [] = lb ++ [[], []] := by
  induction ls generalizing bs with
  | nil => exact absurd rfl hne
  | cons l rest ih =>
    cases rest with
    | nil =>
      simp only [joinCRLF] at h
      obtain ⟨x, y, hx, hy, hbs⟩ := utf8_append_some _ _ _ h
      rw [utf8_tail4] at hy; injection hy with hy; subst hy; subst hbs
      refine ⟨[x], by simp [hx], ?_⟩
      have h13 := no13_bytes l x (hsafe l (by simp)) hx
      rw [splitCRLF_no_cr x [13, 10] [] h13]
      simp [splitCRLF]
    | cons l' rest' =>
      simp only [joinCRLF] at h
      rw [List.append_assoc, List.append_assoc] at h
      obtain ⟨x, y, hx, hy, hbs⟩ := utf8_append_some _ _ _ h
      obtain ⟨c, z, hc, hz, hy2⟩ := utf8_append_some _ _ _ hy
      rw [utf8_crlf] at hc; injection hc with hc; subst hc; subst hy2; subst hbs
      obtain ⟨lb, hf, hs⟩ := ih z (by simp) (fun l hl => hsafe l (List.mem_cons_of_mem _ hl)) hz
      refine ⟨x :: lb, by simpa [hx] using hf, ?_⟩
      have h13 := no13_bytes l x (hsafe l (by simp)) hx
      have : x ++ ([13, 10] ++ z) = x ++ 13 :: 10 :: z := by simp
      rw [this, splitCRLF_no_cr x z [] h13, hs]
      simp


/-! ### chunked framing -/

def frameOf (d : Bytes) : Bytes := if d.isEmpty then [] else chunkFrame d
/-- what a sequence of `write(d)` calls puts on the wire in chunked mode -/
def encodeChunks (ds : List Bytes) : Bytes := (ds.map frameOf).flatten

theorem cutCRLF_no_cr (a rest : Bytes) (h : (13 : UInt8) ∉ a) :
    cutCRLF (a ++ 13 :: 10 :: rest) = some (a, rest) := by
  induction a with
  | nil => simp [cutCRLF]
  | cons b t ih =>
    have hb : b ≠ 13 := by intro e; subst e; simp at h
    have ht : (13 : UInt8) ∉ t := by intro e; exact h (List.mem_cons_of_mem _ e)
    cases hh : t ++ 13 :: 10 :: rest with
    | nil => simp at hh
    | cons x xs =>
      simp only [List.cons_append, hh, cutCRLF]
      rw [← hh, ih ht]
      simp [hb]

theorem toHex_no_cr (n : Nat) : (13 : UInt8) ∉ toHex n := by
  intro h; have := toHex_ge48 n 13 h; simp at this

theorem decode_frame (fuel : Nat) (d r : Bytes) (hd : d ≠ []) :
    decodeChunked (fuel + 1) (chunkFrame d ++ r) =
      match decodeChunked fuel r with
      | some (x, r') => some (d ++ x, r')
      | none => none := by
  unfold chunkFrame CRLF
  have e : toHex d.length ++ [13, 10] ++ d ++ [13, 10] ++ r
         = toHex d.length ++ 13 :: 10 :: (d ++ 13 :: 10 :: r) := by simp
  have hlen : d.length ≠ 0 := by
    intro h0; exact hd (List.eq_nil_of_length_eq_zero h0)
  obtain ⟨k, hk⟩ : ∃ k, d.length = k + 1 := ⟨d.length - 1, by omega⟩
  rw [e, decodeChunked, cutCRLF_no_cr _ _ (toHex_no_cr _)]
  simp only []
  rw [ofHex_toHex, hk]
  have h1 : ¬ (d ++ 13 :: 10 :: r).length < k + 1 + 2 := by simp; omega
  have h2 : (d ++ 13 :: 10 :: r).drop (k + 1) = 13 :: 10 :: r := by rw [← hk]; simp
  have h3 : (d ++ 13 :: 10 :: r).take (k + 1) = d := by rw [← hk]; simp
  simp only [h1, h2, h3, if_false]
  rcases decodeChunked fuel r with _ | ⟨x, r'⟩ <;> rfl

theorem decode_last (fuel : Nat) (rest : Bytes) :
    decodeChunked (fuel + 1) (lastChunk ++ rest) = some ([], rest) := by
  unfold lastChunk
  show decodeChunked (fuel + 1) ([48] ++ 13 :: 10 :: (13 :: 10 :: rest)) = _
  rw [decodeChunked, cutCRLF_no_cr _ _ (by decide)]
  have : ofHex [48] = some 0 := by decide
  simp [this]

def nonEmptyCount (ds : List Bytes) : Nat := (ds.filter (fun d => !d.isEmpty)).length

theorem decode_encodeChunks_fuel (ds : List Bytes) (rest : Bytes) (fuel : Nat)
    (hf : nonEmptyCount ds < fuel) :
    decodeChunked fuel (encodeChunks ds ++ lastChunk ++ rest) = some (ds.flatten, rest) := by
  induction ds generalizing fuel with
  | nil =>
    cases fuel with
    | zero => omega
    | succ f => simpa [encodeChunks] using decode_last f rest
  | cons d ds ih =>
    by_cases hd : d = []
    · subst hd
      have : nonEmptyCount ([] :: ds) = nonEmptyCount ds := by simp [nonEmptyCount]
      have := ih fuel (by omega)
      simpa [encodeChunks, frameOf] using this
    · have hc : nonEmptyCount (d :: ds) = nonEmptyCount ds + 1 := by
        have : d.isEmpty = false := by cases d <;> simp_all
        simp [nonEmptyCount, this]
      cases fuel with
      | zero => omega
      | succ f =>
        have ih' := ih f (by omega)
        have e : encodeChunks (d :: ds) ++ lastChunk ++ rest
               = chunkFrame d ++ (encodeChunks ds ++ lastChunk ++ rest) := by
          simp [encodeChunks, frameOf, hd]
        rw [e, decode_frame f d _ hd, ih']
        simp

theorem frameOf_length (d : Bytes) (hd : d ≠ []) : 1 ≤ (frameOf d).length := by
  simp [frameOf, hd, chunkFrame, CRLF]; omega

theorem nonEmptyCount_le (ds : List Bytes) : nonEmptyCount ds ≤ (encodeChunks ds).length := by
  induction ds with
  | nil => simp [nonEmptyCount]
  | cons d ds ih =>
    by_cases hd : d = []
    · subst hd; simpa [nonEmptyCount, encodeChunks, frameOf] using ih
    · have := frameOf_length d hd
      have hc : nonEmptyCount (d :: ds) = nonEmptyCount ds + 1 := by
        have : d.isEmpty = false := by cases d <;> simp_all
        simp [nonEmptyCount, this]
      have : (encodeChunks (d :: ds)).length = (frameOf d).length + (encodeChunks ds).length := by
        simp [encodeChunks]
      omega


/-! ### the writer in chunked mode -/

/-- a writer that has been given its headers, in chunked mode, no compression, no declared length -/
structure ChunkedReady (w : W) : Prop where
  chunked : w.chunked = true
  nocomp : w.compress = false
  nolen : w.length = none
  isopen : w.closing = false
  noeof : w.eof = false
  hdr : (w.headersBuf = none ∧ w.headersWritten = true) ∨
        (∃ hb, w.headersBuf = some hb ∧ hb ≠ [] ∧ w.headersWritten = false)

/-- bytes on the wire once the buffered header block (if any) is flushed -/
def flushed (w : W) : Bytes := w.out ++ (pendingHeaders w).getD []

theorem step_write_chunked (w : W) (hw : ChunkedReady w) (d cz : Bytes) :
    (step w (.write d cz)).2 = none ∧ ChunkedReady (step w (.write d cz)).1 ∧
    flushed (step w (.write d cz)).1 = flushed w ++ frameOf d := by
  obtain ⟨h1, h2, h3, h4, h5, h6⟩ := hw
  rcases w with ⟨length, chunked, eof, hbuf, hwr, compress, closing, out⟩
  simp only at h1 h2 h3 h4 h5 h6
  subst h1 h2 h3 h4 h5
  rcases h6 with ⟨hb, hwt⟩ | ⟨hb, hbe, hne, hwf⟩
  · subst hb hwt
    by_cases hd : d = []
    · subst hd
      simp [step, doWrite, pendingHeaders, flushed, frameOf]
      exact ⟨rfl, rfl, rfl, rfl, rfl, Or.inl ⟨rfl, rfl⟩⟩
    · have hde : d.isEmpty = false := by cases d <;> simp_all
      simp [step, doWrite, pendingHeaders, flushed, frameOf, emit, hde]
      exact ⟨rfl, rfl, rfl, rfl, rfl, Or.inl ⟨rfl, rfl⟩⟩
  · subst hbe hwf
    have hbe : hb.isEmpty = false := by cases hb <;> simp_all
    by_cases hd : d = []
    · subst hd
      simp [step, doWrite, pendingHeaders, flushed, frameOf, sendHeadersWithPayload, emit, hbe]
      exact ⟨rfl, rfl, rfl, rfl, rfl, Or.inl ⟨rfl, rfl⟩⟩
    · have hde : d.isEmpty = false := by cases d <;> simp_all
      simp [step, doWrite, pendingHeaders, flushed, frameOf, sendHeadersWithPayload, emit, hbe, hde]
      exact ⟨rfl, rfl, rfl, rfl, rfl, Or.inl ⟨rfl, rfl⟩⟩


theorem step_send_chunked (w : W) (hw : ChunkedReady w) :
    (step w .sendHeaders).2 = none ∧ ChunkedReady (step w .sendHeaders).1 ∧
    flushed (step w .sendHeaders).1 = flushed w := by
  obtain ⟨h1, h2, h3, h4, h5, h6⟩ := hw
  rcases w with ⟨length, chunked, eof, hbuf, hwr, compress, closing, out⟩
  simp only at h1 h2 h3 h4 h5 h6
  subst h1 h2 h3 h4 h5
  rcases h6 with ⟨hb, hwt⟩ | ⟨hb, hbe, hne, hwf⟩
  · subst hb hwt
    simp [step, pendingHeaders, flushed]
    exact ⟨rfl, rfl, rfl, rfl, rfl, Or.inl ⟨rfl, rfl⟩⟩
  · subst hbe hwf
    have hbe : hb.isEmpty = false := by cases hb <;> simp_all
    simp [step, pendingHeaders, flushed, emit, hbe]
    exact ⟨rfl, rfl, rfl, rfl, rfl, Or.inl ⟨rfl, rfl⟩⟩

theorem step_writeEof_chunked (w : W) (hw : ChunkedReady w) (d cz fl : Bytes) :
    (step w (.writeEof d cz fl)).2 = none ∧ (step w (.writeEof d cz fl)).1.eof = true ∧
    (step w (.writeEof d cz fl)).1.out = flushed w ++ frameOf d ++ lastChunk := by
  obtain ⟨h1, h2, h3, h4, h5, h6⟩ := hw
  rcases w with ⟨length, chunked, eof, hbuf, hwr, compress, closing, out⟩
  simp only at h1 h2 h3 h4 h5 h6
  subst h1 h2 h3 h4 h5
  rcases h6 with ⟨hb, hwt⟩ | ⟨hb, hbe, hne, hwf⟩
  · subst hb hwt
    by_cases hd : d = []
    · subst hd
      simp [step, doWriteEof, pendingHeaders, flushed, frameOf, emit]
    · have hde : d.isEmpty = false := by cases d <;> simp_all
      simp [step, doWriteEof, pendingHeaders, flushed, frameOf, emit, hde, chunkFrame]
  · subst hbe hwf
    have hbe : hb.isEmpty = false := by cases hb <;> simp_all
    by_cases hd : d = []
    · subst hd
      simp [step, doWriteEof, pendingHeaders, flushed, frameOf, sendHeadersWithPayload, emit, hbe]
    · have hde : d.isEmpty = false := by cases d <;> simp_all
      simp [step, doWriteEof, pendingHeaders, flushed, frameOf, sendHeadersWithPayload, emit, hbe, hde, chunkFrame]

theorem step_setEof_chunked (w : W) (hw : ChunkedReady w) :
    (step w .setEof).2 = none ∧ (step w .setEof).1.eof = true ∧
    (step w .setEof).1.out = flushed w ++ lastChunk := by
  obtain ⟨h1, h2, h3, h4, h5, h6⟩ := hw
  rcases w with ⟨length, chunked, eof, hbuf, hwr, compress, closing, out⟩
  simp only at h1 h2 h3 h4 h5 h6
  subst h1 h2 h3 h4 h5
  rcases h6 with ⟨hb, hwt⟩ | ⟨hb, hbe, hne, hwf⟩
  · subst hb hwt
    simp [step, doSetEof, pendingHeaders, flushed, emit]
  · subst hbe hwf
    have hbe : hb.isEmpty = false := by cases hb <;> simp_all
    simp [step, doSetEof, pendingHeaders, flushed, emit, hbe]


/-! ### the writer with a declared length (identity transfer coding) -/

structure LengthReady (w : W) (n : Nat) : Prop where
  notchunked : w.chunked = false
  nocomp : w.compress = false
  len : w.length = some n
  isopen : w.closing = false
  hdr : (w.headersBuf = none ∧ w.headersWritten = true) ∨
        (∃ hb, w.headersBuf = some hb ∧ hb ≠ [] ∧ w.headersWritten = false)

theorem step_write_length (w : W) (n : Nat) (hw : LengthReady w n) (d cz : Bytes) :
    (step w (.write d cz)).2 = none ∧ LengthReady (step w (.write d cz)).1 (n - d.length) ∧
    flushed (step w (.write d cz)).1 = flushed w ++ d.take n := by
  obtain ⟨h1, h2, h3, h4, h6⟩ := hw
  rcases w with ⟨length, chunked, eof, hbuf, hwr, compress, closing, out⟩
  simp only at h1 h2 h3 h4 h6
  subst h1 h2 h3 h4
  by_cases hle : d.length ≤ n
  · have htake : d.take n = d := List.take_of_length_le hle
    rcases h6 with ⟨hb, hwt⟩ | ⟨hb, hbe, hne, hwf⟩
    · subst hb hwt
      by_cases hd : d = []
      · subst hd
        simp [step, doWrite, pendingHeaders, flushed]
        exact ⟨rfl, rfl, rfl, rfl, Or.inl ⟨rfl, rfl⟩⟩
      · have hde : d.isEmpty = false := by cases d <;> simp_all
        simp [step, doWrite, pendingHeaders, flushed, emit, hde, hle, htake]
        exact ⟨rfl, rfl, rfl, rfl, Or.inl ⟨rfl, rfl⟩⟩
    · subst hbe hwf
      have hbe : hb.isEmpty = false := by cases hb <;> simp_all
      simp [step, doWrite, pendingHeaders, flushed, sendHeadersWithPayload, emit, hbe, hle, htake]
      exact ⟨rfl, rfl, rfl, rfl, Or.inl ⟨rfl, rfl⟩⟩
  · have hlt : n < d.length := by omega
    have hsub : n - d.length = 0 := by omega
    have hnle : ¬ (n ≥ d.length) := by omega
    rcases h6 with ⟨hb, hwt⟩ | ⟨hb, hbe, hne, hwf⟩
    · subst hb hwt
      by_cases hn : n = 0
      · subst hn
        simp [step, doWrite, pendingHeaders, flushed, hnle, hsub]
        exact ⟨rfl, rfl, rfl, rfl, Or.inl ⟨rfl, rfl⟩⟩
      · have hte : (d.take n).isEmpty = false := by
          cases d with
          | nil => simp at hlt
          | cons a t => cases n with
            | zero => omega
            | succ k => simp
        simp [step, doWrite, pendingHeaders, flushed, emit, hnle, hsub, hte]
        exact ⟨rfl, rfl, rfl, rfl, Or.inl ⟨rfl, rfl⟩⟩
    · subst hbe hwf
      have hbe : hb.isEmpty = false := by cases hb <;> simp_all
      by_cases hn : n = 0
      · subst hn
        simp [step, doWrite, pendingHeaders, flushed, hnle, hsub, hbe]
        exact ⟨rfl, rfl, rfl, rfl, Or.inr ⟨hb, rfl, hne, rfl⟩⟩
      · have hte : (d.take n).isEmpty = false := by
          cases d with
          | nil => simp at hlt
          | cons a t => cases n with
            | zero => omega
            | succ k => simp
        simp [step, doWrite, pendingHeaders, flushed, sendHeadersWithPayload, emit, hnle, hsub, hte, hbe]
        exact ⟨rfl, rfl, rfl, rfl, Or.inl ⟨rfl, rfl⟩⟩

theorem step_send_length (w : W) (n : Nat) (hw : LengthReady w n) :
    (step w .sendHeaders).2 = none ∧ LengthReady (step w .sendHeaders).1 n ∧
    flushed (step w .sendHeaders).1 = flushed w := by
  obtain ⟨h1, h2, h3, h4, h6⟩ := hw
  rcases w with ⟨length, chunked, eof, hbuf, hwr, compress, closing, out⟩
  simp only at h1 h2 h3 h4 h6
  subst h1 h2 h3 h4
  rcases h6 with ⟨hb, hwt⟩ | ⟨hb, hbe, hne, hwf⟩
  · subst hb hwt
    simp [step, pendingHeaders, flushed]
    exact ⟨rfl, rfl, rfl, rfl, Or.inl ⟨rfl, rfl⟩⟩
  · subst hbe hwf
    have hbe : hb.isEmpty = false := by cases hb <;> simp_all
    simp [step, pendingHeaders, flushed, emit, hbe]
    exact ⟨rfl, rfl, rfl, rfl, Or.inl ⟨rfl, rfl⟩⟩

end Aio.C04
