import AioModel.C09
/-! Conservation invariant of the reader: delivered ++ buffered = decoded, through every function
of the pipeline model. -/
namespace Aio.C09
open Aio
variable {c : Codec}

/-- nothing is lost, duplicated or reordered between `StreamReader.feed_data` and the consumer -/
def Cons (w : World c) : Prop := flat w.deliveredR ++ w.buf.flatten = flat w.decodedR

theorem flat_cons (d : Bytes) (l : List Bytes) : flat (d :: l) = flat l ++ d := by
  simp [flat]

/-- a function that preserves the invariant -/
def Pres (f : World c → World c) : Prop := ∀ w, Cons w → Cons (f w)

theorem cons_pauseReading : Pres (c := c) pauseReading := by
  intro w h; unfold pauseReading; simp only; split <;> exact h
theorem cons_wake : Pres (c := c) wake := by intro w h; exact h
theorem cons_setExc (e : Err) : Pres (c := c) (setExc · e) := by
  intro w h; simp only [setExc]; split <;> exact h
theorem cons_failWith (e : Err) : Pres (c := c) (failWith · e) := by intro w h; exact h
theorem cons_rdFeed (d : Bytes) : Pres (c := c) (rdFeed · d) := by
  intro w h
  simp only [rdFeed]
  split
  · exact h
  · split
    · exact h
    · have h2 : Cons (wake { w with buf := w.buf ++ [d], total := w.total + d.length, decodedR := d :: w.decodedR }) := by
        simp only [Cons, wake, flat_cons, List.flatten_append, List.flatten_cons, List.flatten_nil, List.append_nil] at *
        rw [← h]; simp
      split
      · exact cons_pauseReading _ h2
      · exact h2
theorem cons_resumeTransport : Pres (c := c) resumeTransport := by
  intro w h; simp only [resumeTransport]; split <;> exact h
theorem cons_rdFeedEof : Pres (c := c) rdFeedEof := by
  intro w h; exact cons_resumeTransport _ h
theorem cons_setChunk (n : Nat) : Pres (c := c) (setChunk · n) := by
  intro w h; simp only [setChunk]; split <;> exact h
theorem cons_beginChunk : Pres (c := c) beginChunk := by
  intro w h; simp only [beginChunk]; split
  · exact h
  · split <;> exact h
theorem cons_endChunk : Pres (c := c) endChunk := by
  intro w h; simp only [endChunk]; split
  · exact h
  · split
    · exact h
    · simp only [wake]; split
      · exact cons_pauseReading _ h
      · exact h

theorem cons_sniffStart (d : Bytes) : Pres (c := c) (sniffStart · d) := by
  intro w h; simp only [sniffStart]; split <;> exact h
theorem cons_decodeFeed (d : Bytes) : Pres (c := c) (decodeFeed · d) := by
  intro w h
  simp only [decodeFeed]
  split
  · exact h
  · exact cons_rdFeed _ _ h
theorem cons_payFeed (d : Bytes) : Pres (c := c) (payFeed · d) := by
  intro w h
  simp only [payFeed]
  split
  · exact cons_rdFeed d _ h
  · exact cons_decodeFeed d _ (cons_sniffStart d _ h)
theorem cons_payEof : Pres (c := c) payEof := by
  intro w h; simp only [payEof]; split
  · exact h
  · exact cons_rdFeedEof _ h
theorem cons_drain : ∀ fuel, Pres (c := c) (drain fuel) := by
  intro fuel
  induction fuel with
  | zero => intro w h; exact h
  | succ n ih =>
    intro w h
    simp only [drain]
    split
    · exact h
    · split
      · exact h
      · have := cons_payFeed [] w h
        split
        · exact this
        · exact ih _ this
theorem cons_feedLength (d : Bytes) : Pres (c := c) (feedLength · d) := by
  intro w h
  simp only [feedLength]
  have h1 := cons_payFeed ((w.tail ++ d).take w.length) { w with tail := [], length := w.length - (w.tail ++ d).length } h
  split
  · exact h1
  · have h2 := fun f => cons_drain (c := c) f _ h1
    split
    · exact h2 _
    · exact h2 _
    · split
      · split
        · exact cons_payEof _ (h2 _)
        · exact cons_payEof _ (h2 _)
      · exact h2 _
theorem cons_feedUntilEof (d : Bytes) : Pres (c := c) (feedUntilEof · d) := by
  intro w h
  simp only [feedUntilEof]
  have h1 := cons_payFeed d w h
  split
  · exact h1
  · have h2 := fun f => cons_drain (c := c) f _ h1
    split
    · exact h2 _
    · exact h2 _
    · split
      · split
        · exact cons_payEof _ (h2 _)
        · exact cons_payEof _ (h2 _)
      · exact h2 _

/-- continuation that preserves the invariant -/
def PresK (k : World c → Bytes → World c) : Prop := ∀ w d, Cons w → Cons (k w d)

theorem cons_payEof' (w : World c) (h : Cons w) : Cons (payEof w) := cons_payEof w h
theorem cons_endChunk' (w : World c) (h : Cons w) : Cons (endChunk w) := cons_endChunk w h
theorem cons_beginChunk' (w : World c) (h : Cons w) : Cons (beginChunk w) := cons_beginChunk w h
theorem cons_payFeed' (w : World c) (d : Bytes) (h : Cons w) : Cons (payFeed w d) := cons_payFeed d w h
theorem cons_failWith' (w : World c) (e : Err) (h : Cons w) : Cons (failWith w e) := h

theorem cons_trailersStep (k : World c → Bytes → World c) (hk : PresK k) : PresK (trailersStep k) := by
  intro w d h
  simp only [trailersStep]
  repeat' split
  all_goals repeat (first | exact h | apply hk | apply cons_payEof' | apply cons_failWith')
theorem cons_chunkEofStep (k : World c → Bytes → World c) (hk : PresK k) : PresK (chunkEofStep k) := by
  intro w d h
  simp only [chunkEofStep]
  repeat' split
  all_goals repeat (first | exact h | apply hk | apply cons_failWith')
theorem cons_chunkStep (k : World c → Bytes → World c) (hk : PresK k) : PresK (chunkStep k) := by
  intro w d h
  simp only [chunkStep]
  repeat' split
  all_goals repeat (first | exact h | apply hk | apply cons_chunkEofStep k hk | apply cons_endChunk' | apply cons_payFeed')
theorem cons_sizeStep (k : World c → Bytes → World c) (hk : PresK k) : PresK (sizeStep k) := by
  intro w d h
  simp only [sizeStep]
  repeat' split
  all_goals repeat (first | exact h | apply cons_trailersStep k hk | apply cons_chunkStep k hk | apply cons_beginChunk' | apply cons_failWith')
theorem cons_chunkedLoop : ∀ fuel, PresK (c := c) (chunkedLoop fuel) := by
  intro fuel
  induction fuel with
  | zero => intro w d h; exact h
  | succ n ih =>
    intro w d h
    simp only [chunkedLoop]
    repeat' split
    all_goals repeat (first | exact h | apply cons_sizeStep _ ih | apply cons_chunkStep _ ih | apply cons_chunkEofStep _ ih | apply cons_trailersStep _ ih)
theorem cons_ppFeedCore (d : Bytes) : Pres (c := c) (ppFeedCore · d) := by
  intro w h
  simp only [ppFeedCore]
  split
  · exact cons_feedLength d w h
  · exact cons_feedUntilEof d w h
  · split
    · exact h
    · exact cons_chunkedLoop _ { w with tail := [] } _ h
theorem cons_ppFeed (d : Bytes) : Pres (c := c) (ppFeed · d) := by
  intro w h
  have h1 := cons_ppFeedCore d w h
  simp only [ppFeed]
  split
  · exact h1
  · exact h1
theorem cons_parserFeed (d : Bytes) : Pres (c := c) (parserFeed · d) := by
  intro w h
  simp only [parserFeed]
  split
  · exact h
  · split
    · exact h
    · have h1 := cons_ppFeed d { w with raised := none, res := .needs } h
      split
      · exact h1
      · exact h1
      · exact h1
      · split
        · exact cons_setExc _ _ h1
        · exact cons_setExc _ _ h1
theorem cons_dataReceived (d : Bytes) : Pres (c := c) (dataReceived · d) := by
  intro w h; simp only [dataReceived]; split
  · exact h
  · exact cons_parserFeed d w h
theorem cons_resumeReading : Pres (c := c) resumeReading := by
  intro w h
  exact cons_resumeTransport _ (cons_dataReceived [] { w with readingPaused := false } h)

theorem cons_resumeReading' (w : World c) (h : Cons w) : Cons (resumeReading w) := cons_resumeReading w h

theorem cons_pop (w w1 : World c) (first : Bytes) (restb : List Bytes) (data : Bytes) (buf' : List Bytes)
    (h : Cons w) (hb : w.buf = first :: restb) (hd : data ++ buf'.flatten = first ++ restb.flatten)
    (h1 : w1.deliveredR = data :: w.deliveredR) (h2 : w1.buf = buf') (h3 : w1.decodedR = w.decodedR) : Cons w1 := by
  simp only [Cons, h1, h2, h3, flat_cons]
  simp only [Cons, hb, List.flatten_cons] at h
  rw [← h, List.append_assoc, hd]

theorem cons_readChunk (n : Option Nat) : Pres (c := c) (readChunk · n) := by
  intro w h
  simp only [readChunk]
  split
  · exact h
  · rename_i first restb hb
    repeat' split
    all_goals first
      | (apply cons_resumeReading'; refine cons_pop w _ first restb _ _ h hb ?_ rfl rfl rfl;
         first | rfl | (simp only [List.flatten_cons, ← List.append_assoc, List.take_append_drop]))
      | (refine cons_pop w _ first restb _ _ h hb ?_ rfl rfl rfl;
         first | rfl | (simp only [List.flatten_cons, ← List.append_assoc, List.take_append_drop]))

theorem cons_readAllChunks : ∀ k, Pres (c := c) (readAllChunks k) := by
  intro k
  induction k with
  | zero => intro w h; exact h
  | succ n ih => intro w h; exact ih _ (cons_readChunk none w h)

theorem cons_readUpTo : ∀ fuel n, Pres (c := c) (readUpTo fuel n) := by
  intro fuel
  induction fuel with
  | zero => intro n w h; exact h
  | succ f ih =>
    intro n w h
    simp only [readUpTo]
    repeat' split
    all_goals first | exact h | exact cons_readChunk _ w h | exact ih _ _ (cons_readChunk _ w h)

theorem cons_readOp (n : Option Nat) (w : World c) (h : Cons w) : Cons (readOp w n).1 := by
  simp only [readOp]
  repeat' split
  all_goals first
    | exact h
    | exact cons_setChunk _ w h
    | (apply cons_readUpTo; first | exact h | exact cons_setChunk _ w h)
    | (apply cons_readAllChunks; first | exact h | exact cons_setChunk _ w h)

theorem cons_ppFeedEof : Pres (c := c) ppFeedEof := by
  intro w h
  simp only [ppFeedEof]
  repeat' split
  all_goals first
    | exact h
    | exact cons_drain _ _ h
    | exact cons_payEof _ (cons_drain _ _ h)

theorem cons_connectionLost : Pres (c := c) connectionLost := by
  intro w h
  simp only [connectionLost]
  have h1 := cons_ppFeedEof { w with raised := none, res := .needs } h
  repeat' split
  all_goals first | exact h | exact h1 | exact cons_setExc _ _ h1

theorem cons_reqLoop (cms : Nat) : ∀ fuel (w : World c), Cons w → Cons (reqLoop cms fuel w).1 := by
  intro fuel
  induction fuel with
  | zero => intro w h; exact h
  | succ f ih =>
    intro w h
    simp only [reqLoop]
    have h1 := cons_readAllChunks w.buf.length { w with reqParked := false, outb := [] } h
    repeat' split
    all_goals first | exact h | exact h1 | exact ih _ h1

theorem cons_reqRead (cms : Nat) (w : World c) (h : Cons w) : Cons (reqRead w cms).1 := by
  simp only [reqRead]
  repeat' split
  all_goals first
    | exact h
    | exact cons_setChunk _ w h
    | (apply cons_reqLoop; first | exact h | exact cons_setChunk _ w h)

theorem cons_resumeGate (w : World c) (h : Cons w) : ∀ r, resumeGate w = some r → Cons r.1 := by
  intro r hr
  simp only [resumeGate] at hr
  repeat' split at hr
  all_goals first | (injection hr with hr; subst hr; exact h) | cases hr
theorem cons_parkOrFail (w : World c) (h : Cons w) : Cons (parkOrFail w).1 := by
  simp only [parkOrFail]
  repeat' split
  all_goals exact h
theorem cons_parkedRead (n : Option Nat) (w : World c) (h : Cons w) : Cons (parkedRead w n).1 := by
  simp only [parkedRead]
  split
  · rename_i r hr; exact cons_resumeGate w h r hr
  · repeat' split
    all_goals first
      | exact h
      | exact cons_setChunk _ w h
      | (apply cons_parkOrFail; first | exact h | exact cons_setChunk _ w h)
      | (apply cons_readUpTo; first | exact h | exact cons_setChunk _ w h)
      | (apply cons_readAllChunks; first | exact h | exact cons_setChunk _ w h)
theorem cons_lineTake (w : World c) (h : Cons w) : Cons (lineTake w) := by
  simp only [lineTake]
  exact cons_readChunk _ { w with outb := [] } h
theorem cons_lineInner : ∀ fuel m (w : World c), Cons w → Cons (lineInner fuel m w).1 := by
  intro fuel
  induction fuel with
  | zero => intro m w h; exact h
  | succ f ih =>
    intro m w h
    simp only [lineInner]
    have h1 := cons_lineTake w h
    repeat' split
    all_goals first | exact h | exact h1 | exact ih _ _ h1
theorem cons_lineStart (w : World c) (h : Cons w) : Cons (lineStart w) := by
  simp only [lineStart]; split <;> exact h
theorem cons_lineFinish (r : World c × LineRes) (h : Cons r.1) : Cons (lineFinish r).1 := by
  simp only [lineFinish]
  repeat' split
  all_goals first | exact h | exact cons_parkOrFail _ h
theorem cons_parkedLine (w : World c) (h : Cons w) : Cons (parkedLine w).1 := by
  simp only [parkedLine]
  split
  · rename_i r hr; exact cons_resumeGate w h r hr
  · exact cons_lineFinish _ (cons_lineInner _ _ _ (cons_lineStart w h))
theorem cons_connectionLostServer (w : World c) (h : Cons w) : Cons (connectionLostServer w) := by
  simp only [connectionLostServer]; exact cons_setExc _ w h

theorem cons_step (w : World c) (op : Op) (h : Cons w) : Cons (step w op).1 := by
  cases op with
  | deliver seg =>
    simp only [step]; split
    · exact h
    · exact cons_dataReceived seg { w with wireInR := seg :: w.wireInR } h
  | close => simp only [step]; split
             · exact h
             · exact cons_connectionLost w h
  | read n =>
    simp only [step]
    repeat' split
    all_goals first | exact h | exact cons_readOp _ w h
  | readAny => exact cons_readOp none w h
  | setChunk n => exact cons_setChunk n w h
  | reqRead cms => exact cons_reqRead cms w h
  | pread n => exact cons_parkedRead _ w h
  | preadAny => exact cons_parkedRead _ w h
  | preadLine => exact cons_parkedLine w h
  | closeServer => simp only [step]; split
                   · exact h
                   · exact cons_connectionLostServer w h

theorem cons_run (ops : List Op) : ∀ (w : World c), Cons w → Cons (run w ops) := by
  induction ops with
  | nil => intro w h; exact h
  | cons op t ih => intro w h; exact ih _ (cons_step w op h)

end Aio.C09
