import AioProps.C19Lemmas
/-!
# C19 — property theorems (multipart codec round trip, truthful size, reader termination)

Model: `AioModel/C19.lean` (= `aiohttp/multipart.py` over a lazy model of `StreamReader`).
Every statement quantifies over all byte strings / boundaries / chunkings of the stated shape.
`sub` is always the delimiter `b"\r\n" + self._boundary` the body-part reader searches for.
-/
namespace Aio.C19
open Aio

/-! ## the sliding boundary window -/

/-- **A boundary straddling two reads is found.** Let `q` be the first position of the
delimiter in the data `D = E ++ prev ++ chunk ++ R` (`E` = bytes already handed out, `prev` =
the chunk kept back by the previous call, `chunk` = the fresh read). As soon as the delimiter
lies completely inside `prev ++ chunk`, the search that starts only `|sub|` bytes before the
end of `prev` (or at 0 on the first call) returns exactly that position — however the bytes
are split between `prev` and `chunk`. -/
theorem window_finds_boundary_across_edges {sub D E prev chunk R : Bytes} {q : Nat} (first : Bool)
    (hd : Delim sub D q) (hD : D = E ++ (prev ++ chunk) ++ R) (hE : E.length ≤ q)
    (hinv : first = false → E.length + prev.length < q + sub.length)
    (hin : q + sub.length ≤ E.length + prev.length + chunk.length) :
    findFrom sub (prev ++ chunk) (if first then 0 else prev.length - sub.length) = some (q - E.length) := by
  apply find_in_window hd hD ?_ hin
  cases first with
  | true => simpa using hE
  | false => have := hinv rfl; simp; omega

/-- **No false boundary.** While the first delimiter of the data is not yet completely inside
the window, the search finds nothing (so nothing is cut off early), from any start index. -/
theorem window_no_false_boundary {sub D E prev chunk R : Bytes} {q start : Nat}
    (hd : Delim sub D q) (hD : D = E ++ (prev ++ chunk) ++ R)
    (hout : E.length + prev.length + chunk.length < q + sub.length) :
    findFrom sub (prev ++ chunk) start = none :=
  not_found_before hd hD hout

/-- **Where the first delimiter is.** In `CRLF ++ content ++ CRLF ++ "--boundary" ++ rest` the
first occurrence of the delimiter is the one that follows the content, provided the (encoded)
content does not contain the delimiter and the boundary contains no CR (the writer refuses
such boundaries: `boundaryOk`). -/
theorem first_delimiter_follows_content (b c rest : Bytes) (hcr : (13 : UInt8) ∉ b)
    (hfree : ∀ j, isPrefix (CRLF ++ b) ((CRLF ++ c).drop j) = false) :
    Delim (CRLF ++ b) (CRLF ++ c ++ (CRLF ++ b) ++ rest) (c.length + 2) :=
  delim_after_content b c rest hcr hfree

/-- **Round trip of one part's content under any chunking.** The data after a part's headers is
`c ++ CRLF ++ b ++ rest` (`b` = `--boundary`). Run the `read_chunk` loop (window search,
push-back, `at_eof`) with the first call reading `k0` bytes and the following calls obtaining
fresh chunks of *any* sizes `ks` (each at least `|sub|` long, or whatever is left at the end of
the data — this is what the gathering loop of `_read_chunk_from_stream` guarantees for every
segmentation of the transport and every legal `size`). If the delimiter does not occur in
`CRLF ++ c` and the boundary has no CR, the loop ends (within `|c| + 4` calls) and the
concatenation of the chunks it handed out is exactly `c`. -/
theorem roundtrip_any_chunking (b c rest : Bytes) (k0 : Nat) (ks : List Nat)
    (hcr : (13 : UInt8) ∉ b)
    (hfree : ∀ j, isPrefix (CRLF ++ b) ((CRLF ++ c).drop j) = false)
    (hks : ∀ k ∈ ks, (CRLF ++ b).length ≤ k) (hlen : c.length + 4 ≤ ks.length) :
    absRead (CRLF ++ b) ks (CRLF ++ (c ++ (CRLF ++ b) ++ rest).take k0) true
      ((c ++ (CRLF ++ b) ++ rest).drop k0) [] = some c := by
  have hd := delim_after_content b c rest hcr hfree
  have h := absRead_correct hd ks [] (CRLF ++ (c ++ (CRLF ++ b) ++ rest).take k0)
    ((c ++ (CRLF ++ b) ++ rest).drop k0) [] true
    (by simp only [List.nil_append, List.append_assoc, List.take_append_drop])
    (by simp) rfl
    (fun _ => ⟨rfl, by simp [CRLF]⟩) (fun h => by cases h) hks (by simp; omega)
  rw [h]
  have : (CRLF ++ c ++ (CRLF ++ b) ++ rest).take (c.length + 2) = CRLF ++ c := by
    have hl : (CRLF ++ c).length = c.length + 2 := by
      simp only [CRLF, List.length_append, List.length_cons, List.length_nil]; omega
    rw [List.append_assoc (CRLF ++ c), List.take_append_of_le_length (by omega)]
    exact List.take_of_length_le (by omega)
  rw [this]
  simp [CRLF]

/-! ## base64 alignment -/

/-- **Alignment loses nothing**: the chunk handed out followed by the new carry is the input. -/
theorem b64_align_conserves (chunk : Bytes) (size : Nat) (atEnd : Bool) :
    (alignB64 chunk size atEnd).1 ++ (alignB64 chunk size atEnd).2 = chunk := by
  unfold alignB64
  split
  next c0 carry0 heq =>
    have h0 : c0 ++ carry0 = chunk := by
      split at heq <;> injection heq with h1 h2 <;> subst h1 <;> subst h2 <;> simp
    simp only
    split
    · exact h0
    · split
      · exact h0
      · simp only [← List.append_assoc, List.take_append_drop]; exact h0

/-- **Alignment before the end of a part**: the chunk handed out holds whole base64 quartets —
or fewer than four base64 characters altogether (the escape `if not cut: return chunk`;
this second case is reachable and is the recorded finding, see `b64_short_chunk_not_aligned`). -/
theorem b64_align_quartets (chunk : Bytes) (size : Nat) :
    b64count (alignB64 chunk size false).1 % 4 = 0 ∨ b64count (alignB64 chunk size false).1 < 4 := by
  unfold alignB64
  split
  next c0 carry0 _ =>
    simp only [Bool.or_false]
    by_cases hrem : b64count c0 % 4 = 0
    · left; simp [hrem]
    · have hr : (decide (b64count c0 % 4 = 0)) = false := by simpa using hrem
      simp only [hr, Bool.false_eq_true, if_false]
      obtain ⟨m, hm, hw, hb⟩ := walkBack_spec c0.reverse (b64count c0 % 4)
        (by rw [b64count_reverse]; exact Nat.mod_le _ _)
      simp only [List.length_reverse] at hm hw
      rw [hw]
      by_cases hcut : c0.length - m = 0
      · right
        simp only [hcut, if_true]
        have hmm : m = c0.length := by omega
        rw [hmm, ← List.length_reverse, List.take_length, b64count_reverse] at hb
        have := Nat.mod_lt (b64count c0) (by decide : 4 > 0)
        omega
      · left
        simp only [hcut, if_false]
        have hsplit := b64count_append (c0.take (c0.length - m)) (c0.drop (c0.length - m))
        rw [List.take_append_drop] at hsplit
        have hdrop : b64count (c0.drop (c0.length - m)) = b64count c0 % 4 := by
          rw [← hb, List.take_reverse, b64count_reverse]
        omega

/-- **Finding (kernel-checked on the model): a short read defeats the alignment.** With the
stream delivering one base64 character at a time, `_align_base64_chunk` hands out a
one-character chunk, which is not decodable on its own. -/
theorem b64_short_chunk_not_aligned :
    (alignB64 [65] 8192 false).1 = [65] ∧ b64count (alignB64 [65] 8192 false).1 % 4 = 1 := by
  decide +kernel

/-! ## truthful size -/

/-- **A declared size is the number of bytes written.** Whenever `MultipartWriter.size` is not
`None` and `write` succeeds, the body written has exactly that many bytes — for every
boundary, every number of parts, every header block and content. -/
theorem size_truthful (isForm : Bool) (b : Bytes) (parts : List Appended) (n : Nat) (w : Bytes)
    (hs : sizeOf b parts = some n) (hw : writeParts isForm b parts = .ok w) : w.length = n := by
  induction parts generalizing n w with
  | nil =>
    simp only [sizeOf, Option.some.injEq] at hs
    simp only [writeParts, Except.ok.injEq] at hw
    subst hs; subst hw
    simp [closeDelimiter, dashBoundary, CRLF]; omega
  | cons a t ih =>
    simp only [sizeOf] at hs
    split at hs
    · cases hs
    · next henc =>
      split at hs
      · next bh m hbh hm =>
        injection hs with hs
        simp only [writeParts] at hw
        split at hw
        · cases hw
        · next x hx =>
          split at hw
          · cases hw
          · next y hy =>
            injection hw with hw
            have hy' := ih m y hm hy
            simp only [writePart] at hx
            split at hx
            · cases hx
            · rw [hbh] at hx
              simp only [Except.ok.injEq] at hx
              have hcomp : a.compressed = false ∧ a.te = .none := by
                simp only [Bool.or_eq_true, decide_eq_true_eq, not_or, ne_eq, Decidable.not_not] at henc
                exact ⟨by simpa using henc.1, henc.2⟩
              have hbody : encodeBody a = a.content := by
                simp [encodeBody, pieces, hcomp.1, hcomp.2]
              subst hw; subst hx; subst hs
              rw [hbody]
              simp [dashBoundary, CRLF, hy']; omega
      · cases hs

/-- **The size follows every later change of a part.** `size` and `write` are functions of the
writer's *current* parts: after the header block of an already appended part is changed
(`part.headers[name] = value`, `set_content_disposition`, …) — with any parts before and after
it, nested writers included as parts — a declared size is again exactly the number of bytes
written. (An implementation that remembers an earlier answer violates this; the harness drives
writer histories with size queries in between and compares every answer with `sizeOf`.) -/
theorem size_truthful_after_header_change (isForm : Bool) (b : Bytes) (pre post : List Appended)
    (a : Appended) (name value : Bytes) (n : Nat) (w : Bytes)
    (hs : sizeOf b (pre ++ { a with headers := setHeader a.headers name value } :: post) = some n)
    (hw : writeParts isForm b (pre ++ { a with headers := setHeader a.headers name value } :: post) = .ok w) :
    w.length = n :=
  size_truthful isForm b _ n w hs hw

/-- a size is declared exactly when no part is compressed or transfer-encoded -/
theorem size_declared_iff_plain (b : Bytes) (parts : List Appended)
    (hh : ∀ a ∈ parts, (binaryHeaders a.headers).isSome = true) :
    (sizeOf b parts).isSome = true ↔ ∀ a ∈ parts, a.compressed = false ∧ a.te = .none := by
  induction parts with
  | nil => simp [sizeOf]
  | cons a t ih =>
    have iht := ih (fun x hx => hh x (by simp [hx]))
    have ha := hh a (by simp)
    simp only [sizeOf]
    constructor
    · intro h
      split at h
      · simp at h
      · next henc =>
        simp only [Bool.or_eq_true, decide_eq_true_eq, not_or, ne_eq, Decidable.not_not] at henc
        intro x hx
        rcases List.mem_cons.mp hx with rfl | hx
        · exact ⟨by simpa using henc.1, henc.2⟩
        · split at h
          · next _ m _ hm => exact iht.mp (by simp [hm]) x hx
          · simp at h
    · intro h
      have h1 := h a (by simp)
      have h2 := iht.mpr (fun x hx => h x (by simp [hx]))
      simp [h1.1, h1.2]
      cases hb : binaryHeaders a.headers with
      | none => simp [hb] at ha
      | some bh =>
        cases hs : sizeOf b t with
        | none => simp [hs] at h2
        | some m => simp

/-! ## file-like parts: every write replays the same bytes -/

/-- the start position is either not yet recorded (and the file still stands there) or recorded as `k` -/
def IOPayload.Anchored (p : IOPayload) (k : Nat) : Prop :=
  (p.start = none ∧ p.pos = k) ∨ p.start = some k

theorem IOPayload.size_anchored (p : IOPayload) (k : Nat) (h : p.Anchored k)
    (hf : p.fixedSize = none ∨ p.fixedSize = some (p.buf.length - k)) :
    p.size.1 = p.buf.length - k ∧ p.size.2.Anchored k ∧ p.size.2.buf = p.buf ∧ p.size.2.fixedSize = p.fixedSize := by
  unfold IOPayload.size
  rcases hf with hf | hf
  · rw [hf]
    rcases h with ⟨hs, hp⟩ | hs
    · simp [hs, hp, IOPayload.Anchored, hf]
    · simp [hs, IOPayload.Anchored, hf]
  · rw [hf]; exact ⟨rfl, h, rfl, hf⟩

theorem IOPayload.write_anchored (p : IOPayload) (k : Nat) (h : p.Anchored k) :
    p.write.1 = p.buf.drop k ∧ p.write.2.Anchored k ∧ p.write.2.buf = p.buf ∧ p.write.2.fixedSize = p.fixedSize := by
  unfold IOPayload.write IOPayload.setOrRestore
  rcases h with ⟨hs, hp⟩ | hs
  · simp [hs, hp, IOPayload.Anchored]
  · simp [hs, IOPayload.Anchored]

/-- **A file-like part is written identically every time, and its size is truthful.** For a payload
built from a file-like object positioned at `k` (a file or a `BytesIO`), whatever sequence of
size queries and writes follows (first write, retry, redirect, size asked before or after):
every write emits exactly the bytes from position `k` to the end, and every size query answers
exactly their number. (Restoring to any position other than the recorded one breaks this.) -/
theorem io_payload_replays (buf : Bytes) (k : Nat) (bytesIO : Bool) (ops : List IOOp) :
    ∀ o ∈ (IOPayload.create buf k bytesIO).run ops,
      o = .size (buf.length - k) ∨ o = .data (buf.drop k) := by
  have key : ∀ (ops : List IOOp) (p : IOPayload), p.Anchored k → p.buf = buf →
      (p.fixedSize = none ∨ p.fixedSize = some (buf.length - k)) →
      ∀ o ∈ p.run ops, o = .size (buf.length - k) ∨ o = .data (buf.drop k) := by
    intro ops
    induction ops with
    | nil => intro p _ _ _ o ho; simp [IOPayload.run] at ho
    | cons op ops ih =>
      intro p ha hb hf o ho
      cases op with
      | size =>
        obtain ⟨h1, h2, h3, h4⟩ := p.size_anchored k ha (by rw [hb]; exact hf)
        simp only [IOPayload.run, List.mem_cons] at ho
        rcases ho with rfl | ho
        · left; rw [h1, hb]
        · exact ih _ h2 (by rw [h3, hb]) (by rw [h4]; exact hf) o ho
      | write =>
        obtain ⟨h1, h2, h3, h4⟩ := p.write_anchored k ha
        simp only [IOPayload.run, List.mem_cons] at ho
        rcases ho with rfl | ho
        · right; rw [h1, hb]
        · exact ih _ h2 (by rw [h3, hb]) (by rw [h4]; exact hf) o ho
  apply key ops
  · left; simp [IOPayload.create]
  · simp [IOPayload.create]
  · cases bytesIO <;> simp [IOPayload.create]

/-! ## termination -/

/-- streams whose pending segments are all non-empty (the transport never delivers `b""`) -/
def Stream.NoEmpty (s : Stream) : Prop := ∀ x ∈ s.pending, x ≠ []

theorem setChunk_fields (s : Stream) (n : Nat) :
    (s.setChunk n).pending = s.pending ∧ (s.setChunk n).buf = s.buf ∧ (s.setChunk n).eof = s.eof
      ∧ (s.setChunk n).eofWithLast = s.eofWithLast := by
  unfold Stream.setChunk; split <;> simp

theorem fill_noEmpty (s : Stream) (hs : s.NoEmpty) : s.fill.NoEmpty := by
  unfold Stream.fill
  split
  · exact hs
  · split
    · exact hs
    · intro x hx; simp at hx
    · next y r _ heq => intro x hx; exact hs x (by rw [heq]; simp at hx ⊢; right; exact hx)

theorem read_noEmpty (s : Stream) (n : Nat) (hs : s.NoEmpty) : (s.read n).2.NoEmpty := by
  unfold Stream.read
  split
  · exact hs
  · have h1 : (s.setChunk n).NoEmpty := by
      intro x hx; rw [(setChunk_fields s n).1] at hx; exact hs x hx
    have h2 := fill_noEmpty _ h1
    intro x hx; exact h2 x hx

/-- after `fill`, an empty buffer means EOF (no segment is empty) -/
theorem fill_empty_eof (s : Stream) (hs : s.NoEmpty) (h : s.fill.buf = []) : s.fill.eof = true := by
  unfold Stream.fill at h ⊢
  split
  · next hc =>
    simp only [hc, if_true] at h
    simp only [Bool.or_eq_true, Bool.not_eq_true', List.isEmpty_eq_false_iff] at hc
    rcases hc with hc | hc
    · exact absurd h hc
    · exact hc
  · next hc =>
    simp only [hc] at h
    split
    · rfl
    · next x heq => simp only [heq] at h; exact absurd h (hs x (by rw [heq]; simp))
    · next x r _ heq => simp only [heq] at h; exact absurd h (hs x (by rw [heq]; simp))

/-- a read of a positive size that returns nothing has hit EOF -/
theorem read_empty_atEof (s : Stream) (n : Nat) (hn : 0 < n) (hs : s.NoEmpty)
    (h : (s.read n).1 = []) : (s.read n).2.atEof = true := by
  unfold Stream.read at h ⊢
  have hn0 : n ≠ 0 := by omega
  simp only [hn0, if_false] at h ⊢
  have h1 : (s.setChunk n).NoEmpty := by
    intro x hx; rw [(setChunk_fields s n).1] at hx; exact hs x hx
  have hb : (s.setChunk n).fill.buf = [] := by
    rcases List.take_eq_nil_iff.mp h with h | h
    · omega
    · exact h
  have := fill_empty_eof _ h1 hb
  simp [Stream.atEof, this, hb]

/-- **The gathering loop terminates.** The `while len(chunk) < boundary_len` loop of
`_read_chunk_from_stream` never exhausts the fuel `boundary_len + 2` the model gives it: every
iteration either appends at least one byte or meets EOF (which ends the loop, or raises
"Reading after EOF" the third time). The loop cannot spin, whatever the segmentation. -/
theorem gather_terminates (blen size : Nat) (hsz : 0 < size) :
    ∀ (fuel : Nat) (chunk : Bytes) (ce : Nat) (s : Stream), s.NoEmpty → 0 < fuel →
      blen + 1 ≤ fuel + chunk.length → gather blen size fuel chunk ce s ≠ .error .fuel := by
  intro fuel
  induction fuel with
  | zero => intro _ _ _ _ h0; omega
  | succ f ih =>
    intro chunk ce s hs _ hf
    unfold gather
    by_cases hlt : chunk.length < blen
    · simp only [hlt, if_true]
      cases hq : (s.read size).2.atEof with
      | true =>
        simp only [if_true]
        split
        · intro h; cases h
        · split
          · intro h; cases h
          · next _ h2 => exact absurd (by omega : ce + 1 > 0) h2
      | false =>
        simp only [Bool.false_eq_true, if_false, Nat.add_zero]
        split
        · intro h; cases h
        · split
          · intro h; cases h
          · have hnonempty : (s.read size).1 ≠ [] := by
              intro hc
              have := read_empty_atEof s size hsz hs hc
              rw [hq] at this; cases this
            have hpos : 0 < (s.read size).1.length := List.length_pos_iff.mpr hnonempty
            apply ih _ _ _ (read_noEmpty s size hs) (by omega)
            simp; omega
    · simp only [hlt, if_false]; intro h; cases h

/-- the fuel `_read_chunk_from_stream`'s model passes to the loop is always enough -/
theorem gather_fuel_enough (blen size ce : Nat) (s : Stream) (hsz : 0 < size) (hs : s.NoEmpty) :
    gather blen size (blen + 2) [] ce s ≠ .error .fuel :=
  gather_terminates blen size hsz (blen + 2) [] ce s hs (by omega) (by simp)

/-- **Bounded re-reading after EOF.** Once the stream is at EOF, every further gathering loop
either raises "Reading after EOF" or increases `_content_eof`; the counter never exceeds 2 in a
successful call. So at most two calls can succeed after the stream has ended. -/
theorem gather_eof_counter (blen size fuel ce : Nat) (chunk : Bytes) (s : Stream) (hsz : 0 < size)
    (heof : s.atEof = true) (hlt : chunk.length < blen) :
    gather blen size (fuel + 1) chunk ce s = .error .value ∨
    ∃ c s', gather blen size (fuel + 1) chunk ce s = .ok (c, ce + 1, s') ∧ ce + 1 ≤ 2 := by
  have hr : (s.read size).2.atEof = true := by
    unfold Stream.read
    have hn0 : size ≠ 0 := by omega
    simp only [hn0, if_false]
    simp only [Stream.atEof, Bool.and_eq_true, List.isEmpty_iff] at heof
    have hf : (s.setChunk size).fill = s.setChunk size := by
      unfold Stream.fill
      simp [(setChunk_fields s size).2.2.1, heof.1]
    rw [hf]
    simp [Stream.atEof, (setChunk_fields s size).2.2.1, (setChunk_fields s size).2.1, heof.1, heof.2]
  unfold gather
  simp only [hlt, if_true, hr]
  by_cases h2 : ce + 1 > 2
  · left; simp [h2]
  · right
    exact ⟨chunk ++ (s.read size).1, (s.read size).2, by simp [h2], by omega⟩

/- Full statement (NOT proved):

  theorem reader_terminates (cfg script descend) (f : Frame) (s : Stream) (hs : s.NoEmpty) :
      Ev.err .fuel ∉ drive cfg script descend (s.rem.length + 100) [(f, false)] s 0 []

i.e. the whole drive loop (next / read / read_chunk / readline / release over nested readers)
never exhausts a fuel linear in the unread bytes.  What is missing: the measure argument
(unread bytes + `_prev_chunk` + 3 − `_content_eof`, lexicographically) through `Part.readChunk`,
`Part.readLoop`, `Frame.next` and `drive`.  Proved instead: the innermost loop (the only one
that re-reads the stream without handing anything out) cannot spin, and after EOF at most two
more calls succeed; the outer loops are covered by correspondence (`E_FUEL` would be a
mismatch) and by the step counter on the implementation. -/

/-- **Termination, partial.** For every stream without empty segments, every boundary length,
every positive read size and every value of the EOF counter: (1) the gathering loop of
`_read_chunk_from_stream` ends within `boundary_len + 2` iterations; (2) once the stream is at
EOF each further call either raises "Reading after EOF" or bumps `_content_eof`, which a
successful call never leaves above 2. -/
theorem reader_terminates_partial (blen size ce : Nat) (s : Stream) (hsz : 0 < size) (hs : s.NoEmpty) :
    gather blen size (blen + 2) [] ce s ≠ .error .fuel ∧
    (s.atEof = true → 0 < blen →
      gather blen size (blen + 2) [] ce s = .error .value ∨
      ∃ c s', gather blen size (blen + 2) [] ce s = .ok (c, ce + 1, s') ∧ ce + 1 ≤ 2) :=
  ⟨gather_fuel_enough blen size ce s hsz hs,
   fun heof hb => gather_eof_counter blen size (blen + 1) ce [] s hsz heof (by simpa using hb)⟩

/-! ## Non-vacuity -/

/-- the hypotheses of `roundtrip_any_chunking` are satisfiable: content `a\r\n-` with boundary
`--b`, first read of 1 byte and fresh chunks of exactly `|sub|` = 5 bytes -/
example : absRead (CRLF ++ [45, 45, 98]) [5, 5, 5, 5, 5, 5, 5, 5]
    (CRLF ++ ([97, 13, 10, 45] ++ (CRLF ++ [45, 45, 98]) ++ [45, 45, 13, 10]).take 1) true
    (([97, 13, 10, 45] ++ (CRLF ++ [45, 45, 98]) ++ [45, 45, 13, 10]).drop 1) [] = some [97, 13, 10, 45] := by
  decide +kernel

example : ∀ j, j ≤ 6 → isPrefix (CRLF ++ [45, 45, 98]) ((CRLF ++ [97, 13, 10, 45]).drop j) = false := by
  decide

/-- a reachable stream satisfies `NoEmpty` -/
example : ({ buf := [], pending := [[1], [2, 3]] } : Stream).NoEmpty := by
  intro x hx; simp at hx; rcases hx with rfl | rfl <;> simp

/-- `size_truthful` is not vacuous: one plain part gets a size, and it is the length written -/
example : sizeOf [98] [⟨[([65], [66])], [1, 2, 3], false, .none, [], [], []⟩] = some 25 ∧
    (match writeParts false [98] [⟨[([65], [66])], [1, 2, 3], false, .none, [], [], []⟩] with
      | .ok w => w.length | .error _ => 0) = 25 := by
  decide +kernel

end Aio.C19
