import AioModel.C19
/-! # C19 — property theorems (placeholder while the model is validated) -/
namespace Aio.C19
end Aio.C19
