import AioProps.C04Lemmas
/-!
# C04 — property theorems (outbound messages: no structure injection; truthful framing)

Model: `AioModel/C04.lean` (= `aiohttp/http_writer.py`).  Every statement quantifies over
all code-point strings / all byte strings / all operation sequences of the stated shape.
-/
namespace Aio.C04
open Aio

/-- The generated forbidden-character table (re-extracted from the source on every run)
covers CR, LF, NUL and every other C0 control except HTAB, and DEL. -/
theorem forbidden_covers_cr_lf :
    forbidden 13 = true ∧ forbidden 10 = true ∧ forbidden 0 = true ∧
    ∀ c, (c < 32 ∧ c ≠ 9 ∨ c = 127) → forbidden c = true :=
  ⟨forbidden_ctl 13 (by omega), forbidden_ctl 10 (by omega), forbidden_ctl 0 (by omega), forbidden_ctl⟩

/-- Serialisation succeeds exactly when every supplied string is free of forbidden
characters and the block is encodable. -/
theorem serialize_ok_iff (st : Str) (hs : List (Str × Str)) :
    (∃ bs, serialize st hs = .ok bs) ↔
      (safeHeader st = true ∧ (∀ kv ∈ hs, safeHeader kv.1 = true ∧ safeHeader kv.2 = true) ∧
        (utf8 (serializeStr st hs)).isSome = true) := by
  unfold serialize
  constructor
  · rintro ⟨bs, h⟩
    split at h
    · cases h
    · next h1 =>
      split at h
      · cases h
      · next h2 =>
        split at h
        · next b hb =>
          refine ⟨by simpa using h1, ?_, by simp [hb]⟩
          intro kv hkv
          simp at h2
          exact h2 kv.1 kv.2 hkv
        · cases h
  · rintro ⟨h1, h2, h3⟩
    have e1 : (!safeHeader st) = false := by simp [h1]
    have e2 : hs.any (fun kv => !safeHeader kv.1 || !safeHeader kv.2) = false := by
      simp
      intro a b hab
      exact h2 (a, b) hab
    cases hu : utf8 (serializeStr st hs) with
    | none => simp [hu] at h3
    | some bs => exact ⟨bs, by simp [e1, e2]⟩

/-- **No structure injection.** If a header block is written at all, then splitting the
bytes at CRLF yields exactly: the supplied start line, one line per supplied header (in
order, `name ": " value`), and the two empty strings that end the block — and no line
contains a bare CR or LF. No supplied string can add a line, a header or a second message. -/
theorem serialize_lines (st : Str) (hs : List (Str × Str)) (bs : Bytes)
    (h : serialize st hs = .ok bs) (hne : hs ≠ []) :
    ∃ sb lb, utf8 st = some sb ∧ hs.map (fun kv => utf8 (headerLine kv)) = lb.map some ∧
      splitCRLF bs [] = sb :: lb ++ [[], []] ∧
      (∀ l ∈ sb :: lb, (13 : UInt8) ∉ l ∧ (10 : UInt8) ∉ l) := by
  have hok := (serialize_ok_iff st hs).mp ⟨bs, h⟩
  obtain ⟨hst, hhs, _⟩ := hok
  unfold serialize at h
  simp [hst] at h
  split at h
  · cases h
  · split at h
    · next b hb =>
      injection h with h; subst h
      unfold serializeStr at hb
      rw [List.append_assoc, List.append_assoc] at hb
      obtain ⟨sb, y, hsb, hy, hbs⟩ := utf8_append_some _ _ _ hb
      obtain ⟨c, z, hc, hz, hy2⟩ := utf8_append_some _ _ _ hy
      rw [utf8_crlf] at hc; injection hc with hc; subst hc; subst hy2; subst hbs
      have hl13 : ∀ l ∈ hs.map headerLine, 13 ∉ l := by
        intro l hl
        obtain ⟨kv, hkv, rfl⟩ := List.mem_map.mp hl
        have ⟨hk, hv⟩ := hhs kv hkv
        unfold headerLine
        simp [(safe_no_cr_lf _ hk).1, (safe_no_cr_lf _ hv).1]
      have hl10 : ∀ l ∈ hs.map headerLine, 10 ∉ l := by
        intro l hl
        obtain ⟨kv, hkv, rfl⟩ := List.mem_map.mp hl
        have ⟨hk, hv⟩ := hhs kv hkv
        unfold headerLine
        simp [(safe_no_cr_lf _ hk).2, (safe_no_cr_lf _ hv).2]
      obtain ⟨lb, hf, hsplit⟩ := split_join (hs.map headerLine) z (by simpa using hne) hl13 hz
      have hf' : hs.map (fun kv => utf8 (headerLine kv)) = lb.map some := by
        rw [← hf, List.map_map]; rfl
      refine ⟨sb, lb, hsb, hf', ?_, ?_⟩
      · have h13 := (safe_bytes st sb hst hsb).1
        have : sb ++ ([13, 10] ++ z) = sb ++ 13 :: 10 :: z := by simp
        rw [this, splitCRLF_no_cr sb z [] h13, hsplit]; simp
      · intro l hl
        rcases List.mem_cons.mp hl with hl | hl
        · subst hl; exact safe_bytes st l hst hsb
        · -- l is the encoding of some header line
          have : some l ∈ lb.map some := List.mem_map.mpr ⟨l, hl, rfl⟩
          rw [← hf] at this
          obtain ⟨s, hs', hsl⟩ := List.mem_map.mp this
          constructor
          · intro hm; exact hl13 s hs' (utf8_low_byte s l hsl 13 hm (by decide))
          · intro hm; exact hl10 s hs' (utf8_low_byte s l hsl 10 hm (by decide))
    · cases h

/-- **Refused before any byte reaches the transport.** `write_headers` never writes, and when
serialisation is refused the writer state is unchanged (nothing buffered either). -/
theorem serialize_error_writes_nothing (w : W) (st : Str) (hs : List (Str × Str)) :
    (step w (.writeHeaders st hs)).1.out = w.out ∧
    (∀ e, serialize st hs = .error e →
      (step w (.writeHeaders st hs)).1 = w ∧ (step w (.writeHeaders st hs)).2 = some (.header e)) := by
  constructor
  · simp only [step]; split <;> rfl
  · intro e he; simp [step, he]


/-! ## Truthful framing -/

/-- **Reference decoding of the chunked wire format.** For every list of written chunks
(any sizes, empty ones included) followed by the terminator, the strict RFC 9112 chunked
decoder returns exactly the concatenation of the data and consumes exactly the body. -/
theorem decode_encodeChunks (ds : List Bytes) (rest : Bytes) :
    decodeChunked ((encodeChunks ds ++ lastChunk).length + 1) (encodeChunks ds ++ lastChunk ++ rest)
      = some (ds.flatten, rest) := by
  apply decode_encodeChunks_fuel
  have := nonEmptyCount_le ds
  simp; omega

/-- body-phase operations of an application: `write(d)` and `send_headers()` in any order -/
inductive BodyOp where
  | write (d : Bytes)
  | send

def BodyOp.toOp : BodyOp → Op
  | .write d => .write d []
  | .send => .sendHeaders

def BodyOp.data : BodyOp → Bytes
  | .write d => d
  | .send => []

theorem run_body_chunked (w : W) (hw : ChunkedReady w) (ops : List BodyOp) :
    let r := run w (ops.map BodyOp.toOp)
    ChunkedReady r.1 ∧ (∀ e ∈ r.2, e = none) ∧
    flushed r.1 = flushed w ++ encodeChunks (ops.map BodyOp.data) := by
  induction ops generalizing w with
  | nil => simp [run, encodeChunks]; exact hw
  | cons op ops ih =>
    cases op with
    | write d =>
      obtain ⟨h1, h2, h3⟩ := step_write_chunked w hw d []
      obtain ⟨i1, i2, i3⟩ := ih _ h2
      simp only [List.map_cons, BodyOp.toOp, run]
      refine ⟨i1, ?_, ?_⟩
      · intro e he
        rcases List.mem_cons.mp he with he | he
        · rw [he]; exact h1
        · exact i2 e he
      · rw [i3, h3]; simp [encodeChunks, BodyOp.data]
    | send =>
      obtain ⟨h1, h2, h3⟩ := step_send_chunked w hw
      obtain ⟨i1, i2, i3⟩ := ih _ h2
      simp only [List.map_cons, BodyOp.toOp, run]
      refine ⟨i1, ?_, ?_⟩
      · intro e he
        rcases List.mem_cons.mp he with he | he
        · rw [he]; exact h1
        · exact i2 e he
      · rw [i3, h3]; simp [encodeChunks, BodyOp.data, frameOf]

/-- how an application ends a message: `write_eof(d)` or `set_eof()` -/
def finOp : Option Bytes → Op
  | some d => .writeEof d [] []
  | none => .setEof

/-- **Chunked output decodes to exactly the written data.** For every writer that has its
header block (buffered or already sent) and is in chunked mode, and every program of
`write`/`send_headers` calls (any chunk sizes, any order) ended by `write_eof(d)` or
`set_eof()`: no call fails, the message is marked complete, and the bytes on the wire are
the header block followed by a body which the reference chunked decoder maps back to the
concatenation of the written data with nothing left over. -/
theorem chunked_roundtrip (w : W) (hw : ChunkedReady w) (ops : List BodyOp) (fin : Option Bytes) :
    let r := run w (ops.map BodyOp.toOp ++ [finOp fin])
    ∃ body, r.1.out = flushed w ++ body ∧ r.1.eof = true ∧ (∀ e ∈ r.2, e = none) ∧
      decodeChunked (body.length + 1) body
        = some ((ops.map BodyOp.data).flatten ++ fin.getD [], []) := by
  have run_append : ∀ (w : W) (a b : List Op),
      run w (a ++ b) = ((run (run w a).1 b).1, (run w a).2 ++ (run (run w a).1 b).2) := by
    intro w a b
    induction a generalizing w with
    | nil => simp [run]
    | cons x xs ih => simp [run, ih]
  obtain ⟨h1, h2, h3⟩ := run_body_chunked w hw ops
  simp only [run_append]
  cases fin with
  | some d =>
    obtain ⟨e1, e2, e3⟩ := step_writeEof_chunked _ h1 d [] []
    refine ⟨encodeChunks (ops.map BodyOp.data ++ [d]) ++ lastChunk, ?_, ?_, ?_, ?_⟩
    · simp [finOp, run, e3, h3, encodeChunks]
    · simpa [finOp, run] using e2
    · intro e he
      rcases List.mem_append.mp he with he | he
      · exact h2 e he
      · simp [finOp, run] at he; rw [he]; exact e1
    · have := decode_encodeChunks (ops.map BodyOp.data ++ [d]) []
      simpa using this
  | none =>
    obtain ⟨e1, e2, e3⟩ := step_setEof_chunked _ h1
    refine ⟨encodeChunks (ops.map BodyOp.data) ++ lastChunk, ?_, ?_, ?_, ?_⟩
    · simp [finOp, run, e3, h3]
    · simpa [finOp, run] using e2
    · intro e he
      rcases List.mem_append.mp he with he | he
      · exact h2 e he
      · simp [finOp, run] at he; rw [he]; exact e1
    · have := decode_encodeChunks (ops.map BodyOp.data) []
      simpa using this

/-- what was written, as a list of chunks: the `write` calls, then the `write_eof(d)` data -/
def writtenChunks (ops : List BodyOp) (fin : Option Bytes) : List Bytes :=
  ops.map BodyOp.data ++ (match fin with | some d => [d] | none => [])

/-- **The exact wire form of a chunked message**: header block, one frame per non-empty write,
the last-chunk. (`chunked_roundtrip` is this followed by the reference decoder.) -/
theorem chunked_wire (w : W) (hw : ChunkedReady w) (ops : List BodyOp) (fin : Option Bytes) :
    let r := run w (ops.map BodyOp.toOp ++ [finOp fin])
    r.1.out = flushed w ++ (encodeChunks (writtenChunks ops fin) ++ lastChunk) ∧ r.1.eof = true ∧
      (∀ e ∈ r.2, e = none) := by
  have run_append : ∀ (w : W) (a b : List Op),
      run w (a ++ b) = ((run (run w a).1 b).1, (run w a).2 ++ (run (run w a).1 b).2) := by
    intro w a b
    induction a generalizing w with
    | nil => simp [run]
    | cons x xs ih => simp [run, ih]
  obtain ⟨h1, h2, h3⟩ := run_body_chunked w hw ops
  simp only [run_append]
  cases fin with
  | some d =>
    obtain ⟨e1, e2, e3⟩ := step_writeEof_chunked _ h1 d [] []
    refine ⟨?_, ?_, ?_⟩
    · simp [finOp, run, e3, h3, encodeChunks, writtenChunks]
    · simpa [finOp, run] using e2
    · intro e he
      rcases List.mem_append.mp he with he | he
      · exact h2 e he
      · simp [finOp, run] at he; rw [he]; exact e1
  | none =>
    obtain ⟨e1, e2, e3⟩ := step_setEof_chunked _ h1
    refine ⟨?_, ?_, ?_⟩
    · simp [finOp, run, e3, h3, writtenChunks]
    · simpa [finOp, run] using e2
    · intro e he
      rcases List.mem_append.mp he with he | he
      · exact h2 e he
      · simp [finOp, run] at he; rw [he]; exact e1

/-- **No premature terminator.** Before end-of-message, the body bytes on the wire never
contain anything but complete non-empty chunks: in particular `write(b"")` emits no body
byte (a zero-size chunk would end the message early). -/
theorem no_premature_terminator (w : W) (hw : ChunkedReady w) (ops : List BodyOp) :
    flushed (run w (ops.map BodyOp.toOp)).1 = flushed w ++ encodeChunks (ops.map BodyOp.data) ∧
    (flushed (run w ([BodyOp.write []].map BodyOp.toOp)).1 = flushed w) := by
  refine ⟨(run_body_chunked w hw ops).2.2, ?_⟩
  have := (run_body_chunked w hw [BodyOp.write []]).2.2
  simpa [encodeChunks, BodyOp.data, frameOf] using this


/-- **A declared length is honoured.** For a writer with `length = n` (identity coding) and
any program of `write`/`send_headers` calls, the body bytes on the wire are exactly the
first `n` bytes of the written data — never more, whatever the chunk sizes — and the
remaining allowance is `n` minus the bytes offered (truncated at 0). In particular, when the
application writes exactly the declared number of bytes, exactly those bytes are sent. -/
theorem length_truthful (w : W) (n : Nat) (hw : LengthReady w n) (ops : List BodyOp) :
    let r := run w (ops.map BodyOp.toOp)
    (∀ e ∈ r.2, e = none) ∧
    flushed r.1 = flushed w ++ ((ops.map BodyOp.data).flatten).take n ∧
    r.1.length = some (n - ((ops.map BodyOp.data).flatten).length) := by
  induction ops generalizing w n with
  | nil => simp [run]; exact hw.len
  | cons op ops ih =>
    cases op with
    | write d =>
      obtain ⟨h1, h2, h3⟩ := step_write_length w n hw d []
      obtain ⟨i1, i2, i3⟩ := ih _ _ h2
      simp only [List.map_cons, BodyOp.toOp, run]
      refine ⟨?_, ?_, ?_⟩
      · intro e he
        rcases List.mem_cons.mp he with he | he
        · rw [he]; exact h1
        · exact i1 e he
      · rw [i2, h3]; simp [BodyOp.data, List.take_append]
      · rw [i3]; simp [BodyOp.data]; omega
    | send =>
      obtain ⟨h1, h2, h3⟩ := step_send_length w n hw
      obtain ⟨i1, i2, i3⟩ := ih _ _ h2
      simp only [List.map_cons, BodyOp.toOp, run]
      refine ⟨?_, ?_, ?_⟩
      · intro e he
        rcases List.mem_cons.mp he with he | he
        · rw [he]; exact h1
        · exact i1 e he
      · rw [i2, h3]; simp [BodyOp.data]
      · rw [i3]; simp [BodyOp.data]

/-! ## Non-vacuity: concrete reachable states satisfy the hypotheses -/

/-- after `write_headers` + `enable_chunking` on a fresh writer the hypotheses of
`chunked_roundtrip` hold -/
example : ChunkedReady (run {} [.writeHeaders [72] [([65], [98])], .enableChunking]).1 := by
  refine ⟨by decide, by decide, by decide, by decide, by decide, Or.inr ⟨_, rfl, by decide, by decide⟩⟩

example : LengthReady (run {} [.writeHeaders [72] [([65], [98])], .setLength (some 3)]).1 3 := by
  refine ⟨by decide, by decide, by decide, by decide, Or.inr ⟨_, rfl, by decide, by decide⟩⟩

/-- a concrete injection attempt is refused, and a benign block is accepted -/
example : (match serialize [72] [([65], [98, 13, 10, 88, 58, 49])] with | .error .forbidden => true | _ => false) = true := by decide
example : (match serialize [72] [([65], [98, 9, 0xE9])] with | .ok bs => bs.length | _ => 0) = 14 := by decide

end Aio.C04
