import AioProps.C01
import AioProps.C03Main
/-!
# C01 at the level of whole streams

`stream_messages_strict`: every request the parser delivers while reading ANY byte stream in
ANY segmentation (each `feed_data` call is a `feedLoop` run) has a head that is a strict
RFC 9112 reading of some CRLF-delimited lines: strict request line, strict field lines in order,
no singleton header twice.
-/
namespace Aio.Http
open Aio

def Ev.isMsg : Ev → Bool
  | .msg _ _ => true
  | _ => false

def NoMsg (l : List Ev) : Prop := ∀ e ∈ l, e.isMsg = false

theorem noMsg_append {a b : List Ev} (ha : NoMsg a) (hb : NoMsg b) : NoMsg (a ++ b) := by
  intro e he
  rcases List.mem_append.mp he with he | he
  · exact ha e he
  · exact hb e he

theorem noMsg_nil : NoMsg [] := by intro e he; cases he
theorem noMsg_eof : NoMsg [.eof] := by intro e he; simp at he; subst he; rfl
theorem noMsg_begin : NoMsg [.beginChunk] := by intro e he; simp at he; subst he; rfl
theorem noMsg_end : NoMsg [.endChunk] := by intro e he; simp at he; subst he; rfl

theorem dataEv_no_msg (bs : Bytes) : NoMsg (dataEv bs) := by
  unfold dataEv NoMsg; split <;> simp [Ev.isMsg]

/-- a continuation that adds no message events -/
def KNoMsg (k : LoopK) : Prop := ∀ p c evs, NoMsg evs → NoMsg (k p c evs).2

theorem chunkEofStep_no_msg (cfg : Cfg) (k : LoopK) (hk : KNoMsg k) : KNoMsg (chunkEofStep cfg k) := by
  intro p chunk evs h
  unfold chunkEofStep
  simp only []
  repeat' split
  all_goals first | exact hk _ _ _ h | exact h

theorem trailersStep_no_msg (cfg : Cfg) (k : LoopK) (hk : KNoMsg k) : KNoMsg (trailersStep cfg k) := by
  intro p chunk evs h
  unfold trailersStep
  simp only []
  repeat' split
  all_goals first | exact hk _ _ _ h | exact h | exact noMsg_append h noMsg_eof

theorem chunkStep_no_msg (cfg : Cfg) (k : LoopK) (hk : KNoMsg k) : KNoMsg (chunkStep cfg k) := by
  intro p chunk evs h
  unfold chunkStep
  simp only []
  have h1 : NoMsg (evs ++ dataEv (chunk.take p.chunkSize)) := noMsg_append h (dataEv_no_msg _)
  split
  · exact h1
  · exact chunkEofStep_no_msg cfg k hk _ _ _ (noMsg_append h1 noMsg_end)

theorem sizeStep_no_msg (cfg : Cfg) (k : LoopK) (hk : KNoMsg k) : KNoMsg (sizeStep cfg k) := by
  intro p chunk evs h
  unfold sizeStep
  simp only []
  repeat' split
  all_goals first
    | exact h
    | exact trailersStep_no_msg cfg k hk _ _ _ h
    | exact chunkStep_no_msg cfg k hk _ _ _ (noMsg_append h noMsg_begin)

/-- the chunked body parser never emits message events -/
theorem chunkedLoop_no_msg (cfg : Cfg) : ∀ (fuel : Nat), KNoMsg (chunkedLoop cfg fuel) := by
  intro fuel
  induction fuel with
  | zero => intro p chunk evs h; simpa [chunkedLoop] using h
  | succ n ih =>
    intro p chunk evs h
    rw [chunkedLoop]
    repeat' split
    · exact h
    · exact sizeStep_no_msg cfg _ ih _ _ _ h
    · exact chunkStep_no_msg cfg _ ih _ _ _ h
    · exact chunkEofStep_no_msg cfg _ ih _ _ _ h
    · exact trailersStep_no_msg cfg _ ih _ _ _ h

theorem payloadFeed_no_msg (cfg : Cfg) (p : PState) (chunk : Bytes) :
    NoMsg (payloadFeed cfg p chunk).2 := by
  unfold payloadFeed
  repeat' (first | split | (dsimp only; split))
  all_goals first
    | exact noMsg_nil
    | exact dataEv_no_msg _
    | exact noMsg_append (dataEv_no_msg _) noMsg_eof
    | exact chunkedLoop_no_msg cfg _ _ _ _ noMsg_nil

end Aio.Http

namespace Aio.Http
open Aio

/-- a delivered request event whose head is a strict reading -/
def StrictEv (e : Ev) : Prop :=
  match e with
  | .msg m _ => ∃ line rest, StrictRequestLine line m.method m.path m.vmajor m.vminor ∧
                  FieldsOf rest m.headers ∧ NoSingletonDup m.headers
  | _ => True

theorem strictEv_of_noMsg {l : List Ev} (h : NoMsg l) : ∀ e ∈ l, StrictEv e := by
  intro e he
  have := h e he
  cases e <;> simp_all [Ev.isMsg, StrictEv]

/-- the events emitted when a header block is closed: the parsed message (strict), possibly eof -/
theorem onHeaderBlock_evs_strict (cfg : Cfg) (hreq : cfg.response = false) (hstrict : cfg.lax = false)
    (urlOk : Bool → Bytes → Bool) (st st' : St) (lines : List Bytes) (evs : List Ev) (sc : Bool)
    (h : onHeaderBlock cfg urlOk st lines = .ok (st', evs, sc)) : ∀ e ∈ evs, StrictEv e := by
  unfold onHeaderBlock at h
  simp only [hreq, Bool.false_eq_true, if_false] at h
  cases hp : parseRequest cfg urlOk lines with
  | error e => simp [hp] at h
  | ok msg =>
    have hs : StrictEv (.msg msg true) ∧ StrictEv (.msg msg false) := by
      cases lines with
      | nil => simp [parseRequest] at hp
      | cons line rest =>
        have := accepted_request_is_strict cfg hstrict urlOk line rest msg hp
        exact ⟨⟨line, rest, this⟩, ⟨line, rest, this⟩⟩
    have close : ∀ l : List Ev, (∀ e ∈ l, e = .msg msg true ∨ e = .msg msg false ∨ e = .eof) →
        ∀ e ∈ l, StrictEv e := by
      intro l hl e he
      rcases hl e he with rfl | rfl | rfl
      · exact hs.1
      · exact hs.2
      · simp [StrictEv]
    simp only [hp] at h
    repeat' (first | split at h | (dsimp only at h; split at h))
    all_goals first
      | (simp only [Except.ok.injEq, Prod.mk.injEq] at h
         obtain ⟨_, h2, _⟩ := h
         subst h2
         apply close
         simp)
      | cases h

/-- every event of one loop iteration is strict -/
theorem stepOnce_evs_strict (cfg : Cfg) (hreq : cfg.response = false) (hstrict : cfg.lax = false)
    (urlOk : Bool → Bytes → Bool) (st : St) (d : Bytes) :
    match stepOnce cfg urlOk st d with
    | .stop o => ∀ e ∈ o.evs, StrictEv e
    | .cont _ _ ev => ∀ e ∈ ev, StrictEv e := by
  unfold stepOnce
  cases hp : st.payload with
  | none =>
    simp only []
    by_cases hu : st.upgraded = true
    · simp [hu]
    simp only [hu]
    cases hf : findSep cfg.lax d with
    | none =>
      simp only [Bool.false_eq_true, if_false]
      unfold partialLine
      repeat' split
      all_goals simp
    | some pos =>
      simp only [Bool.false_eq_true, if_false]
      by_cases h0 : (pos == 0 && st.lines.isEmpty) = true
      · simp [h0]
      simp only [h0]
      by_cases hsc : st.shouldClose = true
      · simp [hsc]
      simp only [hsc]
      cases hal : acceptLine cfg st (d.take pos) with
      | error e => simp
      | ok lines =>
        simp only [Bool.false_eq_true, if_false]
        by_cases hle : (lines.getLast?.getD []).isEmpty = true
        · simp only [hle, if_true]
          cases hob : onHeaderBlock cfg urlOk st lines with
          | error e => simp
          | ok r =>
            obtain ⟨s1, e1, sc⟩ := r
            simp only []
            exact onHeaderBlock_evs_strict cfg hreq hstrict urlOk st s1 lines e1 sc hob
        · simp [hle]
  | some p =>
    simp only []
    have hn := payloadFeed_no_msg cfg p d
    cases hpf : payloadFeed cfg p d with
    | mk r pevs =>
      rw [hpf] at hn
      simp only at hn
      have hperr : ∀ e, NoMsg (pevs ++ [Ev.payloadErr e]) := fun e =>
        noMsg_append hn (by intro x hx; simp at hx; subst hx; rfl)
      cases r with
      | needs p' => exact strictEv_of_noMsg hn
      | complete rest => exact strictEv_of_noMsg hn
      | err e rr =>
        cases rr
        · exact strictEv_of_noMsg (hperr e)
        · exact strictEv_of_noMsg (hperr e)

/-- **Every request delivered from any byte stream, in any segmentation, is a strict reading.**
(`acc` are the events of earlier calls; each `feed_data` call is one `feedLoop` run.) -/
theorem stream_messages_strict (cfg : Cfg) (hreq : cfg.response = false) (hstrict : cfg.lax = false)
    (urlOk : Bool → Bytes → Bool) :
    ∀ (f : Nat) (st : St) (d : Bytes) (acc : List Ev), (∀ e ∈ acc, StrictEv e) →
      ∀ e ∈ (feedLoop cfg urlOk f st d acc).evs, StrictEv e := by
  intro f
  induction f with
  | zero => intro st d acc h; simpa [feedLoop] using h
  | succ n ih =>
    intro st d acc h
    by_cases hd : d = []
    · subst hd; rw [feedLoop_nil]; exact h
    · rw [feedLoop_succ cfg urlOk n st d acc hd]
      have hstep := stepOnce_evs_strict cfg hreq hstrict urlOk st d
      cases hs : stepOnce cfg urlOk st d with
      | stop o =>
        rw [hs] at hstep
        simp only [] at hstep ⊢
        intro e he
        rcases List.mem_append.mp he with he | he
        · exact h e he
        · exact hstep e he
      | cont st' d' ev =>
        rw [hs] at hstep
        simp only [] at hstep ⊢
        have hacc : ∀ e ∈ acc ++ ev, StrictEv e := by
          intro e he
          rcases List.mem_append.mp he with he | he
          · exact h e he
          · exact hstep e he
        split
        · exact ih st' d' (acc ++ ev) hacc
        · exact hacc

end Aio.Http

namespace Aio.Http
open Aio

/-- one `feed_data` call -/
theorem feed_messages_strict (cfg : Cfg) (hreq : cfg.response = false) (hstrict : cfg.lax = false)
    (urlOk : Bool → Bytes → Bool) (st : St) (d : Bytes) :
    ∀ e ∈ (feed cfg urlOk st d).evs, StrictEv e := by
  unfold feed
  split
  · simp
  · exact stream_messages_strict cfg hreq hstrict urlOk _ _ _ [] (by simp)

/-- `feed_eof()` delivers at most one more request, also strict -/
theorem feedEof_messages_strict (cfg : Cfg) (hreq : cfg.response = false) (hstrict : cfg.lax = false)
    (urlOk : Bool → Bytes → Bool) (st : St) :
    ∀ e ∈ (feedEof cfg urlOk st).1, StrictEv e := by
  unfold feedEof
  simp only [hreq, Bool.false_eq_true, if_false]
  by_cases hf : st.failed = true
  · simp [hf]
  simp only [hf]
  cases hp : st.payload with
  | some p =>
    simp only []
    repeat' split
    all_goals (intro e he; simp at he; try (subst he; simp [StrictEv]))
  | none =>
    simp only []
    generalize (if st.tail.isEmpty = true then st.lines else st.lines ++ [st.tail]) = l0
    by_cases hl0 : l0.isEmpty = true
    · simp [hl0]
    · simp only [hl0, if_false, Bool.false_eq_true]
      generalize hl : l0 ++ [[]] = lines
      cases hm : parseRequest cfg urlOk lines with
      | error e => simp
      | ok m =>
        intro e he
        simp at he
        subst he
        cases lines with
        | nil => simp [parseRequest] at hm
        | cons line rest => exact ⟨line, rest, accepted_request_is_strict cfg hstrict urlOk line rest m hm⟩

/-- all events of a connection: the reads in order, then (optionally) end of stream -/
def runEvents (cfg : Cfg) (urlOk : Bool → Bytes → Bool) : St → List Bytes → Bool → List Ev
  | st, [], eof => if eof then (feedEof cfg urlOk st).1 else []
  | st, d :: ds, eof =>
    let o := feed cfg urlOk st d
    if o.err.isSome then o.evs else o.evs ++ runEvents cfg urlOk o.st ds eof

/-- **C01 for whole connections.** Whatever bytes arrive, in whatever reads, from whatever
parser state, every request the strict server-side parser ever hands to the application has a
request line and header block that are strict readings (`HttpSpec`). -/
theorem run_messages_strict (cfg : Cfg) (hreq : cfg.response = false) (hstrict : cfg.lax = false)
    (urlOk : Bool → Bytes → Bool) (st : St) (ds : List Bytes) (eof : Bool) :
    ∀ e ∈ runEvents cfg urlOk st ds eof, StrictEv e := by
  induction ds generalizing st with
  | nil =>
    unfold runEvents
    split
    · exact feedEof_messages_strict cfg hreq hstrict urlOk st
    · simp
  | cons d ds ih =>
    unfold runEvents
    simp only []
    split
    · exact feed_messages_strict cfg hreq hstrict urlOk st d
    · intro e he
      rcases List.mem_append.mp he with he | he
      · exact feed_messages_strict cfg hreq hstrict urlOk st d e he
      · exact ih _ e he

end Aio.Http

namespace Aio.Http
/-- Non-vacuity: `GET / HTTP/1.1 CRLF Host: a CRLF CRLF`, delivered as two reads cut inside the
version, is handed to the application (so the theorem speaks about a real delivery), and the
default configuration is the strict request parser. -/
example : ((runEvents {} (fun _ _ => true) {} [[71, 69, 84, 32, 47, 32, 72, 84],
    [84, 80, 47, 49, 46, 49, 13, 10, 72, 111, 115, 116, 58, 32, 97, 13, 10, 13, 10]] false).any Ev.isMsg) = true
    ∧ ({} : Cfg).response = false ∧ ({} : Cfg).lax = false := by
  decide +kernel
end Aio.Http

/-! ## chunk-size lines -/
namespace Aio.Http
open Aio

theorem findByte_split (c : UInt8) (a : Bytes) (p : Nat) (h : findByte c a = some p) :
    c ∉ a.take p ∧ (a.drop p).head? = some c := by
  induction a generalizing p with
  | nil => simp [findByte] at h
  | cons x t ih =>
    simp only [findByte] at h
    split at h
    · next hx => simp at h; subst h; simp [hx]
    · next hx =>
      simp at h; obtain ⟨q, hq, rfl⟩ := h
      obtain ⟨h1, h2⟩ := ih q hq
      refine ⟨?_, by simpa using h2⟩
      simp only [List.take_succ_cons, List.mem_cons, not_or]
      exact ⟨fun e => hx e.symm, h1⟩

/-- **An accepted chunk-size line is strict** (strict mode): `1*HEXDIG`, optionally followed by
a chunk extension that starts with `;` and contains neither LF nor CR; the size is the value of
the digits. -/
theorem chunk_size_line_strict (cfg : Cfg) (hs : cfg.lax = false) (line : Bytes) (n : Nat)
    (h : chunkSizeOf cfg line = some n) :
    ∃ digits ext, line = digits ++ ext ∧ digits ≠ [] ∧ (∀ b ∈ digits, isHexB b = true) ∧
      ofHex digits = some n ∧ (ext = [] ∨ (ext.head? = some 59 ∧ (10 : UInt8) ∉ ext ∧ (13 : UInt8) ∉ ext)) := by
  unfold chunkSizeOf at h
  simp only [hs, Bool.false_eq_true, if_false] at h
  cases hf : findByte 59 line with
  | none =>
    simp only [hf, Bool.false_eq_true, if_false] at h
    by_cases hc : (line.isEmpty || !line.all isHexB) = true
    · simp [hc] at h
    · simp only [hc, if_false] at h
      simp only [Bool.or_eq_true, not_or, Bool.not_eq_true', Bool.not_eq_eq_eq_not, Bool.not_true, Bool.not_eq_false] at hc
      refine ⟨line, [], by simp, ?_, ?_, h, Or.inl rfl⟩
      · intro e; subst e; simp at hc
      · have := hc.2
        simpa [List.all_eq_true] using this
  | some i =>
    simp only [hf] at h
    obtain ⟨_, hhead⟩ := findByte_split 59 line i hf
    by_cases hbad : ((line.drop i).any (fun b => b == 10 || (!false && b == 13))) = true
    · rw [if_pos hbad] at h; cases h
    · rw [if_neg hbad] at h
      by_cases hc : ((line.take i).isEmpty || !(line.take i).all isHexB) = true
      · simp [hc] at h
      · simp only [hc, if_false] at h
        simp only [Bool.or_eq_true, not_or, Bool.not_eq_true', Bool.not_eq_eq_eq_not, Bool.not_true, Bool.not_eq_false] at hc
        refine ⟨line.take i, line.drop i, by simp, ?_, ?_, h, Or.inr ⟨hhead, ?_, ?_⟩⟩
        · intro e; rw [e] at hc; simp at hc
        · have := hc.2
          simpa [List.all_eq_true] using this
        · intro hm
          apply hbad
          simp only [List.any_eq_true]
          exact ⟨10, hm, by simp⟩
        · intro hm
          apply hbad
          simp only [List.any_eq_true]
          exact ⟨13, hm, by simp⟩

end Aio.Http
