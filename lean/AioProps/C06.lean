import AioProps.C06Lemmas
import AioModel.C06Http
/-!
# C06 — property theorems (client connection reuse never mixes responses)

Model: `AioModel/C06.lean` (one connection = `ResponseHandler` + pool status),
`AioModel/C06World.lean` (session).  All statements hold for **every** parser (`P : Parser`):
they are about the plumbing between parser, protocol queue, pool and caller.
-/
namespace Aio.C06
open Aio
variable {P : Parser}

/-- **dirty ⇒ closed at release.** Whatever `should_close` sees at release time — the close
flag (peer asked for it, connection lost, exception, timeout), an unfinished body stream, an
upgrade, a stored exception, queued surplus messages, buffered tail bytes — or an explicit
`Connection.close()` (error / cancel / `resp.close()` paths) or `force_close`: the connection
is closed and is not put into the pool. -/
theorem release_dirty_closes (c : Conn P) (now : Nat) (fc explicit : Bool)
    (h : fc = true ∨ explicit = true ∨ c.shouldClose = true ∨ c.upgraded = true ∨ c.exc.isSome = true ∨
         c.buffer ≠ [] ∨ c.tail ≠ [] ∨ (∃ p, c.payload = some p ∧ c.payEof p = false)) :
    (c.release now fc explicit).connected = false ∧ (c.release now fc explicit).pooled = none := by
  have hs : (fc || explicit || c.shouldCloseProp) = true := by
    rcases h with h | h | h | h | h | h | h | ⟨p, hp, he⟩
    · simp [h]
    · simp [h]
    · simp [Conn.shouldCloseProp, h]
    · simp [Conn.shouldCloseProp, h]
    · simp [Conn.shouldCloseProp, h]
    · simp [Conn.shouldCloseProp, h]
    · simp [Conn.shouldCloseProp, h]
    · simp [Conn.shouldCloseProp, hp, he]
  unfold Conn.release Conn.releaseCore
  simp only [hs, if_true]
  exact Conn.protoClose_closed _

/-- **closed ⇒ never handed out.** `_get` never returns a connection whose transport is gone
or closing, nor one that is not in the pool. -/
theorem closed_never_acquired (c : Conn P) (k : Key) (j now ka : Nat) (fix : Bool)
    (h : c.connected = false ∨ c.pooled = none) : (c.tryAcquire k j now ka fix).2 = false := by
  unfold Conn.tryAcquire Conn.reusable
  rcases h with h | h
  · cases hp : c.pooled <;> simp [h]
    all_goals (split <;> simp)
  · simp [h]

/-- **closing ⇒ never handed out.** From the moment the transport has started closing (peer
FIN read, fatal error, `transport.close()` after garbage on an idle connection) - even while
`connection_lost` has not been delivered and `self.transport` is still set - `_get` does not
hand the connection out: the reuse decision looks at `is_closing()`, not only at `transport`. -/
theorem closing_never_acquired (c : Conn P) (k : Key) (j now ka : Nat) (fix : Bool) :
    (c.beginClose.tryAcquire k j now ka fix).2 = false :=
  closed_never_acquired _ k j now ka fix (Or.inl (beginClose_not_connected c))

/-- **same key.** A pooled connection is handed out only to a request whose connection key
(host, port, TLS flag, TLS settings, proxy, proxy-header hash, server name) equals the key
the connection was opened under. -/
theorem tryAcquire_same_key (c : Conn P) (k : Key) (j now ka : Nat) (fix : Bool)
    (h : (c.tryAcquire k j now ka fix).2 = true) :
    c.key = k ∧ (c.tryAcquire k j now ka fix).1.key = k ∧ (c.tryAcquire k j now ka fix).1.owner = some j := by
  by_cases hk : c.key = k ∧ c.reusable now ka fix = true
  · simp [Conn.tryAcquire, hk]
  · unfold Conn.tryAcquire at h
    rw [if_neg hk] at h
    split at h <;> simp at h

/-- With the candidate repair, a connection is handed out only if, at that moment,
`should_close` is false and the old parser holds no bytes of an unfinished message: in
particular its message queue and its tail buffer are empty. -/
theorem acquired_clean_fixed (c : Conn P) (k : Key) (j now ka : Nat)
    (h : (c.tryAcquire k j now ka true).2 = true) :
    c.shouldCloseProp = false ∧ c.parserPending = false ∧ c.buffer = [] ∧ c.tail = [] := by
  unfold Conn.tryAcquire at h
  split at h
  · next hk =>
    have hr := hk.2
    unfold Conn.reusable at hr
    cases hp : c.pooled with
    | none => simp [hp] at hr
    | some t =>
      simp [hp] at hr
      have h1 := hr.2.1
      have h2 := hr.2.2
      refine ⟨h1, h2, ?_, ?_⟩
      · unfold Conn.shouldCloseProp at h1
        simp at h1
        exact h1.1.2
      · unfold Conn.shouldCloseProp at h1
        simp at h1
        exact h1.2
  · split at h <;> simp at h

/-! ## all histories of one connection -/

theorem shouldCloseProp_false_empty (c : Conn P) (h : c.shouldCloseProp = false) : c.buffer = [] ∧ c.tail = [] := by
  unfold Conn.shouldCloseProp at h
  simp at h
  exact ⟨h.1.2, h.2⟩

theorem setResponseParams_clean (c : Conn P) (now : Nat) (fc skip : Bool) (h : c.tail = []) :
    (c.setResponseParams now fc skip).1 =
      { c with skip := skip, parser := some (P.init skip), ptags := [], cur := none, pj := c.owner, tailTags := [] } := by
  unfold Conn.setResponseParams
  simp [h]

/-- head-provenance invariant of the single-connection machine, relative to the ghost flag
"never handed out with a non-empty queue or tail" -/
def HInv (s : CS P) : Prop :=
  s.dirtyAcq = false → OwnInv s.c ∧ ∀ h ∈ s.heads, ∀ t ∈ h.2, t = some h.1

theorem dirtyAcq_mono (g : CCfg) (s : CS P) (op : COp) (h : (cstep g s op).dirtyAcq = false) : s.dirtyAcq = false := by
  cases op with
  | acquire k j skip =>
    simp only [cstep, cAcquire] at h
    split at h
    · cases hd : s.dirtyAcq
      · rfl
      · simp [hd] at h
    · exact h
  | recv d => simp only [cstep] at h; split at h <;> exact h
  | pop => simp only [cstep] at h; split at h <;> exact h
  | release e => simp only [cstep] at h; split at h <;> exact h
  | lost os => exact h
  | tick d => exact h
  | beginClose => exact h
  | hold => exact h

theorem HInv_step (g : CCfg) (s : CS P) (op : COp) (hs : HInv s) : HInv (cstep g s op) := by
  intro hd
  obtain ⟨ho, hh⟩ := hs (dirtyAcq_mono g s op hd)
  cases op with
  | acquire k j skip =>
    simp only [cstep, cAcquire] at hd ⊢
    split
    · next hr =>
      rw [if_pos hr] at hd
      have hd' : (s.dirtyAcq || !s.c.buffer.isEmpty || !s.c.tail.isEmpty) = false := hd
      have hb : s.c.buffer = [] := by
        cases hbb : s.c.buffer with
        | nil => rfl
        | cons a t => simp [hbb] at hd'
      have ht : s.c.tail = [] := by
        cases htt : s.c.tail with
        | nil => rfl
        | cons a t => simp [htt] at hd'
      refine ⟨?_, hh⟩
      -- the connection that is handed out has an empty queue and tail, and gets a fresh parser
      have hclean := setResponseParams_clean ({ s.c with pooled := none, owner := some j } : Conn P)
        s.now g.forceClose skip ht
      show OwnInv ((acqResult g s.c k j s.now).1.setResponseParams s.now g.forceClose skip).1
      rw [acqResult_ok g s.c k j s.now hr, hclean]
      intro j' _
      exact ⟨by simp, by simp, by simp [hb]⟩
    · next hr =>
      have hr' : (acqResult g s.c k j s.now).2 = false := by simpa using hr
      exact ⟨ho.frame (acqResult_fail g s.c k j s.now hr'), hh⟩
  | recv d =>
    simp only [cstep]
    split
    · exact ⟨ownInv_dataReceived _ _ _ _ ho, hh⟩
    · exact ⟨ho, hh⟩
  | pop =>
    simp only [cstep]
    split
    · next j q c' hj hp =>
      unfold Conn.popHead at hp
      split at hp
      · next q0 rest hb =>
        simp at hp
        obtain ⟨hq, hc'⟩ := hp
        subst hq; subst hc'
        obtain ⟨a1, a2, a3⟩ := ho j hj
        have hin : OwnInv ({ s.c with buffer := rest } : Conn P) := by
          intro j' hj'
          obtain ⟨b1, b2, b3⟩ := ho j' hj'
          refine ⟨b1, b2, ?_⟩
          intro q hq
          exact b3 q (by rw [hb]; exact List.mem_cons_of_mem _ hq)
        refine ⟨hin.frame (frame_onEof _ _ _ _), ?_⟩
        intro h hmem
        simp only [List.mem_append, List.mem_singleton] at hmem
        rcases hmem with hmem | hmem
        · exact hh h hmem
        · rw [hmem]; exact a3 q0 (by rw [hb]; exact List.mem_cons_self)
      · simp at hp
    · exact ⟨ho, hh⟩
  | release e =>
    simp only [cstep]
    split
    · exact ⟨ho.frame (frame_release _ _ _ _).1, hh⟩
    · exact ⟨ho, hh⟩
  | lost os =>
    simp only [cstep]
    refine ⟨?_, hh⟩
    unfold Conn.connectionLost
    split
    · exact ho
    · exact ho.frame (frame_lostCore _ _)
  | tick d => exact ⟨ho, hh⟩
  | beginClose => exact ⟨ho.frame (frame_beginClose _), hh⟩
  | hold => exact ⟨ho.frame ⟨rfl, rfl, rfl, rfl, rfl, Or.inl rfl⟩, hh⟩

theorem HInv_run (g : CCfg) (ops : List COp) (s : CS P) (hs : HInv s) : HInv (crun g s ops) := by
  induction ops generalizing s with
  | nil => exact hs
  | cons op rest ih => exact ih _ (HInv_step g s op hs)

/-- a connection as `_create_connection` returns it (bytes may already have arrived on it:
they sit in `_tail`, tagged "nobody") -/
def CS.fresh (k : Key) (early : Bytes) : CS P :=
  { c := if early.isEmpty then { key := k }
         else { key := k, tail := early, tailTags := [none], stale := true } }

theorem HInv_fresh (k : Key) (early : Bytes) : HInv (CS.fresh (P := P) k early) := by
  intro _
  refine ⟨?_, by simp [CS.fresh]⟩
  intro j hj
  unfold CS.fresh at hj
  split at hj <;> simp at hj

/-- **response heads from own bytes — unchanged code, `_partial`.**  For every history of
acquire / receive / pop / release / close / loss / time steps on one connection, with any
parser and any bytes: if the connection was never handed out at a moment when its message
queue or its tail buffer was non-empty (ghost flag `dirtyAcq`), then every response head a
caller was given on it was produced by a parser that, up to then, had consumed only chunks
that arrived while that caller's exchange held the connection.
Missing for the full statement: the hypothesis is false on the unchanged code
(`cex_unsolicited_while_idle`, `cex_surplus_same_read`, `cex_bytes_before_first_request`);
body streams are covered by the ghost comparison of the correspondence run, not by this
induction. -/
theorem own_bytes_conn_partial (g : CCfg) (k : Key) (early : Bytes) (ops : List COp)
    (hclean : (crun (P := P) g (CS.fresh k early) ops).dirtyAcq = false) :
    ∀ h ∈ (crun (P := P) g (CS.fresh k early) ops).heads, ∀ t ∈ h.2, t = some h.1 :=
  (HInv_run g ops _ (HInv_fresh k early) hclean).2

theorem acqResult_fixed_clean (g : CCfg) (hg : g.fix = true) (c : Conn P) (k : Key) (j now : Nat)
    (h : (acqResult g c k j now).2 = true) : c.buffer = [] ∧ c.tail = [] := by
  unfold acqResult at h
  split at h
  · have := acquired_clean_fixed c k j now g.keepalive (by rw [hg] at h; exact h)
    exact ⟨this.2.2.1, this.2.2.2⟩
  · split at h
    · next hf =>
      simp [hg] at hf
      exact shouldCloseProp_false_empty _ hf.2
    · simp at h

theorem dirtyAcq_fixed (g : CCfg) (hg : g.fix = true) (s : CS P) (op : COp) (h : s.dirtyAcq = false) :
    (cstep g s op).dirtyAcq = false := by
  cases op with
  | acquire k j skip =>
    simp only [cstep, cAcquire]
    split
    · next hr =>
      have := acqResult_fixed_clean g hg s.c k j s.now hr
      simp [h, this.1, this.2]
    · exact h
  | recv d => simp only [cstep]; split <;> exact h
  | pop => simp only [cstep]; split <;> exact h
  | release e => simp only [cstep]; split <;> exact h
  | lost os => exact h
  | tick d => exact h
  | beginClose => exact h
  | hold => exact h

theorem dirtyAcq_fixed_run (g : CCfg) (hg : g.fix = true) (ops : List COp) (s : CS P) (h : s.dirtyAcq = false) :
    (crun g s ops).dirtyAcq = false := by
  induction ops generalizing s with
  | nil => exact h
  | cons op rest ih => exact ih _ (dirtyAcq_fixed g hg s op h)

/-- **response heads from own bytes — with the candidate repair, all histories.**  If `_get`
re-checks `should_close` (and a new connection that already needs closing is refused), then
for every history on one connection, every parser and all bytes — including bytes before the
first request, while idle, and beyond the end of a response — every response head handed to
a caller stems only from chunks that arrived while that caller's exchange held the
connection. -/
theorem own_bytes_conn (g : CCfg) (hg : g.fix = true) (k : Key) (early : Bytes) (ops : List COp) :
    ∀ h ∈ (crun (P := P) g (CS.fresh k early) ops).heads, ∀ t ∈ h.2, t = some h.1 :=
  own_bytes_conn_partial g k early ops (dirtyAcq_fixed_run g hg ops _ (by unfold CS.fresh; split <;> rfl))

/-- non-vacuity: a history with two exchanges on one reused connection satisfies the
hypothesis of `own_bytes_conn_partial` and delivers two heads -/
example :
    let s := crun (P := toyParser) { fix := false } (CS.fresh k0 [])
      [.acquire k0 0 false, .recv [4], .pop, .tick 1, .acquire k0 1 false, .recv [1, 2], .pop, .recv [3]]
    s.dirtyAcq = false ∧ s.heads.length = 2 ∧ s.c.pooled.isSome = true := by decide +kernel

/-- …and the unchanged code violates it on the single-connection machine as well: an idle
arrival makes the next acquisition dirty and the head delivered to exchange 1 foreign -/
example :
    let s := crun (P := toyParser) { fix := false } (CS.fresh k0 [])
      [.acquire k0 0 false, .recv [4], .pop, .recv [4], .acquire k0 1 false, .pop]
    s.dirtyAcq = true ∧ s.heads.getLast? = some (1, [some 0, none]) := by decide +kernel

/-- `BaseConnector._get`: whatever entry the loop over the pool returns for a request with key
`k` by exchange `j` was opened under exactly `k`, and is now held by `j`. -/
theorem getLoop_same_key (l : List Nat) (w w' : World P) (k : Key) (j c : Nat)
    (h : World.getLoop w k j l = (w', some c)) :
    ∃ cn, w'.conns[c]? = some cn ∧ cn.key = k ∧ cn.owner = some j := by
  induction l generalizing w with
  | nil => simp [World.getLoop] at h
  | cons a rest ih =>
    unfold World.getLoop at h
    split at h
    · exact ih w h
    · next cn hcn =>
      split at h
      · next hk =>
        cases hta : cn.tryAcquire k j w.now w.cfg.keepalive w.cfg.fix with
        | mk cn' ok =>
          simp only [hta] at h
          cases ok with
          | true =>
            simp at h
            obtain ⟨hw, hc⟩ := h
            subst hc; subst hw
            have hsk := tryAcquire_same_key cn k j w.now w.cfg.keepalive w.cfg.fix (by rw [hta])
            rw [hta] at hsk
            refine ⟨cn', ?_, hsk.2.1, hsk.2.2⟩
            have hlt : a < w.conns.length := by
              have := (List.getElem?_eq_some_iff.mp hcn).1
              exact this
            simp [World.setConn, hlt]
          | false =>
            simp at h
            exact ih _ h
      · exact ih w h

/-! ## tables and tokens the reuse decision depends on -/

/-- **Where a response ends.** The table `EMPTY_BODY_STATUS_CODES` (regenerated from the source on
every run) that lets the parser end a response at the empty line and lets the protocol hand
out `EMPTY_PAYLOAD` is exactly RFC 9112 §6.3: 1xx, 204, 304.  Any other status with
`Content-Length`/chunked content is read by its framing - otherwise its body bytes would be
left on the connection as "another response". -/
theorem emptyBody_rfc9112 :
    Gen.Http.emptyBodyStatus = [(100, 199), (204, 204), (304, 304)] ∧
    (List.range 1000).all (fun code =>
      Http.isEmptyBodyStatus code == (decide (100 ≤ code ∧ code < 200) || code == 204 || code == 304)) = true := by
  constructor
  · rfl
  · decide +kernel

/-- **Protocol switch spellings.** The parser model recognises the upgrade tokens
case-insensitively (`WebSocket`, `WEBSOCKET`, `TCP` …), so a `101` with any spelling marks the
connection upgraded, and an upgraded connection is closed at release (`release_dirty_closes`). -/
theorem upgrade_token_case_insensitive :
    Http.supportedUpgrade [(ascii "Upgrade", ascii "WebSocket")] = true ∧
    Http.supportedUpgrade [(ascii "upgrade", ascii "WEBSOCKET")] = true ∧
    Http.supportedUpgrade [(ascii "Upgrade", ascii "websocket")] = true ∧
    Http.supportedUpgrade [(ascii "Upgrade", ascii "TCP")] = true ∧
    Http.supportedUpgrade [(ascii "Upgrade", ascii "h2c")] = false := by
  decide +kernel

/-! ## Known findings: kernel-checked counterexamples on the model of the unchanged code
(`fix := false`), instantiated with the token parser `toyParser` -/
open World

/-- **Finding F6 (unchanged code).** A response that arrives while the connection idles in
the pool is queued by the previous exchange's parser and handed to the next request as its
answer: exchange 1 gets a head although no byte arrived while it held the connection, and
no second connection is opened. -/
theorem cex_unsolicited_while_idle :
    let w := run (P := toyParser) { cfg := {} } hUnsolicited
    w.phaseOf 1 = some .gotHead ∧ w.ownOK 1 = false ∧ w.usedOf 1 = [0] ∧ w.conns.length = 1 := by
  decide +kernel

/-- **Finding (unchanged code), no idle-time arrival needed.** When the read that completes
the body of response 0 also contains a complete further response, the eof callback releases
the connection to the pool *in the middle of* `data_received`; the surplus response is queued
afterwards and is delivered to the next request. All its bytes arrived during exchange 0. -/
theorem cex_surplus_same_read :
    let w := run (P := toyParser) { cfg := {} } hSurplusSameRead
    w.phaseOf 1 = some .gotHead ∧ w.ownOK 1 = false ∧ w.usedOf 1 = [0] ∧
      (match w.exchs[1]? with | some e => e.headProv | none => []) = [some 0, some 0] := by
  decide +kernel

/-- **Finding (unchanged code).** Bytes that reach a new connection before the first request
is handed to it are kept in `_tail` and replayed into that request's parser by
`set_response_params`: they become its response. -/
theorem cex_bytes_before_first_request :
    let w := run (P := toyParser) { cfg := {} } hEarly
    w.phaseOf 0 = some .gotHead ∧ w.ownOK 0 = false := by
  decide +kernel

/-- **Finding (unchanged code).** Bytes of an unfinished surplus message sit inside the old
parser, where `should_close` does not look: the connection is pooled and reused (the bytes
themselves are dropped with the old parser). -/
theorem cex_partial_surplus_reused :
    let w1 := run (P := toyParser) { cfg := {} } (hPartialSurplus.take 2)
    let w := run (P := toyParser) { cfg := {} } hPartialSurplus
    (match w1.conns[0]? with | some c => c.parserPending && c.pooled.isSome | none => false) = true ∧
      w.usedOf 1 = [0] ∧ w.ownOK 1 = true := by
  decide +kernel

/-- With the candidate repair (`fix := true`: `_get` re-checks `should_close` extended by
the parser's buffered bytes; a new connection that already needs closing is refused) the four
histories above end differently: the second request goes to a new connection, respectively
the first one is refused, and nobody receives foreign bytes. -/
theorem fixed_blocks_cex :
    (let w := run (P := toyParser) { cfg := { fix := true } } hUnsolicited
     w.usedOf 1 = [1] ∧ w.ownOK 1 = true) ∧
    (let w := run (P := toyParser) { cfg := { fix := true } } hSurplusSameRead
     w.usedOf 1 = [1] ∧ w.ownOK 1 = true) ∧
    (let w := run (P := toyParser) { cfg := { fix := true } } hEarly
     w.errOf 0 = some .dirty ∧ w.ownOK 0 = true) ∧
    (let w := run (P := toyParser) { cfg := { fix := true } } hPartialSurplus
     w.usedOf 1 = [1] ∧ w.ownOK 1 = true) := by
  decide +kernel

end Aio.C06
