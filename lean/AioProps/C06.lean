import AioProps.C06Lemmas
/-!
# C06 — property theorems (client connection reuse never mixes responses)

Model: `AioModel/C06.lean` (one connection = `ResponseHandler` + pool status),
`AioModel/C06World.lean` (session).  All statements hold for **every** parser (`P : Parser`):
they are about the plumbing between parser, protocol queue, pool and caller.
-/
namespace Aio.C06
open Aio
variable {P : Parser}

/-- **dirty ⇒ closed at release.** Whatever `should_close` sees at release time — the close
flag (peer asked for it, connection lost, exception, timeout), an unfinished body stream, an
upgrade, a stored exception, queued surplus messages, buffered tail bytes — or an explicit
`Connection.close()` (error / cancel / `resp.close()` paths) or `force_close`: the connection
is closed and is not put into the pool. -/
theorem release_dirty_closes (c : Conn P) (now : Nat) (fc explicit : Bool)
    (h : fc = true ∨ explicit = true ∨ c.shouldClose = true ∨ c.upgraded = true ∨ c.exc.isSome = true ∨
         c.buffer ≠ [] ∨ c.tail ≠ [] ∨ (∃ p, c.payload = some p ∧ c.payEof p = false)) :
    (c.release now fc explicit).connected = false ∧ (c.release now fc explicit).pooled = none := by
  have hs : (fc || explicit || c.shouldCloseProp) = true := by
    rcases h with h | h | h | h | h | h | h | ⟨p, hp, he⟩
    · simp [h]
    · simp [h]
    · simp [Conn.shouldCloseProp, h]
    · simp [Conn.shouldCloseProp, h]
    · simp [Conn.shouldCloseProp, h]
    · simp [Conn.shouldCloseProp, h]
    · simp [Conn.shouldCloseProp, h]
    · simp [Conn.shouldCloseProp, hp, he]
  unfold Conn.release Conn.releaseCore
  simp only [hs, if_true]
  exact Conn.protoClose_closed _

/-- **closed ⇒ never handed out.** `_get` never returns a connection whose transport is gone
or closing, nor one that is not in the pool. -/
theorem closed_never_acquired (c : Conn P) (k : Key) (j now ka : Nat) (fix : Bool)
    (h : c.connected = false ∨ c.pooled = none) : (c.tryAcquire k j now ka fix).2 = false := by
  unfold Conn.tryAcquire Conn.reusable
  rcases h with h | h
  · cases hp : c.pooled <;> simp [h]
    all_goals (split <;> simp)
  · simp [h]

/-- **same key.** A pooled connection is handed out only to a request whose connection key
(host, port, TLS flag, TLS settings, proxy, proxy-header hash, server name) equals the key
the connection was opened under. -/
theorem tryAcquire_same_key (c : Conn P) (k : Key) (j now ka : Nat) (fix : Bool)
    (h : (c.tryAcquire k j now ka fix).2 = true) :
    c.key = k ∧ (c.tryAcquire k j now ka fix).1.key = k ∧ (c.tryAcquire k j now ka fix).1.owner = some j := by
  by_cases hk : c.key = k ∧ c.reusable now ka fix = true
  · simp [Conn.tryAcquire, hk]
  · unfold Conn.tryAcquire at h
    rw [if_neg hk] at h
    split at h <;> simp at h

/-- With the candidate repair, a connection is handed out only if, at that moment,
`should_close` is false and the old parser holds no bytes of an unfinished message: in
particular its message queue and its tail buffer are empty. -/
theorem acquired_clean_fixed (c : Conn P) (k : Key) (j now ka : Nat)
    (h : (c.tryAcquire k j now ka true).2 = true) :
    c.shouldCloseProp = false ∧ c.parserPending = false ∧ c.buffer = [] ∧ c.tail = [] := by
  unfold Conn.tryAcquire at h
  split at h
  · next hk =>
    have hr := hk.2
    unfold Conn.reusable at hr
    cases hp : c.pooled with
    | none => simp [hp] at hr
    | some t =>
      simp [hp] at hr
      have h1 := hr.2.1
      have h2 := hr.2.2
      refine ⟨h1, h2, ?_, ?_⟩
      · unfold Conn.shouldCloseProp at h1
        simp at h1
        exact h1.1.2
      · unfold Conn.shouldCloseProp at h1
        simp at h1
        exact h1.2
  · split at h <;> simp at h

/-- `BaseConnector._get`: whatever entry the loop over the pool returns for a request with key
`k` by exchange `j` was opened under exactly `k`, and is now held by `j`. -/
theorem getLoop_same_key (l : List Nat) (w w' : World P) (k : Key) (j c : Nat)
    (h : World.getLoop w k j l = (w', some c)) :
    ∃ cn, w'.conns[c]? = some cn ∧ cn.key = k ∧ cn.owner = some j := by
  induction l generalizing w with
  | nil => simp [World.getLoop] at h
  | cons a rest ih =>
    unfold World.getLoop at h
    split at h
    · exact ih w h
    · next cn hcn =>
      split at h
      · next hk =>
        cases hta : cn.tryAcquire k j w.now w.cfg.keepalive w.cfg.fix with
        | mk cn' ok =>
          simp only [hta] at h
          cases ok with
          | true =>
            simp at h
            obtain ⟨hw, hc⟩ := h
            subst hc; subst hw
            have hsk := tryAcquire_same_key cn k j w.now w.cfg.keepalive w.cfg.fix (by rw [hta])
            rw [hta] at hsk
            refine ⟨cn', ?_, hsk.2.1, hsk.2.2⟩
            have hlt : a < w.conns.length := by
              have := (List.getElem?_eq_some_iff.mp hcn).1
              exact this
            simp [World.setConn, hlt]
          | false =>
            simp at h
            exact ih _ h
      · exact ih w h

/-! ## Known findings: kernel-checked counterexamples on the model of the unchanged code
(`fix := false`), instantiated with the token parser `toyParser` -/
open World

/-- **Finding F6 (unchanged code).** A response that arrives while the connection idles in
the pool is queued by the previous exchange's parser and handed to the next request as its
answer: exchange 1 gets a head although no byte arrived while it held the connection, and
no second connection is opened. -/
theorem cex_unsolicited_while_idle :
    let w := run (P := toyParser) { cfg := {} } hUnsolicited
    w.phaseOf 1 = some .gotHead ∧ w.ownOK 1 = false ∧ w.usedOf 1 = [0] ∧ w.conns.length = 1 := by
  decide +kernel

/-- **Finding (unchanged code), no idle-time arrival needed.** When the read that completes
the body of response 0 also contains a complete further response, the eof callback releases
the connection to the pool *in the middle of* `data_received`; the surplus response is queued
afterwards and is delivered to the next request. All its bytes arrived during exchange 0. -/
theorem cex_surplus_same_read :
    let w := run (P := toyParser) { cfg := {} } hSurplusSameRead
    w.phaseOf 1 = some .gotHead ∧ w.ownOK 1 = false ∧ w.usedOf 1 = [0] ∧
      (match w.exchs[1]? with | some e => e.headProv | none => []) = [some 0, some 0] := by
  decide +kernel

/-- **Finding (unchanged code).** Bytes that reach a new connection before the first request
is handed to it are kept in `_tail` and replayed into that request's parser by
`set_response_params`: they become its response. -/
theorem cex_bytes_before_first_request :
    let w := run (P := toyParser) { cfg := {} } hEarly
    w.phaseOf 0 = some .gotHead ∧ w.ownOK 0 = false := by
  decide +kernel

/-- **Finding (unchanged code).** Bytes of an unfinished surplus message sit inside the old
parser, where `should_close` does not look: the connection is pooled and reused (the bytes
themselves are dropped with the old parser). -/
theorem cex_partial_surplus_reused :
    let w1 := run (P := toyParser) { cfg := {} } (hPartialSurplus.take 2)
    let w := run (P := toyParser) { cfg := {} } hPartialSurplus
    (match w1.conns[0]? with | some c => c.parserPending && c.pooled.isSome | none => false) = true ∧
      w.usedOf 1 = [0] ∧ w.ownOK 1 = true := by
  decide +kernel

/-- With the candidate repair (`fix := true`: `_get` re-checks `should_close` extended by
the parser's buffered bytes; a new connection that already needs closing is refused) the four
histories above end differently: the second request goes to a new connection, respectively
the first one is refused, and nobody receives foreign bytes. -/
theorem fixed_blocks_cex :
    (let w := run (P := toyParser) { cfg := { fix := true } } hUnsolicited
     w.usedOf 1 = [1] ∧ w.ownOK 1 = true) ∧
    (let w := run (P := toyParser) { cfg := { fix := true } } hSurplusSameRead
     w.usedOf 1 = [1] ∧ w.ownOK 1 = true) ∧
    (let w := run (P := toyParser) { cfg := { fix := true } } hEarly
     w.errOf 0 = some .dirty ∧ w.ownOK 0 = true) ∧
    (let w := run (P := toyParser) { cfg := { fix := true } } hPartialSurplus
     w.usedOf 1 = [1] ∧ w.ownOK 1 = true) := by
  decide +kernel

end Aio.C06
