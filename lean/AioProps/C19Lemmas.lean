import AioModel.C19
/-!
# C19 — helper lemmas (byte search, sliding window, base64 alignment, writer size)
-/
namespace Aio.C19
open Aio

/-! ## `isPrefix` / `findSub` -/

theorem isPrefix_iff (p l : Bytes) : isPrefix p l = true ↔ ∃ r, l = p ++ r := by
  induction p generalizing l with
  | nil => simp [isPrefix]
  | cons a p ih =>
    cases l with
    | nil => simp [isPrefix]
    | cons b l =>
      simp only [isPrefix, Bool.and_eq_true, beq_iff_eq, ih, List.cons_append, List.cons.injEq]
      constructor
      · rintro ⟨rfl, r, rfl⟩; exact ⟨r, rfl, rfl⟩
      · rintro ⟨r, rfl, rfl⟩; exact ⟨rfl, r, rfl⟩

theorem isPrefix_length {p l : Bytes} (h : isPrefix p l = true) : p.length ≤ l.length := by
  obtain ⟨r, rfl⟩ := (isPrefix_iff p l).mp h
  simp

/-- a prefix test only looks at the first `|p|` bytes -/
theorem isPrefix_append_of_le (p a b : Bytes) (h : p.length ≤ a.length) :
    isPrefix p (a ++ b) = isPrefix p a := by
  induction p generalizing a with
  | nil => simp [isPrefix]
  | cons x p ih =>
    cases a with
    | nil => simp at h
    | cons y a =>
      simp only [List.cons_append, isPrefix]
      rw [ih a (by simpa using h)]

theorem findSub_some {pat : Bytes} (hp : pat ≠ []) {l : Bytes} {i j : Nat}
    (h : findSub pat l i = some j) :
    i ≤ j ∧ isPrefix pat (l.drop (j - i)) = true ∧ ∀ k, k < j - i → isPrefix pat (l.drop k) = false := by
  induction l generalizing i with
  | nil =>
    simp only [findSub] at h
    split at h
    · next he => simp [List.isEmpty_iff] at he; exact absurd he hp
    · cases h
  | cons a t ih =>
    simp only [findSub] at h
    split at h
    · next hpre =>
      injection h with h; subst h
      simp [hpre]
    · next hpre =>
      obtain ⟨h1, h2, h3⟩ := ih h
      refine ⟨by omega, ?_, ?_⟩
      · have : j - i = (j - (i + 1)) + 1 := by omega
        rw [this]; simpa using h2
      · intro k hk
        cases k with
        | zero => simpa using hpre
        | succ k => simpa using h3 k (by omega)

theorem findSub_none {pat : Bytes} (hp : pat ≠ []) {l : Bytes} {i : Nat}
    (h : findSub pat l i = none) : ∀ k, isPrefix pat (l.drop k) = false := by
  induction l generalizing i with
  | nil =>
    intro k
    cases pat with
    | nil => exact absurd rfl hp
    | cons x p => simp [isPrefix]
  | cons a t ih =>
    simp only [findSub] at h
    split at h
    · cases h
    · next hpre =>
      intro k
      cases k with
      | zero => simpa using hpre
      | succ k => simpa using ih h k

/-- `findFrom` returns the first occurrence at or after `start` -/
theorem findFrom_some {sub w : Bytes} (hp : sub ≠ []) {start idx : Nat}
    (h : findFrom sub w start = some idx) :
    start ≤ idx ∧ isPrefix sub (w.drop idx) = true ∧
      ∀ j, start ≤ j → j < idx → isPrefix sub (w.drop j) = false := by
  unfold findFrom at h
  obtain ⟨h1, h2, h3⟩ := findSub_some hp h
  refine ⟨h1, ?_, ?_⟩
  · rw [List.drop_drop] at h2
    have : start + (idx - start) = idx := by omega
    rwa [this] at h2
  · intro j hj hlt
    have := h3 (j - start) (by omega)
    rw [List.drop_drop] at this
    have e : start + (j - start) = j := by omega
    rwa [e] at this

theorem findFrom_none {sub w : Bytes} (hp : sub ≠ []) {start : Nat}
    (h : findFrom sub w start = none) : ∀ j, start ≤ j → isPrefix sub (w.drop j) = false := by
  unfold findFrom at h
  intro j hj
  have := findSub_none hp h (j - start)
  rw [List.drop_drop] at this
  have e : start + (j - start) = j := by omega
  rwa [e] at this

/-- completeness: the first occurrence at or after `start` is what `findFrom` returns -/
theorem findFrom_eq {sub w : Bytes} (hp : sub ≠ []) {start j : Nat} (hs : start ≤ j)
    (hocc : isPrefix sub (w.drop j) = true)
    (hfirst : ∀ i, start ≤ i → i < j → isPrefix sub (w.drop i) = false) :
    findFrom sub w start = some j := by
  cases h : findFrom sub w start with
  | none => have := findFrom_none hp h j hs; simp [this] at hocc
  | some idx =>
    obtain ⟨h1, h2, h3⟩ := findFrom_some hp h
    rcases Nat.lt_trichotomy idx j with hlt | heq | hgt
    · have := hfirst idx h1 hlt; simp [this] at h2
    · rw [heq]
    · have := h3 j hs hgt; simp [this] at hocc


/-! ## the sliding window -/

/-- `q` is the position of the first occurrence of the (non-empty) delimiter `sub` in `D` -/
structure Delim (sub D : Bytes) (q : Nat) : Prop where
  ne : sub ≠ []
  occ : isPrefix sub (D.drop q) = true
  first : ∀ j, j < q → isPrefix sub (D.drop j) = false

theorem Delim.le {sub D : Bytes} {q : Nat} (h : Delim sub D q) : q + sub.length ≤ D.length := by
  have := isPrefix_length h.occ
  simp at this
  have hne : 0 < sub.length := List.length_pos_iff.mpr h.ne
  omega

/-- an occurrence that lies inside the window is an occurrence in the whole data -/
theorem occ_window (sub E w R : Bytes) (j : Nat) (h : j + sub.length ≤ w.length) :
    isPrefix sub ((E ++ w ++ R).drop (E.length + j)) = isPrefix sub (w.drop j) := by
  have e1 : (E ++ w ++ R).drop (E.length + j) = w.drop j ++ R := by
    rw [List.append_assoc, List.drop_append]
    have e0 : List.drop (E.length + j) E = [] := List.drop_eq_nil_of_le (by omega)
    have e2 : E.length + j - E.length = j := by omega
    rw [e0, e2, List.nil_append, List.drop_append_of_le_length (by omega)]
  rw [e1]
  exact isPrefix_append_of_le _ _ _ (by simp; omega)

/-- **the delimiter is found as soon as the window contains it** — whatever the split of the
data into `prev` and `chunk`, with the search started `|sub|` bytes before the end of `prev` -/
theorem find_in_window {sub D E prev chunk R : Bytes} {q start : Nat}
    (hd : Delim sub D q) (hD : D = E ++ (prev ++ chunk) ++ R)
    (hs : E.length + start ≤ q) (hin : q + sub.length ≤ E.length + prev.length + chunk.length) :
    findFrom sub (prev ++ chunk) start = some (q - E.length) := by
  have hw : (q - E.length) + sub.length ≤ (prev ++ chunk).length := by simp; omega
  apply findFrom_eq hd.ne (by omega)
  · have := occ_window sub E (prev ++ chunk) R (q - E.length) hw
    rw [← hD] at this
    have e : E.length + (q - E.length) = q := by omega
    rw [e] at this
    rw [← this]; exact hd.occ
  · intro i hi hlt
    cases hpi : isPrefix sub ((prev ++ chunk).drop i) with
    | false => rfl
    | true =>
      have hl := isPrefix_length hpi
      simp at hl
      have hne : 0 < sub.length := List.length_pos_iff.mpr hd.ne
      have := occ_window sub E (prev ++ chunk) R i (by simp; omega)
      rw [← hD, hpi] at this
      have := hd.first (E.length + i) (by omega)
      simp_all

/-- **nothing is found while the delimiter is not completely inside the window** -/
theorem not_found_before {sub D E prev chunk R : Bytes} {q start : Nat}
    (hd : Delim sub D q) (hD : D = E ++ (prev ++ chunk) ++ R)
    (hout : E.length + prev.length + chunk.length < q + sub.length) :
    findFrom sub (prev ++ chunk) start = none := by
  cases h : findFrom sub (prev ++ chunk) start with
  | none => rfl
  | some idx =>
    obtain ⟨_, h2, _⟩ := findFrom_some hd.ne h
    have hl := isPrefix_length h2
    simp at hl
    have hne : 0 < sub.length := List.length_pos_iff.mpr hd.ne
    have := occ_window sub E (prev ++ chunk) R idx (by simp; omega)
    rw [← hD, h2] at this
    by_cases hq : E.length + idx < q
    · have := hd.first _ hq; simp_all
    · omega


/-! ## the chunk loop over an arbitrary chunking of the data -/

/-- The `read_chunk` loop of a body part in stream mode, abstracted from the stream: the i-th
call obtains the next `ks[i]` bytes of the not yet consumed data as its fresh chunk (any
segmentation of the transport and any legal `size` argument produce such a sequence), runs the
window search, pushes back what follows a match, and stops at `at_eof`. -/
def absRead (sub : Bytes) : List Nat → Bytes → Bool → Bytes → Bytes → Option Bytes
  | [], _, _, _, _ => none
  | k :: ks, prev, first, rest, acc =>
    match windowStep sub prev (rest.take k) first with
    | (res, prev', some back) =>
      if prev'.isEmpty then some (acc ++ res) else absRead sub ks prev' false (back ++ rest.drop k) (acc ++ res)
    | (res, prev', none) => absRead sub ks prev' false (rest.drop k) (acc ++ res)

theorem windowStep_some {sub prev chunk : Bytes} {first : Bool} {idx : Nat}
    (h : findFrom sub (prev ++ chunk) (if first then 0 else prev.length - sub.length) = some idx) :
    windowStep sub prev chunk first =
      (if first then (prev.take idx).drop 2 else prev.take idx,
       ((prev ++ chunk).take idx).drop (prev.take idx).length, some ((prev ++ chunk).drop idx)) := by
  simp only [windowStep, h]

theorem windowStep_none {sub prev chunk : Bytes} {first : Bool}
    (h : findFrom sub (prev ++ chunk) (if first then 0 else prev.length - sub.length) = none) :
    windowStep sub prev chunk first = (if first then prev.drop 2 else prev, chunk, none) := by
  simp only [windowStep, h]

theorem absRead_correct {sub D : Bytes} {q : Nat} (hd : Delim sub D q) :
    ∀ (ks : List Nat) (E prev rest acc : Bytes) (first : Bool),
      D = E ++ prev ++ rest → E.length ≤ q → acc = E.drop 2 →
      (first = true → E = [] ∧ 2 ≤ prev.length) →
      (first = false → 2 ≤ E.length ∧ 1 ≤ prev.length ∧ E.length + prev.length < q + sub.length) →
      (∀ k ∈ ks, sub.length ≤ k) → q + 2 ≤ E.length + ks.length →
      absRead sub ks prev first rest acc = some ((D.take q).drop 2) := by
  intro ks
  have hne : 0 < sub.length := List.length_pos_iff.mpr hd.ne
  have hle := hd.le
  induction ks with
  | nil => intro E prev rest acc first _ hE _ _ _ _ hl; simp at hl; omega
  | cons k ks ih =>
    intro E prev rest acc first hD hE hacc hf1 hf0 hks hl
    have hk : sub.length ≤ k := hks k (by simp)
    have hD' : D = E ++ (prev ++ rest.take k) ++ rest.drop k := by
      rw [hD]; simp [List.append_assoc]
    have hlen : D.length = E.length + prev.length + rest.length := by rw [hD]; simp; omega
    have hprev : 1 ≤ prev.length := by
      cases first with
      | true => have := (hf1 rfl).2; omega
      | false => exact (hf0 rfl).2.1
    have hstart : E.length + (if first then 0 else prev.length - sub.length) ≤ q := by
      cases first with
      | true => simpa using hE
      | false => have := (hf0 rfl).2.2; simp; omega
    have haccE : acc ++ (if first then prev.drop 2 else prev) = (E ++ prev).drop 2 := by
      rw [hacc]
      cases first with
      | true => obtain ⟨rfl, _⟩ := hf1 rfl; simp
      | false =>
        have := (hf0 rfl).1
        simp
        rw [List.drop_append_of_le_length this]
    have hE2 : 2 ≤ (E ++ prev).length := by
      cases first with
      | true => have := (hf1 rfl).2; simp; omega
      | false => have := (hf0 rfl).1; simp; omega
    by_cases hin : q + sub.length ≤ E.length + prev.length + (rest.take k).length
    · -- the window contains the delimiter
      have hfind := find_in_window hd hD' hstart hin
      rw [absRead, windowStep_some hfind]
      simp only
      by_cases hidx : q - E.length ≤ prev.length
      · -- delimiter starts inside prev: this call ends the part
        have e1 : (prev ++ rest.take k).take (q - E.length) = prev.take (q - E.length) :=
          List.take_append_of_le_length hidx
        have e2 : ((prev ++ rest.take k).take (q - E.length)).drop (prev.take (q - E.length)).length = [] := by
          rw [e1]; simp
        rw [e2]
        simp
        have hDq : D.take q = E ++ prev.take (q - E.length) := by
          rw [hD, List.append_assoc, List.take_append]
          rw [List.take_of_length_le hE, List.take_append_of_le_length hidx]
        rw [hDq, hacc]
        cases first with
        | true => obtain ⟨rfl, _⟩ := hf1 rfl; simp
        | false =>
          have := (hf0 rfl).1
          simp
          rw [List.drop_append_of_le_length this]
      · -- delimiter starts in the fresh chunk: hand out prev, keep the bytes before it
        have hidx' : prev.length < q - E.length := by omega
        have e0 : prev.take (q - E.length) = prev := List.take_of_length_le (by omega)
        have e1 : ((prev ++ rest.take k).take (q - E.length)).drop prev.length
            = (rest.take k).take (q - E.length - prev.length) := by
          rw [List.take_append]
          rw [List.take_of_length_le (by omega : prev.length ≤ q - E.length)]
          simp
        have e2 : (prev ++ rest.take k).drop (q - E.length) = (rest.take k).drop (q - E.length - prev.length) := by
          rw [List.drop_append]
          rw [List.drop_eq_nil_of_le (by omega : prev.length ≤ q - E.length)]
          simp
        rw [e0, e1, e2]
        have hnp : ((rest.take k).take (q - E.length - prev.length)).length = q - E.length - prev.length := by
          simp at hin ⊢; omega
        have hnon : ((rest.take k).take (q - E.length - prev.length)).isEmpty = false := by
          rw [List.isEmpty_eq_false_iff]
          intro hc; rw [hc] at hnp; simp at hnp; omega
        rw [hnon]
        simp only [Bool.false_eq_true, if_false]
        rw [haccE]
        refine ih (E ++ prev) _ _ _ false ?_ ?_ rfl ?_ ?_ (fun k' hk' => hks k' (by simp [hk'])) ?_
        · rw [hD']
          have := List.take_append_drop (q - E.length - prev.length) (rest.take k)
          simp only [List.append_assoc]
          rw [← List.append_assoc ((rest.take k).take _), this]
        · simp; omega
        · intro hc; cases hc
        · intro _
          refine ⟨hE2, ?_, ?_⟩
          · rw [hnp]; omega
          · rw [hnp]; simp; omega
        · simp at hl ⊢; omega
    · -- the delimiter is not yet completely inside the window
      have hout : E.length + prev.length + (rest.take k).length < q + sub.length := by omega
      have hnf := not_found_before (start := if first then 0 else prev.length - sub.length) hd hD' hout
      rw [absRead, windowStep_none hnf]
      simp only
      have hchunk : sub.length ≤ (rest.take k).length := by
        simp only [List.length_take] at hout ⊢
        by_cases hkr : k ≤ rest.length
        · omega
        · omega
      rw [haccE]
      refine ih (E ++ prev) _ _ _ false ?_ ?_ rfl ?_ ?_ (fun k' hk' => hks k' (by simp [hk'])) ?_
      · rw [hD']; simp [List.append_assoc]
      · simp; omega
      · intro hc; cases hc
      · intro _
        refine ⟨hE2, by omega, ?_⟩
        simp at hout ⊢; omega
      · simp at hl ⊢; omega

/-! ## where the first delimiter is -/

theorem getElem?_of_prefix_shift {sub X rest : Bytes}
    (h : isPrefix sub (X ++ (sub ++ rest)) = true) (hX : X.length < sub.length) :
    sub[X.length]? = sub[0]? := by
  obtain ⟨r, hr⟩ := (isPrefix_iff _ _).mp h
  have h1 : (X ++ (sub ++ rest))[X.length]? = sub[0]? := by
    rw [List.getElem?_append_right (by omega)]
    simp
    cases sub with
    | nil => simp at hX
    | cons a t => simp
  have h2 : (sub ++ r)[X.length]? = sub[X.length]? := List.getElem?_append_left hX
  rw [← h2, ← hr, h1]

/-- **The first delimiter after the headers is the one the writer put there**, provided the
(encoded) content does not contain the delimiter and the boundary has no CR. -/
theorem delim_after_content (b c rest : Bytes) (hcr : (13 : UInt8) ∉ b)
    (hfree : ∀ j, isPrefix (CRLF ++ b) ((CRLF ++ c).drop j) = false) :
    Delim (CRLF ++ b) (CRLF ++ c ++ (CRLF ++ b) ++ rest) (c.length + 2) := by
  refine ⟨by simp [CRLF], ?_, ?_⟩
  · have : (CRLF ++ c ++ (CRLF ++ b) ++ rest).drop (c.length + 2) = (CRLF ++ b) ++ rest := by
      rw [List.append_assoc (CRLF ++ c), List.drop_append]
      have : (CRLF ++ c).length = c.length + 2 := by simp only [CRLF, List.length_append, List.length_cons, List.length_nil]; omega
      rw [List.drop_eq_nil_of_le (by omega)]
      simp [this]
    rw [this]
    exact (isPrefix_iff _ _).mpr ⟨rest, rfl⟩
  · intro j hj
    have hA : (CRLF ++ c).length = c.length + 2 := by simp only [CRLF, List.length_append, List.length_cons, List.length_nil]; omega
    have hB : (CRLF ++ b).length = b.length + 2 := by simp only [CRLF, List.length_append, List.length_cons, List.length_nil]; omega
    by_cases hin : j + (CRLF ++ b).length ≤ (CRLF ++ c).length
    · -- entirely inside the content: excluded by the precondition
      have e : (CRLF ++ c ++ (CRLF ++ b) ++ rest).drop j = (CRLF ++ c).drop j ++ ((CRLF ++ b) ++ rest) := by
        rw [List.append_assoc (CRLF ++ c), List.drop_append_of_le_length (by omega)]
      rw [e, isPrefix_append_of_le _ _ _ (by rw [List.length_drop]; omega)]
      exact hfree j
    · -- straddling the real delimiter: the boundary would contain a CR
      cases hp : isPrefix (CRLF ++ b) ((CRLF ++ c ++ (CRLF ++ b) ++ rest).drop j) with
      | false => rfl
      | true =>
        exfalso
        have e : (CRLF ++ c ++ (CRLF ++ b) ++ rest).drop j = (CRLF ++ c).drop j ++ ((CRLF ++ b) ++ rest) := by
          rw [List.append_assoc (CRLF ++ c), List.drop_append_of_le_length (by omega)]
        rw [e] at hp
        have hX : ((CRLF ++ c).drop j).length < (CRLF ++ b).length := by rw [List.length_drop]; omega
        have hpos : 0 < ((CRLF ++ c).drop j).length := by rw [List.length_drop]; omega
        have := getElem?_of_prefix_shift hp hX
        generalize ((CRLF ++ c).drop j).length = d at this hX hpos
        simp only [CRLF, List.cons_append, List.nil_append] at this hX
        cases d with
        | zero => omega
        | succ d =>
          cases d with
          | zero => simp at this
          | succ d =>
            simp at this
            have hlt : d < b.length := by simp at hX; omega
            rw [List.getElem?_eq_getElem hlt] at this
            injection this with this
            exact hcr (this ▸ List.getElem_mem hlt)

/-! ## base64 alignment -/

theorem b64count_cons (c : UInt8) (t : Bytes) :
    b64count (c :: t) = (if isB64Char c then 1 else 0) + b64count t := by
  unfold b64count
  by_cases h : isB64Char c = true <;> simp [List.filter_cons, h] <;> omega

theorem b64count_append (a b : Bytes) : b64count (a ++ b) = b64count a + b64count b := by
  unfold b64count; simp

theorem b64count_reverse (a : Bytes) : b64count a.reverse = b64count a := by
  unfold b64count; simp [List.filter_reverse]

theorem walkBack_spec : ∀ (rev : Bytes) (left : Nat), left ≤ b64count rev →
    ∃ m, m ≤ rev.length ∧ walkBack rev rev.length left = rev.length - m ∧ b64count (rev.take m) = left := by
  intro rev
  induction rev with
  | nil =>
    intro left h
    have : left = 0 := by simpa [b64count] using h
    subst this
    exact ⟨0, by simp, by simp [walkBack], by simp [b64count]⟩
  | cons c t ih =>
    intro left h
    cases left with
    | zero => exact ⟨0, by simp, by simp [walkBack], by simp [b64count]⟩
    | succ left =>
      rw [b64count_cons] at h
      by_cases hc : isB64Char c = true
      · simp only [hc, if_true] at h
        obtain ⟨m, hm, hw, hb⟩ := ih left (by omega)
        refine ⟨m + 1, by simp; omega, ?_, ?_⟩
        · simp only [walkBack, hc, if_true, List.length_cons, Nat.add_sub_cancel]
          rw [hw]; omega
        · rw [List.take_succ_cons, b64count_cons, hb]; simp [hc]; omega
      · have hc' : isB64Char c = false := by simpa using hc
        simp only [hc', Bool.false_eq_true, if_false, Nat.zero_add] at h
        obtain ⟨m, hm, hw, hb⟩ := ih (left + 1) h
        refine ⟨m + 1, by simp; omega, ?_, ?_⟩
        · simp only [walkBack, hc', Bool.false_eq_true, if_false, List.length_cons, Nat.add_sub_cancel]
          rw [hw]; omega
        · rw [List.take_succ_cons, b64count_cons, hb]; simp [hc']

end Aio.C19
