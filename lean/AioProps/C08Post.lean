import AioProps.C08Lemmas
/-! C08: every consumer coroutine satisfies `Post` (it moves the state only by primitive
moves and returns / keeps exactly the bytes it took). -/
namespace Aio.C08
open Aio

theorem hx_quiet {s s' : S} (q : Quiet s s') (hx : s.recheck = true → s.exc = none) :
    s'.recheck = true → s'.exc = none := by
  intro h; rw [q.exc]; exact hx (by rw [← q.recheck]; exact h)

theorem hx_frame {s s' : S} (q : Frame s s') (hx : s.recheck = true → s.exc = none) :
    s'.recheck = true → s'.exc = none := by
  intro h; rw [q.exc]; exact hx (by rw [← q.recheck]; exact h)

theorem hx_setChunk {s : S} (n : Nat) (hx : s.recheck = true → s.exc = none) :
    (setChunk s n).recheck = true → (setChunk s n).exc = none := by
  unfold setChunk; split <;> exact hx

theorem bufs_of_wait {s : S} (h : (s.bufs.isEmpty && !s.eof) = true) : s.bufs = [] := by
  simp at h; exact h.1

theorem contRead_post {s : S} (hi : Inv s) (hp : s.parked = none) (hx : s.recheck = true → s.exc = none)
    (n : Nat) (it : Bool) :
    Post s [] (contRead s n it) := by
  unfold contRead
  split
  · rename_i h; exact post_park hp (bufs_of_wait h) ⟨.read n, [], it⟩ (fun _ => rfl) hx
  · obtain ⟨d, hr, hd, -, -⟩ := readNowait_reach hi (some n)
    have hq := quiet_readNowait s (some n)
    have := post_data (acc := []) (by rw [hq.parked]; exact hp) hr
    simpa [hd] using this

theorem contReadAny_post {s : S} (hi : Inv s) (hp : s.parked = none) (hx : s.recheck = true → s.exc = none)
    (it : Bool) :
    Post s [] (contReadAny s it) := by
  unfold contReadAny
  split
  · rename_i h; exact post_park hp (bufs_of_wait h) ⟨.readAny, [], it⟩ (fun _ => rfl) hx
  · obtain ⟨d, hr, hd, -, -⟩ := readNowait_reach hi none
    have hq := quiet_readNowait s none
    have := post_data (acc := []) (by rw [hq.parked]; exact hp) hr
    simpa [hd] using this

theorem contReadAll_post : ∀ (fuel : Nat) {s : S} (acc : Bytes) (it : Bool), Inv s → s.parked = none →
    (s.recheck = true → s.exc = none) → Post s acc (contReadAll fuel s acc it)
  | 0, s, acc, it, _, hp, _ => by simp only [contReadAll]; exact post_raise hp acc _
  | fuel + 1, s, acc, it, hi, hp, hx => by
    simp only [contReadAll]
    split
    · rename_i h; exact post_park hp (bufs_of_wait h) ⟨.readAll, acc, it⟩ (fun h => by cases h) hx
    · obtain ⟨d, hr, hd, -, -⟩ := readNowait_reach hi none
      have hq := quiet_readNowait s none
      have hp1 : (readNowait s none).1.parked = none := by rw [hq.parked]; exact hp
      have hi1 := reach_inv hi hr
      split
      · rename_i hde
        have hd0 : d = [] := by rw [← hd]; simpa using hde
        have := post_data (acc := acc) hp1 hr
        simpa [hd0] using this
      · rw [hd]
        split
        · exact post_of_reach hr (post_raise hp1 _ _)
        · exact post_of_reach hr (contReadAll_post fuel (acc ++ d) it hi1 hp1 (hx_quiet hq hx))

theorem untilInner_cons (fuel : Nat) {s : S} {b : Bytes} {t : List Bytes} (h : s.bufs = b :: t)
    (sep : Bytes) (m : Nat) (acc : Bytes) :
    untilInner (fuel + 1) s sep m acc =
      if (acc ++ (rnc s ((findSub sep (b.drop s.off) 0).map (· + sep.length))).2).length > m then
        ((rnc s ((findSub sep (b.drop s.off) 0).map (· + sep.length))).1,
         acc ++ (rnc s ((findSub sep (b.drop s.off) 0).map (· + sep.length))).2,
         (findSub sep (b.drop s.off) 0).isSome, true)
      else if (findSub sep (b.drop s.off) 0).isSome then
        ((rnc s ((findSub sep (b.drop s.off) 0).map (· + sep.length))).1,
         acc ++ (rnc s ((findSub sep (b.drop s.off) 0).map (· + sep.length))).2, true, false)
      else untilInner fuel (rnc s ((findSub sep (b.drop s.off) 0).map (· + sep.length))).1 sep m
        (acc ++ (rnc s ((findSub sep (b.drop s.off) 0).map (· + sep.length))).2) := by
  simp [untilInner, h]

theorem untilInner_reach : ∀ (fuel : Nat) {s : S} (sep : Bytes) (m : Nat) (acc : Bytes), Inv s →
    ∃ d, Reach s (untilInner fuel s sep m acc).1 d ∧ (untilInner fuel s sep m acc).2.1 = acc ++ d ∧
      Quiet s (untilInner fuel s sep m acc).1 ∧
      (s.bufs.length < fuel → (untilInner fuel s sep m acc).2.2.1 = false →
        (untilInner fuel s sep m acc).2.2.2 = false → (untilInner fuel s sep m acc).1.bufs = [])
  | 0, s, sep, m, acc, _ => ⟨[], Reach.refl s, by simp [untilInner], Quiet.refl s, by intro h; omega⟩
  | fuel + 1, s, sep, m, acc, hi => by
    cases hb : s.bufs with
    | nil =>
      refine ⟨[], ?_, ?_, ?_, ?_⟩
      · simp [untilInner, hb]; exact Reach.refl s
      · simp [untilInner, hb]
      · simp [untilInner, hb]; exact Quiet.refl s
      · intro _ _ _; simp [untilInner, hb]
    | cons b t =>
      have hne : s.bufs ≠ [] := by rw [hb]; simp
      rw [untilInner_cons fuel hb]
      cases hr : findSub sep (b.drop s.off) 0 with
      | some k =>
        simp only [Option.map_some, Option.isSome_some, if_true]
        have hq := quiet_rnc s (some (k + sep.length))
        have hm := Move.rnc s (some (k + sep.length)) hne
        by_cases h1 : (acc ++ (rnc s (some (k + sep.length))).2).length > m
        · rw [if_pos h1]
          exact ⟨_, Reach.one hm, rfl, hq, by intro _ _ h; cases h⟩
        · rw [if_neg h1]
          exact ⟨_, Reach.one hm, rfl, hq, by intro _ h; cases h⟩
      | none =>
        simp only [Option.map_none, Option.isSome_none, Bool.false_eq_true, if_false]
        have hs := rnc_spec hi hne none
        have hq := quiet_rnc s none
        have hm := Move.rnc s none hne
        by_cases h1 : (acc ++ (rnc s none).2).length > m
        · rw [if_pos h1]
          exact ⟨_, Reach.one hm, rfl, hq, by intro _ _ h; cases h⟩
        · rw [if_neg h1]
          have htl : (rnc s none).1.bufs = s.bufs.tail := hs.2.2.2.2.2.2 rfl
          obtain ⟨d, hr2, hd, hq2, hfin⟩ := untilInner_reach fuel sep m (acc ++ (rnc s none).2) hs.1
          refine ⟨(rnc s none).2 ++ d, Reach.step hm hr2, ?_, Quiet.trans hq hq2, ?_⟩
          · rw [hd, List.append_assoc]
          · intro hf
            have : (rnc s none).1.bufs.length < fuel := by
              rw [htl, hb]; simp at hf ⊢; omega
            exact hfin this

theorem contReadUntil_post {s : S} (hi : Inv s) (hp : s.parked = none) (hx : s.recheck = true → s.exc = none)
    (sep : Bytes) (m : Nat)
    (acc : Bytes) (it : Bool) : Post s acc (contReadUntil s sep m acc it) := by
  obtain ⟨d, hr, hd, hq, hfin⟩ := untilInner_reach (s.bufs.length + 1) sep m acc hi
  have hp1 : (untilInner (s.bufs.length + 1) s sep m acc).1.parked = none := by rw [hq.parked]; exact hp
  unfold contReadUntil
  simp only []
  split
  · rw [hd]; exact post_of_reach hr (post_raise hp1 _ _)
  · split
    · rw [hd]; exact post_data hp1 hr
    · split
      · rw [hd]; exact post_data hp1 hr
      · rename_i h1 h2 h3
        have hb := hfin (by omega) (by simpa using h2) (by simpa using h1)
        have := post_park hp1 hb ⟨.readUntil sep m, (untilInner (s.bufs.length + 1) s sep m acc).2.1, it⟩ (fun h => by cases h) (hx_quiet hq hx)
        rw [hd] at this ⊢
        exact post_of_reach hr this

theorem contReadExactly_post : ∀ (fuel : Nat) {s : S} (n : Nat) (acc : Bytes), Inv s → s.parked = none →
    (s.recheck = true → s.exc = none) → Post s acc (contReadExactly fuel s n acc)
  | 0, s, n, acc, _, hp, _ => by simp only [contReadExactly]; exact post_raise hp acc _
  | fuel + 1, s, n, acc, hi, hp, hx => by
    simp only [contReadExactly]
    split
    · rename_i h; exact post_park hp (bufs_of_wait h) ⟨.readExactly n, acc, false⟩ (fun h => by cases h) hx
    · obtain ⟨d, hr, hd, -, -⟩ := readNowait_reach hi (some n)
      have hq := quiet_readNowait s (some n)
      have hp1 : (readNowait s (some n)).1.parked = none := by rw [hq.parked]; exact hp
      have hi1 := reach_inv hi hr
      split
      · rename_i hde
        have hd0 : d = [] := by rw [← hd]; simpa using hde
        refine ⟨⟨d, hr, ?_⟩, by intro _; exact hp1, (by intro h; cases h), accok_of_none hp1⟩
        intro _; simp [outBytes, pendAcc, hp1, hd0]
      · rw [hd]
        split
        · exact post_data hp1 hr
        · split
          · exact post_of_reach hr (post_raise hp1 _ _)
          · have hm := Move.setChunk (readNowait s (some n)).1 (n - d.length)
            have hp2 : (setChunk (readNowait s (some n)).1 (n - d.length)).parked = none := by
              unfold setChunk; split <;> exact hp1
            have := contReadExactly_post fuel (n - d.length) (acc ++ d) (move_inv hi1 hm) hp2 (hx_setChunk _ (hx_quiet hq hx))
            have h2 := post_of_reach (acc := acc ++ d) (Reach.one hm) (by simpa using this)
            exact post_of_reach hr h2

/-- the split-popping loop of `readchunk` -/
theorem chunkSplits_reach : ∀ (l : List Nat) {s : S}, Inv s → s.splits = some l →
    ∃ d, Reach s (chunkSplits s l).1 d ∧ (chunkSplits s l).1.parked = s.parked ∧
      (chunkSplits s l).1.lost = s.lost ∧ (chunkSplits s l).1.eof = s.eof ∧
      ((chunkSplits s l).2 = none → d = []) ∧
      (∀ o, (chunkSplits s l).2 = some o → o = .chunk d true)
  | [], s, hi, hs => by
    refine ⟨[], ?_, rfl, rfl, rfl, by intro _; rfl, by intro o h; simp [chunkSplits] at h⟩
    simp only [chunkSplits]
    exact Reach.one (Move.setSplits s [] [] hs (List.Sublist.refl _))
  | p :: t, s, hi, hs => by
    have hm := Move.setSplits s (p :: t) t hs (List.sublist_cons_self p t)
    have hi1 := move_inv hi hm
    simp only [chunkSplits]
    split
    · refine ⟨[], Reach.one hm, rfl, rfl, rfl, ?_, ?_⟩
      · intro _; rfl
      · intro o h; exact (Option.some.inj h).symm
    · split
      · obtain ⟨d, hr, hd, -, -⟩ := readNowait_reach hi1 (some (p - s.cursor))
        have hq := quiet_readNowait { s with splits := some t } (some (p - s.cursor))
        refine ⟨[] ++ d, Reach.step hm hr, hq.parked, hq.lost, hq.eof, ?_, ?_⟩
        · intro h; exact absurd (show some _ = none from h) (by simp)
        · intro o h; rw [← Option.some.inj h]; simp [hd]
      · obtain ⟨d, hr, h1, h2, h3, h4, h5⟩ := chunkSplits_reach t (s := { s with splits := some t }) hi1 rfl
        exact ⟨[] ++ d, Reach.step hm hr, h1, h2, h3, by simpa using h4, by simpa using h5⟩

theorem contReadChunk_post {s : S} (hi : Inv s) (hp : s.parked = none) (it : Bool) :
    Post s [] (contReadChunk s it) := by
  unfold contReadChunk
  split
  · exact post_raise hp _ _
  · -- the splits loop
    rename_i hexc
    have hx : s.recheck = true → s.exc = none := fun _ => hexc
    have key : ∀ (s1 : S) (r : Option Out) (d : Bytes), Reach s s1 d → s1.parked = none →
        (r = none → d = []) → (∀ o, r = some o → o = .chunk d true) →
        Post s [] (match r with
          | some o => (s1, o)
          | none =>
            if (!s1.bufs.isEmpty) = true then ((rnc s1 none).1, .chunk (rnc s1 none).2 false)
            else if s1.eof = true then (s1, .chunk [] false)
            else park s1 ⟨.readChunk, [], it⟩) := by
      intro s1 r d hr hp1 hn hsome
      have hi1 := reach_inv hi hr
      cases r with
      | some o =>
        have := hsome o rfl
        subst this
        exact ⟨⟨d, hr, by intro _; simp [outBytes, pendAcc, hp1]⟩, by intro _; exact hp1, (by intro h; cases h), accok_of_none hp1⟩
      | none =>
        have hd0 := hn rfl
        subst hd0
        simp only []
        split
        · rename_i hb
          have hne : s1.bufs ≠ [] := by intro h; simp [h] at hb
          have hq := quiet_rnc s1 none
          refine post_of_reach hr ?_
          refine ⟨⟨_, Reach.one (Move.rnc s1 none hne), ?_⟩, by intro _; rw [hq.parked]; exact hp1, (by intro h; cases h), accok_of_none (by rw [hq.parked]; exact hp1)⟩
          intro _; simp [outBytes, pendAcc, hq.parked, hp1]
        · split
          · exact ⟨⟨[], hr, by intro _; simp [outBytes, pendAcc, hp1]⟩, by intro _; exact hp1, (by intro h; cases h), accok_of_none hp1⟩
          · rename_i hb _
            have hb' : s1.bufs = [] := by simpa using hb
            exact post_of_reach hr (by simpa using post_park hp1 hb' ⟨.readChunk, [], it⟩ (fun _ => rfl) (hx_frame (reach_frame hr) hx))
    cases hs : s.splits with
    | none =>
      simp only []
      exact key s none [] (Reach.refl s) hp (by intro _; rfl) (by intro o h; cases h)
    | some l =>
      simp only []
      obtain ⟨d, hr, h1, -, -, h4, h5⟩ := chunkSplits_reach l hi hs
      exact key _ _ d hr (by rw [h1]; exact hp) h4 h5

end Aio.C08
