import AioProps.C08Step
import AioProps.C08Eof
/-!
# C08 — Stream reader: exact ordered delivery with back-pressure

Property theorems about the model `AioModel/C08.lean` (`StreamReader` + the pause/resume
half of `BaseProtocol`).  All statements quantify over **every** read-buffer limit and
**every** finite sequence `ops : List Op` of producer operations (feed_data, begin/end
chunk, feed_eof, set_exception, connection lost) interleaved with consumer operations
(read(n), read(-1), readany, readuntil/readline, readexactly, readchunk, read_nowait, the
async iterators, set_read_chunk_size, resumption of the parked coroutine), and over **both
values** `f` of the behaviour flag `recheck` (`_wait()` re-checks `_exception` after a regular
wake-up: absent before the `fix:` commit, present after; `init = initF Gen.C08.waitRechecksException`
with the flag probed from the source on every run).
-/
namespace Aio.C08
open Aio

/-- The generated chunk-count constants give `low_water_chunks ≥ 2` (the comment in
`StreamReader.__init__`: one split may always remain, so resuming needs `≥ 2`). -/
theorem chunk_constants_ok :
    2 ≤ Gen.C08.chunkFloor / Gen.C08.lowDiv ∧ Gen.C08.highMul = 2 ∧ 0 < Gen.C08.chunkDiv := by decide

/-- The structural invariant (buffer bookkeeping, chunk splits sorted inside
`[cursor, total]`, water-mark relations, waiter discipline, delivery bookkeeping) holds after
every operation sequence from a fresh reader. -/
theorem inv_exec (f : Bool) (limit : Nat) (ops : List Op) : SInv (exec (initF f limit) ops) :=
  exec_sinv (initF_sinv f limit) ops

/-- `run` (with outputs) and `exec` (state only) agree, and the ghost `delivered` is nothing but
the concatenation of the byte strings the operations returned. -/
theorem delivered_is_output {s : S} (hs : SInv s) (ops : List Op) :
    (run s ops).1 = exec s ops ∧
    (exec s ops).delivered = s.delivered ++ ((run s ops).2.map outBytes).flatten := by
  induction ops generalizing s with
  | nil => simp [run, exec]
  | cons op ops ih =>
    have h := ih (step_sinv hs op)
    have hs0 : SInv { s with evs := [] } := ⟨evs_inv hs.inv [], hs.accok, hs.deliv⟩
    have hd : (step s op).1.delivered = s.delivered ++ outBytes (step s op).2 := by
      have := (core_spec hs0 op).delivered
      simp only [step]; rw [this]
    refine ⟨?_, ?_⟩
    · simp only [run, exec, List.foldl_cons]; exact h.1
    · simp only [run, exec, List.foldl_cons, List.map_cons, List.flatten_cons]
      have h2 := h.2
      simp only [exec] at h2
      rw [h2, hd, List.append_assoc]

/-- **Conservation.** After any operation sequence: the bytes taken out of the buffer so far,
followed by the bytes still buffered, are exactly the bytes fed, in order — nothing lost,
duplicated or reordered inside the reader. -/
theorem conservation (f : Bool) (limit : Nat) (ops : List Op) :
    (exec (initF f limit) ops).taken ++ rest (exec (initF f limit) ops) = (exec (initF f limit) ops).fed :=
  (inv_exec f limit ops).inv.cons

/-- **Exact ordered delivery.** Unless some call raised after having taken bytes (LineTooLong,
the installed exception, "Connection closed" — `lost`), the concatenation of everything the
read calls returned, followed by the bytes held by the parked call, followed by the buffer,
is exactly what was fed. -/
theorem delivered_exact (f : Bool) (limit : Nat) (ops : List Op) :
    (exec (initF f limit) ops).lost = false →
    (exec (initF f limit) ops).delivered ++ pendAcc (exec (initF f limit) ops) ++ rest (exec (initF f limit) ops)
      = (exec (initF f limit) ops).fed := by
  intro hl
  have h := inv_exec f limit ops
  rw [h.deliv hl]; exact h.inv.cons

/-- Corollary: what has been returned is always a prefix of what was fed (same proviso). -/
theorem delivered_prefix_of_fed (f : Bool) (limit : Nat) (ops : List Op) :
    (exec (initF f limit) ops).lost = false →
    (exec (initF f limit) ops).delivered <+: (exec (initF f limit) ops).fed := by
  intro hl
  have := delivered_exact f limit ops hl
  exact ⟨_, by rw [← this, List.append_assoc]⟩

/-- A call that returns `blocked` has installed the waiter, and a reader is blocked (waiter
installed, future pending) only on an empty buffer. -/
theorem blocked_only_on_empty_buffer (f : Bool) (limit : Nat) (ops : List Op) (op : Op) :
    ((step (exec (initF f limit) ops) op).2 = .blocked → (step (exec (initF f limit) ops) op).1.waiter = true) ∧
    ((exec (initF f limit) ops).waiter = true →
      (exec (initF f limit) ops).bufs = [] ∧ (exec (initF f limit) ops).fut = .pending) := by
  have h := inv_exec f limit ops
  exact ⟨step_blocked h op, fun hw => ⟨h.inv.waiter_empty hw, (h.inv.waiter_parked hw).2⟩⟩

/-
Full statement wanted (`eof_last`): for every reachable state and every consumer call (including
readuntil/readline, readexactly and the four async iterators, started or resumed), an outcome
that reports end-of-stream (`b""` from a read with n > 0, `(b"", False)`, `StopAsyncIteration`,
`IncompleteReadError`, a line without its separator, the return of `read(-1)`) occurs only in a
state with `eof = true ∧ bufs = []`.
Proved below for the coroutines `read(n)`, `readany()`, `read(-1)` and `readchunk()` at every
state satisfying the invariant (all reachable states do: `inv_exec`), both when started and
when resumed (`contRead` … are the loop entry points used by both).  Missing: the same for
`readuntil` and `readexactly` (they go through the same `_read_nowait_chunk`/`read(n)`; covered by
the correspondence run and the direct oracle only) and the lifting through `iterOut`.
-/
/-- **End-of-stream only after all data** (partial, see above): in any reachable state,
`read(n>0)` / `readany()` returning `b""`, `read(-1)` returning at all, and `readchunk()`
returning `(b"", False)` happen only when `feed_eof` was called and nothing is buffered. -/
theorem eof_last_partial (f : Bool) (limit : Nat) (ops : List Op) :
    let s := exec (initF f limit) ops
    (∀ n it, 0 < n → (contRead s n it).2 = .data [] →
      (contRead s n it).1.eof = true ∧ (contRead s n it).1.bufs = []) ∧
    (∀ it, (contReadAny s it).2 = .data [] →
      (contReadAny s it).1.eof = true ∧ (contReadAny s it).1.bufs = []) ∧
    (∀ fuel acc it x, (contReadAll fuel s acc it).2 = .data x →
      (contReadAll fuel s acc it).1.eof = true ∧ (contReadAll fuel s acc it).1.bufs = []) ∧
    (∀ it, (contReadChunk s it).2 = .chunk [] false →
      (contReadChunk s it).1.eof = true ∧ (contReadChunk s it).1.bufs = []) := by
  intro s
  have hi := (inv_exec f limit ops).inv
  exact ⟨fun n it hn h => contRead_eof hi n hn it h, fun it h => contReadAny_eof hi it h,
    fun fuel acc it x h => contReadAll_eof fuel acc it x hi h, fun it h => contReadChunk_eof hi it h⟩

/-- **readchunk boundaries are the sender's.** In any reachable state, when `readchunk()`
answers `(data, True)`, the consumer position then equals `total_bytes` as it was at some
`end_http_chunk_receiving()` call (ghost `bounds`), and the data returned is exactly the bytes
up to it (`delivered_exact`). -/
theorem readchunk_boundary_sound (f : Bool) (limit : Nat) (ops : List Op) (it : Bool) (d : Bytes) :
    let s := exec (initF f limit) ops
    (contReadChunk s it).2 = .chunk d true → (contReadChunk s it).1.cursor ∈ s.bounds := by
  intro s h
  exact contReadChunk_boundary (inv_exec f limit ops).inv it d h

/-- hypotheses satisfiable: a chunk boundary reported after `begin; feed; end` -/
example : (contReadChunk (exec (initF true 4) [.beginChunk, .feed [1, 2], .endChunk]) false).2 = .chunk [1, 2] true := by
  decide +kernel

/-- the pending chunk splits are strictly increasing offsets inside `[cursor, total]`, each one
recorded by `end_http_chunk_receiving` -/
theorem splits_sorted_in_range (f : Bool) (limit : Nat) (ops : List Op) (l : List Nat) :
    (exec (initF f limit) ops).splits = some l →
    l.Pairwise (· < ·) ∧ ∀ p ∈ l, (exec (initF f limit) ops).cursor ≤ p ∧ p ≤ (exec (initF f limit) ops).total ∧
      p ∈ (exec (initF f limit) ops).bounds := by
  intro h
  have hi := (inv_exec f limit ops).inv
  exact ⟨hi.sorted l h, fun p hp => ⟨(hi.range l h p hp).1, (hi.range l h p hp).2, hi.inb l h p hp⟩⟩

/-- **Back-pressure bound.** Whenever reading is not paused (and end-of-stream has not been
fed), the buffered size is at most the high-water mark and the number of pending chunk
boundaries at most the chunk high-water mark. -/
theorem reading_implies_bounded (f : Bool) (limit : Nat) (ops : List Op) :
    (exec (initF f limit) ops).paused = false → (exec (initF f limit) ops).eof = false →
    (exec (initF f limit) ops).size ≤ (exec (initF f limit) ops).high ∧
    nsplits (exec (initF f limit) ops) ≤ (exec (initF f limit) ops).highChunks :=
  (inv_exec f limit ops).inv.bounded

/-- `feed_data` pauses reading exactly when the buffered size exceeds the high-water mark
(and tells the transport when one is attached); otherwise the pause flag is unchanged. -/
theorem feed_pauses_above_high_water (s : S) (d : Bytes) (he : s.eof = false) (hd : d ≠ []) :
    (s.size + d.length > s.high →
      (feed s d).1.paused = true ∧ (s.connected = true → (feed s d).1.tpaused = true ∧
        (feed s d).1.evs = s.evs ++ [.pause])) ∧
    (¬ s.size + d.length > s.high → (feed s d).1.paused = s.paused ∧ (feed s d).1.evs = s.evs) := by
  have hd' : d.isEmpty = false := by cases d <;> simp_all
  constructor
  · intro h
    simp only [feed, he, hd', wake, pauseReading]
    cases s.waiter <;> cases hc : s.connected <;> simp [h, hc]
  · intro h
    simp only [feed, he, hd', wake, pauseReading]
    cases s.waiter <;> simp [h]

/-- `end_http_chunk_receiving` that records a new boundary pauses reading exactly when the
number of pending boundaries exceeds the chunk high-water mark. -/
theorem endchunk_pauses_above_chunk_high_water (s : S) (sp : List Nat) (hs : s.splits = some sp)
    (hn : s.total ≠ sp.getLast?.getD 0) :
    (sp.length + 1 > s.highChunks → (endChunk s).1.paused = true ∧
      (s.connected = true → (endChunk s).1.tpaused = true)) ∧
    (¬ sp.length + 1 > s.highChunks → (endChunk s).1.paused = s.paused) := by
  constructor
  · intro h
    simp only [endChunk, hs, hn, wake, pauseReading]
    cases s.waiter <;> cases hc : s.connected <;> simp [h, hc]
  · intro h
    simp only [endChunk, hs, hn, wake, pauseReading]
    cases s.waiter <;> simp [h]

theorem maybeResume_spec (s1 : S) :
    ((s1.size < s1.low ∧ chunksLow s1 = true) →
      (maybeResume s1).paused = false ∧ (s1.connected = true → (maybeResume s1).tpaused = false)) ∧
    (¬ (s1.size < s1.low ∧ chunksLow s1 = true) → maybeResume s1 = s1) ∧
    (maybeResume s1).size = s1.size ∧ (maybeResume s1).low = s1.low ∧
    chunksLow (maybeResume s1) = chunksLow s1 := by
  unfold maybeResume resumeReading
  by_cases h : (decide (s1.size < s1.low) && chunksLow s1) = true
  · rw [if_pos h]
    refine ⟨fun _ => ?_, fun hn => ?_, ?_, ?_, ?_⟩
    · split <;> simp_all
    · simp at h; exact absurd h hn
    all_goals split <;> rfl
  · rw [if_neg h]
    refine ⟨fun hc => ?_, fun _ => rfl, rfl, rfl, rfl⟩
    simp at h
    exact absurd (h hc.1) (by simp [hc.2])

/-- The single consumption primitive `_read_nowait_chunk` resumes reading iff, after taking its
bytes, the buffered size is below the low-water mark and the pending chunk boundaries are
below the chunk low-water mark; otherwise it leaves the pause flags alone. -/
theorem rnc_resumes_iff_below_low_water (s : S) (n : Option Nat) (hne : s.bufs ≠ []) :
    ((rnc s n).1.size < (rnc s n).1.low ∧ chunksLow (rnc s n).1 = true →
      (rnc s n).1.paused = false ∧ (s.connected = true → (rnc s n).1.tpaused = false)) ∧
    (¬ ((rnc s n).1.size < (rnc s n).1.low ∧ chunksLow (rnc s n).1 = true) →
      (rnc s n).1.paused = s.paused ∧ (rnc s n).1.tpaused = s.tpaused) := by
  cases hb : s.bufs with
  | nil => exact absurd hb hne
  | cons b t =>
    have e : (rnc s n).1 = maybeResume (rncUpd s (rncSel b t s.off n).1 (rncSel b t s.off n).2.1 (rncSel b t s.off n).2.2) := by
      unfold rnc; simp [hb]
    rw [e]
    obtain ⟨h1, h2, h3, h4, h5⟩ := maybeResume_spec (rncUpd s (rncSel b t s.off n).1 (rncSel b t s.off n).2.1 (rncSel b t s.off n).2.2)
    rw [h3, h4, h5]
    refine ⟨fun hc => h1 hc, fun hn => ?_⟩
    rw [h2 hn]
    exact ⟨rfl, rfl⟩

/-
Stated but not proved (covered by the correspondence run and the direct oracle only):

* `readchunk_no_cross`: in every reachable state a `readchunk()` answer `(data, flag)` never
  spans a sender boundary strictly inside it
  (`∀ b ∈ s.bounds, ¬ (s.cursor < b ∧ b < (contReadChunk s it).1.cursor)`), and for a consumer that
  only ever calls `readchunk()` every sender boundary `0 < b < cursor` was answered with `True`.
  Needs the extra invariant "every recorded boundary above the cursor is still in the deque",
  which is temporarily false between `popleft()` and the `_read_nowait` that follows it.
* `consumer_resumes_below_low_water` (operation level): after any consumer call that took at least
  one byte, `size < low ∧ chunksLow → ¬ paused`.  Proved here only for the primitive every call is
  made of (`rnc_resumes_iff_below_low_water`) and, in the form that matters for liveness, as
  `no_stuck_pause`.
-/

/-- **No stuck pause.** With a positive limit, after any operation sequence: a reader
blocked on the (necessarily empty) buffer never has reading paused — neither the protocol
flag nor, while connected, the transport. -/
theorem no_stuck_pause (f : Bool) (limit : Nat) (hl : 0 < limit) (ops : List Op) :
    (exec (initF f limit) ops).waiter = true →
    (exec (initF f limit) ops).bufs = [] ∧ (exec (initF f limit) ops).paused = false ∧
    ((exec (initF f limit) ops).connected = true → (exec (initF f limit) ops).tpaused = false) := by
  intro hw
  have h := inv_exec f limit ops
  have hp : PInv (exec (initF f limit) ops) :=
    exec_pinv (initF_sinv f limit) ⟨by simpa [initF] using hl, by intro h; cases h⟩ ops
  have hb := h.inv.waiter_empty hw
  have hpz : (exec (initF f limit) ops).paused = false := by
    cases hq : (exec (initF f limit) ops).paused with
    | false => rfl
    | true => exact absurd hb (hp.paused_nonempty hq)
  refine ⟨hb, hpz, ?_⟩
  intro hc
  cases ht : (exec (initF f limit) ops).tpaused with
  | false => rfl
  | true => have := h.inv.tp hc ht; rw [hpz] at this; cases this

/-- hypotheses of `no_stuck_pause` are satisfiable: a fresh `readany()` blocks -/
example : (exec (initF true 1) [.readAny false]).waiter = true ∧ (exec (initF false 1) [.readAny false]).waiter = true := by
  decide +kernel

/-- a paused, then drained and resumed run (non-vacuity of the pause/resume theorems) -/
example : (exec (initF true 1) [.feed [1, 2, 3]]).paused = true ∧
    (exec (initF true 1) [.feed [1, 2, 3], .readAny false]).paused = false := by decide +kernel

/-- **End of stream un-pauses.** `feed_eof()` never leaves reading paused, whatever the reason it
was paused for (bytes above high water, chunk count, partially drained between the marks): the
next reader on the connection cannot inherit a paused transport. -/
theorem feed_eof_unpauses (s : S) :
    (feedEof s).1.paused = false ∧ (s.connected = true → (feedEof s).1.tpaused = false) ∧
    (feedEof s).1.eof = true := by
  simp only [feedEof, wake, resumeReading]
  cases s.waiter <;> cases hc : s.connected <;> simp [hc]

/-- **A recorded error is raised by every read call started afterwards** — whatever is buffered
and whether or not `feed_eof` followed: `read(n)`, `read()`, `readany`, `readuntil`/`readline`,
`readexactly`, `readchunk`, `read_nowait` and the four async iterators all raise the exception
installed by `set_exception`; none reports data or a regular end of stream. -/
theorem setChunk_exc (s : S) (n : Nat) : (setChunk s n).exc = s.exc := by
  unfold setChunk; split <;> rfl

theorem exception_raised_by_started_reads (s : S) (e : Nat) (he : s.exc = some e) (hp : s.parked = none) :
    (∀ n it, (step s (.read n it)).2 = .err (.exc e)) ∧
    (∀ it, (step s (.readAny it)).2 = .err (.exc e)) ∧
    (∀ sep m it, sep ≠ [] → (step s (.readUntil sep m it)).2 = .err (.exc e)) ∧
    (∀ n, (step s (.readExactly n)).2 = .err (.exc e)) ∧
    (∀ it, (step s (.readChunk it)).2 = .err (.exc e)) ∧
    (∀ n, (step s (.readNowait n)).2 = .err (.exc e)) := by
  refine ⟨?_, ?_, ?_, ?_, ?_, ?_⟩
  · intro n it
    cases it <;> simp [step, core, consumer, hp, startRead, he, setChunk_exc, raise, iterOut]
  · intro it
    cases it <;> simp [step, core, consumer, hp, startReadAny, he, raise, iterOut]
  · intro sep m it hs
    have : sep.isEmpty = false := by cases sep <;> simp_all
    cases it <;> simp [step, core, consumer, hp, startReadUntil, he, raise, iterOut, this]
  · intro n
    simp [step, core, consumer, hp, startReadExactly, he, raise, iterOut]
  · intro it
    cases it <;> simp [step, core, consumer, hp, contReadChunk, he, raise, iterOut]
  · intro n
    simp [step, core, hp, doReadNowait, he, raise]

/-- **Finding C08-K2…K9 (behaviour before the fix, `recheck = false`).** The guarantee above does
not extend to a call that was already parked: woken by a chunk end that brought no data, with
`set_exception` and `feed_eof` arriving before it resumes, `read(2)` returns `b""` — a regular
end of stream on a failed transfer. -/
theorem resumed_read_clean_end_after_exception :
    (run (initF false 8) [.beginChunk, .feed [120], .readAny false, .read (some 2) false, .endChunk,
                          .setExc 1, .feedEof, .wakeup]).2.getLast? = some (.data []) := by decide +kernel

/-- sibling of the finding (`recheck = false`): same wake-up, the error but no `feed_eof` — the
reader parks again and stays blocked with the exception recorded -/
theorem resumed_read_reparks_with_exception :
    (run (initF false 8) [.beginChunk, .feed [120], .readAny false, .read (some 2) false, .endChunk,
                          .setExc 1, .wakeup]).2.getLast? = some .blocked ∧
    (exec (initF false 8) [.beginChunk, .feed [120], .readAny false, .read (some 2) false, .endChunk,
                           .setExc 1, .wakeup]).waiter = true := by decide +kernel

/-- **With the fix (`recheck = true`): a resumed call raises the recorded error.** In every
reachable state in which an exception is recorded and a parked call (any read API, any bytes
already taken) is resumed, the outcome is that exception or the one its future was resolved
with — never data, never a regular end of stream, never `blocked`. -/
theorem resumed_reads_raise (limit : Nat) (ops : List Op) (e : Nat) :
    (exec (initF true limit) ops).exc = some e → (exec (initF true limit) ops).parked.isSome = true →
    (exec (initF true limit) ops).waiter = false →
    ∃ e', (step (exec (initF true limit) ops) .wakeup).2 = .err (.exc e') := by
  intro he hp hw
  have hs := inv_exec true limit ops
  have hr : (exec (initF true limit) ops).recheck = true := exec_recheck (initF_sinv true limit) ops
  generalize exec (initF true limit) ops = s at *
  cases hpk : s.parked with
  | none => rw [hpk] at hp; cases hp
  | some p =>
    have hfp : s.fut ≠ .pending := by
      intro h; have := hs.inv.fut_pending h; rw [hw] at this; cases this
    cases hf : s.fut with
    | pending => exact absurd hf hfp
    | exc e1 =>
      exact ⟨e1, by cases hi : p.iter <;> simp [step, core, hpk, hw, resume, hf, raise, iterOut, hi]⟩
    | ok =>
      exact ⟨e, by cases hi : p.iter <;> simp [step, core, hpk, hw, resume, hf, hr, he, raise, iterOut, hi]⟩

/-- **With the fix (`recheck = true`): no reader stays blocked once an error is recorded.** After
any operation sequence, an exception recorded on the stream and a pending waiter never coexist
(the sibling hang `resumed_read_reparks_with_exception` is gone). -/
theorem no_block_with_exception (limit : Nat) (ops : List Op) :
    (exec (initF true limit) ops).exc ≠ none → (exec (initF true limit) ops).waiter = false := by
  intro he
  have hr : (exec (initF true limit) ops).recheck = true := exec_recheck (initF_sinv true limit) ops
  have hx : XInv (exec (initF true limit) ops) :=
    exec_xinv (initF_sinv true limit) (by intro _ _; rfl) ops
  exact hx hr he

/-- **The entry check of `_wait()` (fix 2484903) is unreachable in this model's domain.** With the
wake-up re-check in place, a call that parks (`blocked`) never does so with an exception recorded:
every read API checks `_exception` before its first wait and `_wait()` re-checks it after every
wake-up, and without re-entrant feeding nothing records an error while a call is running.  So
"raise the recorded exception on entering `_wait()`" never fires here and the model needs no
flag for it (the re-entrant case it exists for belongs to C09). -/
theorem blocked_implies_no_exception (limit : Nat) (ops : List Op) (op : Op) :
    (step (exec (initF true limit) ops) op).2 = .blocked →
    (step (exec (initF true limit) ops) op).1.exc = none := by
  intro hb
  have hw := (blocked_only_on_empty_buffer true limit ops op).1 hb
  have e : (step (exec (initF true limit) ops) op).1 = exec (initF true limit) (ops ++ [op]) := by
    simp [exec, List.foldl_append]
  rw [e] at hw ⊢
  cases hx : (exec (initF true limit) (ops ++ [op])).exc with
  | none => rfl
  | some x =>
    have := no_block_with_exception limit (ops ++ [op]) (by rw [hx]; simp)
    rw [hw] at this; cases this

/-- the two sequences of the finding, with the fix: both resumed reads raise exception 1 -/
example :
    (run (initF true 8) [.beginChunk, .feed [120], .readAny false, .read (some 2) false, .endChunk,
                         .setExc 1, .feedEof, .wakeup]).2.getLast? = some (.err (.exc 1)) ∧
    (run (initF true 8) [.beginChunk, .feed [120], .readAny false, .read (some 2) false, .endChunk,
                         .setExc 1, .wakeup]).2.getLast? = some (.err (.exc 1)) := by decide +kernel

/-- **Known finding (limit = 0).** `no_stuck_pause` needs `0 < limit`: with `limit = 0`,
feeding two bytes pauses (2 > 0), `readany()` drains them without resuming (0 < 0 is false),
and the next `readany()` parks on the empty buffer with reading paused. -/
theorem limit_zero_wedges : ∀ f : Bool,
    let s := exec (initF f 0) [.feed [97, 98], .readAny false, .readAny false]
    s.waiter = true ∧ s.bufs = [] ∧ s.paused = true ∧ s.tpaused = true := by decide +kernel

end Aio.C08
