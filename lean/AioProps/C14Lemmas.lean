import AioModel.C14
/-!
# C14 — helper lemmas (string helpers, the index walk, scanning answers)
-/
namespace Aio.C14
open Aio

/-- `k` is `p` itself or a proper prefix of `p` that ends right before a `/` -/
def Anc (k p : Str) : Prop := k = p ∨ ∃ rest, p = k ++ SL :: rest

def StartsSL (p : Str) : Prop := p.head? = some SL

theorem Anc.refl (p : Str) : Anc p p := Or.inl rfl

theorem Anc.trans {a b c : Str} (h1 : Anc a b) (h2 : Anc b c) : Anc a c := by
  rcases h1 with rfl | ⟨r1, rfl⟩
  · exact h2
  · rcases h2 with rfl | ⟨r2, rfl⟩
    · exact Or.inr ⟨r1, rfl⟩
    · exact Or.inr ⟨r1 ++ SL :: r2, by simp⟩

theorem Anc.length_le {k p : Str} (h : Anc k p) : k.length ≤ p.length := by
  rcases h with rfl | ⟨r, rfl⟩ <;> simp

theorem Anc.prefix_append {k b : Str} (r : Str) (h : Anc k b) (hne : k ≠ b) : Anc k (b ++ r) := by
  rcases h with rfl | ⟨r1, rfl⟩
  · exact absurd rfl hne
  · exact Or.inr ⟨r1 ++ r, by simp⟩

/-! ## rpHead / rstripSlash -/

theorem rpHead_append_slash (k rest : Str) :
    rpHead (k ++ SL :: rest) = if rest.contains SL then k ++ SL :: rpHead rest else k := by
  induction k with
  | nil => simp [rpHead]
  | cons c k ih =>
    have : (k ++ SL :: rest).contains SL = true := by simp
    simp only [List.cons_append, rpHead, this, if_true, ih]
    split <;> simp

theorem rpHead_nocontains (s : Str) (h : s.contains SL = false) : rpHead s = [] := by
  cases s with
  | nil => rfl
  | cons c t =>
    have : SL ∉ t := by
      simp only [List.contains_eq_mem, List.mem_cons, decide_eq_false_iff_not] at h
      intro hm; exact h (Or.inr hm)
    simp [rpHead, this]

/-- decomposition at the last slash -/
theorem rpHead_spec (s : Str) (h : s.contains SL = true) : ∃ tl, s = rpHead s ++ SL :: tl := by
  induction s with
  | nil => simp at h
  | cons c t ih =>
    simp only [rpHead]
    by_cases ht : t.contains SL = true
    · obtain ⟨tl, htl⟩ := ih ht
      refine ⟨tl, ?_⟩
      simp only [ht, if_true, List.cons_append]
      exact congrArg _ htl
    · have ht' : t.contains SL = false := by simpa using ht
      have hc : c = SL := by
        simp only [List.contains_eq_mem, List.mem_cons, decide_eq_true_eq] at h
        rcases h with h | h
        · exact h.symm
        · simp only [List.contains_eq_mem, decide_eq_false_iff_not] at ht'
          exact absurd h ht'
      have hm : SL ∉ t := by simpa using ht'
      exact ⟨t, by simp [hm, hc]⟩

theorem anc_rpHead (s : Str) (h : s.contains SL = true) : Anc (rpHead s) s :=
  Or.inr (rpHead_spec s h)

theorem rpHead_length_lt (s : Str) (h : s ≠ []) : (rpHead s).length < s.length := by
  induction s with
  | nil => exact absurd rfl h
  | cons c t ih =>
    simp only [rpHead]
    split
    · next ht =>
      have : t ≠ [] := by intro e; simp [e] at ht
      have := ih this
      simp; omega
    · simp

theorem anc_rstrip (s : Str) : Anc (rstripSlash s) s := by
  induction s with
  | nil => exact Or.inl rfl
  | cons c t ih =>
    simp only [rstripSlash]
    cases hr : rstripSlash t with
    | nil =>
      rw [hr] at ih
      by_cases hc : c = SL
      · simp only [hc, if_true]
        exact Or.inr ⟨t, rfl⟩
      · simp only [hc, if_false]
        rcases ih with h | ⟨r, h⟩
        · exact Or.inl (by rw [← h])
        · exact Or.inr ⟨r, by rw [h]; rfl⟩
    | cons d r =>
      rw [hr] at ih
      rcases ih with h | ⟨r', h⟩
      · exact Or.inl (by rw [← h])
      · exact Or.inr ⟨r', by rw [h]; rfl⟩

theorem startsSL_ne_nil {p : Str} (h : StartsSL p) : p ≠ [] := by
  intro e; simp [StartsSL, e] at h

theorem rpHead_startsSL {p : Str} (h : StartsSL p) (hne : rpHead p ≠ []) : StartsSL (rpHead p) := by
  cases p with
  | nil => simp [StartsSL] at h
  | cons c t =>
    simp only [StartsSL, List.head?_cons, Option.some.injEq] at h
    subst h
    simp only [rpHead] at hne ⊢
    split
    · simp [StartsSL]
    · next ht =>
      have hm : SL ∉ t := by simpa using ht
      simp [hm] at hne

theorem parent_startsSL {p : Str} (h : StartsSL p) : StartsSL (parent p) := by
  unfold parent orSlash
  split
  · simp [StartsSL]
  · next hne => exact rpHead_startsSL h (by intro e; simp [e] at hne)

theorem parent_length_lt {p : Str} (h : StartsSL p) (hne : p ≠ [SL]) : (parent p).length < p.length := by
  unfold parent orSlash
  split
  · cases p with
    | nil => simp [StartsSL] at h
    | cons c t =>
      simp only [StartsSL, List.head?_cons, Option.some.injEq] at h
      subst h
      cases t with
      | nil => exact absurd rfl hne
      | cons d t' => simp
  · exact rpHead_length_lt p (startsSL_ne_nil h)

theorem anc_parent {p : Str} (hne : rpHead p ≠ []) : Anc (parent p) p := by
  have hc : p.contains SL = true := by
    cases h : p.contains SL
    · exact absurd (rpHead_nocontains p h) hne
    · rfl
  unfold parent orSlash
  have : (rpHead p).isEmpty = false := by cases h : rpHead p <;> simp_all
  simp only [this]
  exact anc_rpHead p hc

/-! ## the walk -/

theorem mem_walkAux_self_or (f : Nat) (p k : Str) (hp : StartsSL p) (hk : k ∈ walkAux f p) :
    (k = [SL] ∨ Anc k p) ∧ StartsSL k := by
  induction f generalizing p with
  | zero => simp [walkAux] at hk
  | succ f ih =>
    simp only [walkAux] at hk
    split at hk
    · next e => simp at hk; subst hk; exact ⟨Or.inl e, hp⟩
    · simp only [List.mem_cons] at hk
      rcases hk with rfl | hk
      · exact ⟨Or.inr (Anc.refl _), hp⟩
      · have ⟨h1, h2⟩ := ih (parent p) (parent_startsSL hp) hk
        refine ⟨?_, h2⟩
        rcases h1 with h1 | h1
        · exact Or.inl h1
        · by_cases hr : rpHead p = []
          · have : parent p = [SL] := by simp [parent, orSlash, hr]
            rw [this] at h1
            rcases h1 with h1 | ⟨r, h1⟩
            · exact Or.inl h1
            · cases k with
              | nil => simp [StartsSL] at h2
              | cons c k' => simp at h1
          · exact Or.inr (h1.trans (anc_parent hr))

theorem walkAux_length_le (f : Nat) (p k : Str) (hp : StartsSL p) (hk : k ∈ walkAux f p) :
    k.length ≤ p.length := by
  have ⟨h1, _⟩ := mem_walkAux_self_or f p k hp hk
  rcases h1 with rfl | h1
  · have := startsSL_ne_nil hp
    cases p with
    | nil => exact absurd rfl this
    | cons c t => simp
  · exact h1.length_le

theorem mem_walkAux_of_anc (f : Nat) (p k : Str) (hp : StartsSL p) (hf : p.length ≤ f)
    (ha : Anc k p) (hk : k ≠ []) : k ∈ walkAux f p := by
  induction f generalizing p with
  | zero =>
    have := startsSL_ne_nil hp
    cases p with
    | nil => exact absurd rfl this
    | cons c t => simp at hf
  | succ f ih =>
    simp only [walkAux]
    split
    · next e =>
      subst e
      rcases ha with rfl | ⟨r, h⟩
      · simp
      · cases k with
        | nil => exact absurd rfl hk
        | cons c k' => simp at h
    · next hne =>
      rcases ha with rfl | ⟨rest, h⟩
      · simp
      · refine List.mem_cons_of_mem _ (ih (parent p) (parent_startsSL hp) ?_ ?_)
        · have := parent_length_lt hp hne; omega
        · subst h
          unfold parent
          rw [rpHead_append_slash]
          split
          · have : (k ++ SL :: rpHead rest).isEmpty = false := by cases k <;> simp
            simp only [orSlash, this]
            exact Or.inr ⟨rpHead rest, rfl⟩
          · have : k.isEmpty = false := by cases k <;> simp_all
            simp only [orSlash, this]
            exact Or.inl rfl

theorem slash_mem_walkAux (f : Nat) (p : Str) (hp : StartsSL p) (hf : p.length ≤ f) :
    [SL] ∈ walkAux f p := by
  induction f generalizing p with
  | zero =>
    have := startsSL_ne_nil hp
    cases p with
    | nil => exact absurd rfl this
    | cons c t => simp at hf
  | succ f ih =>
    simp only [walkAux]
    split
    · next e => simp [e]
    · next hne =>
      refine List.mem_cons_of_mem _ (ih (parent p) (parent_startsSL hp) ?_)
      have := parent_length_lt hp hne; omega

theorem walkAux_pairwise (f : Nat) (p : Str) (hp : StartsSL p) :
    (walkAux f p).Pairwise (fun a b => b.length < a.length) := by
  induction f generalizing p with
  | zero => simp [walkAux]
  | succ f ih =>
    simp only [walkAux]
    split
    · simp
    · next hne =>
      refine List.pairwise_cons.mpr ⟨?_, ih (parent p) (parent_startsSL hp)⟩
      intro k hk
      have := walkAux_length_le f (parent p) k (parent_startsSL hp) hk
      have := parent_length_lt hp hne
      omega

theorem walk_eq {p : Str} (hp : StartsSL p) : walk p = walkAux (p.length + 1) p := by
  have := startsSL_ne_nil hp
  unfold walk
  cases p with
  | nil => exact absurd rfl this
  | cons c t => simp

theorem mem_walk_of_anc {p k : Str} (hp : StartsSL p) (ha : Anc k p) (hk : k ≠ []) : k ∈ walk p := by
  rw [walk_eq hp]; exact mem_walkAux_of_anc _ p k hp (by omega) ha hk

theorem slash_mem_walk {p : Str} (hp : StartsSL p) : [SL] ∈ walk p := by
  rw [walk_eq hp]; exact slash_mem_walkAux _ p hp (by omega)

/-- anything `Anc`-related to the path, with the empty string replaced by `/`, is visited -/
theorem orSlash_mem_walk {p k : Str} (hp : StartsSL p) (ha : Anc k p) : orSlash k ∈ walk p := by
  unfold orSlash
  cases k with
  | nil => exact slash_mem_walk hp
  | cons c k' => exact mem_walk_of_anc hp ha (by simp)

theorem mem_walk_cases {p k : Str} (hp : StartsSL p) (hk : k ∈ walk p) : k = [SL] ∨ Anc k p := by
  rw [walk_eq hp] at hk; exact (mem_walkAux_self_or _ p k hp hk).1

theorem walk_length_le {p k : Str} (hp : StartsSL p) (hk : k ∈ walk p) : k.length ≤ p.length := by
  rw [walk_eq hp] at hk; exact walkAux_length_le _ p k hp hk

theorem walk_pairwise {p : Str} (hp : StartsSL p) :
    (walk p).Pairwise (fun a b => b.length < a.length) := by
  rw [walk_eq hp]; exact walkAux_pairwise _ p hp


/-! ## index keys lie on the walk -/

theorem key_of_prefix {p b r : Str} (hp : StartsSL p) (h : p = b ++ r) :
    orSlash (rstripSlash (rpHead b)) ∈ walk p := by
  cases hc : b.contains SL with
  | false =>
    rw [rpHead_nocontains b hc]
    simp only [rstripSlash, orSlash, List.isEmpty_nil, if_true]
    exact slash_mem_walk hp
  | true =>
    have hb : b ≠ [] := by intro e; simp [e] at hc
    have h1 : Anc (rpHead b) b := anc_rpHead b hc
    have h2 : rpHead b ≠ b := by
      intro e
      have := rpHead_length_lt b hb
      rw [e] at this; omega
    have h3 : Anc (rpHead b) p := by rw [h]; exact h1.prefix_append r h2
    exact orSlash_mem_walk hp ((anc_rstrip _).trans h3)

theorem takeWhile_prefix (f : Nat → Bool) (l : Str) : ∃ r, l = l.takeWhile f ++ r :=
  ⟨l.dropWhile f, (List.takeWhile_append_dropWhile).symm⟩

theorem indexKey_mem_walk {p c : Str} (hp : StartsSL p) (ha : Anc c p) : indexKey c ∈ walk p := by
  unfold indexKey
  split
  · obtain ⟨r1, h1⟩ := takeWhile_prefix (· ≠ LB) c
    have : ∃ r, p = beforeBrace c ++ r := by
      rcases ha with rfl | ⟨r2, rfl⟩
      · exact ⟨r1, h1⟩
      · exact ⟨r1 ++ SL :: r2, by
          show c ++ SL :: r2 = List.takeWhile (· ≠ LB) c ++ (r1 ++ SL :: r2)
          rw [← List.append_assoc, ← h1]⟩
    obtain ⟨r, hr⟩ := this
    exact key_of_prefix hp hr
  · exact orSlash_mem_walk hp ((anc_rstrip c).trans ha)

theorem isPrefix_spec (l s : Str) (h : isPrefix l s = true) : s = l ++ s.drop l.length := by
  induction l generalizing s with
  | nil => simp
  | cons a l ih =>
    cases s with
    | nil => simp [isPrefix] at h
    | cons b s =>
      simp only [isPrefix, Bool.and_eq_true, beq_iff_eq] at h
      obtain ⟨rfl, h2⟩ := h
      simp only [List.cons_append, List.length_cons, List.drop_succ_cons]
      exact congrArg _ (ih s h2)

theorem isPrefix_append_self (l r : Str) : isPrefix l (l ++ r) = true := by
  induction l with
  | nil => cases r <;> simp [isPrefix]
  | cons a l ih => simp [isPrefix, ih]

theorem underPrefix_anc {pfx p : Str} (h : underPrefix pfx p = true) : Anc pfx p := by
  simp only [underPrefix, Bool.or_eq_true, beq_iff_eq] at h
  rcases h with h | h
  · exact Or.inl h.symm
  · have := isPrefix_spec _ _ h
    exact Or.inr ⟨p.drop (pfx ++ [SL]).length, by rw [this]; simp⟩

theorem anc_underPrefix {pfx p : Str} (h : Anc pfx p) : underPrefix pfx p = true := by
  simp only [underPrefix, Bool.or_eq_true, beq_iff_eq]
  rcases h with rfl | ⟨r, rfl⟩
  · exact Or.inl rfl
  · right
    have := isPrefix_append_self (pfx ++ [SL]) r
    simpa using this

/-- leading literal text of a compiled pattern -/
def leadLits : List Part → Str
  | .lit s :: ps => s ++ leadLits ps
  | _ => []

def allLits : List Part → Bool
  | [] => true
  | .lit _ :: ps => allLits ps
  | .var _ _ _ :: _ => false

theorem formatter_shape (ps : List Part) :
    (allLits ps = true ∧ formatter ps = leadLits ps) ∨ (∃ t, formatter ps = leadLits ps ++ LB :: t) := by
  induction ps with
  | nil => left; simp [allLits, formatter, leadLits]
  | cons a ps ih =>
    cases a with
    | lit s =>
      rcases ih with ⟨h1, h2⟩ | ⟨t, h⟩
      · left; simp [allLits, formatter, leadLits, h1, h2]
      · right; exact ⟨t, by simp [formatter, leadLits, h]⟩
    | var n rs mn => right; exact ⟨n ++ [RB] ++ formatter ps, by simp [formatter, leadLits]⟩

theorem tryLen_some {k : Str → Option Dict} {name s : Str} {mn n : Nat} {d : Dict}
    (h : tryLen k name s mn n = some d) : ∃ j d', k (s.drop j) = some d' := by
  induction n with
  | zero =>
    simp only [tryLen] at h
    split at h
    · cases hk : k s with
      | none => simp [hk] at h
      | some d' => exact ⟨0, d', by simpa using hk⟩
    · cases h
  | succ n ih =>
    simp only [tryLen] at h
    split at h
    · cases h
    · split at h
      · next d' hd => exact ⟨n + 1, d', hd⟩
      · exact ih h

theorem matchFrom_leadLits (ps : List Part) (p : Str) (d : Dict) (h : matchFrom ps p = some d) :
    ∃ r, p = leadLits ps ++ r := by
  induction ps generalizing p d with
  | nil => exact ⟨p, by simp [leadLits]⟩
  | cons a ps ih =>
    cases a with
    | lit l =>
      simp only [matchFrom] at h
      split at h
      · next hp =>
        obtain ⟨r, hr⟩ := ih _ _ h
        refine ⟨r, ?_⟩
        rw [isPrefix_spec l p hp, hr]
        simp [leadLits]
      · cases h
    | var n rs mn => exact ⟨p, by simp [leadLits]⟩

theorem matchFrom_allLits (ps : List Part) (p : Str) (d : Dict) (h : matchFrom ps p = some d)
    (ha : allLits ps = true) : p = leadLits ps := by
  induction ps generalizing p d with
  | nil =>
    simp only [matchFrom] at h
    split at h
    · next he => simpa [leadLits] using he
    · cases h
  | cons a ps ih =>
    cases a with
    | lit l =>
      simp only [matchFrom] at h
      split at h
      · next hp =>
        have := ih _ _ h (by simpa [allLits] using ha)
        rw [isPrefix_spec l p hp, this]
        simp [leadLits]
      · cases h
    | var n rs mn => simp [allLits] at ha

theorem beforeBrace_append_brace (l t : Str) : ∃ r, l = beforeBrace (l ++ LB :: t) ++ r := by
  induction l with
  | nil => exact ⟨[], by simp [beforeBrace]⟩
  | cons c l ih =>
    by_cases hc : c = LB
    · exact ⟨c :: l, by simp [beforeBrace, hc]⟩
    · obtain ⟨r, hr⟩ := ih
      refine ⟨r, ?_⟩
      simp only [beforeBrace] at hr ⊢
      simp only [List.cons_append, ne_eq, hc, not_false_eq_true, decide_true, List.takeWhile_cons_of_pos]
      exact congrArg _ hr

theorem dyn_key_mem_walk {ps : List Part} {p : Str} {d : Dict} (hp : StartsSL p)
    (h : matchFrom ps p = some d) : indexKey (formatter ps) ∈ walk p := by
  rcases formatter_shape ps with ⟨h1, h2⟩ | ⟨t, ht⟩
  · have := matchFrom_allLits ps p d h h1
    rw [h2, ← this]
    exact indexKey_mem_walk hp (Anc.refl p)
  · obtain ⟨r, hr⟩ := matchFrom_leadLits ps p d h
    unfold indexKey
    have hc : (formatter ps).contains LB = true := by rw [ht]; simp
    simp only [hc, if_true]
    obtain ⟨r', hr'⟩ := beforeBrace_append_brace (leadLits ps) t
    rw [ht]
    refine key_of_prefix hp (r := r' ++ r) ?_
    rw [← List.append_assoc, ← hr', hr]

/-! ## completeness and soundness of the index for one resource -/

/-- well-formed prefix of a sub-application / static resource: empty, or its own index key and not `/` -/
def PfxWF (pfx : Str) : Prop := pfx = [] ∨ (indexKey pfx = pfx ∧ pfx ≠ [SL])

theorem ansRoutes_none (rts : Routes) (m : Str) : ansRoutes rts none m = .pass [] := rfl

/-- **index_complete** (one resource): a resource that does not answer "not me, no methods"
by the documented rule has its index key among the visited url parts. -/
theorem key_mem_walk_of_answer (rec : Table → Req → Result) (r : Res) (q : Req)
    (hp : StartsSL q.path) (hd : isDom r = false) (h : ansSpecWith rec r q ≠ .pass []) :
    keyOf r ∈ walk q.path := by
  cases r with
  | plain p rts =>
    simp only [ansSpecWith, ansLeaf] at h
    by_cases he : p = q.path
    · simp only [keyOf, canonical, he]
      exact indexKey_mem_walk hp (Anc.refl _)
    · have : (p == q.path) = false := by simpa using he
      simp [this, ansRoutes_none] at h
  | dyn o ps rts =>
    simp only [ansSpecWith, ansLeaf, dynMatch] at h
    cases hm : matchFrom ps q.path with
    | none => simp [hm, ansRoutes_none] at h
    | some d => exact dyn_key_mem_walk hp hm
  | static pfx rts =>
    simp only [ansSpecWith] at h
    cases hu : underPrefix pfx q.path with
    | false => simp [hu] at h
    | true => exact indexKey_mem_walk hp (underPrefix_anc hu)
  | sub pfx t =>
    simp only [ansSpecWith] at h
    cases hu : underPrefix pfx q.path with
    | false => simp [hu] at h
    | true => exact indexKey_mem_walk hp (underPrefix_anc hu)
  | dom rule t => simp [isDom] at hd

theorem underPrefix_of_key_mem_walk {pfx p : Str} (hp : StartsSL p) (hw : PfxWF pfx)
    (hk : indexKey pfx ∈ walk p) : underPrefix pfx p = true := by
  rcases hw with rfl | ⟨h1, h2⟩
  · cases p with
    | nil => simp [StartsSL] at hp
    | cons c t =>
      simp only [StartsSL, List.head?_cons, Option.some.injEq] at hp
      subst hp
      simp [underPrefix, isPrefix]
  · rw [h1] at hk
    rcases mem_walk_cases hp hk with h | h
    · exact absurd h h2
    · exact anc_underPrefix h


/-! ## scanning answers -/

def inert : Ans → Bool
  | .pass [] => true
  | _ => false

/-- drop the answers "not me, no methods" -/
def nz (l : List Ans) : List Ans := l.filter (fun a => !inert a)

theorem inert_iff (a : Ans) : inert a = true ↔ a = .pass [] := by
  cases a with
  | final r => simp [inert]
  | pass l => cases l <;> simp [inert]

theorem combine_nz (l : List Ans) (acc : List Str) : combine (nz l) acc = combine l acc := by
  induction l generalizing acc with
  | nil => rfl
  | cons a l ih =>
    cases a with
    | final r => simp [nz, inert, combine]
    | pass m =>
      cases m with
      | nil =>
        have : nz (Ans.pass [] :: l) = nz l := by simp [nz, inert]
        rw [this, ih]; simp [combine]
      | cons x xs =>
        have : nz (Ans.pass (x :: xs) :: l) = Ans.pass (x :: xs) :: nz l := by simp [nz, inert]
        rw [this]; simp only [combine]; exact ih _

theorem nz_append (a b : List Ans) : nz (a ++ b) = nz a ++ nz b := by simp [nz]

theorem nz_filter_map_congr (rs : List Res) (P Q : Res → Bool) (a : Res → Ans)
    (h1 : ∀ r ∈ rs, P r = true → Q r = true)
    (h2 : ∀ r ∈ rs, Q r = true → P r = false → a r = .pass []) :
    nz ((rs.filter Q).map a) = nz ((rs.filter P).map a) := by
  induction rs with
  | nil => rfl
  | cons r rs ih =>
    have ih' := ih (fun x hx => h1 x (List.mem_cons_of_mem _ hx)) (fun x hx => h2 x (List.mem_cons_of_mem _ hx))
    cases hP : P r with
    | true =>
      have hQ := h1 r (List.mem_cons_self ..) hP
      simp only [List.filter_cons, hP, hQ, if_true, List.map_cons]
      show nz ([a r] ++ _) = nz ([a r] ++ _)
      rw [nz_append, nz_append, ih']
    | false =>
      cases hQ : Q r with
      | true =>
        have := h2 r (List.mem_cons_self ..) hQ hP
        simp only [List.filter_cons, hP, hQ, if_true, List.map_cons, this]
        show nz ([Ans.pass []] ++ _) = _
        rw [nz_append, ih']
        simp [nz, inert]
      | false =>
        simp only [List.filter_cons, hP, hQ]
        exact ih'

theorem nz_all_inert (rs : List Res) (Q : Res → Bool) (a : Res → Ans)
    (h : ∀ r ∈ rs, Q r = true → a r = .pass []) : nz ((rs.filter Q).map a) = [] := by
  have := nz_filter_map_congr rs (fun _ => false) Q a (by simp) (fun r hr hq _ => h r hr hq)
  rw [this]; simp [nz]

/-- scanning the buckets of a strictly shortening key chain `W` = scanning all depths downwards,
provided every resource whose key is not on the chain is inert -/
theorem scan_eq (rs : List Res) (key : Res → Str) (dom : Res → Bool) (a : Res → Ans) :
    ∀ (n : Nat) (W : List Str), W.Pairwise (fun x y => y.length < x.length) →
      (∀ k ∈ W, k.length < n) →
      (∀ r ∈ rs, dom r = false → (key r).length < n → key r ∉ W → a r = .pass []) →
      nz (W.flatMap (fun k => (rs.filter (fun r => !dom r && key r == k)).map a)) =
      nz ((descFrom n).flatMap (fun m => (rs.filter (fun r => !dom r && (key r).length == m)).map a)) := by
  intro n
  induction n with
  | zero =>
    intro W _ hlen _
    cases W with
    | nil => simp [descFrom, nz]
    | cons k W' => have := hlen k (List.mem_cons_self ..); omega
  | succ n ih =>
    intro W hpw hlen hin
    simp only [descFrom, List.flatMap_cons, nz_append]
    by_cases hall : ∀ k ∈ W, k.length < n
    · -- nothing on the chain has depth n: the depth-n bucket is inert
      have h0 : nz ((rs.filter (fun r => !dom r && (key r).length == n)).map a) = [] := by
        apply nz_all_inert
        intro r hr hq
        simp only [Bool.and_eq_true, Bool.not_eq_true', beq_iff_eq] at hq
        refine hin r hr hq.1 (by omega) ?_
        intro hm; have := hall _ hm; omega
      rw [h0, List.nil_append]
      exact ih W hpw hall (fun r hr hd hl hm => hin r hr hd (by omega) hm)
    · -- the head of the chain has depth exactly n
      cases W with
      | nil => exact absurd (by simp) hall
      | cons k W' =>
        have hk : k.length = n := by
          have h1 := hlen k (List.mem_cons_self ..)
          have hW' : ∀ k' ∈ W', k'.length < k.length := (List.pairwise_cons.mp hpw).1
          by_cases hkn : k.length < n
          · exfalso; apply hall
            intro k' hk'
            rcases List.mem_cons.mp hk' with rfl | hk'
            · exact hkn
            · have := hW' _ hk'; omega
          · omega
        have hW' : ∀ k' ∈ W', k'.length < n := by
          intro k' hk'; have := (List.pairwise_cons.mp hpw).1 k' hk'; omega
        simp only [List.flatMap_cons, nz_append]
        have hb : nz ((rs.filter (fun r => !dom r && (key r).length == n)).map a) =
            nz ((rs.filter (fun r => !dom r && key r == k)).map a) := by
          apply nz_filter_map_congr
          · intro r _ hp
            simp only [Bool.and_eq_true, Bool.not_eq_true', beq_iff_eq] at hp ⊢
            exact ⟨hp.1, by rw [hp.2]; exact hk⟩
          · intro r hr hq hp
            simp only [Bool.and_eq_true, Bool.not_eq_true', beq_iff_eq] at hq
            have hne : key r ≠ k := by
              intro e
              simp [hq.1, e] at hp
            refine hin r hr hq.1 (by omega) ?_
            intro hm
            rcases List.mem_cons.mp hm with e | hm
            · exact hne e
            · have := hW' _ hm; omega
        rw [hb]
        congr 1
        refine ih W' (List.pairwise_cons.mp hpw).2 hW' ?_
        intro r hr hd hl hm
        refine hin r hr hd (by omega) ?_
        intro hm'
        rcases List.mem_cons.mp hm' with e | hm'
        · rw [e] at hl; omega
        · exact hm hm'

/-! ## positions and buckets -/

/-- positions of the resources satisfying `P` -/
def positions (P : Res → Bool) (rs : List Res) : List Nat :=
  (List.range rs.length).filter (fun i => match rs[i]? with | some r => P r | none => false)

theorem atPositions_map_succ (r : Res) (rs : List Res) (is : List Nat) :
    atPositions (r :: rs) (is.map (· + 1)) = atPositions rs is := by
  induction is with
  | nil => rfl
  | cons i is ih =>
    simp only [atPositions, List.map_cons, List.filterMap_cons, List.getElem?_cons_succ] at ih ⊢
    rw [ih]

theorem positions_cons (P : Res → Bool) (r : Res) (rs : List Res) :
    positions P (r :: rs) = (if P r then [0] else []) ++ (positions P rs).map (· + 1) := by
  unfold positions
  rw [List.length_cons, List.range_succ_eq_map, List.filter_cons]
  have hfg : ((fun i => match (r :: rs)[i]? with | some r => P r | none => false) ∘ Nat.succ) =
      (fun i => match rs[i]? with | some r => P r | none => false) := by
    funext i; simp [Function.comp]
  simp only [List.getElem?_cons_zero, List.filter_map, hfg]
  have hm : ∀ l : List Nat, List.map Nat.succ l = List.map (· + 1) l := fun l => rfl
  split <;> simp [hm]

theorem atPositions_positions (P : Res → Bool) (rs : List Res) :
    atPositions rs (positions P rs) = rs.filter P := by
  induction rs with
  | nil => simp [positions, atPositions]
  | cons r rs ih =>
    rw [positions_cons]
    have e := atPositions_map_succ r rs (positions P rs)
    cases hP : P r with
    | true =>
      have : atPositions (r :: rs) ([0] ++ (positions P rs).map (· + 1)) =
          r :: atPositions (r :: rs) ((positions P rs).map (· + 1)) := by
        simp [atPositions]
      simp only [if_true, this, e, ih, List.filter_cons, hP]
    | false =>
      simp only [Bool.false_eq_true, if_false, List.nil_append, e, ih, List.filter_cons, hP]


/-! ## registration keeps the index consistent -/

theorem positions_append_singleton (P : Res → Bool) (rs : List Res) (r : Res) :
    positions P (rs ++ [r]) = positions P rs ++ (if P r then [rs.length] else []) := by
  unfold positions
  rw [List.length_append, List.length_singleton, List.range_succ, List.filter_append]
  congr 1
  · apply List.filter_congr
    intro i hi
    have hi' : i < rs.length := List.mem_range.mp hi
    rw [List.getElem?_append_left hi']
  · simp [List.filter_cons]

theorem bucketOf_indexAdd (idx : List (Str × List Nat)) (k k' : Str) (i : Nat) :
    bucketOf (indexAdd idx k i) k' = if k' = k then bucketOf idx k' ++ [i] else bucketOf idx k' := by
  induction idx with
  | nil =>
    by_cases h : k' = k
    · subst h; simp [indexAdd, bucketOf]
    · have : (k == k') = false := by simpa using fun e => h e.symm
      simp [indexAdd, bucketOf, h, this]
  | cons e es ih =>
    simp only [indexAdd]
    by_cases he : e.1 = k
    · have hb : (e.1 == k) = true := by simpa using he
      simp only [hb, if_true]
      by_cases h : k' = k
      · subst h
        have : (e.1 == k') = true := hb
        simp [bucketOf, List.find?_cons, this]
      · have : (e.1 == k') = false := by rw [he]; simpa using fun e => h e.symm
        simp [bucketOf, List.find?_cons, this, h]
    · have hb : (e.1 == k) = false := by simpa using he
      simp only [hb]
      by_cases h : e.1 = k'
      · have hb' : (e.1 == k') = true := by simpa using h
        have hne : k' ≠ k := by rw [← h]; exact he
        simp [bucketOf, List.find?_cons, hb', hne]
      · have hb' : (e.1 == k') = false := by simpa using h
        have : bucketOf (e :: indexAdd es k i) k' = bucketOf (indexAdd es k i) k' := by
          simp [bucketOf, List.find?_cons, hb']
        have this' : bucketOf (e :: es) k' = bucketOf es k' := by
          simp [bucketOf, List.find?_cons, hb']
        simp only [Bool.false_eq_true, if_false]
        rw [this, this', ih]

end Aio.C14
