import AioModel.C07
import AioProps.C07Lemmas
/-!
# C07 — connection pool: limits hold, nothing leaks, no waiter is forgotten

All theorems quantify over **every label sequence** `ls` (every interleaving, at await
granularity, of spawns, single event-loop callbacks, connection attempts succeeding or failing,
cancellations, connect timeouts, releases, lost idle connections, connector close, shuffle
results, returns of trace callbacks, passage of time and firings of the keep-alive sweep) from the initial state of any number of tasks with any
keys, any limits and any set `mask` of trace hooks whose callbacks really suspend
(on_connection_reuseconn / queued_start / queued_end / create_start / create_end).

They are about `step Fixes.all`, the model of `BaseConnector` with the five repairs switched on
(AioModel/C07.lean; the repaired code was checked to conform to this model by the same trace
conformance run as the unrepaired one).  For `Fixes.none` — the code as it is — the four
`*_unfixed` theorems are kernel-checked counterexamples.
-/
namespace Aio.C07

/-- **limit_inv.** After every label sequence the number of entries of `_acquired` (connections in
use + placeholders of connections being established) is at most `limit` (0 = unlimited) and, for
every key, the number of entries of `_acquired_per_host[key]` is at most `limit_per_host`. -/
theorem limit_inv (limit lph mask ka : Nat) (keys : List Key) (ls : List Label) :
    let s := run Fixes.all (init limit lph keys mask ka) ls
    (s.limit = 0 ∨ s.acquired.length ≤ s.limit) ∧ (s.lph = 0 ∨ ∀ k, hostCount s k ≤ s.lph) := by
  have h := (inv_run (inv_init limit lph keys mask ka).1 (inv_init limit lph keys mask ka).2 ls).1
  exact ⟨h.lim, h.limh⟩

/-- **attempts are counted.** While the connector is open, every task that is establishing a connection
has its placeholder in `_acquired` (and in `_acquired_per_host` under its key when a per-host limit
is set): the count bounded by `limit_inv` really includes every connection attempt in progress. -/
theorem attempts_counted (limit lph mask ka : Nat) (keys : List Key) (ls : List Label) (t : Tid) (r : Option Bool) :
    let s := run Fixes.all (init limit lph keys mask ka) ls
    s.closed = false → pcOf s t = some (.creating r) →
      Slot.ph t ∈ s.acquired ∧ (s.lph ≠ 0 → (keyOf s t, Slot.ph t) ∈ s.perHost) := by
  intro s hc hp
  exact (inv_run (inv_init limit lph keys mask ka).1 (inv_init limit lph keys mask ka).2 ls).1.ph_present hc t r hp

/-- a request is live while it is queued to start, waits for a slot, establishes or holds a connection -/
def Pc.live : Pc → Prop
  | .start => True | .waiting => True | .creating _ => True | .holding _ => True
  | _ => False

/-- **no_leak.** In any reachable state in which no request is live (every task has not started, has
released its connection, or has failed / was cancelled / timed out) nothing remains counted:
`_acquired`, `_acquired_per_host` and the waiter queues are empty.  (Quiescence is not even needed.) -/
theorem no_leak (limit lph mask ka : Nat) (keys : List Key) (ls : List Label) :
    let s := run Fixes.all (init limit lph keys mask ka) ls
    (∀ t pc, pcOf s t = some pc → ¬ pc.live) → s.acquired = [] ∧ s.perHost = [] ∧ s.waitq = [] := by
  intro s hdead
  have h := inv_run (inv_init limit lph keys mask ka).1 (inv_init limit lph keys mask ka).2 ls
  refine ⟨?_, ?_, ?_⟩
  · apply List.eq_nil_iff_forall_not_mem.mpr
    intro sl hm
    cases sl with
    | ph t => obtain ⟨r, hr⟩ := h.1.ph_owner t hm; exact hdead t _ hr trivial
    | conn c => obtain ⟨t, hr⟩ := h.1.conn_owner c hm; exact hdead t _ hr trivial
  · apply List.eq_nil_iff_forall_not_mem.mpr
    intro ⟨k, sl⟩ hm
    cases sl with
    | ph t => obtain ⟨_, r, hr⟩ := h.1.hph_owner k t hm; exact hdead t _ hr trivial
    | conn c => obtain ⟨t, _, hr⟩ := h.1.hconn_owner k c hm; exact hdead t _ hr trivial
  · apply List.eq_nil_iff_forall_not_mem.mpr
    intro t hm
    exact hdead t _ (h.2 t hm) trivial

/-- the hypothesis of `no_leak` is satisfiable in a non-trivial run: one request connects and releases,
a second one is cancelled while waiting for the slot -/
example :
    let s := run Fixes.all (init 1 0 [0, 0]) [.spawn 0, .tick, .spawn 1, .tick, .createDone 0 true, .tick,
      .cancel 1, .tick, .release 0 true]
    (∀ t pc, pcOf s t = some pc → ¬ pc.live) ∧ s.conns.length = 1 := by
  intro s
  have e : s.tasks.map (·.pc) = [.done, .failed .cancelled] := by decide +kernel
  refine ⟨?_, by decide +kernel⟩
  intro t pc h
  have h' : (s.tasks.map (·.pc))[t]? = some pc := by simpa [pcOf] using h
  rw [e] at h'
  match t, h' with
  | 0, h' => cases h'; exact id
  | 1, h' => cases h'; exact id
  | n + 2, h' => simp at h'

/-- **close_closes_all.** In every reachable state in which the connector has been closed: every connection
ever created (before or after the close) is closed — except one that `_create_connection` has just returned and
whose on_connection_create_end callback has not returned yet (it is listed in the ghost `pendingNew`; `connect()`
closes it as soon as that callback returns or is cancelled) —, nothing is counted in `_acquired` /
`_acquired_per_host`, the idle pool is empty and no waiter future is queued any more (close cancelled
every one of them, and nobody can queue on a closed connector). -/
theorem close_closes_all (limit lph mask ka : Nat) (keys : List Key) (ls : List Label) :
    let s := run Fixes.all (init limit lph keys mask ka) ls
    s.closed = true →
      (∀ (c : Cid) (x : Conn), s.conns[c]? = some x → c ∉ s.pendingNew → x.isOpen = false)
      ∧ s.acquired = [] ∧ s.perHost = [] ∧ s.idle = [] ∧ s.waitq = [] := by
  intro s hc
  have hi := inv_run (inv_init limit lph keys mask ka).1 (inv_init limit lph keys mask ka).2 ls
  have ho := oinv_run (inv_init limit lph keys mask ka).1 (inv_init limit lph keys mask ka).2
    (oinv_init limit lph keys mask ka).1 (oinv_init limit lph keys mask ka).2 ls
  obtain ⟨e1, e2, e3⟩ := hi.1.closed_empty hc
  refine ⟨?_, e1, e2, e3, ho.2 hc⟩
  intro c x hx hp
  cases hopen : x.isOpen
  · rfl
  · exfalso
    have : connOpen s c = true := by simp [connOpen, hx, hopen]
    rcases ho.1 c this with h1 | h1 | h1
    · rw [e3] at h1; cases h1
    · rw [e1] at h1; cases h1
    · exact hp h1

/-- `close_closes_all` is not vacuous: a connector closed with one connection in use, one pooled, one attempt
in progress (which then succeeds) and one waiter -/
example :
    let s := run Fixes.all (init 2 0 [0, 0, 0, 0]) [.spawn 0, .tick, .createDone 0 true, .tick, .release 0 true,
      .spawn 1, .tick, .spawn 2, .tick, .spawn 3, .tick, .close, .createDone 2 true, .tick, .tick]
    s.closed = true ∧ s.conns.length = 2 ∧ s.ready = []
      ∧ s.tasks.map (·.pc) = [.done, .holding 0, .failed .closedErr, .failed .cancelled] := by
  decide +kernel

/-- **one key per endpoint.** Two URLs get the same connection key exactly when they name the same endpoint (host,
effective port, is_ssl); so `limit_per_host`, the waiter queues and the idle pool — all indexed by the key — are per
endpoint, not per spelling. -/
theorem endpointKey_eq_iff (a b : UrlParts) :
    endpointKey a = endpointKey b ↔ a.host = b.host ∧ effPort a = effPort b ∧ a.ssl = b.ssl := by
  unfold endpointKey; constructor
  · intro h; injection h with h1 h2; injection h2 with h2 h3; exact ⟨h1, h2, h3⟩
  · rintro ⟨h1, h2, h3⟩; rw [h1, h2, h3]

/-- spelling the scheme's default port out does not change the key (`http://h/` vs `http://h:80/`,
`https://h/` vs `https://h:443/`), any other explicit port does -/
theorem endpointKey_default_port (h : List Nat) (ssl : Bool) (p : Nat) :
    (endpointKey ⟨h, none, ssl⟩ = endpointKey ⟨h, some p, ssl⟩) ↔ p = defaultPort ssl := by
  simp [endpointKey, effPort]; exact eq_comm

/-- **conservation.** In every reachable state every connection the connector ever created is closed, or idle
in the pool, or counted in `_acquired`, or still in `connect()`'s hands inside an on_connection_create_end callback:
no open connection ever drops out of the connector's bookkeeping (so `close()` reaches every one of them —
`close_closes_all`).  This covers `_get` (drops and closes lost/expired idle connections), `_release`, the
keep-alive sweep `_cleanup`, cancellation at every await and close. -/
theorem every_open_connection_tracked (limit lph mask ka : Nat) (keys : List Key) (ls : List Label) (c : Cid) :
    let s := run Fixes.all (init limit lph keys mask ka) ls
    connOpen s c = true → c ∈ s.idle ∨ Slot.conn c ∈ s.acquired ∨ c ∈ s.pendingNew :=
  (oinv_run (inv_init limit lph keys mask ka).1 (inv_init limit lph keys mask ka).2
    (oinv_init limit lph keys mask ka).1 (oinv_init limit lph keys mask ka).2 ls).1 c

/-- **the keep-alive sweep partitions the idle pool** (`_cleanup`, any state, any time): the rebuilt pool and the
set of closed entries together are exactly the old pool — the survivors are the reusable entries in their old order,
every other entry is closed, nothing is dropped; connections outside the pool are untouched. -/
theorem cleanup_partitions (s : St) :
    (cleanup s).idle = s.idle.filter (usable s)
    ∧ (∀ c ∈ s.idle, (c ∈ (cleanup s).idle ∧ connOpen (cleanup s) c = connOpen s c) ∨
                      (c ∉ (cleanup s).idle ∧ connOpen (cleanup s) c = false))
    ∧ (cleanup s).idle.length + (s.idle.filter (fun c => !usable s c)).length = s.idle.length
    ∧ (∀ c, c ∉ s.idle → connOpen (cleanup s) c = connOpen s c)
    ∧ (cleanup s).acquired = s.acquired := by
  refine ⟨rfl, ?_, ?_, ?_, rfl⟩
  · intro c hc
    cases hu : usable s c
    · right
      refine ⟨fun h => ?_, ?_⟩
      · have := (List.mem_filter.mp h).2; rw [hu] at this; cases this
      · show connOpen (closeMany _ _) c = false
        rw [connOpen_closeMany, if_pos (List.mem_filter.mpr ⟨hc, by simp [hu]⟩)]
    · left
      refine ⟨List.mem_filter.mpr ⟨hc, hu⟩, ?_⟩
      show connOpen (closeMany _ _) c = _
      rw [connOpen_closeMany, if_neg (fun h => by have := (List.mem_filter.mp h).2; simp [hu] at this)]
      rfl
  · show (s.idle.filter (usable s)).length + _ = _
    induction s.idle with
    | nil => rfl
    | cons a t ih => cases h : usable s a <;> simp [List.filter_cons, h] <;> omega
  · intro c hc
    show connOpen (closeMany _ _) c = _
    rw [connOpen_closeMany, if_neg (fun h => hc (List.mem_filter.mp h).1)]
    rfl

/-- a sweep that really partitions: three idle connections released at times 0, 4 and 8 with keep-alive 10; at
time 12 the first one has expired, the other two stay (in order) -/
example :
    let s := run Fixes.all (init 3 0 [0, 0, 0] 0 10)
      [.spawn 0, .spawn 1, .spawn 2, .tick, .tick, .tick, .createDone 0 true, .createDone 1 true, .createDone 2 true,
       .tick, .tick, .tick, .release 0 true, .advance 4, .release 1 true, .advance 4, .release 2 true, .advance 4, .sweep]
    s.idle = [1, 2] ∧ s.conns.map (·.isOpen) = [false, true, true] ∧ s.timer = true := by decide +kernel

/-
**no_forgotten_waiter** (full statement, NOT proved):

  theorem no_forgotten_waiter (limit lph) (keys) (ls) (t) :
      let s := run Fixes.all (init limit lph keys mask ka) ls
      s.ready = [] → t ∈ s.waitq → futOf s t = .pending → hasCap s (keyOf s t) = false

i.e. in every reachable quiescent state no live waiter has capacity for its key.  It is false for
`Fixes.none` (`f8_lost_wakeup_unfixed`, `race_lost_wakeup_unfixed` below).  For `Fixes.all` it needs a counting
invariant (per key: free slots usable by queued waiters ≤ woken waiters that have not run yet) which was not
completed in the time available.  What is proved instead is the wake-up step itself, for *every* state:
`release_waiter_wakes` / `no_forgotten_waiter_partial`.  Missing: the induction that a woken waiter either
takes the slot or (repairs f8, race) passes the wake-up on, so that the wake-ups never run out while an
eligible waiter exists.  That part is covered only by trace conformance and by the exhaustive exploration of
the real (repaired) connector for N ≤ 3 tasks plus sampled larger runs, which never reach such a state.
-/

/-- **the wake-up step** (`_release_waiter`), for every state whatsoever and every shuffle result: if some queued
waiter `t` is live (its future is pending), its key is one of the dict keys of `_waiters`, and there is capacity
for its key, then `_release_waiter` wakes exactly one waiter `u` — `u` was queued, live, has capacity for its own
key; its future is now set and — unless `u` is still inside its on_connection_queued_start callback, in which case it
finds the future set when that callback returns — its wake-up is appended to the loop's ready queue. -/
theorem release_waiter_wakes (s : St) (t : Tid)
    (hk : keyOf s t ∈ s.wkeys) (hcap : hasCap s (keyOf s t) = true) (hw : t ∈ s.waitq) (hf : futOf s t = .pending) :
    ∃ u, u ∈ s.waitq ∧ futOf s u = .pending ∧ hasCap s (keyOf s u) = true
      ∧ (releaseWaiter s).ready = (if (trOf s u).isNone then s.ready ++ [u] else s.ready)
      ∧ futOf (releaseWaiter s) u = .woken :=
  releaseWaiterKeys_wakes _ s t (order_mem hk) hcap hw hf

/-- **no_forgotten_waiter_partial.** Whenever a slot is given back on an open connector (`_release_acquired`: a
connection is released or closed, an attempt fails, is cancelled or times out) and afterwards some queued live
waiter has capacity for its key, a queued live waiter with capacity is woken in that very step.
(Hypothesis `hk`: the waiter's key is a key of the `_waiters` dict — true in reachable states, shown by the
`wq=` column of the trace conformance, not proved here.) -/
theorem no_forgotten_waiter_partial (s : St) (k : Key) (sl : Slot) (t : Tid) (hopen : s.closed = false)
    (hk : keyOf s t ∈ s.wkeys) (hw : t ∈ s.waitq) (hf : futOf s t = .pending)
    (hcap : hasCap (dropSlot s k sl) (keyOf s t) = true) :
    ∃ u, u ∈ s.waitq ∧ futOf s u = .pending ∧ hasCap (dropSlot s k sl) (keyOf s u) = true
      ∧ (releaseAcquired s k sl).ready = (if (trOf s u).isNone then s.ready ++ [u] else s.ready)
      ∧ futOf (releaseAcquired s k sl) u = .woken := by
  rw [releaseAcquired_eq]; simp only [hopen, Bool.false_eq_true, if_false]
  exact release_waiter_wakes (dropSlot s k sl) t hk hcap hw hf

/-- the hypotheses are satisfiable: `limit = 1`, task 0 holds the slot, task 1 is queued; giving the slot back
wakes task 1 -/
example :
    let s := run Fixes.all (init 1 0 [0, 0]) [.spawn 0, .tick, .createDone 0 true, .tick, .spawn 1, .tick]
    s.closed = false ∧ keyOf s 1 ∈ s.wkeys ∧ 1 ∈ s.waitq ∧ futOf s 1 = .pending
      ∧ hasCap (dropSlot s 0 (.conn 0)) (keyOf s 1) = true
      ∧ (releaseAcquired s 0 (.conn 0)).ready = [1] := by
  decide +kernel

/-! ## the code as it is (`Fixes.none`): kernel-checked counterexamples -/

/-- F7 on the model of the code as it is: `limit = 1`, a pooled connection for host 0, a request in
flight to host 1, a new request to host 0 takes the pooled connection on the fast path: two in use.
With the repair the same labels leave one in use. -/
def f7Labels : List Label :=
  [.spawn 0, .tick, .createDone 0 true, .tick, .release 0 true, .spawn 1, .tick, .createDone 1 true, .tick, .spawn 2, .tick]
theorem f7_limit_exceeded_unfixed :
    (run Fixes.none (init 1 0 [0, 1, 0]) f7Labels).acquired.length = 2
    ∧ (run Fixes.all (init 1 0 [0, 1, 0]) f7Labels).acquired.length = 1 := by decide +kernel

/-- F8: `limit = 1`; task 0 holds, tasks 1 and 2 wait; 0 closes its connection (wakes 1); 1 is cancelled
before it runs.  Code as it is: quiescent, nothing in use, task 2 still parked on a pending future.
With the repair task 2 is establishing its connection. -/
def f8Labels : List Label :=
  [.spawn 0, .tick, .createDone 0 true, .tick, .spawn 1, .tick, .spawn 2, .tick, .release 0 false, .cancel 1, .tick, .tick]
theorem f8_lost_wakeup_unfixed :
    (let s := run Fixes.none (init 1 0 [0, 0, 0]) f8Labels
     s.ready = [] ∧ s.acquired = [] ∧ s.waitq = [2] ∧ pcOf s 2 = some .waiting ∧ futOf s 2 = .pending ∧ hasCap s 0 = true)
    ∧ (let s := run Fixes.all (init 1 0 [0, 0, 0]) f8Labels
       s.ready = [] ∧ pcOf s 2 = some (.creating none)) := by decide +kernel

/-- a further lost wake-up (found while building this model): `limit_per_host = 1`, no global limit.
Hosts 0 and 1 are busy; tasks 2, 4 wait for host 0 and task 3 for host 1.  The release of host 0 wakes 2;
the release of host 1 wakes 4 (host 0 still looks free, the shuffle put it first).  2 takes host 0's slot,
4 finds none and re-queues without passing the wake-up on: task 3 stays parked although host 1 is free. -/
def raceLabels : List Label :=
  [.shuffle [0, 1], .spawn 0, .tick, .createDone 0 true, .tick, .spawn 1, .tick, .createDone 1 true, .tick,
   .spawn 2, .tick, .spawn 3, .tick, .spawn 4, .tick, .release 0 false, .release 1 false, .tick, .tick]
theorem race_lost_wakeup_unfixed :
    (let s := run Fixes.none (init 0 1 [0, 1, 0, 1, 0]) raceLabels
     s.ready = [] ∧ pcOf s 3 = some .waiting ∧ futOf s 3 = .pending ∧ hasCap s 1 = true)
    ∧ (let s := run Fixes.all (init 0 1 [0, 1, 0, 1, 0]) raceLabels
       pcOf s 3 = some .waiting ∧ futOf s 3 = .woken ∧ s.ready = [3]) := by decide +kernel

/-- `connect()` on a closed connector (found while building this model): `limit = 1`; the connector is closed,
then a request starts: its placeholder is added to `_acquired` and never removed (the attempt ends with
"Connector is closed", `_release_acquired` is a no-op once closed); a second request then parks for ever.
With `limit_per_host` the entries of `_acquired_per_host` also survive `close()`.  With the repair both
requests fail at once and nothing is counted. -/
def afterCloseLabels : List Label :=
  [.close, .spawn 0, .tick, .createDone 0 true, .tick, .spawn 1, .tick]
theorem after_close_leak_unfixed :
    (let s := run Fixes.none (init 1 0 [0, 0]) afterCloseLabels
     s.ready = [] ∧ s.acquired = [.ph 0] ∧ pcOf s 0 = some (.failed .closedErr) ∧ pcOf s 1 = some .waiting
       ∧ futOf s 1 = .pending)
    ∧ (let s := run Fixes.all (init 1 0 [0, 0]) afterCloseLabels
       s.acquired = [] ∧ pcOf s 0 = some (.failed .closedErr) ∧ pcOf s 1 = some (.failed .closedErr)) := by
  decide +kernel

/-- cancellation inside a trace callback (found when the trace hooks were added to the model): `limit = 1`, the
on_connection_reuseconn callback suspends.  Task 0 connects and releases its connection to the pool; task 1 takes
it from the pool and is cancelled while its reuseconn callback runs: `_get` gives the slot back
(`_release_acquired`) but the connection itself is neither pooled nor closed, so a later `close()` does not close
it.  (The same happens to a freshly created connection when the task is cancelled inside on_connection_create_end.)
With the repair the orphan is closed at once. -/
def traceOrphanLabels : List Label :=
  [.spawn 0, .tick, .createDone 0 true, .tick, .release 0 true, .spawn 1, .tick, .cancel 1, .tick, .close]
theorem trace_orphan_unfixed :
    (let s := run Fixes.none (init 1 0 [0, 0] 1) traceOrphanLabels
     s.closed = true ∧ s.ready = [] ∧ s.pendingNew = [] ∧ connOpen s 0 = true ∧ pcOf s 1 = some (.failed .cancelled))
    ∧ (let s := run Fixes.all (init 1 0 [0, 0] 1) traceOrphanLabels
       s.closed = true ∧ connOpen s 0 = false) := by decide +kernel

/-- the theorems above are not vacuous for traced runs: three requests, one slot, on_connection_create_start
suspends — exactly one request holds the placeholder while its callback runs, the other two are queued -/
example :
    let s := run Fixes.all (init 1 0 [0, 0, 0] 8) [.spawn 0, .spawn 1, .spawn 2, .tick, .tick, .tick]
    s.acquired = [.ph 0] ∧ s.waitq = [1, 2] ∧ trOf s 0 = some (.cstart, false) := by decide +kernel

end Aio.C07
