import AioModel.C07
import AioProps.C07Lemmas
/-!
# C07 — connection pool: limits hold, nothing leaks, no waiter is forgotten
(property theorems; under construction)
-/
namespace Aio.C07

/-- F7 on the model of the code as it is: `limit = 1`, a pooled connection for host 0, a request in
flight to host 1, a new request to host 0 takes the pooled connection on the fast path: two in use. -/
def f7Labels : List Label :=
  [.spawn 0, .tick, .createDone 0 true, .tick, .release 0 true, .spawn 1, .tick, .createDone 1 true, .tick, .spawn 2, .tick]
theorem f7_limit_exceeded_unfixed :
    (run Fixes.none (init 1 0 [0, 1, 0]) f7Labels).acquired.length = 2
    ∧ (run Fixes.all (init 1 0 [0, 1, 0]) f7Labels).acquired.length = 1 := by decide +kernel

end Aio.C07
