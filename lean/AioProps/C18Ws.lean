import AioModel.C18Ws
/-! C18 — WebSocket close: theorems about `effWs` / `wsClose` (model in AioModel/C18Ws.lean). -/
namespace Aio.C18

/-- **ws timeouts are passed through.** Whatever way the timeouts are given, the deprecated
`receive_timeout=` argument never changes the `ws_close` bound (a `ClientWSTimeout`'s own value, the
deprecated float, or the 10 s default) and always becomes the `ws_receive` bound. -/
theorem effWs_close_indep (a : WsArg) (r : Option Nat) : (effWs a r).close = (effWs a none).close := by
  cases a <;> cases r <;> rfl

theorem effWs_recv (a : WsArg) (r : Nat) : (effWs a (some r)).recv = some r := by
  cases a <;> rfl

theorem effWs_default_close (r : Option Nat) : (effWs .default r).close = some Gen.C18.wsCloseDefaultMs := by
  cases r <;> rfl

/-- **ws_close_bound.** With a `ws_close` bound `c`, `close()` returns (or re-raises the caller's
cancellation) no later than `c` after the CLOSE frame was sent — whether the peer answers, stays
silent for ever, or the caller is cancelled at any instant. -/
theorem ws_close_bound (w : WsT) (tc c : Nat) (peer cancel : Option Nat) (h : w.close = some c) :
    ∃ t, (wsClose w tc peer cancel).time = some t ∧ t ≤ tc + c := by
  have hr : ∃ t, (wsRest (w.close.map (tc + ·)) peer).time = some t ∧ t ≤ tc + c ∧
      (wsRest (w.close.map (tc + ·)) peer ≠ .pending) ∧ (∀ u, wsRest (w.close.map (tc + ·)) peer ≠ .cancelled u) := by
    simp only [h, Option.map, wsRest]
    cases peer with
    | none => exact ⟨tc + c, rfl, Nat.le_refl _, by simp, by simp⟩
    | some p =>
      simp only []
      split
      · exact ⟨tc + c, rfl, Nat.le_refl _, by simp, by simp⟩
      · exact ⟨p, rfl, by omega, by simp, by simp⟩
  obtain ⟨t, ht, hle, hnp, hnc⟩ := hr
  unfold wsClose
  simp only []
  cases cancel with
  | none => exact ⟨t, ht, hle⟩
  | some x =>
    simp only []
    generalize wsRest (w.close.map (tc + ·)) peer = r at *
    cases r with
    | pending => exact absurd rfl hnp
    | cancelled u => exact absurd rfl (hnc u)
    | closedAbnormal d =>
      simp only [WsOut.time, Option.some.injEq] at ht; subst ht
      simp only []; split
      · exact ⟨x, rfl, by omega⟩
      · exact ⟨d, rfl, hle⟩
    | closedOk d =>
      simp only [WsOut.time, Option.some.injEq] at ht; subst ht
      simp only []; split
      · exact ⟨x, rfl, by omega⟩
      · exact ⟨d, rfl, hle⟩

/-- without a `ws_close` bound and with a silent peer `close()` never returns: the bound is what
ends it (this is what discarding `ws_close` means) -/
theorem ws_close_unbounded (w : WsT) (tc : Nat) (h : w.close = none) :
    wsClose w tc none none = .pending := by
  unfold wsClose; simp [h, wsRest]

end Aio.C18
