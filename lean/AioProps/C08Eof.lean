import AioProps.C08Step
/-! C08: end-of-stream is reported only after all data (coroutine-level lemmas). -/
namespace Aio.C08
open Aio

theorem takeN_nonempty : ∀ (fuel : Nat) {s : S} (n : Nat) (acc : Bytes), Inv s → s.bufs ≠ [] → 0 < n →
    (takeN (fuel + 1) s n acc).2 ≠ [] := by
  intro fuel s n acc hi hb hn
  have hs := rnc_spec hi hb (some n)
  have hne : (rnc s (some n)).2 ≠ [] := hs.2.2.2.1 (by intro h; cases h; omega)
  have hb' : s.bufs.isEmpty = false := by cases h : s.bufs <;> simp_all
  simp only [takeN, hb', Bool.false_eq_true, if_false]
  split
  · simp [hne]
  · -- the accumulator is already non-empty; the rest only appends
    have : ∀ (f : Nat) (s' : S) (k : Nat) (a : Bytes), a ≠ [] → (takeN f s' k a).2 ≠ [] := by
      intro f
      induction f with
      | zero => intro s' k a ha; simpa [takeN] using ha
      | succ f ih =>
        intro s' k a ha
        simp only [takeN]
        split
        · exact ha
        · split
          · simp [ha]
          · exact ih _ _ _ (by simp [ha])
    exact this _ _ _ _ (by simp [hne])

theorem drainN_nonempty {s : S} (hi : Inv s) (hb : s.bufs ≠ []) : (readNowait s none).2 ≠ [] := by
  have hs := rnc_spec hi hb none
  have hne : (rnc s none).2 ≠ [] := hs.2.2.2.1 (by intro h; cases h)
  have hl : s.bufs.length = (s.bufs.length - 1) + 1 := by
    have : 0 < s.bufs.length := List.length_pos_iff.mpr hb
    omega
  simp only [readNowait]
  rw [hl]
  simp only [drainN]
  have : ∀ (k : Nat) (s' : S) (a : Bytes), a ≠ [] → (drainN k s' a).2 ≠ [] := by
    intro k
    induction k with
    | zero => intro s' a ha; simpa [drainN] using ha
    | succ k ih => intro s' a ha; simp only [drainN]; exact ih _ _ (by simp [ha])
  exact this _ _ _ (by simp [hne])

theorem readNowait_nonempty {s : S} (hi : Inv s) (hb : s.bufs ≠ []) (n : Option Nat) (hn : n ≠ some 0) :
    (readNowait s n).2 ≠ [] := by
  cases n with
  | none => exact drainN_nonempty hi hb
  | some k =>
    have : 0 < k := by cases k with | zero => exact absurd rfl hn | succ k => omega
    exact takeN_nonempty _ k [] hi hb this

theorem readNowait_empty {s : S} (hb : s.bufs = []) (n : Option Nat) : (readNowait s n).1 = s := by
  cases n with
  | none => simp [readNowait, hb, drainN]
  | some k => simp [readNowait, hb, takeN]

/-- `read(n)`, n > 0, returns `b""` only when `feed_eof` was called and the buffer is empty -/
theorem contRead_eof {s : S} (hi : Inv s) (n : Nat) (hn : 0 < n) (it : Bool)
    (h : (contRead s n it).2 = .data []) : (contRead s n it).1.eof = true ∧ (contRead s n it).1.bufs = [] := by
  unfold contRead at h ⊢
  split at h
  · unfold park at h; unfold raise at h; split at h <;> (try split at h) <;> cases h
  · rename_i hc
    rw [if_neg hc]
    by_cases hb : s.bufs = []
    · simp only [readNowait_empty hb]
      simp [hb] at hc
      exact ⟨hc, hb⟩
    · have := readNowait_nonempty hi hb (some n) (by intro h; cases h; omega)
      simp only [Out.data.injEq] at h
      exact absurd h this

/-- `readany()` returns `b""` only when `feed_eof` was called and the buffer is empty -/
theorem contReadAny_eof {s : S} (hi : Inv s) (it : Bool)
    (h : (contReadAny s it).2 = .data []) : (contReadAny s it).1.eof = true ∧ (contReadAny s it).1.bufs = [] := by
  unfold contReadAny at h ⊢
  split at h
  · unfold park at h; unfold raise at h; split at h <;> (try split at h) <;> cases h
  · rename_i hc
    rw [if_neg hc]
    by_cases hb : s.bufs = []
    · simp only [readNowait_empty hb]
      simp [hb] at hc
      exact ⟨hc, hb⟩
    · have := readNowait_nonempty hi hb none (by intro h; cases h)
      simp only [Out.data.injEq] at h
      exact absurd h this

theorem park_not_data (s : S) (p : Pend) (x : Bytes) : (park s p).2 ≠ .data x := by
  unfold park raise
  split
  · intro h; cases h
  · split <;> intro h <;> cases h

/-- `read(-1)` returns only when `feed_eof` was called and the buffer is empty: it returns
everything up to end-of-stream -/
theorem contReadAll_eof : ∀ (fuel : Nat) {s : S} (acc : Bytes) (it : Bool) (x : Bytes), Inv s →
    (contReadAll fuel s acc it).2 = .data x →
    (contReadAll fuel s acc it).1.eof = true ∧ (contReadAll fuel s acc it).1.bufs = []
  | 0, s, acc, it, x, _, h => by simp [contReadAll, raise] at h
  | fuel + 1, s, acc, it, x, hi, h => by
    simp only [contReadAll] at h ⊢
    split at h
    · exact absurd h (park_not_data _ _ _)
    · rename_i hc
      rw [if_neg hc]
      by_cases hb : s.bufs = []
      · have he : s.eof = true := by simpa [hb] using hc
        have e := readNowait_empty hb none
        have hd : (readNowait s none).2 = [] := by simp [readNowait, hb, drainN]
        simp only [hd, List.isEmpty_nil, if_true, e]
        exact ⟨he, hb⟩
      · have hne := readNowait_nonempty hi hb none (by intro h; cases h)
        have hemp : (readNowait s none).2.isEmpty = false := by
          cases hh : (readNowait s none).2 with
          | nil => exact absurd hh hne
          | cons _ _ => rfl
        simp only [hemp, Bool.false_eq_true, if_false] at h ⊢
        obtain ⟨d, hr, -, -, -⟩ := readNowait_reach hi none
        have hi1 := reach_inv hi hr
        split at h
        · simp [raise] at h
        · exact contReadAll_eof fuel _ it x hi1 h

/-- `readchunk()` returns `(b"", False)` only when `feed_eof` was called and the buffer is empty -/
theorem contReadChunk_eof {s : S} (hi : Inv s) (it : Bool)
    (h : (contReadChunk s it).2 = .chunk [] false) :
    (contReadChunk s it).1.eof = true ∧ (contReadChunk s it).1.bufs = [] := by
  unfold contReadChunk at h ⊢
  split at h
  · simp [raise] at h
  · rename_i hexc
    -- generic tail after the splits loop
    have key : ∀ (s1 : S) (r : Option Out), Inv s1 → (∀ o, r = some o → ∃ d, o = .chunk d true) →
        ((match r with
          | some o => (s1, o)
          | none =>
            if (!s1.bufs.isEmpty) = true then ((rnc s1 none).1, Out.chunk (rnc s1 none).2 false)
            else if s1.eof = true then (s1, Out.chunk [] false)
            else park s1 ⟨.readChunk, [], it⟩) : S × Out).2 = .chunk [] false →
        ((match r with
          | some o => (s1, o)
          | none =>
            if (!s1.bufs.isEmpty) = true then ((rnc s1 none).1, Out.chunk (rnc s1 none).2 false)
            else if s1.eof = true then (s1, Out.chunk [] false)
            else park s1 ⟨.readChunk, [], it⟩) : S × Out).1.eof = true ∧
        ((match r with
          | some o => (s1, o)
          | none =>
            if (!s1.bufs.isEmpty) = true then ((rnc s1 none).1, Out.chunk (rnc s1 none).2 false)
            else if s1.eof = true then (s1, Out.chunk [] false)
            else park s1 ⟨.readChunk, [], it⟩) : S × Out).1.bufs = [] := by
      intro s1 r hi1 hr h
      cases r with
      | some o =>
        obtain ⟨d, hd⟩ := hr o rfl
        subst hd
        simp at h
      | none =>
        simp only [] at h ⊢
        by_cases hb : s1.bufs = []
        · simp only [hb, List.isEmpty_nil, Bool.not_true, Bool.false_eq_true, if_false] at h ⊢
          split at h
          · rename_i he; simp only [he, if_true]; exact ⟨trivial, hb⟩
          · unfold park raise at h; split at h <;> (try split at h) <;> cases h
        · have hb' : (!s1.bufs.isEmpty) = true := by cases hh : s1.bufs <;> simp_all
          simp only [hb', if_true] at h
          have := (rnc_spec hi1 hb none).2.2.2.1 (by intro h; cases h)
          simp only [Out.chunk.injEq] at h
          exact absurd h.1 this
    cases hs : s.splits with
    | none =>
      simp only [hs] at h ⊢
      exact key s none hi (by intro o ho; cases ho) h
    | some l =>
      simp only [hs] at h ⊢
      obtain ⟨d, hr, -, -, -, -, h5⟩ := chunkSplits_reach l hi hs
      exact key _ _ (reach_inv hi hr) (fun o ho => ⟨d, h5 o ho⟩) h

/-! ### readchunk boundaries -/

/-- `_read_nowait(k)` with at least `k` bytes buffered advances the cursor by exactly `k` -/
theorem readNowait_cursor {s : S} (hi : Inv s) (k : Nat) (hk : k ≤ s.size) :
    (readNowait s (some k)).1.cursor = s.cursor + k := by
  obtain ⟨d, hr, -, -, h4⟩ := readNowait_reach hi (some k)
  obtain ⟨hle, hor⟩ := h4 k rfl
  have hi1 := reach_inv hi hr
  have ht := reach_taken hi hr
  have hlen : d.length = k := by
    rcases hor with h | h
    · exact h
    · have h1 : rest s = d := by rw [ht.2, rest_nil h]; simp
      have h2 := hi.size_eq
      rw [h1] at h2
      omega
  rw [hi1.cursor_eq, ht.1, hi.cursor_eq]
  simp [hlen]

/-- when the split-popping loop of `readchunk` answers `(data, True)`, the cursor then stands on
an offset recorded by `end_http_chunk_receiving` -/
theorem chunkSplits_boundary : ∀ (l : List Nat) {s : S}, Inv s → s.splits = some l →
    ∀ o, (chunkSplits s l).2 = some o → (chunkSplits s l).1.cursor ∈ s.bounds
  | [], s, _, _, o, h => by simp [chunkSplits] at h
  | p :: t, s, hi, hs, o, h => by
    have hm := Move.setSplits s (p :: t) t hs (List.sublist_cons_self p t)
    have hi1 := move_inv hi hm
    have hpb : p ∈ s.bounds := hi.inb _ hs p (by simp)
    have hpr := hi.range _ hs p (by simp)
    simp only [chunkSplits] at h ⊢
    split
    · rename_i hpc
      show s.cursor ∈ s.bounds
      rw [← hpc]; exact hpb
    · split
      · rename_i hgt
        have hsz : p - s.cursor ≤ s.size := by
          have := cursor_add_size hi; omega
        have := readNowait_cursor hi1 (p - s.cursor) hsz
        rw [this]
        show s.cursor + (p - s.cursor) ∈ s.bounds
        have : s.cursor + (p - s.cursor) = p := by omega
        rw [this]; exact hpb
      · rename_i h1 h2
        rw [if_neg h1, if_neg h2] at h
        exact chunkSplits_boundary t (s := { s with splits := some t }) hi1 rfl o h

theorem park_not_chunk (s : S) (p : Pend) (x : Bytes) (b : Bool) : (park s p).2 ≠ .chunk x b := by
  unfold park raise
  split
  · intro h; cases h
  · split <;> intro h <;> cases h

/-- `readchunk()` answers `end_of_http_chunk = True` only with the cursor on a sender boundary -/
theorem contReadChunk_boundary {s : S} (hi : Inv s) (it : Bool) (d : Bytes)
    (h : (contReadChunk s it).2 = .chunk d true) : (contReadChunk s it).1.cursor ∈ s.bounds := by
  unfold contReadChunk at h ⊢
  split at h
  · simp [raise] at h
  · cases hs : s.splits with
    | none =>
      simp only [hs] at h
      split at h
      · simp at h
      · split at h
        · simp at h
        · exact absurd h (park_not_chunk _ _ _ _)
    | some l =>
      simp only [hs] at h ⊢
      cases hr : (chunkSplits s l).2 with
      | some o =>
        have := chunkSplits_boundary l hi hs o hr
        simp only [hr]
        exact this
      | none =>
        simp only [hr] at h
        split at h
        · simp at h
        · split at h
          · simp at h
          · exact absurd h (park_not_chunk _ _ _ _)

end Aio.C08
