import AioModel.C02
import AioProps.C04
/-!
# C02 — helper lemmas
-/
namespace Aio.C02
open Aio

/-- server and client consult the same two tables for "this response has no body" -/
theorem inList_emptyBodyMethods (m : Bytes) :
    inList Gen.Http.emptyBodyMethods m = Http.isEmptyBodyMethod m := by
  unfold inList Http.isEmptyBodyMethod
  cases m with
  | nil => simp [Gen.Http.emptyBodyMethods, Http.ofNats]
  | cons a t => simp

theorem mustBeEmptyBody_eq (m : Bytes) (code : Nat) (h : m ≠ bCONNECT) :
    mustBeEmptyBody m code = (Http.isEmptyBodyStatus code || Http.isEmptyBodyMethod m) := by
  unfold mustBeEmptyBody
  rw [inList_emptyBodyMethods]
  have : (m == bCONNECT) = false := by simpa using h
  simp [this]

theorem shouldRemoveCL_eq (m : Bytes) (code : Nat) (h : m ≠ bCONNECT) :
    shouldRemoveCL m code = Http.isEmptyBodyStatus code := by
  unfold shouldRemoveCL
  have : (m == bCONNECT) = false := by simpa using h
  simp [this]

theorem head_isEmptyBodyMethod : Http.isEmptyBodyMethod bHEAD = true := by decide


theorem empty304 : Http.isEmptyBodyStatus 304 = true := by decide
theorem headEmpty : inList Gen.Http.emptyBodyMethods bHEAD = true := by decide

/-- what `_start_compression` leaves behind -/
theorem prep_after_compression (x : RespIn) (p : Prep)
    (hp : (match startCompression x with
      | some c => doStartCompression x { cl := respStart x } c
      | none => .ok { cl := respStart x }) = .ok p) :
    (p.wcompress = false ∧ p.bodyCompressed = false ∧ p.cl = respStart x ∧ p.ce = none) ∨
    (p.wcompress = true ∧ p.bodyCompressed = false ∧ p.cl = none ∧
      (x.isResponse = false ∨ x.chunked = true ∨ ∃ s, x.body = .payload s)) ∨
    (p.wcompress = false ∧ p.bodyCompressed = true ∧ p.cl = some x.zlen ∧ x.isResponse = true ∧
      x.chunked = false ∧ ∃ n, x.body = .bytes n) := by
  cases hs : startCompression x with
  | none => simp [hs] at hp; subst hp; simp
  | some c =>
    simp only [hs] at hp
    unfold doStartCompression at hp
    cases hb : x.body <;> cases hr : x.isResponse <;> cases hc : x.chunked <;> cases c <;>
      simp [hb, hr, hc] at hp <;> (try subst hp) <;> simp


theorem not_empty_facts (x : RespIn) (heb : mustBeEmptyBody x.method x.status = false) :
    (x.status != 304) = true ∧ (x.method != bHEAD) = true ∧ shouldRemoveCL x.method x.status = false := by
  unfold mustBeEmptyBody at heb
  simp only [Bool.or_eq_false_iff] at heb
  obtain ⟨⟨h1, h2⟩, h3⟩ := heb
  refine ⟨?_, ?_, ?_⟩
  · simp only [bne_iff_ne, ne_eq]
    intro h; rw [h, empty304] at h1; cases h1
  · simp only [bne_iff_ne, ne_eq]
    intro h; rw [h, headEmpty] at h2; cases h2
  · unfold shouldRemoveCL; simp [h1, h3]

theorem cl_eq_prop (x : RespIn) (p : Prep)
    (hpc : (p.wcompress = false ∧ p.bodyCompressed = false ∧ p.cl = respStart x ∧ p.ce = none) ∨
      (p.wcompress = true ∧ p.bodyCompressed = false ∧ p.cl = none ∧
        (x.isResponse = false ∨ x.chunked = true ∨ ∃ s, x.body = .payload s)) ∨
      (p.wcompress = false ∧ p.bodyCompressed = true ∧ p.cl = some x.zlen ∧ x.isResponse = true ∧
        x.chunked = false ∧ ∃ n, x.body = .bytes n))
    (heb : mustBeEmptyBody x.method x.status = false) (hch : x.chunked = false) :
    p.cl = contentLengthProp x p := by
  obtain ⟨h304, hhead, hrm⟩ := not_empty_facts x heb
  unfold contentLengthProp
  cases hr : x.isResponse
  · simp
  · simp only [hch, Bool.not_true, Bool.false_eq_true, if_false]
    rcases hpc with ⟨h1, h2, h3, _⟩ | ⟨h1, h2, h3, h4⟩ | ⟨h1, h2, h3, _⟩
    · rw [h3, h2]
      unfold respStart
      simp only [hr, hch, hrm, h304, hhead]
      cases x.userCL <;> rcases x.body with _ | n | (_ | s) <;> simp
    · rw [h3, h2]
      rcases h4 with h4 | h4 | ⟨s, h4⟩
      · rw [hr] at h4; cases h4
      · rw [hch] at h4; cases h4
      · simp [h4]
    · rw [h3]


/-- the three shapes `_start_compression` can leave -/
def CompShape (x : RespIn) (p : Prep) : Prop :=
  (p.wcompress = false ∧ p.bodyCompressed = false ∧ p.cl = respStart x ∧ p.ce = none) ∨
  (p.wcompress = true ∧ p.bodyCompressed = false ∧ p.cl = none ∧
    (x.isResponse = false ∨ x.chunked = true ∨ ∃ s, x.body = .payload s)) ∨
  (p.wcompress = false ∧ p.bodyCompressed = true ∧ p.cl = some x.zlen ∧ x.isResponse = true ∧
    x.chunked = false ∧ ∃ n, x.body = .bytes n)

/-- the `Connection` header `_prepare_headers` adds for a local keep-alive value -/
def connOf (x : RespIn) (kaLocal : Bool) : Option Bool :=
  if x.userConn.isSome then none
  else if kaLocal then (if x.ver.is10 then some false else none)
  else if x.ver.is11 then some true else none

theorem respPrep_shape (x : RespIn) (o : RespOut) (h : respPrep x = .ok o) :
    ∃ p, CompShape x p ∧
      o.emptyBody = mustBeEmptyBody x.method x.status ∧ o.wcompress = p.wcompress ∧
      o.bodyCompressed = p.bodyCompressed ∧
      o.cl = (if o.emptyBody && shouldRemoveCL x.method x.status then none else p.cl) ∧
      ((o.emptyBody = true ∧ o.wchunked = false ∧ o.te = false ∧ o.conn = connOf x o.keepAlive) ∨
       (o.emptyBody = false ∧ o.wchunked = true ∧ o.te = true ∧ o.wlength = none ∧ o.conn = connOf x o.keepAlive) ∨
       (o.emptyBody = false ∧ o.wchunked = false ∧ o.te = false ∧ x.chunked = false ∧
          o.wlength = contentLengthProp x p ∧
          ((∃ n, o.wlength = some n ∧ o.conn = connOf x o.keepAlive) ∨
           (o.wlength = none ∧ x.ver.ge11 = false ∧ o.conn = connOf x false ∧
              (Gen.C02.closeDelimitedClearsKeepAlive = true → o.keepAlive = false))))) := by
  unfold respPrep at h
  split at h
  · cases h
  · dsimp only at h
    split at h
    · cases h
    · rename_i p hp
      have hpc := prep_after_compression x p hp
      split at h
      · cases h
      · injection h with h
        subst h
        refine ⟨p, hpc, ?_⟩
        dsimp only
        generalize mustBeEmptyBody x.method x.status = eb
        unfold connOf
        cases eb <;> cases hch : x.chunked <;> cases hg : x.ver.ge11 <;>
          cases hcl : contentLengthProp x p <;> simp <;>
          (try (intro h1 h2; rw [h1] at h2; cases h2))


/-- API-admissible use of the response API -/
structure RespAdmissible (x : RespIn) (streamed : Nat) : Prop where
  notConnect : x.method ≠ bCONNECT
  /-- `web.Response` computes Content-Length itself; on a stream (or FileResponse) a declared
  length is honoured by the handler: it writes at least that many bytes -/
  cl : ∀ n, x.userCL = some n → x.isResponse = false ∧ (mustBeEmptyBody x.method x.status = false → n ≤ streamed)
  /-- a payload yields (at least) the size it declares -/
  size : ∀ s, x.isResponse = true → x.body = .payload (some s) → mustBeEmptyBody x.method x.status = false → s ≤ streamed
  /-- a handler writes nothing to a response that must not have a body -/
  empty : mustBeEmptyBody x.method x.status = true → x.isResponse = false → streamed = 0
  /-- the compressor's output (oracle column) is never empty -/
  zpos : startCompression x ≠ none → 0 < streamed ∧ 0 < x.zlen

theorem clientView_framing (method : Bytes) (ver : Ver) (code : Nat) (h : RecvHdr) (hnc : method ≠ bCONNECT) :
    (clientView method ver code h).1.framing =
      if Http.isEmptyBodyStatus code || Http.isEmptyBodyMethod method then Framing.none
      else if h.chunked then .chunked
      else match h.cl with
        | some n => if n > 0 then .length n else .none
        | none => .untilClose := by
  unfold clientView cascade clientCfg
  have hc : (method == Http.bCONNECT) = false := by
    have : Http.bCONNECT = bCONNECT := rfl
    rw [this]; simpa using hnc
  simp only [inList_emptyBodyMethods, if_true]
  rw [hc]
  rcases hcl : h.cl with _ | n
  · cases hs : Http.isEmptyBodyStatus code <;> cases hm : Http.isEmptyBodyMethod method <;>
      cases hch : h.chunked <;> simp [Http.supportedUpgrade]
  · rcases Nat.eq_zero_or_pos n with hn | hn
    · subst hn
      cases hs : Http.isEmptyBodyStatus code <;> cases hm : Http.isEmptyBodyMethod method <;>
        cases hch : h.chunked <;> simp [Http.supportedUpgrade]
    · have hd : decide (n > 0) = true := by simpa using hn
      cases hs : Http.isEmptyBodyStatus code <;> cases hm : Http.isEmptyBodyMethod method <;>
        cases hch : h.chunked <;> simp [Http.supportedUpgrade, hn, hd]

theorem sent_eq (x : RespIn) (o : RespOut) (p : Prep) (streamed n : Nat) (hpc : CompShape x p)
    (he : mustBeEmptyBody x.method x.status = false) (hxc : x.chunked = false)
    (hwz : o.wcompress = p.wcompress) (hbz : o.bodyCompressed = p.bodyCompressed) (hoe : o.emptyBody = false)
    (hcl : ∀ n, x.userCL = some n → x.isResponse = false ∧ (mustBeEmptyBody x.method x.status = false → n ≤ streamed))
    (hsize : ∀ s, x.isResponse = true → x.body = .payload (some s) → mustBeEmptyBody x.method x.status = false → s ≤ streamed)
    (hn : contentLengthProp x p = some n) :
    (if (respSent x o streamed).2 = true then min n (respSent x o streamed).1 else (respSent x o streamed).1) = n := by
  obtain ⟨h304, hhead, hrm⟩ := not_empty_facts x he
  unfold respSent
  unfold contentLengthProp at hn
  rw [hwz, hbz, hoe]
  rcases hpc with ⟨h1, h2, h3, _⟩ | ⟨h1, h2, h3, h4⟩ | ⟨h1, h2, h3, h5, _, ⟨b, h6⟩⟩
  · rw [h1, h2]
    rw [h3, h2] at hn
    unfold respStart at hn
    cases hr : x.isResponse
    · simp only [hr, Bool.not_false, if_true] at hn ⊢
      have := (hcl n hn).2 he
      simp; omega
    · have hu : x.userCL = none := by
        cases hu : x.userCL with
        | none => rfl
        | some m => have := (hcl m hu).1; rw [hr] at this; cases this
      simp only [hr, hu, hxc, h304, hhead, Bool.not_true, Bool.false_eq_true, if_false] at hn ⊢
      rcases hb : x.body with _ | b | sz
      · simp [hb] at hn ⊢; omega
      · simp [hb] at hn ⊢; omega
      · simp only [hb] at hn ⊢
        cases sz with
        | none => simp at hn
        | some s =>
          simp at hn; subst hn
          have := hsize s hr hb he
          simp; omega
  · rw [h3, h2] at hn
    cases hr : x.isResponse
    · simp [hr] at hn
    · rcases h4 with h4 | h4 | ⟨s, h4⟩
      · rw [hr] at h4; cases h4
      · rw [hxc] at h4; cases h4
      · simp [hr, hxc, h4] at hn
  · rw [h1, h2]
    simp [h5, hxc, h3] at hn
    simp [h5, h6, hn]

theorem emptyStatus_eq (c : Nat) :
    ((decide (100 ≤ c) && decide (c < 200)) || c == 204 || c == 304) = Http.isEmptyBodyStatus c := by
  unfold Http.isEmptyBodyStatus
  simp only [Gen.Http.emptyBodyStatus, List.any_cons, List.any_nil, Bool.or_false]
  have e1 : decide (c < 200) = decide (c ≤ 199) := by
    by_cases h : c < 200
    · have : c ≤ 199 := by omega
      simp [h, this]
    · have : ¬ c ≤ 199 := by omega
      simp [h, this]
  have e2 : (c == 204) = (decide (204 ≤ c) && decide (c ≤ 204)) := by
    by_cases h : c = 204
    · subst h; rfl
    · have : ¬ (204 ≤ c ∧ c ≤ 204) := by omega
      have h' : (c == 204) = false := by simpa using h
      rw [h']; symm; simpa using this
  have e3 : (c == 304) = (decide (304 ≤ c) && decide (c ≤ 304)) := by
    by_cases h : c = 304
    · subst h; rfl
    · have : ¬ (304 ≤ c ∧ c ≤ 304) := by omega
      have h' : (c == 304) = false := by simpa using h
      rw [h']; symm; simpa using this
  rw [e1, e2, e3, Bool.or_assoc]

theorem respClose_eq (ver : Ver) (code : Nat) (cc : Option Bool) (hasCL hasTE : Bool) :
    respClose ver code cc hasCL hasTE =
      match cc with
      | some c => c
      | none => if Http.versionLe10 ver.maj ver.min then true
                else if Http.isEmptyBodyStatus code then false
                else if hasCL || hasTE then false else true := by
  unfold respClose
  rw [emptyStatus_eq]
  cases cc <;> rfl



theorem emptyStatus0 : Http.isEmptyBodyStatus 0 = false := by decide

theorem serverView_framing (method : Bytes) (ver : Ver) (h : RecvHdr) (hnc : method ≠ bCONNECT) :
    (serverView method ver h).1.framing =
      if h.chunked then Framing.chunked
      else match h.cl with
        | some n => if n > 0 then .length n else .none
        | none => .none := by
  unfold serverView cascade serverCfg
  have hc : (method == Http.bCONNECT) = false := by
    have : Http.bCONNECT = bCONNECT := rfl
    rw [this]; simpa using hnc
  simp only [emptyStatus0, Bool.false_or]
  rcases hcl : h.cl with _ | n
  · cases hch : h.chunked <;> simp [Http.supportedUpgrade, hc]
  · rcases Nat.eq_zero_or_pos n with hn | hn
    · subst hn
      cases hch : h.chunked <;> simp [Http.supportedUpgrade, hc]
    · have hd : decide (n > 0) = true := by simpa using hn
      cases hch : h.chunked <;> simp [Http.supportedUpgrade, hc, hn, hd]

/-- API-admissible use of the client request API -/
structure ReqAdmissible (x : ReqIn) (actual : Nat) : Prop where
  notConnect : x.method ≠ bCONNECT
  truthy : x.dataTruthy = true → x.hasData = true
  noData : x.hasData = false → actual = 0
  /-- the payload yields the size it declares -/
  size : ∀ s, x.size = some s → s = actual
  /-- framing headers are left to aiohttp -/
  noUserCL : x.userCL = none
  noUserTE : x.userTEchunked = false



theorem dataOf_dataEv (bs : Bytes) : dataOf (Http.dataEv bs) = bs := by
  unfold Http.dataEv
  cases bs <;> simp [dataOf]

theorem dataOf_append_eof (evs : List Http.Ev) : dataOf (evs ++ [.eof]) = dataOf evs := by
  induction evs with
  | nil => simp [dataOf]
  | cons e t ih => cases e <;> simp [dataOf, ih]

theorem length_run (cfg : Http.Cfg) (segs : List Bytes) :
    ∀ (p : Http.PState) (n : Nat) (acc : Bytes), p.type = .length → p.length = n → 0 < n →
      payloadRun cfg p segs acc =
        if n ≤ segs.flatten.length then (acc ++ segs.flatten.take n, some (segs.flatten.drop n))
        else (acc ++ segs.flatten, none) := by
  induction segs with
  | nil => intro p n acc _ _ hn; simp [payloadRun]; omega
  | cons s ss ih =>
    intro p n acc ht hl hn
    unfold payloadRun
    unfold Http.payloadFeed
    simp only [ht, hl]
    by_cases hle : n ≤ s.length
    · have h0 : n - s.length = 0 := by omega
      simp only [h0, beq_self_eq_true, if_true, dataOf_append_eof, dataOf_dataEv]
      have : n ≤ (s ++ ss.flatten).length := by simp; omega
      simp only [List.flatten_cons, this, if_true]
      rw [List.take_append_of_le_length hle, List.drop_append_of_le_length hle]
    · have h0 : ¬ (n - s.length = 0) := by omega
      have hb : ((n - s.length) == 0) = false := by simpa using h0
      simp only [hb, Bool.false_eq_true, if_false, dataOf_dataEv]
      have hgt : s.length < n := by omega
      rw [ih { p with type := .length, length := n - s.length } (n - s.length) (acc ++ s.take n) rfl rfl (by omega)]
      have htk : s.take n = s := List.take_of_length_le (by omega)
      simp only [List.flatten_cons]
      generalize ss.flatten = r
      rw [htk]
      by_cases h2 : n - s.length ≤ r.length
      · have h3 : n ≤ (s ++ r).length := by rw [List.length_append]; omega
        rw [if_pos h2, if_pos h3, List.take_append, List.drop_append, htk,
          List.drop_eq_nil_of_le (Nat.le_of_lt hgt)]
        simp
      · have h3 : ¬ n ≤ (s ++ r).length := by rw [List.length_append]; omega
        rw [if_neg h2, if_neg h3]
        simp


theorem untilClose_run (cfg : Http.Cfg) (segs : List Bytes) :
    ∀ (p : Http.PState) (acc : Bytes), p.type = .untilEof →
      payloadRun cfg p segs acc = (acc ++ segs.flatten, none) := by
  induction segs with
  | nil => intro p acc _; simp [payloadRun]
  | cons s ss ih =>
    intro p acc ht
    unfold payloadRun
    unfold Http.payloadFeed
    simp only [ht]
    rw [ih p _ ht, dataOf_dataEv]
    simp

end Aio.C02
