import AioModel.C09
/-! Invariant of the repaired `_wait` (`waitEntryCheck = true`): no reader is parked on a live
waiter while an exception is recorded on the stream.  Same traversal as `C09Conserve.lean`; the
functions that touch `waiter` / `exc` (`wake`, `setExc`, the parking sites) are proved by hand. -/
namespace Aio.C09
open Aio
variable {c : Codec}

def NPE (w : World c) : Prop := w.waitEntryCheck = true → w.waiter = true → w.exc = none

/-- a function that preserves the invariant -/
def NPres (f : World c → World c) : Prop := ∀ w, NPE w → NPE (f w)

theorem npe_pauseReading : NPres (c := c) pauseReading := by
  intro w h; unfold pauseReading; simp only; split <;> exact h
/-- a woken reader is not parked on a live waiter -/
theorem npe_wake' (w : World c) : NPE (wake w) := by
  intro _ hw; simp [wake] at hw
theorem npe_wake : NPres (c := c) wake := by intro w _; exact npe_wake' w
/-- `set_exception` fails a registered waiter: afterwards no live waiter -/
theorem npe_setExc' (w : World c) (e : Err) (h : NPE w) : NPE (setExc w e) := by
  intro hf hw
  simp only [setExc] at hw hf ⊢
  split at hw
  · simp at hw
  · rename_i hnw
    simp at hw
    simp [hw] at hnw
theorem npe_setExc (e : Err) : NPres (c := c) (setExc · e) := by
  intro w h; exact npe_setExc' w e h
theorem npe_failWith (e : Err) : NPres (c := c) (failWith · e) := by intro w h; exact h
theorem npe_rdFeed (d : Bytes) : NPres (c := c) (rdFeed · d) := by
  intro w h
  simp only [rdFeed]
  repeat' split
  all_goals first | exact h | exact npe_pauseReading _ (npe_wake' _) | exact npe_wake' _
theorem npe_resumeTransport : NPres (c := c) resumeTransport := by
  intro w h; simp only [resumeTransport]; split <;> exact h
theorem npe_rdFeedEof : NPres (c := c) rdFeedEof := by
  intro w _; exact npe_resumeTransport _ (npe_wake' _)
theorem npe_setChunk (n : Nat) : NPres (c := c) (setChunk · n) := by
  intro w h; simp only [setChunk]; split <;> exact h
theorem npe_beginChunk : NPres (c := c) beginChunk := by
  intro w h; simp only [beginChunk]; split
  · exact h
  · split <;> exact h
theorem npe_endChunk : NPres (c := c) endChunk := by
  intro w h; simp only [endChunk]; split
  · exact h
  · split
    · exact h
    · exact npe_wake' _

theorem npe_sniffStart (d : Bytes) : NPres (c := c) (sniffStart · d) := by
  intro w h; simp only [sniffStart]; split <;> exact h
theorem npe_decodeFeed (d : Bytes) : NPres (c := c) (decodeFeed · d) := by
  intro w h
  simp only [decodeFeed]
  split
  · exact h
  · exact npe_rdFeed _ _ h
theorem npe_payFeed (d : Bytes) : NPres (c := c) (payFeed · d) := by
  intro w h
  simp only [payFeed]
  split
  · exact npe_rdFeed d _ h
  · exact npe_decodeFeed d _ (npe_sniffStart d _ h)
theorem npe_payEof : NPres (c := c) payEof := by
  intro w h; simp only [payEof]; split
  · exact h
  · exact npe_rdFeedEof _ h
theorem npe_drain : ∀ fuel, NPres (c := c) (drain fuel) := by
  intro fuel
  induction fuel with
  | zero => intro w h; exact h
  | succ n ih =>
    intro w h
    simp only [drain]
    split
    · exact h
    · split
      · exact h
      · have := npe_payFeed [] w h
        split
        · exact this
        · exact ih _ this
theorem npe_feedLength (d : Bytes) : NPres (c := c) (feedLength · d) := by
  intro w h
  simp only [feedLength]
  have h1 := npe_payFeed ((w.tail ++ d).take w.length) { w with tail := [], length := w.length - (w.tail ++ d).length } h
  split
  · exact h1
  · have h2 := fun f => npe_drain (c := c) f _ h1
    split
    · exact h2 _
    · exact h2 _
    · split
      · split
        · exact npe_payEof _ (h2 _)
        · exact npe_payEof _ (h2 _)
      · exact h2 _
theorem npe_feedUntilEof (d : Bytes) : NPres (c := c) (feedUntilEof · d) := by
  intro w h
  simp only [feedUntilEof]
  have h1 := npe_payFeed d w h
  split
  · exact h1
  · have h2 := fun f => npe_drain (c := c) f _ h1
    split
    · exact h2 _
    · exact h2 _
    · split
      · split
        · exact npe_payEof _ (h2 _)
        · exact npe_payEof _ (h2 _)
      · exact h2 _

/-- continuation that preserves the invariant -/
def NPresK (k : World c → Bytes → World c) : Prop := ∀ w d, NPE w → NPE (k w d)

theorem npe_payEof' (w : World c) (h : NPE w) : NPE (payEof w) := npe_payEof w h
theorem npe_endChunk' (w : World c) (h : NPE w) : NPE (endChunk w) := npe_endChunk w h
theorem npe_beginChunk' (w : World c) (h : NPE w) : NPE (beginChunk w) := npe_beginChunk w h
theorem npe_payFeed' (w : World c) (d : Bytes) (h : NPE w) : NPE (payFeed w d) := npe_payFeed d w h
theorem npe_failWith' (w : World c) (e : Err) (h : NPE w) : NPE (failWith w e) := h

theorem npe_trailersStep (k : World c → Bytes → World c) (hk : NPresK k) : NPresK (trailersStep k) := by
  intro w d h
  simp only [trailersStep]
  repeat' split
  all_goals repeat (first | exact h | apply hk | apply npe_payEof' | apply npe_failWith')
theorem npe_chunkEofStep (k : World c → Bytes → World c) (hk : NPresK k) : NPresK (chunkEofStep k) := by
  intro w d h
  simp only [chunkEofStep]
  repeat' split
  all_goals repeat (first | exact h | apply hk | apply npe_failWith')
theorem npe_chunkStep (k : World c → Bytes → World c) (hk : NPresK k) : NPresK (chunkStep k) := by
  intro w d h
  simp only [chunkStep]
  repeat' split
  all_goals repeat (first | exact h | apply hk | apply npe_chunkEofStep k hk | apply npe_endChunk' | apply npe_payFeed')
theorem npe_sizeStep (k : World c → Bytes → World c) (hk : NPresK k) : NPresK (sizeStep k) := by
  intro w d h
  simp only [sizeStep]
  repeat' split
  all_goals repeat (first | exact h | apply npe_trailersStep k hk | apply npe_chunkStep k hk | apply npe_beginChunk' | apply npe_failWith')
theorem npe_chunkedLoop : ∀ fuel, NPresK (c := c) (chunkedLoop fuel) := by
  intro fuel
  induction fuel with
  | zero => intro w d h; exact h
  | succ n ih =>
    intro w d h
    simp only [chunkedLoop]
    repeat' split
    all_goals repeat (first | exact h | apply npe_sizeStep _ ih | apply npe_chunkStep _ ih | apply npe_chunkEofStep _ ih | apply npe_trailersStep _ ih)
theorem npe_ppFeedCore (d : Bytes) : NPres (c := c) (ppFeedCore · d) := by
  intro w h
  simp only [ppFeedCore]
  split
  · exact npe_feedLength d w h
  · exact npe_feedUntilEof d w h
  · split
    · exact h
    · exact npe_chunkedLoop _ { w with tail := [] } _ h
theorem npe_ppFeed (d : Bytes) : NPres (c := c) (ppFeed · d) := by
  intro w h
  have h1 := npe_ppFeedCore d w h
  simp only [ppFeed]
  split
  · exact h1
  · exact h1
theorem npe_parserFeed (d : Bytes) : NPres (c := c) (parserFeed · d) := by
  intro w h
  simp only [parserFeed]
  split
  · exact h
  · split
    · exact h
    · have h1 := npe_ppFeed d { w with raised := none, res := .needs } h
      split
      · exact h1
      · exact h1
      · exact h1
      · split
        · exact npe_setExc _ _ h1
        · exact npe_setExc _ _ h1
theorem npe_dataReceived (d : Bytes) : NPres (c := c) (dataReceived · d) := by
  intro w h; simp only [dataReceived]; split
  · exact h
  · exact npe_parserFeed d w h
theorem npe_resumeReading : NPres (c := c) resumeReading := by
  intro w h
  exact npe_resumeTransport _ (npe_dataReceived [] { w with readingPaused := false } h)

theorem npe_resumeReading' (w : World c) (h : NPE w) : NPE (resumeReading w) := npe_resumeReading w h

theorem npe_readChunk (n : Option Nat) : NPres (c := c) (readChunk · n) := by
  intro w h
  simp only [readChunk]
  repeat' split
  all_goals first | exact h | (apply npe_resumeReading'; exact h)

theorem npe_readAllChunks : ∀ k, NPres (c := c) (readAllChunks k) := by
  intro k
  induction k with
  | zero => intro w h; exact h
  | succ n ih => intro w h; exact ih _ (npe_readChunk none w h)

theorem npe_readUpTo : ∀ fuel n, NPres (c := c) (readUpTo fuel n) := by
  intro fuel
  induction fuel with
  | zero => intro n w h; exact h
  | succ f ih =>
    intro n w h
    simp only [readUpTo]
    repeat' split
    all_goals first | exact h | exact npe_readChunk _ w h | exact ih _ _ (npe_readChunk _ w h)

theorem npe_readOp (n : Option Nat) (w : World c) (h : NPE w) : NPE (readOp w n).1 := by
  simp only [readOp]
  repeat' split
  all_goals first
    | exact h
    | exact npe_setChunk _ w h
    | (apply npe_readUpTo; first | exact h | exact npe_setChunk _ w h)
    | (apply npe_readAllChunks; first | exact h | exact npe_setChunk _ w h)

theorem npe_ppFeedEof : NPres (c := c) ppFeedEof := by
  intro w h
  simp only [ppFeedEof]
  repeat' split
  all_goals first
    | exact h
    | exact npe_drain _ _ h
    | exact npe_payEof _ (npe_drain _ _ h)

theorem npe_connectionLost : NPres (c := c) connectionLost := by
  intro w h
  simp only [connectionLost]
  have h1 := npe_ppFeedEof { w with raised := none, res := .needs } h
  repeat' split
  all_goals first | exact h | exact h1 | exact npe_setExc _ _ h1

theorem npe_reqLoop (cms : Nat) : ∀ fuel (w : World c), NPE w → NPE (reqLoop cms fuel w).1 := by
  intro fuel
  induction fuel with
  | zero => intro w h; exact h
  | succ f ih =>
    intro w h
    simp only [reqLoop]
    have h1 := npe_readAllChunks w.buf.length { w with reqParked := false, outb := [] } h
    repeat' split
    all_goals first | exact h | exact h1 | exact ih _ h1 | (intro hf _; simp_all)

theorem npe_reqRead (cms : Nat) (w : World c) (h : NPE w) : NPE (reqRead w cms).1 := by
  simp only [reqRead]
  repeat' split
  all_goals first
    | exact h
    | exact npe_setChunk _ w h
    | (apply npe_reqLoop; first | exact h | exact npe_setChunk _ w h)

theorem npe_resumeGate (w : World c) (h : NPE w) : ∀ r, resumeGate w = some r → NPE r.1 := by
  intro r hr
  simp only [resumeGate] at hr
  repeat' split at hr
  all_goals first | (injection hr with hr; subst hr; exact h) | cases hr
theorem npe_parkOrFail (w : World c) (h : NPE w) : NPE (parkOrFail w).1 := by
  simp only [parkOrFail]
  repeat' split
  all_goals first | exact h | (intro hf _; simp_all)
theorem npe_parkedRead (n : Option Nat) (w : World c) (h : NPE w) : NPE (parkedRead w n).1 := by
  simp only [parkedRead]
  split
  · rename_i r hr; exact npe_resumeGate w h r hr
  · repeat' split
    all_goals first
      | exact h
      | exact npe_setChunk _ w h
      | (apply npe_parkOrFail; first | exact h | exact npe_setChunk _ w h)
      | (apply npe_readUpTo; first | exact h | exact npe_setChunk _ w h)
      | (apply npe_readAllChunks; first | exact h | exact npe_setChunk _ w h)
theorem npe_lineTake (w : World c) (h : NPE w) : NPE (lineTake w) := by
  simp only [lineTake]
  exact npe_readChunk _ { w with outb := [] } h
theorem npe_lineInner : ∀ fuel m (w : World c), NPE w → NPE (lineInner fuel m w).1 := by
  intro fuel
  induction fuel with
  | zero => intro m w h; exact h
  | succ f ih =>
    intro m w h
    simp only [lineInner]
    have h1 := npe_lineTake w h
    repeat' split
    all_goals first | exact h | exact h1 | exact ih _ _ h1
theorem npe_lineStart (w : World c) (h : NPE w) : NPE (lineStart w) := by
  simp only [lineStart]; split <;> exact h
theorem npe_lineFinish (r : World c × LineRes) (h : NPE r.1) : NPE (lineFinish r).1 := by
  simp only [lineFinish]
  repeat' split
  all_goals first | exact h | exact npe_parkOrFail _ h
theorem npe_parkedLine (w : World c) (h : NPE w) : NPE (parkedLine w).1 := by
  simp only [parkedLine]
  split
  · rename_i r hr; exact npe_resumeGate w h r hr
  · exact npe_lineFinish _ (npe_lineInner _ _ _ (npe_lineStart w h))
theorem npe_connectionLostServer (w : World c) (h : NPE w) : NPE (connectionLostServer w) := by
  simp only [connectionLostServer]; exact npe_setExc _ w h

theorem npe_step (w : World c) (op : Op) (h : NPE w) : NPE (step w op).1 := by
  cases op with
  | deliver seg =>
    simp only [step]; split
    · exact h
    · exact npe_dataReceived seg { w with wireInR := seg :: w.wireInR } h
  | close => simp only [step]; split
             · exact h
             · exact npe_connectionLost w h
  | read n =>
    simp only [step]
    repeat' split
    all_goals first | exact h | exact npe_readOp _ w h
  | readAny => exact npe_readOp none w h
  | setChunk n => exact npe_setChunk n w h
  | reqRead cms => exact npe_reqRead cms w h
  | pread n => exact npe_parkedRead _ w h
  | preadAny => exact npe_parkedRead _ w h
  | preadLine => exact npe_parkedLine w h
  | closeServer => simp only [step]; split
                   · exact h
                   · exact npe_connectionLostServer w h

theorem npe_run (ops : List Op) : ∀ (w : World c), NPE w → NPE (run w ops) := by
  induction ops with
  | nil => intro w h; exact h
  | cons op t ih => intro w h; exact ih _ (npe_step w op h)

end Aio.C09
