import AioModel.Utf8
/-! Helper lemmas about `utf8` used by C04 (and others). -/
namespace Aio

theorem utf8enc_low (c : Nat) (bs : Bytes) (h : utf8enc c = some bs) (b : UInt8)
    (hb : b ∈ bs) (hlow : b.toNat < 0x80) : c < 0x80 ∧ bs = [c.toUInt8] := by
  unfold utf8enc at h
  split at h
  · next hc => injection h with h; subst h; exact ⟨hc, rfl⟩
  · exfalso
    split at h
    · injection h with h; subst h
      simp at hb
      rcases hb with hb | hb <;> subst hb <;> simp at hlow <;> omega
    · split at h
      · split at h
        · cases h
        · injection h with h; subst h
          simp at hb
          rcases hb with hb | hb | hb <;> subst hb <;> simp at hlow <;> omega
      · split at h
        · injection h with h; subst h
          simp at hb
          rcases hb with hb | hb | hb | hb <;> subst hb <;> simp at hlow <;> omega
        · cases h

/-- A byte `< 0x80` occurs in the UTF-8 encoding of `cs` only if the code point with that
value occurs in `cs`. -/
theorem utf8_low_byte (cs : Str) (bs : Bytes) (h : utf8 cs = some bs) (b : UInt8)
    (hb : b ∈ bs) (hlow : b.toNat < 0x80) : b.toNat ∈ cs := by
  induction cs generalizing bs with
  | nil => simp [utf8] at h; subst h; simp at hb
  | cons c cs ih =>
    simp only [utf8] at h
    cases h1 : utf8enc c with
    | none => simp [h1] at h
    | some a =>
      cases h2 : utf8 cs with
      | none => simp [h1, h2] at h
      | some r =>
        simp [h1, h2] at h; subst h
        rcases List.mem_append.mp hb with hb | hb
        · have ⟨hc, ha⟩ := utf8enc_low c a h1 b hb hlow
          subst ha
          simp at hb; subst hb
          have : (c.toUInt8).toNat = c := by simp; omega
          simp [this]
        · exact List.mem_cons_of_mem _ (ih r h2 hb)

end Aio
