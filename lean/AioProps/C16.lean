import AioProps.C16Lemmas
/-!
# C16 — property theorems (cookies are sent only where RFC 6265 scoping allows)

Model: `AioModel/C16.lean` (= `aiohttp/cookiejar.py`); reference store: `AioModel/C16Ref.lean`
(RFC 6265 §5.3/§5.4).  Every statement quantifies over **all** histories of responses
(`set`), clock advances, `clear`, `clear_domain`, save+load and queries.

What is proved, and what is not:

* *Selection* (`filter_cookies`) — for every history, the cookies attached to a request are
  exactly those RFC 6265 §5.4 selects from what the jar has **recorded** (domain, path,
  Secure, host-only flag, deadline): theorems `jar_refines_refstore_partial`,
  `never_to_non_matching_host`, `host_only_exact`, `path_scoped_partial`, `secure_only_https`,
  `not_after_expiry`, `nothing_withheld`.
* *Acceptance* (`update_cookies`) — a response can touch nothing outside its own host's
  domain: `cross_site_cannot_set_or_overwrite`.
* The full statement

      ∀ history url, filter (run history) url = Ref.select (Ref.run history) url

  is **false for the unchanged code**: what the jar *records* drifts from what RFC 6265 §5.3
  prescribes in seven ways (eight kernel-checked counterexamples below)
  (`f10_host_only_lost`, `stale_host_only_key`, `stale_deadline_after_overwrite`,
  `invalid_max_age_shadows_expires`, `expires_at_epoch_kept`, `multiple_trailing_slashes`,
  `path_key_collision`, `domain_attr_case`).  The missing half of the refinement is therefore
  "recorded host-only flag / deadline / path identity = the RFC's along every history".
-/
namespace Aio.C16
open Aio

/-- the jar after a history that starts from an empty jar at time `now0` -/
def after (allowIp : Bool) (now0 : Int) (ops : List Op) : World := run allowIp { now := now0 } ops

/-- name → value map attached to a request for (`host`, `rpath`, secure scheme?) after `ops` -/
def sent (allowIp : Bool) (now0 : Int) (ops : List Op) (host rpath : Str) (sec : Bool) : List (Str × Str) :=
  (filter allowIp (after allowIp now0 ops).now (after allowIp now0 ops).jar host rpath sec).2

/-- the jar as that request sees it (expired cookies evicted) -/
def seen (allowIp : Bool) (now0 : Int) (ops : List Op) : Jar :=
  doExpiration (after allowIp now0 ops).jar (after allowIp now0 ops).now

/-- what the RFC 6265 reference store attaches after the same history -/
def refSent (allowIp : Bool) (now0 : Int) (ops : List Op) (host rpath : Str) (sec : Bool) : List (Str × Str) :=
  let r := Ref.run allowIp now0 [] ops
  (Ref.select allowIp r.1 r.2 host rpath sec).map (fun c => (c.name, c.value))

theorem after_inv (allowIp : Bool) (now0 : Int) (ops : List Op) : Inv (after allowIp now0 ops).jar :=
  inv_run allowIp ops _ inv_empty

theorem after_noShared (allowIp : Bool) (now0 : Int) (ops : List Op) (hops : ∀ op ∈ ops, Hostful op) :
    NoShared (after allowIp now0 ops).jar :=
  noShared_run allowIp ops _ hops inv_empty (by intro e he; simp at he)

/-- **Every attached cookie is in scope (all clauses at once).** After any history, every
`name = value` attached to a request is a stored, unexpired cookie whose recorded domain
matches the request host (exactly, if it is recorded host-only), whose stripped path is a
`/`-boundary prefix of the request path and whose full path is not longer than it, and which
is not Secure unless the scheme is. -/
theorem sent_only_in_recorded_scope (allowIp : Bool) (now0 : Int) (ops : List Op)
    (hops : ∀ op ∈ ops, Hostful op) (host rpath : Str) (sec : Bool) (n v : Str)
    (h : aget n (sent allowIp now0 ops host rpath sec) = some v) :
    ∃ e ∈ (after allowIp now0 ops).jar.cookies, e.c.name = n ∧ e.c.value = v ∧
      ¬(isIp host = true ∧ allowIp = false) ∧
      (if (seen allowIp now0 ops).hostOnly.contains (e.c.domain, n) then host == e.c.domain
        else Ref.domainMatch host e.c.domain) = true ∧
      (rstripSlash e.c.path ∈ pathCands rpath ∧ ¬ e.c.path.length > rpath.length) ∧
      (e.c.secure = true → sec = true) ∧
      (∀ w, aget e.key (after allowIp now0 ops).jar.expirations = some w → (after allowIp now0 ops).now < w) := by
  have hI := after_inv allowIp now0 ops
  have hNS := after_noShared allowIp now0 ops hops
  obtain ⟨e, he, hn, hv⟩ := (filter_out_spec allowIp _ _ host rpath sec hI).1 n v h
  have hIx := inv_doExpiration _ (after allowIp now0 ops).now hI
  have hNSx := noShared_doExpiration _ (after allowIp now0 ops).now hNS
  have hec := hits_sub _ _ _ _ _ e he
  obtain ⟨h1, h2, h3, h4⟩ := (mem_hits_iff allowIp (after allowIp now0 ops).now _ host rpath sec e hIx hNSx hec).mp he
  obtain ⟨hpre, hexp⟩ := survivor _ _ hI e hec
  subst hn
  exact ⟨e, hpre, rfl, hv, h1, h2, h3, h4, hexp⟩

/-- **Never to a host that does not domain-match.** Whatever the history, a cookie is only
attached to a request whose host RFC 6265-domain-matches the cookie's domain. -/
theorem never_to_non_matching_host (allowIp : Bool) (now0 : Int) (ops : List Op)
    (hops : ∀ op ∈ ops, Hostful op) (host rpath : Str) (sec : Bool) (n v : Str)
    (h : aget n (sent allowIp now0 ops host rpath sec) = some v) :
    ∃ e ∈ (after allowIp now0 ops).jar.cookies, e.c.name = n ∧ e.c.value = v ∧
      Ref.domainMatch host e.c.domain = true := by
  obtain ⟨e, he, hn, hv, _, hd, _⟩ := sent_only_in_recorded_scope allowIp now0 ops hops host rpath sec n v h
  refine ⟨e, he, hn, hv, ?_⟩
  split at hd
  · have : host = e.c.domain := by simpa using hd
    simp [Ref.domainMatch, this]
  · exact hd

/-- **Host-only cookies only to the exact host** — for the host-only flag *as the jar has it
recorded* at the time of the request.  (That the recorded flag can be lost is finding F10,
`f10_host_only_lost` below.) -/
theorem host_only_exact (allowIp : Bool) (now0 : Int) (ops : List Op)
    (hops : ∀ op ∈ ops, Hostful op) (host rpath : Str) (sec : Bool) (n v : Str)
    (h : aget n (sent allowIp now0 ops host rpath sec) = some v) :
    ∃ e ∈ (after allowIp now0 ops).jar.cookies, e.c.name = n ∧ e.c.value = v ∧
      ((e.c.domain, n) ∈ (seen allowIp now0 ops).hostOnly → host = e.c.domain) := by
  obtain ⟨e, he, hn, hv, _, hd, _⟩ := sent_only_in_recorded_scope allowIp now0 ops hops host rpath sec n v h
  refine ⟨e, he, hn, hv, ?_⟩
  intro hho
  have : (seen allowIp now0 ops).hostOnly.contains (e.c.domain, n) = true := by simpa using hho
  rw [this] at hd
  simpa using hd

/- Full statement (false for the unchanged code, see `multiple_trailing_slashes`):
   theorem path_scoped : … ∃ e, … ∧ Ref.pathMatch rpath e.c.path = true -/
/-- **Path scoped (partial).** An attached cookie's stripped path is the request path or a
prefix of it ending at a `/` boundary; and if the cookie path has at most one trailing slash
(`Tame`), the request path RFC 6265-path-matches the cookie path. Missing: cookie paths
ending in two or more slashes (`/x//` is attached to `/x/y`). -/
theorem path_scoped_partial (allowIp : Bool) (now0 : Int) (ops : List Op)
    (hops : ∀ op ∈ ops, Hostful op) (host rpath : Str) (sec : Bool) (n v : Str)
    (h : aget n (sent allowIp now0 ops host rpath sec) = some v) :
    ∃ e ∈ (after allowIp now0 ops).jar.cookies, e.c.name = n ∧ e.c.value = v ∧
      (rstripSlash e.c.path = rpath ∨ (rstripSlash e.c.path ++ [47]) <+: rpath) ∧
      (Tame e.c.path → Ref.pathMatch rpath e.c.path = true) := by
  obtain ⟨e, he, hn, hv, _, _, hp, _⟩ := sent_only_in_recorded_scope allowIp now0 ops hops host rpath sec n v h
  exact ⟨e, he, hn, hv, (mem_pathCands _ _).mp hp.1, fun hT => (pathOK_iff _ _ hT).mp hp⟩

/-- **Secure cookies only over https/wss.** -/
theorem secure_only_https (allowIp : Bool) (now0 : Int) (ops : List Op)
    (hops : ∀ op ∈ ops, Hostful op) (host rpath : Str) (n v : Str)
    (h : aget n (sent allowIp now0 ops host rpath false) = some v) :
    ∃ e ∈ (after allowIp now0 ops).jar.cookies, e.c.name = n ∧ e.c.value = v ∧ e.c.secure = false := by
  obtain ⟨e, he, hn, hv, _, _, _, hs, _⟩ := sent_only_in_recorded_scope allowIp now0 ops hops host rpath false n v h
  refine ⟨e, he, hn, hv, ?_⟩
  cases hsec : e.c.secure
  · rfl
  · exact absurd (hs hsec) (by simp)

/-- **Not after expiry** — for the deadline the jar has recorded: a cookie whose recorded
deadline is `≤ now` is never attached. (That the recorded deadline can differ from the RFC's
is shown by `stale_deadline_after_overwrite`, `invalid_max_age_shadows_expires`,
`expires_at_epoch_kept`.) -/
theorem not_after_expiry (allowIp : Bool) (now0 : Int) (ops : List Op)
    (hops : ∀ op ∈ ops, Hostful op) (host rpath : Str) (sec : Bool) (n v : Str)
    (h : aget n (sent allowIp now0 ops host rpath sec) = some v) :
    ∃ e ∈ (after allowIp now0 ops).jar.cookies, e.c.name = n ∧ e.c.value = v ∧
      ∀ w, aget e.key (after allowIp now0 ops).jar.expirations = some w → (after allowIp now0 ops).now < w := by
  obtain ⟨e, he, hn, hv, _, _, _, _, hx⟩ := sent_only_in_recorded_scope allowIp now0 ops hops host rpath sec n v h
  exact ⟨e, he, hn, hv, hx⟩

/-- **Eviction is complete, whatever the heap went through.** After any history — including
every heap clean-up (`> 100` entries and `> 2 ×` live deadlines) at any moment relative to
the deadlines — once `_do_expiration` has run at time `now`, no stored cookie has a recorded
deadline `≤ now`: a due entry is never lost from the heap before it is acted on. (Seeded
defect C16-10 breaks exactly this: a clean-up that also drops due entries.) -/
theorem eviction_complete (allowIp : Bool) (now0 : Int) (ops : List Op) (k : Key) (w : Int)
    (h : aget k (seen allowIp now0 ops).expirations = some w) : (after allowIp now0 ops).now < w :=
  doExpiration_noExpired _ _ (after_inv allowIp now0 ops) k w h

/-- the clean-up keeps every live heap entry (one whose deadline is the recorded one) -/
theorem cleanup_keeps_live_entries (allowIp : Bool) (now0 : Int) (ops : List Op) (k : Key) (w : Int)
    (h : aget k (after allowIp now0 ops).jar.expirations = some w) :
    (w, k) ∈ cleanedHeap (after allowIp now0 ops).jar :=
  cleanedHeap_mem _ k w ((after_inv allowIp now0 ops).heap k w h) h

/-- **Nothing in scope is withheld.** Every stored, unexpired cookie that passes the scope
test has its *name* attached (the result is a name-keyed map, so of several cookies with one
name one value is visible). -/
theorem nothing_withheld (allowIp : Bool) (now0 : Int) (ops : List Op)
    (hops : ∀ op ∈ ops, Hostful op) (host rpath : Str) (sec : Bool) (e : Entry)
    (he : e ∈ (seen allowIp now0 ops).cookies)
    (hip : ¬(isIp host = true ∧ allowIp = false))
    (hd : (if (seen allowIp now0 ops).hostOnly.contains (e.c.domain, e.c.name) then host == e.c.domain
        else Ref.domainMatch host e.c.domain) = true)
    (hp : rstripSlash e.c.path ∈ pathCands rpath ∧ ¬ e.c.path.length > rpath.length)
    (hs : e.c.secure = true → sec = true) :
    (aget e.c.name (sent allowIp now0 ops host rpath sec)).isSome = true := by
  have hI := after_inv allowIp now0 ops
  have hNS := after_noShared allowIp now0 ops hops
  have hIx := inv_doExpiration _ (after allowIp now0 ops).now hI
  have hNSx := noShared_doExpiration _ (after allowIp now0 ops).now hNS
  apply (filter_out_spec allowIp _ _ host rpath sec hI).2 e
  exact (mem_hits_iff allowIp (after allowIp now0 ops).now _ host rpath sec e hIx hNSx he).mpr ⟨hip, hd, hp, hs⟩

/- Full statement (false for the unchanged code — eight counterexamples below):
   theorem jar_refines_refstore : ∀ ops host rpath sec, (∀ op ∈ ops, Hostful op) →
     sent allowIp now0 ops host rpath sec ≈ refSent allowIp now0 ops host rpath sec -/
/-- **The jar refines the reference store (partial: selection half).** After any history, if
every stored cookie path has at most one trailing slash, the attached name → value map is
sound and complete for `Ref.select` (RFC 6265 §5.4) applied to `abs` of the jar — the stored
cookies with the host-only flag and deadline the jar has recorded: every attached
`name = value` is one the reference selection attaches, and every name it attaches is
attached. Missing: that `abs (jar)` equals the reference store's own state along the
history (false — see the counterexamples). -/
theorem jar_refines_refstore_partial (allowIp : Bool) (now0 : Int) (ops : List Op)
    (hops : ∀ op ∈ ops, Hostful op) (host rpath : Str) (sec : Bool)
    (hT : ∀ e ∈ (seen allowIp now0 ops).cookies, Tame e.c.path) :
    (∀ n v, aget n (sent allowIp now0 ops host rpath sec) = some v →
      ∃ c ∈ Ref.select allowIp (after allowIp now0 ops).now (abs (seen allowIp now0 ops)) host rpath sec,
        c.name = n ∧ c.value = v) ∧
    (∀ c ∈ Ref.select allowIp (after allowIp now0 ops).now (abs (seen allowIp now0 ops)) host rpath sec,
      (aget c.name (sent allowIp now0 ops host rpath sec)).isSome = true) := by
  unfold seen at hT ⊢
  unfold sent
  have hI := after_inv allowIp now0 ops
  have hNS := after_noShared allowIp now0 ops hops
  have hIx := inv_doExpiration _ (after allowIp now0 ops).now hI
  have hNSx := noShared_doExpiration _ (after allowIp now0 ops).now hNS
  generalize hjx : doExpiration (after allowIp now0 ops).jar (after allowIp now0 ops).now = jx at *
  have hNE : ∀ e ∈ jx.cookies, ∀ w,
      aget e.key jx.expirations = some w → (after allowIp now0 ops).now < w := by
    intro e _ w hw; rw [← hjx] at hw; exact doExpiration_noExpired _ _ hI _ _ hw
  obtain ⟨hs, hc⟩ := filter_out_spec allowIp (after allowIp now0 ops).now _ host rpath sec hI
  rw [hjx] at hs hc
  have hsel : ∀ e ∈ jx.cookies,
      (e ∈ hits allowIp jx host rpath sec ↔
        absE jx e ∈ Ref.select allowIp (after allowIp now0 ops).now (abs jx) host rpath sec) := by
    intro e he
    rw [hit_iff_attachable allowIp (after allowIp now0 ops).now _ host rpath sec e hIx hNSx he (hT e he) (hNE e he)]
    unfold Ref.select
    by_cases hb : (!allowIp && isIp host) = true
    · have : isIp host = true ∧ allowIp = false := by
        simp only [Bool.and_eq_true, Bool.not_eq_true'] at hb; exact ⟨hb.2, hb.1⟩
      simp [hb, this]
    · have hb' : ¬(isIp host = true ∧ allowIp = false) := by
        intro h; apply hb; simp [h.1, h.2]
      simp only [hb, Bool.false_eq_true, if_false, List.mem_filter, abs, List.mem_map]
      constructor
      · rintro ⟨_, ha⟩; exact ⟨⟨e, he, rfl⟩, ha⟩
      · rintro ⟨_, ha⟩; exact ⟨hb', ha⟩
  constructor
  · intro n v hv
    obtain ⟨e, he, hn, hval⟩ := hs n v hv
    exact ⟨absE _ e, (hsel e (hits_sub _ _ _ _ _ e he)).mp he, hn, hval⟩
  · intro c hcsel
    have hmem : c ∈ abs jx := by
      unfold Ref.select at hcsel
      split at hcsel
      · simp at hcsel
      · exact (List.mem_filter.mp hcsel).1
    simp only [abs, List.mem_map] at hmem
    obtain ⟨e, he, rfl⟩ := hmem
    exact hc e ((hsel e he).mpr hcsel)

/-- **One site cannot set or overwrite another site's cookies.** Processing the Set-Cookie
headers of a response from host `h` changes no stored cookie, no host-only mark and no
recorded deadline whose domain `h` does not RFC 6265-domain-match: such entries are exactly
those that were there before (so `evil.org` can neither plant nor replace a cookie of
`example.com`, and `sub.example.com` cannot touch `other.example.com`). -/
theorem cross_site_cannot_set_or_overwrite (now : Int) (h rpath : Str) (hh : h ≠ []) (rs : List Raw) :
    ∀ (j : Jar), j.cookies.Pairwise (fun a b => a.key ≠ b.key) →
    (∀ e, e.dom ≠ [] → Ref.domainMatch h e.dom = false →
      (e ∈ (rs.foldl (acceptOne now (some h) rpath) j).cookies ↔ e ∈ j.cookies)) ∧
    (∀ d n, d ≠ [] → Ref.domainMatch h d = false →
      ((d, n) ∈ (rs.foldl (acceptOne now (some h) rpath) j).hostOnly ↔ (d, n) ∈ j.hostOnly)) ∧
    (∀ k : Key, k.1 ≠ [] → Ref.domainMatch h k.1 = false →
      aget k (rs.foldl (acceptOne now (some h) rpath) j).expirations = aget k j.expirations) := by
  have conv : ∀ d : Str, d ≠ [] → Ref.domainMatch h d = false → isDomainMatch d h = false := by
    intro d hd hm
    cases hx : isDomainMatch d h with
    | false => rfl
    | true => rw [(isDomainMatch_iff d h hd).mp hx] at hm; cases hm
  induction rs with
  | nil => intro j _; simp
  | cons r t ih =>
    intro j hu
    obtain ⟨f0, f1, f2, f3⟩ := acceptOne_frame now h rpath j r hh hu
    obtain ⟨g1, g2, g3⟩ := ih (acceptOne now (some h) rpath j r) f0
    simp only [List.foldl_cons]
    refine ⟨?_, ?_, ?_⟩
    · intro e hd hm; exact (g1 e hd hm).trans (f1 e (conv _ hd hm))
    · intro d n hd hm; exact (g2 d n hd hm).trans (f2 d n (conv _ hd hm))
    · intro k hd hm; exact (g3 k hd hm).trans (f3 k (conv _ hd hm))

/-! ## non-vacuity: a concrete history satisfies the hypotheses and attaches a cookie -/

def hE : Str := [101, 46, 99]             -- "e.c"      (think example.com)
def hS : Str := [115, 46, 101, 46, 99]    -- "s.e.c"    (think sub.example.com)
def pRoot : Str := [47]                   -- "/"
def pX : Str := [47, 120]                 -- "/x"
def pXs : Str := [47, 120, 47]            -- "/x/"
def pXss : Str := [47, 120, 47, 47]       -- "/x//"
def pXY : Str := [47, 120, 47, 121]       -- "/x/y"
def pY : Str := [47, 121]                 -- "/y"
def nA : Str := [97]
def v1 : Str := [49]
def v2 : Str := [50]
/-- `name=value` with optional Domain / Path / Max-Age / Expires -/
def ck (v dom path : Str) (ma ex : Att) : Raw := ⟨nA, v, dom, path, false, ma, ex⟩

example : (∀ op ∈ [Op.set (some hE) pRoot [ck v1 hE pX .absent .absent], Op.tick 3], Hostful op) ∧
    aget nA (sent false 0 [Op.set (some hE) pRoot [ck v1 hE pX .absent .absent], Op.tick 3] hS pXY false) = some v1 ∧
    (∀ e ∈ (seen false 0 [Op.set (some hE) pRoot [ck v1 hE pX .absent .absent], Op.tick 3]).cookies,
      e.c.path = rstripSlash e.c.path) := by
  refine ⟨?_, by decide +kernel, by decide +kernel⟩
  intro op h
  simp only [List.mem_cons, List.not_mem_nil, or_false] at h
  rcases h with rfl | rfl <;> simp [Hostful, hE]

/-- Regression witness (seeded defect C16-2): `e.c` sets the domain cookie `a=1; Domain=e.c;
Path=/x` and then the otherwise identical `a=1; Path=/x` without Domain. RFC 6265 §5.3 replaces
the cookie by a host-only one; the model of the unchanged code agrees — the host-only mark is
recorded whether or not the (equal) Morsel is stored again — and `s.e.c` gets nothing. -/
theorem identical_reset_becomes_host_only :
    sent false 0 [.set (some hE) pRoot [ck v1 hE pX .absent .absent], .set (some hE) pRoot [ck v1 [] pX .absent .absent]]
        hS pX false = [] ∧
    refSent false 0 [.set (some hE) pRoot [ck v1 hE pX .absent .absent], .set (some hE) pRoot [ck v1 [] pX .absent .absent]]
        hS pX false = [] ∧
    sent false 0 [.set (some hE) pRoot [ck v1 hE pX .absent .absent], .set (some hE) pRoot [ck v1 [] pX .absent .absent]]
        hE pX false = [(nA, v1)] := by
  decide +kernel

/-! ## counterexamples: where the unchanged code leaves RFC 6265 (each is a reported finding) -/

/-- **F10** `C16/host-only-lost/same-name-other-path-expired`: `e.c` sets `a=1; Path=/x;
Max-Age=1` and the host-only `a=2; Path=/y`. Five seconds later `a=2` is attached to a
request to the *sub-domain* `s.e.c`; the reference store attaches nothing. -/
theorem f10_host_only_lost :
    sent false 0 [.set (some hE) pRoot [ck v1 [] pX (.val 1) .absent, ck v2 [] pY .absent .absent], .tick 5]
        hS pY false = [(nA, v2)] ∧
    refSent false 0 [.set (some hE) pRoot [ck v1 [] pX (.val 1) .absent, ck v2 [] pY .absent .absent], .tick 5]
        hS pY false = [] := by
  decide +kernel

/-- `C16/not-sent/stale-host-only-key`: after the host-only `a=1`, `e.c` sets the *domain*
cookie `a=2; Domain=e.c`. RFC 6265 replaces the cookie and attaches `a=2` to `s.e.c`; the
jar still treats it as host-only and withholds it. -/
theorem stale_host_only_key :
    sent false 0 [.set (some hE) pRoot [ck v1 [] [] .absent .absent], .set (some hE) pRoot [ck v2 hE [] .absent .absent]]
        hS pRoot false = [] ∧
    refSent false 0 [.set (some hE) pRoot [ck v1 [] [] .absent .absent], .set (some hE) pRoot [ck v2 hE [] .absent .absent]]
        hS pRoot false = [(nA, v2)] := by
  decide +kernel

/-- `C16/not-sent/stale-expiry-after-overwrite`: `a=1; Max-Age=5` is overwritten by the
session cookie `a=2`; ten seconds later the jar has evicted `a=2` with the old deadline. -/
theorem stale_deadline_after_overwrite :
    sent false 0 [.set (some hE) pRoot [ck v1 [] [] (.val 5) .absent], .set (some hE) pRoot [ck v2 [] [] .absent .absent], .tick 10]
        hE pRoot false = [] ∧
    refSent false 0 [.set (some hE) pRoot [ck v1 [] [] (.val 5) .absent], .set (some hE) pRoot [ck v2 [] [] .absent .absent], .tick 10]
        hE pRoot false = [(nA, v2)] := by
  decide +kernel

/-- `C16/sent-after-expiry/invalid-max-age-shadows-expires`: with an unparsable Max-Age the
valid Expires (here: time 3) is never looked at; the cookie is still attached at time 10. -/
theorem invalid_max_age_shadows_expires :
    sent false 0 [.set (some hE) pRoot [ck v1 [] [] .bad (.val 3)], .tick 10] hE pRoot false = [(nA, v1)] ∧
    refSent false 0 [.set (some hE) pRoot [ck v1 [] [] .bad (.val 3)], .tick 10] hE pRoot false = [] := by
  decide +kernel

/-- `C16/sent-after-expiry/expires-at-epoch`: `Expires=Thu, 01 Jan 1970 00:00:00 GMT` parses
to 0, which the code takes for "no date": the cookie meant to be deleted is kept for ever. -/
theorem expires_at_epoch_kept :
    sent false 1000 [.set (some hE) pRoot [ck v1 [] [] .absent (.val 0)]] hE pRoot false = [(nA, v1)] ∧
    refSent false 1000 [.set (some hE) pRoot [ck v1 [] [] .absent (.val 0)]] hE pRoot false = [] := by
  decide +kernel

/-- `C16/path-mismatch/multiple-trailing-slashes`: a cookie with `Path=/x//` is attached to
`/x/y`, which it does not path-match. -/
theorem multiple_trailing_slashes :
    sent false 0 [.set (some hE) pRoot [ck v1 [] pXss .absent .absent]] hE pXY false = [(nA, v1)] ∧
    refSent false 0 [.set (some hE) pRoot [ck v1 [] pXss .absent .absent]] hE pXY false = [] := by
  decide +kernel

/-- `C16/not-sent/path-key-collision`: `Path=/x` and `Path=/x/` are different cookies for
RFC 6265 but share the jar key `/x`; the second replaces the first and `/x` gets nothing. -/
theorem path_key_collision :
    sent false 0 [.set (some hE) pRoot [ck v1 [] pX .absent .absent, ck v2 [] pXs .absent .absent]] hE pX false = [] ∧
    refSent false 0 [.set (some hE) pRoot [ck v1 [] pX .absent .absent, ck v2 [] pXs .absent .absent]] hE pX false
      = [(nA, v1)] := by
  decide +kernel

/-- `C16/not-sent/domain-attr-case`: `Domain=E.C` (upper case) from `e.c` is refused; RFC 6265
§5.2.3 lower-cases the attribute and accepts the cookie. -/
theorem domain_attr_case :
    sent false 0 [.set (some hE) pRoot [ck v1 [69, 46, 67] [] .absent .absent]] hE pRoot false = [] ∧
    refSent false 0 [.set (some hE) pRoot [ck v1 [69, 46, 67] [] .absent .absent]] hE pRoot false = [(nA, v1)] := by
  decide +kernel

end Aio.C16
