import AioModel.C16
import AioModel.C16Ref
/-! # C16 — property theorems (placeholder while the model is validated) -/
