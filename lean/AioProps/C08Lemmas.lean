import AioModel.C08
/-! Helper lemmas for the C08 property theorems: the invariant `Inv`, the primitive moves
every consumer coroutine is composed of (`Move`, `Reach`), and their preservation. -/
namespace Aio.C08
open Aio

/-- the bytes currently buffered, in order -/
def rest (s : S) : Bytes := s.bufs.flatten.drop s.off

def nsplits (s : S) : Nat := match s.splits with | none => 0 | some l => l.length

/-- bytes taken by the parked call, not yet returned -/
def pendAcc (s : S) : Bytes := match s.parked with | none => [] | some p => p.acc

structure Inv (s : S) : Prop where
  nonempty : ∀ b ∈ s.bufs, b ≠ []
  off_lt : ∀ b t, s.bufs = b :: t → s.off < b.length
  off_nil : s.bufs = [] → s.off = 0
  size_eq : s.size = (rest s).length
  cons : s.taken ++ rest s = s.fed
  cursor_eq : s.cursor = s.taken.length
  total_eq : s.total = s.fed.length
  sorted : ∀ l, s.splits = some l → l.Pairwise (· < ·)
  range : ∀ l, s.splits = some l → ∀ p ∈ l, s.cursor ≤ p ∧ p ≤ s.total
  inb : ∀ l, s.splits = some l → ∀ p ∈ l, p ∈ s.bounds
  high_eq : s.high = s.low * 2
  lwc : 2 ≤ s.lowChunks ∧ s.lowChunks ≤ s.highChunks
  tp : s.connected = true → s.tpaused = true → s.paused = true
  bounded : s.paused = false → s.eof = false → s.size ≤ s.high ∧ nsplits s ≤ s.highChunks
  waiter_parked : s.waiter = true → s.parked.isSome ∧ s.fut = .pending
  waiter_empty : s.waiter = true → s.bufs = []
  fut_pending : s.fut = .pending → s.waiter = true

theorem rest_nil {s : S} (h : s.bufs = []) : rest s = [] := by simp [rest, h]

theorem rest_cons {s : S} (hi : Inv s) {b t} (h : s.bufs = b :: t) :
    rest s = b.drop s.off ++ t.flatten := by
  have := hi.off_lt b t h
  simp [rest, h, List.drop_append_of_le_length (Nat.le_of_lt this)]

theorem rest_ne_nil {s : S} (hi : Inv s) (h : s.bufs ≠ []) : rest s ≠ [] := by
  cases hb : s.bufs with
  | nil => exact absurd hb h
  | cons b t =>
    rw [rest_cons hi hb]
    have := hi.off_lt b t hb
    intro hh
    have h2 := congrArg List.length hh
    simp at h2
    omega

theorem cursor_le_total {s : S} (hi : Inv s) : s.cursor ≤ s.total := by
  rw [hi.cursor_eq, hi.total_eq, ← hi.cons]; simp

theorem cursor_add_size {s : S} (hi : Inv s) : s.cursor + s.size = s.total := by
  rw [hi.cursor_eq, hi.total_eq, hi.size_eq, ← hi.cons]; simp

theorem bufs_nil_of_size {s : S} (hi : Inv s) (h : s.size = 0) : s.bufs = [] := by
  by_cases hb : s.bufs = []
  · exact hb
  · have := rest_ne_nil hi hb
    have h2 := hi.size_eq
    rw [h] at h2
    exact absurd (List.eq_nil_of_length_eq_zero h2.symm) this

/-! ### list facts -/

theorem dropWhile_ge {c : Nat} : ∀ {l : List Nat}, l.Pairwise (· < ·) → ∀ p ∈ l.dropWhile (· < c), c ≤ p
  | [], _, p, hp => by simp at hp
  | a :: l, hs, p, hp => by
    rw [List.dropWhile_cons] at hp
    split at hp
    · exact dropWhile_ge (List.Pairwise.of_cons hs) p hp
    · rename_i ha
      simp at ha
      rcases List.mem_cons.mp hp with rfl | hm
      · exact ha
      · have := List.rel_of_pairwise_cons hs hm
        omega

theorem mem_of_mem_dropWhile {f : Nat → Bool} {l : List Nat} {p : Nat} (h : p ∈ l.dropWhile f) : p ∈ l :=
  (List.dropWhile_sublist f).subset h

/-- a strictly increasing list inside `[c, t]` with `c = t` has at most one element -/
theorem sorted_const_length {c : Nat} : ∀ {l : List Nat}, l.Pairwise (· < ·) → (∀ p ∈ l, c ≤ p ∧ p ≤ c) → l.length ≤ 1
  | [], _, _ => by simp
  | [_], _, _ => by simp
  | a :: b :: l, hs, hr => by
    have h1 := hr a (by simp)
    have h2 := hr b (by simp)
    have := List.rel_of_pairwise_cons hs (List.mem_cons_self (a := b) (l := l))
    omega

/-! ### the consumption primitive -/

theorem rncSel_spec (b : Bytes) (t : List Bytes) (off : Nat) (n : Option Nat) (hoff : off < b.length) :
    let r := rncSel b t off n
    b.drop off ++ t.flatten = r.1 ++ r.2.1.flatten.drop r.2.2 ∧
    (∀ c ∈ r.2.1, c ∈ b :: t) ∧
    (∀ c u, r.2.1 = c :: u → r.2.2 < c.length ∨ (r.2.2 = 0 ∧ r.2.1 = t)) ∧
    (r.2.1 = [] → r.2.2 = 0) ∧
    (n ≠ some 0 → r.1 ≠ []) ∧
    (∀ k, n = some k → r.1.length ≤ k) ∧
    (∀ k, n = some k → r.1.length < k → r.2.1 = t ∧ r.2.2 = 0) ∧
    (n = none → r.2.1 = t ∧ r.2.2 = 0) := by
  cases n with
  | none =>
    simp only [rncSel]
    refine ⟨by simp, ?_, ?_, by simp, ?_, by simp, by simp, by simp⟩
    · intro c hc; exact List.mem_cons_of_mem _ hc
    · intro c u h; right; simp
    · intro _ h; have := congrArg List.length h; simp at this; omega
  | some k =>
    simp only [rncSel]
    split
    · rename_i hk
      refine ⟨?_, by simp, ?_, by simp, ?_, ?_, ?_, by simp⟩
      · simp only [List.flatten_cons]
        rw [List.drop_append_of_le_length (by omega)]
        rw [← List.append_assoc]
        congr 1
        rw [← List.drop_drop, List.take_append_drop]
      · intro c u h; left; simp only [List.cons.injEq] at h; rw [← h.1]; show off + k < b.length; omega
      · intro hk0 h
        have := congrArg List.length h
        simp at this
        rcases this with h1 | h1
        · exact hk0 (by rw [h1])
        · omega
      · intro k' hk'; cases hk'; simp [List.length_take]; omega
      · intro k' hk' hl; cases hk'; simp [List.length_take] at hl; omega
    · rename_i hk
      refine ⟨by simp, ?_, ?_, by simp, ?_, ?_, by simp, by simp⟩
      · intro c hc; exact List.mem_cons_of_mem _ hc
      · intro c u h; right; simp
      · intro _ h; have := congrArg List.length h; simp at this; omega
      · intro k' hk'; cases hk'; simp; omega

theorem nsplits_le_of_chunksLow {s : S} (hi : Inv s) (h : chunksLow s = true) : nsplits s ≤ s.highChunks := by
  have := hi.lwc
  unfold chunksLow at h
  unfold nsplits
  split at h <;> simp_all <;> omega

theorem inv_maybeResume {s : S} (hi : Inv s) : Inv (maybeResume s) := by
  unfold maybeResume
  split
  · rename_i h
    simp only [Bool.and_eq_true, decide_eq_true_eq] at h
    have hb := nsplits_le_of_chunksLow hi h.2
    have hl := hi.high_eq
    unfold resumeReading
    split
    · exact { hi with
        tp := by simp
        bounded := by intro _ _; exact ⟨by simp; omega, hb⟩ }
    · rename_i hc
      exact { hi with
        tp := by intro h; simp at hc; simp_all
        bounded := by intro _ _; exact ⟨by simp; omega, hb⟩ }
  · exact hi

theorem inv_rncUpd {s : S} (hi : Inv s) {b t} (hb : s.bufs = b :: t) (n : Option Nat) :
    let r := rncSel b t s.off n
    Inv (rncUpd s r.1 r.2.1 r.2.2) ∧ rest s = r.1 ++ rest (rncUpd s r.1 r.2.1 r.2.2) := by
  have hoff := hi.off_lt b t hb
  have hsel := rncSel_spec b t s.off n hoff
  intro r
  obtain ⟨h1, h2, h3, h4, -, -, -, -⟩ := hsel
  have hrest : rest s = r.1 ++ rest (rncUpd s r.1 r.2.1 r.2.2) := by
    rw [rest_cons hi hb]; exact h1
  have hw : s.waiter = false := by
    cases hw : s.waiter with
    | false => rfl
    | true => have := hi.waiter_empty hw; simp [hb] at this
  have hsz : s.size = r.1.length + (rest (rncUpd s r.1 r.2.1 r.2.2)).length := by
    rw [hi.size_eq, hrest]; simp
  refine ⟨?_, hrest⟩
  constructor
  · intro c hc
    have := h2 c hc
    exact hi.nonempty c (by rw [hb]; exact this)
  · intro c u hcu
    rcases h3 c u hcu with h | ⟨h0, ht⟩
    · exact h
    · show r.2.2 < c.length
      rw [h0]
      have hcu' : r.2.1 = c :: u := hcu
      have hc : c ∈ s.bufs := by rw [hb]; exact h2 c (by rw [hcu']; simp)
      have := hi.nonempty c hc
      exact List.length_pos_iff.mpr this
  · exact h4
  · show s.size - r.1.length = _
    omega
  · show (s.taken ++ r.1) ++ _ = s.fed
    rw [List.append_assoc, ← hrest]; exact hi.cons
  · show s.cursor + r.1.length = (s.taken ++ r.1).length
    rw [hi.cursor_eq]; simp
  · exact hi.total_eq
  · intro l hl
    simp only [rncUpd, dropSplits] at hl
    cases hs : s.splits with
    | none => simp [hs] at hl
    | some l0 =>
      simp [hs] at hl
      rw [← hl]
      exact (hi.sorted l0 hs).sublist (List.dropWhile_sublist _)
  · intro l hl p hp
    simp only [rncUpd, dropSplits] at hl
    cases hs : s.splits with
    | none => simp [hs] at hl
    | some l0 =>
      simp [hs] at hl
      rw [← hl] at hp
      refine ⟨dropWhile_ge (hi.sorted l0 hs) p hp, ?_⟩
      exact (hi.range l0 hs p (mem_of_mem_dropWhile hp)).2
  · intro l hl p hp
    simp only [rncUpd, dropSplits] at hl
    cases hs : s.splits with
    | none => simp [hs] at hl
    | some l0 =>
      simp [hs] at hl
      rw [← hl] at hp
      exact hi.inb l0 hs p (mem_of_mem_dropWhile hp)
  · exact hi.high_eq
  · exact hi.lwc
  · exact hi.tp
  · intro hp he
    have := hi.bounded hp he
    refine ⟨by show s.size - r.1.length ≤ s.high; omega, ?_⟩
    have h2 := this.2
    simp only [nsplits, rncUpd, dropSplits] at h2 ⊢
    cases hs : s.splits with
    | none => simp
    | some l0 =>
      simp [hs] at h2 ⊢
      exact Nat.le_trans (List.dropWhile_sublist _).length_le h2
  · intro h; simp [rncUpd, hw] at h
  · intro h; simp [rncUpd, hw] at h
  · exact hi.fut_pending

/-! ### primitive moves of a consumer coroutine -/

/-- fields no consumer-side move ever changes, and the monotone ones -/
structure Frame (s s' : S) : Prop where
  fed : s'.fed = s.fed
  total : s'.total = s.total
  eof : s'.eof = s.eof
  exc : s'.exc = s.exc
  lowChunks : s'.lowChunks = s.lowChunks
  highChunks : s'.highChunks = s.highChunks
  connected : s'.connected = s.connected
  bounds : s'.bounds = s.bounds
  delivered : s'.delivered = s.delivered
  lost : s.lost = true → s'.lost = true
  low : s.low ≤ s'.low
  recheck : s'.recheck = s.recheck

theorem Frame.refl (s : S) : Frame s s := ⟨rfl, rfl, rfl, rfl, rfl, rfl, rfl, rfl, rfl, id, Nat.le_refl _, rfl⟩

theorem Frame.trans {a b c : S} (h1 : Frame a b) (h2 : Frame b c) : Frame a c :=
  ⟨h2.fed.trans h1.fed, h2.total.trans h1.total, h2.eof.trans h1.eof, h2.exc.trans h1.exc,
   h2.lowChunks.trans h1.lowChunks, h2.highChunks.trans h1.highChunks, h2.connected.trans h1.connected,
   h2.bounds.trans h1.bounds, h2.delivered.trans h1.delivered, fun h => h2.lost (h1.lost h),
   Nat.le_trans h1.low h2.low, h2.recheck.trans h1.recheck⟩

theorem frame_maybeResume (s : S) : Frame s (maybeResume s) := by
  unfold maybeResume resumeReading
  split
  · split <;> exact ⟨rfl, rfl, rfl, rfl, rfl, rfl, rfl, rfl, rfl, id, Nat.le_refl _, rfl⟩
  · exact Frame.refl s

theorem frame_rnc (s : S) (n : Option Nat) : Frame s (rnc s n).1 := by
  unfold rnc
  split
  · exact Frame.refl s
  · rename_i b t _
    exact Frame.trans (b := rncUpd s (rncSel b t s.off n).1 (rncSel b t s.off n).2.1 (rncSel b t s.off n).2.2)
      ⟨rfl, rfl, rfl, rfl, rfl, rfl, rfl, rfl, rfl, id, Nat.le_refl _, rfl⟩ (frame_maybeResume _)

theorem rest_maybeResume (s : S) : rest (maybeResume s) = rest s := by
  unfold maybeResume resumeReading
  split
  · split <;> rfl
  · rfl

theorem taken_maybeResume (s : S) : (maybeResume s).taken = s.taken := by
  unfold maybeResume resumeReading
  split
  · split <;> rfl
  · rfl

theorem bufs_maybeResume (s : S) : (maybeResume s).bufs = s.bufs := by
  unfold maybeResume resumeReading
  split
  · split <;> rfl
  · rfl

/-- `_read_nowait_chunk` on a non-empty buffer: invariant kept, and the bytes returned are exactly
the bytes removed from the front of the buffer and appended to `taken` -/
theorem rnc_spec {s : S} (hi : Inv s) (hne : s.bufs ≠ []) (n : Option Nat) :
    Inv (rnc s n).1 ∧ rest s = (rnc s n).2 ++ rest (rnc s n).1 ∧
    (rnc s n).1.taken = s.taken ++ (rnc s n).2 ∧
    (n ≠ some 0 → (rnc s n).2 ≠ []) ∧
    (∀ k, n = some k → (rnc s n).2.length ≤ k) ∧
    (∀ k, n = some k → (rnc s n).2.length < k → (rnc s n).1.bufs = s.bufs.tail) ∧
    (n = none → (rnc s n).1.bufs = s.bufs.tail) := by
  cases hb : s.bufs with
  | nil => exact absurd hb hne
  | cons b t =>
    have hoff := hi.off_lt b t hb
    have hsel := rncSel_spec b t s.off n hoff
    have hu := inv_rncUpd hi hb n
    obtain ⟨-, -, -, -, h5, h6, h7, h8⟩ := hsel
    have e : rnc s n = (maybeResume (rncUpd s (rncSel b t s.off n).1 (rncSel b t s.off n).2.1 (rncSel b t s.off n).2.2),
                        (rncSel b t s.off n).1) := by
      unfold rnc; simp [hb]
    rw [e]
    refine ⟨inv_maybeResume hu.1, ?_, ?_, h5, h6, ?_, ?_⟩
    · rw [rest_maybeResume]; exact hu.2
    · rw [taken_maybeResume]; rfl
    · intro k hk hl; rw [bufs_maybeResume]; exact (h7 k hk hl).1
    · intro hn; rw [bufs_maybeResume]; exact (h8 hn).1

inductive Move : S → S → Bytes → Prop
  | rnc (s : S) (n : Option Nat) (h : s.bufs ≠ []) : Move s (rnc s n).1 (rnc s n).2
  | setChunk (s : S) (n : Nat) : Move s (setChunk s n) []
  | park (s : S) (p : Pend) (hw : s.waiter = false) (hb : s.bufs = [])
      (hx : s.recheck = true → s.exc = none) :
      Move s { s with waiter := true, fut := .pending, parked := some p } []
  | lose (s : S) (b : Bool) : Move s { s with lost := s.lost || b } []
  | setSplits (s : S) (l l' : List Nat) (h : s.splits = some l) (hs : l'.Sublist l) :
      Move s { s with splits := some l' } []
  | unpark (s : S) (hw : s.waiter = false) : Move s { s with parked := none } []

/-- `Reach s s' d`: `s'` is reached from `s` by primitive moves that took exactly `d` out of
the buffer -/
inductive Reach : S → S → Bytes → Prop
  | refl (s : S) : Reach s s []
  | step {a b c : S} {d e : Bytes} : Move a b d → Reach b c e → Reach a c (d ++ e)

theorem Reach.one {a b : S} {d : Bytes} (h : Move a b d) : Reach a b d := by
  have := Reach.step h (Reach.refl b); simpa using this

theorem Reach.trans {a b c : S} {d e : Bytes} (h1 : Reach a b d) (h2 : Reach b c e) : Reach a c (d ++ e) := by
  induction h1 with
  | refl => simpa using h2
  | step m _ ih => rw [List.append_assoc]; exact Reach.step m (ih h2)

theorem setChunk_inv {s : S} (hi : Inv s) (n : Nat) : Inv (setChunk s n) := by
  unfold setChunk
  split
  · rename_i h
    have hl := hi.high_eq
    exact { hi with
      high_eq := by show n * 2 = n * 2; rfl
      bounded := by
        intro hp he
        have := hi.bounded hp he
        exact ⟨by show s.size ≤ n * 2; omega, this.2⟩ }
  · exact hi

theorem move_inv {s s' : S} {d : Bytes} (hi : Inv s) (m : Move s s' d) : Inv s' := by
  cases m with
  | rnc n h => exact (rnc_spec hi h n).1
  | setChunk n => exact setChunk_inv hi n
  | park p hw hb hx =>
    exact { hi with
      waiter_parked := by intro _; exact ⟨rfl, rfl⟩
      waiter_empty := by intro _; exact hb
      fut_pending := by intro _; rfl }
  | lose b => exact { hi with }
  | setSplits l l' h hs =>
    exact { hi with
      sorted := by intro l0 h0; cases h0; exact (hi.sorted l h).sublist hs
      range := by intro l0 h0 p hp; cases h0; exact hi.range l h p (hs.subset hp)
      inb := by intro l0 h0 p hp; cases h0; exact hi.inb l h p (hs.subset hp)
      bounded := by
        intro hp he
        have := hi.bounded hp he
        refine ⟨this.1, ?_⟩
        have h2 := this.2
        simp only [nsplits, h] at h2
        show l'.length ≤ s.highChunks
        exact Nat.le_trans hs.length_le h2 }
  | unpark hw =>
    exact { hi with
      waiter_parked := by intro h; rw [hw] at h; cases h
      waiter_empty := hi.waiter_empty }

theorem move_frame {s s' : S} {d : Bytes} (m : Move s s' d) : Frame s s' := by
  cases m with
  | rnc n h => exact frame_rnc s n
  | setChunk n =>
    unfold setChunk; split
    · rename_i h; exact ⟨rfl, rfl, rfl, rfl, rfl, rfl, rfl, rfl, rfl, id, Nat.le_of_lt h, rfl⟩
    · exact Frame.refl s
  | park p hw hb hx => exact ⟨rfl, rfl, rfl, rfl, rfl, rfl, rfl, rfl, rfl, id, Nat.le_refl _, rfl⟩
  | lose b => exact ⟨rfl, rfl, rfl, rfl, rfl, rfl, rfl, rfl, rfl, by intro h; simp [h], Nat.le_refl _, rfl⟩
  | setSplits l l' h hs => exact ⟨rfl, rfl, rfl, rfl, rfl, rfl, rfl, rfl, rfl, id, Nat.le_refl _, rfl⟩
  | unpark hw => exact ⟨rfl, rfl, rfl, rfl, rfl, rfl, rfl, rfl, rfl, id, Nat.le_refl _, rfl⟩

/-- a move that takes `d` removes it from the front of the buffer and appends it to `taken` -/
theorem move_taken {s s' : S} {d : Bytes} (hi : Inv s) (m : Move s s' d) :
    s'.taken = s.taken ++ d ∧ rest s = d ++ rest s' := by
  cases m with
  | rnc n h => have := rnc_spec hi h n; exact ⟨this.2.2.1, this.2.1⟩
  | setChunk n => unfold setChunk; split <;> simp [rest]
  | park p hw hb hx => simp [rest]
  | lose b => simp [rest]
  | setSplits l l' h hs => simp [rest]
  | unpark hw => simp [rest]

theorem reach_inv {s s' : S} {d : Bytes} (hi : Inv s) (r : Reach s s' d) : Inv s' := by
  induction r with
  | refl => exact hi
  | step m _ ih => exact ih (move_inv hi m)

theorem reach_frame {s s' : S} {d : Bytes} (r : Reach s s' d) : Frame s s' := by
  induction r with
  | refl => exact Frame.refl _
  | step m _ ih => exact Frame.trans (move_frame m) ih

theorem reach_taken {s s' : S} {d : Bytes} (hi : Inv s) (r : Reach s s' d) :
    s'.taken = s.taken ++ d ∧ rest s = d ++ rest s' := by
  induction r with
  | refl => simp
  | step m _ ih =>
    have h1 := move_taken hi m
    have h2 := ih (move_inv hi m)
    exact ⟨by rw [h2.1, h1.1, List.append_assoc], by rw [h1.2, h2.2, List.append_assoc]⟩

/-! ### `_read_nowait` -/

theorem drainN_reach : ∀ (k : Nat) {s : S} (acc : Bytes), Inv s → k ≤ s.bufs.length →
    ∃ d, Reach s (drainN k s acc).1 d ∧ (drainN k s acc).2 = acc ++ d ∧
      (drainN k s acc).1.bufs.length = s.bufs.length - k
  | 0, s, acc, _, _ => ⟨[], Reach.refl s, by simp [drainN], by simp [drainN]⟩
  | k + 1, s, acc, hi, hk => by
    have hne : s.bufs ≠ [] := by intro h; rw [h] at hk; simp at hk
    have hs := rnc_spec hi hne none
    have hb : (rnc s none).1.bufs = s.bufs.tail := hs.2.2.2.2.2.2 rfl
    have hk' : k ≤ (rnc s none).1.bufs.length := by rw [hb]; simp; omega
    obtain ⟨d, hr, hd, hl⟩ := drainN_reach k (acc ++ (rnc s none).2) hs.1 hk'
    refine ⟨(rnc s none).2 ++ d, Reach.step (Move.rnc s none hne) hr, ?_, ?_⟩
    · simp only [drainN]; rw [hd, List.append_assoc]
    · simp only [drainN]; rw [hl, hb]; simp; omega

theorem takeN_reach : ∀ (fuel : Nat) {s : S} (n : Nat) (acc : Bytes), Inv s →
    ∃ d, Reach s (takeN fuel s n acc).1 d ∧ (takeN fuel s n acc).2 = acc ++ d ∧ d.length ≤ n ∧
      (s.bufs.length < fuel → d.length = n ∨ (takeN fuel s n acc).1.bufs = [])
  | 0, s, n, acc, _ => ⟨[], Reach.refl s, by simp [takeN], by simp, by intro h; omega⟩
  | fuel + 1, s, n, acc, hi => by
    by_cases hb : s.bufs = []
    · exact ⟨[], by simp [takeN, hb]; exact Reach.refl s, by simp [takeN, hb], by simp,
        by intro _; right; simp [takeN, hb]⟩
    · have hs := rnc_spec hi hb (some n)
      have hle := hs.2.2.2.2.1 n rfl
      by_cases hz : n - (rnc s (some n)).2.length = 0
      · refine ⟨(rnc s (some n)).2, ?_, ?_, hle, ?_⟩
        · simp [takeN, hb, hz]; exact Reach.one (Move.rnc s (some n) hb)
        · simp [takeN, hb, hz]
        · intro _; left; omega
      · have hlt : (rnc s (some n)).2.length < n := by omega
        have htl := hs.2.2.2.2.2.1 n rfl hlt
        obtain ⟨d, hr, hd, hdl, hfin⟩ :=
          takeN_reach fuel (n - (rnc s (some n)).2.length) (acc ++ (rnc s (some n)).2) hs.1
        refine ⟨(rnc s (some n)).2 ++ d, ?_, ?_, ?_, ?_⟩
        · simp [takeN, hb, hz]; exact Reach.step (Move.rnc s (some n) hb) hr
        · simp [takeN, hb, hz]; rw [hd, List.append_assoc]
        · simp; omega
        · intro hf
          have : (rnc s (some n)).1.bufs.length < fuel := by
            rw [htl]; simp
            have : 0 < s.bufs.length := List.length_pos_iff.mpr hb
            omega
          rcases hfin this with h | h
          · left; simp; omega
          · right; simp [takeN, hb, hz]; exact h

theorem readNowait_reach {s : S} (hi : Inv s) (n : Option Nat) :
    ∃ d, Reach s (readNowait s n).1 d ∧ (readNowait s n).2 = d ∧
      (n = none → (readNowait s n).1.bufs = []) ∧
      (∀ k, n = some k → d.length ≤ k ∧ (d.length = k ∨ (readNowait s n).1.bufs = [])) := by
  cases n with
  | none =>
    obtain ⟨d, hr, hd, hl⟩ := drainN_reach s.bufs.length [] hi (Nat.le_refl _)
    refine ⟨d, hr, by simpa [readNowait] using hd, ?_, by simp⟩
    intro _
    simp only [readNowait]
    exact List.eq_nil_of_length_eq_zero (by rw [hl]; omega)
  | some k =>
    obtain ⟨d, hr, hd, hdl, hfin⟩ := takeN_reach (s.bufs.length + 1) k [] hi
    refine ⟨d, hr, by simpa [readNowait] using hd, by simp, ?_⟩
    intro k' hk'; cases hk'
    exact ⟨hdl, hfin (by omega)⟩

/-! ### what `_read_nowait*` never touches -/

structure Quiet (s s' : S) : Prop where
  parked : s'.parked = s.parked
  waiter : s'.waiter = s.waiter
  fut : s'.fut = s.fut
  lost : s'.lost = s.lost
  low : s'.low = s.low
  high : s'.high = s.high
  eof : s'.eof = s.eof
  exc : s'.exc = s.exc
  connected : s'.connected = s.connected
  recheck : s'.recheck = s.recheck

theorem Quiet.refl (s : S) : Quiet s s := ⟨rfl, rfl, rfl, rfl, rfl, rfl, rfl, rfl, rfl, rfl⟩
theorem Quiet.trans {a b c : S} (h1 : Quiet a b) (h2 : Quiet b c) : Quiet a c :=
  ⟨h2.parked.trans h1.parked, h2.waiter.trans h1.waiter, h2.fut.trans h1.fut, h2.lost.trans h1.lost,
   h2.low.trans h1.low, h2.high.trans h1.high, h2.eof.trans h1.eof, h2.exc.trans h1.exc,
   h2.connected.trans h1.connected, h2.recheck.trans h1.recheck⟩

theorem quiet_rnc (s : S) (n : Option Nat) : Quiet s (rnc s n).1 := by
  unfold rnc
  split
  · exact Quiet.refl s
  · simp only [maybeResume, resumeReading]
    split
    · split <;> exact ⟨rfl, rfl, rfl, rfl, rfl, rfl, rfl, rfl, rfl, rfl⟩
    · exact ⟨rfl, rfl, rfl, rfl, rfl, rfl, rfl, rfl, rfl, rfl⟩

theorem quiet_drainN : ∀ (k : Nat) (s : S) (acc : Bytes), Quiet s (drainN k s acc).1
  | 0, s, _ => Quiet.refl s
  | k + 1, s, acc => by
    simp only [drainN]
    exact Quiet.trans (quiet_rnc s none) (quiet_drainN k _ _)

theorem quiet_takeN : ∀ (fuel : Nat) (s : S) (n : Nat) (acc : Bytes), Quiet s (takeN fuel s n acc).1
  | 0, s, _, _ => Quiet.refl s
  | fuel + 1, s, n, acc => by
    simp only [takeN]
    split
    · exact Quiet.refl s
    · split
      · exact quiet_rnc s (some n)
      · exact Quiet.trans (quiet_rnc s (some n)) (quiet_takeN fuel _ _ _)

theorem quiet_readNowait (s : S) (n : Option Nat) : Quiet s (readNowait s n).1 := by
  cases n with
  | none => exact quiet_drainN _ _ _
  | some k => exact quiet_takeN _ _ _ _

/-! ### postcondition of a consumer coroutine run -/

/-- continuation kinds that never hold bytes -/
def simpleKind : Kind → Bool
  | .read _ => true
  | .readAny => true
  | .readChunk => true
  | _ => false

/-- a call parked in `read(n)`, `readany` or `readchunk` holds no bytes -/
def AccOk (s : S) : Prop := ∀ p, s.parked = some p → simpleKind p.kind = true → p.acc = []

theorem accok_of_none {s : S} (h : s.parked = none) : AccOk s := by
  intro p hp; rw [h] at hp; cases hp

/-- `r` is the result of running a consumer coroutine from state `s`, having entered with `acc`
already taken: the state moved only by primitive moves; unless bytes were lost to an
exception, what it returned plus what it still holds is `acc` plus what it took -/
structure Post (s : S) (acc : Bytes) (r : S × Out) : Prop where
  reach : ∃ d, Reach s r.1 d ∧ (r.1.lost = false → outBytes r.2 ++ pendAcc r.1 = acc ++ d)
  unparked : r.2 ≠ .blocked → r.1.parked = none
  blocked : r.2 = .blocked → r.1.waiter = true
  accok : AccOk r.1

theorem post_raise {s : S} (hp : s.parked = none) (acc : Bytes) (e : Err) : Post s acc (raise s acc e) := by
  refine ⟨⟨[], Reach.one (Move.lose s (!acc.isEmpty)), ?_⟩, by intro _; exact hp, (by intro h; cases h), accok_of_none hp⟩
  intro hl
  simp only [raise, Bool.or_eq_false_iff, Bool.not_eq_false', List.isEmpty_iff] at hl
  simp [raise, outBytes, pendAcc, hp, hl.2]

theorem post_park {s : S} (hp : s.parked = none) (hb : s.bufs = []) (p : Pend)
    (hk : simpleKind p.kind = true → p.acc = []) (hx : s.recheck = true → s.exc = none) :
    Post s p.acc (park s p) := by
  unfold park
  split
  · exact post_raise hp _ _
  · split
    · exact post_raise hp _ _
    · rename_i hw
      simp at hw
      refine ⟨⟨[], Reach.one (Move.park s p hw hb hx), ?_⟩, by intro h; exact absurd rfl h, by intro _; rfl, ?_⟩
      · intro _; simp [outBytes, pendAcc]
      · intro q hq; simp at hq; subst hq; exact hk

theorem post_of_reach {s s1 : S} {acc d1 : Bytes} {r : S × Out} (h1 : Reach s s1 d1)
    (h2 : Post s1 (acc ++ d1) r) : Post s acc r := by
  obtain ⟨⟨d, hr, hd⟩, hu, hb, ha⟩ := h2
  exact ⟨⟨d1 ++ d, Reach.trans h1 hr, by intro hl; rw [hd hl, List.append_assoc]⟩, hu, hb, ha⟩

theorem post_data {s s' : S} {acc d : Bytes} (hp : s'.parked = none) (h : Reach s s' d) :
    Post s acc (s', .data (acc ++ d)) :=
  ⟨⟨d, h, by intro _; simp [outBytes, pendAcc, hp]⟩, by intro _; exact hp, (by intro h; cases h), accok_of_none hp⟩

/-! ### the flow-control invariant behind `no_stuck_pause` -/

/-- low-water mark positive, and reading is paused only while something is buffered -/
structure PInv (s : S) : Prop where
  lowpos : 0 < s.low
  paused_nonempty : s.paused = true → s.bufs ≠ []

theorem chunksLow_of_empty {s : S} (hi : Inv s) (hb : s.bufs = []) : chunksLow s = true := by
  have hsz : s.size = 0 := by rw [hi.size_eq, rest_nil hb]; rfl
  have hct := cursor_add_size hi
  unfold chunksLow
  split
  · rfl
  · rename_i l hl
    have h1 := sorted_const_length (c := s.cursor) (hi.sorted l hl)
      (by intro p hp; have := hi.range l hl p hp; omega)
    have := hi.lwc
    simp; omega

theorem paused_maybeResume_of_empty {s : S} (hi : Inv s) (hlow : 0 < s.low) (hb : s.bufs = []) :
    (maybeResume s).paused = false := by
  have hsz : s.size = 0 := by rw [hi.size_eq, rest_nil hb]; rfl
  have hc := chunksLow_of_empty hi hb
  unfold maybeResume resumeReading
  have : (decide (s.size < s.low) && chunksLow s) = true := by simp [hc]; omega
  rw [if_pos this]
  split <;> rfl

theorem pinv_rnc {s : S} (hi : Inv s) (hp : PInv s) (hne : s.bufs ≠ []) (n : Option Nat) :
    PInv (rnc s n).1 := by
  refine ⟨by rw [(quiet_rnc s n).low]; exact hp.lowpos, ?_⟩
  intro hpz hb
  cases hbs : s.bufs with
  | nil => exact hne hbs
  | cons b t =>
    have hu := (inv_rncUpd hi hbs n).1
    have e : (rnc s n).1 = maybeResume (rncUpd s (rncSel b t s.off n).1 (rncSel b t s.off n).2.1 (rncSel b t s.off n).2.2) := by
      unfold rnc; simp [hbs]
    rw [e] at hpz hb
    rw [bufs_maybeResume] at hb
    have := paused_maybeResume_of_empty hu (by exact hp.lowpos) hb
    rw [this] at hpz
    cases hpz

theorem pinv_move {s s' : S} {d : Bytes} (hi : Inv s) (hp : PInv s) (m : Move s s' d) : PInv s' := by
  cases m with
  | rnc n h => exact pinv_rnc hi hp h n
  | setChunk n =>
    unfold setChunk
    split
    · rename_i h; exact ⟨by show 0 < n; omega, hp.paused_nonempty⟩
    · exact hp
  | park p hw hb hx => exact ⟨hp.lowpos, hp.paused_nonempty⟩
  | lose b => exact ⟨hp.lowpos, hp.paused_nonempty⟩
  | setSplits l l' h hs => exact ⟨hp.lowpos, hp.paused_nonempty⟩
  | unpark hw => exact ⟨hp.lowpos, hp.paused_nonempty⟩

theorem pinv_reach {s s' : S} {d : Bytes} (hi : Inv s) (hp : PInv s) (r : Reach s s' d) : PInv s' := by
  induction r with
  | refl => exact hp
  | step m _ ih => exact ih (move_inv hi m) (pinv_move hi hp m)

/-! ### with the `_wait` re-check, nobody stays blocked once an error is recorded -/

/-- (only under the behaviour flag) an exception recorded on the stream and a pending waiter
never coexist -/
def XInv (s : S) : Prop := s.recheck = true → s.exc ≠ none → s.waiter = false

theorem xinv_move {s s' : S} {d : Bytes} (hx : XInv s) (m : Move s s' d) : XInv s' := by
  cases m with
  | rnc n h =>
    have q := quiet_rnc s n
    intro h1 h2; rw [q.waiter]; exact hx (by rw [← q.recheck]; exact h1) (by rw [← q.exc]; exact h2)
  | setChunk n => unfold setChunk; split <;> exact hx
  | park p hw hb hxx => intro h1 h2; exact absurd (hxx h1) h2
  | lose b => exact hx
  | setSplits l l' h hs => exact hx
  | unpark hw => exact hx

theorem xinv_reach {s s' : S} {d : Bytes} (hx : XInv s) (r : Reach s s' d) : XInv s' := by
  induction r with
  | refl => exact hx
  | step m _ ih => exact ih (xinv_move hx m)

end Aio.C08
