import AioProps.HttpLemmas
import AioProps.HttpSpec
/-! Lemmas for C01: what the header parser accepts is a strict reading. -/
namespace Aio.Http
open Aio

theorem parseHeaderLines_sound (mf : Nat) :
    ∀ (fuel : Nat) (lines : List Bytes) (acc hs : List (Bytes × Bytes)),
      lines.length < fuel →
      parseHeaderLines false mf fuel lines acc = .ok hs →
      ∃ hs', hs = acc.reverse ++ hs' ∧ FieldsOf lines hs' := by
  intro fuel
  induction fuel with
  | zero => intro lines acc hs h; omega
  | succ n ih =>
    intro lines acc hs hlen h
    cases lines with
    | nil => simp [parseHeaderLines] at h; exact ⟨[], by simp [h], rfl⟩
    | cons line rest =>
      simp only [parseHeaderLines] at h
      by_cases hl : line = []
      · subst hl
        simp at h
        exact ⟨[], by simp [h], by simp [FieldsOf]⟩
      · have hle : line.isEmpty = false := by cases line <;> simp_all
        simp only [hle] at h
        cases hc : cut1 58 line with
        | none => simp [hc] at h
        | some r =>
          obtain ⟨bname, bvalue⟩ := r
          simp only [hc] at h
          by_cases c1 : bname.isEmpty = true
          · simp [c1] at h
          by_cases c2 : (isOWS bname.head! || isOWS bname.getLast!) = true
          · simp only [c1, c2] at h; simp at h
          by_cases c3n : isToken bname = false
          · simp only [c1, c2, c3n] at h; simp at h
          have c3 : isToken bname = true := by simpa using c3n
          simp only [c1, c2, c3] at h
          simp at h
          by_cases c4 : ∃ x, x ∈ strip isOWS (lstrip isOWS bvalue) ∧ valueForbidden x = true
          · simp [c4] at h
          by_cases c5 : hasName acc (lower bname) = true ∧ isSingleton (lower bname) = true
          · simp [c4, c5] at h
          simp only [c4, c5, if_false] at h
          have hlen' : rest.length < n := by simp at hlen; omega
          obtain ⟨hs', e, hf⟩ := ih rest _ hs hlen' h
          obtain ⟨hcut, hnocolon⟩ := cut1_spec 58 line bname bvalue hc
          obtain ⟨l0, el0, hl0, _⟩ := lstrip_spec isOWS bvalue
          obtain ⟨l1, r1, es, hl1, hr1, hh, ht⟩ := strip_spec isOWS (lstrip isOWS bvalue)
          refine ⟨(bname, strip isOWS (lstrip isOWS bvalue)) :: hs', ?_, ?_⟩
          · simp [e]
          · simp only [FieldsOf, hl, if_false]
            refine ⟨_, _, hs', rfl, ?_, hf⟩
            refine ⟨c3, ⟨l0 ++ l1, r1, ?_, ?_, hr1⟩, by simpa using c4, hh, ht⟩
            · generalize strip isOWS (lstrip isOWS bvalue) = V at *
              generalize lstrip isOWS bvalue = L at *
              rw [hcut, el0, es]; simp
            · simp [hl0, hl1]

end Aio.Http

namespace Aio.Http
open Aio

theorem parseHeaders_sound (mf : Nat) (lines : List Bytes) (hs : List (Bytes × Bytes))
    (h : parseHeaders false mf lines = .ok hs) : FieldsOf lines hs := by
  unfold parseHeaders at h
  obtain ⟨hs', e, hf⟩ := parseHeaderLines_sound mf _ lines [] hs (by omega) h
  simp at e; subst e; exact hf

theorem splitRequestLine_spec (line m p v : Bytes) (h : splitRequestLine line = some (m, p, v)) :
    line = m ++ [32] ++ p ++ [32] ++ v ∧ 32 ∉ m ∧ 32 ∉ p := by
  unfold splitRequestLine at h
  cases h1 : cut1 32 line with
  | none => simp [h1] at h
  | some r1 =>
    obtain ⟨m', r⟩ := r1
    simp only [h1] at h
    cases h2 : cut1 32 r with
    | none => simp [h2] at h
    | some r2 =>
      obtain ⟨p', v'⟩ := r2
      simp [h2] at h
      obtain ⟨e1, e2, e3⟩ := h
      subst e1 e2 e3
      obtain ⟨c1, n1⟩ := cut1_spec 32 line m' r h1
      obtain ⟨c2, n2⟩ := cut1_spec 32 r p' v' h2
      exact ⟨by rw [c1, c2]; simp, n1, n2⟩

/-- What `HttpRequestParser.parse_message` accepts is a strict request line followed by a
strict header section. -/
theorem parseRequest_sound (cfg : Cfg) (hstrict : cfg.lax = false) (urlOk : Bool → Bytes → Bool)
    (line : Bytes) (rest : List Bytes) (m : Msg)
    (h : parseRequest cfg urlOk (line :: rest) = .ok m) :
    StrictRequestLine line m.method m.path m.vmajor m.vminor ∧ FieldsOf rest m.headers := by
  simp only [parseRequest] at h
  cases hs : splitRequestLine line with
  | none => simp [hs] at h
  | some r =>
    obtain ⟨mt, p, v⟩ := r
    simp only [hs] at h
    by_cases c1 : isToken mt = false
    · simp [c1] at h
    have c1' : isToken mt = true := by simpa using c1
    simp only [c1'] at h
    cases hv : parseVersion v with
    | none => simp [hv] at h
    | some vv =>
      obtain ⟨vmaj, vmin⟩ := vv
      simp only [hv] at h
      by_cases c2 : p.any targetForbidden = true
      · simp [c2] at h
      simp only [c2] at h
      simp only [Bool.not_true, Bool.false_eq_true, if_false] at h
      split at h
      · cases h
      · rw [hstrict] at h
        cases hp : parseHeaders false cfg.maxField rest with
        | error e => simp [hp] at h
        | ok hdrs =>
          simp only [hp] at h
          cases hi : interpretHeaders cfg hdrs with
          | error e => simp [hi] at h
          | ok info =>
            simp only [hi] at h
            split at h
            · cases h
            · injection h with h
              subst h
              obtain ⟨e, _, _⟩ := splitRequestLine_spec line mt p v hs
              exact ⟨⟨mt, v, e, c1', rfl, by simpa using c2, hv⟩, parseHeaders_sound _ _ _ hp⟩

end Aio.Http

namespace Aio.Http
open Aio

/-- in strict mode the accumulated header list never holds a singleton name twice -/
theorem parseHeaderLines_nodup (mf : Nat) :
    ∀ (fuel : Nat) (lines : List Bytes) (acc hs : List (Bytes × Bytes)),
      NoSingletonDup acc →
      parseHeaderLines false mf fuel lines acc = .ok hs → NoSingletonDup hs := by
  intro fuel
  induction fuel with
  | zero =>
    intro lines acc hs ha h
    simp [parseHeaderLines] at h; subst h
    intro n hn; simpa using ha n hn
  | succ k ih =>
    intro lines acc hs ha h
    have hrev : NoSingletonDup acc.reverse := by intro n hn; simpa using ha n hn
    cases lines with
    | nil => simp [parseHeaderLines] at h; subst h; exact hrev
    | cons line rest =>
      simp only [parseHeaderLines] at h
      by_cases hl : line.isEmpty = true
      · simp [hl] at h; subst h; exact hrev
      simp only [hl] at h
      cases hc : cut1 58 line with
      | none => simp [hc] at h
      | some r =>
        obtain ⟨bname, bvalue⟩ := r
        simp only [hc] at h
        by_cases c1 : bname.isEmpty = true
        · simp [c1] at h
        by_cases c2 : (isOWS bname.head! || isOWS bname.getLast!) = true
        · simp only [c1, c2] at h; simp at h
        by_cases c3n : isToken bname = false
        · simp only [c1, c2, c3n] at h; simp at h
        have c3 : isToken bname = true := by simpa using c3n
        simp only [c1, c2, c3] at h
        simp at h
        by_cases c4 : ∃ x, x ∈ strip isOWS (lstrip isOWS bvalue) ∧ valueForbidden x = true
        · simp [c4] at h
        by_cases c5 : hasName acc (lower bname) = true ∧ isSingleton (lower bname) = true
        · simp [c4, c5] at h
        simp only [c4, c5, if_false] at h
        apply ih rest _ hs _ h
        intro n hn
        simp only [List.filter_cons]
        by_cases hm : (lower bname == n) = true
        · have hn' : n = lower bname := by simpa using (beq_iff_eq.mp hm).symm
          subst hn'
          have hnot : hasName acc (lower bname) = false := by
            cases hh : hasName acc (lower bname) with
            | false => rfl
            | true => exact absurd ⟨hh, hn⟩ c5
          have : acc.filter (fun kv => lower kv.1 == lower bname) = [] := by
            simp only [hasName] at hnot
            simpa [List.filter_eq_nil_iff] using hnot
          simp [this]
        · simp [hm]; exact ha n hn

theorem parseHeaders_nodup (mf : Nat) (lines : List Bytes) (hs : List (Bytes × Bytes))
    (h : parseHeaders false mf lines = .ok hs) : NoSingletonDup hs := by
  unfold parseHeaders at h
  exact parseHeaderLines_nodup mf _ lines [] hs (by intro n _; simp) h

end Aio.Http
