import AioModel.C11Conc
/-! Invariant of the lock/executor scheduling model of C11. -/
namespace Aio.C11.Conc

/-- the waiter's future is done with a result (so `Lock.acquire`'s fast path is closed) -/
def wok (w : Waiter) : Bool := w.st = .woken || w.st = .wokenCancel

structure Inv (s : S) : Prop where
  /-- compress order = wire order, plus the one message whose compression is in flight -/
  order : s.compLog = s.wire ++ s.inExec.toList
  /-- the executor job belongs to the lock holder -/
  execLocked : s.inExec.isSome → s.locked = true
  /-- while the lock is held nobody has been handed it -/
  noWoken : s.locked = true → ∀ w ∈ s.waiters, wok w = false
  /-- a hand-over only ever goes to the head of the queue -/
  wokenHead : ∀ w ∈ s.waiters.tail, wok w = false

theorem inv_init : Inv {} := ⟨rfl, by simp, by simp, by simp⟩

theorem inExec_none_of_unlocked {s : S} (h : Inv s) (hl : s.locked = false) : s.inExec = none := by
  cases he : s.inExec with
  | none => rfl
  | some t => have := h.execLocked (by simp [he]); simp [hl] at this

theorem wakeFirst_inv {s : S} (h : Inv s) (hl : s.locked = false) : Inv (wakeFirst s) ∧ (wakeFirst s).locked = false := by
  unfold wakeFirst
  cases hw : s.waiters with
  | nil => simp [hw]; exact ⟨h, hl⟩
  | cons w ws =>
    simp only []
    split
    · refine ⟨⟨h.order, h.execLocked, ?_, ?_⟩, hl⟩
      · intro hh; simp [hl] at hh
      · have := h.wokenHead; simp [hw] at this; simpa using this
    · exact ⟨h, hl⟩

theorem holdAndGo_inv {s : S} (h : Inv s) (hl : s.locked = false) (hnw : ∀ w ∈ s.waiters, wok w = false)
    (t : Nat) (k : Kind) : Inv (holdAndGo s t k) := by
  have hne := inExec_none_of_unlocked h hl
  unfold holdAndGo
  cases k with
  | exec =>
    exact ⟨by simp [h.order, hne], by simp, fun _ => hnw, h.wokenHead⟩
  | plain =>
    apply (wakeFirst_inv _ rfl).1
    exact ⟨by simp [h.order, hne], by simp [hne], by simp, h.wokenHead⟩
  | sync =>
    apply (wakeFirst_inv _ rfl).1
    exact ⟨by simp [h.order, hne], by simp [hne], by simp, h.wokenHead⟩

theorem startStep_inv {s : S} (h : Inv s) (t : Nat) (k : Kind) : Inv (startStep s t k) := by
  unfold startStep
  cases k with
  | plain => exact ⟨h.order, h.execLocked, h.noWoken, h.wokenHead⟩
  | sync =>
    simp only []
    split
    · next hc =>
      apply holdAndGo_inv h (by simpa using hc.1)
      intro w hw
      have := List.all_eq_true.mp hc.2 w hw
      simp at this; simp [wok, this]
    · refine ⟨h.order, h.execLocked, ?_, ?_⟩
      · intro hl w hw
        simp at hw
        rcases hw with hw | hw
        · exact h.noWoken hl w hw
        · subst hw; rfl
      · intro w hw
        cases hws : s.waiters with
        | nil => simp [hws] at hw
        | cons a r =>
          simp [hws] at hw
          rcases hw with hw | hw
          · exact h.wokenHead w (by simp [hws, hw])
          · subst hw; rfl
  | exec =>
    simp only []
    split
    · next hc =>
      apply holdAndGo_inv h (by simpa using hc.1)
      intro w hw
      have := List.all_eq_true.mp hc.2 w hw
      simp at this; simp [wok, this]
    · refine ⟨h.order, h.execLocked, ?_, ?_⟩
      · intro hl w hw
        simp at hw
        rcases hw with hw | hw
        · exact h.noWoken hl w hw
        · subst hw; rfl
      · intro w hw
        cases hws : s.waiters with
        | nil => simp [hws] at hw
        | cons a r =>
          simp [hws] at hw
          rcases hw with hw | hw
          · exact h.wokenHead w (by simp [hws, hw])
          · subst hw; rfl

theorem removeWaiter_mem {ws : List Waiter} {t : Nat} {w : Waiter} (h : w ∈ removeWaiter ws t) : w ∈ ws := by
  induction ws with
  | nil => simp [removeWaiter] at h
  | cons a r ih =>
    simp only [removeWaiter] at h
    split at h
    · exact List.mem_cons_of_mem _ h
    · simp at h
      rcases h with h | h
      · simp [h]
      · exact List.mem_cons_of_mem _ (ih h)

theorem removeWaiter_tail_mem {ws : List Waiter} {t : Nat} {w : Waiter}
    (h : w ∈ (removeWaiter ws t).tail) : w ∈ ws.tail := by
  cases ws with
  | nil => simp [removeWaiter] at h
  | cons a r =>
    simp only [removeWaiter] at h
    split at h
    · simp; exact List.mem_of_mem_tail h
    · simp at h ⊢; exact removeWaiter_mem h

theorem find_wok_is_head {ws : List Waiter} {t : Nat} {w : Waiter}
    (hd : ∀ x ∈ ws.tail, wok x = false) (hf : ws.find? (fun x => x.id = t) = some w) (hw : wok w = true) :
    removeWaiter ws t = ws.tail := by
  cases ws with
  | nil => simp at hf
  | cons a r =>
    simp only [List.find?] at hf
    split at hf
    · next ha => simp at ha; simp [removeWaiter, ha]
    · have hm : w ∈ r := List.mem_of_find?_eq_some hf
      have := hd w (by simpa using hm)
      rw [this] at hw; cases hw

theorem finishExec_inv {s : S} (h : Inv s) (t : Nat) (he : s.inExec = some t) : Inv (finishExec s t) := by
  unfold finishExec
  apply (wakeFirst_inv _ rfl).1
  exact ⟨by simp [h.order, he], by simp, by simp, h.wokenHead⟩

theorem runTask_inv {s : S} (h : Inv s) (t : Nat) : Inv (runTask s t) := by
  unfold runTask
  split
  · next f _ =>
    simp only []
    have h' : Inv { s with fresh := s.fresh.filter (fun g => g.id ≠ t) } :=
      ⟨h.order, h.execLocked, h.noWoken, h.wokenHead⟩
    split
    · exact h'
    · exact startStep_inv h' t f.kind
  · split
    · next w hf =>
      have hmem : w ∈ s.waiters := List.mem_of_find?_eq_some hf
      have hrm : Inv { s with waiters := removeWaiter s.waiters t } :=
        ⟨h.order, h.execLocked, fun hl x hx => h.noWoken hl x (removeWaiter_mem hx),
         fun x hx => h.wokenHead x (removeWaiter_tail_mem hx)⟩
      split
      · exact h
      · next hst =>
        have hwk : wok w = true := by simp [wok, hst]
        have hl : s.locked = false := by
          cases hlk : s.locked with
          | false => rfl
          | true => have := h.noWoken hlk w hmem; rw [this] at hwk; cases hwk
        apply holdAndGo_inv hrm hl
        intro x hx
        simp only [] at hx
        rw [find_wok_is_head h.wokenHead hf hwk] at hx
        exact h.wokenHead x hx
      · simp only []
        split
        · next hl => exact (wakeFirst_inv hrm (by simpa using hl)).1
        · exact hrm
    · split
      · next hc => exact finishExec_inv h t hc.1
      · exact h

theorem cancelWaiter_wok (ws : List Waiter) (t : Nat) :
    ∀ w' ∈ (cancelWaiter ws t).1, ∃ w ∈ ws, wok w' = wok w := by
  induction ws with
  | nil => simp [cancelWaiter]
  | cons a r ih =>
    intro w' hw'
    simp only [cancelWaiter] at hw'
    split at hw'
    · split at hw'
      · split at hw'
        · simp at hw'
          rcases hw' with hw' | hw'
          · next hst => subst hw'; exact ⟨a, by simp, by simp [wok, hst]⟩
          · exact ⟨w', by simp [hw'], rfl⟩
        · simp at hw'
          rcases hw' with hw' | hw'
          · next hst => subst hw'; exact ⟨a, by simp, by simp [wok, hst]⟩
          · exact ⟨w', by simp [hw'], rfl⟩
        · exact ⟨w', by simpa using hw', rfl⟩
      · exact ⟨w', by simpa using hw', rfl⟩
    · simp at hw'
      rcases hw' with hw' | hw'
      · exact ⟨a, by simp, by rw [hw']⟩
      · obtain ⟨w, hw, he⟩ := ih w' hw'
        exact ⟨w, by simp [hw], he⟩

theorem cancelWaiter_tail (ws : List Waiter) (t : Nat) :
    ∀ w' ∈ (cancelWaiter ws t).1.tail, ∃ w ∈ ws.tail, wok w' = wok w := by
  cases ws with
  | nil => simp [cancelWaiter]
  | cons a r =>
    intro w' hw'
    simp only [cancelWaiter] at hw'
    split at hw'
    · split at hw'
      · split at hw' <;> exact ⟨w', by simpa using hw', rfl⟩
      · exact ⟨w', by simpa using hw', rfl⟩
    · simp at hw'
      obtain ⟨w, hw, he⟩ := cancelWaiter_wok r t w' hw'
      exact ⟨w, by simpa using hw, he⟩

theorem step_inv {s : S} (h : Inv s) (l : Label) : Inv (step s l) := by
  cases l with
  | spawn t k => exact ⟨h.order, h.execLocked, h.noWoken, h.wokenHead⟩
  | cancel t =>
    simp only [step]
    split
    · exact ⟨h.order, h.execLocked, h.noWoken, h.wokenHead⟩
    · refine ⟨h.order, h.execLocked, ?_, ?_⟩
      · intro hl w' hw'
        obtain ⟨w, hw, he⟩ := cancelWaiter_wok s.waiters t w' hw'
        rw [he]; exact h.noWoken hl w hw
      · intro w' hw'
        obtain ⟨w, hw, he⟩ := cancelWaiter_tail s.waiters t w' hw'
        rw [he]; exact h.wokenHead w hw
  | execDone =>
    simp only [step]
    split
    · split
      · exact h
      · exact ⟨h.order, h.execLocked, h.noWoken, h.wokenHead⟩
    · exact h
  | tick =>
    simp only [step]
    have h0 : Inv { s with ready := [] } := ⟨h.order, h.execLocked, h.noWoken, h.wokenHead⟩
    generalize { s with ready := [] } = s0 at h0
    generalize s.ready = rs
    induction rs generalizing s0 with
    | nil => exact h0
    | cons t ts ih => exact ih _ (runTask_inv h0 t)

theorem run_inv (ls : List Label) : ∀ s, Inv s → Inv (run s ls) := by
  induction ls with
  | nil => intro s h; exact h
  | cons l ls ih => intro s h; exact ih _ (step_inv h l)

end Aio.C11.Conc
