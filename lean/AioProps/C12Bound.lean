import AioModel.C12
import AioProps.C12Lemmas
/-! Invariant behind `retained_bounded` / `delivered_bounded` of C12. -/
namespace Aio.C12
open Aio

/-- a toy inflate function (drops the 4 trailing bytes, honours `max_length`) used for the
non-vacuity examples; the theorems hold for every `Inflater` -/
def toyInflater : Inflater where
  St := Unit
  init := ()
  inflate := fun _ d m =>
    let x := d.take (d.length - 4)
    ((), .ok (if m = 0 then x else x.take m))

variable {Z : Inflater}

def isData (op : Nat) : Prop := op = 1 ∨ op = 2 ∨ op = 0

instance (op : Nat) : Decidable (isData op) := by unfold isData; infer_instance

def MsgsBound (c : Cfg) (k : K Z) : Prop := ∀ m ∈ k.msgs, m.size ≤ max c.maxMsgSize 125

def InvK (c : Cfg) (k : K Z) : Prop :=
  k.partialMsg.length < c.maxMsgSize ∧
  (match k.phase with
   | .header => k.frags = []
   | .len => k.frags = [] ∧ (¬ isData k.frameOpcode → k.lenFlag ≤ 125)
   | .mask => k.frags = [] ∧ (isData k.frameOpcode → k.toRead + k.partialMsg.length < c.maxMsgSize) ∧
              (¬ isData k.frameOpcode → k.toRead ≤ 125)
   | .payload => (isData k.frameOpcode → k.frags.length + k.toRead + k.partialMsg.length < c.maxMsgSize) ∧
              (¬ isData k.frameOpcode → k.frags.length + k.toRead ≤ 125))

def tailOK (k : K Z) (tail : Bytes) : Prop :=
  match k.phase with
  | .header => tail.length < 2
  | .len => tail.length < 8
  | .mask => tail.length < 4
  | .payload => tail = []

theorem maskGo_length (d : Bytes) : ∀ k0 k1 k2 k3, (maskGo d k0 k1 k2 k3).length = d.length := by
  induction d with
  | nil => intros; rfl
  | cons b t ih => intros; simp [maskGo, ih]

theorem maskBytes_length (key d : Bytes) : (maskBytes key d).length = d.length := by
  unfold maskBytes
  split
  · exact maskGo_length _ _ _ _ _
  · rfl

theorem deliver_bound {c : Cfg} {k : K Z} {m : Msg} (h : MsgsBound c k) (hm : m.size ≤ max c.maxMsgSize 125) :
    MsgsBound c (deliver k m) := by
  intro x hx
  simp only [deliver, List.mem_append, List.mem_singleton] at hx
  rcases hx with hx | hx
  · exact h x hx
  · subst hx; exact hm

def PostI (c : Cfg) (p2 : K Z) (asm : Bytes) : Except (K Z × Err) (K Z × Bytes) → Prop
  | .ok (p3, merged) => p3.msgs = p2.msgs ∧ p3.partialMsg = p2.partialMsg ∧ p3.frags = p2.frags ∧
        (merged.length ≤ c.maxMsgSize ∨ merged = asm)
  | .error (pe, _) => pe.msgs = p2.msgs

theorem inflateMsg_inv {c : Cfg} (hmax : c.maxMsgSize ≠ 0) (p2 : K Z) (cz : Option Bool) (asm : Bytes) :
    PostI c p2 asm (inflateMsg c p2 cz asm) := by
  unfold inflateMsg
  by_cases h : cz ≠ some false
  · rw [if_pos h]
    cases hz : Z.inflate p2.z (asm ++ Gen.C12.deflateTrailing) (if c.maxMsgSize ≠ 0 then c.maxMsgSize + 1 else 0) with
    | mk z' res =>
      cases res with
      | ok out =>
        by_cases hgt : c.maxMsgSize ≠ 0 ∧ out.length > c.maxMsgSize
        · simp only [hz]; rw [if_pos hgt]; exact rfl
        · simp only [hz]; rw [if_neg hgt]
          refine ⟨rfl, rfl, rfl, Or.inl ?_⟩
          have : ¬ out.length > c.maxMsgSize := fun h' => hgt ⟨hmax, h'⟩
          omega
      | tooMany => simp only [hz]; exact rfl
      | error => simp only [hz]; exact rfl
  · rw [if_neg h]
    exact ⟨rfl, rfl, rfl, Or.inr rfl⟩

def Post (c : Cfg) (p : K Z) : Except (K Z × Err) (K Z) → Prop
  | .ok p2 => p2.partialMsg.length < c.maxMsgSize ∧ MsgsBound c p2 ∧ p2.frags = p.frags
  | .error (pe, _) => MsgsBound c pe

/-- what `_handle_frame` preserves -/
theorem handleFrame_inv {c : Cfg} (hmax : c.maxMsgSize ≠ 0) {p : K Z} {fin : Bool} {op : Nat}
    {payload : Bytes} {cz : Option Bool}
    (hp : p.partialMsg.length < c.maxMsgSize)
    (hd : isData op → payload.length + p.partialMsg.length < c.maxMsgSize)
    (hc : ¬ isData op → payload.length ≤ 125)
    (hb : MsgsBound c p) :
    Post c p (handleFrame c p fin op payload cz) := by
  unfold handleFrame
  by_cases hop : op = 1 ∨ op = 2 ∨ op = 0
  · have hd' := hd hop
    simp only [hop, if_true]
    unfold handleData
    dsimp only
    split
    · exact hb
    · split
      · -- non-fin: appended to the partial message
        refine ⟨?_, hb, rfl⟩
        simp; omega
      · split
        · exact hb
        · -- final frame
          have hb1 : MsgsBound c (if op = 0 then { p with opcode := none } else p) := by
            split <;> exact hb
          have hpm : (if op = 0 then { p with opcode := none } else p).partialMsg = p.partialMsg := by
            split <;> rfl
          have hfr : (if op = 0 then { p with opcode := none } else p).frags = p.frags := by
            split <;> rfl
          generalize (if op = 0 then { p with opcode := none } else p) = p1 at hb1 hpm hfr
          have hinf := inflateMsg_inv (c := c) hmax ({ p1 with partialMsg := [] }) cz (p1.partialMsg ++ payload)
          cases hi : inflateMsg c ({ p1 with partialMsg := [] }) cz (p1.partialMsg ++ payload) with
          | error e =>
            rw [hi] at hinf
            obtain ⟨pe, ee⟩ := e
            show MsgsBound c pe
            intro m hm; rw [hinf] at hm; exact hb1 m hm
          | ok r =>
            rw [hi] at hinf
            obtain ⟨p3, merged⟩ := r
            obtain ⟨h1, h2, h3, h4⟩ := hinf
            have hb3 : MsgsBound c p3 := by intro m hm; rw [h1] at hm; exact hb1 m hm
            have hl : merged.length ≤ c.maxMsgSize := by
              rcases h4 with h4 | h4
              · exact h4
              · subst h4; simp [hpm]; omega
            dsimp only
            have hpos := Nat.pos_of_ne_zero hmax
            by_cases ht : (if op = 0 then p.opcode.getD 0 else op) = 1
            · rw [if_pos ht]
              by_cases hu : c.decodeText = true ∧ ¬ utf8Valid merged = true
              · rw [if_pos hu]; exact hb3
              · rw [if_neg hu]
                refine ⟨by simp [deliver, h2]; exact hpos, ?_, by simp [deliver, h3, hfr]⟩
                apply deliver_bound hb3; simp only [Msg.size]; omega
            · rw [if_neg ht]
              refine ⟨by simp [deliver, h2]; exact hpos, ?_, by simp [deliver, h3, hfr]⟩
              apply deliver_bound hb3; simp only [Msg.size]; omega
  · have hc' := hc hop
    simp only [hop, if_false]
    split
    · -- close
      unfold handleClose
      split
      · next b0 b1 reason =>
        dsimp only
        split
        · exact hb
        · split
          · exact hb
          · refine ⟨hp, ?_, rfl⟩
            apply deliver_bound hb
            simp only [Msg.size]
            simp at hc'
            split <;> omega
      · exact hb
      · refine ⟨hp, ?_, rfl⟩
        apply deliver_bound hb; simp [Msg.size]
    · split
      · refine ⟨hp, ?_, rfl⟩
        apply deliver_bound hb; simp only [Msg.size]; omega
      · split
        · refine ⟨hp, ?_, rfl⟩
          apply deliver_bound hb; simp only [Msg.size]; omega
        · exact hb

theorem knownOpcodes_split : ∀ op, op < 16 → Gen.C12.knownOpcodes.contains op = true → isData op ∨ op > 7 := by
  unfold isData; decide

theorem hdrCore_inv {c : Cfg} {k k' : K Z} {b0 b1 : UInt8} (h : hdrCore c k b0 b1 = .ok k') :
    k'.phase = .len ∧ k'.frags = k.frags ∧ k'.partialMsg = k.partialMsg ∧ k'.msgs = k.msgs ∧
    (¬ isData k'.frameOpcode → k'.lenFlag ≤ 125) := by
  unfold hdrCore at h
  dsimp only at h
  have hlt : b0.toNat % 16 < 16 := Nat.mod_lt _ (by decide)
  split at h
  · cases h
  · split at h
    · cases h
    · next hk =>
      have hk' : Gen.C12.knownOpcodes.contains (b0.toNat % 16) = true := by simpa using hk
      have hsp := knownOpcodes_split _ hlt hk'
      split at h
      · cases h
      · split at h
        · cases h
        · next hlong =>
          split at h
          · next hctl =>
            split at h
            · cases h
            · cases h
              refine ⟨rfl, rfl, rfl, rfl, ?_⟩
              intro _; dsimp only; omega
          · next hctl =>
            have hd : isData (b0.toNat % 16) := by
              rcases hsp with h1 | h1
              · exact h1
              · exact absurd h1 hctl
            split at h
            · cases h; exact ⟨rfl, rfl, rfl, rfl, fun hn => absurd hd hn⟩
            · split at h
              · cases h
              · cases h; exact ⟨rfl, rfl, rfl, rfl, fun hn => absurd hd hn⟩

theorem lenCore_inv {c : Cfg} (hmax : c.maxMsgSize ≠ 0) {k k' : K Z} {n : Nat} (h : lenCore c k n = .ok k') :
    (k'.phase = .mask ∨ k'.phase = .payload) ∧ k'.frags = k.frags ∧ k'.partialMsg = k.partialMsg ∧
    k'.msgs = k.msgs ∧ k'.toRead = n ∧ k'.frameOpcode = k.frameOpcode ∧
    (isData k.frameOpcode → n + k.partialMsg.length < c.maxMsgSize) := by
  unfold lenCore at h
  split at h
  · cases h
  · next hno =>
    cases h
    refine ⟨?_, rfl, rfl, rfl, rfl, rfl, ?_⟩
    · dsimp only; split <;> simp
    · intro hd
      have : ¬ (n ≥ c.maxMsgSize - k.partialMsg.length) := fun h' => hno ⟨hmax, hd, h'⟩
      omega

def PostS (c : Cfg) (k : K Z) (buf : Bytes) : StepK Z → Prop
  | .need => tailOK k buf
  | .park k' => InvK c k' ∧ k'.phase = .payload ∧ MsgsBound c k'
  | .fail pe _ => MsgsBound c pe
  | .adv k' _ => InvK c k' ∧ MsgsBound c k'

theorem setLen_inv {c : Cfg} (hmax : c.maxMsgSize ≠ 0) {k : K Z} {n : Nat} {rest buf : Bytes}
    (hp : k.partialMsg.length < c.maxMsgSize) (hf : k.frags = []) (hb : MsgsBound c k)
    (hctl : ¬ isData k.frameOpcode → n ≤ 125) :
    PostS c k buf (setLen c k n rest) := by
  unfold setLen
  cases h : lenCore c k n with
  | error e => exact hb
  | ok k' =>
    obtain ⟨h1, h2, h3, h4, h5, h6, h7⟩ := lenCore_inv hmax h
    refine ⟨⟨by rw [h3]; exact hp, ?_⟩, by intro m hm; rw [h4] at hm; exact hb m hm⟩
    rcases h1 with h1 | h1
    · simp only [h1]
      refine ⟨by rw [h2, hf], ?_, ?_⟩
      · intro hd; rw [h5, h3]; exact h7 (h6 ▸ hd)
      · intro hd; rw [h5]; exact hctl (h6 ▸ hd)
    · simp only [h1]
      refine ⟨?_, ?_⟩
      · intro hd; rw [h5, h3, h2, hf]; have := h7 (h6 ▸ hd); simp; omega
      · intro hd; rw [h5, h2, hf]; have := hctl (h6 ▸ hd); simp; omega

theorem microK_inv {c : Cfg} (hmax : c.maxMsgSize ≠ 0) {k : K Z} (buf : Bytes)
    (hk : InvK c k) (hb : MsgsBound c k) : PostS c k buf (microK c k buf) := by
  obtain ⟨hp, hph⟩ := hk
  unfold microK
  cases hphase : k.phase with
  | header =>
    simp only [hphase] at hph ⊢
    unfold hdrStep
    match buf with
    | [] => simp [PostS, tailOK, hphase]
    | [_] => simp [PostS, tailOK, hphase]
    | b0 :: b1 :: rest =>
      dsimp only
      cases h : hdrCore c k b0 b1 with
      | error e => exact hb
      | ok k' =>
        obtain ⟨h1, h2, h3, h4, h5⟩ := hdrCore_inv h
        refine ⟨⟨by rw [h3]; exact hp, ?_⟩, by intro m hm; rw [h4] at hm; exact hb m hm⟩
        simp only [h1]
        exact ⟨by rw [h2]; exact hph, h5⟩
  | len =>
    simp only [hphase] at hph ⊢
    obtain ⟨hf, hl⟩ := hph
    unfold lenStep
    by_cases h126 : k.lenFlag = 126
    · rw [if_pos h126]
      match buf with
      | [] => simp [PostS, tailOK, hphase]
      | [_] => simp [PostS, tailOK, hphase]
      | b0 :: b1 :: rest =>
        dsimp only
        apply setLen_inv hmax hp hf hb
        intro hd; have := hl hd; omega
    · rw [if_neg h126]
      by_cases hgt : k.lenFlag > 126
      · rw [if_pos hgt]
        by_cases hlen : buf.length < 8
        · rw [if_pos hlen]; simp [PostS, tailOK, hphase]; exact hlen
        · rw [if_neg hlen]
          dsimp only
          split
          · exact hb
          · apply setLen_inv hmax hp hf hb
            intro hd; have := hl hd; omega
      · rw [if_neg hgt]
        apply setLen_inv hmax hp hf hb
        intro hd; exact hl hd
  | mask =>
    simp only [hphase] at hph ⊢
    obtain ⟨hf, hd, hc⟩ := hph
    unfold maskStep
    by_cases hlen : buf.length < 4
    · rw [if_pos hlen]; simp [PostS, tailOK, hphase]; exact hlen
    · rw [if_neg hlen]
      refine ⟨⟨hp, ?_⟩, hb⟩
      dsimp only
      refine ⟨?_, ?_⟩
      · intro h; have := hd h; rw [hf]; simp; omega
      · intro h; have := hc h; rw [hf]; simp; omega
  | payload =>
    simp only [hphase] at hph ⊢
    obtain ⟨hd, hc⟩ := hph
    unfold payStep
    dsimp only
    by_cases hnz : k.toRead - min k.toRead buf.length ≠ 0
    · rw [if_pos hnz]
      have hgt : buf.length < k.toRead := by
        by_cases hh : buf.length < k.toRead
        · exact hh
        · exfalso; apply hnz; rw [Nat.min_eq_left (by omega)]; omega
      have hmin : min k.toRead buf.length = buf.length := Nat.min_eq_right (by omega)
      refine ⟨⟨hp, ?_⟩, hphase, hb⟩
      simp only [hphase, hmin, List.take_length]
      refine ⟨?_, ?_⟩
      · intro h; have := hd h; simp; omega
      · intro h; have := hc h; simp; omega
    · rw [if_neg hnz]
      have hle : k.toRead ≤ buf.length := by
        by_cases hh : k.toRead ≤ buf.length
        · exact hh
        · exfalso; apply hnz; rw [Nat.min_eq_right (by omega)]; omega
      have hmin : min k.toRead buf.length = k.toRead := Nat.min_eq_left hle
      have hlen : (if k.hasMask = true then maskBytes k.mask (k.frags ++ List.take (min k.toRead buf.length) buf)
                   else k.frags ++ List.take (min k.toRead buf.length) buf).length = k.frags.length + k.toRead := by
        split <;> simp [maskBytes_length, hmin, Nat.min_eq_left hle]
      have := handleFrame_inv (c := c) hmax (p := { k with toRead := 0, frags := [] }) (fin := k.frameFin)
        (op := k.frameOpcode) (cz := k.compressed)
        (payload := if k.hasMask = true then maskBytes k.mask (k.frags ++ List.take (min k.toRead buf.length) buf)
                   else k.frags ++ List.take (min k.toRead buf.length) buf)
        hp (by intro h; rw [hlen]; exact hd h) (by intro h; rw [hlen]; exact hc h) hb
      cases hh : handleFrame c { k with toRead := 0, frags := [] } k.frameFin k.frameOpcode
          (if k.hasMask = true then maskBytes k.mask (k.frags ++ List.take (min k.toRead buf.length) buf)
           else k.frags ++ List.take (min k.toRead buf.length) buf) k.compressed with
      | error e =>
        rw [hh] at this
        obtain ⟨pe, ee⟩ := e
        exact this
      | ok p2 =>
        rw [hh] at this
        obtain ⟨h1, h2, h3⟩ := this
        exact ⟨⟨h1, h3⟩, h2⟩

def InvRK (c : Cfg) (r : RK Z) : Prop :=
  (r.exc = none → InvK c r.k ∧ tailOK r.k r.tail) ∧ MsgsBound c r.k

theorem loopK_inv {c : Cfg} (hmax : c.maxMsgSize ≠ 0) : ∀ (f : Nat) (k : K Z) (buf : Bytes),
    need k buf < f → InvK c k → MsgsBound c k → InvRK c (loopK c f k buf) := by
  intro f
  induction f with
  | zero => intro k buf h; omega
  | succ n ih =>
    intro k buf hf hk hb
    rw [loopK_succ]
    have hs := microK_inv hmax buf hk hb
    cases hm : microK c k buf with
    | need => rw [hm] at hs; exact ⟨fun _ => ⟨hk, hs⟩, hb⟩
    | park k' =>
      rw [hm] at hs
      obtain ⟨h1, h2, h3⟩ := hs
      exact ⟨fun _ => ⟨h1, by simp [tailOK, h2]⟩, h3⟩
    | fail pe e => rw [hm] at hs; exact ⟨fun h => by simp at h, hs⟩
    | adv k' rest =>
      rw [hm] at hs
      have := microK_adv_need hm
      exact ih k' rest (by omega) hs.1 hs.2

theorem feedK_inv {c : Cfg} (hmax : c.maxMsgSize ≠ 0) (r : RK Z) (d : Bytes) (h : InvRK c r) :
    InvRK c (feedK c r d) := by
  unfold feedK
  by_cases he : r.exc.isSome
  · rw [if_pos he]; exact h
  · rw [if_neg he]
    have hn : r.exc = none := by cases hx : r.exc <;> simp_all
    exact loopK_inv hmax _ _ _ (need_le_fuelFor _ _) (h.1 hn).1 h.2

def InvR (c : Cfg) (r : Reader Z) : Prop := InvRK c r.core

theorem InvR_init (c : Cfg) (hmax : c.maxMsgSize ≠ 0) : InvR c ({} : Reader Z) := by
  refine ⟨fun _ => ⟨⟨Nat.pos_of_ne_zero hmax, rfl⟩, by simp [tailOK, Reader.core]⟩, ?_⟩
  intro m hm; simp [Reader.core] at hm

theorem feedAll_InvR (c : Cfg) (hmax : c.maxMsgSize ≠ 0) : ∀ (segs : List Bytes) (r : Reader Z),
    InvR c r → InvR c (feedAll c r segs) := by
  intro segs
  induction segs with
  | nil => intro r h; exact h
  | cons d ds ih =>
    intro r h
    apply ih
    unfold InvR; rw [feed_core]; exact feedK_inv hmax _ _ h

theorem InvR_retained (c : Cfg) (hmax : c.maxMsgSize ≠ 0) (r : Reader Z) (h : InvR c r) (he : r.exc = none) :
    retained r ≤ c.maxMsgSize + 125 := by
  obtain ⟨⟨hp, hph⟩, ht⟩ := h.1 he
  simp only [Reader.core] at hp hph ht
  unfold retained
  unfold tailOK at ht
  cases hphase : r.p.k.phase with
  | header => simp only [hphase] at hph ht; rw [hph]; simp; omega
  | len => simp only [hphase] at hph ht; rw [hph.1]; simp; omega
  | mask => simp only [hphase] at hph ht; rw [hph.1]; simp; omega
  | payload =>
    simp only [hphase] at hph ht
    rw [ht]
    by_cases hd : isData r.p.k.frameOpcode
    · have := hph.1 hd; simp; omega
    · have := hph.2 hd; simp; omega

end Aio.C12
