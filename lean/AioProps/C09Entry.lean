import AioModel.C09
/-! The behaviour flag `waitEntryCheck` is configuration: no function of the pipeline model changes it.
(Mechanical copy of the traversal in `C09Conserve.lean` for the predicate `waitEntryCheck = true`.) -/
namespace Aio.C09
open Aio
variable {c : Codec}

def EntryOn (w : World c) : Prop := w.waitEntryCheck = true

/-- a function that preserves the invariant -/
def EPres (f : World c → World c) : Prop := ∀ w, EntryOn w → EntryOn (f w)

theorem entry_pauseReading : EPres (c := c) pauseReading := by
  intro w h; unfold pauseReading; simp only; split <;> exact h
theorem entry_wake : EPres (c := c) wake := by intro w h; exact h
theorem entry_setExc (e : Err) : EPres (c := c) (setExc · e) := by
  intro w h; simp only [setExc]; split <;> exact h
theorem entry_failWith (e : Err) : EPres (c := c) (failWith · e) := by intro w h; exact h
theorem entry_rdFeed (d : Bytes) : EPres (c := c) (rdFeed · d) := by
  intro w h
  simp only [rdFeed]
  repeat' split
  all_goals first | exact h | exact entry_pauseReading _ h
theorem entry_resumeTransport : EPres (c := c) resumeTransport := by
  intro w h; simp only [resumeTransport]; split <;> exact h
theorem entry_rdFeedEof : EPres (c := c) rdFeedEof := by
  intro w h; exact entry_resumeTransport _ h
theorem entry_setChunk (n : Nat) : EPres (c := c) (setChunk · n) := by
  intro w h; simp only [setChunk]; split <;> exact h
theorem entry_beginChunk : EPres (c := c) beginChunk := by
  intro w h; simp only [beginChunk]; split
  · exact h
  · split <;> exact h
theorem entry_endChunk : EPres (c := c) endChunk := by
  intro w h; simp only [endChunk]; split
  · exact h
  · split
    · exact h
    · simp only [wake]; split
      · exact entry_pauseReading _ h
      · exact h

theorem entry_sniffStart (d : Bytes) : EPres (c := c) (sniffStart · d) := by
  intro w h; simp only [sniffStart]; split <;> exact h
theorem entry_decodeFeed (d : Bytes) : EPres (c := c) (decodeFeed · d) := by
  intro w h
  simp only [decodeFeed]
  split
  · exact h
  · exact entry_rdFeed _ _ h
theorem entry_payFeed (d : Bytes) : EPres (c := c) (payFeed · d) := by
  intro w h
  simp only [payFeed]
  split
  · exact entry_rdFeed d _ h
  · exact entry_decodeFeed d _ (entry_sniffStart d _ h)
theorem entry_payEof : EPres (c := c) payEof := by
  intro w h; simp only [payEof]; split
  · exact h
  · exact entry_rdFeedEof _ h
theorem entry_drain : ∀ fuel, EPres (c := c) (drain fuel) := by
  intro fuel
  induction fuel with
  | zero => intro w h; exact h
  | succ n ih =>
    intro w h
    simp only [drain]
    split
    · exact h
    · split
      · exact h
      · have := entry_payFeed [] w h
        split
        · exact this
        · exact ih _ this
theorem entry_feedLength (d : Bytes) : EPres (c := c) (feedLength · d) := by
  intro w h
  simp only [feedLength]
  have h1 := entry_payFeed ((w.tail ++ d).take w.length) { w with tail := [], length := w.length - (w.tail ++ d).length } h
  split
  · exact h1
  · have h2 := fun f => entry_drain (c := c) f _ h1
    split
    · exact h2 _
    · exact h2 _
    · split
      · split
        · exact entry_payEof _ (h2 _)
        · exact entry_payEof _ (h2 _)
      · exact h2 _
theorem entry_feedUntilEof (d : Bytes) : EPres (c := c) (feedUntilEof · d) := by
  intro w h
  simp only [feedUntilEof]
  have h1 := entry_payFeed d w h
  split
  · exact h1
  · have h2 := fun f => entry_drain (c := c) f _ h1
    split
    · exact h2 _
    · exact h2 _
    · split
      · split
        · exact entry_payEof _ (h2 _)
        · exact entry_payEof _ (h2 _)
      · exact h2 _

/-- continuation that preserves the invariant -/
def EPresK (k : World c → Bytes → World c) : Prop := ∀ w d, EntryOn w → EntryOn (k w d)

theorem entry_payEof' (w : World c) (h : EntryOn w) : EntryOn (payEof w) := entry_payEof w h
theorem entry_endChunk' (w : World c) (h : EntryOn w) : EntryOn (endChunk w) := entry_endChunk w h
theorem entry_beginChunk' (w : World c) (h : EntryOn w) : EntryOn (beginChunk w) := entry_beginChunk w h
theorem entry_payFeed' (w : World c) (d : Bytes) (h : EntryOn w) : EntryOn (payFeed w d) := entry_payFeed d w h
theorem entry_failWith' (w : World c) (e : Err) (h : EntryOn w) : EntryOn (failWith w e) := h

theorem entry_trailersStep (k : World c → Bytes → World c) (hk : EPresK k) : EPresK (trailersStep k) := by
  intro w d h
  simp only [trailersStep]
  repeat' split
  all_goals repeat (first | exact h | apply hk | apply entry_payEof' | apply entry_failWith')
theorem entry_chunkEofStep (k : World c → Bytes → World c) (hk : EPresK k) : EPresK (chunkEofStep k) := by
  intro w d h
  simp only [chunkEofStep]
  repeat' split
  all_goals repeat (first | exact h | apply hk | apply entry_failWith')
theorem entry_chunkStep (k : World c → Bytes → World c) (hk : EPresK k) : EPresK (chunkStep k) := by
  intro w d h
  simp only [chunkStep]
  repeat' split
  all_goals repeat (first | exact h | apply hk | apply entry_chunkEofStep k hk | apply entry_endChunk' | apply entry_payFeed')
theorem entry_sizeStep (k : World c → Bytes → World c) (hk : EPresK k) : EPresK (sizeStep k) := by
  intro w d h
  simp only [sizeStep]
  repeat' split
  all_goals repeat (first | exact h | apply entry_trailersStep k hk | apply entry_chunkStep k hk | apply entry_beginChunk' | apply entry_failWith')
theorem entry_chunkedLoop : ∀ fuel, EPresK (c := c) (chunkedLoop fuel) := by
  intro fuel
  induction fuel with
  | zero => intro w d h; exact h
  | succ n ih =>
    intro w d h
    simp only [chunkedLoop]
    repeat' split
    all_goals repeat (first | exact h | apply entry_sizeStep _ ih | apply entry_chunkStep _ ih | apply entry_chunkEofStep _ ih | apply entry_trailersStep _ ih)
theorem entry_ppFeedCore (d : Bytes) : EPres (c := c) (ppFeedCore · d) := by
  intro w h
  simp only [ppFeedCore]
  split
  · exact entry_feedLength d w h
  · exact entry_feedUntilEof d w h
  · split
    · exact h
    · exact entry_chunkedLoop _ { w with tail := [] } _ h
theorem entry_ppFeed (d : Bytes) : EPres (c := c) (ppFeed · d) := by
  intro w h
  have h1 := entry_ppFeedCore d w h
  simp only [ppFeed]
  split
  · exact h1
  · exact h1
theorem entry_parserFeed (d : Bytes) : EPres (c := c) (parserFeed · d) := by
  intro w h
  simp only [parserFeed]
  split
  · exact h
  · split
    · exact h
    · have h1 := entry_ppFeed d { w with raised := none, res := .needs } h
      split
      · exact h1
      · exact h1
      · exact h1
      · split
        · exact entry_setExc _ _ h1
        · exact entry_setExc _ _ h1
theorem entry_dataReceived (d : Bytes) : EPres (c := c) (dataReceived · d) := by
  intro w h; simp only [dataReceived]; split
  · exact h
  · exact entry_parserFeed d w h
theorem entry_resumeReading : EPres (c := c) resumeReading := by
  intro w h
  exact entry_resumeTransport _ (entry_dataReceived [] { w with readingPaused := false } h)

theorem entry_resumeReading' (w : World c) (h : EntryOn w) : EntryOn (resumeReading w) := entry_resumeReading w h

theorem entry_readChunk (n : Option Nat) : EPres (c := c) (readChunk · n) := by
  intro w h
  simp only [readChunk]
  repeat' split
  all_goals first | exact h | (apply entry_resumeReading'; exact h)

theorem entry_readAllChunks : ∀ k, EPres (c := c) (readAllChunks k) := by
  intro k
  induction k with
  | zero => intro w h; exact h
  | succ n ih => intro w h; exact ih _ (entry_readChunk none w h)

theorem entry_readUpTo : ∀ fuel n, EPres (c := c) (readUpTo fuel n) := by
  intro fuel
  induction fuel with
  | zero => intro n w h; exact h
  | succ f ih =>
    intro n w h
    simp only [readUpTo]
    repeat' split
    all_goals first | exact h | exact entry_readChunk _ w h | exact ih _ _ (entry_readChunk _ w h)

theorem entry_readOp (n : Option Nat) (w : World c) (h : EntryOn w) : EntryOn (readOp w n).1 := by
  simp only [readOp]
  repeat' split
  all_goals first
    | exact h
    | exact entry_setChunk _ w h
    | (apply entry_readUpTo; first | exact h | exact entry_setChunk _ w h)
    | (apply entry_readAllChunks; first | exact h | exact entry_setChunk _ w h)

theorem entry_ppFeedEof : EPres (c := c) ppFeedEof := by
  intro w h
  simp only [ppFeedEof]
  repeat' split
  all_goals first
    | exact h
    | exact entry_drain _ _ h
    | exact entry_payEof _ (entry_drain _ _ h)

theorem entry_connectionLost : EPres (c := c) connectionLost := by
  intro w h
  simp only [connectionLost]
  have h1 := entry_ppFeedEof { w with raised := none, res := .needs } h
  repeat' split
  all_goals first | exact h | exact h1 | exact entry_setExc _ _ h1

theorem entry_reqLoop (cms : Nat) : ∀ fuel (w : World c), EntryOn w → EntryOn (reqLoop cms fuel w).1 := by
  intro fuel
  induction fuel with
  | zero => intro w h; exact h
  | succ f ih =>
    intro w h
    simp only [reqLoop]
    have h1 := entry_readAllChunks w.buf.length { w with reqParked := false, outb := [] } h
    repeat' split
    all_goals first | exact h | exact h1 | exact ih _ h1

theorem entry_reqRead (cms : Nat) (w : World c) (h : EntryOn w) : EntryOn (reqRead w cms).1 := by
  simp only [reqRead]
  repeat' split
  all_goals first
    | exact h
    | exact entry_setChunk _ w h
    | (apply entry_reqLoop; first | exact h | exact entry_setChunk _ w h)

theorem entry_resumeGate (w : World c) (h : EntryOn w) : ∀ r, resumeGate w = some r → EntryOn r.1 := by
  intro r hr
  simp only [resumeGate] at hr
  repeat' split at hr
  all_goals first | (injection hr with hr; subst hr; exact h) | cases hr
theorem entry_parkOrFail (w : World c) (h : EntryOn w) : EntryOn (parkOrFail w).1 := by
  simp only [parkOrFail]
  repeat' split
  all_goals exact h
theorem entry_parkedRead (n : Option Nat) (w : World c) (h : EntryOn w) : EntryOn (parkedRead w n).1 := by
  simp only [parkedRead]
  split
  · rename_i r hr; exact entry_resumeGate w h r hr
  · repeat' split
    all_goals first
      | exact h
      | exact entry_setChunk _ w h
      | (apply entry_parkOrFail; first | exact h | exact entry_setChunk _ w h)
      | (apply entry_readUpTo; first | exact h | exact entry_setChunk _ w h)
      | (apply entry_readAllChunks; first | exact h | exact entry_setChunk _ w h)
theorem entry_lineTake (w : World c) (h : EntryOn w) : EntryOn (lineTake w) := by
  simp only [lineTake]
  exact entry_readChunk _ { w with outb := [] } h
theorem entry_lineInner : ∀ fuel m (w : World c), EntryOn w → EntryOn (lineInner fuel m w).1 := by
  intro fuel
  induction fuel with
  | zero => intro m w h; exact h
  | succ f ih =>
    intro m w h
    simp only [lineInner]
    have h1 := entry_lineTake w h
    repeat' split
    all_goals first | exact h | exact h1 | exact ih _ _ h1
theorem entry_lineStart (w : World c) (h : EntryOn w) : EntryOn (lineStart w) := by
  simp only [lineStart]; split <;> exact h
theorem entry_lineFinish (r : World c × LineRes) (h : EntryOn r.1) : EntryOn (lineFinish r).1 := by
  simp only [lineFinish]
  repeat' split
  all_goals first | exact h | exact entry_parkOrFail _ h
theorem entry_parkedLine (w : World c) (h : EntryOn w) : EntryOn (parkedLine w).1 := by
  simp only [parkedLine]
  split
  · rename_i r hr; exact entry_resumeGate w h r hr
  · exact entry_lineFinish _ (entry_lineInner _ _ _ (entry_lineStart w h))
theorem entry_connectionLostServer (w : World c) (h : EntryOn w) : EntryOn (connectionLostServer w) := by
  simp only [connectionLostServer]; exact entry_setExc _ w h

theorem entry_step (w : World c) (op : Op) (h : EntryOn w) : EntryOn (step w op).1 := by
  cases op with
  | deliver seg =>
    simp only [step]; split
    · exact h
    · exact entry_dataReceived seg { w with wireInR := seg :: w.wireInR } h
  | close => simp only [step]; split
             · exact h
             · exact entry_connectionLost w h
  | read n =>
    simp only [step]
    repeat' split
    all_goals first | exact h | exact entry_readOp _ w h
  | readAny => exact entry_readOp none w h
  | setChunk n => exact entry_setChunk n w h
  | reqRead cms => exact entry_reqRead cms w h
  | pread n => exact entry_parkedRead _ w h
  | preadAny => exact entry_parkedRead _ w h
  | preadLine => exact entry_parkedLine w h
  | closeServer => simp only [step]; split
                   · exact h
                   · exact entry_connectionLostServer w h

theorem entry_run (ops : List Op) : ∀ (w : World c), EntryOn w → EntryOn (run w ops) := by
  induction ops with
  | nil => intro w h; exact h
  | cons op t ih => intro w h; exact ih _ (entry_step w op h)

end Aio.C09
