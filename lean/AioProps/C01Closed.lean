import AioProps.C03Main
/-!
# C01: nothing is read as a message once the stream position is lost

Two situations leave the parser in a state in which bytes that arrive later must not be given an
interpretation: a message that closes the connection (`Connection: close`, HTTP/1.0 without
keep-alive) has been delivered, or a body was abandoned with an error that `feed_data` does not
re-raise (too many trailers, an over-long chunk-size / trailer line, …) — there the rest of the read
is dropped and the position in the stream is lost.  Both set `_should_close`.

* `closed_stepOnce`: in such a state (`shouldClose`, no body open, no header lines collected, not
  upgraded) one loop iteration either skips an empty line (state unchanged, input shorter) or stops
  without any event.
* `closed_emits_nothing`: every read, of any bytes, emits no event at all — in particular no
  message — and the state stays closed unless the read raised.
* `swallowed_error_closes`: the state in which a swallowed body error leaves the parser is closed.
  With `closed_emits_nothing`: after such an error no later read is ever read as a request.
-/
namespace Aio.Http

/-- the parser holds no partial message and must not start another one -/
def Closed (st : St) : Prop :=
  st.shouldClose = true ∧ st.payload = none ∧ st.lines = [] ∧ st.upgraded = false

theorem closed_stepOnce (cfg : Cfg) (urlOk : Bool → Bytes → Bool) (st : St) (d : Bytes) (h : Closed st) :
    (∃ d', stepOnce cfg urlOk st d = .cont st d' []) ∨
    (∃ o, stepOnce cfg urlOk st d = .stop o ∧ o.evs = [] ∧ (o.err = none → Closed o.st)) := by
  obtain ⟨hsc, hp, hl, hu⟩ := h
  unfold stepOnce
  simp only [hp, hu]
  cases hf : findSep cfg.lax d with
  | some pos =>
    simp only [hl, List.isEmpty_nil, Bool.and_true, hsc, if_true]
    by_cases h0 : (pos == 0) = true
    · left; exact ⟨d.drop (sepLen cfg.lax), by simp [h0]⟩
    · right
      refine ⟨_, by simp [h0]; rfl, rfl, ?_⟩
      intro he; cases he
  | none =>
    right
    refine ⟨partialLine cfg st d [], by simp, ?_, ?_⟩
    · unfold partialLine; split
      · rfl
      · split <;> rfl
    · unfold partialLine; split
      · intro he; cases he
      · split
        · intro he; cases he
        · intro _; exact ⟨hsc, hp, hl, hu⟩

/-- **Closed means closed.** From a closed state the loop emits nothing, whatever the bytes. -/
theorem closed_feedLoop (cfg : Cfg) (urlOk : Bool → Bytes → Bool) :
    ∀ (f : Nat) (st : St) (d : Bytes) (acc : List Ev), Closed st →
      (feedLoop cfg urlOk f st d acc).evs = acc ∧
      ((feedLoop cfg urlOk f st d acc).err = none → Closed { (feedLoop cfg urlOk f st d acc).st with tail := [] }) := by
  intro f
  induction f with
  | zero =>
    intro st d acc h
    refine ⟨by simp [feedLoop], fun _ => ?_⟩
    simp only [feedLoop]
    exact h
  | succ f ih =>
    intro st d acc h
    rw [feedLoop]
    by_cases hd : d.isEmpty = true
    · simp only [hd, if_true]
      exact ⟨trivial, fun _ => h⟩
    · simp only [hd]
      rcases closed_stepOnce cfg urlOk st d h with ⟨d', hs⟩ | ⟨o, hs, hev, hst⟩
      · simp only [hs]
        by_cases hlt : d'.length < d.length
        · simp only [hlt, if_true, List.append_nil]
          exact ih st d' acc h
        · simp only [hlt, if_false, List.append_nil]
          refine ⟨rfl, ?_⟩
          intro he; cases he
      · simp only [hs, hev, List.append_nil]
        refine ⟨rfl, ?_⟩
        intro he
        have := hst he
        exact this

/-- **No message after the position is lost.** A read of any bytes by a closed parser (nothing buffered)
emits no event: no request, no body data, no completion. -/
theorem closed_emits_nothing (cfg : Cfg) (urlOk : Bool → Bytes → Bool) (st : St) (d : Bytes)
    (h : Closed st) : (feed cfg urlOk st d).evs = [] := by
  unfold feed
  split
  · rfl
  · exact (closed_feedLoop cfg urlOk _ { st with tail := [] } _ [] h).1

/-- the state a swallowed body error leaves behind is closed (unless the body belonged to an Upgrade
request, in which case the rest of the connection is handed to the caller as raw bytes) -/
theorem swallowed_error_closes (cfg : Cfg) (urlOk : Bool → Bytes → Bool) (st : St) (p : PState) (d : Bytes)
    (e : Err) (ev : List Ev) (hp : st.payload = some p) (hl : st.lines = []) (hu : st.upgraded = false)
    (hpu : st.pendingUpgrade = false) (hf : payloadFeed cfg p d = (.err e false, ev)) :
    ∃ o, stepOnce cfg urlOk st d = .stop o ∧ o.err = none ∧ Closed o.st := by
  rw [stepOnce_payload cfg urlOk st p d hp, hf]
  refine ⟨_, rfl, rfl, ?_⟩
  simp only [afterBody, hpu]
  exact ⟨rfl, rfl, hl, hu⟩

/-- non-vacuity: the stream of finding F32 (`max_headers` = 4 head lines, chunked body, `GE` of the next
request in the same read) — the first read ends without an error, the next read `T /next …` raises and
delivers nothing -/
example :
    let cfg : Cfg := { maxHeaders := 4 }
    let r1 := feed cfg (fun _ _ => true) {} (ofNats
      [80,79,83,84,32,47,99,32,72,84,84,80,47,49,46,49,13,10,72,111,115,116,58,32,104,13,10,
       84,114,97,110,115,102,101,114,45,69,110,99,111,100,105,110,103,58,32,99,104,117,110,107,101,100,13,10,13,10,
       51,13,10,97,98,99,13,10,48,13,10,13,10,71,69])
    let r2 := feed cfg (fun _ _ => true) r1.st (ofNats [84,32,47,110,32,72,84,84,80,47,49,46,49,13,10,13,10])
    r1.err.isNone = true ∧ r1.st.shouldClose = true ∧ r2.evs.length = 0 ∧ r2.err.isSome = true := by
  decide +kernel

end Aio.Http
