import AioModel.C11
import AioModel.C12Spec
import AioProps.C12Lemmas
import AioProps.C12Bound
/-! Helper lemmas for C11: big-endian encode/decode, masking, the reader run over one written frame. -/
namespace Aio.C11
open Aio Aio.C12

theorem toUInt8_toNat_mod (n : Nat) : (n % 256).toUInt8.toNat = n % 256 := by
  simp [Nat.toUInt8, UInt8.ofNat, UInt8.toNat]

theorem toUInt8_toNat_lt {n : Nat} (h : n < 256) : n.toUInt8.toNat = n := by
  have := toUInt8_toNat_mod n
  rwa [Nat.mod_eq_of_lt h] at this

theorem beNat_append_single (l : Bytes) (b : UInt8) : beNat (l ++ [b]) = beNat l * 256 + b.toNat := by
  simp [beNat, List.foldl_append]

theorem beBytes_length (k n : Nat) : (beBytes k n).length = k := by
  induction k generalizing n with
  | zero => rfl
  | succ k ih => simp [beBytes, ih]

/-- big-endian decode of big-endian encode, for every width and every value that fits -/
theorem beNat_beBytes : ∀ (k n : Nat), n < 256 ^ k → beNat (beBytes k n) = n := by
  intro k
  induction k with
  | zero => intro n h; simp at h; subst h; rfl
  | succ k ih =>
    intro n h
    simp only [beBytes, beNat_append_single]
    rw [ih (n / 256) (by rw [Nat.pow_succ] at h; omega), toUInt8_toNat_mod]
    omega

theorem maskGo_involutive (d : Bytes) : ∀ k0 k1 k2 k3,
    maskGo (maskGo d k0 k1 k2 k3) k0 k1 k2 k3 = d := by
  induction d with
  | nil => intros; rfl
  | cons b t ih =>
    intro k0 k1 k2 k3
    simp only [maskGo, ih]
    congr 1
    rw [UInt8.xor_assoc, UInt8.xor_self, UInt8.xor_zero]

variable {Z : Inflater}

theorem fb_facts : ∀ op ∈ [1,2,8,9,10], ∀ rsv ∈ [0,64],
    (0x80 ||| rsv ||| op) < 256 ∧ (0x80 ||| rsv ||| op) / 128 = 1 ∧ (0x80 ||| rsv ||| op) / 64 % 2 = rsv / 64 ∧
    (0x80 ||| rsv ||| op) / 32 % 2 = 0 ∧ (0x80 ||| rsv ||| op) / 16 % 2 = 0 ∧ (0x80 ||| rsv ||| op) % 16 = op := by
  decide

theorem b1_facts : ∀ lc, lc < 128 → ∀ mb ∈ [0,128],
    (lc ||| mb) < 256 ∧ (lc ||| mb) / 128 = mb / 128 ∧ (lc ||| mb) % 128 = lc := by
  decide

theorem hdrCore_data (c : Cfg) (k : K Z) (op rsv : Nat) (hop : op = 1 ∨ op = 2) (hrsv : rsv = 0 ∨ rsv = 64)
    (hc : rsv = 64 → c.compress = true) (hidle : k.frameFin = true ∨ k.compressed = none) (b1 : UInt8) :
    hdrCore c k (0x80 ||| rsv ||| op).toUInt8 b1 =
      .ok { k with compressed := some (decide (rsv = 64)), frameFin := true, frameOpcode := op,
                   hasMask := decide (b1.toNat / 128 = 1), lenFlag := b1.toNat % 128, phase := .len } := by
  have hf := fb_facts op (by rcases hop with h | h <;> subst h <;> simp) rsv (by rcases hrsv with h | h <;> subst h <;> simp)
  obtain ⟨f1, f2, f3, f4, f5, f6⟩ := hf
  unfold hdrCore
  simp only [toUInt8_toNat_lt f1, f2, f3, f4, f5, f6]
  rcases hop with h | h <;> subst h <;> rcases hrsv with h | h <;> subst h <;> simp_all [Gen.C12.knownOpcodes]

theorem hdrCore_ctl (c : Cfg) (k : K Z) (op : Nat) (hop : op = 8 ∨ op = 9 ∨ op = 10) (b1 : UInt8)
    (hlc : b1.toNat % 128 ≤ 125) :
    hdrCore c k (0x80 ||| 0 ||| op).toUInt8 b1 =
      .ok { k with frameOpcode := op, hasMask := decide (b1.toNat / 128 = 1), lenFlag := b1.toNat % 128,
                   phase := .len } := by
  have hf := fb_facts op (by rcases hop with h | h | h <;> subst h <;> simp) 0 (by simp)
  obtain ⟨f1, f2, f3, f4, f5, f6⟩ := hf
  unfold hdrCore
  simp only [toUInt8_toNat_lt f1, f2, f3, f4, f5, f6]
  have : ¬ (b1.toNat % 128 > 125) := by omega
  rcases hop with h | h | h <;> subst h <;> simp_all [Gen.C12.knownOpcodes]

/-- the 7-bit length code the writer puts in the second byte -/
def lenCode (n : Nat) : Nat := if n < 126 then n else if n < 65536 then 126 else 127
/-- the extended length bytes -/
def extBytes (n : Nat) : Bytes := if n < 126 then [] else if n < 65536 then beBytes 2 n else beBytes 8 n

theorem frameHeader_eq (fb mb n : Nat) :
    frameHeader fb mb n = [fb.toUInt8, (lenCode n ||| mb).toUInt8] ++ extBytes n := by
  unfold frameHeader lenCode extBytes
  split
  · simp
  · split <;> simp

theorem lenCode_lt (n : Nat) : lenCode n < 128 := by unfold lenCode; split <;> (try split) <;> omega

theorem lenStep_writer (c : Cfg) (k1 : K Z) (n : Nat) (hn : n < 2 ^ 63) (hl : k1.lenFlag = lenCode n) (more : Bytes) :
    lenStep c k1 (extBytes n ++ more) = setLen c k1 n more := by
  unfold lenStep extBytes
  rw [hl]
  unfold lenCode
  by_cases h1 : n < 126
  · simp only [h1, if_true]
    have : ¬ n = 126 := by omega
    have h2 : ¬ n > 126 := by omega
    simp [this, h2]
  · simp only [h1, if_false]
    by_cases h2 : n < 65536
    · simp only [h2, if_true]
      simp only [beBytes, List.nil_append, List.cons_append]
      rw [toUInt8_toNat_mod, toUInt8_toNat_mod]
      have : n / 256 % 256 * 256 + n % 256 = n := by omega
      simp [this]
    · simp only [h2, if_false]
      have e1 : ¬ (127 = 126) := by decide
      have e2 : 127 > 126 := by decide
      simp only [e1, e2, if_true, if_false]
      have hlen : ¬ (beBytes 8 n ++ more).length < 8 := by simp [beBytes_length]
      have ht : (beBytes 8 n ++ more).take 8 = beBytes 8 n := by
        rw [List.take_append_of_le_length (by simp [beBytes_length])]
        exact List.take_of_length_le (by simp [beBytes_length])
      have hd : (beBytes 8 n ++ more).drop 8 = more := by
        rw [List.drop_append_of_le_length (by simp [beBytes_length])]
        rw [List.drop_of_length_le (by simp [beBytes_length])]; rfl
      have hv : beNat (beBytes 8 n) = n := beNat_beBytes 8 n (by
        have : (2:Nat)^63 < 256^8 := by decide
        omega)
      simp only [hlen, if_false, ht, hd, hv]
      have : ¬ n > Gen.C12.maxPayloadLen := by
        unfold Gen.C12.maxPayloadLen
        have : (2:Nat)^63 = 9223372036854775808 := by decide
        omega
      simp [this]

theorem loopK_step_adv {c : Cfg} {k k' : K Z} {buf r : Bytes} {F : Nat} (hF : need k buf < F)
    (hm : microK c k buf = .adv k' r) : loopK c F k buf = loopK c (F - 1) k' r ∧ need k' r < F - 1 := by
  have hn := microK_adv_need hm
  obtain ⟨G, rfl⟩ : ∃ G, F = G + 1 := ⟨F - 1, by omega⟩
  rw [loopK_succ, hm]
  exact ⟨rfl, by simp; omega⟩

theorem loopK_step_fail {c : Cfg} {k pe : K Z} {buf : Bytes} {e : Err} {F : Nat} (hF : need k buf < F)
    (hm : microK c k buf = .fail pe e) : loopK c F k buf = { k := pe, tail := [], exc := some e } := by
  obtain ⟨G, rfl⟩ : ∃ G, F = G + 1 := ⟨F - 1, by omega⟩
  rw [loopK_succ, hm]

/-- payload bytes of a written frame -/
def wirePayload (useMask : Bool) (key msg : Bytes) : Bytes :=
  if useMask then key ++ maskBytes key msg else msg

theorem maskBytes_involutive (key d : Bytes) : maskBytes key (maskBytes key d) = d := by
  rcases key with _ | ⟨a, _ | ⟨b, _ | ⟨c, _ | ⟨d, _ | ⟨e, t⟩⟩⟩⟩⟩ <;> simp [maskBytes, maskGo_involutive]

/-- outcome of the reader loop after one complete frame -/
def afterFrame (c : Cfg) (k3 : K Z) (msg rest : Bytes) : RK Z :=
  match handleFrame c k3 k3.frameFin k3.frameOpcode msg k3.compressed with
  | .error (pe, e) => { k := pe, tail := [], exc := some e }
  | .ok k4 => loopK c (fuelFor rest) { k4 with phase := .header } rest

/-- The reader loop over one written frame: header, length, mask and payload blocks run through
and `_handle_frame` is called with exactly the payload that was written (unmasked again). -/
theorem loopK_frame (c : Cfg) (k k1 k2 : K Z) (b0 b1 : UInt8) (n : Nat) (useMask : Bool)
    (key msg rest : Bytes) (F : Nat)
    (hph : k.phase = .header)
    (hh : hdrCore c k b0 b1 = .ok k1) (hl : k1.lenFlag = lenCode n) (hm : k1.hasMask = useMask)
    (hfr : k1.frags = [])
    (hn : n < 2 ^ 63) (hlen : msg.length = n) (hkey : useMask = true → key.length = 4)
    (hs : lenCore c k1 n = .ok k2)
    (hF : need k (b0 :: b1 :: (extBytes n ++ (wirePayload useMask key msg ++ rest))) < F) :
    loopK c F k (b0 :: b1 :: (extBytes n ++ (wirePayload useMask key msg ++ rest))) =
      afterFrame c { k2 with toRead := 0, frags := [], phase := .payload,
                             mask := if useMask then key else k2.mask } msg rest := by
  -- header
  have m1 : microK c k (b0 :: b1 :: (extBytes n ++ (wirePayload useMask key msg ++ rest))) =
      .adv k1 (extBytes n ++ (wirePayload useMask key msg ++ rest)) := by
    unfold microK; simp only [hph]; unfold hdrStep; simp only [hh]
  obtain ⟨e1, F1⟩ := loopK_step_adv hF m1
  rw [e1]
  -- length
  have hph1 : k1.phase = .len := hdrCore_phase hh
  have m2 : microK c k1 (extBytes n ++ (wirePayload useMask key msg ++ rest)) =
      .adv k2 (wirePayload useMask key msg ++ rest) := by
    unfold microK; simp only [hph1]; rw [lenStep_writer c k1 n hn hl]; unfold setLen; simp only [hs]
  obtain ⟨e2, F2⟩ := loopK_step_adv F1 m2
  rw [e2]
  -- what lenCore did
  have hk2 : k2 = { k1 with toRead := n, phase := if k1.hasMask then .mask else .payload } := by
    unfold lenCore at hs
    split at hs
    · cases hs
    · cases hs; rfl
  cases useMask with
  | false =>
    have hph2 : k2.phase = .payload := by rw [hk2]; simp [hm]
    have m3 : microK c k2 (wirePayload false key msg ++ rest) =
        (match handleFrame c { k2 with toRead := 0, frags := [] } k2.frameFin k2.frameOpcode msg k2.compressed with
         | .error (pe, e) => .fail pe e
         | .ok p2 => .adv { p2 with phase := .header } rest) := by
      unfold microK; simp only [hph2]; unfold payStep
      have ht : k2.toRead = msg.length := by rw [hk2, hlen]
      have hmk : k2.hasMask = false := by rw [hk2]; exact hm
      have hf2 : k2.frags = [] := by rw [hk2]; exact hfr
      simp [wirePayload, ht, hmk, hf2, hph2]
      rfl
    unfold afterFrame
    have hsame : ({ k2 with toRead := 0, frags := [], phase := .payload, mask := if false = true then key else k2.mask } : K Z)
        = { k2 with toRead := 0, frags := [] } := by
      simp [hph2.symm]
    rw [hsame]
    cases hf : handleFrame c { k2 with toRead := 0, frags := [] } k2.frameFin k2.frameOpcode msg k2.compressed with
    | error pe =>
      obtain ⟨pe, e⟩ := pe
      rw [hf] at m3
      exact loopK_step_fail F2 m3
    | ok k4 =>
      rw [hf] at m3
      obtain ⟨e3, F3⟩ := loopK_step_adv F2 m3
      rw [e3]
      exact loop_fuel _ _ _ _ F3 (need_le_fuelFor _ _)
  | true =>
    have hkl := hkey rfl
    have hph2 : k2.phase = .mask := by rw [hk2]; simp [hm]
    have m3 : microK c k2 (wirePayload true key msg ++ rest) =
        .adv { k2 with mask := key, phase := .payload } (maskBytes key msg ++ rest) := by
      unfold microK; simp only [hph2]; unfold maskStep
      have : ¬ (wirePayload true key msg ++ rest).length < 4 := by simp [wirePayload, hkl]
      simp only [this, if_false]
      simp [wirePayload, List.take_append_of_le_length, List.drop_append_of_le_length, hkl]
    obtain ⟨e3, F3⟩ := loopK_step_adv F2 m3
    rw [e3]
    have m4 : microK c { k2 with mask := key, phase := .payload } (maskBytes key msg ++ rest) =
        (match handleFrame c { k2 with toRead := 0, frags := [], mask := key, phase := .payload } k2.frameFin k2.frameOpcode msg k2.compressed with
         | .error (pe, e) => .fail pe e
         | .ok p2 => .adv { p2 with phase := .header } rest) := by
      unfold microK; simp only []; unfold payStep
      have ht : k2.toRead = msg.length := by rw [hk2, hlen]
      have hmk : k2.hasMask = true := by rw [hk2]; exact hm
      have hf2 : k2.frags = [] := by rw [hk2]; exact hfr
      simp [ht, hmk, hf2, maskBytes_length, maskBytes_involutive]
      try rfl
    unfold afterFrame
    simp only [if_true]
    cases hf : handleFrame c { k2 with toRead := 0, frags := [], phase := .payload, mask := key } k2.frameFin k2.frameOpcode msg k2.compressed with
    | error pe =>
      obtain ⟨pe, e⟩ := pe
      rw [hf] at m4
      exact loopK_step_fail F3 m4
    | ok k4 =>
      rw [hf] at m4
      obtain ⟨e4, F4⟩ := loopK_step_adv F3 m4
      rw [e4]
      exact loop_fuel _ _ _ _ F4 (need_le_fuelFor _ _)

end Aio.C11
