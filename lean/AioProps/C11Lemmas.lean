import AioModel.C11
import AioModel.C12Spec
import AioProps.C12Lemmas
import AioProps.C12Bound
/-! Helper lemmas for C11: big-endian encode/decode, masking, the reader run over one written frame. -/
namespace Aio.C11
open Aio Aio.C12

theorem toUInt8_toNat_mod (n : Nat) : (n % 256).toUInt8.toNat = n % 256 := by
  simp [Nat.toUInt8, UInt8.ofNat, UInt8.toNat]

theorem toUInt8_toNat_lt {n : Nat} (h : n < 256) : n.toUInt8.toNat = n := by
  have := toUInt8_toNat_mod n
  rwa [Nat.mod_eq_of_lt h] at this

theorem beNat_append_single (l : Bytes) (b : UInt8) : beNat (l ++ [b]) = beNat l * 256 + b.toNat := by
  simp [beNat, List.foldl_append]

theorem beBytes_length (k n : Nat) : (beBytes k n).length = k := by
  induction k generalizing n with
  | zero => rfl
  | succ k ih => simp [beBytes, ih]

/-- big-endian decode of big-endian encode, for every width and every value that fits -/
theorem beNat_beBytes : ∀ (k n : Nat), n < 256 ^ k → beNat (beBytes k n) = n := by
  intro k
  induction k with
  | zero => intro n h; simp at h; subst h; rfl
  | succ k ih =>
    intro n h
    simp only [beBytes, beNat_append_single]
    rw [ih (n / 256) (by rw [Nat.pow_succ] at h; omega), toUInt8_toNat_mod]
    omega

theorem maskGo_involutive (d : Bytes) : ∀ k0 k1 k2 k3,
    maskGo (maskGo d k0 k1 k2 k3) k0 k1 k2 k3 = d := by
  induction d with
  | nil => intros; rfl
  | cons b t ih =>
    intro k0 k1 k2 k3
    simp only [maskGo, ih]
    congr 1
    rw [UInt8.xor_assoc, UInt8.xor_self, UInt8.xor_zero]

variable {Z : Inflater}

theorem fb_facts : ∀ op ∈ [1,2,8,9,10], ∀ rsv ∈ [0,64],
    (0x80 ||| rsv ||| op) < 256 ∧ (0x80 ||| rsv ||| op) / 128 = 1 ∧ (0x80 ||| rsv ||| op) / 64 % 2 = rsv / 64 ∧
    (0x80 ||| rsv ||| op) / 32 % 2 = 0 ∧ (0x80 ||| rsv ||| op) / 16 % 2 = 0 ∧ (0x80 ||| rsv ||| op) % 16 = op := by
  decide

theorem b1_facts : ∀ lc, lc < 128 → ∀ mb ∈ [0,128],
    (lc ||| mb) < 256 ∧ (lc ||| mb) / 128 = mb / 128 ∧ (lc ||| mb) % 128 = lc := by
  decide

theorem hdrCore_data (c : Cfg) (k : K Z) (op rsv : Nat) (hop : op = 1 ∨ op = 2) (hrsv : rsv = 0 ∨ rsv = 64)
    (hc : rsv = 64 → c.compress = true) (hidle : k.frameFin = true ∨ k.compressed = none) (b1 : UInt8) :
    hdrCore c k (0x80 ||| rsv ||| op).toUInt8 b1 =
      .ok { k with compressed := some (decide (rsv = 64)), frameFin := true, frameOpcode := op,
                   hasMask := decide (b1.toNat / 128 = 1), lenFlag := b1.toNat % 128, phase := .len } := by
  have hf := fb_facts op (by rcases hop with h | h <;> subst h <;> simp) rsv (by rcases hrsv with h | h <;> subst h <;> simp)
  obtain ⟨f1, f2, f3, f4, f5, f6⟩ := hf
  unfold hdrCore
  simp only [toUInt8_toNat_lt f1, f2, f3, f4, f5, f6]
  rcases hop with h | h <;> subst h <;> rcases hrsv with h | h <;> subst h <;> simp_all [Gen.C12.knownOpcodes]

theorem hdrCore_ctl (c : Cfg) (k : K Z) (op : Nat) (hop : op = 8 ∨ op = 9 ∨ op = 10) (b1 : UInt8)
    (hlc : b1.toNat % 128 ≤ 125) :
    hdrCore c k (0x80 ||| 0 ||| op).toUInt8 b1 =
      .ok { k with frameOpcode := op, hasMask := decide (b1.toNat / 128 = 1), lenFlag := b1.toNat % 128,
                   phase := .len } := by
  have hf := fb_facts op (by rcases hop with h | h | h <;> subst h <;> simp) 0 (by simp)
  obtain ⟨f1, f2, f3, f4, f5, f6⟩ := hf
  unfold hdrCore
  simp only [toUInt8_toNat_lt f1, f2, f3, f4, f5, f6]
  have : ¬ (b1.toNat % 128 > 125) := by omega
  rcases hop with h | h | h <;> subst h <;> simp_all [Gen.C12.knownOpcodes]

/-- the 7-bit length code the writer puts in the second byte -/
def lenCode (n : Nat) : Nat := if n < 126 then n else if n < 65536 then 126 else 127
/-- the extended length bytes -/
def extBytes (n : Nat) : Bytes := if n < 126 then [] else if n < 65536 then beBytes 2 n else beBytes 8 n

theorem frameHeader_eq (fb mb n : Nat) :
    frameHeader fb mb n = [fb.toUInt8, (lenCode n ||| mb).toUInt8] ++ extBytes n := by
  unfold frameHeader lenCode extBytes
  split
  · simp
  · split <;> simp

theorem lenCode_lt (n : Nat) : lenCode n < 128 := by unfold lenCode; split <;> (try split) <;> omega

theorem lenStep_writer (c : Cfg) (k1 : K Z) (n : Nat) (hn : n < 2 ^ 63) (hl : k1.lenFlag = lenCode n) (more : Bytes) :
    lenStep c k1 (extBytes n ++ more) = setLen c k1 n more := by
  unfold lenStep extBytes
  rw [hl]
  unfold lenCode
  by_cases h1 : n < 126
  · simp only [h1, if_true]
    have : ¬ n = 126 := by omega
    have h2 : ¬ n > 126 := by omega
    simp [this, h2]
  · simp only [h1, if_false]
    by_cases h2 : n < 65536
    · simp only [h2, if_true]
      simp only [beBytes, List.nil_append, List.cons_append]
      rw [toUInt8_toNat_mod, toUInt8_toNat_mod]
      have : n / 256 % 256 * 256 + n % 256 = n := by omega
      simp [this]
    · simp only [h2, if_false]
      have e1 : ¬ (127 = 126) := by decide
      have e2 : 127 > 126 := by decide
      simp only [e1, e2, if_true, if_false]
      have hlen : ¬ (beBytes 8 n ++ more).length < 8 := by simp [beBytes_length]
      have ht : (beBytes 8 n ++ more).take 8 = beBytes 8 n := by
        rw [List.take_append_of_le_length (by simp [beBytes_length])]
        exact List.take_of_length_le (by simp [beBytes_length])
      have hd : (beBytes 8 n ++ more).drop 8 = more := by
        rw [List.drop_append_of_le_length (by simp [beBytes_length])]
        rw [List.drop_of_length_le (by simp [beBytes_length])]; rfl
      have hv : beNat (beBytes 8 n) = n := beNat_beBytes 8 n (by
        have : (2:Nat)^63 < 256^8 := by decide
        omega)
      simp only [hlen, if_false, ht, hd, hv]
      have : ¬ n > Gen.C12.maxPayloadLen := by
        unfold Gen.C12.maxPayloadLen
        have : (2:Nat)^63 = 9223372036854775808 := by decide
        omega
      simp [this]

theorem loopK_step_adv {c : Cfg} {k k' : K Z} {buf r : Bytes} {F : Nat} (hF : need k buf < F)
    (hm : microK c k buf = .adv k' r) : loopK c F k buf = loopK c (F - 1) k' r ∧ need k' r < F - 1 := by
  have hn := microK_adv_need hm
  obtain ⟨G, rfl⟩ : ∃ G, F = G + 1 := ⟨F - 1, by omega⟩
  rw [loopK_succ, hm]
  exact ⟨rfl, by simp; omega⟩

theorem loopK_step_fail {c : Cfg} {k pe : K Z} {buf : Bytes} {e : Err} {F : Nat} (hF : need k buf < F)
    (hm : microK c k buf = .fail pe e) : loopK c F k buf = { k := pe, tail := [], exc := some e } := by
  obtain ⟨G, rfl⟩ : ∃ G, F = G + 1 := ⟨F - 1, by omega⟩
  rw [loopK_succ, hm]

/-- payload bytes of a written frame -/
def wirePayload (useMask : Bool) (key msg : Bytes) : Bytes :=
  if useMask then key ++ maskBytes key msg else msg

theorem maskBytes_involutive (key d : Bytes) : maskBytes key (maskBytes key d) = d := by
  rcases key with _ | ⟨a, _ | ⟨b, _ | ⟨c, _ | ⟨d, _ | ⟨e, t⟩⟩⟩⟩⟩ <;> simp [maskBytes, maskGo_involutive]

/-- outcome of the reader loop after one complete frame -/
def afterFrame (c : Cfg) (k3 : K Z) (msg rest : Bytes) : RK Z :=
  match handleFrame c k3 k3.frameFin k3.frameOpcode msg k3.compressed with
  | .error (pe, e) => { k := pe, tail := [], exc := some e }
  | .ok k4 => loopK c (fuelFor rest) { k4 with phase := .header } rest

/-- The reader loop over one written frame: header, length, mask and payload blocks run through
and `_handle_frame` is called with exactly the payload that was written (unmasked again). -/
theorem loopK_frame (c : Cfg) (k k1 k2 : K Z) (b0 b1 : UInt8) (n : Nat) (useMask : Bool)
    (key msg rest : Bytes) (F : Nat)
    (hph : k.phase = .header)
    (hh : hdrCore c k b0 b1 = .ok k1) (hl : k1.lenFlag = lenCode n) (hm : k1.hasMask = useMask)
    (hfr : k1.frags = [])
    (hn : n < 2 ^ 63) (hlen : msg.length = n) (hkey : useMask = true → key.length = 4)
    (hs : lenCore c k1 n = .ok k2)
    (hF : need k (b0 :: b1 :: (extBytes n ++ (wirePayload useMask key msg ++ rest))) < F) :
    loopK c F k (b0 :: b1 :: (extBytes n ++ (wirePayload useMask key msg ++ rest))) =
      afterFrame c { k2 with toRead := 0, frags := [], phase := .payload,
                             mask := if useMask then key else k2.mask } msg rest := by
  -- header
  have m1 : microK c k (b0 :: b1 :: (extBytes n ++ (wirePayload useMask key msg ++ rest))) =
      .adv k1 (extBytes n ++ (wirePayload useMask key msg ++ rest)) := by
    unfold microK; simp only [hph]; unfold hdrStep; simp only [hh]
  obtain ⟨e1, F1⟩ := loopK_step_adv hF m1
  rw [e1]
  -- length
  have hph1 : k1.phase = .len := hdrCore_phase hh
  have m2 : microK c k1 (extBytes n ++ (wirePayload useMask key msg ++ rest)) =
      .adv k2 (wirePayload useMask key msg ++ rest) := by
    unfold microK; simp only [hph1]; rw [lenStep_writer c k1 n hn hl]; unfold setLen; simp only [hs]
  obtain ⟨e2, F2⟩ := loopK_step_adv F1 m2
  rw [e2]
  -- what lenCore did
  have hk2 : k2 = { k1 with toRead := n, phase := if k1.hasMask then .mask else .payload } := by
    unfold lenCore at hs
    split at hs
    · cases hs
    · cases hs; rfl
  cases useMask with
  | false =>
    have hph2 : k2.phase = .payload := by rw [hk2]; simp [hm]
    have m3 : microK c k2 (wirePayload false key msg ++ rest) =
        (match handleFrame c { k2 with toRead := 0, frags := [] } k2.frameFin k2.frameOpcode msg k2.compressed with
         | .error (pe, e) => .fail pe e
         | .ok p2 => .adv { p2 with phase := .header } rest) := by
      unfold microK; simp only [hph2]; unfold payStep
      have ht : k2.toRead = msg.length := by rw [hk2, hlen]
      have hmk : k2.hasMask = false := by rw [hk2]; exact hm
      have hf2 : k2.frags = [] := by rw [hk2]; exact hfr
      simp [wirePayload, ht, hmk, hf2, hph2]
      rfl
    unfold afterFrame
    have hsame : ({ k2 with toRead := 0, frags := [], phase := .payload, mask := if false = true then key else k2.mask } : K Z)
        = { k2 with toRead := 0, frags := [] } := by
      simp [hph2.symm]
    rw [hsame]
    cases hf : handleFrame c { k2 with toRead := 0, frags := [] } k2.frameFin k2.frameOpcode msg k2.compressed with
    | error pe =>
      obtain ⟨pe, e⟩ := pe
      rw [hf] at m3
      exact loopK_step_fail F2 m3
    | ok k4 =>
      rw [hf] at m3
      obtain ⟨e3, F3⟩ := loopK_step_adv F2 m3
      rw [e3]
      exact loop_fuel _ _ _ _ F3 (need_le_fuelFor _ _)
  | true =>
    have hkl := hkey rfl
    have hph2 : k2.phase = .mask := by rw [hk2]; simp [hm]
    have m3 : microK c k2 (wirePayload true key msg ++ rest) =
        .adv { k2 with mask := key, phase := .payload } (maskBytes key msg ++ rest) := by
      unfold microK; simp only [hph2]; unfold maskStep
      have : ¬ (wirePayload true key msg ++ rest).length < 4 := by simp [wirePayload, hkl]
      simp only [this, if_false]
      simp [wirePayload, List.take_append_of_le_length, List.drop_append_of_le_length, hkl]
    obtain ⟨e3, F3⟩ := loopK_step_adv F2 m3
    rw [e3]
    have m4 : microK c { k2 with mask := key, phase := .payload } (maskBytes key msg ++ rest) =
        (match handleFrame c { k2 with toRead := 0, frags := [], mask := key, phase := .payload } k2.frameFin k2.frameOpcode msg k2.compressed with
         | .error (pe, e) => .fail pe e
         | .ok p2 => .adv { p2 with phase := .header } rest) := by
      unfold microK; simp only []; unfold payStep
      have ht : k2.toRead = msg.length := by rw [hk2, hlen]
      have hmk : k2.hasMask = true := by rw [hk2]; exact hm
      have hf2 : k2.frags = [] := by rw [hk2]; exact hfr
      simp [ht, hmk, hf2, maskBytes_length, maskBytes_involutive]
      try rfl
    unfold afterFrame
    simp only [if_true]
    cases hf : handleFrame c { k2 with toRead := 0, frags := [], phase := .payload, mask := key } k2.frameFin k2.frameOpcode msg k2.compressed with
    | error pe =>
      obtain ⟨pe, e⟩ := pe
      rw [hf] at m4
      exact loopK_step_fail F3 m4
    | ok k4 =>
      rw [hf] at m4
      obtain ⟨e4, F4⟩ := loopK_step_adv F3 m4
      rw [e4]
      exact loop_fuel _ _ _ _ F4 (need_le_fuelFor _ _)

/-- reader between two messages -/
def Idle (k : K Z) : Prop :=
  k.phase = .header ∧ k.frags = [] ∧ k.partialMsg = [] ∧ k.opcode = none ∧
  (k.frameFin = true ∨ k.compressed = none)

/-- the message the reader should deliver for a send -/
def toMsg (s : Send) : Msg :=
  if s.opcode = 1 then .text s.payload
  else if s.opcode = 2 then .binary s.payload
  else if s.opcode = 9 then .ping s.payload
  else if s.opcode = 10 then .pong s.payload
  else match s.payload with
    | b0 :: b1 :: reason => .close (b0.toNat * 256 + b1.toNat) reason
    | _ => .close 0 []

/-- what may be sent uncompressed to a reader with configuration `c` -/
def OkPlain (c : Cfg) (s : Send) : Prop :=
  s.payload.length < 2 ^ 63 ∧
  (((s.opcode = 1 ∨ s.opcode = 2) ∧ (c.maxMsgSize = 0 ∨ s.payload.length < c.maxMsgSize) ∧
      (s.opcode = 1 → c.decodeText = true → utf8Valid s.payload = true)) ∨
   ((s.opcode = 9 ∨ s.opcode = 10) ∧ s.payload.length ≤ 125) ∨
   (s.opcode = 8 ∧ s.payload.length ≤ 125 ∧
      (s.payload = [] ∨ ∃ b0 b1 reason, s.payload = b0 :: b1 :: reason ∧
        closeCodeOk (b0.toNat * 256 + b1.toNat) = true ∧ utf8Valid reason = true)))

/-- bytes of one uncompressed frame as the writer produces them -/
def plainFrame (useMask : Bool) (s : Send) : Bytes :=
  frameHeader (0x80 ||| 0 ||| s.opcode) (if useMask then 0x80 else 0) s.payload.length ++
    wirePayload useMask s.maskKey s.payload

theorem handle_plain (c : Cfg) (k3 : K Z) (s : Send) (hok : OkPlain c s)
    (hp : k3.partialMsg = []) (ho : k3.opcode = none) (hop : k3.frameOpcode = s.opcode)
    (hcz : s.opcode ≤ 2 → k3.compressed = some false ∧ k3.frameFin = true) :
    handleFrame c k3 k3.frameFin k3.frameOpcode s.payload k3.compressed = .ok (deliver k3 (toMsg s)) := by
  obtain ⟨_, hk⟩ := hok
  rw [hop]
  rcases hk with ⟨hd, hsz, hu⟩ | ⟨hpp, hl⟩ | ⟨h8, hl, hcl⟩
  · have ⟨hc1, hf1⟩ := hcz (by rcases hd with h | h <;> omega)
    have hne : s.opcode ≠ 0 := by rcases hd with h | h <;> omega
    have h3 : s.opcode = 1 ∨ s.opcode = 2 ∨ s.opcode = 0 := by rcases hd with h | h <;> simp [h]
    unfold handleFrame
    rw [if_pos h3]
    unfold handleData inflateMsg
    simp only [hf1, hc1, hp, hne, ho]
    rcases hd with h | h
    · have hu' := hu h
      by_cases hdt : c.decodeText = true
      · simp [h, toMsg, hdt, hu' hdt, deliver, hp]
      · simp [h, toMsg, hdt, deliver, hp]
    · simp [h, toMsg, deliver, hp]
  · unfold handleFrame
    rcases hpp with h | h <;> simp [h, toMsg]
  · unfold handleFrame handleClose
    rcases hcl with h | ⟨b0, b1, reason, h, hc, hr⟩
    · simp [h8, h, toMsg]
    · simp [h8, h, toMsg, hc, hr]

theorem okPlain_opcode {c : Cfg} {s : Send} (h : OkPlain c s) :
    (s.opcode = 1 ∨ s.opcode = 2) ∨ (s.opcode = 8 ∨ s.opcode = 9 ∨ s.opcode = 10) ∧ s.payload.length ≤ 125 := by
  obtain ⟨_, hk⟩ := h
  rcases hk with ⟨hd, _, _⟩ | ⟨hpp, hl⟩ | ⟨h8, hl, _⟩
  · exact Or.inl hd
  · exact Or.inr ⟨by rcases hpp with h | h <;> simp [h], hl⟩
  · exact Or.inr ⟨by simp [h8], hl⟩

theorem loopK_plain_msg (c : Cfg) (k : K Z) (hidle : Idle k) (s : Send) (hok : OkPlain c s)
    (useMask : Bool) (hkey : useMask = true → s.maskKey.length = 4) (rest : Bytes) (F : Nat)
    (hF : need k (plainFrame useMask s ++ rest) < F) :
    ∃ k', Idle k' ∧ k'.msgs = k.msgs ++ [toMsg s] ∧ k'.z = k.z ∧
      loopK c F k (plainFrame useMask s ++ rest) = loopK c (fuelFor rest) k' rest := by
  obtain ⟨hph, hfr, hpm, hopc, hff⟩ := hidle
  have hn : s.payload.length < 2 ^ 63 := hok.1
  let n := s.payload.length
  let mb := if useMask then 0x80 else 0
  have hmb : mb ∈ [0, 128] := by cases useMask <;> simp [mb]
  obtain ⟨g1, g2, g3⟩ := b1_facts (lenCode n) (lenCode_lt n) mb hmb
  have hb1a : ((lenCode n ||| mb).toUInt8).toNat / 128 = mb / 128 := by rw [toUInt8_toNat_lt g1]; exact g2
  have hb1b : ((lenCode n ||| mb).toUInt8).toNat % 128 = lenCode n := by rw [toUInt8_toNat_lt g1]; exact g3
  have hmask : decide (mb / 128 = 1) = useMask := by cases useMask <;> simp [mb]
  have hshape : plainFrame useMask s ++ rest =
      (0x80 ||| 0 ||| s.opcode).toUInt8 :: (lenCode n ||| mb).toUInt8 ::
        (extBytes n ++ (wirePayload useMask s.maskKey s.payload ++ rest)) := by
    unfold plainFrame; rw [frameHeader_eq]; simp [n, mb]
  rw [hshape] at hF ⊢
  rcases okPlain_opcode hok with hd | ⟨hctl, hl125⟩
  · -- data frame
    have hh := hdrCore_data c k s.opcode 0 hd (Or.inl rfl) (by intro h; cases h) hff (lenCode n ||| mb).toUInt8
    rw [hb1a, hb1b, hmask] at hh
    have hsz : c.maxMsgSize = 0 ∨ n < c.maxMsgSize := by
      obtain ⟨_, hk⟩ := hok
      rcases hk with ⟨_, hsz, _⟩ | ⟨hpp, _⟩ | ⟨h8, _, _⟩
      · exact hsz
      · rcases hd with h | h <;> rcases hpp with h' | h' <;> omega
      · rcases hd with h | h <;> omega
    have hs : lenCore c { k with compressed := some (decide ((0:Nat) = 64)), frameFin := true, frameOpcode := s.opcode, hasMask := useMask, lenFlag := lenCode n, phase := .len } n = .ok
        { k with compressed := some (decide ((0:Nat) = 64)), frameFin := true, frameOpcode := s.opcode, hasMask := useMask, lenFlag := lenCode n, toRead := n, phase := if useMask then .mask else .payload } := by
      unfold lenCore
      have : ¬ (c.maxMsgSize ≠ 0 ∧ (s.opcode = 1 ∨ s.opcode = 2 ∨ s.opcode = 0) ∧ n ≥ c.maxMsgSize - k.partialMsg.length) := by
        rw [hpm]; simp; intro h1 _; rcases hsz with h | h
        · exact absurd h h1
        · omega
      simp only [this, if_false]
    have := loopK_frame c k _ _ _ _ n useMask s.maskKey s.payload rest F hph hh rfl rfl hfr hn rfl hkey hs hF
    rw [this]
    unfold afterFrame
    have hp := handle_plain c ({ ({ k with compressed := some (decide ((0:Nat) = 64)), frameFin := true, frameOpcode := s.opcode, hasMask := useMask, lenFlag := lenCode n, toRead := n, phase := if useMask then .mask else .payload } : K Z) with toRead := 0, frags := [], phase := .payload, mask := if useMask then s.maskKey else k.mask }) s hok hpm hopc rfl
      (by intro _; exact ⟨by simp, rfl⟩)
    simp only [] at hp
    rw [hp]
    refine ⟨_, ⟨rfl, rfl, ?_, ?_, Or.inl rfl⟩, ?_, ?_, rfl⟩
    · simp [deliver, hpm]
    · simp [deliver, hopc]
    · simp [deliver]
    · simp [deliver]
  · -- control frame
    have hl : lenCode n = n := by unfold lenCode; simp [n]; omega
    have hh := hdrCore_ctl c k s.opcode hctl (lenCode n ||| mb).toUInt8 (by rw [hb1b, hl]; exact hl125)
    rw [hb1a, hb1b, hmask] at hh
    have hs : lenCore c { k with frameOpcode := s.opcode, hasMask := useMask, lenFlag := lenCode n, phase := .len } n = .ok
        { k with frameOpcode := s.opcode, hasMask := useMask, lenFlag := lenCode n, toRead := n, phase := if useMask then .mask else .payload } := by
      unfold lenCore
      have : ¬ (c.maxMsgSize ≠ 0 ∧ (s.opcode = 1 ∨ s.opcode = 2 ∨ s.opcode = 0) ∧ n ≥ c.maxMsgSize - k.partialMsg.length) := by
        intro ⟨_, h2, _⟩; rcases hctl with h | h | h <;> rcases h2 with h' | h' | h' <;> omega
      simp only [this, if_false]
    have := loopK_frame c k _ _ _ _ n useMask s.maskKey s.payload rest F hph hh rfl rfl hfr hn rfl hkey hs hF
    rw [this]
    unfold afterFrame
    have hp := handle_plain c ({ ({ k with frameOpcode := s.opcode, hasMask := useMask, lenFlag := lenCode n, toRead := n, phase := if useMask then .mask else .payload } : K Z) with toRead := 0, frags := [], phase := .payload, mask := if useMask then s.maskKey else k.mask }) s hok hpm hopc rfl
      (by intro h; rcases hctl with h' | h' | h' <;> omega)
    simp only [] at hp
    rw [hp]
    refine ⟨_, ⟨rfl, rfl, ?_, ?_, ?_⟩, ?_, ?_, rfl⟩
    · simp [deliver, hpm]
    · simp [deliver, hopc]
    · simpa [deliver] using hff
    · simp [deliver]
    · simp [deliver]

/-- bytes of a sequence of uncompressed frames -/
def plainWire (useMask : Bool) : List Send → Bytes
  | [] => []
  | s :: ss => plainFrame useMask s ++ plainWire useMask ss

theorem loopK_plain_all (c : Cfg) (useMask : Bool) : ∀ (sends : List Send) (k : K Z) (F : Nat),
    Idle k → (∀ s ∈ sends, OkPlain c s ∧ (useMask = true → s.maskKey.length = 4)) →
    need k (plainWire useMask sends) < F →
    ∃ k', Idle k' ∧ k'.msgs = k.msgs ++ sends.map toMsg ∧ k'.z = k.z ∧
      loopK c F k (plainWire useMask sends) = { k := k', tail := [], exc := none } := by
  intro sends
  induction sends with
  | nil =>
    intro k F hidle _ hF
    refine ⟨k, hidle, by simp, rfl, ?_⟩
    obtain ⟨G, rfl⟩ : ∃ G, F = G + 1 := ⟨F - 1, by omega⟩
    rw [loopK_succ]
    have : microK c k (plainWire useMask []) = .need := by
      unfold microK; simp only [hidle.1]; rfl
    rw [this]; rfl
  | cons s ss ih =>
    intro k F hidle hall hF
    have hs := hall s (by simp)
    obtain ⟨k1, hi1, hm1, hz1, he1⟩ := loopK_plain_msg c k hidle s hs.1 useMask hs.2 (plainWire useMask ss) F hF
    obtain ⟨k2, hi2, hm2, hz2, he2⟩ := ih k1 (fuelFor (plainWire useMask ss)) hi1
      (fun x hx => hall x (by simp [hx])) (need_le_fuelFor _ _)
    refine ⟨k2, hi2, ?_, by rw [hz2, hz1], ?_⟩
    · rw [hm2, hm1]; simp
    · show loopK c F k (plainFrame useMask s ++ plainWire useMask ss) = _
      rw [he1, he2]

/-- The sends the writer actually puts on the wire.  Once `_closing` is set, data frames are
refused with `ClientConnectionResetError` (`opcode & 8 = 0`) and write nothing; control frames
still pass.  `_closing` is set by a CLOSE frame written through `send_frame` when the code
latches there (`Gen.C11.closeLatchesInSendFrame`, probed from the source on every run). -/
def accepted : Bool → List Send → List Send
  | _, [] => []
  | cl, s :: ss =>
    if cl = true ∧ s.opcode &&& 8 = 0 then accepted cl ss
    else s :: accepted (cl || (Gen.C11.closeLatchesInSendFrame && s.opcode == 8)) ss

theorem accepted_subset {s : Send} : ∀ {l : List Send} {cl : Bool}, s ∈ accepted cl l → s ∈ l := by
  intro l
  induction l with
  | nil => intro cl h; simp [accepted] at h
  | cons a r ih =>
    intro cl h
    simp only [accepted] at h
    split at h
    · exact List.mem_cons_of_mem _ (ih h)
    · simp at h
      rcases h with h | h
      · simp [h]
      · exact List.mem_cons_of_mem _ (ih h)

/-- without a CLOSE among them (and the writer not closing) every send is accepted -/
theorem accepted_of_no_close : ∀ (l : List Send), (∀ s ∈ l, s.opcode ≠ 8) → accepted false l = l := by
  intro l
  induction l with
  | nil => intro _; rfl
  | cons a r ih =>
    intro h
    have ha : a.opcode ≠ 8 := h a (by simp)
    simp only [accepted]
    have hb : (a.opcode == 8) = false := by simp [ha]
    simp [ha, hb, ih (fun s hs => h s (by simp [hs]))]

/-- one accepted step of the writer on the `WS` part: bytes appended, flags afterwards -/
theorem sendFrameZ_accepted (cfg : WCfg) (w : WS) (s : Send) (rsv : Nat) (wire zout : Bytes)
    (hno : ¬ (w.closing = true ∧ s.opcode &&& 8 = 0)) (ht : w.transportClosing = false)
    (hfb : ¬ ((0x80 ||| rsv ||| s.opcode) > 255 ∨ wire.length ≥ 2 ^ 64))
    (hr : framePlan cfg s.payload s.opcode s.compress zout = (wire, rsv)) :
    (sendFrameZ cfg w s.payload s.opcode s.compress s.maskKey zout).1.out =
        w.out ++ (frameHeader (0x80 ||| rsv ||| s.opcode) (if cfg.useMask then 0x80 else 0) wire.length ++
                  wirePayload cfg.useMask s.maskKey wire) ∧
    (sendFrameZ cfg w s.payload s.opcode s.compress s.maskKey zout).1.transportClosing = false ∧
    (sendFrameZ cfg w s.payload s.opcode s.compress s.maskKey zout).1.closing =
        (w.closing || (Gen.C11.closeLatchesInSendFrame && s.opcode == 8)) := by
  unfold sendFrameZ
  rw [if_neg hno]
  simp only [hr]
  unfold writeFrame
  simp only [hfb, if_false, ht, Bool.false_eq_true]
  cases hm : cfg.useMask <;> cases hl : Gen.C11.closeLatchesInSendFrame <;>
    by_cases h8 : s.opcode = 8 <;>
    simp [afterSend, wirePayload, ht, h8, hl] <;> (split <;> simp [ht]) <;> (intro h; exact absurd h h8)

theorem accepted_append_last : ∀ (l : List Send) (last : Send), (∀ s ∈ l, s.opcode ≠ 8) →
    accepted false (l ++ [last]) = l ++ [last] := by
  intro l
  induction l with
  | nil => intro last _; simp [accepted]
  | cons a r ih =>
    intro last h
    have ha : a.opcode ≠ 8 := h a (by simp)
    have hb : (a.opcode == 8) = false := by simp [ha]
    simp only [List.cons_append, accepted]
    simp [hb, ih last (fun s hs => h s (by simp [hs]))]

end Aio.C11
