import AioModel.C18
/-! Helper lemmas for C18: the resource invariant and its preservation by every primitive
transition of the model. -/
namespace Aio.C18
open Aio

/-- the part of the state the resource invariant talks about -/
structure Core where
  slot : Slot
  pc : Pc
  rel : Bool
  wr : Wr
  dnsWaitR : Bool
  poolQ : List Who
  tr : Tr
  pooled : Bool
  eof : Bool

def core (s : St) : Core :=
  ⟨s.slot, s.pc, s.respReleased, s.wr, s.dnsWaitR, s.poolQ, s.tr, s.pooled, s.eof⟩

def activePc (p : Pc) : Prop := p = .headers ∨ p = .think ∨ p = .body

structure InvC (c : Core) : Prop where
  p1 : c.slot = .placeholder → (c.pc = .dnsOwner ∨ c.pc = .dnsWaiter ∨ c.pc = .connecting)
  p2 : c.slot = .proto → activePc c.pc ∧ c.rel = false
  p3 : c.wr = .parked → c.slot = .proto
  p4 : c.dnsWaitR = true → c.pc = .dnsWaiter
  p5 : Who.R ∈ c.poolQ → c.pc = .poolWait
  p6 : c.tr = .open → (c.slot = .proto ∨ (c.pooled = true ∧ c.eof = true ∧ c.rel = true))
  p7 : c.rel = true → (activePc c.pc ∨ c.pc.isDone = true)

/-- resource invariant -/
def Inv (s : St) : Prop := InvC (core s)

theorem Inv.of_core {s s' : St} (h : core s' = core s) (hi : Inv s) : Inv s' := by
  unfold Inv; rw [h]; exact hi

theorem inv_init (b : Bool) : Inv (init b) := by
  constructor <;> simp [core, init, activePc]

/-! ### frame: functions that do not touch the core -/

/-- split every `if`/`match` and close each branch by `rfl` -/
macro "splits" : tactic => `(tactic| repeat (first | rfl | split))

@[simp] theorem core_uncancel (s : St) : core (uncancel s) = core s := by
  unfold uncancel; splits

@[simp] theorem core_tcExit (s : St) (e : Exc) : core (tcExit s e).1 = core s := by
  unfold tcExit; split
  · simp only []; split <;> simp
  · rfl

@[simp] theorem core_reschedRead (cfg : Cfg) (s : St) : core (reschedRead cfg s) = core s := by
  unfold reschedRead; splits

@[simp] theorem core_dropRead (s : St) : core (dropRead s) = core s := rfl

@[simp] theorem core_pauseCheck (cfg : Cfg) (s : St) : core (pauseCheck cfg s) = core s := by
  unfold pauseCheck; splits


/-! ### preservation by the primitives -/

theorem mem_releaseWaiter_poolQ (cfg : Cfg) (s : St) (w : Who) :
    w ∈ (releaseWaiter cfg s).poolQ → w ∈ s.poolQ := by
  unfold releaseWaiter
  intro h
  split at h
  · exact h
  · split at h
    · exact h
    · simp_all
    · split at h <;> simp_all

theorem core_releaseWaiter (cfg : Cfg) (s : St) :
    { core (releaseWaiter cfg s) with poolQ := s.poolQ } = core s := by
  unfold releaseWaiter; repeat (first | rfl | split)

theorem inv_releaseWaiter (cfg : Cfg) (s : St) (h : Inv s) : Inv (releaseWaiter cfg s) := by
  have hc := core_releaseWaiter cfg s
  have hm := mem_releaseWaiter_poolQ cfg s Who.R
  obtain ⟨p1, p2, p3, p4, p5, p6, p7⟩ := h
  simp only [core, Core.mk.injEq] at hc
  obtain ⟨h1, h2, h3, h4, h5, -, h7, h8, h9⟩ := hc
  constructor <;> simp only [core] at * <;> (try rw [h1]) <;> (try rw [h2]) <;> (try rw [h3]) <;> (try rw [h4])
    <;> (try rw [h5]) <;> (try rw [h7]) <;> (try rw [h8]) <;> (try rw [h9]) <;> first | assumption | skip
  · intro hh; exact p5 (hm hh)


macro "inv_brute" : tactic =>
  `(tactic| (constructor <;> simp_all [core, activePc, Pc.isDone] <;> (repeat' split) <;> simp_all))

@[simp] theorem pc_releaseWaiter (cfg : Cfg) (s : St) : (releaseWaiter cfg s).pc = s.pc := by
  unfold releaseWaiter; splits

theorem inv_closeConn (cfg : Cfg) (s : St) (h : Inv s) (ha : activePc s.pc) : Inv (closeConn cfg s) := by
  unfold closeConn; split
  · exact h
  · apply inv_releaseWaiter
    obtain ⟨p1, p2, p3, p4, p5, p6, p7⟩ := h
    rcases ha with ha | ha | ha <;> inv_brute

@[simp] theorem pc_closeConn (cfg : Cfg) (s : St) : (closeConn cfg s).pc = s.pc := by
  unfold closeConn; split
  · rfl
  · simp

theorem inv_releaseConn (cfg : Cfg) (s : St) (h : Inv s) (ha : activePc s.pc) : Inv (releaseConn cfg s) := by
  unfold releaseConn; split
  · exact h
  · split
    · exact inv_closeConn cfg s h ha
    · apply inv_releaseWaiter
      obtain ⟨p1, p2, p3, p4, p5, p6, p7⟩ := h
      rcases ha with ha | ha | ha <;> inv_brute

theorem inv_releasePlaceholder (cfg : Cfg) (s : St) (h : Inv s) (ha : ¬ activePc s.pc) :
    Inv (releasePlaceholder cfg s) := by
  unfold releasePlaceholder
  apply inv_releaseWaiter
  obtain ⟨p1, p2, p3, p4, p5, p6, p7⟩ := h
  inv_brute


@[simp] theorem core_ctxExitCore (st : CtxSt) (s : St) (e : Exc) : core (ctxExitCore st s e).1 = core s := by
  unfold ctxExitCore; split
  · simp only []; split <;> simp
  · rfl
@[simp] theorem core_connExit (s : St) (e : Exc) : core (connExit s e).1 = core s := by
  have := core_ctxExitCore s.connCtx s e
  unfold connExit; simp only [core] at *; exact this
@[simp] theorem core_sockExit (s : St) (e : Exc) : core (sockExit s e).1 = core s := by
  have := core_ctxExitCore s.sockCtx s e
  unfold sockExit; simp only [core] at *; exact this
@[simp] theorem core_consume (cfg : Cfg) (s : St) : core (consume cfg s) = core s := by
  unfold consume; simp only []; split
  · rw [core_reschedRead]; rfl
  · rfl

theorem inv_taskCancel (s : St) (h : Inv s) : Inv (taskCancel s) := by
  unfold taskCancel; split
  · exact h
  · obtain ⟨p1, p2, p3, p4, p5, p6, p7⟩ := h
    constructor <;> simp_all [core, activePc, Pc.isDone]
    · intro hh; split at hh
      · exact p5 (List.mem_filter.1 hh).1
      · exact p5 hh
@[simp] theorem pc_taskCancel (s : St) : (taskCancel s).pc = s.pc := by
  unfold taskCancel; splits

/-- what must hold to end the request -/
theorem inv_finish (s : St) (o : Outcome) (h : Inv s) (h1 : s.slot = .none) (h3 : s.wr ≠ .parked)
    (h4 : s.dnsWaitR = false) (h5 : Who.R ∉ s.poolQ) : Inv (finish s o) := by
  obtain ⟨p1, p2, p3, p4, p5, p6, p7⟩ := h
  unfold finish; inv_brute

theorem core_attemptConn (cfg : Cfg) (s : St) : core (attemptConn cfg s) = { core s with pc := .connecting } := by
  unfold attemptConn; splits

@[simp] theorem pc_attemptConn (cfg : Cfg) (s : St) : (attemptConn cfg s).pc = .connecting := by
  unfold attemptConn; rfl

theorem inv_attemptConn (cfg : Cfg) (s : St) (h : Inv s) (hp : ¬ activePc s.pc) (hd : s.pc.isDone = false)
    (h4 : s.dnsWaitR = false) (h5 : Who.R ∉ s.poolQ) : Inv (attemptConn cfg s) := by
  obtain ⟨p1, p2, p3, p4, p5, p6, p7⟩ := h
  unfold Inv; rw [core_attemptConn]
  constructor <;> simp_all [core, activePc, Pc.isDone]

theorem inv_createConn (cfg : Cfg) (s : St) (h : Inv s) (hp : s.pc = .idle ∨ s.pc = .poolWait)
    (h5 : Who.R ∉ s.poolQ) : Inv (createConn cfg s) := by
  obtain ⟨p1, p2, p3, p4, p5, p6, p7⟩ := h
  unfold createConn
  simp only []
  split
  · unfold Inv; rw [core_attemptConn]
    rcases hp with hp | hp <;> constructor <;> simp_all [core, activePc, Pc.isDone]
  · split
    · unfold Inv; rw [core_attemptConn]
      rcases hp with hp | hp <;> constructor <;> simp_all [core, activePc, Pc.isDone]
    · split <;> rcases hp with hp | hp <;> constructor <;> simp_all [core, activePc, Pc.isDone]

end Aio.C18
