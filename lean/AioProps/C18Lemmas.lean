import AioModel.C18
/-! Helper lemmas for C18: the resource invariant and its preservation by every primitive
transition of the model. -/
namespace Aio.C18
open Aio

/-- the part of the state the resource invariant talks about -/
structure Core where
  slot : Slot
  pc : Pc
  rel : Bool
  wr : Wr
  dnsWaitR : Bool
  poolQ : List Who
  tr : Tr
  pooled : Bool
  eof : Bool

def core (s : St) : Core :=
  ⟨s.slot, s.pc, s.respReleased, s.wr, s.dnsWaitR, s.poolQ, s.tr, s.pooled, s.eof⟩

def activePc (p : Pc) : Prop := p = .headers ∨ p = .think ∨ p = .body

structure InvC (c : Core) : Prop where
  p1 : c.slot = .placeholder → (c.pc = .dnsOwner ∨ c.pc = .dnsWaiter ∨ c.pc = .connecting)
  p2 : c.slot = .proto → activePc c.pc ∧ c.rel = false
  p3 : c.wr = .parked → c.slot = .proto
  p4 : c.dnsWaitR = true → c.pc = .dnsWaiter
  p5 : Who.R ∈ c.poolQ → c.pc = .poolWait
  p6 : c.tr = .open → (c.slot = .proto ∨ (c.pooled = true ∧ c.eof = true ∧ c.rel = true))
  p7 : c.rel = true → (activePc c.pc ∨ c.pc.isDone = true)

/-- resource invariant -/
def Inv (s : St) : Prop := InvC (core s)

theorem Inv.of_core {s s' : St} (h : core s' = core s) (hi : Inv s) : Inv s' := by
  unfold Inv; rw [h]; exact hi

theorem inv_init (b : Bool) (c0 : Nat := 0) : Inv (init b c0) := by
  constructor <;> simp [core, init, activePc]

/-! ### frame: functions that do not touch the core -/

/-- split every `if`/`match` and close each branch by `rfl` -/
macro "splits" : tactic => `(tactic| repeat (first | rfl | split))

@[simp] theorem core_uncancel (s : St) : core (uncancel s) = core s := by
  unfold uncancel; splits

@[simp] theorem core_tcExit (s : St) (e : Exc) : core (tcExit s e).1 = core s := by
  unfold tcExit; split
  · simp only []; split <;> simp
  · rfl

@[simp] theorem core_reschedRead (cfg : Cfg) (s : St) : core (reschedRead cfg s) = core s := by
  unfold reschedRead; splits

@[simp] theorem core_dropRead (s : St) : core (dropRead s) = core s := rfl

@[simp] theorem core_pauseCheck (cfg : Cfg) (s : St) : core (pauseCheck cfg s) = core s := by
  unfold pauseCheck; splits


/-! ### preservation by the primitives -/

theorem mem_releaseWaiter_poolQ (cfg : Cfg) (s : St) (w : Who) :
    w ∈ (releaseWaiter cfg s).poolQ → w ∈ s.poolQ := by
  unfold releaseWaiter
  intro h
  split at h
  · exact h
  · split at h
    · exact h
    · simp_all
    · split at h <;> simp_all

theorem core_releaseWaiter (cfg : Cfg) (s : St) :
    { core (releaseWaiter cfg s) with poolQ := s.poolQ } = core s := by
  unfold releaseWaiter; repeat (first | rfl | split)

theorem inv_releaseWaiter (cfg : Cfg) (s : St) (h : Inv s) : Inv (releaseWaiter cfg s) := by
  have hc := core_releaseWaiter cfg s
  have hm := mem_releaseWaiter_poolQ cfg s Who.R
  obtain ⟨p1, p2, p3, p4, p5, p6, p7⟩ := h
  simp only [core, Core.mk.injEq] at hc
  obtain ⟨h1, h2, h3, h4, h5, -, h7, h8, h9⟩ := hc
  constructor <;> simp only [core] at * <;> (try rw [h1]) <;> (try rw [h2]) <;> (try rw [h3]) <;> (try rw [h4])
    <;> (try rw [h5]) <;> (try rw [h7]) <;> (try rw [h8]) <;> (try rw [h9]) <;> first | assumption | skip
  · intro hh; exact p5 (hm hh)


macro "inv_brute" : tactic =>
  `(tactic| (constructor <;> simp_all [core, activePc, Pc.isDone] <;> (repeat' split) <;> simp_all))

@[simp] theorem pc_releaseWaiter (cfg : Cfg) (s : St) : (releaseWaiter cfg s).pc = s.pc := by
  unfold releaseWaiter; splits

theorem inv_closeConn (cfg : Cfg) (s : St) (h : Inv s) (ha : activePc s.pc) : Inv (closeConn cfg s) := by
  unfold closeConn; split
  · exact h
  · apply inv_releaseWaiter
    obtain ⟨p1, p2, p3, p4, p5, p6, p7⟩ := h
    rcases ha with ha | ha | ha <;> inv_brute

@[simp] theorem pc_closeConn (cfg : Cfg) (s : St) : (closeConn cfg s).pc = s.pc := by
  unfold closeConn; split
  · rfl
  · simp

theorem inv_releaseConn (cfg : Cfg) (s : St) (h : Inv s) (ha : activePc s.pc) : Inv (releaseConn cfg s) := by
  unfold releaseConn; split
  · exact h
  · split
    · exact inv_closeConn cfg s h ha
    · apply inv_releaseWaiter
      obtain ⟨p1, p2, p3, p4, p5, p6, p7⟩ := h
      rcases ha with ha | ha | ha <;> inv_brute

theorem inv_releasePlaceholder (cfg : Cfg) (s : St) (h : Inv s) (ha : ¬ activePc s.pc) :
    Inv (releasePlaceholder cfg s) := by
  unfold releasePlaceholder
  apply inv_releaseWaiter
  obtain ⟨p1, p2, p3, p4, p5, p6, p7⟩ := h
  inv_brute


@[simp] theorem core_ctxExitCore (st : CtxSt) (b : Nat) (s : St) (e : Exc) : core (ctxExitCore st b s e).1 = core s := by
  unfold ctxExitCore; split
  · simp only []; split <;> simp
  · rfl
@[simp] theorem core_connExit (s : St) (e : Exc) : core (connExit s e).1 = core s := by
  have := core_ctxExitCore s.connCtx s.connBase s e
  unfold connExit; simp only [core] at *; exact this
@[simp] theorem core_sockExit (s : St) (e : Exc) : core (sockExit s e).1 = core s := by
  have := core_ctxExitCore s.sockCtx s.sockBase s e
  unfold sockExit; simp only [core] at *; exact this
@[simp] theorem core_consume (cfg : Cfg) (s : St) : core (consume cfg s) = core s := by
  unfold consume; simp only []; split
  · rw [core_reschedRead]; rfl
  · rfl

theorem inv_taskCancel (s : St) (h : Inv s) : Inv (taskCancel s) := by
  unfold taskCancel; split
  · exact h
  · obtain ⟨p1, p2, p3, p4, p5, p6, p7⟩ := h
    constructor <;> simp_all [core, activePc, Pc.isDone]
    · intro hh; split at hh
      · exact p5 (List.mem_filter.1 hh).1
      · exact p5 hh
@[simp] theorem pc_taskCancel (s : St) : (taskCancel s).pc = s.pc := by
  unfold taskCancel; splits

/-- what must hold to end the request -/
theorem inv_finish (s : St) (o : Outcome) (h : Inv s) (h1 : s.slot = .none) (h3 : s.wr ≠ .parked)
    (h4 : s.dnsWaitR = false) (h5 : Who.R ∉ s.poolQ) : Inv (finish s o) := by
  obtain ⟨p1, p2, p3, p4, p5, p6, p7⟩ := h
  unfold finish; inv_brute

theorem core_attemptConn (cfg : Cfg) (s : St) : core (attemptConn cfg s) = { core s with pc := .connecting } := by
  unfold attemptConn; splits

@[simp] theorem pc_attemptConn (cfg : Cfg) (s : St) : (attemptConn cfg s).pc = .connecting := by
  unfold attemptConn; rfl

theorem inv_attemptConn (cfg : Cfg) (s : St) (h : Inv s) (hp : ¬ activePc s.pc) (hd : s.pc.isDone = false)
    (h4 : s.dnsWaitR = false) (h5 : Who.R ∉ s.poolQ) : Inv (attemptConn cfg s) := by
  obtain ⟨p1, p2, p3, p4, p5, p6, p7⟩ := h
  unfold Inv; rw [core_attemptConn]
  constructor <;> simp_all [core, activePc, Pc.isDone]

theorem inv_createConn (cfg : Cfg) (s : St) (h : Inv s) (hp : s.pc = .idle ∨ s.pc = .poolWait)
    (h5 : Who.R ∉ s.poolQ) : Inv (createConn cfg s) := by
  obtain ⟨p1, p2, p3, p4, p5, p6, p7⟩ := h
  unfold createConn
  simp only []
  split
  · unfold Inv; rw [core_attemptConn]
    rcases hp with hp | hp <;> constructor <;> simp_all [core, activePc, Pc.isDone]
  · split
    · unfold Inv; rw [core_attemptConn]
      rcases hp with hp | hp <;> constructor <;> simp_all [core, activePc, Pc.isDone]
    · split <;> rcases hp with hp | hp <;> constructor <;> simp_all [core, activePc, Pc.isDone]


@[simp] theorem core_armStart (cfg : Cfg) (s : St) : core (armStart cfg s) = core s := by
  unfold armStart; splits

theorem inv_startR (cfg : Cfg) (s : St) (h : Inv s) : Inv (startR cfg s) := by
  unfold startR; split
  · exact h
  · rename_i hpc
    have hpc : s.pc = .idle := by simpa using hpc
    have h' : Inv (armStart cfg s) := Inv.of_core (core_armStart cfg s) h
    have hc := core_armStart cfg s
    simp only [core, Core.mk.injEq] at hc
    simp only []
    split
    · obtain ⟨p1, p2, p3, p4, p5, p6, p7⟩ := h'
      constructor <;> simp_all [core, activePc, Pc.isDone]
    · apply inv_createConn _ _ h'
      · left; rw [hc.2.1]; exact hpc
      · intro hm; have := h'.p5 hm; simp [core, hc.2.1, hpc] at this

@[simp] theorem pc_closeConn' (cfg : Cfg) (s : St) : (closeConn cfg s).pc = s.pc := pc_closeConn cfg s

@[simp] theorem pc_releaseConn (cfg : Cfg) (s : St) : (releaseConn cfg s).pc = s.pc := by
  unfold releaseConn; split
  · rfl
  · split <;> simp

@[simp] theorem rw_slot (cfg : Cfg) (s : St) : (releaseWaiter cfg s).slot = s.slot := by
  unfold releaseWaiter; splits
@[simp] theorem rw_wr (cfg : Cfg) (s : St) : (releaseWaiter cfg s).wr = s.wr := by
  unfold releaseWaiter; splits
@[simp] theorem rw_dnsWaitR (cfg : Cfg) (s : St) : (releaseWaiter cfg s).dnsWaitR = s.dnsWaitR := by
  unfold releaseWaiter; splits
@[simp] theorem rw_rel (cfg : Cfg) (s : St) : (releaseWaiter cfg s).respReleased = s.respReleased := by
  unfold releaseWaiter; splits
@[simp] theorem rw_tr (cfg : Cfg) (s : St) : (releaseWaiter cfg s).tr = s.tr := by
  unfold releaseWaiter; splits

/-- a state that owns nothing any more -/
def Clean (s : St) : Prop :=
  s.slot = .none ∧ s.wr ≠ .parked ∧ s.dnsWaitR = false ∧ Who.R ∉ s.poolQ

theorem clean_of_inv_rel {s : St} (h : Inv s) (ha : activePc s.pc) (hr : s.respReleased = true) : Clean s := by
  obtain ⟨p1, p2, p3, p4, p5, p6, p7⟩ := h
  simp only [core] at *
  have hs : s.slot = .none := by
    cases hs : s.slot
    · rfl
    · have := p1 hs; rcases ha with ha | ha | ha <;> simp_all
    · have := (p2 hs).2; simp_all
  refine ⟨hs, ?_, ?_, ?_⟩
  · intro hw; have := p3 hw; simp_all
  · cases hd : s.dnsWaitR
    · rfl
    · have := p4 hd; rcases ha with ha | ha | ha <;> simp_all
  · intro hm; have := p5 hm; rcases ha with ha | ha | ha <;> simp_all

/-- after `closeConn` at an active pc the request owns nothing -/
theorem closeConn_clean (cfg : Cfg) (s : St) (h : Inv s) (ha : activePc s.pc) : Clean (closeConn cfg s) := by
  unfold closeConn; split
  · rename_i hr; exact clean_of_inv_rel h ha hr
  · obtain ⟨p1, p2, p3, p4, p5, p6, p7⟩ := h
    simp only [core] at *
    refine ⟨by simp, ?_, ?_, ?_⟩
    · simp only [rw_wr]; split <;> simp_all
    · simp only [rw_dnsWaitR]
      cases hd : s.dnsWaitR
      · rfl
      · have := p4 hd; rcases ha with ha | ha | ha <;> simp_all
    · intro hm; have := p5 (by simpa using mem_releaseWaiter_poolQ _ _ _ hm)
      rcases ha with ha | ha | ha <;> simp_all

theorem releaseConn_clean (cfg : Cfg) (s : St) (h : Inv s) (ha : activePc s.pc) : Clean (releaseConn cfg s) := by
  unfold releaseConn; split
  · rename_i hr; exact clean_of_inv_rel h ha hr
  · split
    · exact closeConn_clean cfg s h ha
    · rename_i hc
      obtain ⟨p1, p2, p3, p4, p5, p6, p7⟩ := h
      simp only [core] at *
      refine ⟨by simp, ?_, ?_, ?_⟩
      · simp only [rw_wr]; intro hw; exact hc (Or.inl hw)
      · simp only [rw_dnsWaitR]
        cases hd : s.dnsWaitR
        · rfl
        · have := p4 hd; rcases ha with ha | ha | ha <;> simp_all
      · intro hm; have := p5 (by simpa using mem_releaseWaiter_poolQ _ _ _ hm)
        rcases ha with ha | ha | ha <;> simp_all


theorem Clean.of_core {s s' : St} (h : core s' = core s) (hc : Clean s) : Clean s' := by
  simp only [core, Core.mk.injEq] at h
  obtain ⟨h1, -, -, h4, h5, h6, -, -, -⟩ := h
  unfold Clean at *; rw [h1, h4, h5, h6]; exact hc

theorem inv_finish' (s : St) (o : Outcome) (h : Inv s) (hc : Clean s) : Inv (finish s o) :=
  inv_finish s o h hc.1 hc.2.1 hc.2.2.1 hc.2.2.2

theorem inv_connPhaseExit (s : St) (e : Exc) (h : Inv s) (hc : Clean s) : Inv (connPhaseExit s e) := by
  unfold connPhaseExit
  simp only []
  apply inv_finish'
  · apply Inv.of_core _ h; simp
  · apply Clean.of_core _ hc; simp

theorem clean_of_waiting {s : St} (h : Inv s) (hp : s.pc = .poolWait) :
    Clean { s with poolQ := s.poolQ.filter (· ≠ .R) } := by
  obtain ⟨p1, p2, p3, p4, p5, p6, p7⟩ := h
  simp only [core] at *
  have hs : s.slot = .none := by
    cases hs : s.slot
    · rfl
    · have := p1 hs; simp_all
    · have := (p2 hs).1; simp_all [activePc]
  refine ⟨hs, ?_, ?_, ?_⟩
  · intro hw; have := p3 hw; simp_all
  · cases hd : s.dnsWaitR
    · rfl
    · have := p4 hd; simp_all
  · simp [List.mem_filter]

theorem clean_releasePlaceholder (cfg : Cfg) (s : St) (h : Inv s) (ha : ¬ activePc s.pc)
    (h4 : s.dnsWaitR = false) (h5 : Who.R ∉ s.poolQ) : Clean (releasePlaceholder cfg s) := by
  obtain ⟨p1, p2, p3, p4, p5, p6, p7⟩ := h
  simp only [core] at *
  unfold releasePlaceholder
  refine ⟨by simp, ?_, by simpa using h4, ?_⟩
  · simp only [rw_wr]; intro hw; have := (p2 (p3 hw)).1; exact ha this
  · intro hm; exact h5 (by simpa using mem_releaseWaiter_poolQ _ _ _ hm)

@[simp] theorem sockExit_pc (s : St) (e : Exc) : (sockExit s e).1.pc = s.pc := by
  have := core_sockExit s e; simp only [core, Core.mk.injEq] at this; exact this.2.1
@[simp] theorem sockExit_dnsWaitR (s : St) (e : Exc) : (sockExit s e).1.dnsWaitR = s.dnsWaitR := by
  have := core_sockExit s e; simp only [core, Core.mk.injEq] at this; exact this.2.2.2.2.1
@[simp] theorem sockExit_poolQ (s : St) (e : Exc) : (sockExit s e).1.poolQ = s.poolQ := by
  have := core_sockExit s e; simp only [core, Core.mk.injEq] at this; exact this.2.2.2.2.2.1
@[simp] theorem tcExit_pc (s : St) (e : Exc) : (tcExit s e).1.pc = s.pc := by
  have := core_tcExit s e; simp only [core, Core.mk.injEq] at this; exact this.2.1

theorem inv_throwAt (cfg : Cfg) (s : St) (e : Exc) (h : Inv s) : Inv (throwAt cfg s e) := by
  have h0 := h
  obtain ⟨p1, p2, p3, p4, p5, p6, p7⟩ := h
  simp only [core] at *
  unfold throwAt
  split
  · -- poolWait
    rename_i hp
    have hi : Inv { s with poolQ := s.poolQ.filter (· ≠ .R) } := by
      constructor <;> simp_all [core, activePc, Pc.isDone, List.mem_filter]
    have hcl : Clean { s with poolQ := s.poolQ.filter (· ≠ .R) } := clean_of_waiting h0 hp
    simp only []
    split
    · apply inv_connPhaseExit
      · exact inv_releaseWaiter cfg _ (Inv.of_core rfl hi)
      · obtain ⟨c1, c2, c3, c4⟩ := hcl
        refine ⟨by simpa using c1, by simpa using c2, by simpa using c3, ?_⟩
        intro hm; exact c4 (by simpa using mem_releaseWaiter_poolQ _ _ _ hm)
    · exact inv_connPhaseExit _ _ hi hcl
  · -- dnsOwner
    rename_i hp
    have hi : Inv { s with dnsWaitR := false } := by
      constructor <;> simp_all [core, activePc, Pc.isDone]
    have hq : Who.R ∉ s.poolQ := fun hm => by have := p5 hm; simp_all
    apply inv_connPhaseExit
    · exact inv_releasePlaceholder cfg _ hi (by simp [activePc, hp])
    · exact clean_releasePlaceholder cfg _ hi (by simp [activePc, hp]) rfl hq
  · -- dnsWaiter
    rename_i hp
    have hi : Inv { s with dnsWaitR := false } := by
      constructor <;> simp_all [core, activePc, Pc.isDone]
    have hq : Who.R ∉ s.poolQ := fun hm => by have := p5 hm; simp_all
    apply inv_connPhaseExit
    · exact inv_releasePlaceholder cfg _ hi (by simp [activePc, hp])
    · exact clean_releasePlaceholder cfg _ hi (by simp [activePc, hp]) rfl hq
  · -- connecting
    rename_i hp
    have hd : s.dnsWaitR = false := by
      cases hd : s.dnsWaitR
      · rfl
      · have := p4 hd; simp_all
    have hq : Who.R ∉ s.poolQ := fun hm => by have := p5 hm; simp_all
    have hi : Inv (sockExit { s with closedSocks := s.closedSocks + 1 } e).1 :=
      Inv.of_core (core_sockExit _ e) h0
    simp only []
    split
    · apply inv_attemptConn
      · exact Inv.of_core rfl hi
      · simp [activePc, hp]
      · simp [hp, Pc.isDone]
      · simpa using hd
      · simpa using hq
    · apply inv_connPhaseExit
      · exact inv_releasePlaceholder cfg _ hi (by simp [activePc, hp])
      · exact clean_releasePlaceholder cfg _ hi (by simp [activePc, hp]) (by simpa using hd)
          (by simpa using hq)
  · -- headers
    rename_i hp
    simp only []
    have hi : Inv (tcExit s e).1 := Inv.of_core (core_tcExit s e) h0
    have hpc : (tcExit s e).1.pc = .headers := by simp [hp]
    have ha : activePc (tcExit s e).1.pc := Or.inl hpc
    apply inv_finish'
    · exact Inv.of_core (core_tcExit _ _) (inv_closeConn cfg _ hi ha)
    · exact Clean.of_core (core_tcExit _ _) (closeConn_clean cfg _ hi ha)
  · -- body
    rename_i hp
    simp only []
    have hi : Inv (tcExit s e).1 := Inv.of_core (core_tcExit s e) h0
    have hpc : (tcExit s e).1.pc = .body := by simp [hp]
    have ha : activePc (tcExit s e).1.pc := Or.inr (Or.inr hpc)
    exact inv_finish' _ _ (inv_closeConn cfg _ hi ha) (closeConn_clean cfg _ hi ha)
  · -- think
    rename_i hp
    have ha : activePc s.pc := Or.inr (Or.inl hp)
    exact inv_finish' _ _ (inv_releaseConn cfg _ h0 ha) (releaseConn_clean cfg _ h0 ha)
  · exact h0


theorem inv_setActive (s : St) (p : Pc) (h : Inv s) (ha : activePc s.pc) (hp : activePc p) :
    Inv { s with pc := p, wake := none } := by
  obtain ⟨p1, p2, p3, p4, p5, p6, p7⟩ := h
  rcases ha with ha | ha | ha <;> rcases hp with hp | hp | hp <;>
    constructor <;> simp_all [core, activePc, Pc.isDone]

theorem inv_setActive' (s : St) (p : Pc) (h : Inv s) (ha : activePc s.pc) (hp : activePc p) :
    Inv { s with pc := p } := by
  obtain ⟨p1, p2, p3, p4, p5, p6, p7⟩ := h
  rcases ha with ha | ha | ha <;> rcases hp with hp | hp | hp <;>
    constructor <;> simp_all [core, activePc, Pc.isDone]

@[simp] theorem consume_pc (cfg : Cfg) (s : St) : (consume cfg s).pc = s.pc := by
  have := core_consume cfg s; simp only [core, Core.mk.injEq] at this; exact this.2.1

theorem inv_readBody (cfg : Cfg) (s : St) (h : Inv s) (ha : activePc s.pc) :
    Inv (readBody cfg s).1 ∧ ((readBody cfg s).2.isSome → activePc (readBody cfg s).1.pc) := by
  unfold readBody
  split
  · exact ⟨h, fun _ => ha⟩
  · split
    · exact ⟨h, fun _ => ha⟩
    · simp only []
      have hi : Inv (if s.buffered > 0 then consume cfg s else s) := by
        split
        · exact Inv.of_core (core_consume cfg s) h
        · exact h
      have hpc : (if s.buffered > 0 then consume cfg s else s).pc = s.pc := by split <;> simp
      have ha' : activePc (if s.buffered > 0 then consume cfg s else s).pc := by rw [hpc]; exact ha
      generalize (if s.buffered > 0 then consume cfg s else s) = s1 at *
      split
      · exact ⟨inv_finish' _ _ (inv_releaseConn cfg _ hi ha') (releaseConn_clean cfg _ hi ha'), by simp⟩
      · exact ⟨inv_setActive _ _ hi ha' (Or.inr (Or.inr rfl)), by simp⟩

theorem inv_afterHeaders (cfg : Cfg) (s : St) (h : Inv s) (ha : activePc s.pc) :
    Inv (afterHeaders cfg s).1 ∧ ((afterHeaders cfg s).2.isSome → activePc (afterHeaders cfg s).1.pc) := by
  unfold afterHeaders
  simp only []
  have h1 : Inv { s with hdrAt := some s.now } := Inv.of_core rfl h
  have hi : Inv (if s.eof = true then releaseConn cfg { s with hdrAt := some s.now } else { s with hdrAt := some s.now }) := by
    split
    · exact inv_releaseConn cfg _ h1 ha
    · exact h1
  have hpc : (if s.eof = true then releaseConn cfg { s with hdrAt := some s.now } else { s with hdrAt := some s.now }).pc = s.pc := by
    split <;> simp
  have ha' : activePc (if s.eof = true then releaseConn cfg { s with hdrAt := some s.now } else { s with hdrAt := some s.now }).pc := by
    rw [hpc]; exact ha
  generalize (if s.eof = true then releaseConn cfg { s with hdrAt := some s.now } else { s with hdrAt := some s.now }) = s1 at *
  split
  · refine ⟨?_, by simp⟩
    have := inv_setActive' s1 .think hi ha' (Or.inr (Or.inl rfl))
    exact Inv.of_core rfl this
  · exact inv_readBody cfg s1 hi ha'


@[simp] theorem connExit_core' (s : St) (e : Exc) : core (connExit s e).1 = core s := core_connExit s e

theorem inv_afterConnect (cfg : Cfg) (s : St) (h : Inv s) (hp : s.pc = .connecting) :
    Inv (afterConnect cfg s) := by
  unfold afterConnect
  simp only []
  have hc : core (connExit (sockExit s .timeout).1 .timeout).1 = core s := by simp
  have hi : Inv (connExit (sockExit s .timeout).1 .timeout).1 := Inv.of_core hc h
  generalize (connExit (sockExit s .timeout).1 .timeout).1 = s1 at *
  simp only [core, Core.mk.injEq] at hc
  obtain ⟨c1, c2, c3, c4, c5, c6, c7, c8, c9⟩ := hc
  obtain ⟨p1, p2, p3, p4, p5, p6, p7⟩ := hi
  simp only [core] at *
  have hrel : s1.respReleased = false := by
    cases hr : s1.respReleased
    · rfl
    · have := p7 hr; simp_all [activePc, Pc.isDone]
  have hd : s1.dnsWaitR = false := by
    cases hd : s1.dnsWaitR
    · rfl
    · have := p4 hd; simp_all
  have hq : Who.R ∉ s1.poolQ := fun hm => by have := p5 hm; simp_all
  split
  · constructor <;> simp_all [core, activePc, Pc.isDone]
  · split
    · constructor <;> simp_all [core, activePc, Pc.isDone]
    · apply Inv.of_core (s := { s1 with tr := .open, slot := .proto, pc := .headers })
      · have := core_reschedRead cfg { s1 with tr := .open, slot := .proto, reqSent := true }
        simp only [core, Core.mk.injEq] at this ⊢
        simp_all
      · constructor <;> simp_all [core, activePc, Pc.isDone]

@[simp] theorem core_armConn (cfg : Cfg) (s : St) : core (armConn cfg s) = core s := by
  unfold armConn; splits

theorem inv_redirectStep (cfg : Cfg) (s : St) (h : Inv s) : Inv (redirectStep cfg s) := by
  unfold redirectStep
  simp only []
  have h0 : Inv (resetHop s) := by
    unfold resetHop
    constructor <;> simp [core, activePc, Pc.isDone, List.mem_filter] <;> (try split) <;> simp_all
  have hp0 : (resetHop s).pc = .idle := rfl
  have hq0 : Who.R ∉ (resetHop s).poolQ := by simp [resetHop, List.mem_filter]
  have h1 := inv_releaseWaiter cfg _ h0
  have hp1 : (releaseWaiter cfg (resetHop s)).pc = .idle := by simp [hp0]
  have hq1 : Who.R ∉ (releaseWaiter cfg (resetHop s)).poolQ := fun hm => hq0 (mem_releaseWaiter_poolQ _ _ _ hm)
  generalize releaseWaiter cfg (resetHop s) = s1 at *
  have h2 : Inv (armConn cfg s1) := Inv.of_core (core_armConn cfg s1) h1
  have hc := core_armConn cfg s1
  simp only [core, Core.mk.injEq] at hc
  split
  · obtain ⟨p1, p2, p3, p4, p5, p6, p7⟩ := h2
    constructor <;> simp_all [core, activePc, Pc.isDone]
  · apply inv_createConn _ _ h2
    · left; rw [hc.2.1]; exact hp1
    · rw [hc.2.2.2.2.2.1]; exact hq1

theorem inv_resumeR (cfg : Cfg) (s : St) (h : Inv s) : Inv (resumeR cfg s) := by
  unfold resumeR
  split
  · exact h
  · split
    · exact inv_throwAt cfg _ _ (Inv.of_core rfl h)
    · split
      · exact h
      · exact inv_throwAt cfg _ _ (Inv.of_core rfl h)
      · have h' : Inv { s with wake := none } := Inv.of_core rfl h
        simp only []
        split
        · rename_i hp
          have hp' : s.pc = .poolWait := hp
          apply inv_createConn
          · obtain ⟨p1, p2, p3, p4, p5, p6, p7⟩ := h
            constructor <;> simp_all [core, activePc, Pc.isDone, List.mem_filter]
          · right; exact hp
          · simp [List.mem_filter]
        · rename_i hp
          have hp' : s.pc = .dnsOwner := hp
          obtain ⟨p1, p2, p3, p4, p5, p6, p7⟩ := h
          simp only [core] at *
          apply inv_attemptConn
          · constructor <;> simp_all [core, activePc, Pc.isDone]
          · simp [activePc, hp']
          · simp [hp', Pc.isDone]
          · rfl
          · intro hm; have := p5 hm; simp_all
        · rename_i hp
          have hp' : s.pc = .dnsWaiter := hp
          obtain ⟨p1, p2, p3, p4, p5, p6, p7⟩ := h
          simp only [core] at *
          apply inv_attemptConn
          · constructor <;> simp_all [core, activePc, Pc.isDone]
          · simp [activePc, hp']
          · simp [hp', Pc.isDone]
          · rfl
          · intro hm; have := p5 hm; simp_all
        · rename_i hp
          split
          · exact Inv.of_core rfl h'
          · exact inv_afterConnect cfg _ (Inv.of_core rfl h') hp
        · rename_i hp
          split
          · exact inv_redirectStep cfg _ h'
          have ha : activePc ({ s with wake := none } : St).pc := Or.inl hp
          have := inv_afterHeaders cfg _ h' ha
          split
          · rename_i heq; rw [heq] at this; exact this.1
          · rename_i heq; rw [heq] at this
            apply inv_throwAt
            exact inv_setActive' _ _ this.1 (this.2 rfl) (Or.inr (Or.inr rfl))
        · rename_i hp
          have h'' : Inv { ({ s with wake := none } : St) with thinkT := none } := Inv.of_core rfl h'
          have ha : activePc ({ ({ s with wake := none } : St) with thinkT := none } : St).pc := Or.inr (Or.inl hp)
          have := inv_readBody cfg _ h'' ha
          split
          · rename_i heq; rw [heq] at this; exact this.1
          · rename_i heq; rw [heq] at this
            apply inv_throwAt
            exact inv_setActive' _ _ this.1 (this.2 rfl) (Or.inr (Or.inr rfl))
        · rename_i hp
          have ha : activePc ({ s with wake := none } : St).pc := Or.inr (Or.inr hp)
          have := inv_readBody cfg _ h' ha
          split
          · rename_i heq; rw [heq] at this; exact this.1
          · rename_i heq; rw [heq] at this
            apply inv_throwAt
            exact inv_setActive' _ _ this.1 (this.2 rfl) (Or.inr (Or.inr rfl))
        · exact h'


theorem inv_releaseConn_open (cfg : Cfg) (s : St) (h : Inv s) (ho : s.tr = .open) : Inv (releaseConn cfg s) := by
  rcases h.p6 ho with hs | ⟨-, -, hr⟩
  · exact inv_releaseConn cfg s h (h.p2 hs).1
  · unfold releaseConn; simp only [core] at hr; simp [hr]; exact h

theorem inv_eofMono (s : St) (b : Bool) (n : Nat) (hd : Bool) (h : Inv s) :
    Inv { s with headDone := hd, buffered := n, eof := s.eof || b } := by
  obtain ⟨p1, p2, p3, p4, p5, p6, p7⟩ := h
  constructor <;> simp_all [core, activePc, Pc.isDone]
  intro ho; rcases p6 ho with h | h
  · exact Or.inl h
  · exact Or.inr ⟨h.1, Or.inl h.2.1, h.2.2⟩

theorem inv_setWake (s : St) (w : Option Wake) (h : Inv s) : Inv { s with wake := w } := Inv.of_core rfl h

theorem inv_interimStep (cfg : Cfg) (s : St) (h : Inv s) : Inv (interimStep cfg s) := by
  unfold interimStep
  simp only []
  have h1 : Inv (if (Gen.C18.interimKeepsTimerWhenSent && s.reqSent) = true then s else dropRead s) := by
    split
    · exact h
    · exact Inv.of_core (core_dropRead s) h
  generalize (if (Gen.C18.interimKeepsTimerWhenSent && s.reqSent) = true then s else dropRead s) = s1 at *
  split
  · split
    · exact Inv.of_core rfl h1
    · apply Inv.of_core (core_reschedRead cfg _)
      obtain ⟨p1, p2, p3, p4, p5, p6, p7⟩ := h1
      constructor <;> simp_all [core, activePc, Pc.isDone]
  · exact h1

theorem inv_deliverCore (cfg : Cfg) (s : St) (p : Piece) (h : Inv s) : Inv (deliverCore cfg s p) := by
  unfold deliverCore
  split
  · exact h
  · rename_i ho
    have ho : s.tr = .open := by simpa using ho
    split
    · exact Inv.of_core rfl h
    · simp only []
      have h1 : Inv (if p.n > 0 then reschedRead cfg s else s) := by
        split
        · exact Inv.of_core (core_reschedRead cfg s) h
        · exact h
      have ho1 : (if p.n > 0 then reschedRead cfg s else s).tr = .open := by
        split
        · have := core_reschedRead cfg s; simp only [core, Core.mk.injEq] at this; rw [this.2.2.2.2.2.2.1]; exact ho
        · exact ho
      generalize (if p.n > 0 then reschedRead cfg s else s) = s1 at *
      split
      · split
        · split
          · exact inv_interimStep cfg s1 h1
          · exact h1
        · have h2 := inv_eofMono s1 p.eof (s1.buffered + p.bodyBytes) true h1
          have h3 : Inv (if p.eof = true then dropRead { s1 with headDone := true, buffered := s1.buffered + p.bodyBytes, eof := s1.eof || p.eof }
                        else pauseCheck cfg { s1 with headDone := true, buffered := s1.buffered + p.bodyBytes, eof := s1.eof || p.eof }) := by
            split
            · exact Inv.of_core (core_dropRead _) h2
            · exact Inv.of_core (core_pauseCheck cfg _) h2
          generalize (if p.eof = true then dropRead { s1 with headDone := true, buffered := s1.buffered + p.bodyBytes, eof := s1.eof || p.eof }
                        else pauseCheck cfg { s1 with headDone := true, buffered := s1.buffered + p.bodyBytes, eof := s1.eof || p.eof }) = s3 at *
          split
          · exact inv_setWake _ _ h3
          · exact h3
      · have h2 := inv_eofMono s1 p.eof (s1.buffered + p.bodyBytes) s1.headDone h1
        have e2 : ({ s1 with headDone := s1.headDone, buffered := s1.buffered + p.bodyBytes, eof := s1.eof || p.eof } : St) =
                  { s1 with buffered := s1.buffered + p.bodyBytes, eof := s1.eof || p.eof } := rfl
        rw [e2] at h2
        have ho2 : ({ s1 with buffered := s1.buffered + p.bodyBytes, eof := s1.eof || p.eof } : St).tr = .open := ho1
        generalize ({ s1 with buffered := s1.buffered + p.bodyBytes, eof := s1.eof || p.eof } : St) = s2 at *
        have h3 : Inv (if p.eof = true then dropRead s2 else pauseCheck cfg s2) := by
          split
          · exact Inv.of_core (core_dropRead _) h2
          · exact Inv.of_core (core_pauseCheck cfg _) h2
        have ho3 : (if p.eof = true then dropRead s2 else pauseCheck cfg s2).tr = .open := by
          split
          · exact ho2
          · have := core_pauseCheck cfg s2; simp only [core, Core.mk.injEq] at this; rw [this.2.2.2.2.2.2.1]; exact ho2
        generalize (if p.eof = true then dropRead s2 else pauseCheck cfg s2) = s3 at *
        have h4 : Inv (if p.eof = true ∧ s3.hdrAt.isSome = true then releaseConn cfg s3 else s3) := by
          split
          · exact inv_releaseConn_open cfg s3 h3 ho3
          · exact h3
        generalize (if p.eof = true ∧ s3.hdrAt.isSome = true then releaseConn cfg s3 else s3) = s4 at *
        split
        · exact inv_setWake _ _ h4
        · exact h4

theorem inv_deliver (cfg : Cfg) (s : St) (p : Piece) (h : Inv s) : Inv (deliver cfg s p) := by
  unfold deliver
  simp only []
  split
  · exact Inv.of_core rfl (inv_deliverCore cfg s p h)
  · exact inv_deliverCore cfg s p h

theorem inv_flushQueued (cfg : Cfg) (n : Nat) (s : St) (h : Inv s) : Inv (flushQueued cfg n s) := by
  induction n generalizing s with
  | zero => exact h
  | succ n ih =>
    unfold flushQueued
    split
    · exact h
    · split
      · exact h
      · exact ih _ (inv_deliver cfg _ _ (Inv.of_core rfl h))


theorem inv_releaseConn_or (cfg : Cfg) (s : St) (h : Inv s) (ha : activePc s.pc ∨ s.respReleased = true) :
    Inv (releaseConn cfg s) := by
  rcases ha with ha | hr
  · exact inv_releaseConn cfg s h ha
  · unfold releaseConn; simp [hr]; exact h

theorem inv_peerEof (cfg : Cfg) (s : St) (h : Inv s) : Inv (applyEv cfg s .peerEof) := by
  simp only [applyEv]
  split
  · exact h
  · obtain ⟨p1, p2, p3, p4, p5, p6, p7⟩ := h
    constructor <;> simp_all [core, activePc, Pc.isDone]

theorem activePc_of_active {p : Pc} (h : p.active = true) : activePc p := by
  cases p <;> simp_all [Pc.active, activePc]

theorem inv_lostStep (cfg : Cfg) (s : St) (h : Inv s) : Inv (lostStep cfg s) := by
  unfold lostStep
  split
  · exact h
  · simp only []
    have h1 : Inv (peerClosed cfg s) := by
      obtain ⟨p1, p2, p3, p4, p5, p6, p7⟩ := h
      unfold peerClosed
      constructor <;> simp_all [core, activePc, Pc.isDone]
      intro ho; rcases p6 ho with hh | hh
      · exact Or.inl hh
      · exact Or.inr ⟨hh.1, Or.inl hh.2.1, hh.2.2⟩
    generalize peerClosed cfg s = s1 at *
    have h2 : Inv (if s1.eof = true ∧ s1.hdrAt.isSome = true ∧ s1.pc.active = true then releaseConn cfg s1 else s1) := by
      split
      · rename_i hc; exact inv_releaseConn cfg s1 h1 (activePc_of_active hc.2.2)
      · exact h1
    generalize (if s1.eof = true ∧ s1.hdrAt.isSome = true ∧ s1.pc.active = true then releaseConn cfg s1 else s1) = s2 at *
    split
    · exact Inv.of_core rfl h2
    · exact h2

theorem inv_applyEv (cfg : Cfg) (s : St) (ev : Ev) (h : Inv s) : Inv (applyEv cfg s ev) := by
  cases ev with
  | startH => exact Inv.of_core rfl h
  | startR => exact inv_startR cfg s h
  | startC =>
    simp only [applyEv]
    split
    · exact h
    · split
      · split
        · obtain ⟨p1, p2, p3, p4, p5, p6, p7⟩ := h
          constructor <;> simp_all [core, activePc, Pc.isDone]
        · exact Inv.of_core rfl h
      · split
        · exact Inv.of_core rfl h
        · split <;> exact Inv.of_core rfl h
  | holderRelease =>
    simp only [applyEv]; split
    · exact h
    · exact Inv.of_core rfl h
  | dnsAnswer =>
    have : core (applyEv cfg s .dnsAnswer) = core s := by
      simp only [applyEv]; splits
    exact Inv.of_core this h
  | connDone i =>
    simp only [applyEv]; split
    · exact Inv.of_core rfl h
    · exact h
  | tlsDone i =>
    simp only [applyEv]; split
    · exact Inv.of_core rfl h
    · exact h
  | writeResume =>
    simp only [applyEv]
    split
    · apply Inv.of_core (core_reschedRead cfg _)
      obtain ⟨p1, p2, p3, p4, p5, p6, p7⟩ := h
      constructor <;> simp_all [core, activePc, Pc.isDone]
    · exact h
  | bytes p => exact inv_deliver cfg s p h
  | peerEof => exact inv_peerEof cfg s h
  | cancel => exact inv_taskCancel s h
  | cancelLate => exact h

theorem inv_fireTimer (cfg : Cfg) (s : St) (k : TK) (h : Inv s) : Inv (fireTimer cfg s k) := by
  cases k with
  | total =>
    simp only [fireTimer]
    split
    · exact Inv.of_core rfl h
    · split
      · exact Inv.of_core rfl (inv_taskCancel _ (Inv.of_core rfl h))
      · exact Inv.of_core rfl h
  | conn => simp only [fireTimer]; exact Inv.of_core rfl (inv_taskCancel _ h)
  | sock => simp only [fireTimer]; exact Inv.of_core rfl (inv_taskCancel _ h)
  | read =>
    simp only [fireTimer]; split
    · exact Inv.of_core rfl h
    · exact Inv.of_core rfl h
  | think =>
    simp only [fireTimer]; split
    · exact Inv.of_core rfl h
    · exact Inv.of_core rfl h

theorem inv_fireDue (cfg : Cfg) (t n : Nat) (s : St) (h : Inv s) : Inv (fireDue cfg t n s) := by
  induction n generalizing s with
  | zero => exact h
  | succ n ih =>
    unfold fireDue
    split
    · split
      · exact ih _ (inv_fireTimer cfg _ _ h)
      · exact h
    · exact h

theorem inv_settle (cfg : Cfg) (n : Nat) (s : St) (h : Inv s) : Inv (settle cfg n s) := by
  induction n generalizing s with
  | zero => exact h
  | succ n ih =>
    unfold settle
    simp only []
    have hd : Inv (applyDeferred s) := by
      unfold applyDeferred; split
      · exact Inv.of_core rfl h
      · exact h
    have h' := inv_flushQueued cfg 8 _ (inv_resumeR cfg _ hd)
    split
    · exact ih _ h'
    · exact h'

theorem inv_advance (cfg : Cfg) (t n : Nat) (s : St) (h : Inv s) : Inv (advance cfg t n s) := by
  induction n generalizing s with
  | zero => exact h
  | succ n ih =>
    unfold advance
    split
    · split
      · exact ih _ (inv_settle cfg _ _ (inv_fireDue cfg _ _ _ (Inv.of_core rfl h)))
      · exact h
    · exact h

theorem inv_holderStep (cfg : Cfg) (s : St) (h : Inv s) : Inv (holderStep cfg s) := by
  unfold holderStep; split
  · exact inv_releaseWaiter cfg _ (Inv.of_core rfl h)
  · exact h

theorem inv_foldEv (cfg : Cfg) (evs : List Ev) (s : St) (h : Inv s) : Inv (evs.foldl (applyEv cfg) s) := by
  induction evs generalizing s with
  | nil => exact h
  | cons e es ih => exact ih _ (inv_applyEv cfg s e h)

theorem inv_instant (cfg : Cfg) (s : St) (t : Nat) (evs : List Ev) (h : Inv s) : Inv (instant cfg s t evs) := by
  unfold instant
  simp only []
  apply inv_settle
  have h1 := inv_advance cfg t 64 s h
  have h2 : Inv { advance cfg t 64 s with now := max (advance cfg t 64 s).now t } := Inv.of_core rfl h1
  have h3 := inv_foldEv cfg evs _ h2
  have h4 := inv_fireDue cfg (List.foldl (applyEv cfg) { advance cfg t 64 s with now := max (advance cfg t 64 s).now t } evs).now 8 _ h3
  have h5 := inv_lostStep cfg _ (inv_holderStep cfg _ h4)
  split
  · exact inv_taskCancel _ h5
  · exact h5

theorem inv_run (cfg : Cfg) (tl : List (Nat × List Ev)) (s : St) (h : Inv s) : Inv (run cfg s tl) := by
  induction tl generalizing s with
  | nil => exact h
  | cons x xs ih => exact ih _ (inv_instant cfg s x.1 x.2 h)

end Aio.C18
