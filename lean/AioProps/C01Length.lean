import AioProps.C03
/-!
# C01: a Content-Length body ends exactly `n` bytes after the head — for every sequence of reads

`length_body_compositional` (C03.lean) is the two-read fact.  This file states the *framing* clause
of C01 for `Content-Length: n` bodies outright, over every way the bytes can arrive:

* `lengthRun` runs `HttpPayloadParser.feed_data` over a list of reads the way `HttpParser.feed_data`
  does: as long as the body asks for more the next read goes to it; once it completes, the surplus
  of that read and all later reads belong to the next message.
* `content_length_body_exact`: for every `n ≠ 0` and every list of reads `ds` (any number, any
  sizes, empty reads included) — if fewer than `n` bytes have arrived the body is still open, has
  delivered every byte so far and waits for exactly the missing count; otherwise it has delivered
  exactly the first `n` bytes, reported completion exactly once (on the read in which the `n`-th
  byte arrived) and handed back exactly the bytes after the `n`-th.  No byte of the next message is
  taken for body data and no body byte is read as the next message, whatever the segmentation.
* `content_length_body_events`: a read never emits anything but data and, on completion, one `eof`.
* `close_delimited_body_exact`, `bodiless_takes_nothing`: the same run for the other two unchunked
  framings.
-/
namespace Aio.Http

/-- outcome of a run of reads on one body -/
inductive RunEnd where
  | waiting (p : PState)           -- still open, this state
  | done (surplus : Bytes)         -- completed; these bytes belong to the next message
  | raised
deriving Repr

/-- reads `ds` given one after another to a body parser in state `p`: bytes delivered, number of
`eof` (completion) events, and how the run ended -/
def lengthRun (cfg : Cfg) : PState → List Bytes → Bytes × Nat × RunEnd
  | p, [] => ([], 0, .waiting p)
  | p, d :: ds =>
    match payloadFeed cfg p d with
    | (.needs p', ev) =>
      let r := lengthRun cfg p' ds
      (dataOf ev ++ r.1, (ev.filter (fun e => e matches .eof)).length + r.2.1, r.2.2)
    | (.complete rest, ev) => (dataOf ev, (ev.filter (fun e => e matches .eof)).length, .done (rest ++ ds.flatten))
    | (.err _ _, ev) => (dataOf ev, (ev.filter (fun e => e matches .eof)).length, .raised)

private theorem dataEv_no_eof (bs : Bytes) : (dataEv bs).filter (fun e => e matches .eof) = [] := by
  unfold dataEv; split <;> simp

private theorem dataOf_dataEv' (bs : Bytes) : dataOf (dataEv bs) = bs := by
  have := dataOf_dataEv bs []
  simpa [dataOf] using this

/-- **Content-Length framing, every segmentation.** -/
theorem content_length_body_exact (cfg : Cfg) (ds : List Bytes) (p : PState)
    (ht : p.type = .length) (hn : p.length ≠ 0) :
    lengthRun cfg p ds =
      if ds.flatten.length < p.length
      then (ds.flatten, 0, .waiting { p with length := p.length - ds.flatten.length })
      else (ds.flatten.take p.length, 1, .done (ds.flatten.drop p.length)) := by
  induction ds generalizing p with
  | nil =>
    have : 0 < p.length := Nat.pos_of_ne_zero hn
    simp [lengthRun, this]
  | cons d ds ih =>
    rcases p with ⟨ty, len, cs, csz, tl, trl, mt⟩
    simp only at ht hn
    subst ht
    by_cases hd : d.length < len
    · -- the read does not complete the body
      have h1 : len - d.length ≠ 0 := by omega
      have hpf : payloadFeed cfg ⟨.length, len, cs, csz, tl, trl, mt⟩ d
          = (.needs ⟨.length, len - d.length, cs, csz, tl, trl, mt⟩, dataEv (d.take len)) := by
        simp [payloadFeed, h1]
      have hih := ih ⟨.length, len - d.length, cs, csz, tl, trl, mt⟩ rfl h1
      simp only [lengthRun, hpf, hih, dataOf_dataEv', dataEv_no_eof, List.flatten_cons,
        List.length_append, List.take_of_length_le (Nat.le_of_lt hd)]
      by_cases hr : ds.flatten.length < len - d.length
      · have : d.length + ds.flatten.length < len := by omega
        simp only [hr, this, if_true]
        simp
        omega
      · have : ¬ d.length + ds.flatten.length < len := by omega
        simp only [hr, this, if_false]
        simp only [List.length_nil, Nat.zero_add]
        refine Prod.ext ?_ (Prod.ext rfl ?_)
        · simp only
          rw [List.take_append]
          simp [List.take_of_length_le (Nat.le_of_lt hd)]
        · simp only
          rw [List.drop_append]
          simp [List.drop_of_length_le (Nat.le_of_lt hd)]
    · -- the `len`-th byte is in this read
      have h0 : len - d.length = 0 := by omega
      have hpf : payloadFeed cfg ⟨.length, len, cs, csz, tl, trl, mt⟩ d
          = (.complete (d.drop len), dataEv (d.take len) ++ [.eof]) := by
        simp [payloadFeed, h0]
      have hle : len ≤ d.length := by omega
      have : ¬ d.length + ds.flatten.length < len := by omega
      simp only [lengthRun, hpf, List.flatten_cons, List.length_append, this, if_false]
      refine Prod.ext ?_ (Prod.ext ?_ ?_)
      · simp only
        have := dataOf_dataEv (d.take len) [.eof]
        rw [this]
        simp only [dataOf, List.append_nil]
        rw [List.take_append_of_le_length hle]
      · simp [List.filter_append, dataEv_no_eof]
      · simp only
        rw [List.drop_append_of_le_length hle]

/-- **Nothing but data and one completion.** What a read of a Content-Length body emits is, at most,
one data event followed — only when the body completes — by one `eof`. -/
theorem content_length_body_events (cfg : Cfg) (p : PState) (d : Bytes) (ht : p.type = .length) :
    (payloadFeed cfg p d).2 = dataEv (d.take p.length) ∨
    ((payloadFeed cfg p d).2 = dataEv (d.take p.length) ++ [.eof] ∧
      (payloadFeed cfg p d).1 = .complete (d.drop p.length) ∧ p.length ≤ d.length) := by
  rcases p with ⟨ty, len, cs, csz, tl, trl, mt⟩
  simp only at ht; subst ht
  simp only [payloadFeed]
  split
  · next h =>
    right
    refine ⟨rfl, rfl, ?_⟩
    have : len - d.length = 0 := by simpa using h
    omega
  · left; rfl

/-- **Close-delimited bodies, every segmentation.** A body without Content-Length or chunked coding
(responses; requests never get one) takes every byte of every read as data, never reports completion
on its own — only `feed_eof()` ends it — and hands nothing back. -/
theorem close_delimited_body_exact (cfg : Cfg) (ds : List Bytes) (p : PState) (ht : p.type = .untilEof) :
    lengthRun cfg p ds = (ds.flatten, 0, .waiting p) := by
  induction ds with
  | nil => simp [lengthRun]
  | cons d ds ih =>
    have hpf : payloadFeed cfg p d = (.needs p, dataEv d) := by
      rcases p with ⟨ty, len, cs, csz, tl, trl, mt⟩
      simp only at ht; subst ht
      simp [payloadFeed]
    simp only [lengthRun, hpf, ih, dataOf_dataEv', dataEv_no_eof, List.flatten_cons, List.length_nil,
      Nat.zero_add]

/-- **Bodiless messages** (`PType.none`: HEAD responses, 1xx/204/304) take nothing: every read is
left alone, no data, no completion. -/
theorem bodiless_takes_nothing (cfg : Cfg) (ds : List Bytes) (p : PState) (ht : p.type = .none) :
    (lengthRun cfg p ds).1 = [] ∧ (lengthRun cfg p ds).2.1 = 0 := by
  induction ds with
  | nil => simp [lengthRun]
  | cons d ds ih =>
    have hpf : payloadFeed cfg p d = (.needs p, []) := by
      rcases p with ⟨ty, len, cs, csz, tl, trl, mt⟩
      simp only at ht; subst ht
      simp [payloadFeed]
    simp only [lengthRun, hpf]
    simpa [dataOf] using ih

/-- non-vacuity: `Content-Length: 5`, bytes arriving as `ab`, ``, `cde12`, `3` — the body is `abcde`,
completion is reported once, `123` belongs to the next message -/
example :
    let r := lengthRun {} { type := .length, length := 5 } [[97, 98], [], [99, 100, 101, 49, 50], [51]]
    r.1 = [97, 98, 99, 100, 101] ∧ r.2.1 = 1 ∧
      (match r.2.2 with | .done s => s == [49, 50, 51] | _ => false) = true := by
  decide +kernel

/-- and one byte short: still open, waiting for exactly one more -/
example :
    (match (lengthRun {} { type := .length, length := 5 } [[97, 98], [99, 100]]).2.2 with
      | .waiting q => q.length == 1 | _ => false) = true := by
  decide +kernel

end Aio.Http
